#!/usr/bin/env python3
"""vf/replay.py <replay file> — re-run the native replay recorded in a violation's replay file
against the repository's current working tree (gcc + ASan/UBSan, real translation unit, the
unit's stubs, IN fixed to the verifier's counterexample).  Exit 1 if the failure reproduces."""
import json, os, sys
sys.path.insert(0, os.path.dirname(os.path.abspath(__file__)))
import driver
rec = json.load(open(sys.argv[1]))
u = driver.load_unit(rec["unit"])
nat = driver.native_replay(u, rec.get("counterexample_IN"), extra_defines=tuple(rec.get("defines", [])))
print("obligation:", rec["failed_obligation"], "-", rec["obligation_text"])
print("IN:", json.dumps(rec.get("counterexample_IN")))
print(nat.get("output", ""))
print("reproduced:", nat.get("reproduced"))
sys.exit(1 if nat.get("reproduced") else 0)
