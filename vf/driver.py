#!/usr/bin/env python3
"""vf/driver.py — runs verification units (DESIGN.md §2, §6).

A unit is a directory units/<name>/ with
  unit.c      #include "vf.h", #include "<real file>.c" (found through -I<repo>), contracts, stubs, harness()
  unit.json   how to instrument and what is claimed (see UNIT_DEFAULTS)
  loops.json  optional loop contracts, addressed by (function, ordinal of the real loop statement)

Nothing is cached: every run recompiles the unit from the repository's current working tree.
Exit-code semantics live in check.py; this module only produces result records.
"""
import json, os, re, resource, shutil, subprocess, sys, tempfile, time

VERIF = os.path.dirname(os.path.dirname(os.path.abspath(__file__)))
REPO = os.environ.get("VF_REPO", "/repo")
BUILD_REPO = "/repo"                      # where _build/ (config headers, build.ninja) lives
WORK = os.path.join(VERIF, ".work")
GUARD = "LIBEVENT_VERIF"

UNIT_DEFAULTS = {
    "props": [], "tu": None, "functions": [], "mode": "dfcc",
    "enforce": [], "replace": [], "replace_calls": [], "restrict_fp": [], "unwindset": [],
    "cbmc": {}, "label": "proved-unbounded", "bound": "none", "trusted": [],
    "min_obligations": 1, "timeout": 120, "timeout_thorough": 900, "mem_gb": 6,
    "tiers": ["quick", "thorough"], "defines": [], "defines_thorough": [], "defines_quick": [],
    "exclude": [], "allow_no_body": [], "replaced_verified_in": {}, "canary": True,
    "ndebug": True, "known_finding": None, "native": True,
}

FALLBACK_FLAGS = ["-DHAVE_CONFIG_H", "-I/repo/_build/include", "-I/repo/include", "-I/repo/compat", "-I/repo"]


def log(*a):
    print(*a, file=sys.stderr, flush=True)


def build_flags(tu, ndebug=True):
    """-D/-I flags the real build uses for this translation unit (from build.ninja)."""
    flags = None
    ninja = os.path.join(BUILD_REPO, "_build", "build.ninja")
    if tu and os.path.exists(ninja):
        txt = open(ninja, errors="replace").read()
        m = re.search(r"^build CMakeFiles/event(?:_core|_extra)?_static\.dir/%s\.o:.*?\n((?:  .*\n)+)" % re.escape(tu), txt, re.M)
        if m:
            blk = m.group(1)
            d = re.search(r"^  DEFINES = (.*)$", blk, re.M)
            i = re.search(r"^  INCLUDES = (.*)$", blk, re.M)
            f = re.search(r"^  FLAGS = (.*)$", blk, re.M)
            flags = []
            if d: flags += d.group(1).split()
            if f: flags += [x for x in f.group(1).split() if x.startswith("-D") and x != "-DNDEBUG"]
            if i: flags += i.group(1).split()
    if flags is None:
        flags = list(FALLBACK_FLAGS)
    out = []
    for x in flags:
        if x.startswith("-I" + BUILD_REPO) and REPO != BUILD_REPO and not x.startswith("-I" + BUILD_REPO + "/_build"):
            x = "-I" + REPO + x[2 + len(BUILD_REPO):]
        if x == "-DTINYTEST_LOCAL":
            continue
        out.append(x)
    if ndebug:
        out.append("-DNDEBUG")
    return out


def _limits(mem_gb):
    def f():
        lim = int(mem_gb * (1 << 30))
        resource.setrlimit(resource.RLIMIT_AS, (lim, lim))
        os.setsid()
    return f


def run(cmd, timeout, mem_gb=8, cwd=None, stdout_path=None):
    t0 = time.time()
    try:
        if stdout_path:
            with open(stdout_path, "wb") as so:
                p = subprocess.run(cmd, stdout=so, stderr=subprocess.PIPE, timeout=timeout, cwd=cwd, preexec_fn=_limits(mem_gb))
            out = ""
        else:
            p = subprocess.run(cmd, stdout=subprocess.PIPE, stderr=subprocess.PIPE, timeout=timeout, cwd=cwd, preexec_fn=_limits(mem_gb))
            out = p.stdout.decode(errors="replace")
        return p.returncode, out, p.stderr.decode(errors="replace"), time.time() - t0
    except subprocess.TimeoutExpired as e:
        return -999, "", "TIMEOUT after %ss" % timeout, time.time() - t0


def load_unit(name):
    d = os.path.join(VERIF, "units", name)
    u = dict(UNIT_DEFAULTS)
    u.update(json.load(open(os.path.join(d, "unit.json"))))
    u["name"] = name
    u["dir"] = d
    return u


def all_units():
    r = []
    base = os.path.join(VERIF, "units")
    for n in sorted(os.listdir(base)):
        if os.path.exists(os.path.join(base, n, "unit.json")):
            r.append(load_unit(n))
    return r


REAL_LOOP_RE = re.compile(r"\b(for|while)\s*\(|\bdo\s*\{?\s*$|_FOREACH|\bdo\b")
MACRO_LOOP_RE = re.compile(r"while\s*\(\s*0\s*\)")


def show_loops(gb):
    rc, out, err, _ = run(["goto-instrument", "--show-loops", gb], 120)
    loops = []  # (function, id, file, line)
    for m in re.finditer(r"^Loop (\S+)\.(\d+):\s*\n\s*file (\S+) line (\d+) function (\S+)", out, re.M):
        loops.append((m.group(1), int(m.group(2)), m.group(3), int(m.group(4))))
    return loops


def _src_line(path, line):
    try:
        for cand in (path, os.path.join(REPO, path)):
            if os.path.exists(cand):
                return open(cand, errors="replace").read().split("\n")[line - 1]
    except Exception:
        pass
    return ""


def real_loops_of(loops, function):
    """Loops of `function` that are real loop statements (not do{}while(0) macro bodies), in id order."""
    res = []
    for (fn, lid, f, ln) in loops:
        if fn != function:
            continue
        txt = _src_line(f, ln)
        is_real = bool(re.search(r"\b(for|while)\s*\(", txt) or "_FOREACH" in txt or re.match(r"\s*do\s*\{?\s*$", txt))
        if MACRO_LOOP_RE.search(txt) and not re.search(r"\bfor\s*\(", txt):
            is_real = False
        if is_real:
            res.append((lid, ln, txt.strip()))
    return res


def resolve_loop_contracts(u, gb, wd):
    lj = os.path.join(u["dir"], "loops.json")
    if not os.path.exists(lj):
        return None, []
    spec = json.load(open(lj))
    loops = show_loops(gb)
    byfn = {}
    info = []
    for L in spec["loops"]:
        fn = L["function"]
        rl = real_loops_of(loops, fn)
        if "match" in L:
            cands = [x for x in rl if re.search(L["match"], x[2])]
            if len(cands) <= L.get("ordinal", 0):
                raise Undecided("loop contract: no loop matching %r in %s (have %r)" % (L["match"], fn, rl))
            lid, ln, txt = cands[L.get("ordinal", 0)]
        else:
            if len(rl) <= L["ordinal"]:
                raise Undecided("loop contract: function %s has %d real loops, ordinal %d wanted (%r)" % (fn, len(rl), L["ordinal"], rl))
            lid, ln, txt = rl[L["ordinal"]]
        e = {"loop_id": str(lid), "invariants": L["invariants"]}
        for k in ("assigns", "decreases", "symbol_map"):
            if k in L:
                e[k] = L[k]
        byfn.setdefault(fn, []).append(e)
        info.append({"function": fn, "loop_id": lid, "line": ln, "text": txt, "invariants": L["invariants"]})
    out = {"functions": [{fn: v} for fn, v in byfn.items()]}
    p = os.path.join(wd, "loops.cbmc.json")
    json.dump(out, open(p, "w"))
    return p, info


PROOF_LABELS = ("proved-unbounded", "proved-lemma", "proved-complete")


class Undecided(Exception):
    pass


def count_assumes(path):
    try:
        return len(re.findall(r"__CPROVER_assume\s*\(", open(path).read()))
    except Exception:
        return 0


def goto_build(u, wd, tier, extra_defines=()):
    """goto-cc + goto-instrument.  Returns (final goto binary, info dict)."""
    flags = build_flags(u["tu"], ndebug=u.get("ndebug", True))
    defs = ["-D" + GUARD, "-DVF_CBMC"] + ["-D" + d for d in u["defines"]] + ["-D" + d for d in extra_defines]
    defs += ["-D" + d for d in (u["defines_thorough"] if tier == "thorough" else u["defines_quick"])]
    inc = ["-I" + os.path.join(VERIF, "include"), "-I" + u["dir"], "-I" + os.path.join(VERIF, "contracts")]
    a = os.path.join(wd, "a.gb")
    cmd = ["goto-cc"] + defs + flags + inc + ["--function", "harness", os.path.join(u["dir"], "unit.c"), "-o", a]
    rc, out, err, t = run(cmd, 300, cwd=wd)
    info = {"cmds": [" ".join(cmd)], "t_compile": t}
    if rc != 0:
        raise Undecided("goto-cc failed: " + (err or out)[-2000:])
    a1 = os.path.join(wd, "a1.gb")
    cmd = ["goto-instrument"]
    for r in u["restrict_fp"]:
        cmd += ["--restrict-function-pointer", r]
    if u["unwindset"]:
        # resolve "function#ordinal:K" to loop ids
        loops = show_loops(a)
        items = []
        for s in u["unwindset"]:
            m = re.match(r"(\w+)#(\d+):(\d+)$", s)
            if m:
                rl = real_loops_of(loops, m.group(1))
                if len(rl) <= int(m.group(2)):
                    raise Undecided("unwindset: %s has %d real loops" % (m.group(1), len(rl)))
                items.append("%s.%d:%s" % (m.group(1), rl[int(m.group(2))][0], m.group(3)))
            else:
                items.append(s)
        cmd += ["--unwindset", ",".join(items), "--unwinding-assertions"]
    for f_, g_ in u.get("replace_calls", []):
        # same-TU callee cut off by a stub BODY defined in unit.c with the callee's signature (usable in plain mode)
        cmd += ["--replace-calls", "%s:%s" % (f_, g_)]
    cmd += ["--drop-unused-functions", a, a1]
    rc, out, err, t = run(cmd, 300, cwd=wd)
    info["cmds"].append(" ".join(cmd))
    if rc != 0:
        raise Undecided("goto-instrument (prepare) failed: " + (err + out)[-2000:])
    final = a1
    info["loops"] = []
    if u["mode"] == "dfcc":
        if len(u["enforce"]) > 1:
            raise Undecided("unit.json lists %d enforce pairs: goto-instrument --dfcc honours only ONE --enforce-contract per run (the others are silently unchecked); split the unit" % len(u["enforce"]))
        b = os.path.join(wd, "b.gb")
        cmd = ["goto-instrument", "--dfcc", "harness"]
        for f, c in u["enforce"]:
            cmd += ["--enforce-contract", "%s/%s" % (f, c) if c else f]
        for f, c in u["replace"]:
            cmd += ["--replace-call-with-contract", "%s/%s" % (f, c) if c else f]
        lp, linfo = resolve_loop_contracts(u, a1, wd)
        info["loops"] = linfo
        if lp:
            cmd += ["--loop-contracts-file", lp, "--apply-loop-contracts"]
        cmd += u.get("dfcc_flags", [])
        cmd += [a1, b]
        rc, out, err, t = run(cmd, 600, mem_gb=u["mem_gb"], cwd=wd)
        info["cmds"].append(" ".join(cmd))
        info["t_instrument"] = t
        if rc != 0:
            raise Undecided("goto-instrument --dfcc failed: " + (err + out)[-3000:])
        final = b
    return final, info


def cbmc_cmd(u, gb, tier):
    c = u["cbmc"]
    cmd = ["cbmc", gb, "--json-ui", "--trace", "--unwind", str(c.get("unwind_thorough", c.get("unwind", 4)) if tier == "thorough" else c.get("unwind", 4)),
           "--unwinding-assertions", "--bounds-check", "--pointer-check", "--div-by-zero-check"]
    if c.get("signed_overflow", True):
        cmd.append("--signed-overflow-check")
    else:
        cmd.append("--no-signed-overflow-check")
    if c.get("object_bits"):
        cmd += ["--object-bits", str(c["object_bits"])]
    if c.get("backend") in ("cvc5", "z3"):
        cmd.append("--" + c["backend"])
    elif c.get("backend") == "kissat":
        cmd += ["--external-sat-solver", "kissat"]
    cmd += c.get("flags", [])
    return cmd


def parse_cbmc_json(path):
    try:
        data = json.load(open(path))
    except Exception as e:
        return None, [], [], "unparsable cbmc output: %s" % e
    results, msgs, status = [], [], None
    for o in data:
        if "result" in o:
            results = o["result"]
        if "messageText" in o:
            msgs.append((o.get("messageType", ""), o["messageText"]))
        if "cProverStatus" in o:
            status = o["cProverStatus"]
    return status, results, msgs, None


def extract_in(trace):
    """Value of the flat input record IN from a CBMC json trace, as a python structure."""
    def conv(v):
        if v is None:
            return 0
        if "members" in v:
            return {m["name"]: conv(m.get("value")) for m in v["members"]}
        if "elements" in v:
            return [conv(e.get("value")) for e in v["elements"]]
        if "data" in v:
            d = v["data"]
            if v.get("name") == "pointer":
                return 0
            try:
                if isinstance(d, str) and d.startswith("'"):
                    b = v.get("binary")
                    if b:
                        n = int(b, 2)
                        return n - (1 << len(b)) if (v.get("type", "").startswith("signed") or v.get("type") == "char") and b[0] == "1" else n
                    return ord(d.strip("'")) if len(d.strip("'")) == 1 else 0
                return int(str(d).rstrip("ulUL"))
            except ValueError:
                try:
                    return int(v.get("binary", "0"), 2)
                except Exception:
                    return str(d)
        return 0
    val = None
    for st in trace or []:
        if st.get("stepType") == "assignment" and st.get("lhs") == "IN" and "value" in st:
            val = conv(st["value"])
    return val


def c_initializer(v):
    if isinstance(v, dict):
        return "{" + ", ".join(".%s = %s" % (k, c_initializer(x)) for k, x in v.items() if not k.startswith("$")) + "}"
    if isinstance(v, list):
        return "{" + ", ".join(c_initializer(x) for x in v) + "}"
    if isinstance(v, int):
        if v > 0x7fffffffffffffff:
            return "%dULL" % v
        if v > 0x7fffffff or v < -0x80000000:
            return "%dLL" % v if v >= -0x7fffffffffffffff else "(-0x7fffffffffffffffLL-1)"
        return str(v)
    return "0"


def is_excluded(u, pid, desc):
    for e in u["exclude"]:
        if re.search(e["re"], pid) or re.search(e["re"], desc or ""):
            return e.get("why", "excluded")
    return None


def run_unit(u, tier, keep=False, extra_defines=(), variant=""):
    """Run one unit.  Returns a result record (never raises)."""
    os.makedirs(WORK, exist_ok=True)
    wd = tempfile.mkdtemp(prefix=u["name"] + ".", dir=WORK)
    t0 = time.time()
    res = {"unit": u["name"], "variant": variant, "tier": tier, "functions": u["functions"], "tu": u["tu"], "label": u["label"],
           "bound": u["bound"], "mode": u["mode"], "enforced": u["enforce"], "replaced": u["replace"], "replaced_by_stub_body": u.get("replace_calls", []),
           "replaced_verified_in": u["replaced_verified_in"], "trusted": u["trusted"],
           "verdict": "undecided", "reason": "", "obligations": 0, "discharged": 0, "failed": [], "excluded": [],
           "assumes_in_unit": count_assumes(os.path.join(u["dir"], "unit.c")), "no_body": [], "samples": []}
    try:
        gb, info = goto_build(u, wd, tier, extra_defines)
        res["cmds"] = info["cmds"]
        res["loops"] = info.get("loops", [])
        cmd = cbmc_cmd(u, gb, tier)
        res["cmds"].append(" ".join(cmd))
        outp = os.path.join(wd, "cbmc.json")
        to = u["timeout_thorough"] if tier == "thorough" else u["timeout"]
        ext = u["cbmc"].get("external_smt")
        ext_done = False
        if ext:
            # arithmetic lemma route: dump the whole verification condition as SMT-LIB and hand it to an
            # external solver with options cbmc cannot pass (cvc5 --solve-bv-as-int=sum).  unsat = every
            # obligation holds.  Anything else falls through to the SAT back end to look for a counterexample.
            smt = os.path.join(wd, "vc.smt2")
            dump = [c for c in cmd if c not in ("--json-ui", "--trace")] + ["--smt2", "--outfile", smt]
            rc0, _, err0, t_dump = run(dump, 120, mem_gb=u["mem_gb"], cwd=wd)
            res["cmds"].append(" ".join(dump))
            if os.path.exists(smt):
                sc = ext + [smt]
                res["cmds"].append(" ".join(sc))
                rc1, out1, err1, t1 = run(sc, min(to, u["cbmc"].get("external_timeout", 90)), mem_gb=u["mem_gb"], cwd=wd)
                res["solver_s"] = round(t1, 2)
                if out1.strip().startswith("unsat"):
                    props = [c for c in cmd if c not in ("--trace",)] + ["--show-properties"]
                    rc2, out2, err2, t2 = run(props, 120, mem_gb=u["mem_gb"], cwd=wd)
                    try:
                        pl = [o for o in json.loads(out2) if "properties" in o][0]["properties"]
                    except Exception as e:
                        raise Undecided("could not list properties: %r" % (e,))
                    with open(outp, "w") as fo:
                        json.dump([{"result": [{"property": p_["name"], "description": p_.get("description", ""), "status": "SUCCESS", "sourceLocation": p_.get("sourceLocation", {})} for p_ in pl]}, {"cProverStatus": "success"}], fo)
                    res["backend"] = "external: " + " ".join(ext) + " on cbmc --smt2 --outfile (whole verification condition unsat)"
                    ext_done = True
                    rc, err = 0, ""
                elif out1.strip().startswith("sat"):
                    # a model of the negated verification condition: some obligation fails (no per-obligation trace)
                    tag = " [canary run]" if "VF_CANARY" in extra_defines else ""
                    with open(outp, "w") as fo:
                        json.dump([{"result": [{"property": "external_smt.vc", "description": "external solver found the verification condition falsifiable: some obligation of this lemma unit fails" + tag + (" canary" if tag else ""), "status": "FAILURE"}]}, {"cProverStatus": "failure"}], fo)
                    res["backend"] = "external: " + " ".join(ext) + " (sat)"
                    ext_done = True
                    rc, err = 10, ""
        if not ext_done:
            rc, _, err, t = run(cmd, to, mem_gb=u["mem_gb"], cwd=wd, stdout_path=outp)
            res["solver_s"] = round(t, 2)
            res["backend"] = u["cbmc"].get("backend", "sat(minisat2, cbmc built-in)")
            if rc == -999:
                raise Undecided("cbmc timeout after %ss" % to)
        status, results, msgs, perr = parse_cbmc_json(outp)
        if perr or status is None or not results:
            tail = ""
            try:
                tail = open(outp, errors="replace").read()[-1500:]
            except Exception:
                pass
            raise Undecided("cbmc gave no result (rc=%s): %s %s %s" % (rc, perr, err[-500:], tail))
        for mt, txt in msgs:
            m = re.search(r"no body for (?:function|callee) (\S+)", txt)
            if m:
                res["no_body"].append(m.group(1))
            if "ignoring" in txt and ("forall" in txt or "exists" in txt):
                raise Undecided("quantifier ignored by the back end: " + txt)
        bad_nobody = [f for f in res["no_body"] if f not in u["allow_no_body"] and not f.startswith("__CPROVER")]
        if bad_nobody:
            raise Undecided("functions without body reached (would be silently nondeterministic): %s" % ", ".join(sorted(set(bad_nobody))))
        nob = 0; ok = 0
        for r in results:
            pid = r.get("property", ""); desc = r.get("description", "")
            why = is_excluded(u, pid, desc)
            if why:
                res["excluded"].append({"id": pid, "why": why, "status": r.get("status")})
                continue
            if r.get("status") == "UNKNOWN":
                # CBMC 6 turns every obligation that lies after a FAILED one on the same path into UNKNOWN (assert-then-assume);
                # they are neither discharged nor failures of their own
                res.setdefault("unknown", []).append(pid)
                continue
            nob += 1
            if r.get("status") == "SUCCESS":
                ok += 1
                if len(res["samples"]) < 4 and re.search(r"postcondition|precondition|loop_invariant|assertion", pid):
                    res["samples"].append({"id": pid, "description": desc[:300], "status": "SUCCESS"})
            else:
                loc = r.get("sourceLocation", {})
                res["failed"].append({"id": pid, "description": desc, "status": r.get("status"),
                                      "file": loc.get("file"), "line": loc.get("line"), "function": loc.get("function"),
                                      "IN": extract_in(r.get("trace"))})
        res["obligations"] = nob
        res["discharged"] = ok
        if res["failed"]:
            res["verdict"] = "violated"
        elif res.get("unknown"):
            raise Undecided("%d obligations UNKNOWN without any FAILURE (e.g. %s)" % (len(res["unknown"]), ", ".join(res["unknown"][:3])))
        elif nob < u["min_obligations"]:
            raise Undecided("vacuity guard: %d obligations generated, at least %d expected" % (nob, u["min_obligations"]))
        else:
            res["verdict"] = "proved"
    except Undecided as e:
        res["verdict"] = "undecided"
        res["reason"] = str(e)
    except Exception as e:  # machinery error
        res["verdict"] = "undecided"
        res["reason"] = "driver exception: %r" % (e,)
    res["wall_s"] = round(time.time() - t0, 2)
    if keep:
        res["workdir"] = wd
    else:
        shutil.rmtree(wd, ignore_errors=True)
    return res


# ----------------------------------------------------------------------------- native replay

def extract_contracts(u, wd):
    """Preprocess the unit with -DVF_EXTRACT and pull out the contract declarations."""
    flags = build_flags(u["tu"], ndebug=u.get("ndebug", True))
    inc = ["-I" + os.path.join(VERIF, "include"), "-I" + u["dir"], "-I" + os.path.join(VERIF, "contracts")]
    cmd = ["gcc", "-E", "-P", "-DVF_EXTRACT", "-D" + GUARD] + ["-D" + d for d in u["defines"]] + flags + inc + [os.path.join(u["dir"], "unit.c")]
    rc, out, err, _ = run(cmd, 120, cwd=wd)
    if rc != 0:
        raise Undecided("gcc -E failed: " + err[-1000:])
    contracts = []
    pos = 0
    while True:
        i = out.find("__vf_contract_marker__", pos)
        if i < 0:
            break
        m = re.match(r"__vf_contract_marker__\s*\[(.*?)\]\s*\[(.*?)\]\s*", out[i:], re.S)
        j = i + m.end()
        params, j = _balanced(out, j)
        clauses = []
        while True:
            mm = re.match(r"\s*(__CPROVER_requires|__CPROVER_ensures|__CPROVER_assigns|__CPROVER_frees)\s*", out[j:])
            if not mm:
                break
            j += mm.end()
            body, j = _balanced(out, j)
            clauses.append((mm.group(1), body))
        contracts.append({"ret": m.group(1).strip(), "name": m.group(2).strip(), "params": params, "clauses": clauses})
        pos = j
    return contracts


def _balanced(s, j):
    assert s[j] == "(", s[j:j + 50]
    depth = 0; k = j
    while True:
        c = s[k]
        if c == "(": depth += 1
        elif c == ")":
            depth -= 1
            if depth == 0:
                return s[j + 1:k], k + 1
        k += 1


def _replace_old(expr, olds, prefix):
    out = ""; k = 0
    while True:
        i = expr.find("__CPROVER_old", k)
        if i < 0:
            out += expr[k:]; break
        out += expr[k:i]
        j = expr.index("(", i)
        inner, j2 = _balanced(expr, j)
        name = "%s_old%d" % (prefix, len(olds))
        olds.append((name, inner))
        out += name
        k = j2
    return out


def gen_native(contracts, replaced_names=()):
    """Native checkers for the contracts.  Natively the REAL callees run, so ghost variables that only a
    replaced callee's contract assigns are not maintained; ensures clauses that mention one are skipped."""
    g = ["/* generated by vf/driver.py from the unit's contract text — do not edit */"]
    ghost = set()
    for c in contracts:
        if c["name"] in replaced_names:
            for kind, body in c["clauses"]:
                if kind == "__CPROVER_assigns":
                    ghost |= set(re.findall(r"\bg_\w+", body))
    for c in contracts:
        olds = []; req = []; ens = []
        nr = ne = 0
        for kind, body in c["clauses"]:
            if kind == "__CPROVER_requires":
                nr += 1
                req.append('VF_REQ_("%s.requires.%d", (%s));' % (c["name"], nr, body))
            elif kind == "__CPROVER_ensures":
                ne += 1
                if ghost & set(re.findall(r"\bg_\w+", body)):
                    ens.append('/* %s.postcondition.%d skipped natively: mentions ghost state of a replaced callee */' % (c["name"], ne))
                    continue
                b = _replace_old(body, olds, c["name"]).replace("__CPROVER_return_value", "vf_ret")
                ens.append('VF_ENS_("%s.postcondition.%d", (%s));' % (c["name"], ne, b))
        rett = "int" if c["ret"] == "void" else c["ret"]
        g.append("static void %s__chk(int vf_phase, %s vf_ret, %s)\n{" % (c["name"], rett, c["params"]))
        for name, inner in olds:
            g.append("\tstatic __typeof__((%s) + 0) %s;   /* +0: works for bit-fields too */" % (inner, name))
        g.append("\t(void)vf_ret;")
        g += ["\t" + r for r in req]
        for name, inner in olds:
            g.append("\tif (vf_phase == 0) %s = (%s);" % (name, inner))
        g += ["\t" + e for e in ens]
        g.append("}")
    g.append('int main(void) { harness(); printf("VF-NATIVE: RESULT %s\\n", vf_native_failed ? "FAIL" : "PASS"); return vf_native_failed ? 1 : 0; }')
    return "\n".join(g) + "\n"


def native_replay(u, in_value, extra_defines=(), failed=None, tier="quick"):
    """Compile the unit natively (gcc + ASan/UBSan) with IN fixed to the counterexample and run it.
    Returns dict(reproduced: bool|None, output: str)."""
    if not u.get("native", True):
        return {"reproduced": None, "output": "unit has no native replay harness"}
    if in_value is None:
        return {"reproduced": None, "output": "no IN record in the verifier's trace"}
    os.makedirs(WORK, exist_ok=True)
    wd = tempfile.mkdtemp(prefix=u["name"] + ".native.", dir=WORK)
    try:
        contracts = extract_contracts(u, wd)
        open(os.path.join(wd, "vf_native_gen.h"), "w").write(gen_native(contracts, [c for (_f, c) in u["replace"]]))
        open(os.path.join(wd, "vf_in_values.h"), "w").write("#define VF_IN_INIT %s\n" % c_initializer(in_value))
        open(os.path.join(wd, "wrapper.c"), "w").write('#include "vf_in_values.h"\n#include "%s"\n#include "vf_native_gen.h"\n' % os.path.join(u["dir"], "unit.c"))
        flags = build_flags(u["tu"], ndebug=u.get("ndebug", True))
        inc = ["-I" + wd, "-I" + os.path.join(VERIF, "include"), "-I" + u["dir"], "-I" + os.path.join(VERIF, "contracts")]
        exe = os.path.join(wd, "replay.bin")
        cmd = ["gcc", "-g", "-O0", "-w", "-fsanitize=address,undefined", "-fno-sanitize-recover=undefined", "-DVF_NATIVE", "-D" + GUARD] \
            + ["-D" + d for d in u["defines"]] + ["-D" + d for d in (u["defines_thorough"] if tier == "thorough" else u["defines_quick"])] + ["-D" + d for d in extra_defines] + flags + inc \
            + [os.path.join(wd, "wrapper.c"), "-o", exe, "-Wl,--unresolved-symbols=ignore-all", "-no-pie", "-lpthread"]
        rc, out, err, _ = run(cmd, 300, mem_gb=64, cwd=wd)
        if rc != 0:
            return {"reproduced": None, "output": "native build failed:\n" + err[-3000:], "cmd": " ".join(cmd)}
        env = dict(os.environ, ASAN_OPTIONS="detect_leaks=0:abort_on_error=0", UBSAN_OPTIONS="print_stacktrace=1")
        try:
            p = subprocess.run([exe], stdout=subprocess.PIPE, stderr=subprocess.STDOUT, timeout=60, cwd=wd, env=env)
            txt = p.stdout.decode(errors="replace")
            rcx = p.returncode
        except subprocess.TimeoutExpired:
            txt = "native run timed out"; rcx = -999
        san = bool(re.search(r"ERROR: AddressSanitizer|runtime error:", txt)) or (rcx < 0 and rcx != -999)
        same = False
        if failed:
            fid = failed.get("id", ""); desc = failed.get("description", "") or ""
            if ("VF-NATIVE: ENSURES-FAIL %s\n" % fid) in txt:
                same = True
            if desc and ("[%s]" % desc) in txt:
                same = True
        else:
            same = bool(re.search(r"VF-NATIVE: (ASSERT-FAIL|ENSURES-FAIL)", txt))
        rep = san or same
        if re.search(r"VF-NATIVE: (ASSUME-FALSE|REQUIRES-FALSE)", txt) and not rep:
            rep = None
        return {"reproduced": rep, "output": txt[-6000:], "exit": rcx, "cmd": " ".join(cmd), "IN": in_value}
    except Undecided as e:
        return {"reproduced": None, "output": "replay machinery: %s" % e}
    finally:
        shutil.rmtree(wd, ignore_errors=True)
