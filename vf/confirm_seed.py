#!/usr/bin/env python3
"""vf/confirm_seed.py seeded/<id> [--keep]

Confirms a seeded change independently of the verification machinery:
  1. scratch worktree of /repo HEAD (outside /repo and /verif), built with cmake+ninja (regress/samples/benchmarks off)
  2. the demonstration (demo.c, linked statically against that build) PASSES on the unchanged tree
  3. patch.diff applies, the tree still compiles, the pinned test suite (every registered test-* run) passes
  4. the demonstration FAILS with the change
Then runs the property's check against the patched worktree (VF_REPO=…) and records everything in
seeded/<id>/confirm.json.  The worktree and its build output are removed at the end."""
import json, os, re, shutil, subprocess, sys, time
V = os.path.dirname(os.path.dirname(os.path.abspath(__file__)))

def sh(cmd, cwd=None, timeout=3600, env=None):
    p = subprocess.run(cmd, shell=True, cwd=cwd, stdout=subprocess.PIPE, stderr=subprocess.STDOUT, timeout=timeout, env=env)
    return p.returncode, p.stdout.decode(errors="replace")

def main():
    sd = os.path.abspath(sys.argv[1]); keep = "--keep" in sys.argv; skip_tests = "--skip-tests" in sys.argv
    sid = os.path.basename(sd.rstrip("/"))
    meta = json.load(open(os.path.join(sd, "meta.json")))
    wt = "/tmp/seedwt_" + re.sub(r"[^A-Za-z0-9]", "_", sid)
    rec = {"id": sid, "property": meta["property"], "at": time.strftime("%Y-%m-%dT%H:%M:%S"), "steps": {}}
    sh("git -C /repo worktree remove --force %s" % wt); shutil.rmtree(wt, ignore_errors=True)
    rc, out = sh("git -C /repo worktree add --detach %s HEAD" % wt)
    assert rc == 0, out
    try:
        b = wt + "/_b"
        rc, out = sh("cmake -G Ninja -S %s -B %s -DCMAKE_BUILD_TYPE=RelWithDebInfo -DEVENT__DISABLE_REGRESS=ON -DEVENT__DISABLE_SAMPLES=ON -DEVENT__DISABLE_BENCHMARK=ON -DEVENT__LIBRARY_TYPE=STATIC >/dev/null && ninja -C %s -j8 2>&1 | tail -3" % (wt, b, b))
        rec["steps"]["build_unpatched"] = {"rc": rc, "tail": out[-500:]}
        assert rc == 0, out
        san = meta.get("demo_sanitize", "")
        libs = "%s/lib/libevent.a %s/lib/libevent_pthreads.a" % (b, b)
        demo_cmd = "cc -g -O1 %s -I%s/include -I%s/include -I%s -I%s/compat %s %s/demo.c %s -lpthread -lm -o %s/demo_%%s" % (("-fsanitize=" + san) if san else "", b, wt, wt, wt, meta.get("demo_cflags", ""), sd, libs, wt)
        rc, out = sh(demo_cmd % "base"); assert rc == 0, out
        rc0, out0 = sh("%s/demo_base" % wt, timeout=meta.get("demo_timeout", 120))
        rec["steps"]["demo_unpatched"] = {"rc": rc0, "tail": out0[-800:]}
        rc, out = sh("git -C %s apply %s/patch.diff" % (wt, sd)); rec["steps"]["apply"] = {"rc": rc, "out": out[-500:]}
        assert rc == 0, out
        rc, out = sh("ninja -C %s -j8 2>&1 | tail -5" % b); rec["steps"]["build_patched"] = {"rc": rc, "tail": out[-800:]}
        assert rc == 0, out
        if not skip_tests:
            t0 = time.time()
            rc, out = sh("ctest --test-dir %s -j8 --timeout 900 2>&1 | tail -15" % b, timeout=3000)
            m = re.search(r"(\d+)% tests passed, (\d+) tests failed out of (\d+)", out)
            rec["steps"]["tests_patched"] = {"rc": rc, "summary": m.group(0) if m else out[-600:], "seconds": round(time.time() - t0)}
        rc, out = sh(demo_cmd % "mut"); assert rc == 0, out
        rc1, out1 = sh("%s/demo_mut" % wt, timeout=meta.get("demo_timeout", 120))
        rec["steps"]["demo_patched"] = {"rc": rc1, "tail": out1[-800:]}
        # the machinery against the patched tree
        checks = {}
        for pid in meta.get("check_properties", [meta["property"]]):
            rc, out = sh("VF_REPO=%s VF_JOBS=5 python3 %s/vf/check.py %s --no-evidence --no-canary 2>&1 | grep -E 'VIOLATION|UNDECIDED|^OK|KNOWN' | head -12" % (wt, V, pid), timeout=3000)
            rc2, _ = sh("true")
            checks[pid] = out.strip().split("\n")
        rec["checks_on_patched_tree"] = checks
        rec["confirmed"] = (rc0 == 0 and rc1 != 0 and (skip_tests or rec["steps"]["tests_patched"]["rc"] == 0))
        rec["detected"] = any("VIOLATION" in l for ls in checks.values() for l in ls)
    finally:
        if not keep:
            sh("git -C /repo worktree remove --force %s" % wt); shutil.rmtree(wt, ignore_errors=True)
    json.dump(rec, open(os.path.join(sd, "confirm.json"), "w"), indent=1)
    print(json.dumps({k: rec[k] for k in ("id", "confirmed", "detected")}), rec["steps"].get("tests_patched", {}).get("summary"))
    for pid, ls in rec.get("checks_on_patched_tree", {}).items():
        for l in ls: print("  ", pid, l)

if __name__ == "__main__":
    main()
