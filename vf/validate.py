#!/usr/bin/env python3-vt
import json, jsonschema, glob, sys
jsonschema.validate(json.load(open('/verif/MANIFEST.json')), json.load(open('/root/.vp/MANIFEST.schema.json')))
es = json.load(open('/root/.vp/EVIDENCE.schema.json'))
for f in sorted(glob.glob('/verif/evidence/*.json')):
    jsonschema.validate(json.load(open(f)), es)
print("valid: MANIFEST +", len(glob.glob('/verif/evidence/*.json')), "evidence files")
