#!/usr/bin/env python3
"""prints the prompt for an independent mutation sub-agent: property text only, nothing from /verif"""
import json, sys
pid = sys.argv[1]; n = sys.argv[2] if len(sys.argv) > 2 else "2"
p = [json.loads(l) for l in open('/verif/properties.jsonl') if json.loads(l)['id'] == pid][0]
wt = "/tmp/mut_%s" % pid
print(f"""You are testing how robust a software property is against realistic regressions. You work ONLY inside the git worktree {wt} (a checkout of libevent, a C event-notification library). Do not read or write anything under /repo or /verif, and do not use the network.

The property ({p['id']}: {p['title']}):
  {p['statement']}
  Quantified over: {p['quantifier']['text']}
  Anchored in: {json.dumps(p['anchors'].get('files'))}; mechanisms: {json.dumps(p['anchors'].get('mechanism'))}

Your task: produce {n} DIFFERENT changes to the library's source code (not to tests, samples or build files), each of which
 (a) still compiles,
 (b) still passes the existing test suite, and
 (c) BREAKS the property above — but only when something specific happens: a particular multi-step sequence of operations, an unusual or boundary input, a fault (allocation/syscall failure) at a particular point, or two cooperating sites that each look fine alone. A change that ordinary use would expose at once is not wanted. Prefer changes that look like plausible maintenance mistakes (an off-by-one at a boundary, a dropped update on a rare path, a condition that is subtly too weak/strong, a cleanup skipped on an error path), at different sites in the code for the different changes.

Build and test (run from {wt}):
  cmake -G Ninja -S . -B _b -DCMAKE_BUILD_TYPE=RelWithDebInfo -DEVENT__DISABLE_REGRESS=ON -DEVENT__DISABLE_SAMPLES=ON -DEVENT__DISABLE_BENCHMARK=ON -DEVENT__LIBRARY_TYPE=STATIC >/dev/null && ninja -C _b
  ctest --test-dir _b -j8 --timeout 900        # 68 tests, about 4 minutes; ALL must pass with your change applied

For each change write a demonstration: ONE self-contained C file demo.c that exercises the library (public API where possible; internal headers/functions are allowed since it links statically) and returns exit status 0 when the property holds and non-zero (or crashes / trips AddressSanitizer) when it is violated. It is compiled like this (k = 1, 2, …):
  cc -g -O1 [-fsanitize=address] -I_b/include -Iinclude -I. -Icompat OUTk/demo.c _b/lib/libevent.a _b/lib/libevent_pthreads.a -lpthread -lm -o /tmp/demo_{pid}_k
The demo must PASS (exit 0) on the unchanged tree and FAIL with the change applied — verify both yourself (git stash / git checkout to switch; rebuild with ninja -C _b each time).

Deliver, for change k, a directory {wt}/OUTk/ containing:
  patch.diff   — `git diff` of the library sources only (must apply to a clean checkout with `git apply`)
  demo.c       — the demonstration
  meta.json    — {{"property": "{pid}", "breaks": "<one sentence: what becomes false>", "needs_to_manifest": "<what specific input/sequence/fault is needed>", "site": "<file:function>", "demo_sanitize": "address" or "", "tests": "<ctest summary line you observed with the change>"}}
Leave the worktree's tracked files UNCHANGED at the end (git checkout -- .), keeping only the OUTk directories and _b.
Your final message: for each change, 3 lines — what you changed, why tests do not notice, how the demo shows it.""")
