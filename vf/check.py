#!/usr/bin/env python3
"""vf/check.py <property id> [--tier quick|thorough] [--unit NAME] [--keep]

Runs every unit registered for the property against the repository's current working tree,
writes evidence/<id>.json, and reports:
  exit 0  every unit proved (listed known findings are printed as KNOWN-FINDING lines)
  exit 1  an obligation is violated that known_findings.json does not list
          (line "VIOLATION property=<id> replay=<path>[ no-failing-input-found]")
  exit 2  undecided: timeout, tool failure, machinery out of date (line "UNDECIDED …"); never a VIOLATION
"""
import argparse, json, os, re, sys, time
from concurrent.futures import ThreadPoolExecutor
sys.path.insert(0, os.path.dirname(os.path.abspath(__file__)))
import driver

VERIF = driver.VERIF


def _claimed():
    try:
        return {c["property_id"] for c in json.load(open(os.path.join(VERIF, "MANIFEST.json")))["checks"]}
    except Exception:
        return set()


CLAIMED = _claimed()


def load_known():
    p = os.path.join(VERIF, "known_findings.json")
    if os.path.exists(p):
        return json.load(open(p))
    return {"findings": []}


def jobs_for(u, tier, known, prop=None):
    """A unit expands into jobs: the main run, and for a unit with an open known finding the pair
    (confirm: restricted to the finding's inputs, expected to fail; main: those inputs excluded)."""
    jobs = []
    kfs = [k for k in known["findings"] if k.get("unit") == u["name"] and k.get("status") == "open" and k.get("mode", "input") == "input"]
    if kfs:
        jobs.append(("main", ["VF_KF_EXCLUDE"], None))
        for k in kfs:
            jobs.append(("kf-confirm", ["VF_KF_ONLY"], k))
    else:
        jobs.append(("main", [], None))
    # quick tier: the canary (vacuity guard) of a unit runs with the check of the unit's PRIMARY property (props[0]);
    # checks of properties the unit serves secondarily (e.g. C08 lock balance) do not repeat it
    primary = (prop is None) or (not u["props"]) or (u["props"][0] == prop) or (u["props"][0] not in CLAIMED)
    if u.get("canary", True) and (tier == "thorough" or (u.get("canary_quick", True) and primary)):
        jobs.append(("canary", ["VF_CANARY"], None))
    return jobs


def main():
    ap = argparse.ArgumentParser()
    ap.add_argument("prop")
    ap.add_argument("--tier", default=os.environ.get("VERIF_TIER", "quick"))
    ap.add_argument("--unit", action="append")
    ap.add_argument("--keep", action="store_true")
    ap.add_argument("--jobs", type=int, default=int(os.environ.get("VF_JOBS", "12")))
    ap.add_argument("--no-evidence", action="store_true")
    ap.add_argument("--define", action="append", default=[], help="extra -D for every unit run (testing only)")
    ap.add_argument("--no-canary", action="store_true", help="skip canary runs (mutant testing only)")
    a = ap.parse_args()
    tier = a.tier if a.tier in ("quick", "thorough") else "quick"
    seed = int(os.environ.get("VERIF_SEED", "0") or 0)
    t0 = time.time()
    known = load_known()
    units = [u for u in driver.all_units() if a.prop in u["props"] and tier in u["tiers"]]
    if a.unit:
        units = [u for u in units if u["name"] in a.unit]
    if not units:
        print("UNDECIDED property=%s reason=no units registered" % a.prop)
        return 2
    work = []
    for u in units:
        for (variant, defs, kf) in jobs_for(u, tier, known, a.prop):
            if a.no_canary and variant == "canary":
                continue
            work.append((u, variant, list(defs) + list(a.define), kf))
    with ThreadPoolExecutor(max_workers=max(1, a.jobs)) as ex:
        futs = [ex.submit(driver.run_unit, u, tier, a.keep, tuple(defs), variant) for (u, variant, defs, kf) in work]
        results = [f.result() for f in futs]

    violations = []; undecided = []; known_lines = []; notes = []
    unit_records = []
    for (u, variant, defs, kf), r in zip(work, results):
        r["defines"] = list(defs)
        if variant == "canary":
            # the canary assertion must FAIL; anything else means the unit does not see the body
            fails = [f for f in r["failed"] if "canary" in (f["description"] or "")]
            if r["verdict"] == "undecided":
                undecided.append((u, r, "canary run undecided: " + r["reason"]))
            elif not fails:
                undecided.append((u, r, "vacuity guard: canary assertion did not fail"))
            r["canary_failed_as_required"] = bool(fails)
            unit_records.append(r)
            continue
        if variant == "kf-confirm":
            pat = re.compile(kf["obligation_re"])
            hit = [f for f in r["failed"] if pat.search(f["id"]) or pat.search(f["description"] or "")]
            if r["verdict"] == "undecided":
                undecided.append((u, r, "known-finding confirmation undecided: " + r["reason"]))
            elif hit:
                known_lines.append("KNOWN-FINDING: property=%s %s" % (kf["property"], kf["what"]))
            else:
                notes.append("known finding %s no longer reproduces in unit %s (defect gone?)" % (kf["id"], u["name"]))
            r["known_finding"] = kf["id"]
            unit_records.append(r)
            continue
        # known findings identified by call site + obligation (mode "obligation"): the listed obligations of this unit
        # are reported as KNOWN-FINDING; every other failed obligation of the unit is still a violation
        okfs = [k for k in known["findings"] if k.get("unit") == u["name"] and k.get("status") == "open" and k.get("mode") == "obligation"]
        if okfs and r["verdict"] in ("violated", "proved"):
            for k in okfs:
                pat = re.compile(k["obligation_re"])
                hit = [f for f in r["failed"] if pat.search(f["id"]) or pat.search(f["description"] or "")]
                if hit:
                    known_lines.append("KNOWN-FINDING: property=%s %s" % (k["property"], k["what"]))
                    r["failed"] = [f for f in r["failed"] if f not in hit]
                    r.setdefault("known_finding_obligations", []).extend(f["id"] for f in hit)
                    r["obligations"] -= len(hit)
                else:
                    notes.append("known finding %s no longer reproduces in unit %s (defect gone?)" % (k["id"], u["name"]))
            if r["verdict"] == "violated" and not r["failed"]:
                r["verdict"] = "proved"
        unit_records.append(r)
        if r["verdict"] == "violated" and u.get("confirm_with"):
            # a code-shaped contract failed: the code's formula changed.  Whether the PROPERTY is violated is
            # decided by the direct-specification unit (refutation side): a counterexample there is the violation;
            # a proof there means the change was a harmless rewrite; anything else is undecided.
            names = u["confirm_with"] if isinstance(u["confirm_with"], list) else [u["confirm_with"]]
            decided = False
            for k, cname in enumerate(names):
                cu = driver.load_unit(cname)
                cr = driver.run_unit(cu, tier, a.keep, tuple(defs), "confirm")
                cr["defines"] = list(defs); cr["confirms"] = u["name"]
                unit_records.append(cr)
                if cr["verdict"] == "violated":
                    violations.append((cu, cr, defs)); decided = True
                    break
                if cr["verdict"] == "proved" and k == len(names) - 1:
                    # only the LAST (full-domain) unit may declare the change harmless
                    notes.append("unit %s (code-shaped) no longer matches the code, but the direct specification unit %s proves: property holds; update the shape contract" % (u["name"], cu["name"]))
                    r["verdict"] = "shape-drift"; decided = True
            if not decided:
                undecided.append((u, r, "code-shaped contract failed (%s) and no direct-specification unit (%s) produced a counterexample or a proof: %s" % (", ".join(f["id"] for f in r["failed"][:3]), ", ".join(names), cr["reason"])))
            continue
        if r["verdict"] == "undecided":
            undecided.append((u, r, r["reason"]))
        elif r["verdict"] == "violated":
            violations.append((u, r, defs))

    # ---- violations: replay files + native replay
    vio_lines = []
    for (u, r, defs) in violations:
        seen = 0
        for f in r["failed"]:
            seen += 1
            if seen > 3:
                break
            rd = os.path.join(VERIF, "replay", a.prop)
            os.makedirs(rd, exist_ok=True)
            rp = os.path.join(rd, "%s.%s.json" % (u["name"], re.sub(r"[^A-Za-z0-9_.-]", "_", f["id"])))
            nat = driver.native_replay(u, f.get("IN"), extra_defines=tuple(defs), failed=f, tier=tier)
            rec = {"property": a.prop, "unit": u["name"], "functions": u["functions"], "tu": u["tu"],
                   "failed_obligation": f["id"], "obligation_text": f["description"],
                   "location": {"file": f.get("file"), "line": f.get("line"), "function": f.get("function")},
                   "counterexample_IN": f.get("IN"), "verifier": "cbmc 6.11.0 (%s)" % r.get("backend"),
                   "verifier_cmds": r.get("cmds"), "all_failed_obligations": [x["id"] for x in r["failed"]],
                   "native_replay": nat, "reproduced": bool(nat.get("reproduced")), "defines": list(defs),
                   "repo": driver.REPO}
            json.dump(rec, open(rp, "w"), indent=1)
            suffix = "" if nat.get("reproduced") else " no-failing-input-found"
            vio_lines.append("VIOLATION property=%s replay=%s%s" % (a.prop, rp, suffix))
            f["replay"] = rp; f["reproduced"] = bool(nat.get("reproduced"))

    # ---- evidence
    main_recs = [r for r in unit_records if r["variant"] in ("main",)]
    nob = sum(r["obligations"] for r in main_recs)
    ndis = sum(r["discharged"] for r in main_recs)
    all_unbounded = all(r["label"] in driver.PROOF_LABELS for r in main_recs)
    level = "proof" if all_unbounded else "other"
    trusted = sorted({t for r in main_recs for t in r["trusted"]})
    samples = []
    for r in main_recs:
        for s in r["samples"][:2]:
            samples.append({"unit": r["unit"], **s})
    expl = ("Contract-based deductive check with CBMC 6.11 code contracts on the real translation units. "
            "Units labelled proved-unbounded have no shape/length bound (loop-free or loops closed by loop contracts); proved-complete: every loop is bounded by a constant of the code (operand width, table size) and fully unwound with unwinding assertions; "
            "units labelled bounded(...) are bounded stand-ins with the stated bound and are not counted as proved: "
            + "; ".join("%s=%s[%s]" % (r["unit"], r["label"], r["bound"]) for r in main_recs))
    cov = {"obligations": nob, "discharged": ndis,
           "checker_cmd": "python3 vf/check.py %s --tier %s  (per unit: goto-cc; goto-instrument --dfcc …; cbmc — exact lines under units[].cmds)" % (a.prop, tier),
           "trusted_base": trusted, "explanation": expl, "samples": samples[:12],
           "functions_under_contract": sorted({f for r in main_recs for f in r["functions"]}),
           "proved_unbounded_units": [r["unit"] for r in main_recs if r["label"] != "bounded" and r["verdict"] == "proved"],
           "bounded_units": [{"unit": r["unit"], "bound": r["bound"]} for r in main_recs if r["label"] == "bounded"],
           "solver_seconds": round(sum(r.get("solver_s", 0) for r in unit_records), 2),
           "units": [{k: v for k, v in r.items() if k not in ("samples",)} for r in unit_records],
           "notes": notes, "known_findings_reported": known_lines, "repo": driver.REPO}
    ev = {"property_id": a.prop, "tier": tier, "seed": seed, "level": level, "coverage": cov,
          "assumptions": trusted + ["machine integers are bit-vectors (no mathematical idealisation)",
                                    "one real translation unit per unit; functions outside it are the stubs/models listed",
                                    "assume statements appear only in harness set-up and stubs (count per unit in units[].assumes_in_unit)"],
          "wall_s": round(time.time() - t0, 2), "violations": len(vio_lines)}
    if not a.no_evidence and not a.unit and not a.define and not a.no_canary:
        os.makedirs(os.path.join(VERIF, "evidence"), exist_ok=True)
        json.dump(ev, open(os.path.join(VERIF, "evidence", a.prop + ".json"), "w"), indent=1)

    # findings of OTHER properties that shared units carry are still excluded/confirmed above, but are announced by their own property's check
    known_lines = [l for l in dict.fromkeys(known_lines) if ("property=%s " % a.prop) in l]
    for l in known_lines:
        print(l)
    for n in notes:
        print("NOTE:", n)
    for r in unit_records:
        print("unit %-34s %-11s %-10s obligations=%d discharged=%d %.1fs %s" % (r["unit"] + ("/" + r["variant"] if r["variant"] != "main" else ""), r["label"], r["verdict"], r["obligations"], r["discharged"], r.get("wall_s", 0), (r["reason"][:300] if r["verdict"] == "undecided" else "")))
    if vio_lines:
        for l in vio_lines:
            print(l)
        return 1
    if undecided:
        for (u, r, why) in undecided:
            print("UNDECIDED property=%s unit=%s reason=%s" % (a.prop, u["name"], why[:1500].replace("\n", " | ")))
        return 2
    print("OK property=%s tier=%s units=%d obligations=%d discharged=%d wall=%.1fs" % (a.prop, tier, len(main_recs), nob, ndis, time.time() - t0))
    return 0


if __name__ == "__main__":
    sys.exit(main())
