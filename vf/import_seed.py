#!/usr/bin/env python3
"""vf/import_seed.py /tmp/mut_Cxx/OUTk <slug>  — copy a mutation agent's deliverable into seeded/<Cxx>-<slug>/"""
import json, os, shutil, sys
src = sys.argv[1].rstrip("/"); slug = sys.argv[2]
m = json.load(open(src + "/meta.json"))
dst = "/verif/seeded/%s-%s" % (m["property"], slug)
os.makedirs(dst, exist_ok=True)
for f in ("patch.diff", "demo.c"):
    shutil.copy(src + "/" + f, dst + "/" + f)
m["origin"] = "independent sub-agent given only the property text and a scratch worktree (%s)" % src
m["ran"] = "python3 vf/confirm_seed.py seeded/%s-%s" % (m["property"], slug)
json.dump(m, open(dst + "/meta.json", "w"), indent=1)
print(dst)
