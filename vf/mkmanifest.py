#!/usr/bin/env python3
"""Regenerates MANIFEST.json from units/*/unit.json and meta/props.json (claims and not_applicable reasons)."""
import json, os, sys
sys.path.insert(0, os.path.dirname(os.path.abspath(__file__)))
import driver
V = driver.VERIF
meta = json.load(open(os.path.join(V, "meta", "props.json")))
units = driver.all_units()
props = [json.loads(l)["id"] for l in open(os.path.join(V, "properties.jsonl"))]
checks = []; na = []
for pid in props:
    m = meta.get(pid, {})
    us = [u for u in units if pid in u["props"]]
    if m.get("claim") and us:
        allu = all(u["label"] in driver.PROOF_LABELS for u in us if "quick" in u["tiers"])
        cat = "proof" if allu else "other"
        checks.append({
            "property_id": pid,
            "quick_cmd": "python3 vf/check.py %s --tier quick" % pid,
            "thorough_cmd": "python3 vf/check.py %s --tier thorough" % pid,
            "evidence_file": "/verif/evidence/%s.json" % pid,
            "replay_cmd_template": "python3 vf/replay.py {path}",
            "engine": "cbmc-contracts",
            "level_claimed": {"category": cat, "text": m["text"], "design_ref": m.get("design_ref", "DESIGN.md §8 " + pid)},
            "level_note": m["note"],
            "technique": m.get("technique", "contract-based deductive verification: CBMC 6.11 code contracts (goto-instrument --dfcc enforce/replace, loop contracts) on the real translation unit"),
        })
    else:
        na.append({"property_id": pid, "reason": m.get("na_reason", "no unit built yet for this property in this round (see DESIGN.md §8 for the plan); not claimed")})
man = {
    "version": 1,
    "setup_cmd": "python3 vf/setup.py",
    "hooks": {"guard": "LIBEVENT_VERIF", "enable": "units are compiled by goto-cc/gcc with -DLIBEVENT_VERIF; no source hook exists in /repo (contracts, stubs and harnesses live in /verif and #include the real .c files)",
              "baseline_off_cmd": "cmake --build /repo/_build -j16 && ctest --test-dir /repo/_build -j8 --timeout 900",
              "source_commits": meta.get("_hooks_source_commits", []), "add_only": True},
    "engines": [{"name": "cbmc-contracts", "path": "/verif/vf/check.py", "serves_properties": [c["property_id"] for c in checks],
                 "kind_free_text": "CBMC 6.11 code contracts via goto-instrument --dfcc; SAT (minisat2) back end unless a unit names another; cvc5/z3 for arithmetic lemma files; gcc+ASan/UBSan native replay of counterexamples"}],
    "checks": checks,
    "not_applicable": na,
    "notes": meta.get("_notes", ""),
}
json.dump(man, open(os.path.join(V, "MANIFEST.json"), "w"), indent=1)
print("MANIFEST: %d checks, %d not_applicable" % (len(checks), len(na)))
