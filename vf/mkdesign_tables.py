#!/usr/bin/env python3
"""Regenerates the generated part of DESIGN.md (between the GENERATED markers): fixes, open known findings,
seeded changes with the checks that catch them, units per property."""
import json, os, glob, re, sys
sys.path.insert(0, os.path.dirname(os.path.abspath(__file__)))
import driver
V = driver.VERIF
kf = json.load(open(V + "/known_findings.json"))["findings"]
out = []
out.append("### 12.4 Genuine defects repaired in /repo (one `fix:` commit each)\n")
out.append("| property | commit | unit that showed it | what failed |\n|---|---|---|---|")
for f in kf:
    if f["status"] == "fixed":
        out.append("| %s | %s | `%s` | %s |" % (f["property"], f["commit"], f["unit"], f["what"].replace("|", "\\|")))
out.append("\nEach of these was first a VIOLATION of a unit on the then-unchanged tree with a counterexample that the native replay (or a program against the built library) reproduced; after the commit the same unit is proved with the formerly failing inputs included. The pinned test suite (68 tests) passes with all of them.\n")
out.append("### 12.5 Genuine defects recorded as known findings (not repaired: not a small, safe patch)\n")
out.append("| property | id | unit | identified by | what fails |\n|---|---|---|---|---|")
for f in kf:
    if f["status"] == "open":
        out.append("| %s | %s | `%s` | %s | %s |" % (f["property"], f["id"], f["unit"], "input predicate (VF_KF_EXCLUDE / VF_KF_ONLY in the unit)" if f.get("mode", "input") == "input" else "call site + obligation `%s`" % f["obligation_re"].replace("|", "\\|"), f["what"].replace("|", "\\|")))
out.append("\nFor an input-identified finding the check runs the unit twice: with the failing inputs excluded (anything that fails there is a VIOLATION) and restricted to them (must still fail: `KNOWN-FINDING:` line; if it no longer fails a NOTE says so).  For an obligation-identified finding the named obligations of that unit are reported as `KNOWN-FINDING:` and every other obligation still counts.\n")
out.append("### 12.6 Seeded changes (independent sub-agents, property text only) and the checks that catch them\n")
out.append("| seeded change | site | needs to manifest | confirmed (tests pass, demo fails) | caught by |\n|---|---|---|---|---|")
for d in sorted(glob.glob(V + "/seeded/*/")):
    sid = os.path.basename(d.rstrip("/"))
    try:
        m = json.load(open(d + "meta.json"))
    except Exception:
        continue
    c = {}
    if os.path.exists(d + "confirm.json"):
        c = json.load(open(d + "confirm.json"))
    caught = []
    for pid, ls in c.get("checks_on_patched_tree", {}).items():
        for l in ls:
            mm = re.search(r"replay=\S+/([^/]+?)\.([A-Za-z_0-9]+(?:\.[a-z_]+)*\.\d+)\.json", l)
            if "VIOLATION" in l and mm:
                caught.append("%s `%s` %s" % (pid, mm.group(1), mm.group(2)))
            elif "UNDECIDED" in l:
                caught.append("%s UNDECIDED" % pid)
    if not caught and c.get("detected_thorough"):
        for l in c.get("thorough_check", {}).get("lines", []):
            mm = re.search(r"replay=\S+/([^/]+?)\.([A-Za-z_0-9]+(?:\.[a-z_]+)*\.\d+)\.json", l)
            if mm: caught.append("(thorough tier only) `%s` %s" % (mm.group(1), mm.group(2)))
    out.append("| %s | %s | %s | %s | %s |" % (sid, m.get("site", ""), (m.get("needs_to_manifest", "") or "")[:160].replace("|", "\\|"), "yes" if c.get("confirmed") else ("no" if c else "not run"), "; ".join(dict.fromkeys(caught))[:400] if caught else ("MISSED" if c else "")))
out.append("")
txt = "\n".join(out)
p = V + "/DESIGN.md"; s = open(p).read()
a = "<!-- GENERATED:BEGIN -->"; b = "<!-- GENERATED:END -->"
if a in s:
    s = s[:s.index(a) + len(a)] + "\n" + txt + "\n" + s[s.index(b):]
else:
    s += "\n" + a + "\n" + txt + "\n" + b + "\n"
open(p, "w").write(s)
print("DESIGN.md tables regenerated")
