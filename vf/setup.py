#!/usr/bin/env python3
"""setup: nothing is built ahead of time (every check recompiles its units from /repo's working tree);
this only verifies that the tools and the build configuration the units read are present."""
import os, shutil, subprocess, sys
ok = True
for t in ("goto-cc", "goto-instrument", "cbmc", "gcc", "cvc5", "z3"):
    p = shutil.which(t)
    print("%-16s %s" % (t, p or "MISSING"))
    ok &= bool(p)
for f in ("/repo/_build/build.ninja", "/repo/_build/include/event2/event-config.h", "/repo/_build/include/evconfig-private.h"):
    e = os.path.exists(f)
    print("%-60s %s" % (f, "ok" if e else "MISSING"))
    ok &= e
print(subprocess.run(["cbmc", "--version"], stdout=subprocess.PIPE).stdout.decode().strip())
os.makedirs(os.path.join(os.path.dirname(os.path.dirname(os.path.abspath(__file__))), "evidence"), exist_ok=True)
sys.exit(0 if ok else 1)
