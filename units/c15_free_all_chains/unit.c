/* C15/C10 — evbuffer_free_all_chains (real buffer.c), started at any chain of a list of <= 3 chains of every kind:
 * every chain from the start to the end of the list is handed to evbuffer_chain_free exactly once, in list order, nothing
 * before it is touched.  evbuffer_chain_free is replaced by its contract. */
#define VF_NLOCKS 3
#define VF_NCHOICE 8
#include "vf.h"
#include "stubs/c15_sys_redirect.h"
#include "buffer.c"
#include "stubs/lock.h"
struct c15_bin;
#include "c15_shape.h"
struct in { struct c15_bin b, s; int seg_refcnt; unsigned seg_has_cb, start; unsigned ch[VF_NCHOICE]; };
struct in IN;
#include "stubs/log.h"
#include "stubs/c15_mm.h"
#include "stubs/c15_sys.h"
#include "c15_contracts.h"

/* the frame only: what happens to each chain is chain_free_c's business and is asserted per chain in the harness */
VF_CONTRACT_V(fac_c, struct evbuffer_chain *chain)
__CPROVER_requires(chain == NULL || C15_IS_XC(chain))
__CPROVER_assigns(XC[0].c.flags, XC[0].c.refcnt, XC[0].c.next, XC[1].c.flags, XC[1].c.refcnt, XC[1].c.next, XC[2].c.flags, XC[2].c.refcnt, XC[2].c.next, m_st,
	__CPROVER_object_whole(g_lock_depth), g_lock_ops, __CPROVER_object_whole(&SRC), __CPROVER_object_whole(&PC[0]), __CPROVER_object_whole(&PC[1]), __CPROVER_object_whole(&PC[2]), __CPROVER_object_whole(&SEG))
__CPROVER_ensures(C15_DEPTHS_SAME())
__CPROVER_ensures(m_al.n == __CPROVER_old(m_al.n) && m_al.heap_frees == __CPROVER_old(m_al.heap_frees))
;

void harness(void)
{
	unsigned i; struct evbuffer_chain *start;
	VF_LOAD_IN();
	VF_INSTALL_LOCKS(); C15_RESET(); C15_SYS_RESET();
	c15_build(&IN.b, 0, 0);
	{ unsigned i_; for (i_ = 0; i_ < C15_MAXCH; i_++) __CPROVER_assume(!(IN.b.flags[i_] & EVBUFFER_MULTICAST)); }   /* multicast chains in the buffer: the *_mc variant of this unit (chain_free_c) */
	c15_build(&IN.s, 1, 0);
	__CPROVER_assume(IN.seg_refcnt >= 1 && IN.seg_refcnt <= 1000);
	SEG.refcnt = IN.seg_refcnt; SEG.flags = 0; SEG.lock = NULL;
	SEG.cleanup_cb = (IN.seg_has_cb & 1) ? c15_seg_cleanup_cb : NULL; SEG.cleanup_cb_arg = &COOKIE[7];
	SEG.is_mapping = 0; SEG.contents = NULL; SEG.mapping = NULL; SEG.fd = 5; SEG.length = 0; SEG.file_offset = 0;
	c15_assume_refs(&IN.b, &IN.s, IN.seg_refcnt, IN.s.refcnt);
	__CPROVER_assume(IN.start <= IN.b.nch);
	start = (IN.start < IN.b.nch) ? &XC[IN.start].c : NULL;
	C15_SNAPSHOT();
	VF_CALL_V(fac_c, evbuffer_free_all_chains, start);
	for (i = 0; i < C15_MAXCH; i++) {
		if (i >= IN.start && i < IN.b.nch) {
			if (O_XC[i].c.refcnt == 1) __CPROVER_assert((m_al.sfreed & (1u << i)) != 0, "chain from the start on: last reference => released (once)");
			else __CPROVER_assert(!(m_al.sfreed & (1u << i)) && XC[i].c.refcnt == O_XC[i].c.refcnt - 1, "chain from the start on: exactly one reference less");
			if ((O_XC[i].c.flags & EVBUFFER_REFERENCE) && (IN.b.has_cleanup[i] & 1))
				__CPROVER_assert(IFF(O_XC[i].c.refcnt == 1, (m_cl.mask & (1u << i)) != 0), "C15: cleanup callback of a reference chain runs (once) iff its last reference went");
		} else
			__CPROVER_assert(!(m_al.sfreed & (1u << i)) && C15_CH_SAME(XC[i].c, O_XC[i].c) && !(m_cl.mask & (1u << i)), "chains before the start / outside the list are not touched");
	}
	__CPROVER_assert(m_cl.twice == 0 && m_sc.bad == 0 && m_sys.bad == 0 && m_lk.bad_free == 0, "no callback with foreign arguments");
	__CPROVER_assert(C15_BUF_SAME(BUF, O_BUF), "the buffer header is not touched (the caller fixes first/last)");
#ifdef VF_CANARY
	__CPROVER_assert(m_al.frees == 0, "canary: must fail (chains are released)");
#endif
}
