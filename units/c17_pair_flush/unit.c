/* C17/C08 — be_pair_flush (real bufferevent_pair.c; be_pair_transfer, incref_and_lock, decref_and_unlock inlined):
 * unlinked => -1; BEV_NORMAL => 0, nothing; BEV_FLUSH/BEV_FINISHED => for EV_READ the partner's output is transferred into this
 * side's input, for EV_WRITE this side's output into the partner's input (a destination below its high mark is filled up to it, one
 * at/over it gets everything), then — BEV_FINISHED only — ONE BEV_EVENT_EOF is reported to the partner, AFTER the transfers, with
 * READING for a flushed write direction and WRITING for a flushed read direction.  Locks and references of both sides balanced.
 * VF_KF_EXCLUDE leaves out the inputs where BEV_FINISHED reports EOF although part of the output is still undelivered (candidate
 * defect, see c17_pair_flush_finished). */
#include "c17_pair_unit.h"
#ifdef VF_SIDE0
#define A_ 0          /* quick tier: side 0 is the subject (the code is the same for both sides); thorough tier: either */
#else
#define A_ (IN.a & 1)
#endif
#define D_ (1 - A_)
#define MV_(ss, ds, high) (((high) != 0 && (ds) < (high)) ? MINZ((ss), (high) - (ds)) : (ss))
#define ACT_(mode) (IN.linked && (mode) != BEV_NORMAL)
#define M1_(io, mode) ((ACT_(mode) && ((io) & EV_READ)) ? MV_(IN.len[2 * D_ + 1], IN.len[2 * A_], IN.high_r[A_]) : (size_t)0)
#define M2_(io, mode) ((ACT_(mode) && ((io) & EV_WRITE)) ? MV_(IN.len[2 * A_ + 1], IN.len[2 * D_], IN.high_r[D_]) : (size_t)0)
#define FIN_(mode) (ACT_(mode) && (mode) == BEV_FINISHED)
#define LEFTOVER_(io, mode) (FIN_(mode) && ((((io) & EV_WRITE) && M2_(io, mode) != IN.len[2 * A_ + 1]) || (((io) & EV_READ) && M1_(io, mode) != IN.len[2 * D_ + 1])))
VF_CONTRACT(int, pair_flush_c, struct bufferevent *bev, short iotype, enum bufferevent_flush_mode mode)
__CPROVER_requires(bev == PBEV(A_) && g_lock_depth[1] == 0 && P0.bev.refcnt >= 1 && P1.bev.refcnt >= 1 && P0.bev.refcnt < (1 << 24) && P1.bev.refcnt < (1 << 24))
__CPROVER_requires(g_p.move_calls == 0 && g_p.moved == 0 && g_p.move_bad_args == 0 && g_p.move_refused == 0 && g_p.nrep == 0 && g_p.ecb[0].n == 0 && g_p.ecb[1].n == 0 && g_p.rcb[0].n == 0 && g_p.rcb[1].n == 0 && g_p.wcb[0].n == 0 && g_p.wcb[1].n == 0)
__CPROVER_requires(g_p.frozen[0] && g_p.frozen[1] && g_p.frozen[2] && g_p.frozen[3])
__CPROVER_assigns(P0.bev.refcnt, P1.bev.refcnt, PAIR_GHOST_FRAME)
__CPROVER_ensures(__CPROVER_return_value == (IN.linked ? 0 : -1))
__CPROVER_ensures(IMP(!ACT_(mode), g_p.move_calls == 0 && g_p.nrep == 0))
/* 3 the transfers */
__CPROVER_ensures(g_p.len[2 * A_] == IN.len[2 * A_] + M1_(iotype, mode) && g_p.len[2 * D_ + 1] == IN.len[2 * D_ + 1] - M1_(iotype, mode))
__CPROVER_ensures(g_p.len[2 * D_] == IN.len[2 * D_] + M2_(iotype, mode) && g_p.len[2 * A_ + 1] == IN.len[2 * A_ + 1] - M2_(iotype, mode))
__CPROVER_ensures(g_p.move_bad_args == 0 && g_p.move_refused == 0 && g_p.move_calls == B(ACT_(mode) && (iotype & EV_READ)) + B(ACT_(mode) && (iotype & EV_WRITE)))
/* 6 EOF: exactly one, to the partner, after everything else, with the documented direction bits */
__CPROVER_ensures(g_p.ecb[A_].n == 0 && g_p.ecb[D_].n == B(FIN_(mode)))
__CPROVER_ensures(IMP(FIN_(mode), g_p.ecb[D_].at == g_p.nrep && g_p.ecb[D_].options == 0 && g_p.ecb[D_].what == (short)(BEV_EVENT_EOF | ((iotype & EV_READ) ? BEV_EVENT_WRITING : 0) | ((iotype & EV_WRITE) ? BEV_EVENT_READING : 0))))
/* 8 C08/C10 */
__CPROVER_ensures(P0.bev.refcnt == IN.refcnt[0] && P1.bev.refcnt == IN.refcnt[1] && g_p.freed[0] == 0 && g_p.freed[1] == 0 && g_lock_depth[1] == 0)
__CPROVER_ensures(g_p.frozen[0] && g_p.frozen[1] && g_p.frozen[2] && g_p.frozen[3])
;
void harness(void)
{
	int r;
	VF_LOAD_IN();
	vf_pair_build();
	__CPROVER_assume(IN.len[0] <= VF_LENBOUND && IN.len[1] <= VF_LENBOUND && IN.len[2] <= VF_LENBOUND && IN.len[3] <= VF_LENBOUND);
	__CPROVER_assume(IN.refcnt[0] >= 1 && IN.refcnt[1] >= 1 && IN.refcnt[0] < (1 << 24) && IN.refcnt[1] < (1 << 24));
	__CPROVER_assume(IN.mode == BEV_NORMAL || IN.mode == BEV_FLUSH || IN.mode == BEV_FINISHED);
#if defined(VF_KF_ONLY)
	__CPROVER_assume(LEFTOVER_(IN.iotype, IN.mode));
#elif defined(VF_KF_EXCLUDE)
	__CPROVER_assume(!LEFTOVER_(IN.iotype, IN.mode));
#endif
	r = VF_CALL(pair_flush_c, be_pair_flush, PBEV(A_), IN.iotype, (enum bufferevent_flush_mode)IN.mode);
	(void)r;
	/* C17: EOF only after every byte written before the shutdown has been delivered */
	if (g_p.ecb[D_].n && (IN.iotype & EV_WRITE)) __CPROVER_assert(g_p.len[2 * A_ + 1] == 0, "EOF is reported to the reader only after the whole output has been delivered");
	if (g_p.ecb[D_].n && (IN.iotype & EV_READ)) __CPROVER_assert(g_p.len[2 * D_ + 1] == 0, "EOF (writing side) is reported only after the partner's whole output has been taken over");
	__CPROVER_assert(PBEV(0)->enabled == IN.enabled[0] && PBEV(1)->enabled == IN.enabled[1], "frame: enabled sets");
#ifdef VF_CANARY
	__CPROVER_assert(g_p.ecb[D_].n == 0, "canary: must fail (BEV_FINISHED reports EOF)");
#endif
}
