/* C28 — evhttp_uri_join (real http.c) on harness-built URIs: every subset of the components present, every
 * component an arbitrary C string of <= VF_CL bytes (all non-NUL byte values), any port -1..VF_PORTMAX, the HAS_BRACKETS bit set or not, every limit 0..VF_BUFCAP (buf lies in a larger sentinel-filled object):
 *   J1 never writes at or past buf[limit] and, on failure, writes nothing at all
 *   J2 returns NULL iff uri/buf is NULL, limit is 0, the scratch buffer could not be created, the result
 *      (with its NUL) does not fit limit, or the combination is ambiguous in the one way join checks:
 *      a host is present and the path is neither empty nor starts with '/'
 *   J3 otherwise returns buf holding exactly the RFC 3986 5.3 recomposition
 *        [scheme ":"] ["//" [userinfo "@"] ( "unix:" sock ":" | host-or-"["host"]" [":" port] )] path ["?" query] ["#" fragment]
 *      NUL-terminated, and nothing beyond the terminator is written; the uri is not modified
 *   J4 the scratch evbuffer is freed on every path
 * What join does NOT refuse (path "//x" without host, "a:b" without scheme, userinfo/port without host,
 * unix socket with a relative path) is the subject of unit c28_set_join_parse / the agent report. */
#ifndef VF_CL
#define VF_CL 2
#endif
#ifndef VF_PORTMAX
#define VF_PORTMAX 99                    /* shape bound on the port (decimal conversion is costly for the solver) */
#endif
#define VF_BUFCAP (7 * VF_CL + 24)       /* longest result: 7 components + "://@unix::[]:2147483647?#" + NUL */
#define VF_SB_CAP (VF_BUFCAP + 1)
#define VF_NCHOICE 2
#include "vf.h"
#include "http.c"
struct in { unsigned char c[7][VF_CL]; unsigned len[7]; unsigned present; int port; unsigned brackets; unsigned limit; int null_uri, null_buf; unsigned ch[VF_NCHOICE]; };
struct in IN;
#include "stubs/log.h"
#include "stubs/c28_evbuf.h"

enum { C_SCHEME, C_USERINFO, C_HOST, C_SOCK, C_PATH, C_QUERY, C_FRAGMENT };
static char C0[VF_CL + 1], C1[VF_CL + 1], C2[VF_CL + 1], C3[VF_CL + 1], C4[VF_CL + 1], C5[VF_CL + 1], C6[VF_CL + 1];
static char BUF[VF_BUFCAP + 1];
static unsigned elen;
static struct evhttp_uri U, U0;

/* cursor-based matcher: the output must continue, at position *o, with the given text */
static const char *OUT; static unsigned o_; static int match_;
static void m_putc(char c) { if (OUT[o_] != c) match_ = 0; o_++; }
static void m_puts(const char *s) { unsigned k; for (k = 0; k < VF_CL; k++) { if (s[k] == '\0') break; m_putc(s[k]); } }
static void m_lit(const char *s) { unsigned k; for (k = 0; k < 8; k++) { if (s[k] == '\0') break; m_putc(s[k]); } }
static void m_dec(int v)
{
	char d[12]; int nd = 0, k; unsigned uv = (unsigned)v;      /* v >= 0 here */
	for (k = 0; k < 10; k++) { d[nd++] = (char)('0' + uv % 10u); uv /= 10u; if (uv == 0) break; }
	for (k = 0; k < 10; k++) { if (nd == 0) break; m_putc(d[--nd]); }
}
static unsigned slen_(const char *s) { unsigned k; for (k = 0; k < VF_CL; k++) if (s[k] == '\0') break; return k; }
static unsigned declen_(int v) { unsigned n = 1, k; unsigned uv = (unsigned)v; for (k = 0; k < 9; k++) { uv /= 10u; if (uv == 0) break; n++; } return n; }
#define FILL(buf, i) do { __CPROVER_assume(IN.len[i] <= VF_CL); for (k = 0; k < VF_CL; k++) { __CPROVER_assume(!(k < IN.len[i]) || IN.c[i][k] != 0); buf[k] = k < IN.len[i] ? (char)IN.c[i][k] : '\0'; } buf[VF_CL] = '\0'; } while (0)

void harness(void)
{
	char *r, *buf; unsigned k; int ambiguous;
	VF_LOAD_IN(); VF_SB_RESET(); g_sb_new_may_fail = 1;
	FILL(C0, 0); FILL(C1, 1); FILL(C2, 2); FILL(C3, 3); FILL(C4, 4); FILL(C5, 5); FILL(C6, 6);
	__CPROVER_assume(IN.port >= -1 && IN.port <= VF_PORTMAX);                           /* evhttp_uri_set_port / the parser never store less */
	__CPROVER_assume(IN.limit <= VF_BUFCAP);
	U.flags = IN.brackets ? _EVHTTP_URI_HOST_HAS_BRACKETS : 0;
	U.scheme = (IN.present & 1u) ? C0 : NULL;
	U.userinfo = (IN.present & 2u) ? C1 : NULL;
	U.host = (IN.present & 4u) ? C2 : NULL;
	U.unixsocket = (IN.present & 8u) ? C3 : NULL;
	U.path = (IN.present & 16u) ? C4 : NULL;
	U.query = (IN.present & 32u) ? C5 : NULL;
	U.fragment = (IN.present & 64u) ? C6 : NULL;
	U.port = IN.port;
	U0 = U;
	for (k = 0; k <= VF_BUFCAP; k++) BUF[k] = 0x55;
	buf = BUF;                                                /* limit <= VF_BUFCAP < sizeof BUF: a write at or past buf[limit] is caught by the sentinel check (inside BUF) or the object bound */
	/* length of the reference recomposition (RFC 3986 5.3 + the unix form) */
	elen = 0;
	if (U.scheme) elen += slen_(C0) + 1;
	if (U.unixsocket) elen += 2 + (U.userinfo ? slen_(C1) + 1 : 0) + 5 + slen_(C3) + 1;
	else if (U.host) elen += 2 + (U.userinfo ? slen_(C1) + 1 : 0) + (IN.brackets ? 2 : 0) + slen_(C2) + (U.port >= 0 ? 1 + declen_(U.port) : 0);
	if (U.path) elen += slen_(C4);
	if (U.query) elen += 1 + slen_(C5);
	if (U.fragment) elen += 1 + slen_(C6);
	ambiguous = !U.unixsocket && U.host && U.path && C4[0] != '/' && C4[0] != '\0';

	r = evhttp_uri_join(IN.null_uri ? NULL : &U, IN.null_buf ? NULL : buf, IN.limit);

	__CPROVER_assert(g_sb_live == 0, "J4: the scratch evbuffer is freed on every path");
	__CPROVER_assert(U.flags == U0.flags && U.scheme == U0.scheme && U.userinfo == U0.userinfo && U.host == U0.host && U.unixsocket == U0.unixsocket && U.port == U0.port && U.path == U0.path && U.query == U0.query && U.fragment == U0.fragment, "J3: the uri is not modified");
	if (IN.null_uri || IN.null_buf || IN.limit == 0 || ambiguous || elen + 1 > IN.limit) {
		__CPROVER_assert(r == NULL, "J2: NULL for NULL arguments, limit 0, an ambiguous host + relative path, or a result that does not fit");
	} else {
		__CPROVER_assert(r != NULL || g_sb_new_failed > 0, "J2: otherwise join succeeds (unless the scratch buffer could not be created)");
	}
	if (r == NULL) {
		for (k = 0; k <= VF_BUFCAP; k++) __CPROVER_assert(BUF[k] == 0x55, "J1: on failure nothing is written to buf");
		return;
	}
	__CPROVER_assert(r == buf, "J3: returns the caller's buffer");
	OUT = buf; o_ = 0; match_ = 1;
	if (U.scheme) { m_puts(C0); m_putc(':'); }
	if (U.unixsocket) { m_lit("//"); if (U.userinfo) { m_puts(C1); m_putc('@'); } m_lit("unix:"); m_puts(C3); m_putc(':'); }
	else if (U.host) {
		m_lit("//"); if (U.userinfo) { m_puts(C1); m_putc('@'); }
		if (IN.brackets) m_putc('['); m_puts(C2); if (IN.brackets) m_putc(']');
		if (U.port >= 0) { m_putc(':'); m_dec(U.port); }
	}
	if (U.path) m_puts(C4);
	if (U.query) { m_putc('?'); m_puts(C5); }
	if (U.fragment) { m_putc('#'); m_puts(C6); }
	__CPROVER_assert(match_ && o_ == elen, "J3: the output is exactly the recomposition of the components");
	__CPROVER_assert(buf[elen] == '\0', "J3: NUL-terminated right after the recomposition");
	for (k = 0; k <= VF_BUFCAP; k++) if (k > elen) __CPROVER_assert(BUF[k] == 0x55, "J1/J3: nothing beyond the terminator (in particular nothing at or past buf[limit]) is written");
	__CPROVER_assert(elen + 1 <= IN.limit, "J1: the result including its NUL lies inside buf[0..limit)");
#ifdef VF_CANARY
	__CPROVER_assert(!(elen == 9 && IN.port == 80), "canary: must fail (\"//[h]:80/\" has 9 characters)");
#endif
}
