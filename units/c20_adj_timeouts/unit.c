/* C20 — bufferevent_generic_adj_timeouts_ (real bufferevent.c; the adj_timeouts op of pair and filter bufferevents,
 * whose ev_read/ev_write are pure timer events): the read timer is (re)armed with timeout_read iff reading is enabled,
 * not suspended and a read timeout is set, otherwise it is deleted ("never fires while the direction is disabled");
 * the write timer additionally only while there is pending output.  Exactly one event operation per direction;
 * result -1 iff one of them failed. */
#include "c18_bev_unit.h"
#define TSET(s, u) ((s) != 0 || (u) != 0)
#define RA_ ((BEV->enabled & EV_READ) && BEVP.read_suspended == 0 && TSET(BEV->timeout_read.tv_sec, BEV->timeout_read.tv_usec))
#define WA_ ((BEV->enabled & EV_WRITE) && BEVP.write_suspended == 0 && TSET(BEV->timeout_write.tv_sec, BEV->timeout_write.tv_usec) && g_e.len_out != 0)
#define EV0 g_e.ev[0]
#define EV1 g_e.ev[1]
VF_CONTRACT(int, adj_c, struct bufferevent *bev)
__CPROVER_requires(bev == BEV)
__CPROVER_requires(EV0.n_add == 0 && EV0.n_del == 0 && EV0.n_add_fail == 0 && EV0.n_add_tv == 0 && EV1.n_add == 0 && EV1.n_del == 0 && EV1.n_add_fail == 0 && EV1.n_add_tv == 0)
__CPROVER_assigns(BEV_GHOST_FRAME)
/* 1 read direction */
__CPROVER_ensures(EV0.n_add == B(RA_) && EV0.n_del == B(!RA_) && EV0.n_rmt == 0)
__CPROVER_ensures(IMP(RA_ && EV0.n_add_fail == 0, EV0.ins && EV0.timer && EV0.tv_sec == BEV->timeout_read.tv_sec && EV0.tv_usec == BEV->timeout_read.tv_usec))
__CPROVER_ensures(IMP(!RA_ && !g_e.event_del_may_fail, !EV0.ins && !EV0.timer))
/* 4 write direction */
__CPROVER_ensures(EV1.n_add == B(WA_) && EV1.n_del == B(!WA_) && EV1.n_rmt == 0)
__CPROVER_ensures(IMP(WA_ && EV1.n_add_fail == 0, EV1.ins && EV1.timer && EV1.tv_sec == BEV->timeout_write.tv_sec && EV1.tv_usec == BEV->timeout_write.tv_usec))
__CPROVER_ensures(IMP(!WA_ && !g_e.event_del_may_fail, !EV1.ins && !EV1.timer))
/* 7 result */
__CPROVER_ensures(__CPROVER_return_value == 0 || __CPROVER_return_value == -1)
__CPROVER_ensures(IMP(!g_e.event_del_may_fail, IFF(__CPROVER_return_value == -1, EV0.n_add_fail + EV1.n_add_fail > 0)))
__CPROVER_ensures(IMP(!g_e.event_del_may_fail && !g_e.event_add_may_fail, __CPROVER_return_value == 0))
;
void harness(void)
{
	int r;
	VF_LOAD_IN();
	vf_bev_build();
	r = VF_CALL(adj_c, bufferevent_generic_adj_timeouts_, BEV);
	(void)r;
	__CPROVER_assert(g_e.ev[2].n_add == 0 && g_e.ev[2].n_del == 0 && g_e.nseq == 0 && g_e.en_calls == 0 && g_e.dis_calls == 0, "only the two timer events are touched");
#ifdef VF_CANARY
	__CPROVER_assert(EV1.n_add == 0, "canary: must fail (the write timer is armed when there is pending output)");
#endif
}
