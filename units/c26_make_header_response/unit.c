/* C26 — evhttp_make_header + evhttp_make_header_response (real http.c, with evhttp_add_header,
 * evhttp_find_header, evhttp_remove_header, evhttp_maybe_add_* inlined): what a reply looks like
 * on the wire.  Output = operation log (stubs/c23_out_log.h).
 *  wire order: status line "HTTP/<major>.<minor> <code> <reason>" from the request's own fields,
 *    then ONE "name: value" line per entry of the final output header list, in list order, then
 *    the empty line, then the body buffer iff it is non-empty — nothing else;
 *  header list = the caller's fields (kept, in order, unchanged) + exactly the documented
 *    automatic ones:
 *    Date            HTTP/1.1+ and the caller gave none;
 *    Connection: keep-alive   HTTP/1.0 and the request asked for keep-alive;
 *    Content-Length  (HTTP/1.1+ or keep-alive) and the response has a body and the caller gave
 *                    neither Content-Length nor Transfer-Encoding; value = the body length;
 *    Content-Type    the server's default, if the response has a body and the caller gave none;
 *    Connection: close  replaces the caller's Connection field when the request asked to close.
 * Caller's fields: any subset of {Content-Length, Transfer-Encoding, Date, Content-Type,
 * Connection}; request's Connection: none / close / keep-alive / Keep-Alive (prefix) / other. */
#define VF_STRMAX 18
#define VF_HEAPSTR 20
#include "vf.h"
#include "http.c"
struct in { int u_cl, u_te, u_date, u_ct, u_conn, in_conn, have_dct; char major, minor; int code; unsigned type; size_t bodylen; unsigned ch[VF_NCHOICE]; };
struct in IN;
#include "stubs/log.h"
#include "stubs/c23_libc_ref.h"
#define VF_MM_NOFAIL
#include "stubs/c23_mm.h"
#include "stubs/c23_out_log.h"
#include "c23_ref.h"

static struct evkeyvalq IQ, OQ; static struct evkeyval H_IN;
static char K_CONN_IN[11], V_CONN_IN[16], REASON[3], DCT[7];
static struct evhttp HTTP; static struct evhttp_connection EVCON; static struct evhttp_request REQ;
static void vf_setstr(char *d, const char *s) { unsigned i; for (i = 0; i <= VF_STRMAX; i++) { d[i] = s[i]; if (!s[i]) break; } }
static void vf_user_header(const char *k, const char *v)
{
	struct evkeyval *h = malloc(sizeof(*h));
	__CPROVER_assume(h != NULL); g_mm_live++;
	h->key = event_mm_strdup_(k); h->value = event_mm_strdup_(v);
	TAILQ_INSERT_TAIL(&OQ, h, next);
}
#define IS_1XX(c) ((c) >= 100 && (c) < 200)
#define NEED_BODY (!(IN.type == EVHTTP_REQ_HEAD || IN.type == EVHTTP_REQ_CONNECT || IS_1XX(IN.code) || IN.code == 204 || IN.code == 304))

void harness(void)
{
	const char *expk[10], *expv[10]; unsigned ne = 0, k, nh; int ka, cl, auto_cl; struct evkeyval *h;
	VF_LOAD_IN(); VF_MM_RESET(); VF_OUT_RESET(); e_snprintf_calls = 0; e_snprintf_val = 0; e_date_calls = 0;
	__CPROVER_assume(IN.in_conn >= 0 && IN.in_conn <= 4);
	__CPROVER_assume(IN.major >= 0 && IN.major <= 9 && IN.minor >= 0 && IN.minor <= 9);       /* evhttp_parse_http_version: single digits */
	TAILQ_INIT(&IQ); TAILQ_INIT(&OQ);
	vf_setstr(K_CONN_IN, "Connection"); vf_setstr(REASON, "OK"); vf_setstr(DCT, "text/x");
	vf_setstr(V_CONN_IN, IN.in_conn == 1 ? "cLose" : IN.in_conn == 2 ? "keep-alive" : IN.in_conn == 3 ? "Keep-Alive, x" : "upgrade");
	if (IN.in_conn) { H_IN.key = K_CONN_IN; H_IN.value = V_CONN_IN; TAILQ_INSERT_TAIL(&IQ, &H_IN, next); }
	ka = IN.in_conn == 2 || IN.in_conn == 3; cl = IN.in_conn == 1;
	if (IN.u_cl) vf_user_header("Content-Length", "5");
	if (IN.u_te) vf_user_header("Transfer-Encoding", "chunked");
	if (IN.u_date) vf_user_header("Date", "d");
	if (IN.u_ct) vf_user_header("Content-Type", "t");
	if (IN.u_conn) vf_user_header("Connection", "x");
	HTTP.default_content_type = IN.have_dct ? DCT : NULL;
	EVCON.bufev = &BEV; EVCON.http_server = &HTTP;
	REQ.evcon = &EVCON; REQ.kind = EVHTTP_RESPONSE; REQ.input_headers = &IQ; REQ.output_headers = &OQ; REQ.output_buffer = &EB[E_ROUT];
	REQ.major = IN.major; REQ.minor = IN.minor; REQ.response_code = IN.code; REQ.response_code_line = REASON; REQ.type = (enum evhttp_cmd_type)IN.type; REQ.flags = 0;
	EB[E_ROUT].len = IN.bodylen;
	__CPROVER_assume(IN.bodylen <= ((size_t)1 << 62));

	/* ---- reference: the documented header set, in list order */
	if (IN.u_cl) { expk[ne] = "Content-Length"; expv[ne++] = "5"; }
	if (IN.u_te) { expk[ne] = "Transfer-Encoding"; expv[ne++] = "chunked"; }
	if (IN.u_date) { expk[ne] = "Date"; expv[ne++] = "d"; }
	if (IN.u_ct) { expk[ne] = "Content-Type"; expv[ne++] = "t"; }
	if (IN.u_conn && !cl) { expk[ne] = "Connection"; expv[ne++] = "x"; }
	auto_cl = 0;
	if (IN.major == 1) {
		if (IN.minor >= 1 && !IN.u_date) { expk[ne] = "Date"; expv[ne++] = "#D"; }
		if (IN.minor == 0 && ka) { expk[ne] = "Connection"; expv[ne++] = "keep-alive"; }
		if ((IN.minor >= 1 || ka) && NEED_BODY && !IN.u_cl && !IN.u_te) { expk[ne] = "Content-Length"; expv[ne++] = "#L"; auto_cl = 1; }
	}
	if (NEED_BODY && !IN.u_ct && IN.have_dct) { expk[ne] = "Content-Type"; expv[ne++] = "text/x"; }
	if (cl) { expk[ne] = "Connection"; expv[ne++] = "close"; }

	evhttp_make_header(&EVCON, &REQ);

	/* ---- the header list */
	nh = 0;
	TAILQ_FOREACH(h, &OQ, next) {
		if (nh >= 10) break;
		__CPROVER_assert(nh < ne && ref_streq(h->key, expk[nh]) && ref_streq(h->value, expv[nh]), "header list: the caller's fields unchanged and in order, then exactly the documented automatic fields");
		/* wire order: header line k is entry k of the list */
		__CPROVER_assert(e_log[1 + nh].op == OP_HDR && e_log[1 + nh].s1 == h->key && e_log[1 + nh].s2 == h->value, "wire: one \"name: value\" line per list entry, in list order");
		nh++;
	}
	__CPROVER_assert(nh == ne, "header list: no field missing, none extra");
	__CPROVER_assert(IMP(auto_cl, e_snprintf_calls == 1 && e_snprintf_val == IN.bodylen), "automatic Content-Length = the length of the body buffer");
	__CPROVER_assert(IMP(!auto_cl, e_snprintf_calls == 0), "no Content-Length computed when the caller framed the body (or no body / HTTP/1.0 close)");
	/* ---- the wire */
	__CPROVER_assert(e_log[0].op == OP_STATUS && e_log[0].i1 == IN.major && e_log[0].i2 == IN.minor && e_log[0].i3 == IN.code && e_log[0].s1 == REASON, "wire: status line first, from the request's version, code and reason");
	__CPROVER_assert(e_log[1 + nh].op == OP_CRLF, "wire: empty line after the last header line");
	__CPROVER_assert(IN.bodylen > 0 ? (e_nlog == nh + 3 && e_log[2 + nh].op == OP_BUFFER && e_log[2 + nh].src == &EB[E_ROUT] && e_log[2 + nh].n == IN.bodylen && EB[E_ROUT].len == 0) : e_nlog == nh + 2, "wire: then the whole body buffer iff non-empty, and nothing else");
#ifdef VF_CANARY
	__CPROVER_assert(ne != 5, "canary: must fail (five header fields are possible)");
#endif
}
