/* C39 — resolv_conf_parse_line (real evdns.c) on EVERY line of <= C39_LINECAP bytes (symbolic content,
 * NUL anywhere), every flag set: memory safety (all reads/writes inside the line buffer), and the
 * directive semantics against a reference tokenizer:
 *   nameserver X  (DNS_OPTION_NAMESERVERS)  -> evdns_base_nameserver_ip_add(base, X) once, X = 2nd field
 *   domain D      (DNS_OPTION_SEARCH)       -> search_postfix_clear; search_postfix_add(D)
 *   search D1..Dn (DNS_OPTION_SEARCH)       -> clear; add(D1)..add(Dn) in order; search_reverse
 *   options o1..on                          -> evdns_base_set_option_impl(base, oi, text after ':' or "", flags) in order
 *   anything else / flag missing / no operand -> no callee is called at all
 * and the line buffer itself: only delimiter bytes are overwritten, by NUL; every field handed over is
 * NUL-terminated in place.  Plain assert-harness (strtok/strcmp loops unwound); the five callees are
 * replaced by argument-recording stub BODIES ("replace_calls"), which also check the call order and
 * that the arguments point into the line. */
#define VF_NLOCKS 1
#include "vf.h"
#include "evdns.c"
#ifndef C39_LINECAP
#define C39_LINECAP 16
#endif
struct in { char line[C39_LINECAP + 1]; int flags; int ns_ret, opt_ret; };
struct in IN;
#include "stubs/log.h"
#include "stubs/lock.h"
#include "stubs/c39_libc_ref.h"
#include "stubs/c39_evdns_env.h"
#include "c39_line_ref.h"
static struct evdns_base C39_BASE;
int O_flags;

/* ---- recording stubs (bodies) for the callees */
static int g_add_off[C39_MAXTOK + 1], g_opt_off[C39_MAXTOK + 1], g_val_off[C39_MAXTOK + 1], g_ns_off;
#define IN_LINE(p) (__CPROVER_same_object((p), C39_LINE))
int c39_ns_add_stub(struct evdns_base *base, const char *ip_as_string)
{
	__CPROVER_assert(base == &C39_BASE && ip_as_string != NULL && IN_LINE(ip_as_string), "evdns_base_nameserver_ip_add: this base, a string inside the line");
	g_ns_off = (int)(ip_as_string - C39_LINE); g_ns_n++;
	return IN.ns_ret;
}
void c39_clear_stub(struct evdns_base *base)
{
	__CPROVER_assert(base == &C39_BASE && g_clear_n == 0 && g_add_n == 0 && g_rev_n == 0, "search_postfix_clear: first, once");
	g_clear_n++;
}
void c39_add_stub(struct evdns_base *base, const char *domain)
{
	__CPROVER_assert(base == &C39_BASE && domain != NULL && IN_LINE(domain), "search_postfix_add: this base, a string inside the line");
	__CPROVER_assert(g_clear_n == 1 && g_rev_n == 0, "search_postfix_add: after the clear, before the reversal");
	if (g_add_n < C39_MAXTOK) g_add_off[g_add_n] = (int)(domain - C39_LINE);
	g_add_n++;
}
void c39_reverse_stub(struct evdns_base *base)
{
	__CPROVER_assert(base == &C39_BASE && g_clear_n == 1 && g_rev_n == 0, "search_reverse: after the clear, once");
	g_rev_n++;
}
int c39_set_option_stub(struct evdns_base *base, const char *option, const char *val, int flags)
{
	__CPROVER_assert(base == &C39_BASE && option != NULL && IN_LINE(option) && flags == O_flags, "evdns_base_set_option_impl: this base, the caller's flags, an option string inside the line");
	__CPROVER_assert(val != NULL && (IN_LINE(val) || val[0] == '\0'), "evdns_base_set_option_impl: the value is text inside the line or the empty string");
	if (g_opt_n < C39_MAXTOK) { g_opt_off[g_opt_n] = (int)(option - C39_LINE); g_val_off[g_opt_n] = IN_LINE(val) ? (int)(val - C39_LINE) : -1; }
	g_opt_n++;
	return IN.opt_ret;
}

void harness(void)
{
	int i, k, dir = 0, nexp = 0;
	VF_LOAD_IN();
	VF_INSTALL_LOCKS();
	for (i = 0; i < C39_LINECAP; i++) { C39_LINE[i] = IN.line[i]; O_LINE[i] = IN.line[i]; }
	C39_LINE[C39_LINECAP] = '\0'; O_LINE[C39_LINECAP] = '\0';
	evdns_log_fn = NULL; current_base = NULL;
	C39_BASE.lock = VF_LOCK_COOKIE(1); g_lock_depth[1] = 1;
	O_flags = IN.flags;
	C39_LOG_RESET(); g_ns_off = -1;
	/* reference reading of the line */
	c39_ref_tokenize();
	if (c39_tok_is(0, "nameserver") && (IN.flags & DNS_OPTION_NAMESERVERS)) dir = 1;
	else if (c39_tok_is(0, "domain") && (IN.flags & DNS_OPTION_SEARCH)) dir = 2;
	else if (c39_tok_is(0, "search") && (IN.flags & DNS_OPTION_SEARCH)) dir = 3;
	else if (c39_tok_is(0, "options")) dir = 4;
	nexp = O_ntok >= 1 ? O_ntok - 1 : 0;            /* operands on the line */

	resolv_conf_parse_line(&C39_BASE, C39_LINE, IN.flags);

	__CPROVER_assert(g_ns_n == ((dir == 1 && nexp >= 1) ? 1 : 0), "nameserver X: exactly one call of evdns_base_nameserver_ip_add; nothing for any other line");
	if (dir == 1 && nexp >= 1) __CPROVER_assert(g_ns_off == O_ts[1], "nameserver X: X is the second field");
	__CPROVER_assert(g_clear_n == ((dir == 2 && nexp >= 1) || dir == 3 ? 1 : 0), "domain D / search ...: the old search list is cleared exactly once; never otherwise");
	__CPROVER_assert(g_add_n == (dir == 2 ? (nexp >= 1 ? 1 : 0) : dir == 3 ? nexp : 0), "domain D adds one domain, search D1..Dn adds n; nothing otherwise");
	__CPROVER_assert(g_rev_n == (dir == 3 ? 1 : 0), "search: the list is reversed once at the end (file order); never otherwise");
	__CPROVER_assert(g_opt_n == (dir == 4 ? nexp : 0), "options o1..on: one evdns_base_set_option_impl call per field; nothing otherwise");
	for (k = 1; k < C39_MAXTOK; k++) {
		if (k > nexp) break;
		if (dir == 2 && k == 1) __CPROVER_assert(g_add_off[0] == O_ts[1], "domain D: D is the second field");
		if (dir == 3) __CPROVER_assert(g_add_off[k - 1] == O_ts[k], "search: the domains are the fields after the directive, in order");
		if (dir == 4) {
			__CPROVER_assert(g_opt_off[k - 1] == O_ts[k], "options: the option strings are the fields after the directive, in order");
			__CPROVER_assert(g_val_off[k - 1] == c39_tok_colon(k), "options: the value is the text after the first ':' of the field, or the empty string");
		}
	}
	/* the line buffer afterwards */
	for (i = 0; i <= C39_LINECAP; i++)
		__CPROVER_assert(C39_LINE[i] == O_LINE[i] || (C39_LINE[i] == '\0' && C39_IS_DELIM(O_LINE[i])), "only delimiter bytes of the line are overwritten, and only by NUL");
	for (k = 0; k < C39_MAXTOK; k++) {
		int consumed = (k == 0) ? (O_ntok >= 1) : (k < O_ntok && ((dir == 1 || dir == 2) ? k == 1 : (dir == 3 || dir == 4)));
		if (consumed) __CPROVER_assert(C39_LINE[O_te[k]] == '\0', "every field handed to a callee (and the directive word) is NUL-terminated in place");
	}
	__CPROVER_assert(g_lock_depth[1] == 1 && g_lock_ops == 0, "C08: the base lock is neither taken nor released");
#ifdef VF_CANARY
	__CPROVER_assert(g_add_n < 3, "canary: must fail (a search line can carry 3 domains)");
#endif
}
