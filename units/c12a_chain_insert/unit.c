/* C12 — evbuffer_chain_insert (real buffer.c; evbuffer_free_trailing_empty_chains, evbuffer_free_all_chains and
 * evbuffer_chains_all_empty run inline) against chain_insert_c, the contract by which evbuffer_add & co. replace it:
 * on every shape of <= 3 chains, appending a chain allocated during the call frees exactly the chains behind the last
 * chain with data, links the new chain there, and keeps last_with_datap canonical. */
#define VF_NLOCKS 2
#include "vf.h"
#include "stubs/c12a_mem.h"
#include "buffer.c"
struct eb_in;
#include "stubs/lock.h"
#include "c12a_shape.h"
struct in { struct eb_in b; size_t newoff, newlen; unsigned ch[VF_NCHOICE]; };
struct in IN;
#include "stubs/log.h"
#include "stubs/c12a_mm.h"
#include "c12a_contracts.h"
static struct { struct evbuffer_chain c; unsigned char data[1]; } NEWCH;   /* the chain being inserted (header directly followed by its data area) */

void harness(void)
{
	VF_LOAD_IN();
	c12a_build(&IN.b);
	VF_INSTALL_LOCKS(); C12A_RESET();
	__CPROVER_assume(IN.newlen <= VF_EB_MAXSZ && IN.newoff <= IN.newlen);
	NEWCH.c.next = NULL; NEWCH.c.buffer_len = IN.newlen; NEWCH.c.misalign = 0; NEWCH.c.off = IN.newoff; NEWCH.c.flags = 0; NEWCH.c.refcnt = 1;
	NEWCH.c.buffer = (unsigned char *)(&NEWCH.c + 1);
	g_new[0] = &NEWCH.c; g_nnew = 1;
	if (BUF.lock) g_lock_depth[1] = 1;      /* internal function: called with the buffer locked */
	C12A_SNAPSHOT();
	VF_CALL_V(chain_insert_c, evbuffer_chain_insert, &BUF, &NEWCH.c);
	__CPROVER_assert(c12a_binv(&BUF), "BInv after chain_insert");
	__CPROVER_assert(g_lock_depth[1] == (BUF.lock ? 1 : 0), "lock depth unchanged");
#ifdef VF_CANARY
	__CPROVER_assert(g_freed == 0, "canary: must fail (trailing empty chains are freed)");
#endif
}
