/* C38 — evutil_getaddrinfo_common_ (real evutil.c) with the real evutil_getaddrinfo_infer_protocols,
 * evutil_unparse_protoname, evutil_parse_servname / parse_numeric_servname, evutil_new_addrinfo_,
 * evutil_addrinfo_append_ and evutil_freeaddrinfo inlined: the part of getaddrinfo that is answered
 * WITHOUT any query.  For every hints record (family, socktype, protocol, flags), every service string
 * of <= C38_SERVCAP bytes (or NULL), node NULL / numeric IPv4 / numeric IPv6 (with scope) / a name:
 *   - NULL node: loopback (or the wildcard with AI_PASSIVE) for every family the hint allows, IPv4 first
 *   - numeric node: exactly that address, in the family the hint allows (IPv6 text is tried first)
 *   - every answer carries the port of the service (network order) and is expanded to
 *     (SOCK_STREAM,TCP)+(SOCK_DGRAM,UDP) when neither socktype nor protocol is given, else carries
 *     the (inferred) socktype/protocol pair
 *   - a name: EVUTIL_EAI_NEED_RESOLVE with the port stored (EVUTIL_EAI_NONAME under AI_NUMERICHOST),
 *     nothing allocated, *res untouched
 *   - error codes (NONAME for a bad service or no node and no service, FAMILY, MEMORY with nothing leaked)
 * evutil_inet_pton / evutil_inet_pton_scope (C40, other units) are stub bodies whose verdict and address
 * come from the input record; getservbyname/getprotobynumber are stubs. */
#include "vf.h"
#include "evutil.c"
#ifndef C38_SERVCAP
#define C38_SERVCAP 6
#endif
struct in {
	int node_null, serv_null; char serv[C38_SERVCAP + 1];
	int flags, family, socktype, protocol;
	int is_v6, is_v4; unsigned char addr[16]; unsigned scope;
	int sbn_found; unsigned short sbn_port; int pbn_found;
	unsigned w;                                  /* witness: which answer is inspected */
	unsigned ch[VF_NCHOICE];
};
struct in IN;
#include "stubs/log.h"
#include "stubs/c39_libc_ref.h"
/* ---- allocator of this unit: evutil_new_addrinfo_ only ever asks for one addrinfo record followed by a
 * sockaddr_in or sockaddr_in6; the heap is a pool of 4 TYPED static records (typed objects keep goto-symex
 * field-sensitive; byte blocks do not), handed out in order, failure drawn from the choice stream. */
#include "mm-internal.h"
struct c38_node { struct evutil_addrinfo ai; union { struct sockaddr_in s4; struct sockaddr_in6 s6; } sa; };
static struct c38_node C38_N0, C38_N1, C38_N2, C38_N3; static const struct c38_node C38_ZERO;   /* separate objects, not an array */
static struct c38_node *c38_node(int k) { return k == 0 ? &C38_N0 : k == 1 ? &C38_N1 : k == 2 ? &C38_N2 : &C38_N3; }
static int c38_node_index(const void *p) { return p == (void *)&C38_N0 ? 0 : p == (void *)&C38_N1 ? 1 : p == (void *)&C38_N2 ? 2 : p == (void *)&C38_N3 ? 3 : -1; }
long g_mm_live, g_mm_allocs, g_mm_frees; int g_mm_failed; int g_pool_used; size_t g_node_req[4]; int g_node_freed[4];
#define C39_MM_RESET() do { int k_; g_mm_live = g_mm_allocs = g_mm_frees = 0; g_mm_failed = 0; g_pool_used = 0; for (k_ = 0; k_ < 4; k_++) { g_node_req[k_] = 0; g_node_freed[k_] = 0; } } while (0)
void *event_mm_calloc_(size_t count, size_t size)
{
	int k = g_pool_used;
	__CPROVER_assert(count == 1 && (size == sizeof(struct evutil_addrinfo) + sizeof(struct sockaddr_in) || size == sizeof(struct evutil_addrinfo) + sizeof(struct sockaddr_in6)), "allocator model: one addrinfo record plus a sockaddr_in or sockaddr_in6");
	if (VF_CHOOSE() & 1u) { g_mm_failed = 1; errno = ENOMEM; return NULL; }
	__CPROVER_assert(k < 4, "allocator model: at most 4 records are ever live (2 families x 2 socket types)");
	__CPROVER_assume(k < 4);
	*c38_node(k) = C38_ZERO; g_node_req[k] = size; g_pool_used = k + 1;
	g_mm_live++; g_mm_allocs++;
	return c38_node(k);
}
void event_mm_free_(void *p)
{
	int k;
	if (!p) return;
	k = c38_node_index(p);
	__CPROVER_assert(k >= 0 && k < g_pool_used, "free: a record of the pool");
	if (k >= 0 && k < 4) { __CPROVER_assert(!g_node_freed[k], "free: not freed before"); g_node_freed[k] = 1; }
	g_mm_live--; g_mm_frees++;
}
void *event_mm_malloc_(size_t sz) { (void)sz; __CPROVER_assert(0, "allocator model: malloc is not used on this path"); return NULL; }
char *event_mm_strdup_(const char *s) { (void)s; __CPROVER_assert(0, "allocator model: strdup is not used on this path"); return NULL; }
#define C39_NO_EVDNS_LOG
#define C39_OWN_MEMCPY 48
#define C39_OWN_MEMSET 32
#include "stubs/c39_evdns_env.h"

static char C38_SERV[C38_SERVCAP + 1];
static const char C38_NODE[] = "node";      /* its text is looked at by the inet_pton stubs only */
int g_pton4_calls, g_pton6_calls, g_sbn_calls;
/* ---- stub bodies ("replace_calls") */
int c38_inet_pton_stub(int af, const char *src, void *dst)
{
	__CPROVER_assert(af == AF_INET && src == C38_NODE, "evutil_inet_pton: IPv4 on the node name");
	g_pton4_calls++;
	if (!IN.is_v4) return 0;
	((unsigned char *)dst)[0] = IN.addr[0]; ((unsigned char *)dst)[1] = IN.addr[1]; ((unsigned char *)dst)[2] = IN.addr[2]; ((unsigned char *)dst)[3] = IN.addr[3];
	return 1;
}
int c38_inet_pton_scope_stub(int af, const char *src, void *dst, unsigned *indexp)
{
	int i;
	__CPROVER_assert(af == AF_INET6 && src == C38_NODE, "evutil_inet_pton_scope: IPv6 on the node name");
	g_pton6_calls++;
	*indexp = 0;
	if (!IN.is_v6) return 0;
	for (i = 0; i < 16; i++) ((unsigned char *)dst)[i] = IN.addr[i];
	*indexp = IN.scope;
	return 1;
}
static struct servent C38_SERVENT;
struct servent *getservbyname(const char *name, const char *proto)
{
	__CPROVER_assert(name == C38_SERV, "getservbyname: asked about the service string");
	g_sbn_calls++;
	if (!IN.sbn_found) return NULL;
	C38_SERVENT.s_port = htons(IN.sbn_port);
	return &C38_SERVENT;
}
static struct protoent C38_PROTOENT; static char C38_PNAME[] = "xp";
struct protoent *getprotobynumber(int proto) { (void)proto; if (!IN.pbn_found) return NULL; C38_PROTOENT.p_name = C38_PNAME; return &C38_PROTOENT; }
void freeaddrinfo(struct addrinfo *ai) { (void)ai; __CPROVER_assert(0, "freeaddrinfo (libc) is never reached: every node was allocated by libevent"); }

#define A(c, text) __CPROVER_assert(c, text)
static struct evutil_addrinfo HINTS;

void harness(void)
{
	struct evutil_addrinfo *res, *const sentinel = (struct evutil_addrinfo *)&HINTS, *e;
	int portnum = -7, r, i, iok, port = 0, st, pr, per_family, n4 = 0, n6 = 0, k, serv_bad = 0;
	VF_LOAD_IN();
	C39_MM_RESET(); g_strtol_calls = 0; g_strtol_val = 0;
	had_ipv4_address = 0; had_ipv6_address = 0;
	for (i = 0; i < C38_SERVCAP; i++) C38_SERV[i] = IN.serv[i];
	C38_SERV[C38_SERVCAP] = '\0';
	g_pton4_calls = g_pton6_calls = g_sbn_calls = 0;
	HINTS.ai_flags = IN.flags; HINTS.ai_family = IN.family; HINTS.ai_socktype = IN.socktype; HINTS.ai_protocol = IN.protocol;
	HINTS.ai_addrlen = 0; HINTS.ai_addr = NULL; HINTS.ai_canonname = NULL; HINTS.ai_next = NULL;
	res = sentinel;
	/* ---- reference side: socktype/protocol inference (getaddrinfo(3): a socktype implies its usual protocol and vice versa) */
	st = IN.socktype; pr = IN.protocol;
	if (pr == 0 && st == SOCK_DGRAM) pr = IPPROTO_UDP; else if (pr == 0 && st == SOCK_STREAM) pr = IPPROTO_TCP;
	if (st == 0 && pr == IPPROTO_UDP) st = SOCK_DGRAM; else if (st == 0 && (pr == IPPROTO_TCP || pr == IPPROTO_SCTP)) st = SOCK_STREAM;
	per_family = (st == 0 && pr == 0) ? 2 : 1;
	c39_ref_int(C38_SERV, &iok);                 /* is the service a decimal number (syntax)? */

	r = evutil_getaddrinfo_common_(IN.node_null ? NULL : C38_NODE, IN.serv_null ? NULL : C38_SERV, &HINTS, &res, &portnum);

#ifdef C38_STAGE0
	return;
#endif
	/* ---- the service */
	if (!IN.serv_null) {
		int numeric = iok && C38_SERV[0] != '\0' && g_strtol_val >= 0 && g_strtol_val <= 65535;
		if (numeric) port = (int)g_strtol_val;
		else if (!(IN.flags & EVUTIL_AI_NUMERICSERV) && IN.sbn_found) port = IN.sbn_port;
		else serv_bad = 1;
	}
	A(HINTS.ai_socktype == st && HINTS.ai_protocol == pr || (IN.node_null && IN.serv_null) || (IN.family != PF_UNSPEC && IN.family != PF_INET && IN.family != PF_INET6), "hints: socktype and protocol are completed from each other");
	if (IN.node_null && IN.serv_null) { A(r == EVUTIL_EAI_NONAME && res == sentinel && g_mm_allocs == 0, "no node and no service: EAI_NONAME"); }
	else if (IN.family != PF_UNSPEC && IN.family != PF_INET && IN.family != PF_INET6) { A(r == EVUTIL_EAI_FAMILY && res == sentinel && g_mm_allocs == 0, "unknown family: EAI_FAMILY"); }
	else if (serv_bad) { A(r == EVUTIL_EAI_NONAME && res == sentinel && g_mm_allocs == 0, "a service that is neither a port number nor known to getservbyname (or not numeric under AI_NUMERICSERV): EAI_NONAME"); }
	else {
		int want6 = (IN.family != PF_INET), want4 = (IN.family != PF_INET6), numeric6, numeric4;
		if (IN.node_null) { n4 = want4 ? per_family : 0; n6 = want6 ? per_family : 0; numeric6 = numeric4 = 0; }
		else {
			numeric6 = want6 && IN.is_v6; numeric4 = !numeric6 && want4 && IN.is_v4;
			n6 = numeric6 ? per_family : 0; n4 = numeric4 ? per_family : 0;
		}
		if (!IN.node_null && !numeric6 && !numeric4) {
			A(g_pton6_calls == (want6 ? 1 : 0) && g_pton4_calls == (want4 ? 1 : 0), "a node that is not numeric was offered to the parser of every family the hint allows");
			A(g_mm_allocs == 0 && res == sentinel, "a name: nothing is allocated, *res is untouched");
			if (IN.flags & EVUTIL_AI_NUMERICHOST) A(r == EVUTIL_EAI_NONAME && portnum == -7, "AI_NUMERICHOST and not numeric: EAI_NONAME");
			else A(r == EVUTIL_EAI_NEED_RESOLVE && portnum == port, "a name: EVUTIL_EAI_NEED_RESOLVE and the port of the service is handed back");
		} else if (g_mm_failed) {
			A(r == EVUTIL_EAI_MEMORY && g_mm_live == 0, "allocation failure: EAI_MEMORY and nothing is leaked");
		} else {
			A(r == 0 && res != sentinel && res != NULL && g_mm_live == n4 + n6 && portnum == -7, "answered without a query: 0, one record per (family, socktype) combination");
			/* the IN.w-th record (witness) */
			e = res;
			for (k = 0; k < 4; k++) { if ((unsigned)k >= IN.w || e == NULL) break; e = e->ai_next; }
			k = IN.w < 4u ? (int)IN.w : 4;
			if (k < n4 + n6) {
				int is4 = k < n4, idx = is4 ? k : k - n4;        /* IPv4 answers first, then IPv6 */
				A(e != NULL, "the list has n4 + n6 records");
				if (e != NULL) {
					A(e->ai_family == (is4 ? AF_INET : AF_INET6) && e->ai_addrlen == (is4 ? sizeof(struct sockaddr_in) : sizeof(struct sockaddr_in6)), "record: family and address length");
					A(e->ai_addr == (struct sockaddr *)&((struct c38_node *)e)->sa && e->ai_canonname == NULL, "record: the address follows the record; no canonical name");
					A(e->ai_socktype == (per_family == 2 ? (idx == 0 ? SOCK_STREAM : SOCK_DGRAM) : st) && e->ai_protocol == (per_family == 2 ? (idx == 0 ? IPPROTO_TCP : IPPROTO_UDP) : pr), "record: socktype/protocol of the hint, or TCP then UDP when the hint leaves both open");
					if (is4) {
						struct sockaddr_in *s4 = (struct sockaddr_in *)e->ai_addr;
						A(s4->sin_family == AF_INET && s4->sin_port == htons(port), "IPv4 record: family and the service's port in network order");
						if (IN.node_null) A(s4->sin_addr.s_addr == ((IN.flags & EVUTIL_AI_PASSIVE) ? 0 : htonl(0x7f000001)), "NULL node: 127.0.0.1, or 0.0.0.0 with AI_PASSIVE");
						else A(((unsigned char *)&s4->sin_addr)[0] == IN.addr[0] && ((unsigned char *)&s4->sin_addr)[1] == IN.addr[1] && ((unsigned char *)&s4->sin_addr)[2] == IN.addr[2] && ((unsigned char *)&s4->sin_addr)[3] == IN.addr[3], "numeric IPv4 node: exactly the parsed address");
					} else {
						struct sockaddr_in6 *s6 = (struct sockaddr_in6 *)e->ai_addr;
						A(s6->sin6_family == AF_INET6 && s6->sin6_port == htons(port) && s6->sin6_flowinfo == 0, "IPv6 record: family and the service's port in network order");
						for (i = 0; i < 16; i++) {
							if (IN.node_null) A(s6->sin6_addr.s6_addr[i] == ((i == 15 && !(IN.flags & EVUTIL_AI_PASSIVE)) ? 1 : 0), "NULL node: ::1, or :: with AI_PASSIVE");
							else A(s6->sin6_addr.s6_addr[i] == IN.addr[i], "numeric IPv6 node: exactly the parsed address");
						}
						A(s6->sin6_scope_id == (IN.node_null ? 0 : IN.scope), "IPv6 record: scope id of the parsed address");
					}
					if (k == n4 + n6 - 1) A(e->ai_next == NULL, "the list ends after the last record");
				}
			}
		}
	}
	A(HINTS.ai_flags == IN.flags && HINTS.ai_family == IN.family, "hints: flags and family are not modified");
#ifdef VF_CANARY
	A(!(r == 0 && g_mm_live == 4), "canary: must fail (NULL node, PF_UNSPEC, no socktype gives 4 records)");
#endif
}
