/* C22/C08 — bufferevent_set_rate_limit (real bufferevent_ratelim.c; ev_token_bucket_init_ inlined, ev_token_bucket_get_tick_ replaced by its
 * frame contract): removing the limit (cfg == NULL) forgets the configuration, lifts the bandwidth suspension of both directions and cancels
 * the refill timer; setting the same configuration again is a no-op; a new configuration starts the buckets at one tick's rate (first time)
 * or only clips the current levels down to the new maxima (re-configuration), then each direction is suspended for BEV_SUSPEND_BW iff its
 * level is <= 0 and the refill timer is armed with the new tick iff some direction is suspended.  Allocation failure => -1, nothing changed. */
#include "c22_rl_unit.h"
static struct ev_token_bucket_cfg CFG2;
#define NEWCFG_ (IN.is_write & 3)                 /* argument: 0: NULL, 1: the configuration already installed (&CFG), 2/3: a different one (&CFG2) */
#define ARG_ (NEWCFG_ == 0 ? (struct ev_token_bucket_cfg *)NULL : NEWCFG_ == 1 ? &CFG : &CFG2)
#define HADCFG_ (IN.has_rlim && IN.has_cfg)
#define NOOP_ (NEWCFG_ == 1 && HADCFG_)
#define REMOVE_ (NEWCFG_ == 0)
#define INSTALL_ (!REMOVE_ && !NOOP_)
#define RLP BEVP.rate_limiting
#define OOM_ (INSTALL_ && !IN.has_rlim && RLP == NULL)
#define EXP_R_ (HADCFG_ ? MINS(IN.lim_r, (ev_ssize_t)ARG_->read_maximum) : (ev_ssize_t)ARG_->read_rate)
#define EXP_W_ (HADCFG_ ? MINS(IN.lim_w, (ev_ssize_t)ARG_->write_maximum) : (ev_ssize_t)ARG_->write_rate)
VF_CONTRACT(int, set_rate_limit_c, struct bufferevent *bev, struct ev_token_bucket_cfg *cfg)
__CPROVER_requires(bev == BEV && (cfg == NULL || cfg == &CFG || cfg == &CFG2) && g_lock_depth[1] == 0 && g_r.n_add == 0 && g_r.n_del == 0 && g_r.n_assign == 0)
__CPROVER_requires(g_r.sus_r[3] == 0 && g_r.sus_w[3] == 0 && g_r.unsus_r[3] == 0 && g_r.unsus_w[3] == 0)
__CPROVER_assigns(BEVP.rate_limiting, RL.cfg, RL.limit.read_limit, RL.limit.write_limit, RL.limit.last_updated, RL.refill_bucket_event.ev_flags, BEVP.read_suspended, BEVP.write_suspended, RL_GHOST_FRAME, g_mm_live, g_mm_allocs, errno)
__CPROVER_ensures(__CPROVER_return_value == (OOM_ ? -1 : 0))
/* remove */
__CPROVER_ensures(IMP(REMOVE_ && IN.has_rlim, RL.cfg == NULL && g_r.unsus_r[3] == 1 && g_r.unsus_w[3] == 1 && !(BEVP.read_suspended & BEV_SUSPEND_BW) && !(BEVP.write_suspended & BEV_SUSPEND_BW) && g_r.n_del == B(IN.ev_init) && g_r.n_add == 0 && g_r.sus_r[3] == 0 && g_r.sus_w[3] == 0))
__CPROVER_ensures(IMP(REMOVE_ && !IN.has_rlim, RLP == NULL && g_r.unsus_r[3] == 0 && g_r.unsus_w[3] == 0 && g_r.n_del == 0))
/* same configuration again / allocation failure: nothing happens */
__CPROVER_ensures(IMP(NOOP_ || OOM_, BEVP.read_suspended == IN.rs && BEVP.write_suspended == IN.ws && g_r.n_add == 0 && g_r.n_del == 0 && g_r.n_assign == 0 && g_r.unsus_r[3] + g_r.unsus_w[3] + g_r.sus_r[3] + g_r.sus_w[3] == 0) && IMP(NOOP_, RL.cfg == &CFG && RL.limit.read_limit == IN.lim_r && RL.limit.write_limit == IN.lim_w))
/* install */
__CPROVER_ensures(IMP(INSTALL_ && !OOM_, RLP != NULL && RLP->cfg == cfg && RLP->limit.read_limit == EXP_R_ && RLP->limit.write_limit == EXP_W_ && g_r.n_assign == 1 && g_r.n_del == B(HADCFG_)))
__CPROVER_ensures(IMP(INSTALL_ && !OOM_, IFF(BEVP.read_suspended & BEV_SUSPEND_BW, EXP_R_ <= 0) && IFF(BEVP.write_suspended & BEV_SUSPEND_BW, EXP_W_ <= 0) && (BEVP.read_suspended & ~BEV_SUSPEND_BW) == (IN.rs & ~BEV_SUSPEND_BW) && (BEVP.write_suspended & ~BEV_SUSPEND_BW) == (IN.ws & ~BEV_SUSPEND_BW)))
__CPROVER_ensures(IMP(INSTALL_ && !OOM_, g_r.sus_r[3] + g_r.unsus_r[3] == 1 && g_r.sus_w[3] + g_r.unsus_w[3] == 1 && g_r.n_add == B(EXP_R_ <= 0 || EXP_W_ <= 0) && IMP(g_r.n_add == 1 && g_r.n_add_fail == 0, g_r.ev_timer && g_r.tv_sec == cfg->tick_timeout.tv_sec && g_r.tv_usec == cfg->tick_timeout.tv_usec)))
__CPROVER_ensures(g_lock_depth[1] == 0 && g_lock_depth[2] == 0)
;
void harness(void)
{
	int r;
	VF_LOAD_IN();
	vf_rl_build();
	CFG2.read_rate = IN.wr; CFG2.read_maximum = IN.wm; CFG2.write_rate = IN.rr; CFG2.write_maximum = IN.rm; CFG2.msec_per_tick = IN.msec_per_tick; CFG2.tick_timeout.tv_sec = IN.tick_usec; CFG2.tick_timeout.tv_usec = IN.tick_sec;
	/* configurations come from ev_token_bucket_cfg_new: 1 <= rate <= burst <= EV_RATE_LIMIT_MAX, tick != 0 */
	__CPROVER_assume(IN.rr >= 1 && IN.rr <= IN.rm && IN.rm <= (size_t)EV_RATE_LIMIT_MAX && IN.wr >= 1 && IN.wr <= IN.wm && IN.wm <= (size_t)EV_RATE_LIMIT_MAX && IN.msec_per_tick != 0);
	/* a bucket with a configuration has an initialised refill event that is added iff some direction waits for bandwidth (this function and c22_decrement_* establish it) */
	__CPROVER_assume(IMP(IN.has_rlim && IN.has_cfg, IN.ev_init));
	__CPROVER_assume(IMP(IN.ev_ins & 1, IN.has_rlim && IN.has_cfg));       /* the refill timer is only ever added for an own bucket (c22_decrement_*, this function) and is deleted when the configuration is removed */
	r = VF_CALL(set_rate_limit_c, bufferevent_set_rate_limit, BEV, ARG_);
	(void)r;
	__CPROVER_assert(BEVP.max_single_read == IN.max_r && BEVP.max_single_write == IN.max_w && BEV->enabled == IN.enabled, "frame");
#ifdef VF_CANARY
	__CPROVER_assert(g_r.sus_r[3] == 0, "canary: must fail (a re-configuration can leave the read bucket empty => suspended)");
#endif
}
