/* evbuffer_search_eol, styles EVBUFFER_EOL_ANY — see contracts/c12b_search_eol_body.h */
#define VF_EOL_LO 0
#define VF_EOL_HI 0
#include "c12b_search_eol_body.h"
