/* C07 — evsig_cb (real signal.c): the bytes the signal handler wrote into the self-pipe are
 * drained and, for every signal number seen, evmap_signal_active_(signal, count) is called exactly
 * once with count = the number of its bytes; signals not seen are not reported; bytes that are not
 * signal numbers are ignored.  Base lock taken around the reports and released (C08). */
#define _GNU_SOURCE 1
#define VF_NLOCKS 1
#include "vf.h"
#include "signal.c"
#ifndef NRD
#define NRD 2
#endif
#ifndef NB
#define NB 2
#endif
struct in {
	int fd;
	int n[NRD + 1];                     /* result of the k-th read: -1, 0, or 1..NB */
	unsigned char b[NRD][NB];           /* the bytes it delivers */
	int eintr;                          /* errno of a failing read: EAGAIN or EINTR */
	int has_lock;
	int w;                              /* witness: any signal number (or any byte value) */
	unsigned ch[VF_NCHOICE];
};
struct in IN;
#include "stubs/lock.h"
#include "stubs/log.h"
#include "stubs/mm.h"

static struct event_base BASE;
int g_reads, g_sa_total, g_w_calls, g_w_n, g_sa_foreign;      /* reports: all / for the witness signal */

#ifndef VF_NATIVE
/* memset(&ncaught, 0, sizeof ncaught): word-wise zero fill (the library model's byte view of an int array
 * that is then indexed symbolically makes the 65-iteration report loop intractable) */
void *memset(void *s, int c, size_t n)
{
	size_t k;
	__CPROVER_assert(c == 0 && n == NSIG * sizeof(int) && __CPROVER_w_ok(s, n), "memset: zero fill of the per-signal counters");
	for (k = 0; k < NSIG; k++) ((int *)s)[k] = 0;
	return s;
}
#endif
ssize_t read(int fd, void *buf, size_t count)
{
	int k = g_reads, n, i;
	__CPROVER_assert(fd == IN.fd && count == 1024 && __CPROVER_w_ok(buf, count), "read: from the signal pipe into the 1024-byte buffer");
	__CPROVER_assert(IMP(IN.has_lock, g_lock_depth[1] == 0), "read: base lock not held while draining the pipe");
	g_reads++;
	n = (k < NRD) ? IN.n[k] : -1;          /* a non-blocking pipe eventually runs dry */
	if (n < 0) { errno = IN.eintr ? EINTR : EAGAIN; return -1; }
	for (i = 0; i < NB; i++) { if (i >= n) break; ((unsigned char *)buf)[i] = IN.b[k][i]; }
	return n;
}
void evmap_signal_active_(struct event_base *base, evutil_socket_t sig, int ncalls)
{
	__CPROVER_assert(base == &BASE, "evmap_signal_active_: this base");
	__CPROVER_assert(IMP(IN.has_lock, g_lock_depth[1] == 1), "evmap_signal_active_: base lock held");
	g_sa_total++;
	if (!(sig >= 0 && sig < NSIG)) g_sa_foreign++;
	if (sig == IN.w) { g_w_calls++; g_w_n = ncalls; }
}

void harness(void)
{
	int k, i, done = 0, cnt = 0;
	VF_LOAD_IN();
	for (k = 0; k <= NRD; k++) __CPROVER_assume(IN.n[k] >= -1 && IN.n[k] <= NB);
	VF_INSTALL_LOCKS(); VF_MM_RESET();
	BASE.th_base_lock = IN.has_lock ? VF_LOCK_COOKIE(1) : NULL;
	g_reads = 0; g_sa_foreign = 0; g_sa_total = 0; g_w_calls = 0; g_w_n = 0;
	evsig_cb(IN.fd, EV_READ, (void *)&BASE);
	__CPROVER_assert(g_sa_foreign == 0 && g_reads >= 1, "only signal numbers are reported; the pipe is read");
	__CPROVER_assert(IMP(IN.has_lock, g_lock_depth[1] == 0), "base lock released on return");
	/* C07, for an arbitrary signal w: reported iff seen, with the exact number of its bytes
	 * (bytes up to the first read that returns <= 0) */
	for (k = 0; k < NRD; k++) {
		if (done || IN.n[k] <= 0) { done = 1; continue; }
		for (i = 0; i < NB; i++) if (i < IN.n[k]) { if (IN.b[k][i] == IN.w) cnt++; }
	}
	if (IN.w >= 0 && IN.w < NSIG) {
		__CPROVER_assert(g_w_calls == (cnt > 0 ? 1 : 0), "signal reported exactly once iff one of its bytes was read");
		__CPROVER_assert(IMP(cnt > 0, g_w_n == cnt), "call count = number of deliveries read for the signal");
	} else
		__CPROVER_assert(g_w_calls == 0, "a byte that is not a signal number is never reported");
#ifdef VF_CANARY
	__CPROVER_assert(g_w_n < NRD * NB, "canary: must fail (12 bytes of one signal give a count of 12)");
#endif
}
