/* C28 — evhttp_uri_parse_with_flags / evhttp_uri_join (real http.c, with the real scheme_ok, userinfo_ok,
 * regname_ok, parse_port, bracket_addr_ok, parse_authority, end_of_authority, end_of_path,
 * path_matches_noscheme, evhttp_uri_free) on every string of <= VF_N characters over the alphabet
 *     : / ? # [ ] @ %   a v 1 .   + = ~ SPACE          (16 symbols; 'a' '1' are also hex digits)
 * optionally prefixed by "//unix:" (template 1, so that the unix-socket form is reachable at this length),
 * under every combination of EVHTTP_URI_NONCONFORMANT, _HOST_STRIP_BRACKETS, _UNIX_SOCKET:
 *   R1 if the string is accepted, evhttp_uri_join succeeds (buffer large enough), its output is
 *      NUL-terminated inside the buffer, and that output is accepted again with the same flags
 *   R2 the re-parsed URI has identical scheme, userinfo, host, unix socket, port, path, query, fragment
 *      (NULL-ness and bytes)
 *   R3 the parsed components are exactly the components of the input: RFC 3986 Appendix B split
 *      (scheme ":" / "//" authority / path / "?" query / "#" fragment), authority = [userinfo "@"] host
 *      [":" port] (port empty -> -1, brackets dropped from the host iff HOST_STRIP_BRACKETS); for the
 *      unix-socket form (flag set, authority [userinfo "@"] "unix:" sock ":"): sock = the bytes up to the next
 *      ':' and path/query/fragment = what follows that ':' (event2/http.h: "http://unix:/run/control.sock:/controller")
 *   R4 a rejected string leaks nothing; allocation failure anywhere -> NULL, nothing leaks
 *
 * KNOWN-FINDING hook: P_UNIX = "the unix-socket form is in use".  On the unchanged tree R3 FAILS for it
 * (see the agent report: the path returned is the socket path's tail, the real path/query/fragment are
 * lost).  -DVF_KF_EXCLUDE assumes !P_UNIX (must be clean), -DVF_KF_ONLY assumes P_UNIX (must fail on R3). */
#ifndef VF_N
#define VF_N 6
#endif
#ifdef VF_TMPL_UNIX
#define VF_L (VF_N + 7)                 /* longest input: "//unix:" + VF_N */
#else
#define VF_L VF_N
#endif
#define VF_SB_CAP (VF_L + 4)
#define VF_C28_BIGTYPE struct evhttp_uri /* exact-size, typed objects for the one struct type */
#define VF_C28_MMCAP (VF_L + 1)         /* strings: right-aligned in objects of the longest possible string */
#define VF_C28_MEMCAP (VF_L + 2 > 12 ? VF_L + 2 : 12)   /* >= strlen(SUBDELIMS) + 1 */
#define VF_NCHOICE 4
#ifndef VF_OOM
#define VF_MM_NOFAIL 1                  /* allocation failure is the business of the -DVF_OOM variant (unit c28_parse_oom) */
#else
#define VF_C28_MM_FAILAT 1              /* every single-allocation-failure scenario: attempt number IN.failat fails */
#endif
#include "vf.h"
#include "http.c"
struct in { unsigned char s[VF_N]; unsigned n; unsigned flags; int tmpl; long failat; unsigned ch[VF_NCHOICE]; };
struct in IN;
#include "stubs/log.h"
#include "stubs/c28_ctype.h"
#define VF_C28_WANT_MEMCPY
#define VF_C28_WANT_STRCHR
#include "stubs/c28_libc_ref.h"
#include "stubs/c28_mm.h"
#include "stubs/c28_evbuf.h"
#include "stubs/c28_inet.h"

static const char ALPHA16[16] = { ':', '/', '?', '#', '[', ']', '@', '%', 'a', 'v', '1', '.', '+', '=', '~', ' ' };
static char S[VF_L + 1];
static char J[VF_L + 6];
static unsigned slen;

static int same_str(const char *a, const char *b)
{
	unsigned k;
	if (a == NULL || b == NULL) return a == b;
	for (k = 0; k <= VF_L + 4; k++) { if (a[k] != b[k]) return 0; if (a[k] == '\0') return 1; }
	return 0;
}
/* p is the C string S[off .. off+len) */
static int is_slice(const char *p, unsigned off, unsigned len)
{
	unsigned k;
	if (p == NULL) return 0;
	for (k = 0; k < VF_L; k++) { if (k >= len) break; if (p[k] != S[off + k]) return 0; }
	return p[len] == '\0';
}
/* first index in [from, slen) whose character is one of c1 c2 c3 (0 = unused), else slen */
static unsigned first_of(unsigned from, char c1, char c2, char c3)
{
	unsigned k, r = slen;
	for (k = VF_L; k-- > 0;) if (k >= from && k < slen && (S[k] == c1 || (c2 && S[k] == c2) || (c3 && S[k] == c3))) r = k;
	return r;
}
static int p_unix;     /* the known-finding predicate */

/* R3: compare u with the reference split of S */
static void check_components(const struct evhttp_uri *u, unsigned flags)
{
	unsigned pos = 0, c, e, q, k;
	/* scheme: Appendix B  ^(([^:/?#]+):)?  */
	c = first_of(0, ':', '/', '?'); { unsigned h = first_of(0, '#', 0, 0); if (h < c) c = h; }
	if (c > 0 && c < slen && S[c] == ':') {
		__CPROVER_assert(is_slice(u->scheme, 0, c), "R3: scheme is the text before the first ':' (Appendix B)");
		pos = c + 1;
	} else {
		__CPROVER_assert(u->scheme == NULL, "R3: no scheme when Appendix B finds none");
	}
	/* authority */
	if (pos + 1 < slen + 1 && S[pos] == '/' && S[pos + 1] == '/') {
		unsigned a0 = pos + 2, a1, at, h0;
		a1 = first_of(a0, '/', '?', '#');
		at = first_of(a0, '@', 0, 0);
		h0 = a0;
		if (at < a1) h0 = at + 1;
		if ((flags & EVHTTP_URI_UNIX_SOCKET) && h0 + 5 <= slen && S[h0] == 'u' && S[h0 + 1] == 'n' && S[h0 + 2] == 'i' && S[h0 + 3] == 'x' && S[h0 + 4] == ':') {
			/* unix-socket form: sock up to the next ':' (anywhere), the rest follows that ':' */
			unsigned sc = first_of(h0 + 5, ':', 0, 0);
			__CPROVER_assert(sc < slen, "R3: unix form needs the closing ':'");
			if (at < a1) __CPROVER_assert(is_slice(u->userinfo, a0, at - a0), "R3: userinfo is the text before '@'");
			else __CPROVER_assert(u->userinfo == NULL, "R3: no userinfo without '@'");
			__CPROVER_assert(is_slice(u->unixsocket, h0 + 5, sc - (h0 + 5)), "R3: unix socket path is the text between \"unix:\" and the next ':'");
			__CPROVER_assert(u->host == NULL && u->port == -1, "R3: unix form has no host and no port");
			pos = sc + 1;
			__CPROVER_assert(pos >= slen || S[pos] == '/' || S[pos] == '?' || S[pos] == '#', "R3 (unix form): after the closing ':' comes a path-abempty, a query or a fragment (nothing is silently dropped)");
		} else {
			unsigned pc, he = a1, digits_ok = 1;
			__CPROVER_assert(u->unixsocket == NULL, "R3: no unix socket outside the unix form");
			if (at < a1) __CPROVER_assert(is_slice(u->userinfo, a0, at - a0), "R3: userinfo is the text before '@'");
			else __CPROVER_assert(u->userinfo == NULL, "R3: no userinfo without '@'");
			/* port: the text after the LAST ':' of host[:port], when it is all digits */
			pc = a1; for (k = 0; k < VF_L; k++) if (k >= h0 && k < a1 && S[k] == ':') pc = k;
			for (k = 0; k < VF_L; k++) if (k > pc && k < a1 && !(S[k] >= '0' && S[k] <= '9')) digits_ok = 0;
			if (pc < a1 && digits_ok) {
				long v = 0;
				for (k = 0; k < VF_L; k++) if (k > pc && k < a1) v = v * 10 + (S[k] - '0');
				__CPROVER_assert(u->port == (pc + 1 == a1 ? -1 : (int)v), "R3: port is the decimal number after the last ':' (-1 when empty)");
				he = pc;
			} else {
				__CPROVER_assert(u->port == -1, "R3: no port");
			}
			if ((flags & EVHTTP_URI_HOST_STRIP_BRACKETS) && h0 < he && S[h0] == '[')
				__CPROVER_assert(he - h0 >= 2 && is_slice(u->host, h0 + 1, he - h0 - 2), "R3: host is the IP-literal without its brackets (HOST_STRIP_BRACKETS)");
			else
				__CPROVER_assert(is_slice(u->host, h0, he - h0), "R3: host is the text between userinfo@ and :port");
			pos = a1;
		}
	} else {
		__CPROVER_assert(u->host == NULL && u->userinfo == NULL && u->port == -1 && u->unixsocket == NULL, "R3: no authority components without \"//\"");
	}
	/* path, query, fragment */
	e = first_of(pos, '?', '#', 0);
	__CPROVER_assert(is_slice(u->path, pos, e - pos), "R3: path is the text up to the first '?' or '#'");
	if (e < slen && S[e] == '?') {
		q = first_of(e + 1, '#', 0, 0);
		__CPROVER_assert(is_slice(u->query, e + 1, q - (e + 1)), "R3: query is the text between '?' and '#'");
		e = q;
	} else {
		__CPROVER_assert(u->query == NULL, "R3: no query without '?'");
	}
	if (e < slen && S[e] == '#')
		__CPROVER_assert(is_slice(u->fragment, e + 1, slen - (e + 1)), "R3: fragment is the text after '#'");
	else
		__CPROVER_assert(u->fragment == NULL, "R3: no fragment without '#'");
}

void harness(void)
{
	struct evhttp_uri *u1, *u2; char *j; unsigned k, o = 0, a0, at, h0, a1;
	VF_LOAD_IN(); VF_MM_RESET(); VF_SB_RESET();
	g_mm_failat = IN.failat;
	__CPROVER_assume(IN.n <= VF_N);
	IN.flags &= (EVHTTP_URI_NONCONFORMANT | EVHTTP_URI_HOST_STRIP_BRACKETS | EVHTTP_URI_UNIX_SOCKET);
#ifndef VF_TMPL_UNIX
	IN.tmpl = 0;
#else
	IN.tmpl = 1;
#endif
	if (IN.tmpl) { S[0] = '/'; S[1] = '/'; S[2] = 'u'; S[3] = 'n'; S[4] = 'i'; S[5] = 'x'; S[6] = ':'; o = 7; }
	for (k = 0; k < VF_N; k++) S[o + k] = k < IN.n ? ALPHA16[IN.s[k] & 15u] : '\0';
	slen = o + IN.n;
	for (k = 0; k <= VF_L; k++) if (k >= slen) S[k] = '\0';
	/* known-finding predicate: unix form in use */
	a0 = 2; a1 = first_of(a0, '/', '?', '#'); at = first_of(a0, '@', 0, 0); h0 = at < a1 ? at + 1 : a0;
	p_unix = (IN.flags & EVHTTP_URI_UNIX_SOCKET) && IN.tmpl != 0;     /* only template 1 can spell "unix:" over this alphabet */
	(void)h0;
#ifdef VF_KF_EXCLUDE
	__CPROVER_assume(!p_unix);
#endif
#ifdef VF_KF_ONLY
	__CPROVER_assume(p_unix);
#endif
	u1 = evhttp_uri_parse_with_flags(S, IN.flags);
	if (u1 == NULL) {
		__CPROVER_assert(g_mm_live == 0, "R4: a rejected string (or a failed allocation) leaks nothing");
		return;
	}
	check_components(u1, IN.flags);
	j = evhttp_uri_join(u1, J, sizeof(J));
	__CPROVER_assert(g_sb_live == 0, "join: the scratch evbuffer is freed");
	if (j == NULL) {
		__CPROVER_assert(g_mm_failed + g_sb_new_failed > 0, "R1: join of a parsed URI succeeds (unless an allocation failed)");
		evhttp_uri_free(u1);
		__CPROVER_assert(g_mm_live == 0, "R4: nothing leaks");
		return;
	}
	__CPROVER_assert(j == J, "R1: join returns the caller's buffer");
	u2 = evhttp_uri_parse_with_flags(J, IN.flags);
	if (u2 == NULL) {
		__CPROVER_assert(g_mm_failed + g_sb_new_failed > 0, "R1: the joined string is accepted again with the same flags");
	} else {
		__CPROVER_assert(same_str(u1->scheme, u2->scheme), "R2: identical scheme");
		__CPROVER_assert(same_str(u1->userinfo, u2->userinfo), "R2: identical userinfo");
		__CPROVER_assert(same_str(u1->host, u2->host), "R2: identical host");
		__CPROVER_assert(same_str(u1->unixsocket, u2->unixsocket), "R2: identical unix socket");
		__CPROVER_assert(u1->port == u2->port, "R2: identical port");
		__CPROVER_assert(same_str(u1->path, u2->path), "R2: identical path");
		__CPROVER_assert(same_str(u1->query, u2->query), "R2: identical query");
		__CPROVER_assert(same_str(u1->fragment, u2->fragment), "R2: identical fragment");
#ifdef VF_CANARY
		__CPROVER_assert(!(u2->host != NULL && u2->query != NULL), "canary: must fail (\"//?\" parses, joins and re-parses: host and query present)");
#endif
		evhttp_uri_free(u2);
	}
	evhttp_uri_free(u1);
	__CPROVER_assert(g_mm_live == 0, "R4: nothing leaks");
}
