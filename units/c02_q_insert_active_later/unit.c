/* C02 — event_queue_insert_active_later (real event.c): ACTIVE_LATER flag, counters, append at
 * the tail of active_later_queue; no-op when already active now or later.  Loop-free. */
#define VF_NLOCKS 1
#include "vf.h"
#include "event.c"
#include "stubs/lock.h"
#include "stubs/log.h"
#include "c02_event_shape.h"
struct in { struct c02_base_in b; struct c02_ev_in e; int qshape; };
struct in IN;
#include "c02_event_contracts.h"

void harness(void)
{
	struct event_callback *evcb = &EV.ev_evcallback;
	VF_LOAD_IN(); VF_INSTALL_LOCKS();
	c02_build_base(&IN.b);
	c02_build_ev(&EV, &IN.e, 0);
	C02_TAIL_OF(&BASE.active_later_queue, evcb_active_next, &NB[1].ev_evcallback, IN.qshape);
	VF_CALL_V(q_insert_active_later_c, event_queue_insert_active_later, &BASE, evcb);
	if (!(IN.e.flags & (EVLIST_ACTIVE|EVLIST_ACTIVE_LATER))) {
		if (IN.qshape & 1) __CPROVER_assert(NB[1].ev_evcallback.evcb_active_next.tqe_next == evcb, "old tail now points to the callback");
		else __CPROVER_assert(BASE.active_later_queue.tqh_first == evcb, "empty queue: callback is the head");
	}
#ifdef VF_CANARY
	__CPROVER_assert(BASE.event_count_active == IN.b.event_count_active, "canary: must fail (later-activation is counted as active)");
#endif
}
