/* candidate defects (C20) in be_filter_process_input's timer handling — expected to FAIL on the current tree.
 * Setting: a filtering bufferevent created with a NULL input filter (the library's own be_null_filter runs for real;
 * evbuffer_remove_buffer moves min(limit, len) bytes), called the way be_filter_flush calls it (bufferevent_flush(bev, EV_READ, mode):
 * lock held, *processed_out == 0).  The property text, read strictly:
 *  T1 "never fires while the direction is disabled": the read timeout must not be (re)armed on a bufferevent whose reading is disabled.
 *     In FLUSH/FINISHED mode the `enabled & EV_READ` test is skipped, the filter runs, and BEV_RESET_GENERIC_READ_TIMEOUT arms
 *     ev_read unconditionally -> bufferevent_generic_read_timeout_cb later reports BEV_EVENT_TIMEOUT|READING on a disabled reader.
 *  T2 "each successful transfer restarts the interval" (and nothing else does): flushing with an EMPTY underlying input moves nothing,
 *     be_null_filter still returns BEV_OK (evbuffer_remove_buffer() == 0 >= 0), *processed_out = 1 and the interval is restarted:
 *     a periodic bufferevent_flush() keeps an idle reader from ever timing out.  (Also be_filter_flush then returns 1 = "data flushed".)
 * Same environment as c20g_process_input. */
#define VF_NULL_FILTER
#include "c20g_filter_in.h"
void harness(void)
{
	enum bufferevent_filter_result res; int processed = 0;
	VF_LOAD_IN();
	vf_filter_build();
	__CPROVER_assume(IN.len_uin <= ((size_t)1 << 30) && IN.len_in <= ((size_t)1 << 30));   /* evbuffer_remove_buffer returns an int */
	if (IN.locking) { g_lock_depth[1] = 1; g_f.want_lockdepth = 1; }
	res = be_filter_process_input(&F, (enum bufferevent_flush_mode)IN.state, &processed);
	(void)res;
	__CPROVER_assert(IMP(g_f.ev_add > 0, (IN.enabled & EV_READ) != 0), "T1: the read timeout is (re)armed only on a bufferevent that is reading");
	__CPROVER_assert(IMP(g_f.ev_add > 0, g_f.moved_calls > 0), "T2: the read timeout interval is restarted only by a run that moved data");
	__CPROVER_assert(IMP(processed, g_f.moved_calls > 0), "T2b: *processed_out (the value of bufferevent_flush) reports a transfer only if data moved");
#ifdef VF_CANARY
	__CPROVER_assert(g_f.ev_add == 0, "canary: must fail (the timer is restarted after a transfer)");
#endif
}
