/* C40 — evutil_inet_ntop AF_INET (real evutil.c), boundary len == strlen(text): the text does not fit (no room for
 * the NUL), so the call must fail with NULL - for ALL 2^32 addresses; see contracts/c40_ntop_unit.h. */
#define VF_AF 4
#define VF_EXACTFIT 1
#include "c40_ntop_unit.h"
