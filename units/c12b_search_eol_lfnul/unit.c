/* evbuffer_search_eol, styles EVBUFFER_EOL_LF, EVBUFFER_EOL_NUL and the invalid style values 5, 6 — see contracts/c12b_search_eol_body.h */
#define VF_EOL_LO 3
#define VF_EOL_HI 6
#include "c12b_search_eol_body.h"
