/* C23/C24 — evhttp_read_body (real http.c): the connection STATE at every return, i.e. what the NEXT
 * read will be parsed as (evhttp_read_cb dispatches on evcon->state).  RFC 9112 7.1: after the
 * last-chunk line comes the trailer section / the final CRLF — never another chunk-size line:
 *   chunk decoder says ALL_DATA_READ      -> state is EVCON_READING_TRAILER already WHEN evhttp_read_trailer
 *                                            is entered (recorded by the replaced continuation) and at return;
 *                                            the trailer parser is the only continuation (no completion here);
 *   chunk decoder says MORE_DATA_EXPECTED -> state stays EVCON_READING_BODY: the next bytes go on through the
 *                                            chunk decoder; no completion, no failure, no trailer;
 *   DATA_CORRUPTED / DATA_TOO_LONG        -> failure (INVALID_HEADER / DATA_TOO_LONG), state untouched, no trailer;
 *   REQUEST_CANCELED                      -> request released, state untouched;
 *   Content-Length / until-close bodies   -> state untouched on every path, never the trailer state.
 * Complements units/c25_read_body (sizes, limits, which continuation): same environment, plus the
 * decoder's verdict and the state seen by the trailer continuation as ghosts.  Loop-free. */
#include "vf.h"
#include "http.c"
struct in { size_t buffered, body_size, rin; ev_int64_t ntoread; ev_uint64_t max_body; int chunked, have_cb; int flags; unsigned ch[VF_NCHOICE]; };
struct in IN;
#include "stubs/log.h"
#include "stubs/c23_http_env.h"
#include "c23_contracts.h"

int e_cb_calls;
static void vf_chunk_cb(struct evhttp_request *req, void *arg)
{
	(void)arg; e_cb_calls++;
	if (VF_CHOOSE() & 1u) req->flags |= EVHTTP_REQ_NEEDS_FREE;      /* evhttp_cancel_request from inside the callback */
}
/* evhttp_read_trailer as a continuation that also records the connection state it is entered with */
int g_trailer_state_seen;
VF_CONTRACT_V(read_trailer_state_c, struct evhttp_connection *evcon, struct evhttp_request *req)
__CPROVER_requires(evcon != NULL && req != NULL)
__CPROVER_assigns(g_trailer_calls, g_trailer_state_seen)
__CPROVER_ensures(g_trailer_calls == __CPROVER_old(g_trailer_calls) + 1 && g_trailer_state_seen == (int)evcon->state)
;
/* evhttp_handle_chunked_read: the behaviour clauses of chunked_read_c (contracts/c23_contracts.h, unit c23_chunked_read)
 * plus a ghost record of the verdict */
int g_chunk_ret;
VF_CONTRACT(enum message_read_status, chunked_read_rec_c, struct evhttp_request *req, struct evbuffer *buf)
__CPROVER_requires(req != NULL && buf != NULL && req->evcon != NULL)
__CPROVER_requires(req->ntoread != 0)
__CPROVER_requires(req->body_size <= req->evcon->max_body_size)
__CPROVER_assigns(g_chunk_calls, g_chunk_ret, req->body_size, req->ntoread, req->flags, EB[E_IN].len, EB[E_RIN].len, EB[E_RIN].moved_in)
__CPROVER_ensures(g_chunk_calls == __CPROVER_old(g_chunk_calls) + 1 && g_chunk_ret == (int)__CPROVER_return_value)
__CPROVER_ensures(__CPROVER_return_value == ALL_DATA_READ || __CPROVER_return_value == MORE_DATA_EXPECTED || __CPROVER_return_value == DATA_CORRUPTED || __CPROVER_return_value == REQUEST_CANCELED || __CPROVER_return_value == DATA_TOO_LONG)
__CPROVER_ensures(IMP(__CPROVER_return_value == ALL_DATA_READ || __CPROVER_return_value == MORE_DATA_EXPECTED, req->body_size <= req->evcon->max_body_size))
__CPROVER_ensures(IMP(__CPROVER_return_value == ALL_DATA_READ, req->ntoread == 0))
__CPROVER_ensures(IMP(__CPROVER_return_value == MORE_DATA_EXPECTED, req->ntoread != 0))
;
#define NCONT (g_fail_calls + g_lfail_calls + g_done_calls + g_freeauto_calls + g_trailer_calls)
#define CH(r) (IN.chunked && g_chunk_ret == (int)(r))

VF_CONTRACT_V(read_body_state_c, struct evhttp_connection *evcon, struct evhttp_request *req)
__CPROVER_requires(__CPROVER_rw_ok(evcon, sizeof(*evcon)) && __CPROVER_rw_ok(req, sizeof(*req)))
__CPROVER_requires(evcon->bufev == &BEV && req->evcon == evcon && req->input_buffer == &EB[E_RIN] && evcon->state == EVCON_READING_BODY)
__CPROVER_requires(req->chunk_cb == (IN.have_cb ? vf_chunk_cb : NULL))
__CPROVER_requires(req->ntoread == IN.ntoread && req->body_size == IN.body_size && req->chunked == (IN.chunked != 0) && evcon->max_body_size == IN.max_body && req->flags == IN.flags)
__CPROVER_requires(EB[E_IN].len == IN.buffered && EB[E_RIN].len == IN.rin && EB[E_RIN].moved_in == 0 && EB[E_RIN].drained == 0)
__CPROVER_requires(NCONT == 0 && g_chunk_calls == 0 && g_chunk_ret == -1 && g_trailer_state_seen == -1 && e_cb_calls == 0 && e_bev_disabled_calls == 0)
/* as units/c25_read_body: a chunked body is read with ntoread -1 or > 0 and an accepted size within the limit */
__CPROVER_requires(IMP(IN.chunked, IN.ntoread != 0 && IN.body_size <= IN.max_body))
__CPROVER_requires(IN.rin <= IN.body_size)
__CPROVER_assigns(evcon->state, req->ntoread, req->body_size, req->flags, EB[E_IN].len, EB[E_RIN].len, EB[E_RIN].moved_in, EB[E_RIN].drained,
	g_fail_calls, g_fail_error, g_lfail_calls, g_done_calls, g_freeauto_calls, g_trailer_calls, g_trailer_state_seen, g_chunk_calls, g_chunk_ret, e_cb_calls,
	e_bev_disabled_calls, e_bev_disable_what, vf_nchoice_)
/* 1 the decoder runs exactly for chunked bodies */
__CPROVER_ensures(g_chunk_calls == (IN.chunked ? 1 : 0))
/* 2 last chunk seen: trailer state set BEFORE the trailer parser runs, and still set at return; the trailer parser is the only continuation */
__CPROVER_ensures(IMP(CH(ALL_DATA_READ), g_trailer_calls == 1 && g_trailer_state_seen == (int)EVCON_READING_TRAILER && evcon->state == EVCON_READING_TRAILER && NCONT == 1 && e_cb_calls == 0))
/* 3 the trailer state / trailer parser are reached in no other way */
__CPROVER_ensures(IFF(evcon->state == EVCON_READING_TRAILER, CH(ALL_DATA_READ)))
__CPROVER_ensures(IFF(g_trailer_calls == 1, CH(ALL_DATA_READ)))
/* 4 in every other case the state is untouched: the next read continues where this one stopped */
__CPROVER_ensures(IMP(!CH(ALL_DATA_READ), evcon->state == EVCON_READING_BODY))
/* 5 more chunk data expected: neither completed nor failed (the next bytes are chunk data / a chunk-size line) */
__CPROVER_ensures(IMP(CH(MORE_DATA_EXPECTED), g_done_calls == 0 && g_fail_calls == 0 && g_lfail_calls == 0 && g_trailer_calls == 0 && req->ntoread != 0))
/* 6 decoder errors / cancellation */
__CPROVER_ensures(IMP(CH(DATA_CORRUPTED), g_fail_calls == 1 && g_fail_error == (int)EVREQ_HTTP_INVALID_HEADER && NCONT == 1))
__CPROVER_ensures(IMP(CH(DATA_TOO_LONG), g_fail_calls == 1 && g_fail_error == (int)EVREQ_HTTP_DATA_TOO_LONG && NCONT == 1))
__CPROVER_ensures(IMP(CH(REQUEST_CANCELED), g_freeauto_calls == 1 && NCONT == 1))
;

static struct evhttp_connection EVCON; static struct evhttp_request REQ;
void harness(void)
{
	VF_LOAD_IN(); VF_HTTP_ENV_RESET(); VF_C23_GHOST_RESET(); g_chunk_calls = 0; g_chunk_ret = -1; g_trailer_state_seen = -1; e_cb_calls = 0;
	__CPROVER_assume(IMP(IN.chunked, IN.ntoread != 0 && IN.body_size <= IN.max_body));
	__CPROVER_assume(IN.rin <= IN.body_size);
	__CPROVER_assume((IN.flags & EVHTTP_REQ_DEFER_FREE) == 0);     /* not re-entered from its own callback */
	EVCON.bufev = &BEV; EVCON.max_body_size = IN.max_body; EVCON.state = EVCON_READING_BODY;
	REQ.evcon = &EVCON; REQ.input_buffer = &EB[E_RIN]; REQ.chunk_cb = IN.have_cb ? vf_chunk_cb : NULL; REQ.cb_arg = NULL;
	REQ.ntoread = IN.ntoread; REQ.body_size = IN.body_size; REQ.chunked = (IN.chunked != 0); REQ.flags = IN.flags;
	EB[E_IN].len = IN.buffered; EB[E_RIN].len = IN.rin;
	VF_CALL_V(read_body_state_c, evhttp_read_body, &EVCON, &REQ);
#ifdef VF_CANARY
	__CPROVER_assert(EVCON.state == EVCON_READING_BODY, "canary: must fail (the last chunk moves the connection to the trailer state)");
#endif
}
