/* C42 — decode_tag_internal (real event_tagging.c) under the CONTRACT of evbuffer_pullup:
 * pullup(size) guarantees only `size` contiguous bytes.  Here pullup returns a pointer to a copy
 * of exactly the bytes asked for, right-aligned in a scratch object, i.e. the worst case of
 * "arbitrary byte strings split across chains in every way": the first chain ends right after
 * the pulled-up bytes and its memory ends there (e.g. evbuffer_add_reference of a 5-byte region
 * followed by more data).
 *
 * EXPECTED TO FAIL ON THE UNCHANGED TREE (candidate defect): decode_tag_internal pulls up
 * min(len, 5) bytes but its loop is bounded by the buffer's total length; for
 * 80 80 80 80 8x yy (six or more bytes, five continuation bytes, x <= 0xf) the loop reads
 * data[5] — one byte past the pulled-up region — before the shift check rejects the tag.
 * Confirmed with the real library under ASan (evbuffer_add_reference of a 5-byte malloc +
 * evbuffer_add of one byte + evtag_peek: heap-buffer-overflow READ of size 1, event_tagging.c:219).
 * -DVF_KF_EXCLUDE removes exactly these inputs, -DVF_KF_ONLY keeps only them. */
#ifndef VF_N
#define VF_N 8
#endif
#define VF_EB_CAP 16
#include "vf.h"
#include "event_tagging.c"
struct in { unsigned n; unsigned char d[VF_N]; unsigned ch[VF_NCHOICE]; };
struct in IN;
#include "stubs/log.h"
/* ---- strict byte-string model: one buffer ---- */
struct evbuffer { int vf_id; };
struct evbuffer EVB[1];
static unsigned char g_data[VF_EB_CAP]; size_t g_len, g_drained;
static unsigned char g_scratch[VF_EB_CAP];
size_t evbuffer_get_length(const struct evbuffer *b) { __CPROVER_assert(b == &EVB[0], "the unit's buffer"); return g_len; }
unsigned char *evbuffer_pullup(struct evbuffer *b, ev_ssize_t size)
{
	size_t want = size < 0 ? g_len : (size_t)size, i;
	__CPROVER_assert(b == &EVB[0], "the unit's buffer");
	if (want == 0 || want > g_len) return NULL;
	for (i = 0; i < VF_EB_CAP; i++) if (i < want) g_scratch[VF_EB_CAP - want + i] = g_data[g_drained + i];
	return &g_scratch[VF_EB_CAP - want];       /* exactly `want` readable bytes */
}
int evbuffer_drain(struct evbuffer *b, size_t n) { __CPROVER_assert(b == &EVB[0], "the unit's buffer"); if (n > g_len) n = g_len; g_drained += n; g_len -= n; return 0; }
int evbuffer_add(struct evbuffer *b, const void *d, size_t n) { (void)b; (void)d; (void)n; __CPROVER_assert(0, "not used by the decoders"); return -1; }
int evbuffer_remove(struct evbuffer *b, void *d, size_t n) { (void)b; (void)d; (void)n; __CPROVER_assert(0, "not used by the decoders"); return -1; }

void harness(void)
{
	unsigned i; int r; ev_uint32_t out = 0;
	VF_LOAD_IN();
	__CPROVER_assume(IN.n <= VF_N);
#define K_SIXTH (IN.n >= 6 && (IN.d[0] & 0x80) && (IN.d[1] & 0x80) && (IN.d[2] & 0x80) && (IN.d[3] & 0x80) && (IN.d[4] & 0x80) && (IN.d[4] & 0x7f) <= 15)
#ifdef VF_KF_EXCLUDE
	__CPROVER_assume(!K_SIXTH);
#endif
#ifdef VF_KF_ONLY
	__CPROVER_assume(K_SIXTH);
#endif
	g_len = IN.n; g_drained = 0;
	for (i = 0; i < VF_N; i++) g_data[i] = i < IN.n ? IN.d[i] : 0;
	r = evtag_peek(&EVB[0], &out);        /* decode_tag_internal(ptag, evbuf, 0) */
	__CPROVER_assert(r == -1 || (r >= 1 && r <= 5), "evtag_peek: -1 or an encoded length of 1..5");
#ifdef VF_CANARY
	__CPROVER_assert(!(r == 5 && out == 0xffffffffu), "canary: must fail (ff ff ff ff 0f is the tag 2^32-1)");
#endif
}
