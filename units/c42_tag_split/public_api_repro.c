/* Supplementary evidence for the candidate defect reported by unit c42_tag_split, through the
 * PUBLIC API of the real library; event_tagging.c is compiled with ASan so that its reads are
 * instrumented.  Not run by check.py.
 *   gcc -g -fsanitize=address -DHAVE_CONFIG_H -I/repo/include -I/repo/_build/include -I/repo/compat -I/repo \
 *       public_api_repro.c /repo/event_tagging.c /repo/_build/lib/libevent.a -lpthread -o tagsplit
 *   ASAN_OPTIONS=detect_leaks=0 ./tagsplit
 *   -> ERROR: AddressSanitizer: heap-buffer-overflow READ of size 1 in decode_tag_internal event_tagging.c:219
 *      (0 bytes to the right of the 5-byte region handed to evbuffer_add_reference) */
#include <event2/event.h>
#include <event2/buffer.h>
#include <event2/tag.h>
#include <stdio.h>
#include <stdlib.h>
#include <string.h>
int main(void)
{
	struct evbuffer *b = evbuffer_new(); ev_uint32_t tag = 0; int r;
	unsigned char *five = malloc(5);
	memcpy(five, "\x80\x80\x80\x80\x8f", 5);
	evbuffer_add_reference(b, five, 5, NULL, NULL);     /* first chain: exactly these 5 bytes, memory ends there */
	evbuffer_add(b, "\x01", 1);                          /* second chain */
	printf("buffer length %zu\n", evbuffer_get_length(b));
	r = evtag_peek(b, &tag);
	printf("evtag_peek -> %d\n", r);
	return 0;
}
