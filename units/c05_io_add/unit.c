/* C05/C04 — evmap_io_add_ (real evmap.c): per-fd reference counts and the (old, events) pair
 * handed to the backend.  The backend is reached through base->evsel->add, which the harness
 * points at a recording stub whose result is drawn from the choice stream.  The fd map is the
 * array map of Linux builds; growth (evmap_make_space, inlined, loop contract on the doubling
 * loop) goes through an allocator model local to this unit. */
#include "vf.h"
#include "evmap.c"
struct in {
	int fd; short ev_events;              /* the event being added */
	int nentries;                         /* size of the fd table before the call */
	int slot_null;                        /* fd < nentries: the slot has no evmap_io yet */
	unsigned short nread, nwrite, nclose; /* counts before */
	int has_first; short first_events;    /* an event already at the head of the fd's list */
	int fdinfo4;                          /* backend fdinfo_len: 0 or 4 (select/epoll vs poll/changelist) */
	int debug_mode;
	unsigned ch[VF_NCHOICE];
};
struct in IN;
#include "stubs/log.h"
#define VF_MM_NO_REALLOC
#include "stubs/mm.h"
#include "c05_evmap_shape.h"

#define SET3(r, w, c) (((r) ? EV_READ : 0) | ((w) ? EV_WRITE : 0) | ((c) ? EV_CLOSED : 0))
#define WANTS(f) ((IN.ev_events & (f)) != 0)
#define OLDSET SET3(O_nread, O_nwrite, O_nclose)
/* conditions whose count goes 0 -> 1 */
#define CROSS (SET3(WANTS(EV_READ) && O_nread == 0, WANTS(EV_WRITE) && O_nwrite == 0, WANTS(EV_CLOSED) && O_nclose == 0))
#define OVERFLOW ((WANTS(EV_READ) && O_nread == 0xffff) || (WANTS(EV_WRITE) && O_nwrite == 0xffff) || (WANTS(EV_CLOSED) && O_nclose == 0xffff))
#define ETMIX (IN.debug_mode && O_first != NULL && (IN.first_events & EV_ET) != (IN.ev_events & EV_ET))
/* allocation outcome (ghost of the allocator model): growth needed/succeeded, per-fd record needed/obtained */
#define GROW_NEEDED (IN.fd >= IN.nentries)
#define GROW_OK (g_mm_realloc_calls == 1 && g_mm_realloc_ok)
#define CTOR_NEEDED (GROW_NEEDED || IN.slot_null)
#define g_alloc_failed ((GROW_NEEDED && !GROW_OK) || (CTOR_NEEDED && g_mm_allocs == 0))
#define g_ctx_new (g_mm_allocs == 1)
#define CTXP ((struct evmap_io *)BASE.io.entries[IN.fd])

VF_CONTRACT(int, io_add_c, struct event_base *base, evutil_socket_t fd, struct event *ev)
__CPROVER_requires(base == &BASE && ev == &EV && fd == IN.fd && ev->ev_fd == fd)
__CPROVER_requires(g_add_calls == 0 && g_del_calls == 0 && g_mm_realloc_calls == 0 && g_mm_allocs == 0 && g_mm_live == 0)
__CPROVER_assigns(IN.fd >= 0 && IN.fd < C05_NOLD: OLDTAB[IN.fd])
__CPROVER_assigns(IN.fd >= 0 && IN.fd < C05_NNEW: NEWTAB[IN.fd])
__CPROVER_assigns(BASE.io.nentries, BASE.io.entries, g_mm_realloc_sz,
	CTX0.io.nread, CTX0.io.nwrite, CTX0.io.nclose, CTX0.io.events.lh_first,
	C05_IOL(&EV), C05_IOL(&EV1).le_prev,
	g_add_calls, g_be_fd, g_be_old, g_be_events, g_be_fdinfo, g_be_res, g_be_fdinfo_zero, g_mm_realloc_calls, g_mm_realloc_ok, g_mm_live, g_mm_allocs, errno, vf_nchoice_)
/* 1 */
__CPROVER_ensures(__CPROVER_return_value == -1 || __CPROVER_return_value == 0 || __CPROVER_return_value == 1)
/* 2 negative fd: nothing happens */
__CPROVER_ensures(IMP(fd < 0, __CPROVER_return_value == 0 && g_add_calls == 0 && BASE.io.nentries == IN.nentries && g_mm_realloc_calls == 0))
/* 3 the delete entry point of the backend is never used, the add entry point at most once */
__CPROVER_ensures(g_del_calls == 0 && g_add_calls <= 1)
/* 4 the table only grows, and covers fd after every successful call */
__CPROVER_ensures(BASE.io.nentries >= IN.nentries && IMP(fd >= 0 && __CPROVER_return_value >= 0, fd < BASE.io.nentries))
/* 5 backend told iff a count crosses 0 -> 1 (and the add is not refused up front) */
__CPROVER_ensures(IMP(fd >= 0, IFF(g_add_calls == 1, CROSS != 0 && !OVERFLOW && !ETMIX && !g_alloc_failed)))
/* 6 ... with old = the conditions registered before, events = the crossing conditions plus the event's ET flag, and this fd's fdinfo */
__CPROVER_ensures(IMP(g_add_calls == 1, g_be_fd == fd && g_be_old == OLDSET && g_be_events == (CROSS | (IN.ev_events & EV_ET))))
__CPROVER_ensures(IMP(g_add_calls == 1, g_be_fdinfo == (char *)CTXP + sizeof(struct evmap_io)))
/* 8 fdinfo of an fd seen for the first time is all zero when the backend first sees it */
__CPROVER_ensures(IMP(g_add_calls == 1 && g_ctx_new, g_be_fdinfo_zero))
/* 9 return value: 1 = backend changed, 0 = nothing to tell the backend, -1 = refused/failed */
__CPROVER_ensures(IMP(fd >= 0, IFF(__CPROVER_return_value == 1, g_add_calls == 1 && g_be_res == 0)))
__CPROVER_ensures(IMP(fd >= 0, IFF(__CPROVER_return_value == 0, CROSS == 0 && !OVERFLOW && !ETMIX && !g_alloc_failed)))
/* 11 success: counts incremented exactly, event linked at the head of this fd's list */
__CPROVER_ensures(IMP(fd >= 0 && __CPROVER_return_value >= 0,
	CTXP->nread == O_nread + WANTS(EV_READ) && CTXP->nwrite == O_nwrite + WANTS(EV_WRITE) && CTXP->nclose == O_nclose + WANTS(EV_CLOSED)))
__CPROVER_ensures(IMP(fd >= 0 && __CPROVER_return_value >= 0,
	CTXP->events.lh_first == &EV && C05_IOL(&EV).le_next == O_first && C05_IOL(&EV).le_prev == &CTXP->events.lh_first
	&& IMP(O_first != NULL, C05_IOL(&EV1).le_prev == &C05_IOL(&EV).le_next)))
/* 13 failure (overflow guard, ET mixing in debug mode, allocation, backend): counts and list as before */
__CPROVER_ensures(IMP(__CPROVER_return_value == -1 && !g_alloc_failed,
	CTXP->nread == O_nread && CTXP->nwrite == O_nwrite && CTXP->nclose == O_nclose && CTXP->events.lh_first == O_first
	&& IMP(O_first != NULL, C05_IOL(&EV1).le_prev == &CTXP->events.lh_first)))
/* 14 the 0xffff guard refuses without telling the backend */
__CPROVER_ensures(IMP(fd >= 0 && OVERFLOW && !g_alloc_failed, __CPROVER_return_value == -1 && g_add_calls == 0))
/* 15 no growth or failed growth: table untouched */
__CPROVER_ensures(IMP(!GROW_OK, BASE.io.nentries == IN.nentries && BASE.io.entries == C05_OLDTAB))
__CPROVER_ensures(g_mm_realloc_calls <= 1 && g_mm_allocs <= 1 && IMP(!GROW_NEEDED, g_mm_realloc_calls == 0) && IMP(!CTOR_NEEDED || fd < 0, g_mm_allocs == 0))
/* 19 an existing per-fd record is kept (never re-created) */
__CPROVER_ensures(IMP(fd >= 0 && O_ctx != NULL && !g_alloc_failed, CTXP == O_ctx && g_ctx_new == 0))
;

void harness(void)
{
	int r;
	VF_LOAD_IN();
	c05_build_io();
	r = VF_CALL(io_add_c, evmap_io_add_, &BASE, IN.fd, &EV);
	(void)r;
#ifdef VF_CANARY
	__CPROVER_assert(g_add_calls == 0, "canary: must fail (some adds reach the backend)");
#endif
}
