/* C08/C10 — evbuffer_incref_: same harness as unit c15_free, compiled for the incref contract. */
#define C15_INCREF
#include "../c15_free/unit.c"
