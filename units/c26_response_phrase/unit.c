/* C26 — evhttp_response_phrase_internal (real http.c), for EVERY int status code: a non-empty
 * printable ASCII string (so the default reason can never break the status line), no table
 * overrun (bounds checks), "Unknown Status Class" outside 100..599, the class name for a
 * sub-code without an entry, and the RFC 9110 phrases of the common codes.  Loop-free function;
 * the only loops are the unit's bounded string comparisons (longest phrase: 31 bytes). */
#define VF_STRMAX 33
#include "vf.h"
#include "http.c"
struct in { int code; };
struct in IN;
#include "stubs/log.h"
#include "c23_ref.h"
static int ref_printable_nonempty(const char *p)
{
	unsigned i;
	if (p[0] == 0) return 0;
	for (i = 0; i <= VF_STRMAX; i++) { if (p[i] == 0) return 1; if (p[i] < ' ' || p[i] > '~') return 0; }
	return 0;
}
void harness(void)
{
	const char *ph;
	VF_LOAD_IN();
	ph = evhttp_response_phrase_internal(IN.code);
	__CPROVER_assert(ph != NULL && ref_printable_nonempty(ph), "default phrase: non-empty printable ASCII (no CR/LF) for every code");
	__CPROVER_assert(IMP(IN.code < 100 || IN.code > 599, ref_streq(ph, "Unknown Status Class")), "default phrase: outside 100..599");
	__CPROVER_assert(IMP(IN.code == 100, ref_streq(ph, "Continue")) && IMP(IN.code == 101, ref_streq(ph, "Switching Protocols")) &&
	    IMP(IN.code == 200, ref_streq(ph, "OK")) && IMP(IN.code == 204, ref_streq(ph, "No Content")) && IMP(IN.code == 206, ref_streq(ph, "Partial Content")) &&
	    IMP(IN.code == 301, ref_streq(ph, "Moved Permanently")) && IMP(IN.code == 304, ref_streq(ph, "Not Modified")) &&
	    IMP(IN.code == 400, ref_streq(ph, "Bad Request")) && IMP(IN.code == 404, ref_streq(ph, "Not Found")) && IMP(IN.code == 413, ref_streq(ph, "Request Entity Too Large")) && IMP(IN.code == 417, ref_streq(ph, "Expectation Failed")) &&
	    IMP(IN.code == 500, ref_streq(ph, "Internal Server Error")) && IMP(IN.code == 503, ref_streq(ph, "Service Unavailable")) && IMP(IN.code == 505, ref_streq(ph, "HTTP Version not supported")),
	    "default phrase: the RFC 9110 phrases of the common codes");
	__CPROVER_assert(IMP(IN.code == 207 || IN.code == 299, ref_streq(ph, "Success")) && IMP(IN.code == 418 || IN.code == 499, ref_streq(ph, "Client Error")) &&
	    IMP(IN.code == 102 || IN.code == 199, ref_streq(ph, "Informational")) && IMP(IN.code == 307, ref_streq(ph, "Redirection") || ref_streq(ph, "Temporary Redirect")) && IMP(IN.code == 506 || IN.code == 599, ref_streq(ph, "Server Error")),
	    "default phrase: class name for a sub-code without a phrase");
#ifdef VF_CANARY
	__CPROVER_assert(ph[0] != 'G', "canary: must fail (\"Gone\", \"Gateway Time-out\")");
#endif
}
