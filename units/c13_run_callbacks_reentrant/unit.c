/* C13 — evbuffer_run_callbacks (real buffer.c) when a callback CHANGES the buffer from inside (adds or drains
 * bytes).  The property: every byte added or removed is reported exactly once — nothing twice, nothing lost.  A
 * change a callback makes during a reporting pass was not part of that pass's report, so it must still be
 * pending afterwards (n_add_for_cb / n_del_for_cb hold exactly the changes made inside callbacks), and what the
 * pass reported must not be pending any more.  The stub callbacks change total_len and the counters directly
 * (the bookkeeping every mutator is proved to do, see the C12 units) without a nested dispatch; nested dispatch
 * is the same function on the inner change.  List of <= 2 entries, all lengths/counters symbolic. */
#define VF_NLOCKS 1
#include "vf.h"
#include "buffer.c"
struct eb_in;
#include "stubs/lock.h"
#include "evbuffer_shape.h"
struct in { struct eb_in b; unsigned ncb; unsigned en[2]; size_t add[2], del[2]; int running_deferred; unsigned ch[VF_NCHOICE]; };
struct in IN;
#include "stubs/log.h"
#include "stubs/mm.h"

static struct evbuffer_cb_entry ENT[2];
int g_calls[2]; size_t g_orig[2], g_added[2], g_deleted[2]; int g_n;
size_t O_total, O_nadd, O_ndel, g_in_add, g_in_del;

static void vf_cb(struct evbuffer *buffer, const struct evbuffer_cb_info *info, void *arg)
{
	int k = (arg == &ENT[0]) ? 0 : 1;
	__CPROVER_assert(buffer == &BUF && (arg == &ENT[0] || arg == &ENT[1]) && info != NULL, "callback gets its buffer, its argument and an info record");
	g_calls[k]++; g_n++;
	g_orig[k] = info->orig_size; g_added[k] = info->n_added; g_deleted[k] = info->n_deleted;
	/* the callback appends IN.add[k] bytes and then drains IN.del[k] (<= length) bytes */
	BUF.total_len += IN.add[k]; BUF.n_add_for_cb += IN.add[k]; g_in_add += IN.add[k];
	if (IN.del[k] <= BUF.total_len) { BUF.total_len -= IN.del[k]; BUF.n_del_for_cb += IN.del[k]; g_in_del += IN.del[k]; }
}

VF_CONTRACT_V(run_reent_c, struct evbuffer *buffer, int running_deferred)
__CPROVER_requires(buffer == &BUF && !BUF.deferred_cbs && running_deferred == 0)
__CPROVER_requires(g_n == 0 && g_calls[0] == 0 && g_calls[1] == 0 && g_in_add == 0 && g_in_del == 0)
__CPROVER_assigns(BUF.n_add_for_cb, BUF.n_del_for_cb, BUF.total_len, __CPROVER_object_whole(g_calls), __CPROVER_object_whole(g_orig), __CPROVER_object_whole(g_added), __CPROVER_object_whole(g_deleted), g_n, g_in_add, g_in_del)
/* 1 every enabled entry exactly once — when there is something to report */
#define SOMETHING (O_nadd != 0 || O_ndel != 0)
__CPROVER_ensures(g_calls[0] == ((IN.ncb >= 1 && IN.en[0] && SOMETHING) ? 1 : 0) && g_calls[1] == ((IN.ncb >= 2 && IN.en[1] && SOMETHING) ? 1 : 0))
/* 2 what was pending at entry was reported (to each called entry) … */
__CPROVER_ensures(IMP(g_calls[0], g_added[0] == O_nadd && g_deleted[0] == O_ndel && g_orig[0] == O_total + O_ndel - O_nadd))
__CPROVER_ensures(IMP(g_calls[1], g_added[1] == O_nadd && g_deleted[1] == O_ndel && g_orig[1] == O_total + O_ndel - O_nadd))
/* 3 … and is not pending any more, while exactly the changes made INSIDE the callbacks are: nothing twice, nothing lost */
__CPROVER_ensures(IMP(g_n > 0, BUF.n_add_for_cb == g_in_add && BUF.n_del_for_cb == g_in_del))
/* 4 nothing to report or nobody to tell: no callback runs */
__CPROVER_ensures(IMP(O_nadd == 0 && O_ndel == 0, g_n == 0))
__CPROVER_ensures(BUF.total_len == O_total + g_in_add - g_in_del)
;

void harness(void)
{
	unsigned i;
	VF_LOAD_IN();
	vf_build_buf(&IN.b);
	VF_INSTALL_LOCKS(); VF_MM_RESET();
	__CPROVER_assume(IN.ncb <= 2 && IN.running_deferred == 0);
	__CPROVER_assume(IN.add[0] <= ((size_t)1 << 40) && IN.add[1] <= ((size_t)1 << 40) && IN.del[0] <= ((size_t)1 << 40) && IN.del[1] <= ((size_t)1 << 40));
	__CPROVER_assume(BUF.n_add_for_cb <= BUF.total_len + BUF.n_del_for_cb);      /* orig_size = total + deleted - added is a length */
	BUF.deferred_cbs = 0;
	LIST_INIT(&BUF.callbacks);
	for (i = 2; i-- > 0; ) {
		if (i >= IN.ncb) continue;
		ENT[i].cb.cb_func = vf_cb; ENT[i].cbarg = &ENT[i]; ENT[i].flags = IN.en[i] ? EVBUFFER_CB_ENABLED : 0;
		LIST_INSERT_HEAD(&BUF.callbacks, &ENT[i], next);
	}
	if (BUF.lock) g_lock_depth[1] = 1;
	g_n = 0; g_calls[0] = g_calls[1] = 0; g_in_add = g_in_del = 0;
	O_total = BUF.total_len; O_nadd = BUF.n_add_for_cb; O_ndel = BUF.n_del_for_cb;
	VF_CALL_V(run_reent_c, evbuffer_run_callbacks, &BUF, 0);
#ifdef VF_CANARY
	__CPROVER_assert(g_n < 2, "canary: must fail (two enabled callbacks are both called)");
#endif
}
