/* C15/C14/C13/C08 — evbuffer_add_buffer_reference + APPEND_CHAIN_MULTICAST (real buffer.c): destination BUF (<= 3 chains),
 * source SRC (<= 3 chains of every kind, also the kinds that must be refused), also the call with outbuf == inbuf.
 * Inline (real): APPEND_CHAIN_MULTICAST, evbuffer_chain_new, evbuffer_incref_, evbuffer_chain_incref, evbuffer_chain_insert,
 * evbuffer_free_trailing_empty_chains, evbuffer_free_all_chains.  Replaced: evbuffer_chain_free, evbuffer_invoke_callbacks_.
 * This unit: the allocator never fails (allocation failure: unit c15_add_buffer_reference_oom, -DC15_OOM).
 *
 * CANDIDATE DEFECT 1 (this unit fails on it; reproduced natively with ASan, see the report): when the destination holds no data
 * but still has a chain (evbuffer_expand / evbuffer_reserve_space without commit), the function frees the destination's chains
 * and leaves first/last/last_with_datap dangling; evbuffer_chain_insert then reads the freed chain and frees it a second time.
 * Predicate: O_BUF.total_len == 0 && O_BUF.first != NULL (and the call gets as far as appending).
 * CANDIDATE DEFECT 2 (unit …_oom fails on it): an allocation failure inside APPEND_CHAIN_MULTICAST is swallowed — the function
 * returns 0 with only a prefix of the source referenced and n_add_for_cb advanced by the full length. */
#define VF_NLOCKS 3
#define VF_NCHOICE 8
#define C15_SRC_MAY_BE_MC
#ifndef C15_OOM
#define C15_MM_NOFAIL
#endif
#include "vf.h"
#include "stubs/c15_sys_redirect.h"
#include "buffer.c"
#include "stubs/lock.h"
struct c15_bin;
#include "c15_shape.h"
struct in { struct c15_bin b, s; unsigned samelock, samebuf; int seg_refcnt; unsigned ch[VF_NCHOICE]; };
struct in IN;
#include "stubs/log.h"
#include "stubs/c15_mm.h"
#include "stubs/c15_sys.h"
#include "c15_contracts.h"

#define RV __CPROVER_return_value
#define SRC_UNREFERENCEABLE(k) ((unsigned)(k) < IN.s.nch && (O_PC[k].c.flags & (EVBUFFER_FILESEGMENT | EVBUFFER_SENDFILE | EVBUFFER_MULTICAST)) != 0)
#define SRC_REFUSED (SRC_UNREFERENCEABLE(0) || SRC_UNREFERENCEABLE(1) || SRC_UNREFERENCEABLE(2))
#define SRC_HASDATA(k) ((unsigned)(k) < IN.s.nch && O_PC[k].c.off != 0)
#define SRC_NDATA (C15_B2I(SRC_HASDATA(0)) + C15_B2I(SRC_HASDATA(1)) + C15_B2I(SRC_HASDATA(2)))
#define IN_TOTAL (inbuf == &SRC ? O_SRC.total_len : O_BUF.total_len)
VF_CONTRACT(int, abr_c, struct evbuffer *outbuf, struct evbuffer *inbuf)
__CPROVER_requires(outbuf == &BUF && (inbuf == &SRC || inbuf == &BUF))
__CPROVER_requires(g_lock_depth[1] == 0 && g_lock_depth[2] == 0 && g_lock_depth[3] == 0 && m_al.n == 0 && m_al.fail == 0 && m_al.frees == 0 && m_al.heap_frees == 0 && m_al.sfreed == 0 && m_al.hfreed == 0 && m_cl.n == 0 && m_cl.mask == 0 && g_cbs.n[0] == 0 && g_cbs.n[1] == 0)
__CPROVER_assigns(errno, vf_nchoice_, __CPROVER_object_whole(g_lock_depth), g_lock_ops, m_new[0], m_new[1], m_new[2], m_st, g_cbs,
	__CPROVER_object_whole(&BUF), __CPROVER_object_whole(&XC[0]), __CPROVER_object_whole(&XC[1]), __CPROVER_object_whole(&XC[2]),
	__CPROVER_object_whole(&SRC), __CPROVER_object_whole(&PC[0]), __CPROVER_object_whole(&PC[1]), __CPROVER_object_whole(&PC[2]), __CPROVER_object_whole(&SEG))
/* 1 C08: both locks released (they may be one and the same lock) */
__CPROVER_ensures(g_lock_depth[1] == 0 && g_lock_depth[2] == 0 && g_lock_depth[3] == 0)
__CPROVER_ensures(RV == 0 || RV == -1)
/* 3 nothing to reference: success, nothing happens */
__CPROVER_ensures(IMP(IN_TOTAL == 0, RV == 0))
/* 4 refused exactly when: destination end frozen, source == destination, or the source holds a chain that cannot be referenced
 *   (file segment, sendfile, or itself a reference to another buffer), or an allocation failed (C14: "it reports failure") */
__CPROVER_ensures(IMP(IN_TOTAL != 0, IFF(RV == -1, O_BUF.freeze_end || inbuf == outbuf || SRC_REFUSED || m_al.fail > 0)))
/* 5 C14: refused or nothing to do => both buffers and all chains exactly as before, nothing allocated or freed, no callback */
__CPROVER_ensures(IMP(RV == -1 || IN_TOTAL == 0, C15_BUF_SAME(BUF, O_BUF) && C15_BUF_SAME(SRC, O_SRC) && C15_ALLXC_SAME() && C15_ALLPC_SAME() && m_al.n == 0 && m_al.frees == 0 && g_cbs.n[0] == 0 && g_cbs.n[1] == 0 && m_cl.n == 0))
/* 6 C14 "if it reports success, its full effect happened" / C15: one new chain per source chain that holds data */
__CPROVER_ensures(IMP(RV == 0 && IN_TOTAL != 0, m_al.n == SRC_NDATA && BUF.total_len == O_BUF.total_len + O_SRC.total_len))
/* 7 the source buffer gains exactly one reference per new chain and is otherwise unchanged (its bytes are not moved) */
__CPROVER_ensures(IMP(RV == 0 && IN_TOTAL != 0, SRC.refcnt == O_SRC.refcnt + m_al.n && SRC.first == O_SRC.first && SRC.last == O_SRC.last && SRC.last_with_datap == O_SRC.last_with_datap &&
	SRC.total_len == O_SRC.total_len && SRC.n_add_for_cb == O_SRC.n_add_for_cb && SRC.n_del_for_cb == O_SRC.n_del_for_cb && g_cbs.n[1] == 0))
/* 8 C13: the destination's callbacks are told once, with counters that account for exactly the bytes that were added */
__CPROVER_ensures(IMP(RV == 0 && IN_TOTAL != 0, g_cbs.n[0] == 1 && g_cbs.total[0] == BUF.total_len && g_cbs.nadd[0] == O_BUF.n_add_for_cb + (BUF.total_len - O_BUF.total_len) && g_cbs.ndel[0] == O_BUF.n_del_for_cb))
__CPROVER_ensures(BUF.lock == O_BUF.lock && BUF.freeze_start == O_BUF.freeze_start && BUF.freeze_end == O_BUF.freeze_end && BUF.refcnt == O_BUF.refcnt && BUF.callbacks.lh_first == O_BUF.callbacks.lh_first && BUF.flags == O_BUF.flags)
;

void harness(void)
{
	int r, j; unsigned i;
	VF_LOAD_IN();
	VF_INSTALL_LOCKS(); C15_RESET(); C15_SYS_RESET();
	c15_build(&IN.b, 0, 0);
	c15_build(&IN.s, 1, IN.samelock & 1);
	for (i = 0; i < C15_MAXCH; i++) __CPROVER_assume(!(IN.b.flags[i] & EVBUFFER_MULTICAST));   /* the destination's own multicast chains: unit c15_chain_free_mc */
	__CPROVER_assume(IN.seg_refcnt >= 1 && IN.seg_refcnt <= 1000);
	SEG.refcnt = IN.seg_refcnt; SEG.flags = 0; SEG.lock = NULL; SEG.cleanup_cb = NULL; SEG.cleanup_cb_arg = NULL;
	SEG.is_mapping = 0; SEG.contents = NULL; SEG.mapping = NULL; SEG.fd = 5; SEG.length = 0; SEG.file_offset = 0;
	c15_assume_refs(&IN.b, &IN.s, IN.seg_refcnt, IN.s.refcnt);
#ifdef C15_OOM
	/* candidate defect 1 is unit c15_add_buffer_reference's: here the destination is either really empty or holds data */
	__CPROVER_assume(!(BUF.total_len == 0 && BUF.first != NULL));
#else
#ifdef VF_KF_EXCLUDE
	__CPROVER_assume(!(BUF.total_len == 0 && BUF.first != NULL));
#endif
#ifdef VF_KF_ONLY
	__CPROVER_assume(BUF.total_len == 0 && BUF.first != NULL);
#endif
#endif
	C15_SNAPSHOT();
	r = VF_CALL(abr_c, evbuffer_add_buffer_reference, &BUF, (IN.samebuf & 1) ? &BUF : &SRC);
#ifdef C15_OOM
#ifdef VF_KF_EXCLUDE
	__CPROVER_assume(m_al.fail == 0);
#endif
#ifdef VF_KF_ONLY
	__CPROVER_assume(m_al.fail > 0);
#endif
#endif
	if (r == 0 && !(IN.samebuf & 1) && O_SRC.total_len != 0) {
		__CPROVER_assert(c15_binv(&BUF, m_al.sfreed), "BInv of the destination: links, last, windows, total_len == sum off, last_with_datap canonical, no released chain in the list");
		/* C15: the j-th new chain aliases the j-th source chain that holds data, and pins it */
		j = 0;
		for (i = 0; i < C15_MAXCH; i++) {
			if (i >= IN.s.nch) break;
			if (O_PC[i].c.off != 0 && j < m_al.n) {
				struct evbuffer_chain *n = (struct evbuffer_chain *)m_new[j];
				__CPROVER_assert(n->flags == (EVBUFFER_MULTICAST | EVBUFFER_IMMUTABLE) && n->refcnt == 1, "new chain: MULTICAST|IMMUTABLE, one reference");
				__CPROVER_assert(n->buffer == O_PC[i].c.buffer && n->misalign == O_PC[i].c.misalign && n->off == O_PC[i].c.off && n->buffer_len == O_PC[i].c.buffer_len, "new chain aliases the source chain's bytes: same buffer, window and length");
				__CPROVER_assert(CF_MCI(n)->source == &SRC && CF_MCI(n)->parent == &PC[i].c, "new chain records its source buffer and parent chain");
				__CPROVER_assert(PC[i].c.refcnt == O_PC[i].c.refcnt + 1 && PC[i].c.flags == (O_PC[i].c.flags | EVBUFFER_IMMUTABLE), "source chain: exactly one more reference, now immutable");
				__CPROVER_assert(PC[i].c.off == O_PC[i].c.off && PC[i].c.misalign == O_PC[i].c.misalign && PC[i].c.buffer == O_PC[i].c.buffer && PC[i].c.next == O_PC[i].c.next && PC[i].c.buffer_len == O_PC[i].c.buffer_len, "source chain: bytes and links untouched");
				j++;
			} else
				__CPROVER_assert(C15_CH_SAME(PC[i].c, O_PC[i].c), "source chains without data are not touched");
		}
		__CPROVER_assert(j == m_al.n, "no other chain is allocated");
		for (i = 0; i < C15_MAXCH; i++) {
			if (i >= IN.b.nch) break;
			if (m_al.sfreed & (1u << i)) __CPROVER_assert(O_XC[i].c.off == 0, "only empty chains of the destination are dropped");
			else __CPROVER_assert(XC[i].c.off == O_XC[i].c.off && XC[i].c.misalign == O_XC[i].c.misalign && XC[i].c.flags == O_XC[i].c.flags && XC[i].c.refcnt == O_XC[i].c.refcnt, "surviving chains of the destination keep their bytes");
		}
	}
#ifdef VF_CANARY
	__CPROVER_assert(m_al.n == 0, "canary: must fail (references allocate chains)");
#endif
}
