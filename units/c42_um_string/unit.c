/* C42 — evtag_unmarshal_string on arbitrary bytes (allocation may fail).
 * Harness, reference and the full statement: contracts/c31_tag_unmarshal_harness.h (case 3 of IN.which; one case per
 * unit: CBMC decides one case in a quarter of the time it needs for two merged ones). */
#define VF_WHICH_A 3
#define VF_WHICH_B 3
#include "c31_tag_unmarshal_harness.h"
