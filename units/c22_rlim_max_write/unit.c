/* C22/C08 — bufferevent_get_rlim_max_ for the WRITE direction; see units/c22_rlim_max/unit.c */
#define C22_IS_WRITE 1
#include "../c22_rlim_max/unit.c"
