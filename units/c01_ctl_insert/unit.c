/* C01 — insert_common_timeout_inorder (real event.c): a common-timeout queue stays sorted by
 * deadline and is FIFO among equal deadlines: the new event goes after every event whose deadline
 * is <= its own and before every later one; the old events keep their relative order; the TAILQ
 * stays well-formed.  The loop walks a linked list backwards and the insertion writes through the
 * carried pointer => bounded stand-in: queues of <= C01_QK events, all deadlines symbolic. */
#include "vf.h"
#include "event.c"
#include "stubs/lock.h"
#include "stubs/log.h"
#ifndef C01_QK
#define C01_QK 4
#endif
#define QK C01_QK
struct in { unsigned n; long sec[4], usec[4]; long nsec, nusec; unsigned cidx; };
struct in IN;
static struct event Q_0, Q_1, Q_2, Q_3, QN;
static struct event *const QP[4] = { &Q_0, &Q_1, &Q_2, &Q_3 };
static struct common_timeout_list CTL;
static struct event EV, HEV[2];                     /* named by default macros of the contract headers; unused */
#define C01_PLAIN
#include "c02_event_contracts.h"
#include "c01_timer_contracts.h"
#define LNK(e) ((e)->ev_timeout_pos.ev_next_with_common_timeout)
#define DL_LE(as, au, bs, bu) ((as) < (bs) || ((as) == (bs) && (au) <= (bu)))

void harness(void)
{
	unsigned j, k, pos; long magic; struct event *c, **pp; struct event *ofirst; int wf = 1;
	VF_LOAD_IN();
	__CPROVER_assume(IN.n <= QK);
	magic = 0x50000000L | ((long)(IN.cidx & 0xff) << 20);
	TAILQ_INIT(&CTL.events);
	for (j = 0; j < 4; j++) {
		if (j >= IN.n) break;
		__CPROVER_assume(IN.sec[j] >= 0 && IN.sec[j] <= ((long)1 << 40) && IN.usec[j] >= 0 && IN.usec[j] < 1000000);
		if (j > 0) __CPROVER_assume(DL_LE(IN.sec[j-1], IN.usec[j-1], IN.sec[j], IN.usec[j]));       /* queue invariant: sorted */
		QP[j]->ev_timeout.tv_sec = IN.sec[j]; QP[j]->ev_timeout.tv_usec = IN.usec[j] | magic;
		TAILQ_INSERT_TAIL(&CTL.events, QP[j], ev_timeout_pos.ev_next_with_common_timeout);
	}
	__CPROVER_assume(IN.nsec >= 0 && IN.nsec <= ((long)1 << 40) && IN.nusec >= 0 && IN.nusec < 1000000);
	QN.ev_timeout.tv_sec = IN.nsec; QN.ev_timeout.tv_usec = IN.nusec | magic;      /* same queue => same magic/index bits (asserted by the code) */
	ofirst = CTL.events.tqh_first;
	insert_common_timeout_inorder(&CTL, &QN);
	/* expected position: after all old events with deadline <= the new one */
	pos = 0;
	for (j = 0; j < 4; j++) { if (j < IN.n && DL_LE(IN.sec[j], IN.usec[j], IN.nsec, IN.nusec)) pos = j + 1; }
	/* walk: the list is old[0..pos) , QN , old[pos..n) and a well-formed TAILQ */
	pp = &CTL.events.tqh_first; c = CTL.events.tqh_first;
	for (k = 0; k < 6; k++) {
		struct event *expect;
		if (k > IN.n) break;
		expect = (k < pos) ? QP[k] : (k == pos) ? &QN : QP[k - 1];
		__CPROVER_assert(c == expect, "queue = old events with deadline <= new, then the new event, then the later ones (sorted, FIFO among equals)");
		if (c == NULL) { wf = 0; break; }
		if (LNK(c).tqe_prev != pp) wf = 0;
		pp = &LNK(c).tqe_next; c = LNK(c).tqe_next;
	}
	__CPROVER_assert(c == NULL && CTL.events.tqh_last == pp && wf, "TAILQ well-formed: back links and tqh_last consistent, n+1 elements");
	for (j = 0; j < 4; j++) { if (j < IN.n) __CPROVER_assert(QP[j]->ev_timeout.tv_sec == IN.sec[j] && QP[j]->ev_timeout.tv_usec == (IN.usec[j] | magic), "deadlines untouched"); }
	__CPROVER_assert(C01_CTLINS_POST(&CTL, &QN, ofirst), "caller-view postcondition (contracts/c01_timer_contracts.h)");
#ifdef VF_CANARY
	__CPROVER_assert(CTL.events.tqh_first != &QN || IN.n == 0, "canary: must fail (an earlier deadline becomes the head)");
#endif
}
