/* C12 — evbuffer_chain_should_realign (real buffer.c): whenever it says yes, realigning the chain really makes room
 * for datlen more bytes behind the data (what evbuffer_add and evbuffer_expand_singlechain rely on), it never says
 * yes for more than MAX_TO_REALIGN_IN_EXPAND bytes to move, and it is read-only.  Loop-free, all values. */
#define VF_NLOCKS 2
#include "vf.h"
#include "stubs/c12a_mem.h"
#include "buffer.c"
struct eb_in;
#include "stubs/lock.h"
#include "c12a_shape.h"
struct in { size_t blen, mis, off; unsigned flags; size_t datlen; unsigned ch[VF_NCHOICE]; };
struct in IN;
#include "stubs/log.h"
#include "stubs/c12a_mm.h"
#include "c12a_contracts.h"

VF_CONTRACT(int, should_realign_c, struct evbuffer_chain *chain, size_t datlen)
__CPROVER_requires(chain == &CH[0] && chain->off <= chain->buffer_len)
__CPROVER_assigns()
__CPROVER_ensures(__CPROVER_return_value == 0 || __CPROVER_return_value == 1)
__CPROVER_ensures(IMP(__CPROVER_return_value, chain->buffer_len - chain->off >= datlen))
__CPROVER_ensures(IMP(__CPROVER_return_value, chain->off <= MAX_TO_REALIGN_IN_EXPAND && chain->off < chain->buffer_len / 2))
__CPROVER_ensures(IMP(chain->buffer_len - chain->off >= datlen && chain->off <= MAX_TO_REALIGN_IN_EXPAND && chain->off < chain->buffer_len / 2, __CPROVER_return_value == 1))
;

void harness(void)
{
	int r;
	VF_LOAD_IN();
	/* one chain over the whole domain of the type invariant: buffer_len <= EVBUFFER_CHAIN_MAX, window inside the buffer */
	__CPROVER_assume(IN.blen <= EVBUFFER_CHAIN_MAX && IN.mis <= IN.blen && IN.off <= IN.blen - IN.mis);
	__CPROVER_assume((IN.flags & ~(unsigned)(EVBUFFER_REFERENCE | EVBUFFER_FILESEGMENT | EVBUFFER_SENDFILE | EVBUFFER_MULTICAST | EVBUFFER_DANGLING)) == 0);
	CH[0].next = NULL; CH[0].buffer_len = IN.blen; CH[0].misalign = (ev_misalign_t)IN.mis; CH[0].off = IN.off; CH[0].flags = IN.flags; CH[0].refcnt = 1; CH[0].buffer = C12A_D0;
	VF_INSTALL_LOCKS(); C12A_RESET();
	C12A_SNAPSHOT();
	r = VF_CALL(should_realign_c, evbuffer_chain_should_realign, &CH[0], IN.datlen);
	if (r) {
		/* after an align (misalign := 0) the free space behind the data is enough */
		CH[0].misalign = 0;
		__CPROVER_assert(CHAIN_SPACE_LEN(&CH[0]) >= IN.datlen, "yes => aligned chain has room for datlen");
	}
#ifdef VF_CANARY
	__CPROVER_assert(r == 0, "canary: must fail (realigning is sometimes worthwhile)");
#endif
}
