/* C18/C08 — bufferevent_unsuspend_read_ (real bufferevent.c); contract, environment and harness in contracts/c18_suspend_unit.h */
#define C18_WHICH 2
#include "c18_suspend_unit.h"
