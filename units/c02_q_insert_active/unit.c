/* C02 — event_queue_insert_active (real event.c): ACTIVE flag, event_count / event_count_active
 * (+max) deltas, append at the tail of the queue of the callback's priority; double activation
 * is a no-op.  Loop-free; all flag sets, all 256 priorities, all counter values, empty and
 * non-empty queue. */
#define VF_NLOCKS 1
#include "vf.h"
#include "event.c"
#include "stubs/lock.h"
#include "stubs/log.h"
#include "c02_event_shape.h"
struct in { struct c02_base_in b; struct c02_ev_in e; int qshape; };
struct in IN;
#include "c02_event_contracts.h"

void harness(void)
{
	struct event_callback *evcb = &EV.ev_evcallback;
	VF_LOAD_IN(); VF_INSTALL_LOCKS();
	c02_build_base(&IN.b);
	c02_build_ev(&EV, &IN.e, 0);           /* any event_callback, not only events */
	__CPROVER_assume(!(EV.ev_flags & EVLIST_ACTIVE_LATER));
	if (EV.ev_flags & EVLIST_ACTIVE)
		C02_LINK_IN(&AQ[EV.ev_pri], evcb, evcb_active_next, &NB[0].ev_evcallback, &NB[1].ev_evcallback, IN.qshape);
	else
		C02_TAIL_OF(&AQ[EV.ev_pri], evcb_active_next, &NB[1].ev_evcallback, IN.qshape);
	VF_CALL_V(q_insert_active_c, event_queue_insert_active, &BASE, evcb);
	if (!(IN.e.flags & EVLIST_ACTIVE)) {
		if (IN.qshape & 1) __CPROVER_assert(NB[1].ev_evcallback.evcb_active_next.tqe_next == evcb, "old tail now points to the callback");
		else __CPROVER_assert(AQ[IN.e.pri].tqh_first == evcb, "empty queue: callback is the head");
		__CPROVER_assert(BASE.event_count_max >= BASE.event_count && BASE.event_count_active_max >= BASE.event_count_active, "max counters dominate");
	}
#ifdef VF_CANARY
	__CPROVER_assert(BASE.event_count == IN.b.event_count, "canary: must fail (activation of a user-visible callback is counted)");
#endif
}
