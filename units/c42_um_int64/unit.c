/* C42 — evtag_unmarshal_int64 on arbitrary bytes.
 * Harness, reference and the full statement: contracts/c31_tag_unmarshal_harness.h (case 2 of IN.which; one case per
 * unit: CBMC decides one case in a quarter of the time it needs for two merged ones). */
#define VF_WHICH_A 2
#define VF_WHICH_B 2
#include "c31_tag_unmarshal_harness.h"
