/* C04 — evmap_io_active_ (real evmap.c): fan-out of one backend report (fd, events) to the
 * events added on that fd.  event_active_nolock_ (event.c) is a recording stub.  An event is
 * activated iff one of the conditions it asked for is in the report, exactly once, with a result
 * mask naming only conditions it asked for AND that were reported. */
#include "vf.h"
#include "evmap.c"
#define NEV 3
struct in {
	int fd; short events;                 /* the backend's report */
	int nentries; int slot_null;
	int n;                                /* events on the fd's list, 0..3 */
	short ev_events[NEV];
	int fdinfo4; int debug_mode; short ev_events0; int has_first; short first_events; unsigned short nread, nwrite, nclose;  /* unused (shared header) */
	unsigned ch[VF_NCHOICE];
};
struct in IN;
#include "stubs/log.h"
#include "stubs/mm.h"
#include "c05_evmap_shape.h"

static struct event EVS[NEV];
int g_act_calls[NEV]; int g_act_res[NEV]; int g_act_ncalls[NEV]; int g_act_foreign;

void event_active_nolock_(struct event *ev, int res, short ncalls)
{
	long k = ev - &EVS[0];
	if (!(ev == &EVS[0] || ev == &EVS[1] || ev == &EVS[2])) { g_act_foreign++; return; }
	g_act_calls[k]++; g_act_res[k] = res; g_act_ncalls[k] = ncalls;
}

#define INTABLE (IN.fd >= 0 && IN.fd < IN.nentries && !IN.slot_null)
#define ONLIST(k) (INTABLE && (k) < IN.n)
#define WANTED_AND_REPORTED(k) ((IN.ev_events[k] & IN.events & ~EV_ET) != 0)
#define POST1(k) \
	(g_act_calls[k] == ((ONLIST(k) && WANTED_AND_REPORTED(k)) ? 1 : 0) \
	 && IMP(g_act_calls[k] == 1, g_act_res[k] == (IN.ev_events[k] & IN.events) \
	        && (g_act_res[k] & ~IN.ev_events[k]) == 0 && (g_act_res[k] & ~IN.events) == 0 \
	        && (g_act_res[k] & ~EV_ET) != 0 && g_act_ncalls[k] == 1))

VF_CONTRACT_V(io_active_c, struct event_base *base, evutil_socket_t fd, short events)
__CPROVER_requires(base == &BASE && fd == IN.fd && events == IN.events)
__CPROVER_requires(g_act_calls[0] == 0 && g_act_calls[1] == 0 && g_act_calls[2] == 0 && g_act_foreign == 0)
/* frame: nothing of the map, the table or the events is written */
__CPROVER_assigns(__CPROVER_object_whole(g_act_calls), __CPROVER_object_whole(g_act_res), __CPROVER_object_whole(g_act_ncalls), g_act_foreign)
__CPROVER_ensures(g_act_foreign == 0)
__CPROVER_ensures(POST1(0))
__CPROVER_ensures(POST1(1))
__CPROVER_ensures(POST1(2))
;

void harness(void)
{
	int k;
	VF_LOAD_IN();
	__CPROVER_assume(IN.nentries >= 0 && IN.nentries <= C05_NOLD && IN.n >= 0 && IN.n <= NEV);
	BASE.evsel = &OPS; BASE.io.nentries = IN.nentries; BASE.io.entries = C05_OLDTAB;
	if (IN.fd >= 0 && IN.fd < IN.nentries) OLDTAB[IN.fd] = IN.slot_null ? NULL : (void *)&CTX0;
	/* list head -> EVS[0] -> ... -> EVS[n-1] */
	CTX0.io.events.lh_first = IN.n > 0 ? &EVS[0] : NULL;
	for (k = 0; k < NEV; k++) {
		EVS[k].ev_fd = IN.fd; EVS[k].ev_events = IN.ev_events[k];
		C05_IOL(&EVS[k]).le_next = (k + 1 < IN.n) ? &EVS[k + 1] : NULL;
		C05_IOL(&EVS[k]).le_prev = k == 0 ? &CTX0.io.events.lh_first : &C05_IOL(&EVS[k - 1]).le_next;
		g_act_calls[k] = 0; g_act_res[k] = 0; g_act_ncalls[k] = 0;
	}
	g_act_foreign = 0;
	VF_CALL_V(io_active_c, evmap_io_active_, &BASE, IN.fd, IN.events);
#ifdef VF_CANARY
	__CPROVER_assert(g_act_calls[2] == 0, "canary: must fail (the third event can be activated)");
#endif
}
