/* C44 (+C08) — listener_read_cb (real listener.c), the accept loop, for ANY number of accepted connections:
 * the while(1) loop is closed by a LOOP CONTRACT over the ghost ledger  accepted == delivered + closed  with
 * no descriptor pending.  accept4 is a ghost (fresh fd with a peer address of 0..128 bytes, or -1 with any
 * errno); the user callbacks are stubs that check their arguments and then may do nothing / disable the
 * listener / free it / change the callback through the REAL evconnlistener_* functions.  Proved:
 *  - every accepted descriptor is either passed to the callback installed at that moment exactly once (with
 *    the peer's address, the current user_data, the lock held, a reference held) or closed exactly once; at
 *    return none is pending (no leak, no double close); callback NULL => closed and the loop stops;
 *    socklen == 0 => closed;
 *  - no accept4 after the listener was disabled or freed from inside the callback; when the callback freed
 *    the listener, the last reference is dropped, the listener is destroyed once and never touched again;
 *  - accept4 failing with EINTR/EAGAIN/ECONNABORTED: silent return; any other errno: the error callback is
 *    called exactly once (if set), holding a reference that is dropped afterwards (which may destroy);
 *  - the listener's lock is held exactly once around all of this and released on every exit (C08). */
#include "c44_listener_unit.h"
int O_refcnt, O_has_cb;

#define RETRIABLE(e) ((e) == EINTR || (e) == EAGAIN || (e) == ECONNABORTED)
VF_CONTRACT_V(read_cb_c, evutil_socket_t fd, short what, void *p)
__CPROVER_requires(p == (void *)L && fd == VF_C44_LFD)
__CPROVER_requires(L->base.refcnt >= 1 && L->base.refcnt <= 1000)
/* the event is only added while the listener is enabled (evconnlistener_enable) and deleted by _disable */
__CPROVER_requires(L->base.enabled == 1)
__CPROVER_requires(g_lock_depth[1] == 0 && g_mm_frees == 0 && g_l.accept_calls == 0 && g_l.accepted == 0 && g_l.delivered == 0 && g_l.closed == 0 && g_l.pending_fd == -1 && g_l.user_freed == 0 && g_l.err_calls == 0 && g_l.cb_ok == 1 && g_l.err_ok == 1)
__CPROVER_assigns(__CPROVER_object_whole(L), __CPROVER_object_whole(&g_l), g_lock_depth[1], g_lock_ops, errno, vf_nchoice_, g_mm_live, g_mm_frees)
__CPROVER_frees(p)
/* 1 ledger: nothing leaked, nothing closed twice (the stubs fail on a double close) */
__CPROVER_ensures(g_l.accepted == g_l.delivered + g_l.closed && g_l.pending_fd == -1 && g_l.bad_close == 0)
/* 2 every delivery had the right descriptor, peer address, user_data, lock state and a live referenced listener */
__CPROVER_ensures(g_l.cb_ok == 1 && g_l.err_ok == 1 && g_l.lockdepth_at_accept_ok == 1)
/* 3 no callback at entry and none installed later => nothing delivered */
__CPROVER_ensures(IMP(!O_has_cb, g_l.delivered == 0))
/* 4 the loop ends by a failed accept4, or early (callback missing / listener disabled or freed inside the callback) */
__CPROVER_ensures(g_l.accept_calls == g_l.accepted + (g_l.accept_failed ? 1 : 0))
/* 5 error callback: exactly once iff accept4 failed with a non-retriable errno while an error callback was installed */
__CPROVER_ensures(g_l.err_calls <= 1 && IFF(g_l.err_calls == 1, g_l.accept_failed && !RETRIABLE(g_l.fail_errno) && g_l.errcb_set_at_fail))
/* 6 lock balance (C08): released on every exit, freed only when the listener is destroyed */
__CPROVER_ensures(g_lock_depth[1] == 0)
/* 7 destruction exactly when the user dropped the last other reference from inside a callback */
__CPROVER_ensures(g_mm_frees == ((g_l.user_freed && O_refcnt == 1) ? 1 : 0))
__CPROVER_ensures(IMP(g_mm_frees == 1, g_l.unassign_after_del == 1 && g_l.unassign_calls == 1 && g_l.lock_freed == (IN.has_lock ? 1 : 0)))
__CPROVER_ensures(IMP(g_mm_frees == 1, g_l.lfd_closed == ((IN.flags & LEV_OPT_CLOSE_ON_FREE) ? 1 : 0)))
__CPROVER_ensures(IMP(g_mm_frees == 0, g_l.lfd_closed == 0 && g_l.lock_freed == 0 && L->base.refcnt == O_refcnt - g_l.user_freed))
;

void harness(void)
{
	VF_LOAD_IN();
	vf_c44_build();
	__CPROVER_assume(IN.enabled);
	O_refcnt = IN.refcnt; O_has_cb = IN.has_cb != 0;
	VF_CALL_V(read_cb_c, listener_read_cb, VF_C44_LFD, EV_READ, (void *)L);
#ifdef VF_CANARY
	__CPROVER_assert(g_l.delivered < 2, "canary: must fail (two connections can be delivered in one run)");
#endif
}
