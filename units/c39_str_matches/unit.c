/* C39 — str_matches_option (real evdns.c) against the documented naming rule (include/event2/dns.h: an option
 * may be given as "name", as "name:" (pre-2.0.3 spelling) and — for resolv.conf — as "name:value"): for EVERY
 * string of <= C39_OPTCAP bytes and each of the 17 option names of the table, the function says "match" exactly
 * when the reference reading (c39_ref_optidx: first table entry whose name the string carries) selects that entry. */
#include "vf.h"
#include "evdns.c"
#ifndef C39_OPTCAP
#define C39_OPTCAP 24
#endif
struct in { char opt[C39_OPTCAP + 1]; int k; };
struct in IN;
#include "stubs/log.h"
#include "stubs/c39_libc_ref.h"
#include "stubs/c39_evdns_env.h"
#include "c39_option_ref.h"
static char C39_OPT[C39_OPTCAP + 1];

void harness(void)
{
	int r, i;
	VF_LOAD_IN();
	__CPROVER_assume(IN.k >= 0 && IN.k < OPT_COUNT);
	for (i = 0; i < C39_OPTCAP; i++) C39_OPT[i] = IN.opt[i];
	C39_OPT[C39_OPTCAP] = '\0';
	evdns_log_fn = NULL; current_base = NULL;
	C39_KEEP_REFS();
	O_opt = C39_OPT;
	O_idx = c39_ref_optidx(C39_OPT);
	r = VF_CALL(matches_c, str_matches_option, C39_OPT, c39_optname(IN.k));
	__CPROVER_assert(r == 0 || r == 1, "returns a truth value");
	__CPROVER_assert(IFF(r, c39_ref_names(C39_OPT, c39_optname(IN.k))), "match <=> the string is the name, or the name followed by ':' and anything");
#ifdef VF_CANARY
	__CPROVER_assert(!(r && IN.k == OPT_SKEW), "canary: must fail (getaddrinfo-allow-skew:1 matches)");
#endif
}
