/* C18 — be_filter_process_output (real bufferevent_filter.c): in BEV_NORMAL mode a filtering bufferevent never urges data on the user's
 * output filter when writing is disabled, when its own output is empty or when the underlying bufferevent's output is at/over its high
 * write watermark; every call of the filter in normal mode carries limit = high - len(underlying output) > 0, so a filter that honours
 * its limit (documented contract of bufferevent_filter_cb: "at most dst_limit bytes") never takes the underlying output past the mark;
 * in flush/finish mode the limit is -1.  The output-buffer callback is disabled for the duration and re-enabled; the write callback is
 * triggered and the write timeout restarted only if the filter made progress.
 * BOUNDED: the two loops are driven by the user filter; at most VF_MAXCALLS filter calls are considered (stub assumption).  Plain harness. */
#define VF_NLOCKS 1
#define VF_NCHOICE 24
#include "vf.h"
#include "bufferevent_filter.c"
struct in { int state; short enabled; size_t len_out, len_uout, high, low_w; long tw_sec, tw_usec; int processed0; unsigned ch[VF_NCHOICE]; };
struct in IN;
#include "stubs/log.h"
#include "stubs/lock.h"
#ifndef VF_MAXCALLS
#define VF_MAXCALLS 3
#endif
struct evbuffer { int vf_id; };
static struct bufferevent_filtered F;
static struct bufferevent_private U;
static struct evbuffer FOUT, UOUT, FIN, UIN;
static struct evbuffer_cb_entry *OUTCB = (struct evbuffer_cb_entry *)&FOUT;   /* cookie, never dereferenced here */
struct { size_t len_out, len_uout; int calls, bad_limit, called_when_full, called_when_disabled, called_when_empty, over_high; int cb_enabled, cb_clears, cb_sets, called_with_cb_enabled;
         int wcb, wcb_after_progress, ev_add, ok_calls; } g_f;
size_t evbuffer_get_length(const struct evbuffer *b) { __CPROVER_assert(b == &FOUT || b == &UOUT, "length of one of the two output buffers"); return b == &FOUT ? g_f.len_out : g_f.len_uout; }
int evbuffer_cb_clear_flags(struct evbuffer *b, struct evbuffer_cb_entry *cb, ev_uint32_t flags) { __CPROVER_assert(b == &FOUT && cb == OUTCB && flags == EVBUFFER_CB_ENABLED, "clear_flags: our output callback"); g_f.cb_enabled = 0; g_f.cb_clears++; return 0; }
int evbuffer_cb_set_flags(struct evbuffer *b, struct evbuffer_cb_entry *cb, ev_uint32_t flags) { __CPROVER_assert(b == &FOUT && cb == OUTCB && flags == EVBUFFER_CB_ENABLED, "set_flags: our output callback"); g_f.cb_enabled = 1; g_f.cb_sets++; return 0; }
void bufferevent_run_writecb_(struct bufferevent *b, int options) { __CPROVER_assert(b == &F.bev.bev && options == 0, "write callback of the filtering bufferevent"); g_f.wcb++; if (g_f.ok_calls > 0) g_f.wcb_after_progress++; }
void bufferevent_run_readcb_(struct bufferevent *b, int options) { (void)b; (void)options; __CPROVER_assert(0, "no read callback from the output path"); }
int event_add(struct event *ev, const struct timeval *tv) { __CPROVER_assert(ev == &F.bev.bev.ev_write && tv == &F.bev.bev.timeout_write, "only the write timeout is restarted"); g_f.ev_add++; return 0; }
/* the user's output filter: consumes some of src, produces at most `limit` bytes (any amount if limit < 0), returns OK / NEED_MORE / ERROR */
static enum bufferevent_filter_result vf_filter_out(struct evbuffer *src, struct evbuffer *dst, ev_ssize_t limit, enum bufferevent_flush_mode mode, void *ctx)
{
	unsigned c; size_t take, put;
	__CPROVER_assert(src == &FOUT && dst == &UOUT && ctx == (void *)&F, "filter called with our output, the underlying output and the user's context");
	__CPROVER_assert((int)mode == IN.state, "filter sees the flush mode");
	g_f.calls++;
	__CPROVER_assume(g_f.calls <= VF_MAXCALLS);                       /* BOUND */
	if (g_f.cb_enabled) g_f.called_with_cb_enabled++;
	if (IN.state == BEV_NORMAL) {
		if (!(F.bev.bev.enabled & EV_WRITE)) g_f.called_when_disabled++;
		if (g_f.len_out == 0) g_f.called_when_empty++;
		if (U.bev.wm_write.high && g_f.len_uout >= U.bev.wm_write.high) g_f.called_when_full++;
		if (U.bev.wm_write.high ? (limit <= 0 || (size_t)limit != U.bev.wm_write.high - g_f.len_uout) : limit != -1) g_f.bad_limit++;
	} else if (limit != -1) g_f.bad_limit++;
	c = VF_CHOOSE();
	if ((c & 3u) == 1) return BEV_NEED_MORE;
	if ((c & 3u) == 2) return BEV_ERROR;
	take = ((size_t)VF_CHOOSE() << 32) | VF_CHOOSE(); put = ((size_t)VF_CHOOSE() << 32) | VF_CHOOSE();
	if (take > g_f.len_out) take = g_f.len_out;
	if (limit >= 0 && put > (size_t)limit) put = (size_t)limit;    /* a conforming filter */
	__CPROVER_assume(put <= ((size_t)1 << 40));
	g_f.len_out -= take; g_f.len_uout += put; g_f.ok_calls++;
	if (IN.state == BEV_NORMAL && U.bev.wm_write.high && g_f.len_uout > U.bev.wm_write.high) g_f.over_high++;
	return BEV_OK;
}
void harness(void)
{
	enum bufferevent_filter_result res; int processed;
	VF_LOAD_IN(); VF_INSTALL_LOCKS();
	__CPROVER_assume(IN.state == BEV_NORMAL || IN.state == BEV_FLUSH || IN.state == BEV_FINISHED);
	__CPROVER_assume(IN.len_out <= ((size_t)1 << 62) && IN.len_uout <= ((size_t)1 << 62) && IN.high <= (size_t)EV_SSIZE_MAX);
	F.bev.bev.be_ops = &bufferevent_ops_filter; F.bev.bev.output = &FOUT; F.bev.bev.input = &FIN; F.bev.bev.enabled = IN.enabled; F.bev.bev.wm_write.low = IN.low_w;
	F.bev.bev.timeout_write.tv_sec = IN.tw_sec; F.bev.bev.timeout_write.tv_usec = IN.tw_usec; F.bev.lock = NULL;
	F.underlying = &U.bev; F.outbuf_cb = OUTCB; F.process_out = vf_filter_out; F.context = (void *)&F;
	U.bev.output = &UOUT; U.bev.input = &UIN; U.bev.wm_write.high = IN.high;
	g_f.len_out = IN.len_out; g_f.len_uout = IN.len_uout; g_f.calls = g_f.bad_limit = g_f.called_when_full = g_f.called_when_disabled = g_f.called_when_empty = g_f.over_high = 0;
	g_f.cb_enabled = 1; g_f.cb_clears = g_f.cb_sets = g_f.called_with_cb_enabled = 0; g_f.wcb = g_f.wcb_after_progress = g_f.ev_add = g_f.ok_calls = 0;
	processed = IN.processed0 ? 1 : 0;
	res = be_filter_process_output(&F, (enum bufferevent_flush_mode)IN.state, &processed);
	/* C18 */
	__CPROVER_assert(g_f.called_when_full == 0, "normal mode: the filter is never called while the underlying output is at/over its high write watermark");
	__CPROVER_assert(g_f.bad_limit == 0, "normal mode: limit == high - len(underlying output) > 0 (or -1 without a mark); flush/finish: -1");
	__CPROVER_assert(IMP(IN.state == BEV_NORMAL && IN.high != 0 && IN.len_uout <= IN.high, g_f.over_high == 0 && g_f.len_uout <= IN.high), "normal mode: a filter that honours its limit never takes the underlying output past the high write watermark");
	__CPROVER_assert(g_f.called_when_disabled == 0 && IMP(IN.state == BEV_NORMAL && (!(IN.enabled & EV_WRITE) || IN.len_out == 0 || (IN.high != 0 && IN.len_uout >= IN.high)), g_f.calls == 0 && res == BEV_OK), "normal mode: nothing is urged on the filter when writing is disabled, there is no output, or the underlying buffer is full");
	__CPROVER_assert(IMP(IN.state != BEV_NORMAL, g_f.calls >= 1), "flush/finish: the filter is called no matter what");
	/* bookkeeping */
	__CPROVER_assert(g_f.called_with_cb_enabled == 0 && g_f.cb_enabled == 1 && g_f.cb_clears == g_f.cb_sets, "the output-buffer callback is disabled while the filter runs and re-enabled afterwards");
	__CPROVER_assert(g_f.wcb == g_f.wcb_after_progress && IMP(g_f.ok_calls == 0, g_f.wcb == 0), "the write callback is triggered only after the filter made progress");
	__CPROVER_assert(processed == ((IN.processed0 || g_f.ok_calls > 0) ? 1 : 0), "*processed_out is set iff the filter reported progress (never cleared)");
	{ int early = IN.state == BEV_NORMAL && (!(IN.enabled & EV_WRITE) || IN.len_out == 0 || (IN.high != 0 && IN.len_uout >= IN.high));
	  /* note: *processed_out is shared with be_filter_process_input in be_filter_flush, so "progress" may be input-side progress */
	  __CPROVER_assert(g_f.ev_add == ((!early && processed && (IN.tw_sec || IN.tw_usec)) ? 1 : 0), "the write timeout is restarted iff the filter was run, progress was reported and a write timeout is set"); }
#ifdef VF_CANARY
	__CPROVER_assert(g_f.calls < VF_MAXCALLS, "canary: must fail (the filter can be called VF_MAXCALLS times)");
#endif
}
