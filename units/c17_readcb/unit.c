/* C17/C18/C19/C20/C22/C08 — bufferevent_readcb (real bufferevent_sock.c), the read hop of a socket bufferevent.
 *  C18  never reads when high != 0 and the input already holds >= high bytes (suspends for BEV_SUSPEND_WM instead);
 *       asks for at most high - len bytes, so the input never exceeds a non-zero high mark; read callback only at >= low.
 *  C22  asks for at most bufferevent_get_read_max_(); consumed bytes are charged to the buckets exactly once.
 *  C17  n > 0: n bytes appended, nothing reported; 0: EOF reported ONCE (READING|EOF) and reading disabled BEFORE the report;
 *       EAGAIN/EINTR: nothing reported, nothing changed; ECONNREFUSED: remembered for the connect logic, nothing reported;
 *       other error: ERROR reported once with that errno, reading disabled.
 *  C20  event == EV_TIMEOUT exactly: READING|TIMEOUT reported, reading disabled, nothing read.
 *  C08/C10: lock and reference taken for the call are given back; the input buffer is frozen again.
 * Inputs: VF_KF_EXCLUDE leaves out "zero budget although not suspended" (candidate defect, see c17_readcb_zero_budget);
 * VF_KF_ONLY restricts to it. */
#include "c17_sock_unit.h"
size_t O_len, O_high, O_low; unsigned short O_rs; short O_enabled; int O_refcnt;
#define T_(ev) ((ev) == EV_TIMEOUT)
#define OVER_ (O_high != 0 && O_len >= O_high)
#define RMAX_ (g_s.grp_susp_r ? (ev_ssize_t)0 : g_s.rmax)
#define ROOM_ (O_high - O_len)
#define WANT_ ((O_high != 0 && ROOM_ <= (size_t)RMAX_) ? (ev_ssize_t)ROOM_ : RMAX_)
#define SUSP_ (O_rs != 0 || g_s.grp_susp_r)
#define DOREAD_(ev) (!T_(ev) && !OVER_ && !SUSP_)
#define ZEROBUDGET_(ev) (DOREAD_(ev) && WANT_ == 0)
#define GOT_(ev) (DOREAD_(ev) && WANT_ != 0 && g_s.io_kind > 0)
#define EOF_(ev) (DOREAD_(ev) && WANT_ != 0 && g_s.io_kind == 0)
#define ERR_(ev) (DOREAD_(ev) && WANT_ != 0 && g_s.io_kind < 0)
#define FATAL_(ev) (ERR_(ev) && !RETRIABLE(g_s.io_errno) && g_s.io_errno != ECONNREFUSED)

VF_CONTRACT_V(readcb_c, evutil_socket_t fd, short event, void *arg)
__CPROVER_requires(arg == (void *)BEV && BEVP.refcnt >= 1 && BEVP.refcnt < (1 << 24) && g_lock_depth[1] == 0)
__CPROVER_requires(g_s.in_end_frozen == 1 && g_s.nrep == 0 && g_s.nev == 0 && g_s.read_calls == 0 && g_s.disable_calls == 0 && g_s.suspend_r_calls == 0 && g_s.dec_r_calls == 0 && g_s.dec_r_bytes == 0 && g_s.get_rmax_calls == 0 && g_s.rcb.n == 0 && g_s.freed == 0)
__CPROVER_assigns(BEV->enabled, BEVP.read_suspended, BEVP.connection_refused, BEVP.refcnt, SOCK_GHOST_FRAME)
/* 1 whether and how much is read */
__CPROVER_ensures(g_s.read_calls == B(DOREAD_(event)) && IMP(DOREAD_(event), g_s.read_howmuch == (int)WANT_ && g_s.read_fd == fd && g_s.read_unfrozen))
/* 2 C18: at/over the high mark: no read, suspended for the watermark reason, read event removed, nothing reported */
__CPROVER_ensures(IMP(!T_(event) && OVER_, (BEVP.read_suspended & BEV_SUSPEND_WM) && g_s.suspend_r_calls == 1 && g_s.nrep == 0 && g_s.get_rmax_calls == 0 && IMP(O_rs == 0, g_s.ev[0].ins == 0)))
/* 3 data: appended, stays within the high mark, charged once, read callback per low mark, no event */
__CPROVER_ensures(IMP(GOT_(event), g_s.read_ret >= 1 && g_s.len_in == O_len + (size_t)g_s.read_ret && IMP(O_high != 0, g_s.len_in <= O_high)))
__CPROVER_ensures(IMP(GOT_(event), g_s.dec_r_calls == 1 && g_s.dec_r_bytes == g_s.read_ret && g_s.nev == 0 && g_s.rcb.n == B(g_s.len_in >= O_low) && IMP(g_s.rcb.n == 1, g_s.rcb.options == 0) && BEV->enabled == O_enabled && g_s.disable_calls == 0))
/* 5 EOF: reported once, after reading was disabled */
__CPROVER_ensures(IMP(EOF_(event), g_s.nev == 1 && g_s.nrep == 1 && g_s.ev0.what == (BEV_EVENT_READING|BEV_EVENT_EOF) && g_s.ev0.options == 0 && !(g_s.ev0.enabled & EV_READ) && g_s.ev0.ev_ins0 == 0 && g_s.dec_r_calls == 0 && g_s.len_in == O_len))
/* 6 retriable: nothing happens */
__CPROVER_ensures(IMP(ERR_(event) && RETRIABLE(g_s.io_errno), g_s.nrep == 0 && BEV->enabled == O_enabled && g_s.disable_calls == 0 && g_s.dec_r_calls == 0 && BEVP.connection_refused == (IN.refused & 1)))
/* 7 refused: remembered, nothing reported */
__CPROVER_ensures(IMP(ERR_(event) && g_s.io_errno == ECONNREFUSED, g_s.nrep == 0 && BEVP.connection_refused == 1 && BEV->enabled == O_enabled))
/* 8 other errors: ERROR reported once with the error code, reading disabled before */
__CPROVER_ensures(IMP(FATAL_(event), g_s.nev == 1 && g_s.nrep == 1 && g_s.ev0.what == (BEV_EVENT_READING|BEV_EVENT_ERROR) && g_s.ev0.err == g_s.io_errno && !(g_s.ev0.enabled & EV_READ) && g_s.ev0.ev_ins0 == 0 && g_s.dec_r_calls == 0))
/* 9 C20: pure timeout */
__CPROVER_ensures(IMP(T_(event), g_s.nev == 1 && g_s.nrep == 1 && g_s.ev0.what == (BEV_EVENT_READING|BEV_EVENT_TIMEOUT) && !(g_s.ev0.enabled & EV_READ) && g_s.ev0.ev_ins0 == 0 && g_s.read_calls == 0 && g_s.get_rmax_calls == 0))
/* 10 an event is reported in exactly these cases, and whenever one is reported reading ends up disabled */
__CPROVER_ensures(IMP(!ZEROBUDGET_(event), g_s.nev == B(T_(event) || EOF_(event) || FATAL_(event))) && g_s.nev <= 1)
__CPROVER_ensures(IMP(g_s.nev == 1, BEV->enabled == (short)(O_enabled & ~EV_READ) && g_s.ev[0].ins == 0 && g_s.disable_calls == 1) && IMP(g_s.nev == 0 && !ZEROBUDGET_(event), BEV->enabled == O_enabled))
/* 12 suspended (by anything, incl. the group found suspended by get_read_max_): nothing read, nothing reported */
__CPROVER_ensures(IMP(!T_(event) && !OVER_ && SUSP_, g_s.read_calls == 0 && g_s.nrep == 0))
/* 13 C08/C10 */
__CPROVER_ensures(BEVP.refcnt == O_refcnt && g_s.freed == 0 && g_lock_depth[1] == 0 && g_s.in_end_frozen == 1)
;
void harness(void)
{
	VF_LOAD_IN();
	vf_sock_build();
	__CPROVER_assume(IN.refcnt >= 1 && IN.refcnt < (1 << 24));
	__CPROVER_assume(IN.high_r <= (size_t)EV_SSIZE_MAX);      /* an evbuffer cannot hold more; above that `howmuch = high - len` goes negative */
	__CPROVER_assume(IN.rmax >= 0 && IN.rmax <= INT_MAX);     /* c22_rlim_max: 0 <= result <= max_single_read; evbuffer_set_max_read refuses > INT_MAX (but see the report: set_max_single_read stores it anyway) */
	__CPROVER_assume(IN.io_kind >= -1 && IN.io_kind <= 1 && IN.io_n >= 1 && IN.io_errno > 0);
	__CPROVER_assume(IN.len_in <= ((size_t)1 << 62));         /* buffer lengths are object sizes */
	O_len = IN.len_in; O_high = IN.high_r; O_low = IN.low_r; O_rs = IN.rs; O_enabled = IN.enabled; O_refcnt = IN.refcnt;
#if defined(VF_KF_ONLY)
	__CPROVER_assume(ZEROBUDGET_(IN.event));
#elif defined(VF_KF_EXCLUDE)
	__CPROVER_assume(!ZEROBUDGET_(IN.event));
#endif
	VF_CALL_V(readcb_c, bufferevent_readcb, IN.fd, IN.event, (void *)BEV);
	/* C17: EOF is reported only when the peer has closed (the read returned 0 for a non-empty request) */
	if (g_s.nev == 1 && (g_s.ev0.what & BEV_EVENT_EOF)) __CPROVER_assert(g_s.io_kind == 0 && g_s.read_howmuch != 0, "EOF is reported only when the peer closed the stream");
	__CPROVER_assert(BEVP.write_suspended == IN.ws && BEVP.connecting == (IN.connecting & 1) && g_s.len_out == IN.len_out && g_s.ev[1].n_add == 0 && g_s.ev[1].n_del == 0 && g_s.wcb.n == 0, "frame: the write side is untouched");
	__CPROVER_assert((BEVP.read_suspended & ~(BEV_SUSPEND_WM|BEV_SUSPEND_BW_GROUP)) == (IN.rs & ~(BEV_SUSPEND_WM|BEV_SUSPEND_BW_GROUP)), "only the watermark / group reasons can be added");
#ifdef VF_CANARY
	__CPROVER_assert(g_s.nev == 0, "canary: must fail (EOF/errors/timeouts are reported)");
#endif
}
