/* C28 — evhttp_uri_parse_with_flags on "//unix:" + tail (unix-socket form reachable); harness in contracts/c28_parse_unit.h with -DVF_TMPL_UNIX */
#include "c28_parse_unit.h"
