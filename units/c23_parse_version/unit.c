/* C23/C24 — evhttp_parse_http_version (real http.c), used for the request line and the status
 * line.  RFC 9112 2.3: HTTP-version = "HTTP/" DIGIT "." DIGIT, case-sensitive, nothing after it.
 * libevent implements major versions 0 and 1 (anything else is refused and answered with an
 * error by the caller).  For EVERY string:
 *   accepted (0)  <=>  the string is exactly "HTTP/" d1 "." d2 with d1 in {0,1}, d2 in 0..9;
 *   then req->major = d1, req->minor = d2; when refused (-1) major/minor are untouched.
 * The function is loop-free and (through sscanf "HTTP/%c.%c%c") reads at most the first 9 bytes:
 * the object is 10 bytes, the last one NUL, all other contents symbolic => complete. */
#include "vf.h"
#include "http.c"
struct in { unsigned char s[9]; char major0, minor0; };
struct in IN;
#include "stubs/log.h"
#include "stubs/c23_libc_ref.h"
#include "c23_version_contract.h"

static char BUF[10];
static struct evhttp_request REQ;
void harness(void)
{
	int r, i, ok;
	VF_LOAD_IN();
	for (i = 0; i < 9; i++) BUF[i] = (char)IN.s[i];
	BUF[9] = 0;
	REQ.major = IN.major0; REQ.minor = IN.minor0; REQ.remote_host = NULL;
	r = evhttp_parse_http_version(BUF, &REQ);
	ok = C23_VERSION_OK(BUF);      /* the predicate of contract parse_version_c (contracts/c23_version_contract.h), replaced in c23_parse_request_line */
	__CPROVER_assert(r == (ok ? 0 : -1), "accepted <=> exactly \"HTTP/\" (0|1) \".\" DIGIT");
	__CPROVER_assert(IMP(r == 0, REQ.major == BUF[5] - '0' && REQ.minor == BUF[7] - '0'), "accepted: major/minor are the two digits");
	__CPROVER_assert(IMP(r != 0, REQ.major == IN.major0 && REQ.minor == IN.minor0), "refused: version fields untouched");
#ifdef VF_CANARY
	__CPROVER_assert(r == -1, "canary: must fail (HTTP/1.1 is accepted)");
#endif
}
