/* C35/C36 — dnsname_to_labels vs. reference encoder; harness in contracts/c35_labels_unit.h */
#include "c35_labels_unit.h"
