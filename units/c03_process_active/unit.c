/* C03/C08 — event_process_active (real event.c): the priority loop.
 * Unbounded in the number of priorities: the loop over i carries integers only and is closed by a
 * loop contract (loops.json).  The callee event_process_active_single_queue is replaced by a
 * contract whose REQUIRES are the property's call-site obligations:
 *   - the queue handed over is activequeues[event_running_priority] and is non-empty,
 *   - priorities are visited in strictly ascending order (g_last < running priority),
 *   - nothing is processed after a call that ran a non-internal callback or saw a break (g_stop == 0),
 *   - every queue strictly between the last processed priority and this one was empty when it was
 *     examined (ghost witness index g_w, fixed by the harness: stands for "for all j"),
 *   - the max_dispatch limits are applied exactly from limit_callbacks_after_prio on
 *     (INT_MAX/NULL below it; max_dispatch_callbacks and start + max_dispatch_time from it on),
 *   - the base lock is held (C08).
 * and whose ASSIGNS havoc all 256 queues (user callbacks may activate/cancel anything).
 * The contract of event_process_active_single_queue is enforced in c03_single_queue (bounded). */
#define VF_NLOCKS 1
#include "vf.h"
#include "event.c"
#ifndef NQ
#define NQ 256
#endif
#ifndef VF_TBITS
#define VF_TBITS 40
#endif
struct in { int nq, maxcb, limit, w; long mdt_sec, mdt_usec, now_sec, now_usec; };
struct in IN;
#include "stubs/log.h"
#include "stubs/lock.h"

static struct event_base BASE;
static struct evcallback_list Q[NQ];
struct ghost { int calls, last, stop, ret; } g_s;   /* ghost: #calls of single_queue, last priority processed, "a call returned != 0", last return value */
#define g_calls g_s.calls
#define g_last g_s.last
#define g_stop g_s.stop
#define g_ret g_s.ret
int g_w;                              /* ghost witness queue index */
struct timeval g_now;                 /* ghost clock */

VF_CONTRACT(int, gettime_c, struct event_base *base, struct timeval *tp)
__CPROVER_requires(base == &BASE && tp != NULL)
__CPROVER_assigns(*tp)
__CPROVER_ensures(__CPROVER_return_value == 0 && tp->tv_sec == g_now.tv_sec && tp->tv_usec == g_now.tv_usec)
;
VF_CONTRACT_V(utc_c, struct event_base *base)
__CPROVER_requires(base == &BASE)
__CPROVER_assigns(base->tv_cache)
__CPROVER_ensures(1)
;
#define RP (base->event_running_priority)
#define SUM_US (BASE.max_dispatch_time.tv_usec + g_now.tv_usec)
#define ENDTIME_OK(e) ((e) != NULL && (SUM_US >= 1000000 \
	? ((e)->tv_sec == BASE.max_dispatch_time.tv_sec + g_now.tv_sec + 1 && (e)->tv_usec == SUM_US - 1000000) \
	: ((e)->tv_sec == BASE.max_dispatch_time.tv_sec + g_now.tv_sec && (e)->tv_usec == SUM_US)))
VF_CONTRACT(int, spq_c, struct event_base *base, struct evcallback_list *activeq, int max_to_process, const struct timeval *endtime)
/* 1 */ __CPROVER_requires(base == &BASE && RP >= 0 && RP < base->nactivequeues && activeq == &base->activequeues[RP])
/* 2 */ __CPROVER_requires(activeq->tqh_first != NULL)
/* 3 */ __CPROVER_requires(g_stop == 0)
/* 4 */ __CPROVER_requires(RP > g_last)
/* 5 */ __CPROVER_requires(IMP(g_w > g_last && g_w < RP, base->activequeues[g_w].tqh_first == NULL))
/* 6 */ __CPROVER_requires(IMP(RP < base->limit_callbacks_after_prio, max_to_process == INT_MAX && endtime == NULL))
/* 7 */ __CPROVER_requires(IMP(RP >= base->limit_callbacks_after_prio, max_to_process == base->max_dispatch_callbacks))
/* 8 */ __CPROVER_requires(IMP(RP >= base->limit_callbacks_after_prio, base->max_dispatch_time.tv_sec >= 0 ? ENDTIME_OK(endtime) : endtime == NULL))
/* 9 */ __CPROVER_requires(g_lock_depth[1] == 1)
__CPROVER_assigns(g_s, __CPROVER_object_whole(Q))
__CPROVER_ensures(__CPROVER_return_value >= -1 && __CPROVER_return_value <= max_to_process)
__CPROVER_ensures(g_calls == __CPROVER_old(g_calls) + 1 && g_last == RP && g_stop == (__CPROVER_return_value != 0) && g_ret == __CPROVER_return_value)
;

VF_CONTRACT(int, process_active_c, struct event_base *base)
__CPROVER_requires(base == &BASE && g_calls == 0 && g_last == -1 && g_stop == 0 && g_ret == 0 && g_lock_depth[1] == 1)
__CPROVER_requires(base->nactivequeues >= 1 && base->nactivequeues <= NQ && base->activequeues == &Q[0])
__CPROVER_requires(g_w >= 0 && g_w < base->nactivequeues)
__CPROVER_requires(base->max_dispatch_time.tv_sec >= -1 && base->max_dispatch_time.tv_sec < (1L << VF_TBITS) && base->max_dispatch_time.tv_usec >= 0 && base->max_dispatch_time.tv_usec < 1000000)
__CPROVER_requires(g_now.tv_sec >= 0 && g_now.tv_sec < (1L << VF_TBITS) && g_now.tv_usec >= 0 && g_now.tv_usec < 1000000)
__CPROVER_assigns(g_s, base->event_running_priority, base->tv_cache, __CPROVER_object_whole(Q))
/* 1 */ __CPROVER_ensures(base->event_running_priority == -1)
/* 2: the result is that of the last queue processed (0 when nothing was active) */
__CPROVER_ensures(__CPROVER_return_value == g_ret)
/* 3: a lower priority is reached only when everything before it ran only internal callbacks; when the
 *    walk ended without a stop, every queue after the last one processed was empty when examined */
__CPROVER_ensures(IMP(g_stop == 0 && g_w > g_last, base->activequeues[g_w].tqh_first == NULL))
/* 4 */ __CPROVER_ensures(g_calls >= 0 && g_calls <= base->nactivequeues && g_last < base->nactivequeues)
/* 5 C08 */ __CPROVER_ensures(g_lock_depth[1] == 1)
;

void harness(void)
{
	int r;
	VF_LOAD_IN();
	__CPROVER_assume(IN.nq >= 1 && IN.nq <= NQ && IN.w >= 0 && IN.w < IN.nq);
	/* event_base_new_with_config: max_dispatch_callbacks is INT_MAX or the configured value; a value < 1
	 * is the caller's business — the contract does not depend on it */
	__CPROVER_assume(IN.mdt_sec >= -1 && IN.mdt_sec < (1L << VF_TBITS) && IN.mdt_usec >= 0 && IN.mdt_usec < 1000000);
	__CPROVER_assume(IN.now_sec >= 0 && IN.now_sec < (1L << VF_TBITS) && IN.now_usec >= 0 && IN.now_usec < 1000000);
	VF_INSTALL_LOCKS();
	evthread_id_fn_ = NULL; event_debug_mode_on_ = 0; event_global_current_base_ = NULL;
	g_w = IN.w; g_calls = 0; g_last = -1; g_stop = 0; g_ret = 0;
	g_now.tv_sec = IN.now_sec; g_now.tv_usec = IN.now_usec;
	BASE.nactivequeues = IN.nq; BASE.activequeues = Q;
	BASE.max_dispatch_callbacks = IN.maxcb; BASE.limit_callbacks_after_prio = IN.limit;
	BASE.max_dispatch_time.tv_sec = IN.mdt_sec; BASE.max_dispatch_time.tv_usec = IN.mdt_usec;
	BASE.th_base_lock = VF_LOCK_COOKIE(1);
	g_lock_depth[1] = 1;
	r = VF_CALL(process_active_c, event_process_active, &BASE);
#ifdef VF_CANARY
	__CPROVER_assert(g_calls < 2, "canary: must fail (two queues can be processed when the first ran only internal callbacks)");
#endif
}
