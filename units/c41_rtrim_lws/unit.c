/* C41 — evutil_rtrim_lws_ (real evutil.c): removes exactly the trailing run of SP / HT of a header
 * value.  Definition: let n = strlen(str) and m <= n the largest index with m == 0 or str[m-1] not in
 * {SP, HT}; afterwards str[0..m) is unchanged, str[m..n] are NUL (so strlen == m), and nothing outside
 * [str, str+n] is written.  The string starts at the first byte of its object (a read before the
 * start is an out-of-bounds failure) and guard bytes follow it (must stay unchanged).  NULL is a no-op.
 * Bounded: strings of <= VF_N-2 characters, all byte contents. */
#include "vf.h"
#include "evutil.c"
#include "stubs/log.h"
#ifndef VF_N
#define VF_N 10
#endif
struct in { unsigned char a[VF_N]; int n1; int isnull; };
struct in IN;
#include "c41_str.h"

void harness(void)
{
	int i, m;
	VF_LOAD_IN();
	if (IN.isnull) {
		evutil_rtrim_lws_(NULL);
		return;
	}
	__CPROVER_assume(0 <= IN.n1 && IN.n1 < VF_N - 1);
	for (i = 0; i < VF_N; i++) {
		A[i] = (char)IN.a[i];
		if (i < IN.n1) __CPROVER_assume(A[i] != 0);
	}
	A[IN.n1] = 0;     /* bytes after the NUL are arbitrary guard bytes */
	m = IN.n1;
	for (i = 0; i < VF_N; i++)
		if (m > 0 && (A[m - 1] == ' ' || A[m - 1] == '\t')) m--;
	evutil_rtrim_lws_(A);
	for (i = 0; i < VF_N; i++) {
		if (i < m) __CPROVER_assert(A[i] == (char)IN.a[i], "bytes before the trailing whitespace run are unchanged");
		else if (i <= IN.n1) __CPROVER_assert(A[i] == 0, "the trailing SP/HT run (and the old terminator) is NUL: the value now ends after its last non-blank byte");
		else __CPROVER_assert(A[i] == (char)IN.a[i], "bytes after the old terminator are not written");
	}
	__CPROVER_assert(m == 0 || (A[m - 1] != ' ' && A[m - 1] != '\t' && A[m - 1] != 0), "the trimmed value does not end in SP/HT");
#ifdef VF_CANARY
	__CPROVER_assert(A[1] == (char)IN.a[1], "canary: must fail (\"a \" loses its blank)");
#endif
}
