/* C12/C13/C14/C08 — evbuffer_expand and evbuffer_expand_singlechain (real buffer.c), bookkeeping, on every shape of <= 3 chains.
 * Inline (real): evbuffer_expand_singlechain, evbuffer_chain_insert_new, evbuffer_chain_should_realign, evbuffer_chain_align.
 * Replaced by contracts: evbuffer_chain_new_membuf (c12a_chain_new_membuf), evbuffer_chain_insert (c12a_chain_insert), evbuffer_chain_free, evbuffer_invoke_callbacks_.
 * memcpy/memmove: bounds-checked against the chain windows and logged, no bytes moved. */
#define VF_NLOCKS 2
#include "vf.h"
#include "stubs/c12a_mem.h"
#include "buffer.c"
struct eb_in;
#include "stubs/lock.h"
#include "c12a_shape.h"
struct in { struct eb_in b; size_t datlen; unsigned ch[VF_NCHOICE]; };
struct in IN;
#include "stubs/log.h"
#include "stubs/c12a_mm.h"
#include "c12a_contracts.h"

#define O_total (O_BUF.total_len)
#define RV __CPROVER_return_value
VF_CONTRACT(int, expand_c, struct evbuffer *buf, size_t datlen)
__CPROVER_requires(buf == &BUF)
__CPROVER_requires(g_lock_depth[1] == 0 && g_nnew == 0 && g_allocfail == 0 && g_freed == 0 && g_freed_mask == 0 && g_cb[0] == 0 && m_cp.n == 0)
__CPROVER_assigns(g_lock_depth[1], g_lock_ops, errno, g_new[0], g_new[1], g_al, g_fr, g_cbs, m_cp,
	__CPROVER_object_whole(buf), __CPROVER_object_whole(&CH[0]), __CPROVER_object_whole(&CH[1]), __CPROVER_object_whole(&CH[2]))
/* 1 C08: the buffer lock is released */
__CPROVER_ensures(g_lock_depth[1] == 0)
__CPROVER_ensures(RV == 0 || RV == -1)
/* 3 C12: it fails only when an allocation failed (or the request exceeds what a chain can hold), and then it does fail */
__CPROVER_ensures(IMP(g_allocfail > 0, RV == -1))
__CPROVER_ensures(IMP(RV == -1, g_allocfail > 0 || datlen > EVBUFFER_CHAIN_MAX - EVBUFFER_CHAIN_SIZE - 4096))
/* 5 C14: failure => every field of the buffer and of every chain is unchanged, nothing freed, nothing copied, no chain allocated */
__CPROVER_ensures(IMP(RV == -1, C12A_BUF_SAME(BUF, O_BUF) && C12A_ALLCH_SAME() && m_cp.n == 0))
__CPROVER_ensures(IMP(RV == -1, g_freed == 0 && g_nnew == 0))
/* 7 C12/C13: the byte string does not change: same length, no change recorded for the callbacks, no callback */
__CPROVER_ensures(buf->total_len == O_total && buf->n_add_for_cb == O_BUF.n_add_for_cb && buf->n_del_for_cb == O_BUF.n_del_for_cb && g_cb[0] == 0)
/* 8 nothing else of the buffer changes */
__CPROVER_ensures(buf->lock == O_BUF.lock && buf->freeze_start == O_BUF.freeze_start && buf->freeze_end == O_BUF.freeze_end && buf->refcnt == O_BUF.refcnt && buf->callbacks.lh_first == O_BUF.callbacks.lh_first && buf->deferred_cbs == O_BUF.deferred_cbs && buf->flags == O_BUF.flags && buf->max_read == O_BUF.max_read)
;

void harness(void)
{
	int r, i, k; size_t datlen; int L;
	VF_LOAD_IN();
	c12a_build(&IN.b);
	VF_INSTALL_LOCKS(); C12A_RESET();
	datlen = C12A_Q(IN.datlen);
	L = vf_lwd_index(&C12A_S);
	C12A_SNAPSHOT();
	r = VF_CALL(expand_c, evbuffer_expand, &BUF, datlen);
#ifndef C12A_NOPOST
	if (r == 0) {
		struct evbuffer_chain *r1, *r2;
		__CPROVER_assert(c12a_binv(&BUF), "BInv after expand: links, last, windows, total_len == sum off, last_with_datap canonical");
		/* the promise of expand: datlen contiguous writable bytes directly behind the buffer's last byte, i.e. in the last
		 * chain with data or in the (empty) chain right behind it */
		r1 = *BUF.last_with_datap; r2 = r1 ? r1->next : NULL;
		__CPROVER_assert(r1 != NULL && (CHAIN_SPACE_LEN(r1) >= datlen || (r2 != NULL && CHAIN_SPACE_LEN(r2) >= datlen)), "datlen contiguous free bytes behind the last byte of the buffer");
		__CPROVER_assert(g_nnew <= 1, "at most one chain is allocated");
		/* every byte stays: a chain with data is untouched, or realigned in place, or replaced by a new chain that took over its bytes */
		for (i = 0; i < VF_EB_MAXCH; i++) {
			if ((unsigned)i >= c12a_nch) break;
			if (!(g_freed_mask & (1u << i))) {
				__CPROVER_assert(CH[i].off == O_CH[i].off && CH[i].buffer_len == O_CH[i].buffer_len && CH[i].buffer == O_CH[i].buffer && CH[i].flags == O_CH[i].flags, "a surviving chain keeps its bytes and capacity");
				__CPROVER_assert(IMP(O_CH[i].off && CH[i].misalign != O_CH[i].misalign, CH[i].misalign == 0 && m_cp.n == 1 && m_cp.dst[0] == i && m_cp.src[0] == i && m_cp.doff[0] == 0 && m_cp.soff[0] == (size_t)O_CH[i].misalign && m_cp.len[0] == O_CH[i].off), "data moves inside a chain only by a memmove of exactly its window");
				__CPROVER_assert(IMP(i < L, CH[i].misalign == O_CH[i].misalign && CH[i].refcnt == O_CH[i].refcnt && (CH[i].next == O_CH[i].next || (i == L - 1 && (g_freed_mask & (1u << L)) && g_nnew == 1 && CH[i].next == g_new[0]))), "chains in front of the last chain with data are untouched (but for the link to a replaced successor)");
			} else if (O_CH[i].off) {
				__CPROVER_assert(i == L && g_nnew == 1 && g_new[0]->off == O_CH[i].off && g_new[0]->next == O_CH[i].next && *BUF.last_with_datap == g_new[0], "a chain with data is dropped only when a new chain takes its place");
				__CPROVER_assert(m_cp.n == 1 && m_cp.dst[0] == 6 && m_cp.src[0] == i && m_cp.doff[0] == (size_t)g_new[0]->misalign && m_cp.soff[0] == (size_t)O_CH[i].misalign && m_cp.len[0] == O_CH[i].off, "... and exactly its window was copied to the start of the new chain's window");
			}
		}
		__CPROVER_assert(IMP(m_cp.n > 0, m_cp.n == 1 && m_cp.src[0] != C12A_USERCODE), "at most one copy, chain to chain");
	}
#endif
#ifdef VF_CANARY
	__CPROVER_assert(g_freed == 0, "canary: must fail (some expands replace chains)");
#endif
}
