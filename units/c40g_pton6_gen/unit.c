/* C40 — evutil_inet_pton(AF_INET6, ...) (real evutil.c) on LONG texts from a STRUCTURED GENERATOR (the exhaustive unit
 * c40_pton6 stops at 9 characters, far below a full address):
 *
 *   text  = [ "::" ] g ":" g ":" ... g [ "::" ] [ (":" | "::") d "." d "." d "." d ]
 *
 *   nh      0..9 hex groups g, each ONE arbitrary hex digit (0-9 a-f A-F) taken from IN.h[]  (9: one more than any
 *           address has - must be rejected without an access to words[8])
 *   gap     -1: no "::";  j in 0..nh: the "::" stands in front of group j (0: leading; nh: behind the last group, i.e.
 *           trailing, or between the last group and the dotted quad) - every position, exactly one or no "::"
 *   quad    0/1: the text ends in a dotted quad of four ONE-digit decimal parts taken from IN.q[]
 *   (nh = 0 without quad is generated only as the text "::")
 * i.e. up to 27 characters; word counts from 0 to 11, so that valid texts (8 words without "::"; <= 7 words with "::",
 * RFC 4291 2.2: "::" stands for ONE OR MORE groups of zeros - 7 explicit groups plus "::" is valid, and so is 5 groups +
 * "::" + dotted quad) and invalid ones (too few / too many words, 8 words plus "::") are both generated.
 * Not generated: a trailing single ':' and a "0x" group prefix - known findings of c40_pton6_strict.
 *
 * Statement (properties.jsonl C40: "evutil_inet_pton accepts exactly the strings the platform's strict parser accepts
 * ... and yields the same address"), against the reference parser contracts/c40_inet_ref.h (RFC 4291 2.2, shares no
 * code with evutil.c): the result is 0 or 1; the text is accepted IFF it is in the reference syntax; an accepted text
 * yields exactly the reference's 16 bytes; a rejected text leaves *dst (arbitrary previous content) unchanged; the text
 * is not modified; no read outside the text object (text right-aligned: its NUL is followed only by the three
 * arbitrary bytes explained in contracts/c40_pton_unit.h, one pad byte precedes the longest text). */
#include "vf.h"
#include "evutil.c"
#include "stubs/log.h"
#define VF_NH 9      /* max. number of hex groups generated */
#ifndef VF_L
#define VF_L 30      /* text object: the longest generated text has 9*2-1 + 2 + 8 = 27 characters */
#endif
struct in { unsigned char h[VF_NH]; unsigned char q[4]; int nh; int gap; int quad; unsigned char padl; unsigned char pre[16]; unsigned char padr[3]; };
struct in IN;
#include "stubs/c40_libc_ref.h"
#define VF_REF_MAXLEN VF_L
#include "c40_inet_ref.h"
#define VF_PADR 3
static char G[VF_L];                 /* the generated text, left-aligned */
static char T[1 + VF_L + VF_PADR];   /* T[0]: pad byte; the text right-aligned with its NUL at T[VF_L]; VF_PADR arbitrary bytes */
static unsigned char OUT[16];

void harness(void)
{
	int i, j, n, off, r, rr, same = 1, kept = 1;
	unsigned char refout[16];
	const char *s;
	VF_LOAD_IN();
	/* ---- generator */
	__CPROVER_assume(0 <= IN.nh && IN.nh <= VF_NH);
	__CPROVER_assume(-1 <= IN.gap && IN.gap <= IN.nh);
	__CPROVER_assume(IN.quad == 0 || IN.quad == 1);
	__CPROVER_assume(IN.nh + IN.quad >= 1 || IN.gap == 0);
	for (j = 0; j < VF_NH; j++) __CPROVER_assume(ref_hexval(IN.h[j]) >= 0);
	for (j = 0; j < 4; j++) __CPROVER_assume(IN.q[j] >= '0' && IN.q[j] <= '9');
	for (i = 0; i < VF_L; i++) G[i] = 0;
	n = 0;
	for (j = 0; j < VF_NH; j++) {
		if (j >= IN.nh) break;
		if (IN.gap == j) { G[n++] = ':'; G[n++] = ':'; }
		else if (j > 0) G[n++] = ':';
		G[n++] = (char)IN.h[j];
	}
	if (IN.gap == IN.nh) { G[n++] = ':'; G[n++] = ':'; }
	else if (IN.quad && IN.nh > 0) G[n++] = ':';
	if (IN.quad)
		for (j = 0; j < 4; j++) { if (j > 0) G[n++] = '.'; G[n++] = (char)IN.q[j]; }
	G[n] = 0;
	/* ---- the text object */
	off = VF_L - 1 - n;
	T[0] = 0x55;
	for (i = 0; i < VF_L - 1; i++) T[1 + i] = i >= off ? G[i - off] : (char)IN.padl;
	T[VF_L] = 0;
	for (i = 0; i < VF_PADR; i++) T[VF_L + 1 + i] = (char)IN.padr[i];
	s = T + 1 + off;
	for (i = 0; i < 16; i++) { OUT[i] = IN.pre[i]; refout[i] = 0; }

	rr = ref_pton6(G, refout);
	r = evutil_inet_pton(AF_INET6, s, OUT);

	for (i = 0; i < 16; i++) { if (OUT[i] != refout[i]) same = 0; if (OUT[i] != IN.pre[i]) kept = 0; }
	__CPROVER_assert(r == 0 || r == 1, "evutil_inet_pton returns 0 or 1 for AF_INET6");
	__CPROVER_assert(IMP(rr == 1, r == 1), "every generated text of the address syntax is accepted (\"::\" may stand for a single zero group)");
	__CPROVER_assert(IMP(r == 1, rr == 1), "a generated text outside the address syntax (too few or too many words, \"::\" with 8 words) is rejected");
	__CPROVER_assert(IMP(rr == 1 && r == 1, same), "an accepted text yields exactly the 16 bytes the reference parser yields");
	__CPROVER_assert(IMP(r != 1, kept), "a rejected text leaves *dst unchanged");
	for (i = 0; i < VF_L - 1; i++)
		__CPROVER_assert(T[1 + i] == (i >= off ? G[i - off] : (char)IN.padl), "the text is not modified");
	__CPROVER_assert(T[VF_L] == 0, "the text is not modified");
#ifdef VF_CANARY
	__CPROVER_assert(!(r == 1 && IN.nh == 7 && IN.gap >= 0), "canary: must fail (7 explicit groups plus \"::\" is a valid address and is accepted)");
#endif
}
