/* C03/C08/C45 — event_base_loop (real event.c): the outer loop, unbounded in the number of iterations
 * (loop contract on `while (!done)`, loops.json), with every callee replaced by a contract whose REQUIRES are
 * the property's call-site obligations, tied together by a ghost phase counter:
 *   phase 0  iteration boundary: exit tests, timeout_next (only when allowed to block), make_later_events_active
 *   phase 1  (prepare watchers: unit c45_loop_watchers) evsel->dispatch(base, tv_p)
 *   phase 2  update_time_cache, (check watchers), timeout_process
 *   phase 3  event_process_active (only when something is active) -> phase 0
 * What is decided here:
 *   - "later" callbacks are made active exactly once per iteration, BEFORE the wait (so a callback scheduled
 *     "later" during event_process_active runs in the next iteration and never in the same one), and only when
 *     no exit condition holds;
 *   - the wait uses {0,0} when something is already active or EVLOOP_NONBLOCK, else exactly what timeout_next said;
 *   - the loop leaves exactly for: event_gotterm / event_break seen at an iteration boundary (never from before the
 *     loop was entered), EVLOOP_ONCE after an iteration that ran a callback and left nothing active, EVLOOP_NONBLOCK
 *     after an iteration with nothing active, no events and !EVLOOP_NO_EXIT_ON_EMPTY (return 1), dispatch failure (-1);
 *   - event_continue and n_deferreds_queued are reset at every iteration boundary;
 *   - running_loop is reset and the base lock released on every exit; a re-entrant call returns -1 and touches nothing.
 * The watcher lists are EMPTY in this unit (their walk is unit c45_loop_watchers). */
#define VF_NLOCKS 1
#define VF_NCHOICE 4
#include "vf.h"
#include "event.c"
struct in { int flags, running, brk0, term0, cont0, ndq0, nact0, cnt0, vcnt0, sig_added, sig_n; unsigned ch[VF_NCHOICE]; };
struct in IN;
#include "stubs/log.h"
#include "stubs/lock.h"

static struct event_base BASE;
struct ghost {
	int phase;        /* see above */
	int iter;         /* iterations started (calls of make_later_events_active), saturating at 2 */
	int must_exit;    /* the previous iteration ended in an EVLOOP_ONCE / EVLOOP_NONBLOCK exit condition */
	int tn, tn_null; struct timeval tn_tv;     /* timeout_next consulted in this iteration, and its answer */
	int disp_fail, disp_calls;
} g_s;
int g_flags;        /* copy of the flags argument (constant during the call) */
int g_sigbase;
#define NACT(b) ((b)->event_count_active)
#define HAVE_EVENTS(b) ((b)->virtual_event_count > 0 || (b)->event_count > 0)
#define BOOLF(x) ((x) == 0 || (x) == 1)
static unsigned long vf_thread_id(void) { return 7; }
void evsig_set_base_(struct event_base *base) { __CPROVER_assert(base == &BASE && g_lock_depth[1] == 1, "evsig_set_base_ called with the base lock held"); g_sigbase++; }

/* evsel->dispatch: the backend wait (trusted model: may activate anything, may fail) */
static int vf_dispatch(struct event_base *base, struct timeval *tv)
{
	unsigned c = VF_CHOOSE();
	__CPROVER_assert(base == &BASE && g_lock_depth[1] == 1, "C08: dispatch is entered with the base lock held");
	__CPROVER_assert(g_s.phase == 1, "C03: the backend wait comes after make_later_events_active, once per iteration");
	if (g_s.tn) {
		if (g_s.tn_null) __CPROVER_assert(tv == NULL, "C03: the wait is unbounded exactly when timeout_next said so");
		else __CPROVER_assert(tv != NULL && tv->tv_sec == g_s.tn_tv.tv_sec && tv->tv_usec == g_s.tn_tv.tv_usec, "C03: the wait uses the timeout computed by timeout_next");
	} else
		__CPROVER_assert(tv != NULL && tv->tv_sec == 0 && tv->tv_usec == 0, "C03: with active callbacks or EVLOOP_NONBLOCK the backend is polled without waiting");
	__CPROVER_assert(base->tv_cache.tv_sec == 0, "the time cache is cleared before the wait");
	g_s.phase = 2; g_s.tn = 0; g_s.disp_calls = g_s.disp_calls < 2 ? g_s.disp_calls + 1 : 2;
	if (c & 1u) { g_s.disp_fail = 1; return -1; }
	/* I/O and signals found ready are activated; other threads may have changed the flags */
	BASE.event_count_active = (int)((c >> 1) & 0xffff);
	BASE.event_break = (c >> 17) & 1; BASE.event_gotterm = (c >> 18) & 1;
	return 0;
}
void vf_prep(struct evwatch *w, const struct evwatch_prepare_cb_info *i, void *a) { (void)w; (void)i; (void)a; __CPROVER_assert(0, "no prepare watcher registered in this unit"); }
void vf_chk(struct evwatch *w, const struct evwatch_check_cb_info *i, void *a) { (void)w; (void)i; (void)a; __CPROVER_assert(0, "no check watcher registered in this unit"); }
static const struct eventop VF_EVSEL = { "vf", NULL, NULL, NULL, vf_dispatch, NULL, 0, 0, 0 };

#define AT_BOUNDARY(base) (base == &BASE && g_lock_depth[1] == 1 && g_s.phase == 0 && g_s.must_exit == 0 && \
	base->event_gotterm == 0 && base->event_break == 0 && base->event_continue == 0 && base->n_deferreds_queued == 0)
VF_CONTRACT(int, timeout_next_c, struct event_base *base, struct timeval **tv_p)
/* call-site obligations: consulted at an iteration boundary with no exit condition pending, and only when the
 * loop is allowed to block */
__CPROVER_requires(AT_BOUNDARY(base) && tv_p != NULL && *tv_p != NULL)
__CPROVER_requires(NACT(base) == 0 && !(g_flags & EVLOOP_NONBLOCK))
__CPROVER_requires(g_s.tn == 0)
__CPROVER_assigns(*tv_p, **tv_p, g_s.tn, g_s.tn_null, g_s.tn_tv)
__CPROVER_ensures(__CPROVER_return_value == 0 || __CPROVER_return_value == -1)
__CPROVER_ensures(g_s.tn == 1 && (g_s.tn_null == 0 || g_s.tn_null == 1))
__CPROVER_ensures(g_s.tn_null ? *tv_p == NULL : (__CPROVER_pointer_equals(*tv_p, __CPROVER_old(*tv_p)) && (*tv_p)->tv_sec == g_s.tn_tv.tv_sec && (*tv_p)->tv_usec == g_s.tn_tv.tv_usec))
;
VF_CONTRACT_V(make_later_c, struct event_base *base)
__CPROVER_requires(AT_BOUNDARY(base))
/* the loop does not go on when there is nothing to wait for (unless asked to) */
__CPROVER_requires((g_flags & EVLOOP_NO_EXIT_ON_EMPTY) || HAVE_EVENTS(base) || NACT(base) != 0)
/* timeout_next was consulted iff the loop may block */
__CPROVER_requires(IFF(g_s.tn != 0, NACT(base) == 0 && !(g_flags & EVLOOP_NONBLOCK)))
__CPROVER_assigns(g_s.phase, g_s.iter, base->n_deferreds_queued)
__CPROVER_ensures(g_s.phase == 1 && g_s.iter == (__CPROVER_old(g_s.iter) < 2 ? __CPROVER_old(g_s.iter) + 1 : 2))
__CPROVER_ensures(base->n_deferreds_queued >= 0 && base->n_deferreds_queued <= NACT(base))
;
VF_CONTRACT_V(utc_c, struct event_base *base)
__CPROVER_requires(base == &BASE && g_lock_depth[1] == 1 && g_s.phase == 2)
__CPROVER_assigns(base->tv_cache)
__CPROVER_ensures(1)
;
VF_CONTRACT_V(timeout_process_c, struct event_base *base)
__CPROVER_requires(base == &BASE && g_lock_depth[1] == 1 && g_s.phase == 2 && g_s.disp_fail == 0)
__CPROVER_assigns(g_s.phase, g_s.must_exit, base->event_count_active, base->event_count)
__CPROVER_ensures(NACT(base) >= __CPROVER_old(NACT(base)) && base->event_count >= 0)
/* nothing active: the iteration ends here, and EVLOOP_NONBLOCK ends the loop */
__CPROVER_ensures(g_s.phase == (NACT(base) != 0 ? 3 : 0))
__CPROVER_ensures(g_s.must_exit == ((NACT(base) == 0 && (g_flags & EVLOOP_NONBLOCK)) ? 1 : 0))
;
VF_CONTRACT(int, process_active_c, struct event_base *base)
__CPROVER_requires(base == &BASE && g_lock_depth[1] == 1 && g_s.phase == 3 && g_s.must_exit == 0)
__CPROVER_requires(NACT(base) != 0)                     /* call-site obligation: only when something is active */
__CPROVER_assigns(g_s.phase, g_s.must_exit, base->event_count_active, base->event_count, base->virtual_event_count,
	base->event_break, base->event_gotterm, base->event_continue, base->n_deferreds_queued)
__CPROVER_ensures(__CPROVER_return_value >= -1)
__CPROVER_ensures(NACT(base) >= 0 && base->event_count >= 0 && base->virtual_event_count >= 0 && base->n_deferreds_queued >= 0)
__CPROVER_ensures(BOOLF(base->event_break) && BOOLF(base->event_gotterm) && BOOLF(base->event_continue))
__CPROVER_ensures(g_s.phase == 0)
/* EVLOOP_ONCE: leave after an iteration that ran a callback (or saw a break) and left nothing active */
__CPROVER_ensures(g_s.must_exit == (((g_flags & EVLOOP_ONCE) && NACT(base) == 0 && __CPROVER_return_value != 0) ? 1 : 0))
;

int O_running;      /* pre-state snapshot */
VF_CONTRACT(int, loop_c, struct event_base *base, int flags)
__CPROVER_requires(base == &BASE && flags == g_flags && g_lock_depth[1] == 0)
__CPROVER_requires(g_s.phase == 0 && g_s.iter == 0 && g_s.must_exit == 0 && g_s.tn == 0 && g_s.disp_fail == 0 && g_s.disp_calls == 0 && g_sigbase == 0)
__CPROVER_requires(base->watchers[EVWATCH_PREPARE].tqh_first == NULL && base->watchers[EVWATCH_CHECK].tqh_first == NULL)
__CPROVER_requires(NACT(base) >= 0 && base->event_count >= 0 && base->virtual_event_count >= 0)
__CPROVER_assigns(g_lock_depth[1], g_lock_ops, g_s, g_sigbase, vf_nchoice_, base->running_loop, base->tv_cache, base->th_owner_id, base->event_gotterm, base->event_break,
	base->event_continue, base->n_deferreds_queued, base->event_count_active, base->event_count, base->virtual_event_count)
/* 1 C08 */ __CPROVER_ensures(g_lock_depth[1] == 0)
/* 2 re-entrant invocation: -1 and nothing happened */
__CPROVER_ensures(IMP(O_running, __CPROVER_return_value == -1 && base->running_loop == O_running && g_s.iter == 0 && g_s.disp_calls == 0 && g_sigbase == 0 &&
	base->event_break == (IN.brk0 != 0) && base->event_gotterm == (IN.term0 != 0)))
/* 3 */ __CPROVER_ensures(IMP(!O_running, base->running_loop == 0 && base->tv_cache.tv_sec == 0 && base->th_owner_id == 7))
/* 4 */ __CPROVER_ensures(__CPROVER_return_value == 0 || __CPROVER_return_value == 1 || __CPROVER_return_value == -1)
/* 5 C03: a normal return happens at an iteration boundary, after at least one iteration was started (a break/exit
 *   requested before the loop was entered does not count), and only for a documented reason */
__CPROVER_ensures(IMP(__CPROVER_return_value == 0, g_s.phase == 0 && (base->event_gotterm || base->event_break || g_s.must_exit)))
/* 6 */ __CPROVER_ensures(IMP(__CPROVER_return_value == 0, g_s.iter >= 1 && g_s.disp_calls >= 1))
/* 7 C03: return 1 exactly for "no events" without EVLOOP_NO_EXIT_ON_EMPTY */
__CPROVER_ensures(IMP(__CPROVER_return_value == 1, g_s.phase == 0 && !(flags & EVLOOP_NO_EXIT_ON_EMPTY) && !HAVE_EVENTS(base) && NACT(base) == 0 && !base->event_gotterm && !base->event_break))
/* 8 */ __CPROVER_ensures(IMP(!O_running && __CPROVER_return_value == -1, g_s.disp_fail == 1 && g_s.phase == 2))
/* 9 the signal backend is pointed at this base iff it has signal events */
__CPROVER_ensures(IMP(!O_running, g_sigbase == ((IN.sig_added && IN.sig_n) ? 1 : 0)))
;

void harness(void)
{
	int r;
	VF_LOAD_IN();
	VF_INSTALL_LOCKS();
	evthread_id_fn_ = vf_thread_id; event_debug_mode_on_ = 0; event_debug_map_lock_ = NULL; event_debug_mode_too_late = 0; event_global_current_base_ = NULL;
	__CPROVER_assume(IN.nact0 >= 0 && IN.cnt0 >= 0 && IN.vcnt0 >= 0 && IN.ndq0 >= 0);
	g_s.phase = 0; g_s.iter = 0; g_s.must_exit = 0; g_s.tn = 0; g_s.tn_null = 0; g_s.disp_fail = 0; g_s.disp_calls = 0; g_sigbase = 0;
	g_flags = IN.flags;
	BASE.evsel = &VF_EVSEL;
	BASE.th_base_lock = VF_LOCK_COOKIE(1);
	BASE.running_loop = IN.running != 0; O_running = BASE.running_loop;
	BASE.event_break = IN.brk0 != 0; BASE.event_gotterm = IN.term0 != 0; BASE.event_continue = IN.cont0 != 0;
	BASE.n_deferreds_queued = IN.ndq0; BASE.event_count_active = IN.nact0; BASE.event_count = IN.cnt0; BASE.virtual_event_count = IN.vcnt0;
	BASE.sig.ev_signal_added = IN.sig_added != 0; BASE.sig.ev_n_signals_added = IN.sig_n != 0;
	TAILQ_INIT(&BASE.watchers[EVWATCH_PREPARE]); TAILQ_INIT(&BASE.watchers[EVWATCH_CHECK]);
	r = VF_CALL(loop_c, event_base_loop, &BASE, IN.flags);
#ifdef VF_CANARY
	__CPROVER_assert(r != 1, "canary: must fail (the loop returns 1 when there are no events)");
#endif
}
