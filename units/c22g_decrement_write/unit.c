/* C22/C08 — public bufferevent_decrement_write_limit (real bufferevent_ratelim.c); see contracts/c22g_decrement_unit.h */
#define C22G_WRITE 1
#include "c22g_decrement_unit.h"
