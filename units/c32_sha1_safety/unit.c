/* C32 — builtin_SHA1 (real sha1.c) memory safety over message LENGTHS: no read outside the
 * message (an object of exactly len bytes, right-aligned), no write outside the 20-byte digest
 * and the local context, no out-of-range block index, the padding loop of SHA1Final terminates
 * (unwinding assertions).  Lengths are enumerated as constants (see the harness):
 *   quick     0, 1, 55, 56, 60, 63, 64, 65
 *   thorough  0..4, 54..66, 119, 120, 127, 128
 * SHA-1 has no data-dependent index or branch, so the content (fixed pattern with one arbitrary
 * byte) does not influence any of these obligations. */
#define VF_SHA_SAFETY_ONLY 1
#define VF_SHA_ONEBYTE 1
#define VF_SHA_MAX 128
#ifdef VF_SHA_FULL
#define VF_SHA_LENGTHS(L) ((L) <= 4 || ((L) >= 54 && (L) <= 66) || (L) == 119 || (L) == 120 || (L) == 127 || (L) == 128)
#else
#define VF_SHA_LENGTHS(L) ((L) == 0 || (L) == 1 || (L) == 55 || (L) == 56 || (L) == 60 || (L) == 63 || (L) == 64 || (L) == 65)
#endif
#include "c31_sha1_harness.h"
