/* C26 — evhttp_make_request (real http.c): the client API through which method and request-target
 * enter a request; evhttp_make_header_request later prints "<method> <uri> HTTP/x.y\r\n" with this
 * uri as the %s (unit c26_make_header_request: unmodified).
 *   the request becomes a REQUEST of the given type whose uri is a COPY of the argument (a previous
 *   uri is released); the version defaults to 1.1 when unset; it is queued at the tail of the
 *   connection's request queue (and removed again if connecting fails); it is dispatched at once
 *   iff the connection is connected, nothing is ahead of it and no retry is pending;
 *   allocation failure: -1, request released, not queued;
 *   "target-no-ws": an accepted request-target contains no CR, LF or SP (RFC 9112 3.2) — the uri
 *   argument cannot add a header field or a second message.
 * Target of at most VF_N bytes, all contents. */
#ifndef VF_N
#define VF_N 6
#endif
#define VF_STRMAX VF_N
#define VF_HEAPSTR (VF_N + 1)
#include "vf.h"
#include "http.c"
struct in { unsigned char u[VF_N]; unsigned len; unsigned type; char major, minor; int had_uri, have_other, retry_cnt, state, connect_res; unsigned ch[VF_NCHOICE]; };
struct in IN;
#include "stubs/log.h"
#include "stubs/c23_libc_ref.h"
#include "stubs/c23_mm.h"
#include "c23_ref.h"

struct vf_mr_ghost { int connect_calls, dispatch_calls, freeauto_calls; } g_mr;
VF_CONTRACT(int, connect_c, struct evhttp_connection *evcon)
__CPROVER_requires(evcon != NULL)
__CPROVER_assigns(g_mr)
__CPROVER_ensures(g_mr.connect_calls == __CPROVER_old(g_mr.connect_calls) + 1 && g_mr.dispatch_calls == __CPROVER_old(g_mr.dispatch_calls) && g_mr.freeauto_calls == __CPROVER_old(g_mr.freeauto_calls))
__CPROVER_ensures(__CPROVER_return_value == IN.connect_res)
;
VF_CONTRACT_V(dispatch_c, struct evhttp_connection *evcon)
__CPROVER_requires(evcon != NULL)
__CPROVER_assigns(g_mr)
__CPROVER_ensures(g_mr.dispatch_calls == __CPROVER_old(g_mr.dispatch_calls) + 1 && g_mr.connect_calls == __CPROVER_old(g_mr.connect_calls) && g_mr.freeauto_calls == __CPROVER_old(g_mr.freeauto_calls))
;
VF_CONTRACT_V(free_auto2_c, struct evhttp_request *req)
__CPROVER_requires(req != NULL)
__CPROVER_assigns(g_mr)
__CPROVER_ensures(g_mr.freeauto_calls == __CPROVER_old(g_mr.freeauto_calls) + 1 && g_mr.connect_calls == __CPROVER_old(g_mr.connect_calls) && g_mr.dispatch_calls == __CPROVER_old(g_mr.dispatch_calls))
;
static char UB[VF_N + 1];
static struct evhttp_connection EVCON; static struct evhttp_request REQ, OTHERREQ;
#define CONNECTED (IN.state != EVCON_DISCONNECTED && IN.state != EVCON_CONNECTING)
#define NOMEM ((IN.ch[0] & 1u) != 0)

VF_CONTRACT(int, make_request_c, struct evhttp_connection *evcon, struct evhttp_request *req, enum evhttp_cmd_type type, const char *uri)
__CPROVER_requires(evcon == &EVCON && req == &REQ && __CPROVER_rw_ok(evcon, sizeof(*evcon)) && __CPROVER_rw_ok(req, sizeof(*req)) && uri == &UB[VF_N - IN.len])
__CPROVER_requires(req->evcon == NULL && (req->flags & EVHTTP_REQ_OWN_CONNECTION) == 0)
__CPROVER_requires(g_mr.connect_calls == 0 && g_mr.dispatch_calls == 0 && g_mr.freeauto_calls == 0 && vf_nchoice_ == 0)
__CPROVER_assigns(req->kind, req->type, req->uri, req->major, req->minor, req->evcon, req->next, EVCON.requests, OTHERREQ.next, g_mr, g_mm_live, g_mm_allocs, g_mm_frees, vf_nchoice_, errno)
__CPROVER_frees(req->uri)
__CPROVER_ensures(req->kind == EVHTTP_REQUEST && req->type == type)
__CPROVER_ensures(IMP(NOMEM, __CPROVER_return_value == -1 && g_mr.freeauto_calls == 1 && g_mr.connect_calls == 0 && g_mr.dispatch_calls == 0))
__CPROVER_ensures(IMP(!NOMEM, req->uri != NULL && req->uri != uri && req->evcon == evcon && g_mr.freeauto_calls == 0))
__CPROVER_ensures(IMP(!NOMEM, (IN.major == 0 && IN.minor == 0) ? (req->major == 1 && req->minor == 1) : (req->major == IN.major && req->minor == IN.minor)))
/* queueing / dispatch */
__CPROVER_ensures(IMP(!NOMEM && IN.retry_cnt != 0, __CPROVER_return_value == 0 && g_mr.connect_calls == 0 && g_mr.dispatch_calls == 0))
__CPROVER_ensures(IMP(!NOMEM && IN.retry_cnt == 0 && !CONNECTED, g_mr.connect_calls == 1 && g_mr.dispatch_calls == 0 && __CPROVER_return_value == IN.connect_res))
__CPROVER_ensures(IMP(!NOMEM && IN.retry_cnt == 0 && CONNECTED, __CPROVER_return_value == 0 && g_mr.connect_calls == 0 && g_mr.dispatch_calls == (IN.have_other ? 0 : 1)))
;

void harness(void)
{
	unsigned i; int r; char *uri, *old = NULL; struct evhttp_request *last;
	VF_LOAD_IN(); VF_MM_RESET(); g_mr.connect_calls = g_mr.dispatch_calls = g_mr.freeauto_calls = 0;
	__CPROVER_assume(IN.len <= VF_N);
	for (i = 0; i < VF_N; i++) { UB[i] = (char)IN.u[i]; if (i >= VF_N - IN.len) __CPROVER_assume(IN.u[i] != 0); }
	UB[VF_N] = 0; uri = &UB[VF_N - IN.len];
	__CPROVER_assume(IN.state >= EVCON_DISCONNECTED && IN.state <= EVCON_WRITING);
	/* known finding C26-request-target-unchecked */
#ifdef VF_KF_EXCLUDE
	__CPROVER_assume(ref_no_crlf(uri, IN.len) && strchr(uri, ' ') == NULL);
#endif
#ifdef VF_KF_ONLY
	__CPROVER_assume(!(ref_no_crlf(uri, IN.len) && strchr(uri, ' ') == NULL));
#endif
	TAILQ_INIT(&EVCON.requests);
	if (IN.have_other) TAILQ_INSERT_TAIL(&EVCON.requests, &OTHERREQ, next);
	EVCON.retry_cnt = IN.retry_cnt; EVCON.state = (enum evhttp_connection_state)IN.state;
	REQ.evcon = NULL; REQ.flags = 0; REQ.major = IN.major; REQ.minor = IN.minor; REQ.uri = NULL; REQ.kind = EVHTTP_RESPONSE;
	if (IN.had_uri) { old = malloc(VF_HEAPSTR); __CPROVER_assume(old != NULL); old[0] = '/'; old[1] = 0; REQ.uri = old; g_mm_live = 1; }

	r = VF_CALL(make_request_c, evhttp_make_request, &EVCON, &REQ, (enum evhttp_cmd_type)IN.type, uri);

	last = TAILQ_LAST(&EVCON.requests, evcon_requestq);
	if (!NOMEM) {
		__CPROVER_assert(ref_streq(REQ.uri, uri), "the stored target is a copy of the uri argument");
		__CPROVER_assert(g_mm_frees == (IN.had_uri ? 1 : 0) && g_mm_live == 1, "a previous target is released exactly once");
		__CPROVER_assert(IMP(r == 0, last == &REQ && TAILQ_FIRST(&EVCON.requests) == (IN.have_other ? &OTHERREQ : &REQ)), "accepted: queued at the tail, behind what was already there");
		__CPROVER_assert(IMP(r != 0, last == (IN.have_other ? &OTHERREQ : NULL)), "connect failure: taken off the queue again");
		__CPROVER_assert(IMP(r == 0, ref_no_crlf(REQ.uri, ref_strlen(REQ.uri)) && strchr(REQ.uri, ' ') == NULL), "target-no-ws: an accepted request-target contains no CR, LF or SP");
	} else {
		__CPROVER_assert(last == (IN.have_other ? &OTHERREQ : NULL), "allocation failure: not queued");
	}
#ifdef VF_CANARY
	__CPROVER_assert(r != 0, "canary: must fail (requests are accepted)");
#endif
}
