/* C13/C08 — evbuffer_deferred_callback (real buffer.c): the deferred run.  Takes the buffer lock, reports
 * the aggregated counters to every enabled non-NODEFER entry exactly once, resets them, then drops the
 * reference taken when the run was scheduled (and the parent bufferevent's) and leaves with the lock released.
 * evbuffer_run_callbacks is replaced by run_cb_c (enforced in c12b_run_callbacks), evbuffer_decref_and_unlock_
 * by decref_c. */
#define VF_NLOCKS 1
#include "vf.h"
#include "buffer.c"
struct eb_in;
#include "stubs/lock.h"
#include "evbuffer_shape.h"
#include "c12b_cb_in.h"
struct in { struct eb_in b; struct cb_in c; unsigned pending; unsigned ch[VF_NCHOICE]; };
struct in IN;
#include "stubs/log.h"
#include "stubs/mm.h"
#include "c12b_cb.h"
#include "c12b_cb_ext.h"

VF_CONTRACT_V(deferred_c, struct event_callback *cb, void *arg)
__CPROVER_requires(arg == &BUF && cb == &BUF.deferred)
__CPROVER_requires(g_lock_depth[1] == 0)                                  /* run from the event loop, which holds no buffer lock */
__CPROVER_requires(g_cb.n == 0 && g_cb.badarg == 0 && g_cb.calls[0] == 0 && g_cb.calls[1] == 0 && g_cb.calls[2] == 0)
__CPROVER_requires(g_dc.decref_calls == 0 && g_dc.bev_decref == 0 && g_dc.bev_incref == 0 && g_dc.bev_badarg == 0 && g_dc.sched_calls == 0)
__CPROVER_requires(O_cb_total == BUF.total_len && O_cb_nadd == BUF.n_add_for_cb && O_cb_ndel == BUF.n_del_for_cb && O_cb_lockdepth == (BUF.lock != NULL ? 1 : 0))
__CPROVER_requires(O_dc_refcnt == BUF.refcnt && BUF.refcnt >= 1 && BUF.refcnt <= 1000)   /* the scheduled run owns a reference (c12b_invoke_callbacks) */
__CPROVER_assigns(BUF.n_add_for_cb, BUF.n_del_for_cb, BUF.callbacks.lh_first, BUF.refcnt, g_lock_depth[1], g_lock_ops,
	__CPROVER_object_whole(ENT), __CPROVER_object_whole(&g_cb), __CPROVER_object_whole(&g_dc))
/* 1 C08 */
__CPROVER_ensures(g_lock_depth[1] == 0)
/* 2 the aggregated changes are reported now: counters reset whatever the list looks like */
__CPROVER_ensures(BUF.n_add_for_cb == 0 && BUF.n_del_for_cb == 0)
/* 3-7 exactly the enabled non-NODEFER entries, once each, with the accumulated counters, with the buffer locked */
__CPROVER_ensures(g_cb.badarg == 0 && g_cb.n == O_cb_nexpect)
__CPROVER_ensures(VF_CB_CALLED_OK(0))
__CPROVER_ensures(VF_CB_CALLED_OK(1))
__CPROVER_ensures(VF_CB_CALLED_OK(2))
__CPROVER_ensures(VF_CB_ONCE(0) && VF_CB_ONCE(1) && VF_CB_ONCE(2))
/* 8 the run's reference is dropped exactly once, after the last user callback; the parent's after that, iff there is a parent */
__CPROVER_ensures(g_dc.decref_calls == 1 && g_dc.decref_n_then == g_cb.n && BUF.refcnt == O_dc_refcnt - 1)
__CPROVER_ensures(g_dc.bev_decref == (BUF.parent != NULL ? 1 : 0) && g_dc.bev_badarg == 0 && g_dc.decref_bevdec_then == 0 && g_dc.bev_incref == 0)
/* 10 it does not re-schedule itself */
__CPROVER_ensures(g_dc.sched_calls == 0)
;

void harness(void)
{
	VF_LOAD_IN();
	vf_build_buf_nochains(&IN.b);
	vf_build_cbs(&IN.c);
	VF_INSTALL_LOCKS(); VF_MM_RESET(); VF_CB_RESET(); VF_DC_RESET();
	__CPROVER_assume(BUF.deferred_cbs);      /* only evbuffer_defer_callbacks installs this function, and it sets deferred_cbs */
	O_cb_lockdepth = BUF.lock ? 1 : 0;
	O_dc_pending = g_dc.pending; O_dc_refcnt = BUF.refcnt;
	vf_cb_model(&IN.c, 1);
	VF_CALL_V(deferred_c, evbuffer_deferred_callback, &BUF.deferred, (void *)&BUF);
	__CPROVER_assert(BUF.total_len == O_cb_total, "the deferred run does not change the buffer length");
#ifdef VF_CANARY
	__CPROVER_assert(g_cb.n == 0, "canary: must fail (enabled ordinary entries are called by the deferred run)");
#endif
}
