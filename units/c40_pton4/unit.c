/* C40 — evutil_inet_pton, AF_INET branch (real evutil.c): every dotted quad of the reference syntax
 * (num.num.num.num, num = 1*DIGIT with decimal value <= 255, leading zeros allowed) is accepted and
 * yields that address in network byte order; rejected text leaves *dst unchanged; no read past the
 * terminating NUL.  sscanf is the ISO C reference body of stubs/c40_libc_ref.h.
 * Strictness (accepted => in the syntax) is a separate unit: c40_pton4_strict. */
#define VF_AF 4
#define VF_STRICT 0
#include "c40_pton_unit.h"
