/* C36 — "search-list expansion tries names in the documented order": search_request_new + search_try_next
 * (+ search_make_new, string_num_dots, search_request_finished, search_state_decref; real evdns.c), plain assert-harness.
 * One lookup is followed from evdns_base_resolve's search_request_new through successive search_try_next calls (each
 * stands for "the previous candidate did not exist") until search_try_next says 1.  Search list of 0..2 domains (text of
 * 0..C36G_DCAP bytes each, any non-NUL content), ndots 0..2, name of 0..C36G_NCAP bytes over {a, .} with d dots, any
 * flags (DNS_QUERY_NO_SEARCH included), base with or without search state.  request_new / request_submit /
 * request_finished are cut off by stub bodies ("replace_calls"): request_new RECORDS the candidate name it is asked
 * for (unit c36g_randcase: that name goes on the wire up to letter case) and may fail.
 * Documented sequence (evdns.c, "ndots controls how many dots it takes ... to try a raw lookup first"; resolv.conf(5)):
 *     d >= ndots :  NAME, NAME.D0, NAME.D1          d < ndots :  NAME.D0, NAME.D1, NAME
 *     (no '.' inserted when NAME ends in '.'); no search list / DNS_QUERY_NO_SEARCH: NAME only;
 *     the empty NAME is never given a suffix (search_make_new refuses it): "" alone when 0 >= ndots, refused otherwise
 * Proved: candidate k (k = 0, 1, 2, ...) IS the k-th name of that sequence, every candidate is submitted exactly once,
 * the previous request is finished exactly once before the next is submitted, search_try_next returns 0 exactly while a
 * candidate is left and 1 when they are exhausted (or request_new failed) — in particular the bare name is never
 * asked twice — and the search state's reference count is balanced.  The caller's name buffer is scrambled after
 * search_request_new: later candidates come from the private copy. */
#ifndef C36G_NCAP
#define C36G_NCAP 4
#endif
#define C36G_DCAP 2
#define C36G_CCAP (C36G_NCAP + 1 + C36G_DCAP)
#define VF_C33_MEMCAP 4
#define VF_C33_MEM_NOSTATS 1
#define VF_NLOCKS 1
#include "vf.h"
#include "stubs/c33_mem.h"
#include "evdns.c"
#if C36G_NCAP > 4 || C36G_DCAP > 4
#error "VF_C33_MEMCAP is 4"
#endif
struct in {
	unsigned name_len; char name[C36G_NCAP]; int ndots, nd, no_state, flags, type_aaaa;
	int dlen[2]; char dtext[2][C36G_DCAP];
	unsigned ch[VF_NCHOICE];
};
struct in IN;
#include "stubs/log.h"
#include "stubs/lock.h"
/* event_mm_*: every block is one object of C36G_CCAP + 1 bytes (constant size, UNIT_GUIDE pitfall 5); the size ASKED for is remembered and the request_new stub checks that the candidate
 * string with its NUL fits it (the NUL is the last byte search_make_new writes, and the string has no NUL inside). */
long g_mm_live, g_mm_allocs; size_t g_mm_last_size; void *g_mm_last;
#define VF_MM_RESET() do { g_mm_live = 0; g_mm_allocs = 0; g_mm_last_size = 0; g_mm_last = NULL; } while (0)
void *event_mm_malloc_(size_t sz)
{
	void *p;
	__CPROVER_assert(sz >= 2 && sz <= C36G_CCAP + 1, "allocation: a candidate name of this unit");
	p = malloc(C36G_CCAP + 1);
	__CPROVER_assume(p != NULL);
	g_mm_live++; g_mm_allocs++; g_mm_last_size = sz; g_mm_last = p;
	return p;
}
void event_mm_free_(void *p) { if (p) g_mm_live--; free(p); }
#include "stubs/c39_evdns_env.h"
size_t strlen(const char *s) { size_t n = 0; while (s[n] != '\0') n++; return n; }
char *strchr(const char *s, int c) { size_t i = 0; for (;; i++) { if (s[i] == (char)c) return (char *)s + i; if (s[i] == '\0') return NULL; } }
char *event_mm_strdup_(const char *str)
{
	int i; char *p;
	if (!str) { errno = EINVAL; return NULL; }
	p = malloc(C36G_NCAP + 1);
	__CPROVER_assume(p != NULL);
	for (i = 0; i <= C36G_NCAP; i++) { p[i] = str[i]; if (!str[i]) break; }
	__CPROVER_assert(i <= C36G_NCAP, "strdup: a name of this unit");
	g_mm_live++; g_mm_allocs++;
	return p;
}

struct c36g_dom { struct search_domain d; char text[C36G_DCAP]; };
static struct c36g_dom DOM[2]; static struct search_state STATE; static struct evdns_base BASE; static struct evdns_request HANDLE;
static struct request REQS[4], *HEADS[1];
static char NAME[C36G_NCAP + 1], O_NAME[C36G_NCAP + 1];

/* ---- same-TU callees cut off ("replace_calls") */
static char g_cand[4][C36G_CCAP + 1]; static int g_ncand, g_failed, g_nsub, g_nfin, O_type, O_flags;
static int g_step;   /* set by the harness: 0 = search_request_new, k = k-th search_try_next.  Candidate k is created in step k (asserted); indexing the
                      * records by this CONSTANT instead of the path-dependent counter g_ncand keeps the formula small */
struct request *c36g_request_new_stub(struct evdns_base *base, struct evdns_request *handle, int type, const char *name, int flags)
{
	int i; struct request *req;
	__CPROVER_assert(base == &BASE && type == O_type && flags == O_flags, "request_new: this base, the lookup's type and flags");
	__CPROVER_assert(handle == (g_ncand == 0 ? &HANDLE : NULL), "request_new: the first request is bound to the handle, later ones by search_try_next itself");
	__CPROVER_assert(g_ncand == g_step && g_step < 4, "request_new: one candidate per step (candidate k is created by the k-th search_try_next), at most 3 + 1");
	if (VF_CHOOSE() & 1u) { g_failed = 1; return NULL; }
	for (i = 0; i <= C36G_CCAP; i++) { g_cand[g_step][i] = name[i]; if (!name[i]) break; }
	__CPROVER_assert(i <= C36G_CCAP, "request_new: a candidate is at most NAME . DOMAIN long");
	__CPROVER_assert(IMP(name == (const char *)g_mm_last, (size_t)i + 1 <= g_mm_last_size), "a built candidate (with its NUL) fits the block search_make_new asked for");
	req = &REQS[g_step];
	req->base = base; req->request_type = (u8)type; req->handle = handle; req->ns = NULL; req->trans_id = 0xffff; req->next = req->prev = NULL;
	if (handle) { handle->current_req = req; handle->base = base; }
	g_ncand++;
	return req;
}
void c36g_submit_stub(struct request *const req)
{
	__CPROVER_assert(g_ncand == g_step + 1 && req == &REQS[g_step] && g_nsub == g_step, "request_submit: the newest candidate, and each candidate once");
	__CPROVER_assert(req->handle == &HANDLE && HANDLE.current_req == req, "request_submit: the candidate is bound to the handle");
	g_nsub++;
}
void c36g_finished_stub(struct request *const req, struct request **head, int free_handle)
{
	__CPROVER_assert(g_step >= 1 && g_ncand == g_step + 1 && req == &REQS[g_step - 1] && g_nfin == g_step - 1, "request_finished: the previous candidate, once, after its successor was created");
	__CPROVER_assert(head == &HEADS[0] && free_handle == 0, "request_finished: the base's list head; the handle survives");
	g_nfin++;
}

/* ---- the documented sequence */
static int exp_n;            /* number of candidates */
static int exp_which[3];     /* -1 = the bare name, k = name + domain k */
static void exp_build(int which, char *out)
{
	int i, n = 0, k;
	for (i = 0; i < C36G_NCAP; i++) { if (i >= (int)IN.name_len) break; out[n++] = O_NAME[i]; }
	if (which >= 0) {
		if (n > 0 && out[n - 1] != '.') out[n++] = '.';
		for (k = 0; k < C36G_DCAP; k++) { if (k >= IN.dlen[which]) break; out[n++] = IN.dtext[which][k]; }
	}
	out[n] = 0;
}
static void check_candidate(int k)
{
	char e[C36G_CCAP + 1]; int i;
	exp_build(exp_which[k], e);
	for (i = 0; i <= C36G_CCAP; i++) {
		__CPROVER_assert(g_cand[k][i] == e[i], "candidate k is the k-th name of the documented sequence (bare first iff dots >= ndots, suffixes in list order, bare last otherwise)");
		if (!e[i]) break;
	}
}

void harness(void)
{
	struct request *r; const char *name; int i, k, d = 0, searching, done = 0, rc;
	VF_LOAD_IN(); VF_INSTALL_LOCKS(); VF_MM_RESET();
	g_ncand = 0; g_failed = 0; g_nsub = 0; g_nfin = 0;
	evdns_log_fn = NULL; current_base = NULL;
	__CPROVER_assume(IN.name_len <= C36G_NCAP && IN.ndots >= 0 && IN.ndots <= 2 && IN.nd >= 0 && IN.nd <= 2);      /* bounds of this unit */
	for (i = 0; i < C36G_NCAP; i++) __CPROVER_assume(IN.name[i] == 'a' || IN.name[i] == '.');
	for (i = 0; i < C36G_NCAP; i++) NAME[i] = (i < (int)IN.name_len) ? IN.name[i] : 0;     /* left-aligned (no symbolic start offset) */
	NAME[C36G_NCAP] = 0;
	for (i = 0; i <= C36G_NCAP; i++) O_NAME[i] = NAME[i];
	name = NAME;
	for (i = 0; i < C36G_NCAP; i++) if (i < (int)IN.name_len && NAME[i] == '.') d++;
	/* the search list as search_postfix_add builds it: num_domains nodes, text (no NUL inside, not terminated) behind each node */
	for (k = 0; k < 2; k++) {
		__CPROVER_assume(IN.dlen[k] >= 0 && IN.dlen[k] <= C36G_DCAP);
		for (i = 0; i < C36G_DCAP; i++) { __CPROVER_assume(IN.dtext[k][i] != 0); DOM[k].text[i] = IN.dtext[k][i]; }
		DOM[k].d.len = IN.dlen[k];
		DOM[k].d.next = (k + 1 < IN.nd) ? &DOM[k + 1].d : NULL;
	}
	STATE.refcount = 1; STATE.ndots = IN.ndots; STATE.num_domains = IN.nd; STATE.head = IN.nd > 0 ? &DOM[0].d : NULL;
	BASE.global_search_state = IN.no_state ? NULL : &STATE;
	BASE.lock = VF_LOCK_COOKIE(1); g_lock_depth[1] = 1;
	BASE.n_req_heads = 1; BASE.req_heads = HEADS; HEADS[0] = NULL;
	HANDLE.current_req = NULL; HANDLE.base = NULL; HANDLE.search_index = 0; HANDLE.search_state = NULL; HANDLE.search_origname = NULL; HANDLE.search_flags = 0;
	O_type = IN.type_aaaa ? TYPE_AAAA : TYPE_A; O_flags = IN.flags;

	/* the documented sequence for this lookup */
	searching = !(IN.flags & DNS_QUERY_NO_SEARCH) && !IN.no_state && IN.nd > 0;
	exp_n = 0;
	if (!searching) exp_which[exp_n++] = -1;
	else if (IN.name_len == 0) { if (d >= IN.ndots) exp_which[exp_n++] = -1; }
	else {
		if (d >= IN.ndots) exp_which[exp_n++] = -1;
		for (k = 0; k < 2; k++) if (k < IN.nd) exp_which[exp_n++] = k;
		if (d < IN.ndots) exp_which[exp_n++] = -1;
	}

	g_step = 0;
	r = search_request_new(&BASE, &HANDLE, O_type, name, IN.flags);

	for (i = 0; i <= C36G_NCAP; i++) NAME[i] ^= 0x55;          /* the caller's buffer is its own again */
	__CPROVER_assert(IFF(r == NULL, g_failed || exp_n == 0), "first request: refused only when request_new failed or the sequence is empty");
	if (r) {
		__CPROVER_assert(g_ncand == 1 && g_nsub == 1 && g_nfin == 0 && r == &REQS[0] && HANDLE.current_req == r, "first candidate created and submitted once");
		check_candidate(0);
		__CPROVER_assert(IFF(HANDLE.search_state != NULL, searching) && IMP(searching, HANDLE.search_state == &STATE && STATE.refcount == 2 && HANDLE.search_flags == IN.flags), "the handle joins the search state exactly when there is a list to search");
	} else
		__CPROVER_assert(g_nsub == 0 && STATE.refcount == 1, "refused: nothing submitted, no reference taken");

	for (k = 1; k <= 3; k++) {
		if (!r || done) break;
		g_step = k;
		rc = search_try_next(&HANDLE);
		__CPROVER_assert(rc == 0 || rc == 1, "search_try_next returns 0 or 1");
		if (rc == 1) {
			done = 1;
			__CPROVER_assert(g_failed || k == exp_n, "1 (no more requests) only when every candidate of the sequence has been asked, or request_new failed");
			__CPROVER_assert(g_ncand == k && g_nsub == k && g_nfin == k - 1, "1: nothing new asked, submitted or finished");
		} else {
			__CPROVER_assert(k < exp_n, "0 (another request submitted) only while the documented sequence has a candidate left — the bare name is not asked twice");
			__CPROVER_assert(g_ncand == k + 1 && g_nsub == k + 1 && g_nfin == k, "0: exactly one new candidate, submitted once, its predecessor finished once");
			__CPROVER_assert(HANDLE.current_req == &REQS[k] && REQS[k].handle == &HANDLE, "0: the handle now carries the new request");
			if (k < exp_n) check_candidate(k);
		}
	}
	__CPROVER_assert(!r || done, "the search ends after at most 3 candidates");
	__CPROVER_assert(STATE.refcount == 1 + (HANDLE.search_state != NULL) && IMP(HANDLE.search_state != NULL, HANDLE.search_state == &STATE), "search state reference count balanced");
	__CPROVER_assert(STATE.ndots == IN.ndots && STATE.num_domains == IN.nd && STATE.head == (IN.nd > 0 ? &DOM[0].d : NULL), "the search list is not modified");
	__CPROVER_assert(g_lock_depth[1] == 1 && g_lock_ops == 0, "C08: the base lock is neither taken nor released");
	__CPROVER_assert(g_mm_live == (HANDLE.search_origname != NULL), "every candidate string is freed; only the handle's copy of the name may remain");
#ifdef VF_CANARY
	__CPROVER_assert(g_ncand < 3, "canary: must fail (two domains give three candidates)");
#endif
}
