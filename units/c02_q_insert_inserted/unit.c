/* C02 — event_queue_insert_inserted (real event.c): INSERTED flag, event_count(+max) delta for
 * non-internal events, nothing else.  Loop-free. */
#define VF_NLOCKS 1
#include "vf.h"
#include "event.c"
#include "stubs/lock.h"
#include "stubs/log.h"
#include "c02_event_shape.h"
struct in { struct c02_base_in b; struct c02_ev_in e; int qshape; };
struct in IN;
#include "c02_event_contracts.h"

void harness(void)
{
	VF_LOAD_IN(); VF_INSTALL_LOCKS();
	c02_build_base(&IN.b);
	c02_build_ev(&EV, &IN.e, 1);
	__CPROVER_assume(!(EV.ev_flags & EVLIST_INSERTED));
	VF_CALL_V(q_insert_inserted_c, event_queue_insert_inserted, &BASE, &EV);
	__CPROVER_assert(BASE.event_count_active == IN.b.event_count_active, "pending-for-I/O does not count as active");
#ifdef VF_CANARY
	__CPROVER_assert(BASE.event_count == IN.b.event_count, "canary: must fail (a user-visible insertion is counted)");
#endif
}
