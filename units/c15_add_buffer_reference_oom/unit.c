/* C14/C15 — evbuffer_add_buffer_reference with an allocator that may fail at every allocation: same harness and contract as
 * unit c15_add_buffer_reference (see there: candidate defect 2). */
#define C15_OOM
#include "../c15_add_buffer_reference/unit.c"
