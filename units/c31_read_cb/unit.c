/* C31 — ws_evhttp_read_cb (real ws.c, with get_ws_frame and evws_close inlined as they are):
 * for every input byte string (<= VF_WS_N bytes, <= 2 frame steps, payloads <= 8 bytes, with or
 * without an earlier non-final fragment pending) the message callback sees exactly what an
 * RFC 6455 reference decoder delivers.  Harness and reference: contracts/c31_read_cb.h.
 *
 * KNOWN DEVIATIONS of ws.c from the property text (candidate defects; the unit FAILS on them
 * unless compiled with -DVF_KF_EXCLUDE, -DVF_KF_ONLY restricts the run to them):
 *   K_contfin     final continuation frame (opcode 0, FIN=1): ws.c closes the connection
 *                 instead of delivering the assembled message
 *   K_afterclose  complete frames that follow a close/error frame in the same read are still
 *                 parsed and delivered to the message callback after the close
 *   K_dataInFrag  text/binary frame while a fragmented message is pending: ws.c concatenates
 *                 and delivers (with the type of the LAST frame) instead of failing the connection
 *   K_contNoFrag  continuation frame (FIN=0) with nothing to continue starts a message */
#include "c31_read_cb.h"
