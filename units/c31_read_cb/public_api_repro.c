/* Supplementary evidence for the candidate defects reported by units c31_read_cb and
 * c32_accept_key: the same inputs driven through the PUBLIC API of the real library (http
 * server + evws_new_session, a raw client socket on the same event loop).  Not run by check.py.
 *   gcc -g -fsanitize=address -I/repo/include -I/repo/_build/include public_api_repro.c \
 *       /repo/_build/lib/libevent.a -lpthread -o wsreal
 *   ./wsreal 1     TEXT(!FIN) "Hel" + CONTINUATION(FIN) "lo"  -> "[warn] unexpected frame type 0", server closes, nothing delivered
 *   ./wsreal 2     CLOSE + TEXT "after-close" in one segment  -> the text message IS delivered after the close frame
 *   ./wsreal 3     TEXT(!FIN) "Hel" + BINARY(FIN) "lo"        -> delivered as one BINARY message "Hello" (RFC: fail the connection)
 *   ./wsreal 4     single TEXT frame                           -> delivered (control)
 *   ./wsreal 5     PING "ping!"                                -> no PONG is ever written (RFC 6455 5.5.2 MUST; note)
 *   ./wsreal 9 988 upgrade with a 988-byte Sec-WebSocket-Key   -> accepted; Sec-WebSocket-Accept != base64(SHA1(key+GUID)) (987: equal)
 */
#define _GNU_SOURCE
#include <event2/event.h>
#include <event2/http.h>
#include <event2/ws.h>
#include <event2/buffer.h>
#include <event2/bufferevent.h>
#include <event2/listener.h>
#include <stdio.h>
#include <string.h>
#include <stdlib.h>
#include <unistd.h>
#include <arpa/inet.h>
#include <sys/socket.h>
static struct event_base *base; static int scenario; static int closed_cb; static int nmsg;
static void on_msg(struct evws_connection *c, int type, const unsigned char *d, size_t n, void *arg)
{ nmsg++; printf("SERVER: message #%d type=%d len=%zu \"%.*s\"%s\n", nmsg, type, n, (int)n, d, closed_cb ? "  (AFTER close)" : ""); fflush(stdout); }
static void on_close(struct evws_connection *c, void *arg) { printf("SERVER: connection closed/freed\n"); closed_cb = 1; }
static void on_ws(struct evhttp_request *req, void *arg)
{
	struct evws_connection *c = evws_new_session(req, on_msg, NULL, 0);
	printf("SERVER: upgrade %s\n", c ? "accepted" : "refused");
	if (c) evws_connection_set_closecb(c, on_close, NULL);
}
static unsigned char frames[256]; static size_t nframes;
static void addframe(int fin, int op, const char *pay)
{
	size_t n = strlen(pay), i; unsigned char mask[4] = {0x11, 0x22, 0x33, 0x44};
	frames[nframes++] = (fin ? 0x80 : 0) | op; frames[nframes++] = 0x80 | n;
	memcpy(frames + nframes, mask, 4); nframes += 4;
	for (i = 0; i < n; i++) frames[nframes++] = pay[i] ^ mask[i & 3];
}
static void cli_read(struct bufferevent *bev, void *arg)
{
	static int upgraded; struct evbuffer *in = bufferevent_get_input(bev); size_t n = evbuffer_get_length(in);
	unsigned char *p = evbuffer_pullup(in, n);
	if (!upgraded) {
		char *e = n >= 4 ? memmem(p, n, "\r\n\r\n", 4) : NULL;
		if (!e) return;
		printf("CLIENT: handshake response:\n%.*s\n", (int)(e - (char *)p), p);
		evbuffer_drain(in, e - (char *)p + 4); upgraded = 1;
		if (scenario != 9) { bufferevent_write(bev, frames, nframes); printf("CLIENT: sent %zu frame bytes in one write\n", nframes); }
		return;
	}
	printf("CLIENT: received %zu bytes:", n); { size_t i; for (i = 0; i < n; i++) printf(" %02x", p[i]); } printf("\n");
	evbuffer_drain(in, n);
}
static void cli_event(struct bufferevent *bev, short what, void *arg)
{
	if (what & BEV_EVENT_CONNECTED) return;
	printf("CLIENT: connection %s\n", (what & BEV_EVENT_EOF) ? "closed by server (EOF)" : "error"); event_base_loopbreak(base);
}
static void timeout_cb(evutil_socket_t fd, short what, void *arg) { printf("(timeout) messages delivered: %d\n", nmsg); event_base_loopbreak(base); }
int main(int argc, char **argv)
{
	struct evhttp *http; struct evhttp_bound_socket *bs; struct sockaddr_in sin; socklen_t sl = sizeof(sin); struct bufferevent *bev; char req[4096]; struct timeval tv = {1, 0};
	char key[2048]; int klen = 24;
	scenario = argc > 1 ? atoi(argv[1]) : 1;
	base = event_base_new(); http = evhttp_new(base);
	evhttp_set_cb(http, "/ws", on_ws, NULL);
	bs = evhttp_bind_socket_with_handle(http, "127.0.0.1", 0);
	getsockname(evhttp_bound_socket_get_fd(bs), (struct sockaddr *)&sin, &sl);
	switch (scenario) {
	case 1: addframe(0, 1, "Hel"); addframe(1, 0, "lo"); break;                 /* RFC fragmentation: TEXT !fin, CONT fin */
	case 2: addframe(1, 8, ""); addframe(1, 1, "after-close"); break;            /* close frame followed by a text frame in the same segment */
	case 3: addframe(0, 1, "Hel"); addframe(1, 2, "lo"); break;                  /* malformed: new BINARY frame inside a fragmented TEXT message */
	case 4: addframe(1, 1, "single"); break;                                       /* control: unfragmented */
	case 5: addframe(1, 9, "ping!"); break;                                        /* ping */
	case 9: klen = argc > 2 ? atoi(argv[2]) : 988; break;                          /* long key */
	}
	memset(key, 'A', sizeof(key)); key[klen] = 0; if (klen == 24) strcpy(key, "dGhlIHNhbXBsZSBub25jZQ==");
	snprintf(req, sizeof(req), "GET /ws HTTP/1.1\r\nHost: x\r\nUpgrade: websocket\r\nConnection: Upgrade\r\nSec-WebSocket-Key: %s\r\nSec-WebSocket-Version: 13\r\n\r\n", key);
	bev = bufferevent_socket_new(base, -1, BEV_OPT_CLOSE_ON_FREE);
	bufferevent_setcb(bev, cli_read, NULL, cli_event, NULL); bufferevent_enable(bev, EV_READ | EV_WRITE);
	bufferevent_socket_connect(bev, (struct sockaddr *)&sin, sizeof(sin));
	bufferevent_write(bev, req, strlen(req));
	event_base_once(base, -1, EV_TIMEOUT, timeout_cb, NULL, &tv);
	event_base_dispatch(base);
	return 0;
}
