/* C13/C08 — evbuffer_cb_clear_flags (real buffer.c): only user flags change, internal flags are masked; lock balanced. */
#define VF_NLOCKS 1
#include "vf.h"
#include "buffer.c"
struct eb_in;
#include "stubs/lock.h"
#include "evbuffer_shape.h"

struct in { struct eb_in b; ev_uint32_t flags, eflags; unsigned ch[VF_NCHOICE]; };
struct in IN;
#include "stubs/log.h"
#include "stubs/mm.h"

static struct evbuffer_cb_entry E;
ev_uint32_t O_fl;
VF_CONTRACT(int, cbfl_c, struct evbuffer *buffer, struct evbuffer_cb_entry *cb, ev_uint32_t flags)
__CPROVER_requires(buffer == &BUF && cb == &E && g_lock_depth[1] == 0 && O_fl == E.flags)
__CPROVER_assigns(g_lock_depth[1], g_lock_ops, E.flags)
__CPROVER_ensures(g_lock_depth[1] == 0 && __CPROVER_return_value == 0)
/* user-selectable flags (low 16 bits: ENABLED, NODEFER) follow the request; internal flags (high 16 bits, e.g. OBSOLETE) cannot be touched */
__CPROVER_ensures(E.flags == (O_fl & ~(flags & 0xffffu)))
__CPROVER_ensures((E.flags & 0xffff0000u) == (O_fl & 0xffff0000u))
;
void harness(void)
{
	int r;
	VF_LOAD_IN();
	vf_build_buf(&IN.b);
	VF_INSTALL_LOCKS(); VF_MM_RESET();
	E.flags = IN.eflags; O_fl = E.flags;
	E.next.le_next = NULL; E.next.le_prev = &BUF.callbacks.lh_first; BUF.callbacks.lh_first = &E;
	r = VF_CALL(cbfl_c, evbuffer_cb_clear_flags, &BUF, &E, IN.flags);
#ifdef VF_CANARY
	__CPROVER_assert(E.flags == O_fl, "canary: must fail (user flags do change)");
#endif
}
