/* C02 — event_callback_cancel_nolock_ (real event.c): FINALIZING (unless even_if_finalizing): 0,
 * nothing; a callback that is an event (EVLIST_INIT) is deleted through event_del_nolock_ with
 * AUTOBLOCK / EVEN_IF_FINALIZING (argument-recording contract, behaviour: c02_del_nolock);
 * a bare callback is taken off whichever active queue it is on. */
#define VF_NLOCKS 1
#include "vf.h"
#include "event.c"
#include "stubs/lock.h"
#include "stubs/log.h"
#include "c02_event_shape.h"
struct in { struct c02_base_in b; struct c02_ev_in e; struct c02_q_in q; int aqtail; int res; short ncalls; int even; int del_ret; int is_event; };
struct in IN;
#include "c02_event_contracts.h"
#include "c01_timer_contracts.h"
#define F0 ((int)IN.e.flags)
#define EVS ((int)IN.e.events)
#define NEED_NOTIFY0 ((IN.b.threads & 1) && (IN.b.running_loop & 1) && IN.b.owner != IN.b.self)
#define IN_THREAD0 (!(IN.b.threads & 1) || IN.b.owner == IN.b.self)
#define NOTIFIED(due) (IMP(due, BASE.th_notify_fn == NULL || BASE.is_notify_pending == 1) && \
	g_notify_calls == (((due) && (IN.b.has_notify_fn & 1) && !(IN.b.is_notify_pending & 1)) ? 1 : 0) && \
	IMP(!(due), BASE.is_notify_pending == (IN.b.is_notify_pending & 1)))
#define EVCB (&EV.ev_evcallback)
/* frame shared by the activation functions: flags, result, counters, the two queues' neighbourhoods, wake-up state */
#define ACT_FRAME EV.ev_evcallback.evcb_flags, EV.ev_evcallback.evcb_active_next, EV.ev_res, \
	BASE.event_count, BASE.event_count_max, BASE.event_count_active, BASE.event_count_active_max, \
	AQ[IN.e.pri], BASE.active_later_queue, NB[0].ev_evcallback.evcb_active_next, NB[1].ev_evcallback.evcb_active_next, \
	FAR_EV.ev_evcallback.evcb_active_next, NB2.ev_evcallback.evcb_active_next, BASE.is_notify_pending, g_notify_calls
/* common set-up: base, subject, its queues; when not ACTIVE the queue of its priority is empty or ends in NB2 */
#define SETUP(is_ev) do { VF_LOAD_IN(); VF_INSTALL_LOCKS(); c02_build_base(&IN.b); c02_build_ev(&EV, &IN.e, (is_ev)); \
	if (BASE.th_base_lock) g_lock_depth[1] = 1; C02_ASSUME_ASSIGNED(&IN.e); C02_ASSUME_COUNTED(F0); c02_link_ev(&IN.e, &IN.q); \
	if (!(F0 & EVLIST_ACTIVE)) C02_TAIL_OF(&AQ[IN.e.pri], evcb_active_next, &NB2.ev_evcallback, IN.aqtail); \
	if (!(F0 & (EVLIST_ACTIVE|EVLIST_ACTIVE_LATER))) C02_TAIL_OF(&BASE.active_later_queue, evcb_active_next, &NB[1].ev_evcallback, IN.q.ashape); } while (0)
#define AT_TAIL_OF_AQ (AQ[IN.e.pri].tqh_last == &EV.ev_evcallback.evcb_active_next.tqe_next && EV.ev_evcallback.evcb_active_next.tqe_next == NULL && \
	((IN.aqtail & 1) ? NB2.ev_evcallback.evcb_active_next.tqe_next == EVCB : AQ[IN.e.pri].tqh_first == EVCB))

int g_del_calls, g_del_blocking, g_del_ret; struct event *g_del_ev;
VF_CONTRACT(int, del_rec_c, struct event *ev, int blocking)
__CPROVER_requires(BASE.th_base_lock == NULL || g_lock_depth[1] >= 1)
__CPROVER_assigns(g_del_calls, g_del_blocking, g_del_ev)
__CPROVER_ensures(g_del_calls == __CPROVER_old(g_del_calls) + 1 && g_del_blocking == blocking && g_del_ev == ev && __CPROVER_return_value == g_del_ret)
;
#define SKIP ((F0 & EVLIST_FINALIZING) && !IN.even)
#define AS_EVENT (!SKIP && (F0 & EVLIST_INIT))
#define AS_CB (!SKIP && !(F0 & EVLIST_INIT))
VF_CONTRACT(int, cancel_c, struct event_base *base, struct event_callback *evcb, int even_if_finalizing)
__CPROVER_requires(base == &BASE && evcb == EVCB && even_if_finalizing == IN.even)
__CPROVER_requires(BASE.th_base_lock == NULL || g_lock_depth[1] == 1)
__CPROVER_requires(g_del_calls == 0)
__CPROVER_assigns(EV.ev_evcallback.evcb_flags, BASE.event_count, BASE.event_count_active, AQ[IN.e.pri], BASE.active_later_queue,
	NB[0].ev_evcallback.evcb_active_next, NB[1].ev_evcallback.evcb_active_next, FAR_EV.ev_evcallback.evcb_active_next, g_del_calls, g_del_blocking, g_del_ev)
__CPROVER_ensures(g_del_calls == (AS_EVENT ? 1 : 0))
__CPROVER_ensures(IMP(AS_EVENT, g_del_ev == &EV && g_del_blocking == (IN.even ? EVENT_DEL_EVEN_IF_FINALIZING : EVENT_DEL_AUTOBLOCK) && __CPROVER_return_value == IN.del_ret))
__CPROVER_ensures(IMP(!AS_EVENT, __CPROVER_return_value == 0))
__CPROVER_ensures(IMP(!AS_CB, EV.ev_flags == F0 && BASE.event_count == IN.b.event_count && BASE.event_count_active == IN.b.event_count_active))
__CPROVER_ensures(IMP(AS_CB, EV.ev_flags == (F0 & ~(EVLIST_ACTIVE|EVLIST_ACTIVE_LATER)) &&
	BASE.event_count_active == IN.b.event_count_active - ((F0 & (EVLIST_ACTIVE|EVLIST_ACTIVE_LATER)) ? 1 : 0) &&
	BASE.event_count == IN.b.event_count - ((F0 & (EVLIST_ACTIVE|EVLIST_ACTIVE_LATER)) ? C02_NONINT(F0) : 0)))
;
void harness(void)
{
	int r;
	SETUP(IN.is_event & 1);
	g_del_calls = 0; g_del_ret = IN.del_ret; g_del_ev = NULL; g_del_blocking = -1;
	__CPROVER_assume(IN.even == 0 || IN.even == 1);
	r = VF_CALL(cancel_c, event_callback_cancel_nolock_, &BASE, EVCB, IN.even);
	(void)r;
	if (AS_CB && (F0 & EVLIST_ACTIVE) && (IN.q.ashape & 3) == 0) __CPROVER_assert(AQ[IN.e.pri].tqh_first == NULL, "sole active callback cancelled: its queue is empty");
#ifdef VF_CANARY
	__CPROVER_assert(BASE.event_count_active == IN.b.event_count_active, "canary: must fail (cancelling an active bare callback lowers the active count)");
#endif
}
