/* C17/C19/C18/C20/C22/C08 — bufferevent_writecb (real bufferevent_sock.c), the write hop and the connect completion
 * of a socket bufferevent.
 *  C19  while connecting: not finished => nothing happens; failed (or refused earlier) => `connecting` cleared, both events
 *       removed, BEV_EVENT_ERROR reported, never CONNECTED; succeeded => `connecting` is cleared BEFORE BEV_EVENT_CONNECTED is
 *       reported (so it is reported at most once) and before any write callback; nothing is written if writing is not
 *       enabled / suspended.
 *  C17  n > 0: n bytes leave the output, charged once; 0: WRITING|EOF once, writing disabled before the report; EAGAIN/EINTR:
 *       nothing reported; other error: WRITING|ERROR once with that errno.  The write event is removed when the output is empty.
 *  C18  write callback only when the output is at or below the low write watermark (and not for a bare connect completion).
 *  C22  at most bufferevent_get_write_max_() bytes requested.   C20  EV_TIMEOUT exactly: WRITING|TIMEOUT, writing disabled.
 * VF_KF_EXCLUDE leaves out "zero budget although not suspended" (candidate defect, see c17_writecb_zero_budget). */
#include "c17_sock_unit.h"
size_t O_len, O_low; unsigned short O_ws; short O_enabled; int O_refcnt, O_conn, O_ref;
#define T_(ev) ((ev) == EV_TIMEOUT)
#define CONN_(ev) (O_conn && !T_(ev))
#define C_ (O_ref ? -1 : g_s.fin_conn_ret)
#define PEND_(ev) (CONN_(ev) && C_ == 0)
#define CFAIL_(ev) (CONN_(ev) && C_ < 0)
#define COK_(ev) (CONN_(ev) && C_ > 0)
#define STOPC_(ev) (COK_(ev) && (!(O_enabled & EV_WRITE) || O_ws != 0))
#define WPATH_(ev) (!T_(ev) && !PEND_(ev) && !CFAIL_(ev) && !STOPC_(ev))
#define WSUSP_ (O_ws != 0 || g_s.grp_susp_w)
#define WMAX_ (g_s.grp_susp_w ? (ev_ssize_t)0 : g_s.wmax)
#define DOW_(ev) (WPATH_(ev) && !WSUSP_ && O_len != 0)
#define ZEROBUDGET_(ev) (DOW_(ev) && WMAX_ == 0)
#define GOT_(ev) (DOW_(ev) && WMAX_ != 0 && g_s.io_kind > 0)
#define EOF_(ev) (DOW_(ev) && WMAX_ != 0 && g_s.io_kind == 0)
#define ERR_(ev) (DOW_(ev) && WMAX_ != 0 && g_s.io_kind < 0)
#define FATAL_(ev) (ERR_(ev) && !RETRIABLE(g_s.io_errno))
#define LAST_(ev, f) (COK_(ev) ? g_s.ev1.f : g_s.ev0.f)     /* the report after a possible CONNECTED */

VF_CONTRACT_V(writecb_c, evutil_socket_t fd, short event, void *arg)
__CPROVER_requires(arg == (void *)BEV && BEVP.refcnt >= 1 && BEVP.refcnt < (1 << 24) && g_lock_depth[1] == 0)
__CPROVER_requires(g_s.out_start_frozen == 1 && g_s.nrep == 0 && g_s.nev == 0 && g_s.write_calls == 0 && g_s.disable_calls == 0 && g_s.dec_w_calls == 0 && g_s.dec_w_bytes == 0 && g_s.get_wmax_calls == 0 && g_s.wcb.n == 0 && g_s.freed == 0 && g_s.fin_conn_calls == 0)
__CPROVER_requires(g_s.ev[0].n_del == 0 && g_s.ev[1].n_del == 0 && g_s.ev[0].n_add == 0 && g_s.ev[1].n_add == 0)
__CPROVER_assigns(BEV->enabled, BEVP.write_suspended, BEVP.connecting, BEVP.connection_refused, BEVP.refcnt, BEVP.conn_address, SOCK_GHOST_FRAME)
/* 1 whether and how much is written */
__CPROVER_ensures(g_s.write_calls == B(DOW_(event)) && IMP(DOW_(event), g_s.write_atmost == WMAX_ && g_s.write_fd == fd && g_s.write_unfrozen))
/* 2 connect not finished: nothing happens */
__CPROVER_ensures(IMP(PEND_(event), g_s.nrep == 0 && BEVP.connecting == 1 && g_s.get_wmax_calls == 0 && g_s.ev[1].n_del == 0 && BEV->enabled == O_enabled))
/* 3 connect failed: ERROR (not CONNECTED), connecting cleared first, both events removed, nothing written */
__CPROVER_ensures(IMP(CFAIL_(event), g_s.nev == 1 && g_s.nrep == 1 && g_s.ev0.what == BEV_EVENT_ERROR && g_s.ev0.connecting == 0 && BEVP.connecting == 0 && BEVP.connection_refused == 0 && g_s.ev[0].ins == 0 && g_s.ev[1].ins == 0 && g_s.ev0.ev_ins0 == 0 && g_s.ev0.ev_ins1 == 0))
/* 4 connect succeeded: CONNECTED is the first report, made after `connecting` was cleared */
__CPROVER_ensures(IMP(COK_(event), g_s.ev0.n == 1 && g_s.ev0.what == BEV_EVENT_CONNECTED && g_s.ev0.at == 1 && g_s.ev0.connecting == 0 && g_s.ev0.options == 0 && BEVP.connecting == 0))
__CPROVER_ensures(IMP(STOPC_(event), g_s.nrep == 1 && g_s.ev[1].ins == 0 && g_s.get_wmax_calls == 0))
/* 6 data written */
__CPROVER_ensures(IMP(GOT_(event), g_s.write_ret >= 1 && g_s.len_out == O_len - (size_t)g_s.write_ret && (ev_ssize_t)g_s.write_ret <= WMAX_ && g_s.dec_w_calls == 1 && g_s.dec_w_bytes == g_s.write_ret))
__CPROVER_ensures(IMP(GOT_(event), g_s.nev == B(COK_(event)) && g_s.wcb.n == B(g_s.len_out <= O_low) && g_s.ev[1].n_del == B(g_s.len_out == 0) && BEV->enabled == O_enabled))
/* 8 nothing to write: write event removed; write callback unless this was only a connect completion */
__CPROVER_ensures(IMP(WPATH_(event) && !WSUSP_ && O_len == 0, g_s.ev[1].ins == 0 && g_s.ev[1].n_del == 1 && g_s.wcb.n == B(!COK_(event)) && g_s.nev == B(COK_(event)) && g_s.dec_w_calls == 0))
/* 9 EOF / fatal error on write: reported once after writing was disabled */
__CPROVER_ensures(IMP(EOF_(event), g_s.nev == 1 + B(COK_(event)) && LAST_(event, what) == (BEV_EVENT_WRITING|BEV_EVENT_EOF) && !(LAST_(event, enabled) & EV_WRITE) && LAST_(event, ev_ins1) == 0 && g_s.wcb.n == 0 && g_s.dec_w_calls == 0))
__CPROVER_ensures(IMP(FATAL_(event), g_s.nev == 1 + B(COK_(event)) && LAST_(event, what) == (BEV_EVENT_WRITING|BEV_EVENT_ERROR) && LAST_(event, err) == g_s.io_errno && !(LAST_(event, enabled) & EV_WRITE) && LAST_(event, ev_ins1) == 0 && g_s.wcb.n == 0))
/* 11 retriable */
__CPROVER_ensures(IMP(ERR_(event) && RETRIABLE(g_s.io_errno), g_s.nev == B(COK_(event)) && g_s.wcb.n == 0 && BEV->enabled == O_enabled && g_s.len_out == O_len && g_s.disable_calls == 0))
/* 12 C20 */
__CPROVER_ensures(IMP(T_(event), g_s.nev == 1 && g_s.nrep == 1 && g_s.ev0.what == (BEV_EVENT_WRITING|BEV_EVENT_TIMEOUT) && !(g_s.ev0.enabled & EV_WRITE) && IMP(!O_conn, g_s.ev0.ev_ins1 == 0) && g_s.write_calls == 0 && g_s.fin_conn_calls == 0))
/* 13 the reports are exactly these */
__CPROVER_ensures(IMP(!ZEROBUDGET_(event), g_s.nev == B(T_(event)) + B(CFAIL_(event)) + B(COK_(event)) + B(EOF_(event) || FATAL_(event))))
/* 14 suspended writer: nothing written, no write callback */
__CPROVER_ensures(IMP(WPATH_(event) && WSUSP_, g_s.write_calls == 0 && g_s.wcb.n == 0 && g_s.nev == B(COK_(event))))
/* 15 C08/C10 */
__CPROVER_ensures(BEVP.refcnt == O_refcnt && g_s.freed == 0 && g_lock_depth[1] == 0 && g_s.out_start_frozen == 1)
;
void harness(void)
{
	VF_LOAD_IN();
	vf_sock_build();
	__CPROVER_assume(IN.refcnt >= 1 && IN.refcnt < (1 << 24));
	__CPROVER_assume(IN.wmax >= 0);                            /* c22_rlim_max: never negative */
	__CPROVER_assume(IN.io_kind >= -1 && IN.io_kind <= 1 && IN.io_n >= 1 && IN.io_errno > 0);
	__CPROVER_assume(IN.fin_ret >= -1 && IN.fin_ret <= 1);
	O_len = IN.len_out; O_low = IN.low_w; O_ws = IN.ws; O_enabled = IN.enabled; O_refcnt = IN.refcnt; O_conn = IN.connecting & 1; O_ref = IN.refused & 1;
#if defined(VF_KF_ONLY)
	__CPROVER_assume(ZEROBUDGET_(IN.event));
#elif defined(VF_KF_EXCLUDE)
	__CPROVER_assume(!ZEROBUDGET_(IN.event));
#endif
	VF_CALL_V(writecb_c, bufferevent_writecb, IN.fd, IN.event, (void *)BEV);
	/* C17: an error is reported only for an error the transport produced now */
	if (!T_(IN.event) && !CFAIL_(IN.event) && g_s.nev >= 1 && (LAST_(IN.event, what) & BEV_EVENT_ERROR)) __CPROVER_assert(g_s.io_kind < 0 && g_s.write_atmost != 0, "WRITING|ERROR is reported only when the write itself failed");
	/* C19: CONNECTED at most once, and before the write callback */
	__CPROVER_assert(B(g_s.ev0.n && (g_s.ev0.what & BEV_EVENT_CONNECTED)) + B(g_s.ev1.n && (g_s.ev1.what & BEV_EVENT_CONNECTED)) <= 1 && g_s.nev <= 2, "CONNECTED is reported at most once");
	if (g_s.wcb.n && COK_(IN.event)) __CPROVER_assert(g_s.wcb.at > g_s.ev0.at, "CONNECTED precedes the write callback");
	if (g_s.wcb.n) __CPROVER_assert(g_s.wcb.len_out <= g_s.wcb.low_w && g_s.wcb.options == 0, "write callback only at or below the low write watermark");
	__CPROVER_assert(BEVP.read_suspended == IN.rs && g_s.len_in == IN.len_in && g_s.rcb.n == 0 && g_s.read_calls == 0 && g_s.ev[0].n_add == 0, "frame: the read side is untouched (apart from removing the read event after a failed connect)");
	__CPROVER_assert((BEVP.write_suspended & ~BEV_SUSPEND_BW_GROUP) == (IN.ws & ~BEV_SUSPEND_BW_GROUP), "only the group reason can be added");
#ifdef VF_CANARY
	__CPROVER_assert(!(g_s.nev == 2), "canary: must fail (CONNECTED followed by a write error in one call)");
#endif
}
