/* C25 — evhttp_lingering_fail (real http.c): what happens to a message whose body exceeds
 * max_body_size: with EVHTTP_CON_LINGERING_CLOSE the input is drained up to the announced length
 * (evhttp_lingering_close, unit c25_lingering_close), otherwise the connection fails at once with
 * EVREQ_HTTP_DATA_TOO_LONG (answered 413 / closed by evhttp_connection_fail_).  In neither case is
 * the message completed.  Loop-free. */
#include "vf.h"
#include "http.c"
struct in { int flags; };
struct in IN;
#include "stubs/log.h"
#include "stubs/c23_http_env.h"
#include "c23_contracts.h"
int g_lclose_calls;
VF_CONTRACT_V(lingering_close_cont_c, struct evhttp_connection *evcon, struct evhttp_request *req)
__CPROVER_requires(evcon != NULL && req != NULL)
__CPROVER_assigns(g_lclose_calls)
__CPROVER_ensures(g_lclose_calls == __CPROVER_old(g_lclose_calls) + 1)
;
static struct evhttp_connection EVCON; static struct evhttp_request REQ;
VF_CONTRACT_V(lingering_fail_enf_c, struct evhttp_connection *evcon, struct evhttp_request *req)
__CPROVER_requires(evcon == &EVCON && req == &REQ && __CPROVER_r_ok(evcon, sizeof(*evcon)) && evcon->flags == IN.flags)
__CPROVER_requires(g_lclose_calls == 0 && g_fail_calls == 0 && g_done_calls == 0)
__CPROVER_assigns(g_lclose_calls, g_fail_calls, g_fail_error)
__CPROVER_ensures(g_lclose_calls == ((IN.flags & EVHTTP_CON_LINGERING_CLOSE) ? 1 : 0))
__CPROVER_ensures(g_fail_calls == ((IN.flags & EVHTTP_CON_LINGERING_CLOSE) ? 0 : 1))
__CPROVER_ensures(IMP(g_fail_calls == 1, g_fail_error == (int)EVREQ_HTTP_DATA_TOO_LONG))
;
void harness(void)
{
	VF_LOAD_IN(); VF_C23_GHOST_RESET(); g_lclose_calls = 0;
	EVCON.flags = IN.flags; REQ.evcon = &EVCON;
	VF_CALL_V(lingering_fail_enf_c, evhttp_lingering_fail, &EVCON, &REQ);
#ifdef VF_CANARY
	__CPROVER_assert(g_fail_calls == 0, "canary: must fail (without lingering close the connection fails)");
#endif
}
