/* C31 (safety part) — ws_evhttp_read_cb (real ws.c) on EVERY input byte string of the bounded
 * shape, including the inputs on which c31_read_cb reports functional deviations: no read or
 * write outside the buffers' data (input right-aligned in its object), the data handed to the
 * message callback is readable for its length, the bufferevent lock/reference taken on entry is
 * released on every exit, drained + remaining == received, frames before a close are drained
 * exactly, incomplete_frames is NULL or the one live buffer, a close writes 88 02 hi lo last
 * and removes the read callback.  Harness: contracts/c31_read_cb.h. */
#define VF_WS_SAFETY_ONLY 1
#include "c31_read_cb.h"
