/* C10/C08 — event_once_cb (real event.c): the user's callback is invoked exactly once, with the fd/events it fired
 * for and the user's argument, while the record is still allocated; afterwards the record is unlinked from
 * base->once_events under the base lock (neighbours relinked) and freed exactly once; lock released. */
#define VF_NLOCKS 1
#include "vf.h"
#include "event.c"
struct in { int fd, nprev, nnext; short events, evflags; };
struct in IN;
#include "stubs/log.h"
#include "stubs/lock.h"

static struct event_base BASE;
static struct event_once PREV, NEXT;
static char ARG;
struct event_once *g_rec;
int g_calls, g_frees;
static void vf_usercb(evutil_socket_t fd, short what, void *arg)
{
	__CPROVER_assert(g_lock_depth[1] == 0, "C08: the user's callback runs with the base lock released");
	__CPROVER_assert(fd == IN.fd && what == IN.events && arg == (void *)&ARG, "the user's callback gets the fd, the events and its own argument");
	__CPROVER_assert(g_frees == 0, "C10: the record is still allocated while the callback runs");
	__CPROVER_assert(g_rec->cb == vf_usercb && (IN.nprev ? PREV.next_once.le_next == g_rec : BASE.once_events.lh_first == g_rec), "the record is still registered while the callback runs");
	g_calls++;
}
static void vf_free(void *p)
{
	__CPROVER_assert(p == (void *)g_rec && g_frees == 0, "C10: only the record is freed, once");
	__CPROVER_assert(g_calls == 1, "C10: freed after the callback ran");
	__CPROVER_assert(g_lock_depth[1] == 0, "freed outside the lock");
	g_frees++;
	free(p);
}

VF_CONTRACT_V(once_cb_c, evutil_socket_t fd, short events, void *arg)
__CPROVER_requires(fd == IN.fd && events == IN.events && arg == (void *)g_rec && g_lock_depth[1] == 0 && g_calls == 0 && g_frees == 0)
__CPROVER_assigns(g_lock_depth[1], g_lock_ops, event_debug_mode_too_late, g_calls, g_frees, BASE.once_events.lh_first, PREV.next_once.le_next, NEXT.next_once.le_prev, __CPROVER_object_whole(g_rec))
__CPROVER_frees(g_rec)
/* 1 C08 */ __CPROVER_ensures(g_lock_depth[1] == 0)
/* 2 C10: callback exactly once, record freed exactly once (order: stub assertions) */
__CPROVER_ensures(g_calls == 1 && g_frees == 1 && __CPROVER_was_freed(g_rec))
/* 3 C10: unlinked — the neighbours point at each other, nobody points at the freed record */
__CPROVER_ensures(IN.nprev ? (BASE.once_events.lh_first == &PREV && PREV.next_once.le_next == (IN.nnext ? &NEXT : NULL)) : (BASE.once_events.lh_first == (IN.nnext ? &NEXT : NULL)))
__CPROVER_ensures(IMP(IN.nnext, NEXT.next_once.le_prev == (IN.nprev ? &PREV.next_once.le_next : &BASE.once_events.lh_first)))
;

void harness(void)
{
	VF_LOAD_IN(); VF_INSTALL_LOCKS();
	evthread_id_fn_ = NULL; event_debug_mode_on_ = 0; event_debug_map_lock_ = NULL; event_debug_mode_too_late = 0; event_global_current_base_ = NULL;
	mm_malloc_fn_ = NULL; mm_realloc_fn_ = NULL; mm_free_fn_ = vf_free;
	g_calls = 0; g_frees = 0;
	BASE.th_base_lock = VF_LOCK_COOKIE(1);
	g_rec = malloc(sizeof(struct event_once));
	__CPROVER_assume(g_rec != NULL);
	g_rec->cb = vf_usercb; g_rec->arg = (void *)&ARG;
	g_rec->ev.ev_base = &BASE; g_rec->ev.ev_flags = EVLIST_INIT;      /* a non-persistent event is off every queue when its callback runs */
	g_rec->ev.ev_fd = IN.fd; g_rec->ev.ev_events = 0;
	/* once_events: [PREV ->] rec [-> NEXT], built as LIST_INSERT_HEAD does (newest first) */
	LIST_INIT(&BASE.once_events);
	PREV.next_once.le_next = NULL; PREV.next_once.le_prev = &BASE.once_events.lh_first;
	NEXT.next_once.le_next = NULL; NEXT.next_once.le_prev = &BASE.once_events.lh_first;
	if (IN.nnext) LIST_INSERT_HEAD(&BASE.once_events, &NEXT, next_once);
	LIST_INSERT_HEAD(&BASE.once_events, g_rec, next_once);
	if (IN.nprev) LIST_INSERT_HEAD(&BASE.once_events, &PREV, next_once);
	VF_CALL_V(once_cb_c, event_once_cb, IN.fd, IN.events, (void *)g_rec);
#ifdef VF_CANARY
	__CPROVER_assert(BASE.once_events.lh_first != NULL, "canary: must fail (the list can become empty)");
#endif
}
