/* C29 — evhttp_uriencode / evhttp_encode_uri / evhttp_uridecode (real http.c) on bounded inputs.
 * For every byte string s of n <= VF_N bytes (all 256 values; embedded NUL only through the explicit-length
 * entry), both space_as_plus modes, both ways of passing the length (len >= 0 / len < 0 = C string):
 *   E1 the result is exactly the concatenation of enc(s[k]): the byte itself when it is RFC 3986 "unreserved"
 *      (ALPHA / DIGIT / "-" / "." / "_" / "~"), '+' for ' ' when space_as_plus, else '%' and the two
 *      UPPER-CASE hex digits of the byte; NUL-terminated; nothing else is emitted
 *      (so: only unreserved characters, '+' and %XX escapes; length = sum of 1 or 3)
 *   E2 round trip: evhttp_uridecode(result, decode_plus, &size) returns the original n bytes and size == n
 *      whenever decode_plus == space_as_plus, and also for space_as_plus == 0 with any decode_plus
 *   E3 allocation failure (evbuffer_new or the result buffer) yields NULL; nothing leaks on any path
 * evbuffer_add on the scratch buffer is modelled as always succeeding (see report: its result is ignored). */
#ifndef VF_N
#define VF_N 5
#endif
#define VF_SB_CAP (3 * VF_N + 2)
#define VF_C28_MMCAP (3 * VF_N + 2)
#define VF_NCHOICE 6
#include "vf.h"
#include "http.c"
struct in { unsigned char s[VF_N]; unsigned n; int sap; int dp; int cstr; unsigned ch[VF_NCHOICE]; };
struct in IN;
#include "stubs/log.h"
#include "stubs/c28_ctype.h"
#define VF_C28_WANT_STRTOL
#include "stubs/c28_libc_ref.h"
#include "stubs/c28_mm.h"
#include "stubs/c28_evbuf.h"

/* ---- reference (trusted): RFC 3986 2.3 unreserved set, 2.1 percent-encoding ---- */
static int ref_unreserved(unsigned char c)
{
	return (c >= 'a' && c <= 'z') || (c >= 'A' && c <= 'Z') || (c >= '0' && c <= '9') || c == '-' || c == '.' || c == '_' || c == '~';
}
static char ref_HEX(unsigned v) { return (char)(v < 10 ? '0' + v : 'A' + (v - 10)); }

static char S[VF_N + 1];

void harness(void)
{
	char *enc, *dec; unsigned k, o; size_t sz = 12345;
	VF_LOAD_IN(); VF_MM_RESET(); VF_SB_RESET();
	g_sb_new_may_fail = 1;
	__CPROVER_assume(IN.n <= VF_N);
	for (k = 0; k < VF_N; k++) S[k] = k < IN.n ? (char)IN.s[k] : '\0';
	S[VF_N] = '\0';
	if (IN.cstr) for (k = 0; k < VF_N; k++) __CPROVER_assume(!(k < IN.n) || S[k] != '\0');   /* C-string entry: no embedded NUL */
	if (IN.cstr == 2)
		enc = evhttp_encode_uri(S);                       /* == evhttp_uriencode(S, -1, 0) */
	else
		enc = evhttp_uriencode(S, IN.cstr ? -1 : (ev_ssize_t)IN.n, IN.sap);
	if (IN.cstr == 2) IN.sap = 0;
	__CPROVER_assert(g_sb_live == 0, "uriencode: the scratch evbuffer is freed on every path");
	if (enc == NULL) {
		__CPROVER_assert(g_mm_live == 0, "uriencode: nothing leaks when it fails");
		__CPROVER_assert(g_mm_failed + g_sb_new_failed > 0, "uriencode: fails only when an allocation failed");
#ifdef VF_CANARY
		__CPROVER_assert(0, "canary: must fail (allocation failure is possible)");
#endif
		return;
	}
	__CPROVER_assert(g_mm_live == 1, "uriencode: exactly the result is allocated");
	o = 0;
	for (k = 0; k < VF_N; k++) {
		unsigned char c;
		if (k >= IN.n) break;
		c = (unsigned char)S[k];
		if (ref_unreserved(c)) {
			__CPROVER_assert(enc[o] == (char)c, "E1: an unreserved byte is emitted as itself");
			o += 1;
		} else if (c == ' ' && IN.sap) {
			__CPROVER_assert(enc[o] == '+', "E1: space is emitted as '+' in space_as_plus mode");
			o += 1;
		} else {
			__CPROVER_assert(enc[o] == '%' && enc[o + 1] == ref_HEX(c >> 4) && enc[o + 2] == ref_HEX(c & 15u), "E1: any other byte is emitted as %XX with upper-case hex digits");
			o += 3;
		}
	}
	__CPROVER_assert(enc[o] == '\0', "E1: the encoding ends right after the last unit (NUL-terminated, nothing else emitted)");
#ifndef VF_NATIVE
	__CPROVER_assert(!__CPROVER_r_ok(enc, o + 2), "E1: the result buffer is exactly length + 1 bytes");
#endif
	/* E2 round trip through the real decoder */
	if (IN.sap) IN.dp = 1;
#ifndef VF_NO_E2
	dec = evhttp_uridecode(enc, IN.dp, &sz);
#else
	dec = NULL;
#endif
	if (dec != NULL) {
		__CPROVER_assert(sz == IN.n, "E2: decode(encode(s)) has the original length");
		for (k = 0; k < VF_N; k++) if (k < IN.n) __CPROVER_assert(dec[k] == S[k], "E2: decode(encode(s)) == s, byte for byte");
		__CPROVER_assert(dec[IN.n] == '\0', "E2: decoded string is NUL-terminated at its length");
		mm_free(dec);
	}
	mm_free(enc);
	__CPROVER_assert(g_mm_live == 0, "E3: nothing leaks");
#ifdef VF_CANARY
	__CPROVER_assert(!(IN.n == 2 && o == 4), "canary: must fail (one unreserved + one escaped byte encode to 4 characters)");
#endif
}
