/* C05 — epoll_apply_changes (real epoll.c): every pending change is handed to
 * epoll_apply_one_change exactly once, in particular the witness fd's entry, after which the
 * kernel registration of that fd is the desired one; entries of other fds do not disturb it.
 * The loop is closed by a loop contract (integer index); epoll_apply_one_change is replaced by
 * its contract, with the call-site obligation that no entry deletes a condition absent from its
 * old_events (what event_changelist_add_/del_ guarantee, units c05_changelist_add/del). */
#include "vf.h"
#include "epoll.c"
#include "stubs/log.h"
#define NCH 64       /* capacity of the changes array in this unit (the changelist's initial capacity) */
struct in {
	int fd; int epfd; int kstate; unsigned stale_mask;
	int n;                         /* pending changes */
	int w;                         /* index of the witness fd's entry; >= n: the fd has no entry */
	int efd[NCH]; short eold[NCH]; unsigned char er[NCH], ew[NCH], ec[NCH];
	unsigned ch[VF_NCHOICE];
};
struct in IN;
#include "c05_epoll_contracts.h"

static struct event_base BASE; static struct epollop EPOP; static struct event_change CHS[NCH];
/* ghost constants computed by the harness from the witness entry (the loop-contract file cannot use macros) */
int G_n, G_w, G_in, G_noop, G_des, G_xl, G_anyet, G_strict; int O_kreg; unsigned O_kmask;

VF_CONTRACT(int, apply_changes_c, struct event_base *base)
__CPROVER_requires(base == &BASE && k_calls == 0 && k_first_failed == 0 && k_registered == O_kreg && k_mask == O_kmask)
__CPROVER_assigns(k_registered, k_mask, k_calls, k_first_failed, k_first_op, k_other_calls, errno, vf_nchoice_)
__CPROVER_ensures(__CPROVER_return_value == 0 || __CPROVER_return_value == -1)
__CPROVER_ensures(IMP(IN.n == 0, __CPROVER_return_value == 0))
/* the fd has no pending change, or only a no-op/impossible entry: its registration is untouched */
__CPROVER_ensures(IMP(!G_in || G_noop, k_calls == 0 && k_registered == O_kreg && k_mask == O_kmask))
/* the fd's entry is applied exactly once: with the kernel in step (holds old_events) one accepted operation ... */
__CPROVER_ensures(IMP(G_in && !G_noop && G_strict, k_calls == 1 && k_first_failed == 0))
/* ... and afterwards exactly the desired conditions are registered, edge-triggered iff some change byte says so */
__CPROVER_ensures(IMP(G_in && !G_noop && G_strict, k_registered == (G_des != 0) && IMP(G_des != 0, (k_mask & KBITS) == (unsigned)G_xl && ((k_mask & EPOLLET) != 0) == G_anyet)))
/* lost or stale registration: applied (1 or 2 operations) */
__CPROVER_ensures(IMP(G_in && !G_noop && !G_strict, k_calls >= 1 && k_calls <= 2))
/* the pending changes themselves are not consumed here (event_changelist_remove_all_ does that) */
__CPROVER_ensures(BASE.changelist.n_changes == IN.n)
;

void harness(void)
{
	int k, r;
	VF_LOAD_IN();
	__CPROVER_assume(IN.n >= 0 && IN.n <= NCH && IN.w >= 0 && IN.w < NCH);
	__CPROVER_assume(IN.kstate >= 0 && IN.kstate <= 2);
	for (k = 0; k < NCH; k++) {
		/* changelist invariant: one entry per fd (fdinfo->idxplus1 names it), so only entry w can be the witness fd's */
		__CPROVER_assume(IFF(k == IN.w, IN.efd[k] == IN.fd));
		CHS[k].fd = IN.efd[k]; CHS[k].old_events = IN.eold[k];
		CHS[k].read_change = IN.er[k]; CHS[k].write_change = IN.ew[k]; CHS[k].close_change = IN.ec[k];
	}
	/* the witness entry is one the changelist can hold (postconditions 4 and 7 of c05_changelist_add/del) */
	__CPROVER_assume((CHS[IN.w].old_events & ~(EV_READ|EV_WRITE|EV_CLOSED)) == 0 && !IMPOSSIBLE(&CHS[IN.w]) && DELOK(&CHS[IN.w]));
	__CPROVER_assume(IMP(IN.kstate == 2, CHS[IN.w].old_events == 0));
	EPOP.epfd = IN.epfd; BASE.evbase = &EPOP;
	BASE.changelist.changes = CHS; BASE.changelist.n_changes = IN.n; BASE.changelist.changes_size = NCH;
	if (IN.kstate == 0) { k_registered = (CHS[IN.w].old_events != 0); k_mask = XL(CHS[IN.w].old_events); }
	else if (IN.kstate == 1) { k_registered = 0; k_mask = 0; }
	else { k_registered = 1; k_mask = IN.stale_mask; }
	k_calls = 0; k_first_failed = 0; k_first_op = 0; k_other_calls = 0;
	O_kreg = k_registered; O_kmask = k_mask;
	G_n = IN.n; G_w = IN.w; G_in = IN.w < IN.n; G_noop = !ANYCH(&CHS[IN.w]);
	G_des = DESIRED(&CHS[IN.w]); G_xl = XL(G_des); G_anyet = ANYET(&CHS[IN.w]); G_strict = (IN.kstate == 0);
	r = VF_CALL(apply_changes_c, epoll_apply_changes, &BASE);
	(void)r;
#ifdef VF_CANARY
	__CPROVER_assert(k_calls == 0, "canary: must fail (the witness entry is applied)");
#endif
}
