/* C22/C08 — public bufferevent_decrement_read_limit (real bufferevent_ratelim.c); see contracts/c22g_decrement_unit.h */
#define C22G_WRITE 0
#include "c22g_decrement_unit.h"
