/* C18/C20/C08 — bufferevent_enable (real bufferevent.c): the user's enabled set gains `event`; the type's enable op is called once with
 * exactly the requested directions that are NOT suspended (a suspended direction — watermark, bandwidth, lookup — is not started), and not
 * at all if none is left; -1 iff the op failed.  Lock and the reference taken for the call are given back (no finalization). */
#include "c18_bev_unit.h"
#define IMPL_(ev) ((short)((ev) & ~(IN.rs ? EV_READ : 0) & ~(IN.ws ? EV_WRITE : 0)))
VF_CONTRACT(int, enable_c, struct bufferevent *bufev, short event)
__CPROVER_requires(bufev == BEV && BEVP.refcnt >= 1 && BEVP.refcnt < (1 << 24) && g_lock_depth[1] == 0 && g_e.en_calls == 0 && g_e.dis_calls == 0 && g_e.fin_calls == 0)
__CPROVER_assigns(BEV->enabled, BEVP.refcnt, BEV_GHOST_FRAME)
__CPROVER_ensures(BEV->enabled == (short)(IN.enabled | event))
__CPROVER_ensures(g_e.en_calls == B(IMPL_(event) != 0) && g_e.dis_calls == 0 && IMP(g_e.en_calls == 1, g_e.en_what == IMPL_(event) && g_e.en_lockdepth == HELD(1)))
__CPROVER_ensures((__CPROVER_return_value == 0 || __CPROVER_return_value == -1) && IMP(g_e.en_calls == 0 || !g_e.be_may_fail, __CPROVER_return_value == 0))
__CPROVER_ensures(BEVP.refcnt == IN.refcnt && g_e.fin_calls == 0 && g_lock_depth[1] == 0)
;
void harness(void)
{
	int r;
	VF_LOAD_IN(); vf_bev_build();
	__CPROVER_assume(IN.refcnt >= 1 && IN.refcnt < (1 << 24));
	r = VF_CALL(enable_c, bufferevent_enable, BEV, IN.iotype);
	(void)r;
	__CPROVER_assert(BEVP.read_suspended == IN.rs && BEVP.write_suspended == IN.ws && g_e.nseq == 0, "suspend words untouched, nothing called back");
#ifdef VF_CANARY
	__CPROVER_assert(g_e.en_calls == 0, "canary: must fail (an unsuspended direction is started)");
#endif
}
