/* C22/C08 — bev_refill_callback_ (real bufferevent_ratelim.c), the per-bufferevent refill timer: the bucket is refilled (C21:
 * ev_token_bucket_update_, replaced by its frame contract — the statement is over the levels AFTER the refill), then each direction that
 * is suspended for bandwidth is unsuspended iff its level is now > 0; if some suspended direction is still <= 0 the timer is re-armed
 * for one more tick; nothing is ever suspended here and nothing happens without a bucket.  Lock balanced. */
#include "c22_rl_unit.h"
#define OWN_ (IN.has_rlim && IN.has_cfg)
#define RBW_ ((IN.rs & BEV_SUSPEND_BW) != 0)
#define WBW_ ((IN.ws & BEV_SUSPEND_BW) != 0)
#define LR_ RL.limit.read_limit
#define LW_ RL.limit.write_limit
#define AGAIN_ (OWN_ && ((RBW_ && LR_ <= 0) || (WBW_ && LW_ <= 0)))
VF_CONTRACT_V(refill_c, evutil_socket_t fd, short what, void *arg)
__CPROVER_requires(arg == (void *)&BEVP && g_lock_depth[1] == 0 && g_r.n_add == 0 && g_r.n_del == 0)
__CPROVER_requires(g_r.sus_r[3] == 0 && g_r.sus_w[3] == 0 && g_r.unsus_r[3] == 0 && g_r.unsus_w[3] == 0)
__CPROVER_assigns(RL.limit.read_limit, RL.limit.write_limit, RL.limit.last_updated, BEVP.read_suspended, BEVP.write_suspended, RL_GHOST_FRAME)
__CPROVER_ensures(IMP(!OWN_, LR_ == IN.lim_r && LW_ == IN.lim_w && BEVP.read_suspended == IN.rs && BEVP.write_suspended == IN.ws && g_r.n_add == 0 && g_r.unsus_r[3] == 0 && g_r.unsus_w[3] == 0))
/* unsuspend iff suspended for bandwidth and the level is positive after the refill */
__CPROVER_ensures(g_r.unsus_r[3] == B(OWN_ && RBW_ && LR_ > 0) && g_r.unsus_w[3] == B(OWN_ && WBW_ && LW_ > 0) && g_r.sus_r[3] == 0 && g_r.sus_w[3] == 0)
__CPROVER_ensures(IMP(g_r.unsus_r[3] == 1, g_r.unsus_r_what == BEV_SUSPEND_BW) && IMP(g_r.unsus_w[3] == 1, g_r.unsus_w_what == BEV_SUSPEND_BW))
__CPROVER_ensures(BEVP.read_suspended == ((OWN_ && RBW_ && LR_ > 0) ? (IN.rs & ~BEV_SUSPEND_BW) : IN.rs) && BEVP.write_suspended == ((OWN_ && WBW_ && LW_ > 0) ? (IN.ws & ~BEV_SUSPEND_BW) : IN.ws))
/* still in deficit: one more tick */
__CPROVER_ensures(g_r.n_add == B(AGAIN_) && g_r.n_del == 0 && IMP(AGAIN_ && g_r.n_add_fail == 0, g_r.ev_timer && g_r.tv_sec == IN.tick_sec && g_r.tv_usec == IN.tick_usec))
__CPROVER_ensures(g_lock_depth[1] == 0 && g_lock_depth[2] == 0)
;
void harness(void)
{
	VF_LOAD_IN();
	vf_rl_build();
	__CPROVER_assume(IN.msec_per_tick != 0);
	VF_CALL_V(refill_c, bev_refill_callback_, -1, EV_TIMEOUT, (void *)&BEVP);
#ifdef VF_CANARY
	__CPROVER_assert(g_r.unsus_r[3] == 0, "canary: must fail (a refilled bucket resumes reading)");
#endif
}
