/* C10/C19/C08 — bufferevent_free (real bufferevent.c); see contracts/c19_ref_unit.h */
#define C19_REF_WHICH 2
#include "c19_ref_unit.h"
