/* C20/C08 — bufferevent_disable (real bufferevent.c): the user's enabled set loses `event` and the type's disable op is called once with
 * exactly `event`, under the lock; -1 iff the op failed. */
#include "c18_bev_unit.h"
VF_CONTRACT(int, disable_c, struct bufferevent *bufev, short event)
__CPROVER_requires(bufev == BEV && g_lock_depth[1] == 0 && g_e.en_calls == 0 && g_e.dis_calls == 0)
__CPROVER_assigns(BEV->enabled, BEV_GHOST_FRAME)
__CPROVER_ensures(BEV->enabled == (short)(IN.enabled & ~event))
__CPROVER_ensures(g_e.dis_calls == 1 && g_e.dis_what == event && g_e.dis_lockdepth == HELD(1) && g_e.en_calls == 0)
__CPROVER_ensures((__CPROVER_return_value == 0 || __CPROVER_return_value == -1) && IMP(!g_e.be_may_fail, __CPROVER_return_value == 0))
__CPROVER_ensures(g_lock_depth[1] == 0)
;
void harness(void)
{
	int r;
	VF_LOAD_IN(); vf_bev_build();
	r = VF_CALL(disable_c, bufferevent_disable, BEV, IN.iotype);
	(void)r;
	__CPROVER_assert(BEVP.read_suspended == IN.rs && BEVP.write_suspended == IN.ws && BEVP.refcnt == IN.refcnt && BEVP.connecting == (IN.connecting & 1) && g_e.nseq == 0, "suspend words, reference count, connecting untouched; nothing called back");
#ifdef VF_CANARY
	__CPROVER_assert(BEV->enabled == IN.enabled, "canary: must fail (the enabled set shrinks)");
#endif
}
