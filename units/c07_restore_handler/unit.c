/* C07 — evsig_restore_handler_ (real signal.c): the saved disposition is re-installed exactly,
 * the slot is emptied and the saved record released (also when sigaction fails, in which case the
 * kernel disposition is unchanged and -1 is returned); other signals are untouched. */
#define _GNU_SOURCE 1
#include "vf.h"
#include "signal.c"
#include "c07_signal_shape.h"
struct in { struct c07_in s; unsigned ch[VF_NCHOICE]; };
struct in IN;
#include "stubs/log.h"
#include "stubs/mm.h"
#define C07_BODY
#include "c07_signal_shape.h"

#define INARR (IN.s.sig < IN.s.sh_old_max)
#define HAS (INARR && IN.s.slot_saved)

VF_CONTRACT(int, restore_handler_c, struct event_base *base, int evsignal)
__CPROVER_requires(base == &BASE && evsignal == IN.s.sig)
__CPROVER_requires(g_sigaction_calls == 0 && g_sigaction_ok == 0 && g_sigaction_sets == 0 && g_mm_frees == 0)
__CPROVER_assigns(SHOLD[IN.s.sig], D_SIG, g_sigaction_calls, g_sigaction_ok, g_sigaction_sets, g_mm_live, g_mm_frees, errno, vf_nchoice_)
__CPROVER_frees(O_SLOT)
/* 1 a signal beyond the saved array: nothing to restore, nothing happens */
__CPROVER_ensures(IMP(!INARR, __CPROVER_return_value == 0 && g_sigaction_calls == 0 && SAEQ(D_SIG, O_CUR) && g_mm_frees == 0))
/* 2 one sigaction call; result reflects it */
__CPROVER_ensures(IMP(INARR, g_sigaction_calls == 1 && __CPROVER_return_value == (g_sigaction_ok == 1 ? 0 : -1)))
/* 3 C07: success re-installs exactly the disposition that was saved by the first add */
__CPROVER_ensures(IMP(HAS && __CPROVER_return_value == 0, SAEQ(D_SIG, O_SAVED)))
/* 4 failure leaves the kernel disposition as it was */
__CPROVER_ensures(IMP(__CPROVER_return_value == -1, SAEQ(D_SIG, O_CUR)))
/* 5 the slot is emptied and the record released in both cases */
__CPROVER_ensures(IMP(INARR, SHOLD[IN.s.sig] == NULL && g_mm_frees == (IN.s.slot_saved ? 1 : 0) && g_mm_live == __CPROVER_old(g_mm_live) - (IN.s.slot_saved ? 1 : 0)))
/* 6 an empty slot inside the array: sigaction is asked nothing (NULL act), the disposition stays */
__CPROVER_ensures(IMP(INARR && !IN.s.slot_saved, SAEQ(D_SIG, O_CUR) && g_sigaction_sets == 0))
/* 7 other signals untouched (witness); the array itself is kept */
__CPROVER_ensures(SAEQ(D_W, O_WCUR) && IMP(IN.s.w < IN.s.sh_old_max, SHOLD[IN.s.w] == O_WSLOT) && BASE.sig.sh_old == C07_OLDSH && BASE.sig.sh_old_max == IN.s.sh_old_max)
;

void harness(void)
{
	int r;
	VF_LOAD_IN();
	VF_MM_RESET();
	c07_build();
	r = VF_CALL(restore_handler_c, evsig_restore_handler_, &BASE, IN.s.sig);
	(void)r;
#ifdef VF_CANARY
	__CPROVER_assert(SAEQ(D_SIG, O_CUR), "canary: must fail (a restore changes the disposition)");
#endif
}
