/* C10/C19/C08 — bufferevent_decref_and_unlock_ (real bufferevent.c); see contracts/c19_ref_unit.h */
#define C19_REF_WHICH 0
#include "c19_ref_unit.h"
