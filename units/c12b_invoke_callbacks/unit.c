/* C13/C08 — evbuffer_invoke_callbacks_ (real buffer.c): immediate dispatch on a non-deferred buffer;
 * on a deferred buffer: schedule the deferred run (a reference is taken iff it was newly scheduled),
 * deliver immediately only to NODEFER entries and leave the counters for the deferred run.
 * evbuffer_run_callbacks is replaced by run_cb_c (enforced in c12b_run_callbacks). */
#define VF_NLOCKS 1
#include "vf.h"
#include "buffer.c"
struct eb_in;
#include "stubs/lock.h"
#include "evbuffer_shape.h"
#include "c12b_cb_in.h"
struct in { struct eb_in b; struct cb_in c; unsigned lock_held; unsigned pending; unsigned ch[VF_NCHOICE]; };
struct in IN;
#include "stubs/log.h"
#include "stubs/mm.h"
#include "c12b_cb.h"
#include "c12b_cb_ext.h"

#define DEFERRED_LIST (IN.c.ncb != 0 && BUF.deferred_cbs)
VF_CONTRACT_V(invoke_c, struct evbuffer *buffer)
__CPROVER_requires(buffer == &BUF)
__CPROVER_requires(IMP(BUF.lock != NULL, g_lock_depth[1] >= 1))          /* every mutator calls it with the buffer locked */
__CPROVER_requires(g_cb.n == 0 && g_cb.badarg == 0 && g_cb.calls[0] == 0 && g_cb.calls[1] == 0 && g_cb.calls[2] == 0)
__CPROVER_requires(g_dc.sched_calls == 0 && g_dc.sched_badarg == 0 && g_dc.bev_incref == 0 && g_dc.bev_badarg == 0 && g_dc.bev_decref == 0 && (g_dc.pending == 0 || g_dc.pending == 1))
__CPROVER_requires(O_cb_total == BUF.total_len && O_cb_nadd == BUF.n_add_for_cb && O_cb_ndel == BUF.n_del_for_cb && O_cb_lockdepth == g_lock_depth[1])
__CPROVER_requires(O_dc_pending == g_dc.pending && O_dc_refcnt == BUF.refcnt && BUF.refcnt >= 1 && BUF.refcnt <= 1000)
__CPROVER_assigns(BUF.n_add_for_cb, BUF.n_del_for_cb, BUF.callbacks.lh_first, BUF.refcnt, g_lock_depth[1], g_lock_ops,
	__CPROVER_object_whole(ENT), __CPROVER_object_whole(&g_cb), __CPROVER_object_whole(&g_dc))
/* 1 C08: lock balance */
__CPROVER_ensures(g_lock_depth[1] == O_cb_lockdepth)
/* 2 no callbacks registered: the changes are dropped, nothing is scheduled */
__CPROVER_ensures(IMP(IN.c.ncb == 0, BUF.n_add_for_cb == 0 && BUF.n_del_for_cb == 0 && g_dc.sched_calls == 0 && BUF.refcnt == O_dc_refcnt && g_cb.n == 0 && g_dc.bev_incref == 0))
/* 3 deferred buffer: the deferred run is requested exactly once per call, with the buffer's own handle and queue, while the lock is held;
 *   a reference on the buffer (and on its parent bufferevent) is taken iff this call newly scheduled it — one reference per pending run */
__CPROVER_ensures(IMP(DEFERRED_LIST, g_dc.sched_calls == 1 && g_dc.sched_badarg == 0 && g_dc.pending == 1 && g_dc.sched_lock_then == O_cb_lockdepth))
__CPROVER_ensures(IMP(DEFERRED_LIST, BUF.refcnt == O_dc_refcnt + (O_dc_pending ? 0 : 1) && g_dc.bev_incref == ((!O_dc_pending && BUF.parent != NULL) ? 1 : 0) && g_dc.bev_badarg == 0))
/* 5 deferred buffer: the counters keep accumulating until the deferred run (aggregation) */
__CPROVER_ensures(IMP(DEFERRED_LIST, BUF.n_add_for_cb == O_cb_nadd && BUF.n_del_for_cb == O_cb_ndel))
/* 6 non-deferred buffer: nothing scheduled, no reference taken, counters reset by the report */
__CPROVER_ensures(IMP(IN.c.ncb != 0 && !BUF.deferred_cbs, g_dc.sched_calls == 0 && BUF.refcnt == O_dc_refcnt && g_dc.bev_incref == 0 && BUF.n_add_for_cb == 0 && BUF.n_del_for_cb == 0))
/* 7-10 who is told what (model of pass 0, see c12b_cb.h): exactly the selected entries, once, with exact info */
__CPROVER_ensures(g_cb.badarg == 0 && g_cb.n == O_cb_nexpect)
__CPROVER_ensures(VF_CB_CALLED_OK(0))
__CPROVER_ensures(VF_CB_CALLED_OK(1))
__CPROVER_ensures(VF_CB_CALLED_OK(2))
__CPROVER_ensures(VF_CB_ONCE(0) && VF_CB_ONCE(1) && VF_CB_ONCE(2))
__CPROVER_ensures(g_dc.bev_decref == 0)
;

void harness(void)
{
	VF_LOAD_IN();
	vf_build_buf_nochains(&IN.b);
	vf_build_cbs(&IN.c);
	VF_INSTALL_LOCKS(); VF_MM_RESET(); VF_CB_RESET(); VF_DC_RESET();
#ifdef VF_FIX_DEFERRED
	__CPROVER_assume(BUF.deferred_cbs == VF_FIX_DEFERRED);
#endif
	if (BUF.lock) g_lock_depth[1] = 1 + (IN.lock_held & 1);
	O_cb_lockdepth = g_lock_depth[1];
	O_dc_pending = g_dc.pending; O_dc_refcnt = BUF.refcnt;
	vf_cb_model(&IN.c, 0);
	VF_CALL_V(invoke_c, evbuffer_invoke_callbacks_, &BUF);
	__CPROVER_assert(BUF.total_len == O_cb_total, "invoking callbacks does not change the buffer length");
	__CPROVER_assert(IMP(BUF.lock == NULL, g_lock_ops == 0), "no lock operations on a buffer without a lock");
#ifdef VF_CANARY
	__CPROVER_assert(BUF.refcnt == O_dc_refcnt, "canary: must fail (a newly scheduled deferred run takes a reference)");
#endif
}
