/* C05 — select_del (real select.c): the fd's bits named by the delete are cleared in the
 * interest sets, its other bit and every other fd's bits are unchanged (witness over all 1024
 * bits of the backing object, so a write beyond the allocation is caught as well). */
#define _GNU_SOURCE 1
#include "vf.h"
#include "select.c"
#include "c05_select_shape.h"
struct in { int fd; short old, events; struct c05_sel_in s; unsigned ch[VF_NCHOICE]; };
struct in IN;
#include "stubs/log.h"
#include "stubs/mm.h"
#define C05_SEL_BODY
#include "c05_select_shape.h"

#define INSETS (IN.fd <= IN.s.event_fds)

VF_CONTRACT(int, select_del_c, struct event_base *base, int fd, short old, short events, void *p)
__CPROVER_requires(base == &BASE && fd == IN.fd && old == IN.old && events == IN.events && fd >= 0 && (events & EV_SIGNAL) == 0)
__CPROVER_assigns(__CPROVER_object_whole(RIN), __CPROVER_object_whole(WIN))
__CPROVER_ensures(__CPROVER_return_value == 0)
/* C05: the fd's bits: cleared if named, else unchanged (an fd above every fd ever added has no bits) */
__CPROVER_ensures(IMP(INSETS, C05_BIT(RIN, fd) == ((IN.events & EV_READ) ? 0 : C05_O_R(fd)) && C05_BIT(WIN, fd) == ((IN.events & EV_WRITE) ? 0 : C05_O_W(fd))))
/* every other bit unchanged */
__CPROVER_ensures(IMP(IN.s.g != fd || !INSETS, C05_BIT(RIN, IN.s.g) == C05_O_R(IN.s.g) && C05_BIT(WIN, IN.s.g) == C05_O_W(IN.s.g)))
/* the selectop itself is untouched */
__CPROVER_ensures(SOP.event_fds == IN.s.event_fds && SOP.event_fdsz == C05_FDSZ && SOP.resize_out_sets == 0 && SOP.event_readset_in == (fd_set *)RIN && SOP.event_writeset_in == (fd_set *)WIN)
;

void harness(void)
{
	int r;
	VF_LOAD_IN();
	__CPROVER_assume(IN.fd >= 0 && (IN.events & EV_SIGNAL) == 0);
	c05_build_sel();
	r = VF_CALL(select_del_c, select_del, &BASE, IN.fd, IN.old, IN.events, NULL);
	(void)r;
#ifdef VF_CANARY
	__CPROVER_assert(C05_BIT(RIN, IN.s.g) == C05_O_R(IN.s.g), "canary: must fail (the witness may be the fd itself)");
#endif
}
