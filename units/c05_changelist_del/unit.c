/* C05/C06 — event_changelist_del_ (real evmap.c, get_or_construct and grow inlined): queuing a
 * delete gives desired(old_events, change') = desired(old_events, change) ∖ events; a delete
 * after an uncommitted add cancels it (no-op entry), and a delete of a condition that
 * old_events does not hold is DROPPED — so the change handed to epoll_apply_one_change never
 * deletes a condition absent from old_events (call-site condition of unit c06_apply_one_change). */
#include "vf.h"
#include "evmap.c"
#include "c05_changelist.h"
struct in { int fd; short old, events; struct c05_cl_in cl; unsigned ch[VF_NCHOICE]; };
struct in IN;
#include "stubs/log.h"
#define VF_MM_NO_REALLOC
#include "stubs/mm.h"
#define C05_CL_BODY
#include "c05_changelist.h"

#define DELBYTE ((ev_uint8_t)(EV_CHANGE_DEL | (IN.events & EV_ET)))
#define CUR (&C05_CHS[CL_IDX])

VF_CONTRACT(int, cl_del_c, struct event_base *base, evutil_socket_t fd, short old, short events, void *p)
__CPROVER_requires(base == &BASE && fd == IN.fd && old == IN.old && events == IN.events && p == (void *)&FDI)
__CPROVER_requires(g_mm_realloc_calls == 0)
__CPROVER_assigns(BASE.changelist.changes, BASE.changelist.n_changes, BASE.changelist.changes_size, FDI.idxplus1,
	__CPROVER_object_whole(OLDCH), __CPROVER_object_whole(NEWCH), g_mm_realloc_calls, g_mm_realloc_ok, g_mm_realloc_sz, errno, vf_nchoice_)
/* 1 fails only when a new entry is needed and the array cannot grow; then nothing changes */
__CPROVER_ensures(__CPROVER_return_value == (CL_ALLOC_FAILED ? -1 : 0))
__CPROVER_ensures(IMP(__CPROVER_return_value == -1, BASE.changelist.n_changes == IN.cl.n_changes && BASE.changelist.changes_size == IN.cl.changes_size
	&& BASE.changelist.changes == C05_OLDCH && FDI.idxplus1 == IN.cl.idxplus1))
/* 3 links */
__CPROVER_ensures(IMP(__CPROVER_return_value == 0, FDI.idxplus1 == CL_IDX + 1 && BASE.changelist.n_changes == IN.cl.n_changes + (CL_FRESH ? 1 : 0)
	&& BASE.changelist.n_changes <= BASE.changelist.changes_size && CUR->fd == fd))
/* 4 old_events */
__CPROVER_ensures(IMP(__CPROVER_return_value == 0, CUR->old_events == CL_O_OLD))
/* 5 each condition named by the delete: DEL|ET if old_events holds it, no change at all otherwise (this also cancels a pending add); the others keep their pending change */
__CPROVER_ensures(IMP(__CPROVER_return_value == 0,
	   CUR->read_change == ((IN.events & (EV_READ|EV_SIGNAL)) ? ((CL_O_OLD & (EV_READ|EV_SIGNAL)) ? DELBYTE : 0) : CL_O_R)
	&& CUR->write_change == ((IN.events & EV_WRITE) ? ((CL_O_OLD & EV_WRITE) ? DELBYTE : 0) : CL_O_W)
	&& CUR->close_change == ((IN.events & EV_CLOSED) ? ((CL_O_OLD & EV_CLOSED) ? DELBYTE : 0) : CL_O_C)))
/* 6 C05: the conditions registered after applying the change shrink by exactly the deleted ones */
__CPROVER_ensures(IMP(__CPROVER_return_value == 0, DESIRED(CUR) == (DESIRED4(CL_O_OLD, CL_O_R, CL_O_W, CL_O_C)
	& ~(((IN.events & (EV_READ|EV_SIGNAL)) ? EV_READ : 0) | (IN.events & (EV_WRITE|EV_CLOSED))))))
/* 7 C06 call-site condition: no ADD+DEL byte; a delete never names a condition absent from old_events */
__CPROVER_ensures(IMP(__CPROVER_return_value == 0, POSSIBLE(CUR) && DELOK(CUR)))
/* 8 every other entry unchanged (witness w) */
__CPROVER_ensures(IMP(__CPROVER_return_value == 0 && IN.cl.w < IN.cl.n_changes && IN.cl.w != CL_IDX,
	C05_CHS[IN.cl.w].fd == IN.cl.efd[IN.cl.w] && C05_CHS[IN.cl.w].old_events == IN.cl.eold[IN.cl.w] && C05_CHS[IN.cl.w].read_change == IN.cl.er[IN.cl.w]
	&& C05_CHS[IN.cl.w].write_change == IN.cl.ew[IN.cl.w] && C05_CHS[IN.cl.w].close_change == IN.cl.ec[IN.cl.w]))
__CPROVER_ensures(IMP(!CL_GROW_NEEDED, g_mm_realloc_calls == 0 && BASE.changelist.changes == C05_OLDCH && BASE.changelist.changes_size == IN.cl.changes_size))
;

void harness(void)
{
	int r;
	VF_LOAD_IN();
	c05_build_cl();
	VF_MM_RESET();
	r = VF_CALL(cl_del_c, event_changelist_del_, &BASE, IN.fd, IN.old, IN.events, (void *)&FDI);
	(void)r;
#ifdef VF_CANARY
	__CPROVER_assert(!(r == 0 && (C05_CHS[CL_IDX].write_change & EV_CHANGE_DEL)), "canary: must fail (some deletes are queued)");
#endif
}
