/* C12/C08 — evbuffer_get_length (real buffer.c): the length of the byte string; nothing modified; lock balanced. */
#define VF_NLOCKS 1
#include "vf.h"
#include "buffer.c"
struct eb_in;
#include "stubs/lock.h"
#include "evbuffer_shape.h"

struct in { struct eb_in b;  unsigned ch[VF_NCHOICE]; };
struct in IN;
#include "stubs/log.h"
#include "stubs/mm.h"

VF_CONTRACT(size_t, get_length_c, const struct evbuffer *buffer)
__CPROVER_requires(buffer == &BUF && g_lock_depth[1] == 0)
__CPROVER_assigns(g_lock_depth[1], g_lock_ops)
__CPROVER_ensures(g_lock_depth[1] == 0)
__CPROVER_ensures(__CPROVER_return_value == BUF.total_len)
;
void harness(void)
{
	size_t r;
	VF_LOAD_IN();
	vf_build_buf(&IN.b);
	VF_INSTALL_LOCKS(); VF_MM_RESET();
	r = VF_CALL(get_length_c, evbuffer_get_length, &BUF);
	/* total_len is the length of the byte string: the sum of the chains' data (shape invariant) */
	__CPROVER_assert(r == (IN.b.nch > 0 ? IN.b.off[0] : 0) + (IN.b.nch > 1 ? IN.b.off[1] : 0) + (IN.b.nch > 2 ? IN.b.off[2] : 0), "C12: evbuffer_get_length is the length of the byte string");
#ifdef VF_CANARY
	__CPROVER_assert(r == 0, "canary: must fail (non-empty buffers exist)");
#endif
}
