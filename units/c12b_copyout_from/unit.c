/* C12/C14/C08 — evbuffer_copyout_from (real buffer.c), CONTENT unit: every shape of <= 3 chains x <= 4 bytes
 * (all misalign/off/buffer_len, all byte values), with and without a start position, any datlen.
 * Byte-string model: the call returns min(datlen, length - pos) and copies exactly those bytes, in order. */
#define VF_NLOCKS 1
#include "vf.h"
#include "buffer.c"
struct eb_in;
#include "stubs/lock.h"
#include "evbuffer_shape.h"
#include "c12b_content_in.h"
#define OUTCAP (VF_CT_MLEN + 1)
struct outbuf { unsigned char b[OUTCAP]; };
struct in { struct eb_in b; struct ct_in d; unsigned use_pos; size_t p; size_t datlen; struct outbuf out0; size_t w; unsigned ch[VF_NCHOICE]; };
struct in IN;
#include "stubs/log.h"
#include "stubs/mm.h"
#include "c12b_content.h"

static struct outbuf OUTB;
#define OUT (OUTB.b)
static struct evbuffer_ptr POS;
size_t O_p;                       /* start position of the copy in the byte string (0 without a position argument) */
#define AVAIL (M_len - O_p)
#define NCOPY (datlen < AVAIL ? datlen : AVAIL)
/* argument validation of the positional form: pos + datlen must be representable as ev_ssize_t */
#define OVF (pos != NULL && datlen > (size_t)EV_SSIZE_MAX - O_p)

VF_CONTRACT(ev_ssize_t, copyout_from_c, struct evbuffer *buf, const struct evbuffer_ptr *pos, void *data_out, size_t datlen)
__CPROVER_requires(buf == &BUF && data_out == OUT && (pos == NULL || pos == &POS) && g_lock_depth[1] == 0)
__CPROVER_requires(O_p <= M_len && M_len == BUF.total_len && IMP(pos == NULL, O_p == 0))
__CPROVER_assigns(g_lock_depth[1], g_lock_ops, __CPROVER_object_whole(&OUTB))
/* 1 C08 */
__CPROVER_ensures(g_lock_depth[1] == 0)
/* 2 the returned length is the model's: min(datlen, bytes available from the position); nothing to copy is success even on a frozen buffer;
 *   a non-empty copy from a buffer whose front is frozen is refused (buffer.c's rule, shared with evbuffer_remove) */
__CPROVER_ensures(IMP(OVF, __CPROVER_return_value == -1))
__CPROVER_ensures(IMP(!OVF && NCOPY == 0, __CPROVER_return_value == 0))
__CPROVER_ensures(IMP(!OVF && NCOPY != 0 && BUF.freeze_start, __CPROVER_return_value == -1))
__CPROVER_ensures(IMP(!OVF && NCOPY != 0 && !BUF.freeze_start, __CPROVER_return_value == (ev_ssize_t)NCOPY))
;

void harness(void)
{
	ev_ssize_t r; unsigned i; size_t n;
	VF_LOAD_IN();
	vf_ct_build(&IN.b, &IN.d);
	vf_ct_model(&IN.b);
	VF_INSTALL_LOCKS(); VF_MM_RESET();
	OUTB = IN.out0;   /* struct copy: no harness loop to unwind */
	if (IN.use_pos & 1) { __CPROVER_assume(IN.p <= M_len); O_p = IN.p; vf_ptr_model(&IN.b, IN.p, &POS); } else O_p = 0;
	r = VF_CALL(copyout_from_c, evbuffer_copyout_from, &BUF, (IN.use_pos & 1) ? &POS : NULL, OUT, IN.datlen);
	n = r > 0 ? (size_t)r : 0;
	/* content, by a witness index (any w): copied bytes are the model's bytes from the position on, in order; nothing else of the output is written */
	__CPROVER_assume(IN.w < OUTCAP);
	__CPROVER_assert(IMP(IN.w < n, OUT[IN.w] == M[O_p + IN.w]), "C12: byte w of the output is byte pos+w of the byte string");
	__CPROVER_assert(IMP(IN.w >= n, OUT[IN.w] == IN.out0.b[IN.w]), "C12/C14: output beyond the returned length (and all of it on failure) is untouched");
	/* the buffer itself is not in the assigns clause: it is unchanged on every path (C14) */
	__CPROVER_assert(vf_binv_idx(&BUF, 0, IN.b.nch) || IN.b.nch == 0, "buffer bookkeeping unchanged");
	if (IN.use_pos & 1) __CPROVER_assert(vf_ptr_is(&IN.b, &POS, IN.p), "the position argument is not modified");
#ifdef VF_CANARY
	__CPROVER_assert(r != 5, "canary: must fail (a 5-byte copy across chains is possible)");
#endif
}
