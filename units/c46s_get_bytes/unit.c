/* C46 (secure bytes) — evutil_secure_rng_get_bytes (real evutil_rand.c) AS BUILT HERE: event-config.h has
 * EVENT__HAVE_ARC4RANDOM and EVENT__HAVE_ARC4RANDOM_BUF (glibc >= 2.36), so arc4random.c is NOT compiled in and
 * the function is ev_arc4random_buf -> the platform's arc4random_buf(buf, n).  Proved: the platform function is
 * called exactly once with exactly (buf, n) - so, given the platform's contract "arc4random_buf fills all n
 * bytes" (model below, trusted), every byte index of [buf, buf+n) is assigned (ghost witness index IN.w) and no
 * byte outside is written.  The bundled generator (arc4random.c), used on platforms without arc4random_buf, is
 * unit c46s_arc4_buf. */
#include "vf.h"
#include "evutil_rand.c"
#include "stubs/log.h"
#define VF_CAP 64
struct in { size_t n; size_t w; unsigned char fill[VF_CAP + 2]; unsigned char rnd[VF_CAP]; };
struct in IN;
static unsigned char BUF[VF_CAP + 2];          /* one guard byte on each side of the longest request */
static unsigned char WR[VF_CAP + 2];           /* ghost: byte was assigned by the generator */
int g_calls;
/* model of the platform's arc4random_buf: assigns every byte of [buf, buf+n) */
void arc4random_buf(void *buf, size_t n)
{
	size_t i; unsigned char *b = buf;
	g_calls++;
	__CPROVER_assert(n <= VF_CAP, "model capacity");
	for (i = 0; i < VF_CAP; i++) { if (i >= n) break; b[i] = IN.rnd[i]; WR[(b - BUF) + i] = 1; }
}
void harness(void)
{
	size_t i;
	VF_LOAD_IN();
	__CPROVER_assume(IN.n <= VF_CAP && IN.w < VF_CAP + 2);
	g_calls = 0;
	for (i = 0; i < VF_CAP + 2; i++) { BUF[i] = IN.fill[i]; WR[i] = 0; }
	evutil_secure_rng_get_bytes(BUF + 1, IN.n);
	__CPROVER_assert(g_calls == 1, "the generator is asked exactly once");
	__CPROVER_assert(IFF(WR[IN.w] == 1, IN.w >= 1 && IN.w < 1 + IN.n), "every byte of [buf, buf+n) is assigned and no byte outside it (witness index w)");
	__CPROVER_assert(IMP(IN.w >= 1 && IN.w < 1 + IN.n, BUF[IN.w] == IN.rnd[IN.w - 1]), "the bytes delivered are the generator's output, in order");
	__CPROVER_assert(IMP(!(IN.w >= 1 && IN.w < 1 + IN.n), BUF[IN.w] == IN.fill[IN.w]), "bytes outside the request are unchanged");
#ifdef VF_CANARY
	__CPROVER_assert(WR[3] == 0, "canary: must fail (a request of 3 bytes assigns index 3 of the guarded buffer)");
#endif
}
