/* C41 — evutil_ascii_strncasecmp (real evutil.c) against the ASCII reference, for byte arrays of
 * the object size (all contents), every n in size_t, strings NUL-terminated or - when n does not
 * exceed the object - not terminated at all.  The loop is closed by a LOOP CONTRACT (nothing
 * unwound in the function).  Proved: reads stay at indices <= the first difference / common end /
 * n-1, termination, no writes, and
 *    0   iff the first n bytes (up to a common NUL) are equal after mapping 'A'..'Z' to 'a'..'z',
 *   -1/1 by the order of the two mapped bytes at the first difference, when both are ASCII (< 0x80).
 * Order of NON-ASCII bytes: see unit c41_strcasecmp_8bit (candidate finding). */
#include "vf.h"
#include "evutil.c"
#include "stubs/log.h"
struct in { unsigned char a[VF_N]; unsigned char b[VF_N]; int n1, n2; size_t n; };
struct in IN;
#include "c41_str.h"
int g_d, g_ref, g_ascii;     /* ghost: index of the first difference / common end, or min(n, VF_N) if none; reference result; ASCII flag */

VF_CONTRACT(int, strncasecmp_c, const char *s1, const char *s2, size_t n)
__CPROVER_requires(0 <= g_n1 && g_n1 <= VF_N && 0 <= g_n2 && g_n2 <= VF_N)
__CPROVER_requires(__CPROVER_r_ok(s1, VF_N) && __CPROVER_r_ok(s2, VF_N))
/* each string has a NUL at its witness index, or is an unterminated array at least n bytes long */
__CPROVER_requires(g_n1 < VF_N ? s1[g_n1] == 0 : n <= VF_N)
__CPROVER_requires(g_n2 < VF_N ? s2[g_n2] == 0 : n <= VF_N)
__CPROVER_assigns()
__CPROVER_ensures(__CPROVER_return_value == -1 || __CPROVER_return_value == 0 || __CPROVER_return_value == 1)
__CPROVER_ensures(IFF(__CPROVER_return_value == 0, g_ref == 0))
__CPROVER_ensures(IMP(g_ascii, __CPROVER_return_value == g_ref))
;

void harness(void)
{
	int r, i, d, L;
	VF_LOAD_IN();
	__CPROVER_assume(0 <= IN.n1 && IN.n1 <= VF_N && 0 <= IN.n2 && IN.n2 <= VF_N);
	__CPROVER_assume(IN.n1 < VF_N || IN.n <= VF_N);
	__CPROVER_assume(IN.n2 < VF_N || IN.n <= VF_N);
	for (i = 0; i < VF_N; i++) { A[i] = (char)IN.a[i]; B[i] = (char)IN.b[i]; }
	if (IN.n1 < VF_N) A[IN.n1] = 0;
	if (IN.n2 < VF_N) B[IN.n2] = 0;
	g_n1 = IN.n1; g_n2 = IN.n2;
	/* reference: first index below min(n, object size) where the mapped bytes differ or both strings end */
	L = IN.n < VF_N ? (int)IN.n : VF_N;
	d = -1;
	for (i = 0; i < VF_N; i++)
		if (d < 0 && i < L && (ref_lower((unsigned char)A[i]) != ref_lower((unsigned char)B[i]) || A[i] == 0)) d = i;
	if (d < 0) {
		d = L;
		__CPROVER_assert((size_t)L == IN.n, "harness: no difference and no NUL within the object only if n is within the object");
		g_ref = 0; g_ascii = 1;
	} else {
		g_ref = ref_cmp_char_unsigned(A[d], B[d]);
		g_ascii = (unsigned char)A[d] < 0x80 && (unsigned char)B[d] < 0x80;
	}
	g_d = d;
	r = VF_CALL(strncasecmp_c, evutil_ascii_strncasecmp, A, B, IN.n);
	(void)r;
#ifdef VF_CANARY
	__CPROVER_assert(r != 1, "canary: must fail (\"b\" vs \"A\", n = 1 gives 1)");
#endif
}
