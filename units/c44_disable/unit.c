/* C44 (+C08) — evconnlistener_disable (real listener.c): marks the listener disabled and deletes its event
 * (always - also when no callback is installed), returns the result of event_del; nothing else changes; the
 * lock is taken once and released.  With the event deleted listener_read_cb is not run: nothing is accepted. */
#include "c44_listener_unit.h"
VF_CONTRACT(int, disable_c, struct evconnlistener *lev)
__CPROVER_requires(lev == &L->base && g_lock_depth[1] == 0 && g_l.add_calls == 0 && g_l.del_calls == 0 && g_mm_frees == 0)
__CPROVER_assigns(L->base.enabled, __CPROVER_object_whole(&g_l), g_lock_depth[1], g_lock_ops, vf_nchoice_)
__CPROVER_ensures(L->base.enabled == 0)
__CPROVER_ensures(g_l.del_calls == 1 && g_l.add_calls == 0)
__CPROVER_ensures(__CPROVER_return_value == g_l.del_ret)
__CPROVER_ensures(g_l.del_lockdepth == (IN.has_lock ? 1 : 0) && IMP(g_l.del_ret == 0, g_l.ev_pending == 0))
__CPROVER_ensures(g_lock_depth[1] == 0 && g_mm_frees == 0 && g_l.accept_calls == 0 && g_l.lfd_closed == 0)
;
void harness(void)
{
	int r;
	VF_LOAD_IN();
	vf_c44_build();
	r = VF_CALL(disable_c, evconnlistener_disable, &L->base);
	__CPROVER_assert(L->base.refcnt == IN.refcnt && L->base.flags == IN.flags && L->base.cb == (IN.has_cb ? vf_user_cb : NULL) && L->base.user_data == &vf_ud_a && L->base.accept4_flags == IN.a4flags, "frame: nothing but `enabled` changes");
#ifdef VF_CANARY
	__CPROVER_assert(r == 0, "canary: must fail (event_del may fail)");
#endif
}
