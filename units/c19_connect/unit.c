/* C19/C08/C10 — bufferevent_socket_connect (real bufferevent_sock.c; be_socket_ctrl/be_socket_setfd/be_socket_enable inlined
 * through the type's real ops table).  CONNECTED is never reported from here (only bufferevent_writecb reports it, after
 * clearing `connecting`); a connect that is in progress or completed at once sets `connecting` and leaves the report to
 * the write callback; an immediate refusal reports BEV_EVENT_ERROR (deferred) and disables both directions; every failure
 * (-1) reports nothing, leaves `connecting` alone and closes a socket the function created itself. */
#include "c17_sock_unit.h"
static struct sockaddr SA;
int O_refcnt, O_conn; short O_enabled;
#define OWN_ (IN.cur_fd < 0 && IN.has_sa)
#define NOFD_ (IN.cur_fd < 0 && (!IN.has_sa || IN.new_fd < 0))
#define R_ (IN.has_sa ? g_s.sock_connect_ret : 0)
VF_CONTRACT(int, connect_c, struct bufferevent *bev, const struct sockaddr *sa, int socklen)
__CPROVER_requires(bev == BEV && (sa == NULL || sa == &SA) && BEVP.refcnt >= 1 && BEVP.refcnt < (1 << 24) && g_lock_depth[1] == 0)
__CPROVER_requires(g_s.nrep == 0 && g_s.nev == 0 && g_s.socket_calls == 0 && g_s.close_calls == 0 && g_s.sock_connect_calls == 0 && g_s.setfd_calls == 0 && g_s.disable_calls == 0 && g_s.freed == 0)
__CPROVER_assigns(BEV->enabled, BEVP.connecting, BEVP.refcnt, SOCK_GHOST_FRAME)
__CPROVER_ensures(__CPROVER_return_value == 0 || __CPROVER_return_value == -1)
/* 2 no usable fd: fail without side effect */
__CPROVER_ensures(IMP(NOFD_, __CPROVER_return_value == -1 && g_s.sock_connect_calls == 0 && g_s.setfd_calls == 0 && g_s.close_calls == 0))
__CPROVER_ensures(g_s.socket_calls == B(OWN_))
/* 4 connect() failed: the socket we made is closed, a caller's fd is not; nothing installed */
__CPROVER_ensures(IMP(!NOFD_ && R_ < 0, __CPROVER_return_value == -1 && g_s.setfd_calls == 0 && g_s.close_calls == B(OWN_) && IMP(OWN_, g_s.close_fd == IN.new_fd)))
/* 5 every failure: nothing reported, connecting unchanged */
__CPROVER_ensures(IMP(__CPROVER_return_value == -1, g_s.nrep == 0 && BEVP.connecting == O_conn && BEV->enabled == O_enabled))
/* 6 in progress: wait for writability with `connecting` set */
__CPROVER_ensures(IMP(!NOFD_ && R_ == 0 && __CPROVER_return_value == 0, BEVP.connecting == 1 && g_s.ev[1].ins == 1 && g_s.nrep == 0))
__CPROVER_ensures(IMP(!NOFD_ && R_ == 0 && __CPROVER_return_value == -1, g_s.ev[1].n_add_fail >= 1))
/* 8 completed at once: still reported through the write callback */
__CPROVER_ensures(IMP(!NOFD_ && R_ == 1, __CPROVER_return_value == 0 && BEVP.connecting == 1 && g_s.nev == 0 && g_s.wcb.n == B(g_s.len_out <= BEV->wm_write.low) && IMP(g_s.wcb.n == 1, g_s.wcb.options & BEV_OPT_DEFER_CALLBACKS)))
/* 9 refused at once: ERROR (deferred), both directions disabled, not connecting */
__CPROVER_ensures(IMP(!NOFD_ && R_ >= 2, __CPROVER_return_value == 0 && g_s.nev == 1 && g_s.ev0.what == BEV_EVENT_ERROR && (g_s.ev0.options & BEV_OPT_DEFER_CALLBACKS) && !(BEV->enabled & (EV_READ|EV_WRITE)) && BEVP.connecting == O_conn))
/* 10 the new fd is installed exactly when connect() did not fail */
__CPROVER_ensures(IMP(!NOFD_ && R_ >= 0, g_s.setfd_calls == 1 && g_s.fd == (IN.cur_fd < 0 ? IN.new_fd : IN.cur_fd) && g_s.close_calls == 0))
__CPROVER_ensures(BEVP.refcnt == O_refcnt && g_s.freed == 0 && g_lock_depth[1] == 0)
;
void harness(void)
{
	int r;
	VF_LOAD_IN();
	vf_sock_build();
	__CPROVER_assume(IN.refcnt >= 1 && IN.refcnt < (1 << 24));
	__CPROVER_assume(IN.sc_ret >= -1 && IN.sc_ret <= 2);
	/* an fd-less socket bufferevent has no added events (be_socket_setfd / bufferevent_socket_new(-1) never add them) */
	O_refcnt = IN.refcnt; O_conn = IN.connecting & 1; O_enabled = IN.enabled;
	SA.sa_family = AF_INET;
	r = VF_CALL(connect_c, bufferevent_socket_connect, BEV, IN.has_sa ? &SA : NULL, (int)sizeof(SA));
	(void)r;
	__CPROVER_assert(!(g_s.ev0.n && (g_s.ev0.what & BEV_EVENT_CONNECTED)) && !(g_s.ev1.n && (g_s.ev1.what & BEV_EVENT_CONNECTED)), "bufferevent_socket_connect never reports CONNECTED itself");
	__CPROVER_assert(g_s.read_calls == 0 && g_s.write_calls == 0 && g_s.rcb.n == 0, "no I/O and no read callback from connect");
#ifdef VF_CANARY
	__CPROVER_assert(g_s.nev == 0, "canary: must fail (an immediate refusal is reported)");
#endif
}
