/* C23/C24 — evhttp_get_body_length + evhttp_find_header (real http.c): how long is the body when
 * there is no chunked Transfer-Encoding.  RFC 9110 8.6 / RFC 9112 6.3:
 *   Content-Length = 1*DIGIT; a value that is not all digits, or that does not fit the
 *   implementation's integer, is an unrecoverable framing error (request: 400; response: fail);
 *   a message without Content-Length: request => no body; response => body until close.
 * Header list built by the harness: optional Content-Length (value of at most VF_N bytes, all
 * contents) and optional Connection (5 symbolic bytes), in either order.
 *  (1) all-digit value that fits 63 bits  => accepted, ntoread = the value exactly;
 *  (2) "cl-malformed": anything else      => -1 (the caller answers 400 / fails the request);
 *  (2b) "cl-conflict": two Content-Length fields with different values => -1;
 *  (3) no Content-Length: ntoread is -1 (read until close) or 0, and for a RESPONSE
 *      "eof-delimited": it is -1 whatever the Connection header says.
 * Known deviations are separated by VF_KF_EXCLUDE / VF_KF_ONLY (see KF_* below). */
#ifndef VF_N
#define VF_N 8
#endif
#if VF_N > 15
#define VF_STRMAX VF_N
#else
#define VF_STRMAX 15          /* "Content-Length" is 14 bytes */
#endif
#include "vf.h"
#include "http.c"
struct in { unsigned char v[VF_N]; unsigned vlen; unsigned char c[5]; unsigned char v2; int have_cl, have_conn, cl_first, have_cl2; int kind; ev_int64_t ntoread0; };
struct in IN;
#include "stubs/log.h"
#include "stubs/c23_libc_ref.h"
#include "c23_ref.h"
/* the event_debug(()) argument list mentions the input buffer length; never evaluated (logging off) but compiled */
static struct evbuffer *vf_dummy_evb_;
struct evbuffer *bufferevent_get_input(struct bufferevent *b) { (void)b; return vf_dummy_evb_; }
size_t evbuffer_get_length(const struct evbuffer *b) { (void)b; return 0; }

static char VB[VF_N + 1], CB[6], VB2[2];
static char K_CL[] = "Content-Length", K_CONN[] = "Connection";
static struct evkeyvalq Q; static struct evkeyval H_CL, H_CONN, H_CL2;
static struct evhttp_request REQ; static struct evhttp_connection EVCON;

/* reference, arithmetic-free: 1*DIGIT, and the number fits in 63 bits, i.e. after leading zeros it has
 * fewer than 19 digits, or exactly 19 digits that are lexicographically <= "9223372036854775807" */
static int ref_cl_valid(const char *v, unsigned n)
{
	static const char MAX63[] = "9223372036854775807";
	unsigned i, z = 0, nd; int cmp = 0;
	if (n == 0) return 0;
	for (i = 0; i < VF_STRMAX; i++) { if (i >= n) break; if (!ISDIGIT(v[i])) return 0; }
	for (i = 0; i < VF_STRMAX; i++) { if (i >= n || v[i] != '0') break; z++; }
	nd = n - z;
	if (nd < 19) return 1;
	if (nd > 19) return 0;
	for (i = 0; i < 19; i++) { if (cmp == 0 && v[z + i] != MAX63[i]) cmp = v[z + i] < MAX63[i] ? -1 : 1; }
	return cmp <= 0;
}

/* the malformed values the code is known to let through (known finding C23-content-length-lenient): what strtoll
 * tolerates around / instead of 1*DIGIT — leading white space, a sign, or a digit string that overflows 63 bits */
static int ref_cl_lenient_form(const char *v, unsigned n)
{
	unsigned i = 0, k, nd = 0;
	for (k = 0; k < VF_STRMAX; k++) { if (i >= n) break; if (!(v[i] == ' ' || (v[i] >= '\t' && v[i] <= '\r'))) break; i++; }
	if (i < n && (v[i] == '+' || v[i] == '-')) i++;
	for (k = 0; k < VF_STRMAX; k++) { if (i >= n) break; if (!ISDIGIT(v[i])) return 0; i++; nd++; }
	return nd > 0;
}

void harness(void)
{
	unsigned i; int r; char *v; int valid, conn_close;
	VF_LOAD_IN();
	__CPROVER_assume(IN.vlen <= VF_N);
	__CPROVER_assume(IN.kind == EVHTTP_REQUEST || IN.kind == EVHTTP_RESPONSE);
	/* left-aligned (unlike the other units): the value computed by the reference and by strtoll then runs over
	 * the same byte positions, which keeps the equality of the two decimal accumulations decidable for SAT */
	for (i = 0; i < VF_N; i++) { VB[i] = i < IN.vlen ? (char)IN.v[i] : 0; if (i < IN.vlen) __CPROVER_assume(IN.v[i] != 0); }
	VB[VF_N] = 0; v = &VB[0];
	for (i = 0; i < 5; i++) CB[i] = (char)IN.c[i];
	CB[5] = 0;
	TAILQ_INIT(&Q);
	H_CL.key = K_CL; H_CL.value = v; H_CONN.key = K_CONN; H_CONN.value = CB;
	if (IN.cl_first) { if (IN.have_cl) TAILQ_INSERT_TAIL(&Q, &H_CL, next); if (IN.have_conn) TAILQ_INSERT_TAIL(&Q, &H_CONN, next); }
	else { if (IN.have_conn) TAILQ_INSERT_TAIL(&Q, &H_CONN, next); if (IN.have_cl) TAILQ_INSERT_TAIL(&Q, &H_CL, next); }
	/* an optional SECOND Content-Length field (one digit), at the end of the list */
	__CPROVER_assume(IMP(IN.have_cl2, IN.have_cl && ISDIGIT(IN.v2)));
	VB2[0] = (char)IN.v2; VB2[1] = 0; H_CL2.key = K_CL; H_CL2.value = VB2;
	if (IN.have_cl2) TAILQ_INSERT_TAIL(&Q, &H_CL2, next);
	REQ.input_headers = &Q; REQ.evcon = &EVCON; REQ.kind = (enum evhttp_request_kind)IN.kind; REQ.ntoread = IN.ntoread0;
	valid = ref_cl_valid(v, IN.vlen);
	e_strtoll_calls = 0;
	conn_close = IN.have_conn && ref_strcaseeq(CB, "close");
	/* known finding C23-content-length-lenient: a malformed value (sign, leading white space, overflow) is accepted */
#define KF_CL (IN.have_cl && !valid && ref_cl_lenient_form(v, IN.vlen))
	/* known finding C24-keepalive-no-length: response without Content-Length but with a Connection header other than close */
	/* known finding C23-content-length-conflict: two Content-Length fields with different values — the first one wins */
#define KF_DUP (IN.have_cl2 && !(IN.vlen == 1 && VB[0] == VB2[0]))
#define KF_KA (!IN.have_cl && IN.have_conn && !conn_close && IN.kind == EVHTTP_RESPONSE)
#ifdef VF_KF_EXCLUDE
	__CPROVER_assume(!KF_CL && !KF_KA && !KF_DUP);
#endif
#ifdef VF_KF_ONLY
	__CPROVER_assume(KF_CL || KF_KA || KF_DUP);
#endif
	r = evhttp_get_body_length(&REQ);

	__CPROVER_assert(r == 0 || r == -1, "returns 0 or -1");
	if (IN.have_cl) {
		__CPROVER_assert(IMP(valid, r == 0 && e_strtoll_calls == 1 && e_strtoll_arg == v && e_strtoll_base == 10 && REQ.ntoread == e_strtoll_last), "Content-Length of 1*DIGIT within 63 bits: accepted, with the value ISO C strtoll(base 10) gives this digit string");
		__CPROVER_assert(IMP(!valid, r == -1), "cl-malformed: a Content-Length that is not 1*DIGIT, or overflows, is refused");
		__CPROVER_assert(IMP(r == -1, REQ.ntoread == IN.ntoread0), "refused: ntoread untouched");
		__CPROVER_assert(IMP(r == 0, REQ.ntoread >= 0), "accepted: never a negative length");
		__CPROVER_assert(IMP(IN.have_cl2 && !(IN.vlen == 1 && VB[0] == VB2[0]), r == -1), "cl-conflict: differing Content-Length fields are refused (RFC 9112 6.3 rule 5)");
	} else {
		__CPROVER_assert(r == 0, "no Content-Length: never an error");
		__CPROVER_assert(REQ.ntoread == -1 || REQ.ntoread == 0, "no Content-Length: -1 (until close) or 0");
		__CPROVER_assert(IMP(!IN.have_conn || conn_close, REQ.ntoread == -1), "no Content-Length, no Connection header or Connection: close: read until close");
		__CPROVER_assert(IMP(IN.kind == EVHTTP_RESPONSE, REQ.ntoread == -1), "eof-delimited: a response without Content-Length lasts until the connection closes");
	}
#ifdef VF_CANARY
	__CPROVER_assert(REQ.ntoread != 42, "canary: must fail (Content-Length: 42)");
#endif
}
