/* C12/C13/C14/C08 — evbuffer_remove_buffer (real buffer.c): src = BUF2, dst = BUF, <= 3 chains each (every shape), every datlen.
 * Inline (real): advance_last_with_data.  Replaced: evbuffer_free_trailing_empty_chains (c12a_free_trailing).
 * Replaced by contracts: evbuffer_add (lengths/counters part of c12a_add's add_c), evbuffer_add_buffer (lengths/emptying part of
 * c12a_add_buffer's contract), evbuffer_chain_free, evbuffer_invoke_callbacks_.  Because those two contracts leave dst's chain
 * list unspecified, this unit proves lengths, accounting, locks, failure behaviour and src's structure — not dst's structure. */
#define VF_NLOCKS 2
#define C12A_NBUF 2
#include "vf.h"
#include "stubs/c12a_mem.h"
#include "buffer.c"
struct eb_in;
#include "stubs/lock.h"
#include "c12a_shape.h"
struct in { struct eb_in b, b2; unsigned samelock; size_t datlen; unsigned ch[VF_NCHOICE]; };
struct in IN;
#include "stubs/log.h"
#include "stubs/c12a_mm.h"
#include "c12a_contracts.h"
#define RV __CPROVER_return_value

/* evbuffer_add(dst, …) as far as lengths and counters go (proved, with much more, by unit c12a_add) */
VF_CONTRACT(int, addlen_c, struct evbuffer *buf, const void *data_in, size_t datlen)
__CPROVER_requires(buf == &BUF && IMP(buf->lock != NULL, g_lock_depth[C12A_LOCKIDX(buf)] >= 1))
__CPROVER_assigns(buf->first, buf->last, buf->last_with_datap, buf->total_len, buf->n_add_for_cb, buf->n_del_for_cb, g_cbs, g_al, CH[0].off, CH[1].off, CH[2].off)
__CPROVER_ensures(RV == 0 || RV == -1)
__CPROVER_ensures(IMP(buf->freeze_end || datlen > EV_SIZE_MAX - __CPROVER_old(buf->total_len), RV == -1 && g_allocfail == __CPROVER_old(g_allocfail)))
__CPROVER_ensures(IMP(!(buf->freeze_end || datlen > EV_SIZE_MAX - __CPROVER_old(buf->total_len)), g_allocfail == __CPROVER_old(g_allocfail) + (RV == -1 ? 1 : 0)))
__CPROVER_ensures(IMP(RV == -1, buf->total_len == __CPROVER_old(buf->total_len) && buf->n_add_for_cb == __CPROVER_old(buf->n_add_for_cb) && buf->n_del_for_cb == __CPROVER_old(buf->n_del_for_cb) && g_cb[0] == __CPROVER_old(g_cb[0])))
__CPROVER_ensures(IMP(RV == 0, buf->total_len == __CPROVER_old(buf->total_len) + datlen && g_cb[0] == __CPROVER_old(g_cb[0]) + 1 && g_cb_total[0] == buf->total_len && g_cb_nadd[0] == __CPROVER_old(buf->n_add_for_cb) + datlen && g_cb_ndel[0] == __CPROVER_old(buf->n_del_for_cb)))
__CPROVER_ensures(IMP(RV == 0, (buf->n_add_for_cb == __CPROVER_old(buf->n_add_for_cb) + datlen && buf->n_del_for_cb == __CPROVER_old(buf->n_del_for_cb)) || (buf->n_add_for_cb == 0 && buf->n_del_for_cb == 0)))
__CPROVER_ensures(g_cb[1] == __CPROVER_old(g_cb[1]) && g_cb_total[1] == __CPROVER_old(g_cb_total[1]) && g_cb_nadd[1] == __CPROVER_old(g_cb_nadd[1]) && g_cb_ndel[1] == __CPROVER_old(g_cb_ndel[1]))
;
/* evbuffer_add_buffer(dst, src) as far as lengths, counters and the emptying of src go (proved, with much more, by unit c12a_add_buffer) */
VF_CONTRACT(int, addbuf_c, struct evbuffer *outbuf, struct evbuffer *inbuf)
__CPROVER_requires(outbuf == &BUF && inbuf == &BUF2 && IMP(outbuf->lock != NULL, g_lock_depth[C12A_LOCKIDX(outbuf)] >= 1) && IMP(inbuf->lock != NULL, g_lock_depth[C12A_LOCKIDX(inbuf)] >= 1))
__CPROVER_assigns(outbuf->first, outbuf->last, outbuf->last_with_datap, outbuf->total_len, outbuf->n_add_for_cb, outbuf->n_del_for_cb,
	inbuf->first, inbuf->last, inbuf->last_with_datap, inbuf->total_len, inbuf->n_add_for_cb, inbuf->n_del_for_cb, g_cbs, g_fr)
__CPROVER_ensures(IFF(RV == -1, __CPROVER_old(inbuf->total_len) != 0 && (outbuf->freeze_end || inbuf->freeze_start)) && (RV == 0 || RV == -1))
__CPROVER_ensures(IMP(RV == -1 || __CPROVER_old(inbuf->total_len) == 0, outbuf->total_len == __CPROVER_old(outbuf->total_len) && inbuf->total_len == __CPROVER_old(inbuf->total_len) &&
	outbuf->n_add_for_cb == __CPROVER_old(outbuf->n_add_for_cb) && outbuf->n_del_for_cb == __CPROVER_old(outbuf->n_del_for_cb) && inbuf->n_add_for_cb == __CPROVER_old(inbuf->n_add_for_cb) && inbuf->n_del_for_cb == __CPROVER_old(inbuf->n_del_for_cb) &&
	C12A_PEQ(inbuf->first, __CPROVER_old(inbuf->first)) && C12A_PEQ(inbuf->last, __CPROVER_old(inbuf->last)) && C12A_PEQ(inbuf->last_with_datap, __CPROVER_old(inbuf->last_with_datap)) &&
	g_cb[0] == __CPROVER_old(g_cb[0]) && g_cb[1] == __CPROVER_old(g_cb[1]) && g_cb_total[0] == __CPROVER_old(g_cb_total[0]) && g_cb_total[1] == __CPROVER_old(g_cb_total[1]) && g_cb_nadd[0] == __CPROVER_old(g_cb_nadd[0]) && g_cb_ndel[1] == __CPROVER_old(g_cb_ndel[1])))
__CPROVER_ensures(IMP(RV == 0 && __CPROVER_old(inbuf->total_len) != 0, outbuf->total_len == __CPROVER_old(outbuf->total_len) + __CPROVER_old(inbuf->total_len) && inbuf->total_len == 0 &&
	C12A_PEQ(inbuf->first, NULL) && C12A_PEQ(inbuf->last, NULL) && C12A_PEQ(inbuf->last_with_datap, &inbuf->first) &&
	g_cb[0] == __CPROVER_old(g_cb[0]) + 1 && g_cb[1] == __CPROVER_old(g_cb[1]) + 1 && g_cb_total[0] == outbuf->total_len && g_cb_total[1] == 0 &&
	g_cb_nadd[0] == __CPROVER_old(outbuf->n_add_for_cb) + __CPROVER_old(inbuf->total_len) && g_cb_ndel[0] == __CPROVER_old(outbuf->n_del_for_cb) &&
	g_cb_ndel[1] == __CPROVER_old(inbuf->n_del_for_cb) + __CPROVER_old(inbuf->total_len) && g_cb_nadd[1] == __CPROVER_old(inbuf->n_add_for_cb)))
;

#define O_src (O_BUF2.total_len)
#define O_dst (O_BUF.total_len)
#define MINZ(a, b) ((a) < (b) ? (a) : (b))
#define MOVED_ MINZ(datlen, O_src)
VF_CONTRACT(int, remove_buffer_c, struct evbuffer *src, struct evbuffer *dst, size_t datlen)
__CPROVER_requires(src == &BUF2 && dst == &BUF)
__CPROVER_requires(g_lock_depth[1] == 0 && g_lock_depth[2] == 0 && g_nnew == 0 && g_allocfail == 0 && g_freed == 0 && g_freed_mask == 0 && g_cb[0] == 0 && g_cb[1] == 0 && m_cp.n == 0)
__CPROVER_assigns(g_lock_depth[1], g_lock_depth[2], g_lock_ops, g_fr, g_cbs, g_al,
	__CPROVER_object_whole(dst), __CPROVER_object_whole(&CH[0]), __CPROVER_object_whole(&CH[1]), __CPROVER_object_whole(&CH[2]),
	__CPROVER_object_whole(src), __CPROVER_object_whole(&CH2[0]), __CPROVER_object_whole(&CH2[1]), __CPROVER_object_whole(&CH2[2]))
/* 1 C08: both locks released */
__CPROVER_ensures(g_lock_depth[1] == 0 && g_lock_depth[2] == 0)
/* 2 C12: refused exactly when something is requested and dst's end or src's front is frozen; otherwise the number of bytes moved */
__CPROVER_ensures(IFF(RV == -1, datlen != 0 && (O_BUF.freeze_end || O_BUF2.freeze_start)))
__CPROVER_ensures(IMP(RV != -1 && MOVED_ <= (size_t)INT_MAX, RV == (int)(datlen == 0 ? 0 : MOVED_)))
/* 4 C14: refused or nothing requested => nothing changes, no callback */
__CPROVER_ensures(IMP(RV == -1 || datlen == 0, C12A_BUF_SAME(BUF, O_BUF) && C12A_ALLCH_SAME() && C12A_BUF_SAME(BUF2, O_BUF2) && C12A_ALLCH2_SAME()))
__CPROVER_ensures(IMP(RV == -1 || datlen == 0, g_cb[0] == 0 && g_cb[1] == 0 && g_freed == 0))
/* 6 C12: src loses exactly min(datlen, its length) bytes from its front ... */
__CPROVER_ensures(IMP(RV != -1 && datlen != 0, src->total_len == O_src - MOVED_))
/* 7 C12/C14: ... and dst gains exactly those bytes: no byte is lost or duplicated, whatever allocation fails */
__CPROVER_ensures(IMP(RV != -1 && datlen != 0, dst->total_len == O_dst + MOVED_))
/* 8 C13: src's callbacks are told (once) iff something moved, with counters accounting for exactly the removal */
__CPROVER_ensures(IMP(RV != -1 && datlen != 0, g_cb[1] == (MOVED_ != 0 ? 1 : 0) && IMP(g_cb[1] == 1, g_cb_total[1] == O_src - MOVED_ && g_cb_ndel[1] == O_BUF2.n_del_for_cb + MOVED_ && g_cb_nadd[1] == O_BUF2.n_add_for_cb)))
/* 9 C13: dst's callbacks are told iff something moved; the last report sees the final length */
__CPROVER_ensures(IMP(RV != -1 && datlen != 0 && g_allocfail == 0, IFF(g_cb[0] >= 1, MOVED_ != 0) && IMP(g_cb[0] >= 1, g_cb_total[0] == dst->total_len)))
/* 10 nothing else of either buffer changes */
__CPROVER_ensures(dst->lock == O_BUF.lock && dst->freeze_start == O_BUF.freeze_start && dst->freeze_end == O_BUF.freeze_end && dst->refcnt == O_BUF.refcnt && dst->callbacks.lh_first == O_BUF.callbacks.lh_first && dst->deferred_cbs == O_BUF.deferred_cbs && dst->flags == O_BUF.flags && dst->max_read == O_BUF.max_read)
__CPROVER_ensures(src->lock == O_BUF2.lock && src->freeze_start == O_BUF2.freeze_start && src->freeze_end == O_BUF2.freeze_end && src->refcnt == O_BUF2.refcnt && src->callbacks.lh_first == O_BUF2.callbacks.lh_first && src->deferred_cbs == O_BUF2.deferred_cbs && src->flags == O_BUF2.flags && src->max_read == O_BUF2.max_read)
;

void harness(void)
{
	int r, i, k; size_t datlen, rem;
	VF_LOAD_IN();
	c12a_build(&IN.b);
	c12a_build2(&IN.b2, IN.samelock & 1);
	VF_INSTALL_LOCKS(); C12A_RESET();
	datlen = C12A_Q(IN.datlen);
	C12A_SNAPSHOT();
	r = VF_CALL(remove_buffer_c, evbuffer_remove_buffer, &BUF2, &BUF, datlen);
#ifndef C12A_NOPOST
	if (r != -1 && datlen != 0 && datlen < O_src) {
		/* src keeps exactly the bytes behind the first datlen: the chains wholly inside the prefix leave (moved, not freed), the
		 * next chain loses its leading part, the rest is untouched */
		rem = datlen; k = 0;
		for (i = 0; i < 3; i++) { if ((unsigned)k < c12a_nch2 && k == i && O_CH2[i].off <= rem) { rem -= O_CH2[i].off; k++; } }
		__CPROVER_assert((unsigned)k < c12a_nch2 && BUF2.first == &CH2[k % 3], "src's new first chain is the one holding byte number datlen");
		__CPROVER_assert(CH2[k % 3].off == O_CH2[k % 3].off - rem && (size_t)CH2[k % 3].misalign == (size_t)O_CH2[k % 3].misalign + rem && CH2[k % 3].next == O_CH2[k % 3].next && CH2[k % 3].buffer == O_CH2[k % 3].buffer, "it loses exactly its leading bytes");
		for (i = 0; i < 3; i++) { if (i > k && (unsigned)i < c12a_nch2) __CPROVER_assert(C12A_CH_SAME(CH2[i], O_CH2[i]), "src's later chains are untouched"); }
		{
			int pos[6]; struct evbuffer_chain *c = BUF2.first;
			pos[0] = pos[1] = pos[2] = -1;
			pos[3] = (0 >= k && c12a_nch2 > 0) ? 0 - k : -1; pos[4] = (1 >= k && c12a_nch2 > 1) ? 1 - k : -1; pos[5] = (2 >= k && c12a_nch2 > 2) ? 2 - k : -1;
			/* links: CH2[k], CH2[k+1], ... in order, ending in NULL */
			for (i = 0; i < 3; i++) { if (i >= k && (unsigned)i < c12a_nch2) { __CPROVER_assert(c == &CH2[i], "src's list is its old list from chain k on"); c = CH2[i].next; } }
			__CPROVER_assert(c == NULL, "... ending in NULL");
			__CPROVER_assert(c12a_binv_pos(&BUF2, pos, (int)c12a_nch2 - k), "BInv(src) after remove_buffer: last, windows, total_len == sum off, last_with_datap canonical");
		}
		__CPROVER_assert(!(g_freed_mask & 0x38u), "none of src's chains is freed (they are moved)");
#ifndef VF_NATIVE      /* (natively the real evbuffer_add runs and its copy is logged) */
		__CPROVER_assert(m_cp.n == 0, "no byte copied by remove_buffer itself (the split piece is copied by evbuffer_add)");
#endif
	}
#endif
#ifdef VF_CANARY
	__CPROVER_assert(r <= 0 || BUF2.total_len == 0, "canary: must fail (partial removals exist)");
#endif
}
