/* C33 — reply_parse (real evdns.c), plain assert-harness.  Every packet of <= PKT_CAP bytes (all contents, symbolic
 * length, RIGHT-ALIGNED in its object so that a read past packet[length-1] is a pointer obligation), at most RECS
 * entries per section (assumed on the header counts; loops fully unwound with unwinding assertions).
 * Static callees replaced by stub bodies (stubs/c33_rename.h): name_parse (np stub: what c33_name_parse /
 * c33_name_parse_mem check on the real function — 0 or -1, *idx moves only on success, forward, inside the packet,
 * writes only name_out[0..name_out_len), NUL-terminated; HOW FAR it moves is an oracle, the decoded TEXT is abstract,
 * so the name comparison is abstract too: strcmp / evutil_ascii_strcasecmp answer from an oracle (IN.cmp) and record
 * which of them was asked), request_find_from_trans_id (one pending request REQ) and reply_handle (records what it is
 * given and takes ownership of the reply data exactly as reply_handle -> reply_schedule_callback does).
 * Candidate defects selected by predicates (VF_KF_EXCLUDE / VF_KF_ONLY):
 *   Q1 the unchecked mm_malloc of the reply buffer fails (then memcpy / name_parse write through NULL)
 *   Q2 a CNAME is strdup'ed into reply.cname (DNS_CNAME_CALLBACK) and then either a second CNAME record overwrites
 *      it or the reply is not handed over (no usable answer, error, malformed tail): reply_parse never frees it */
#ifndef PKT_CAP
#define PKT_CAP 64
#endif
#ifndef RECS
#define RECS 2
#endif
#define NP_CALLS (4 * RECS + 6)
#define VF_C33_MEMCAP 16           /* address blocks: the first address is copied, the rest of the block is not modelled */
#define VF_C33_MEM_PREFIX 1
#define VF_NLOCKS 1
#include "vf.h"
#include "stubs/c33_mem.h"
#include "stubs/c33_rename.h"
#include "event2/util.h"
struct request; struct reply; struct evdns_base;
static int name_parse_stub(ev_uint8_t *packet, int length, int *idx, char *name_out, int name_out_len);
static struct request *request_find_from_trans_id_stub(struct evdns_base *base, ev_uint16_t trans_id);
static void reply_handle_stub(struct request *const req, ev_uint16_t flags, ev_uint32_t ttl, struct reply *reply);
#define name_parse name_parse_stub
#pragma push_macro("name_parse")
#undef name_parse
#define name_parse name_parse_real _Pragma("pop_macro(\"name_parse\")")
#define request_find_from_trans_id request_find_from_trans_id_stub
#pragma push_macro("request_find_from_trans_id")
#undef request_find_from_trans_id
#define request_find_from_trans_id request_find_from_trans_id_real _Pragma("pop_macro(\"request_find_from_trans_id\")")
#define reply_handle reply_handle_stub
#pragma push_macro("reply_handle")
#undef reply_handle
#define reply_handle reply_handle_real _Pragma("pop_macro(\"reply_handle\")")
#include "evdns.c"
struct in {
	unsigned char pkt[PKT_CAP]; int length;
	u16 req_tid; u8 req_type; int need_cname; int put_cname; int put_cname_set; int randomize_case;
	unsigned np_adv[NP_CALLS];             /* oracle for name_parse: bytes consumed (0 = malformed) per call */
	unsigned np_len[NP_CALLS];             /* and the length of the decoded text */
	unsigned char cmp[RECS + 1];           /* oracle for the question comparisons: 0 = equal */
	unsigned ch[VF_NCHOICE];
};
struct in IN;
#include "stubs/log.h"
#include "stubs/lock.h"
/* packets are shorter than EVDNS_NAME_MAX, so the reply buffer MAX(length - j, EVDNS_NAME_MAX) is always EVDNS_NAME_MAX bytes */
#define VF_C33_MM_SIZES(X) X(EVDNS_NAME_MAX)
#include "stubs/c33_mm.h"

static u8 PKT[PKT_CAP];
static u8 QPKT[32];                         /* the request's own packet (only handed to name_parse) */
static struct evdns_base BASE; static struct request REQ; static struct evdns_request HANDLE;
static char *PUTCN; static char PRESET[4];

/* ghost state */
struct g_np { int calls, own, fail; int len; } g_np;      /* name_parse: calls, calls on the request's own packet, failures; len: NUL position of the last result */
struct g_cmp { int calls, case_calls, matches; } g_cmp;
struct g_find { int calls; u16 tid; } g_find;
struct g_rh { int calls; struct request *req; u16 flags; u32 ttl; int has_reply, have_answer, taken; unsigned type; u32 rr_count; void *data; char *cname; } g_rh;
struct g_sd { int calls; } g_sd;
#define ERRFLAGS(f) ((f) & (_RCODE_MASK | _TC_MASK))

static int name_parse_stub(u8 *packet, int length, int *idx, char *name_out, int name_out_len)
{
	int k = g_np.calls, own = (packet == QPKT); unsigned i;
	__CPROVER_assert(k >= 0 && k < NP_CALLS, "name_parse: oracle capacity");
	__CPROVER_assert((packet == PKT + (PKT_CAP - IN.length) && length == IN.length) || (own && length == (int)REQ.request_len), "name_parse: on the received packet with its length, or on the request's own packet");
	__CPROVER_assert(*idx >= 0, "name_parse: offset not negative");
	__CPROVER_assert(name_out_len >= EVDNS_NAME_MAX, "name_parse: room for a full name");
	__CPROVER_assert(__CPROVER_w_ok(name_out, name_out_len), "name_parse: name_out[0..name_out_len) writable (not NULL)");
	g_np.calls++; if (own) g_np.own++;
	if (IN.np_adv[k] == 0 || *idx >= length || *idx + (int)IN.np_adv[k] > length) { g_np.fail++; return -1; }
	for (i = 0; i < 3; i++) { if (i >= IN.np_len[k]) break; name_out[i] = 'a'; }
	name_out[IN.np_len[k]] = 0; g_np.len = (int)IN.np_len[k];
	*idx += (int)IN.np_adv[k];
	return 0;
}
static struct request *request_find_from_trans_id_stub(struct evdns_base *base, u16 trans_id)
{
	__CPROVER_assert(base == &BASE, "request_find_from_trans_id: this base");
	g_find.calls++; g_find.tid = trans_id;
	return trans_id == REQ.trans_id ? &REQ : NULL;       /* the table of requests in flight holds exactly REQ */
}
/* reply_handle: records its arguments; hands the reply over (reply_schedule_callback memcpy's it into the handle and
 * clears reply->data.raw) exactly when there is no error flag and the reply has an answer */
static void reply_handle_stub(struct request *const req, u16 flags, u32 ttl, struct reply *reply)
{
	g_rh.calls++; g_rh.req = req; g_rh.flags = flags; g_rh.ttl = ttl; g_rh.has_reply = reply != NULL;
	g_rh.taken = 0;
	if (reply) {
		g_rh.have_answer = reply->have_answer; g_rh.type = reply->type; g_rh.rr_count = reply->rr_count; g_rh.cname = reply->cname; g_rh.data = reply->data.raw;
		if (reply->have_answer && !ERRFLAGS(flags)) { g_rh.taken = 1; reply->data.raw = NULL; }
	}
}
/* mm_strdup: the string must be NUL-terminated where name_parse said; a 1-byte object stands for the copy */
char *event_mm_strdup_(const char *str)
{
	char *p;
	__CPROVER_assert(g_np.len >= 0 && g_np.len < EVDNS_NAME_MAX && str[g_np.len] == 0, "strdup: argument is the NUL-terminated result of the last name_parse");
	if (VF_MM_FAIL_()) return NULL;
	p = malloc(1);
#ifndef VF_NATIVE
	__CPROVER_assume(p != NULL);
#endif
	g_mm_live++; g_mm_allocs++; g_sd.calls++;
	return p;
}
/* the two comparisons: abstract answer, record which one was asked (the case rule of the 0x20 hack) */
int strcmp(const char *a, const char *b)
{
	int r = IN.cmp[g_cmp.calls < RECS ? g_cmp.calls : RECS] != 0;
	__CPROVER_assert(!BASE.global_randomize_case, "case-sensitive comparison of the question only when 0x20 randomisation is off");
	g_cmp.calls++; if (!r) g_cmp.matches++;
	return r;
}
int evutil_ascii_strcasecmp(const char *a, const char *b)
{
	int r = IN.cmp[g_cmp.calls < RECS ? g_cmp.calls : RECS] != 0;
	__CPROVER_assert(BASE.global_randomize_case, "case-insensitive comparison of the question only when 0x20 randomisation is on");
	g_cmp.calls++; g_cmp.case_calls++; if (!r) g_cmp.matches++;
	return r;
}

#define PB(k) (IN.pkt[(PKT_CAP - IN.length) + (k)])
#define X16(k) ((unsigned)((PB(k) << 8) | PB((k) + 1)))
#define X32(k) (((u32)X16(k) << 16) | X16((k) + 2))
#define HDR_OK (IN.length >= 12)
#define P_TID X16(0)
#define P_FLAGS X16(2)

/* ---------------- reference reading of the message (specification side) ----------------
 * walks the sections with the same name_parse oracle; for the queried type: number of addresses, minimum ttl, where
 * the first address bytes are; x_ok = the message is well-formed as far as a reader has to look */
static int x_ok, x_count, x_first_off, x_have, x_cnames; static u32 x_ttl;
#define ADV(call, j) (IN.np_adv[call] != 0 && (j) < IN.length && (j) + (int)IN.np_adv[call] <= IN.length)
static void ref_answers(void)
{
	int j = 12, i, call = 0, q, an, au;
	x_ok = 0; x_count = 0; x_first_off = -1; x_have = 0; x_ttl = 0xffffffffu; x_cnames = 0;
	if (!HDR_OK) return;
	q = (int)X16(4); an = (int)X16(6); au = (int)X16(8);
	for (i = 0; i < RECS; i++) {
		if (i >= q) break;
		if (!ADV(call, j)) return;
		j += (int)IN.np_adv[call]; call++;
		if (IN.np_adv[call] == 0 || 12 + (int)IN.np_adv[call] > (int)REQ.request_len) return;   /* the request's own question */
		call++;
		j += 4; if (j > IN.length) return;
	}
	for (i = 0; i < RECS; i++) {
		unsigned type, class, dl; u32 ttl;
		if (i >= an) break;
		if (!ADV(call, j)) return;
		j += (int)IN.np_adv[call]; call++;
		if (j + 10 > IN.length) return;
		type = X16(j); class = X16(j + 2); ttl = X32(j + 4); dl = X16(j + 8); j += 10;
		if (type == TYPE_A && class == CLASS_INET && REQ.request_type == TYPE_A) {
			if ((dl & 3) || j + (int)dl > IN.length) return;
			if (x_first_off < 0 && dl) x_first_off = j;
			x_count += (int)(dl >> 2); x_have = 1; if (ttl < x_ttl) x_ttl = ttl; j += (int)dl;
		} else if (type == TYPE_AAAA && class == CLASS_INET && REQ.request_type == TYPE_AAAA) {
			if ((dl & 15) || j + (int)dl > IN.length) return;
			if (x_first_off < 0 && dl) x_first_off = j;
			x_count += (int)(dl >> 4); x_have = 1; if (ttl < x_ttl) x_ttl = ttl; j += (int)dl;
		} else if (type == TYPE_PTR && class == CLASS_INET && REQ.request_type == TYPE_PTR) {
			if (!ADV(call, j)) return;
			x_have = 1; if (ttl < x_ttl) x_ttl = ttl; break;         /* first PTR wins, the rest of the section is not read */
		} else if (type == TYPE_CNAME) {
			if (!ADV(call, j)) return;
			j += (int)IN.np_adv[call]; call++; x_cnames++;
		} else j += (int)dl;
	}
	if (!x_have) {                                                /* negative answer: SOA minimum in the authority section bounds the ttl */
		for (i = 0; i < RECS; i++) {
			unsigned type, class, dl; u32 ttl, minimum;
			if (i >= au) break;
			if (!ADV(call, j)) return;
			j += (int)IN.np_adv[call]; call++;
			if (j + 10 > IN.length) return;
			type = X16(j); class = X16(j + 2); ttl = X32(j + 4); dl = X16(j + 8); j += 10;
			if (type == TYPE_SOA && class == CLASS_INET) {
				if (!ADV(call, j)) return; j += (int)IN.np_adv[call]; call++;
				if (!ADV(call, j)) return; j += (int)IN.np_adv[call]; call++;
				if (j + 20 > IN.length) return;
				minimum = X32(j + 16); j += 20;
				if (ttl < x_ttl) x_ttl = ttl; if (minimum < x_ttl) x_ttl = minimum;
			} else j += (int)dl;
		}
	}
	if (x_ttl == 0xffffffffu) x_ttl = 0;
	x_ok = 1;
}

static void pkt_fill(void) { int i; for (i = 0; i < PKT_CAP; i++) PKT[i] = IN.pkt[i]; }
static void pkt_check(void) { int i; for (i = 0; i < PKT_CAP; i++) __CPROVER_assert(PKT[i] == IN.pkt[i], "packet not modified"); }

void harness(void)
{
	int r, i; u8 *packet; int used, errf;
	VF_LOAD_IN(); VF_INSTALL_LOCKS(); VF_MM_RESET();
	g_np.calls = g_np.own = g_np.fail = 0; g_np.len = -1; g_cmp.calls = g_cmp.case_calls = g_cmp.matches = 0;
	g_find.calls = 0; g_rh.calls = 0; g_rh.taken = 0; g_rh.has_reply = 0; g_rh.data = 0; g_rh.cname = 0; g_sd.calls = 0;
	__CPROVER_assume(IN.length >= 0 && IN.length <= PKT_CAP);
	pkt_fill();
	packet = PKT + (PKT_CAP - IN.length);
	__CPROVER_assume(IMP(IN.length >= 12, X16(4) <= RECS && X16(6) <= RECS && X16(8) <= RECS));   /* bound of this unit */
	__CPROVER_assume(IN.req_type == TYPE_A || IN.req_type == TYPE_AAAA || IN.req_type == TYPE_PTR);   /* request_new's callers */
	BASE.lock = NULL; BASE.global_randomize_case = IN.randomize_case;
	REQ.base = &BASE; REQ.trans_id = IN.req_tid; REQ.request_type = IN.req_type; REQ.request = QPKT; REQ.request_len = 17; REQ.handle = &HANDLE;
	REQ.need_cname = IN.need_cname != 0;
	PUTCN = IN.put_cname_set ? PRESET : NULL; REQ.put_cname_in_ptr = IN.put_cname ? &PUTCN : NULL;
	for (i = 0; i < NP_CALLS; i++) __CPROVER_assume(IN.np_adv[i] <= PKT_CAP && IN.np_len[i] <= 3);
	ref_answers();
#ifdef VF_KF_Q1_FIXED
#define KF_Q1 0
#else
#define KF_Q1 ((IN.ch[0] & 1u) != 0)          /* the first allocator decision is the reply buffer */
#endif
#ifdef VF_KF_Q2_FIXED
#define KF_Q2 0
#else
#define KF_Q2 (IN.need_cname != 0)            /* without DNS_CNAME_CALLBACK reply.cname is never allocated */
#endif
#ifdef VF_KF_EXCLUDE
	__CPROVER_assume(!(KF_Q1 || KF_Q2));
#endif
#ifdef VF_KF_ONLY
	__CPROVER_assume(KF_Q1 || KF_Q2);
#endif

	r = reply_parse(&BASE, packet, IN.length);

	pkt_check();
	errf = HDR_OK ? (int)ERRFLAGS(P_FLAGS) : 0;
	__CPROVER_assert(r == 0 || r == -1, "returns 0 or -1");
	/* who is told */
	if (!HDR_OK) __CPROVER_assert(r == -1 && g_find.calls == 0 && g_rh.calls == 0 && g_mm_allocs == 0, "a message shorter than a header is dropped without looking anything up");
	if (HDR_OK) {
		__CPROVER_assert(g_find.calls == 1 && g_find.tid == P_TID, "the transaction id of the message is what is looked up");
		if (P_TID != REQ.trans_id) __CPROVER_assert(r == -1 && g_rh.calls == 0 && g_mm_allocs == 0 && g_np.calls == 0, "no pending request with that id: dropped, nothing touched");
		else if (!(P_FLAGS & _QR_MASK)) __CPROVER_assert(r == -1 && g_rh.calls == 0 && g_mm_allocs == 0 && g_np.calls == 0, "not a response (QR clear): dropped, the request stays pending");
		else {
			__CPROVER_assert(g_rh.calls == 1 && g_rh.req == &REQ && g_rh.flags == P_FLAGS, "otherwise the request is told exactly once, with the message's flags");
			if (errf && errf != DNS_ERR_NOTEXIST) __CPROVER_assert(r == -1 && !g_rh.has_reply && g_rh.ttl == 0 && g_np.calls == 0 && g_mm_allocs == 0, "error / truncation flags other than NXDOMAIN: nothing of the message is used");
		}
	}
	if (g_rh.calls == 1) {
		__CPROVER_assert(IFF(r == -1, !g_rh.has_reply) && IMP(!g_rh.has_reply, g_rh.ttl == 0), "failure is reported as: no reply, ttl 0, -1");
		__CPROVER_assert(g_cmp.case_calls == (BASE.global_randomize_case ? g_cmp.calls : 0), "case rule of the question comparison");
		__CPROVER_assert(g_cmp.calls <= g_np.own && g_np.own <= g_cmp.calls + 1, "every comparison of a question name follows a parse of the request's own question name");
		used = g_rh.has_reply;
		/* exactly the well-formed replies to the pending question are used */
		__CPROVER_assert(IMP(used, x_ok && g_cmp.matches >= 1), "a reply is used only if it is well-formed and one of its questions equals the request's question");
		__CPROVER_assert(IMP(x_ok && g_cmp.matches >= 1 && !(errf && errf != DNS_ERR_NOTEXIST) && g_mm_allocs >= 1, used), "a well-formed reply to the pending question is used");
		if (used) {
			__CPROVER_assert(g_rh.type == REQ.request_type, "the reply carries the type that was asked");
			__CPROVER_assert(g_rh.have_answer == x_have, "have_answer exactly when a record of the queried type (class IN) is in the answer section");
			if (REQ.request_type != TYPE_PTR) __CPROVER_assert((int)g_rh.rr_count == x_count, "number of addresses = those present in records of the queried type");
			__CPROVER_assert(g_rh.ttl == x_ttl, "ttl is the minimum over the records used (answers of the queried type, else SOA ttl/minimum), 0 if none");
			if (g_rh.taken && x_have && REQ.request_type != TYPE_PTR && x_first_off >= 0 && g_rh.data) {
				int w = REQ.request_type == TYPE_A ? 4 : 16;
				for (i = 0; i < 16; i++) { if (i >= w) break; __CPROVER_assert(((u8 *)g_rh.data)[i] == PB(x_first_off + i), "first address handed on = first address of the queried type in the answer section"); }
			}
			__CPROVER_assert(IMP(g_rh.cname != NULL, REQ.need_cname && x_cnames >= 1), "a CNAME is reported only if asked for and present");
		}
	}
	/* C33 "leaks nothing": what is still allocated is what was handed over */
	__CPROVER_assert(g_mm_live == ((g_rh.calls == 1 && g_rh.taken) ? (g_rh.data != NULL ? 1 : 0) + (g_rh.cname != NULL ? 1 : 0) : 0) + ((IN.put_cname && !IN.put_cname_set && PUTCN != NULL) ? 1 : 0),
		"allocations still live = reply data and cname handed over with a usable reply + the put_cname_in_ptr string");
#ifdef VF_CANARY
	__CPROVER_assert(!(g_rh.calls == 1 && g_rh.taken && g_rh.rr_count == 2), "canary: must fail (a reply with two addresses is handed over)");
#endif
}
