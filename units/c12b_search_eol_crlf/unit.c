/* evbuffer_search_eol, styles EVBUFFER_EOL_CRLF and EVBUFFER_EOL_CRLF_STRICT — see contracts/c12b_search_eol_body.h */
#define VF_EOL_LO 1
#define VF_EOL_HI 2
#include "c12b_search_eol_body.h"
