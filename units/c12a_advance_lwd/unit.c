/* C12 — advance_last_with_data (real buffer.c): starting from a last_with_datap that is correct for the prefix of the
 * list up to the chain it designates (what evbuffer_commit_space and evbuffer_remove_buffer establish before calling
 * it), it ends at the canonical position for the whole list and returns the number of chains walked. */
#define VF_NLOCKS 2
#include "vf.h"
#include "stubs/c12a_mem.h"
#include "buffer.c"
struct eb_in;
#include "stubs/lock.h"
#include "c12a_shape.h"
struct in { struct eb_in b; unsigned pos; unsigned ch[VF_NCHOICE]; };
struct in IN;
#include "stubs/log.h"
#include "stubs/c12a_mm.h"
#include "c12a_contracts.h"
unsigned O_pos;       /* index of the chain *last_with_datap designates before the call */

VF_CONTRACT(int, advance_c, struct evbuffer *buf)
__CPROVER_requires(buf == &BUF && IMP(buf->lock != NULL, g_lock_depth[1] >= 1))
__CPROVER_assigns(buf->last_with_datap)
__CPROVER_ensures(__CPROVER_return_value == (c12a_nch ? (int)(c12a_nch - 1 - O_pos) : 0))
__CPROVER_ensures(buf->last_with_datap == (C12A_LWDNOW_ <= 0 ? &buf->first : &CH[C12A_LWDNOW_ <= 0 ? 0 : C12A_LWDNOW_ - 1].next))
;

void harness(void)
{
	int r;
	VF_LOAD_IN();
	c12a_build(&IN.b);
	VF_INSTALL_LOCKS(); C12A_RESET();
	/* last_with_datap may lag behind: it designates chain `pos`, which is the last chain with data among CH[0..pos]
	 * (or pos == 0); chains behind it may have received data since. */
	O_pos = 0;
	if (c12a_nch) {
		__CPROVER_assume(IN.pos < c12a_nch && (IN.pos == 0 || CH[IN.pos].off > 0));
		O_pos = IN.pos;
		BUF.last_with_datap = O_pos == 0 ? &BUF.first : &CH[O_pos - 1].next;
	}
	if (BUF.lock) g_lock_depth[1] = 1;
	C12A_SNAPSHOT();
	r = VF_CALL(advance_c, advance_last_with_data, &BUF);
	__CPROVER_assert(c12a_binv(&BUF), "BInv (canonical last_with_datap) after advance_last_with_data");
	__CPROVER_assert(C12A_ALLCH_SAME() && BUF.first == O_BUF.first && BUF.last == O_BUF.last && BUF.total_len == O_BUF.total_len, "read-only apart from last_with_datap");
#ifdef VF_CANARY
	__CPROVER_assert(BUF.last_with_datap == O_BUF.last_with_datap, "canary: must fail (it does advance)");
#endif
}
