/* C33/C37 — name_parse vs. reference decoder; harness in contracts/c33_name_parse_unit.h */
#define NP_REF 1
#include "c33_name_parse_unit.h"
