/* C02 — event_queue_remove_active (real event.c): clears ACTIVE, event_count /
 * event_count_active deltas, unlinks the callback from the queue of its priority (predecessor =
 * head or a neighbour, successor = none or a neighbour).  Loop-free. */
#define VF_NLOCKS 1
#include "vf.h"
#include "event.c"
#include "stubs/lock.h"
#include "stubs/log.h"
#include "c02_event_shape.h"
struct in { struct c02_base_in b; struct c02_ev_in e; int qshape; };
struct in IN;
#include "c02_event_contracts.h"

void harness(void)
{
	struct event_callback *evcb = &EV.ev_evcallback;
	VF_LOAD_IN(); VF_INSTALL_LOCKS();
	c02_build_base(&IN.b);
	c02_build_ev(&EV, &IN.e, 0);
	__CPROVER_assume(EV.ev_flags & EVLIST_ACTIVE);
	/* counter invariant: the ACTIVE flag of this callback was counted */
	__CPROVER_assume(BASE.event_count >= C02_NONINT(EV.ev_flags) && BASE.event_count_active >= 1);
	C02_LINK_IN(&AQ[EV.ev_pri], evcb, evcb_active_next, &NB[0].ev_evcallback, &NB[1].ev_evcallback, IN.qshape);
	VF_CALL_V(q_remove_active_c, event_queue_remove_active, &BASE, evcb);
	/* the neighbourhood after the unlink, spelled out per shape */
	if ((IN.qshape & 3) == 0) __CPROVER_assert(AQ[IN.e.pri].tqh_first == NULL && AQ[IN.e.pri].tqh_last == &AQ[IN.e.pri].tqh_first, "sole element removed: queue is the empty TAILQ");
	if ((IN.qshape & 3) == 3) __CPROVER_assert(NB[0].ev_evcallback.evcb_active_next.tqe_next == &NB[1].ev_evcallback && NB[1].ev_evcallback.evcb_active_next.tqe_prev == &NB[0].ev_evcallback.evcb_active_next.tqe_next, "middle element removed: neighbours linked to each other");
	if ((IN.qshape & 3) == 1) __CPROVER_assert(NB[0].ev_evcallback.evcb_active_next.tqe_next == NULL && AQ[IN.e.pri].tqh_last == &NB[0].ev_evcallback.evcb_active_next.tqe_next, "tail removed: predecessor is the new tail");
	if ((IN.qshape & 3) == 2) __CPROVER_assert(AQ[IN.e.pri].tqh_first == &NB[1].ev_evcallback && NB[1].ev_evcallback.evcb_active_next.tqe_prev == &AQ[IN.e.pri].tqh_first, "head removed: successor is the new head");
#ifdef VF_CANARY
	__CPROVER_assert(BASE.event_count == IN.b.event_count, "canary: must fail (de-activation of a user-visible callback is counted)");
#endif
}
