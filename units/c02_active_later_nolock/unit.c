/* C02 — event_active_later_nolock_ (real event.c; event_callback_activate_later_nolock_ real):
 * already active now or later: result flags OR-ed in; idle: result := res, appended to the
 * later-queue, counted, loop thread notified. */
#define VF_NLOCKS 1
#include "vf.h"
#include "event.c"
#include "stubs/lock.h"
#include "stubs/log.h"
#include "c02_event_shape.h"
struct in { struct c02_base_in b; struct c02_ev_in e; struct c02_q_in q; int aqtail; int res; short ncalls; int even; int del_ret; int is_event; };
struct in IN;
#include "c02_event_contracts.h"
#include "c01_timer_contracts.h"
#define F0 ((int)IN.e.flags)
#define EVS ((int)IN.e.events)
#define NEED_NOTIFY0 ((IN.b.threads & 1) && (IN.b.running_loop & 1) && IN.b.owner != IN.b.self)
#define IN_THREAD0 (!(IN.b.threads & 1) || IN.b.owner == IN.b.self)
#define NOTIFIED(due) (IMP(due, BASE.th_notify_fn == NULL || BASE.is_notify_pending == 1) && \
	g_notify_calls == (((due) && (IN.b.has_notify_fn & 1) && !(IN.b.is_notify_pending & 1)) ? 1 : 0) && \
	IMP(!(due), BASE.is_notify_pending == (IN.b.is_notify_pending & 1)))
#define EVCB (&EV.ev_evcallback)
/* frame shared by the activation functions: flags, result, counters, the two queues' neighbourhoods, wake-up state */
#define ACT_FRAME EV.ev_evcallback.evcb_flags, EV.ev_evcallback.evcb_active_next, EV.ev_res, \
	BASE.event_count, BASE.event_count_max, BASE.event_count_active, BASE.event_count_active_max, \
	AQ[IN.e.pri], BASE.active_later_queue, NB[0].ev_evcallback.evcb_active_next, NB[1].ev_evcallback.evcb_active_next, \
	FAR_EV.ev_evcallback.evcb_active_next, NB2.ev_evcallback.evcb_active_next, BASE.is_notify_pending, g_notify_calls
/* common set-up: base, subject, its queues; when not ACTIVE the queue of its priority is empty or ends in NB2 */
#define SETUP(is_ev) do { VF_LOAD_IN(); VF_INSTALL_LOCKS(); c02_build_base(&IN.b); c02_build_ev(&EV, &IN.e, (is_ev)); \
	if (BASE.th_base_lock) g_lock_depth[1] = 1; C02_ASSUME_ASSIGNED(&IN.e); C02_ASSUME_COUNTED(F0); c02_link_ev(&IN.e, &IN.q); \
	if (!(F0 & EVLIST_ACTIVE)) C02_TAIL_OF(&AQ[IN.e.pri], evcb_active_next, &NB2.ev_evcallback, IN.aqtail); \
	if (!(F0 & (EVLIST_ACTIVE|EVLIST_ACTIVE_LATER))) C02_TAIL_OF(&BASE.active_later_queue, evcb_active_next, &NB[1].ev_evcallback, IN.q.ashape); } while (0)
#define AT_TAIL_OF_AQ (AQ[IN.e.pri].tqh_last == &EV.ev_evcallback.evcb_active_next.tqe_next && EV.ev_evcallback.evcb_active_next.tqe_next == NULL && \
	((IN.aqtail & 1) ? NB2.ev_evcallback.evcb_active_next.tqe_next == EVCB : AQ[IN.e.pri].tqh_first == EVCB))

#define MERGE (F0 & (EVLIST_ACTIVE|EVLIST_ACTIVE_LATER))
VF_CONTRACT_V(active_later_c, struct event *ev, int res)
__CPROVER_requires(ev == &EV && res == IN.res)
__CPROVER_requires(BASE.th_base_lock == NULL || g_lock_depth[1] == 1)
__CPROVER_requires(g_notify_calls == 0)
__CPROVER_assigns(ACT_FRAME)
__CPROVER_ensures(EV.ev_res == (short)(MERGE ? (IN.e.res | IN.res) : IN.res))
__CPROVER_ensures(IMP(MERGE, EV.ev_flags == F0 && BASE.event_count == IN.b.event_count && BASE.event_count_active == IN.b.event_count_active))
__CPROVER_ensures(IMP(!MERGE, EV.ev_flags == (F0 | EVLIST_ACTIVE_LATER) && BASE.event_count == IN.b.event_count + C02_NONINT(F0) && BASE.event_count_active == IN.b.event_count_active + 1))
__CPROVER_ensures(IMP(!MERGE, BASE.active_later_queue.tqh_last == &EV.ev_evcallback.evcb_active_next.tqe_next &&
	((IN.q.ashape & 1) ? NB[1].ev_evcallback.evcb_active_next.tqe_next == EVCB : BASE.active_later_queue.tqh_first == EVCB)))
__CPROVER_ensures(NOTIFIED(!MERGE && NEED_NOTIFY0))
__CPROVER_ensures(g_lock_depth[1] == __CPROVER_old(g_lock_depth[1]))
;
void harness(void)
{
	SETUP(1);
	VF_CALL_V(active_later_c, event_active_later_nolock_, &EV, IN.res);
#ifdef VF_CANARY
	__CPROVER_assert(EV.ev_res == IN.e.res, "canary: must fail (activation records the result flags)");
#endif
}
