/* C15/C10/C14 — evbuffer_add_file (real buffer.c) = evbuffer_file_segment_new + evbuffer_add_file_segment + dropping the function's
 * own reference; all three callees are replaced by their contracts (units c15_seg_new, c15_add_file_segment, c15_seg_free).
 * What is shown here is the reference discipline of the composition: on success exactly ONE reference on the segment remains and
 * it belongs to the new chain (so the segment — and with EVBUF_FS_CLOSE_ON_FREE the fd — goes away exactly when that chain is
 * freed); on failure after the segment was created it is destroyed exactly once and the fd closed exactly once; the buffer is
 * unchanged on failure. */
#define VF_NLOCKS 3
#define VF_NCHOICE 16
#define C15_MM_SEG_IS_STATIC
#include "vf.h"
#include "stubs/c15_sys_redirect.h"
#include "buffer.c"
#include "stubs/lock.h"
struct c15_bin;
#include "c15_shape.h"
struct in { struct c15_bin b, s; int fd; ev_off_t offset, length; unsigned ch[VF_NCHOICE]; };
struct in IN;
#include "stubs/log.h"
#include "stubs/c15_mm.h"
#include "stubs/c15_sys.h"
#include "c15_contracts.h"
#include "c15_seg_contracts.h"

#define RV __CPROVER_return_value
VF_CONTRACT(int, addfile_c, struct evbuffer *buf, int fd, ev_off_t offset, ev_off_t length)
__CPROVER_requires(buf == &BUF && C15_BUF_SAME(BUF, O_BUF) && C15_ALLXC_SAME() && !m_seg_live)
__CPROVER_requires(g_lock_depth[1] == 0 && g_lock_depth[2] == 0 && g_lock_depth[3] == 0 && m_al.n == 0 && m_al.fail == 0 && m_al.frees == 0 && m_al.sfreed == 0 && m_al.seglive == 0 && g_cbs.n[0] == 0 &&
	m_sys.mmap == 0 && m_sys.pread == 0 && m_pread_done == 0 && m_sc.n == 0 && m_cl.n == 0 && m_sys.close == 0 && m_lk.allocs == 0 && m_lk.frees == 0 && m_fsize_calls == 0)
__CPROVER_assigns(errno, vf_nchoice_, __CPROVER_object_whole(g_lock_depth), g_lock_ops, m_new[0], m_new[1], m_new[2], m_st, g_cbs, m_pread_done, m_mmap_len, m_mmap_off, m_mmap_fd, m_fsize, m_fsize_calls,
	__CPROVER_object_whole(&BUF), __CPROVER_object_whole(&XC[0]), __CPROVER_object_whole(&XC[1]), __CPROVER_object_whole(&XC[2]),
	__CPROVER_object_whole(&SRC), __CPROVER_object_whole(&PC[0]), __CPROVER_object_whole(&PC[1]), __CPROVER_object_whole(&PC[2]), __CPROVER_object_whole(&SEG))
__CPROVER_ensures(g_lock_depth[1] == 0 && g_lock_depth[2] == 0 && g_lock_depth[3] == 0)
__CPROVER_ensures(RV == 0 || RV == -1)
/* 3 C15/C10: success => the file range is in the buffer as ONE new file-segment chain, and the only reference on the segment is that chain's:
 *   the segment is destroyed — callback, close(fd) — exactly when the chain is freed (chain_free_c / seg_free_c) */
__CPROVER_ensures(IMP(RV == 0, m_seg_live && SEG.refcnt == 1 && SEG.fd == fd && SEG.flags == EVBUF_FS_CLOSE_ON_FREE && SEG.file_offset == offset && m_al.n == 1 && BUF.last == AF_NEWCH && CF_FSI(AF_NEWCH)->segment == &SEG &&
	(AF_NEWCH->flags & (EVBUFFER_FILESEGMENT | EVBUFFER_IMMUTABLE)) == (EVBUFFER_FILESEGMENT | EVBUFFER_IMMUTABLE) && AF_NEWCH->off == (size_t)SEG.length && BUF.total_len == O_BUF.total_len + (size_t)SEG.length && m_sys.close == 0))
__CPROVER_ensures(IMP(RV == 0, SEG.length == (length == -1 ? m_fsize : length)))
/* 5 C14: failure => the buffer is exactly as before and nothing is left behind: no segment, no contents, no lock */
__CPROVER_ensures(IMP(RV == -1, C15_BUF_SAME(BUF, O_BUF) && C15_ALLXC_SAME() && g_cbs.n[0] == 0 && !m_seg_live && m_al.seglive == 0 && m_al.n == m_al.heap_frees && m_lk.allocs == m_lk.frees))
/* 6 C10: the fd is closed at most once by this call, and only together with the segment */
__CPROVER_ensures(m_sys.close <= 1 && IMP(m_sys.close == 1, RV == -1 && m_sys.last_closed_fd == fd))
;

void harness(void)
{
	int r; unsigned i;
	VF_LOAD_IN();
	VF_INSTALL_LOCKS(); C15_RESET(); C15_SYS_RESET();
	c15_build(&IN.b, 0, 0);
	c15_build(&IN.s, 1, 0);
	for (i = 0; i < C15_MAXCH; i++) __CPROVER_assume(!(IN.b.flags[i] & (EVBUFFER_MULTICAST | EVBUFFER_FILESEGMENT)));   /* the one segment of the unit is the new one */
	C15_SNAPSHOT();
	r = VF_CALL(addfile_c, evbuffer_add_file, &BUF, IN.fd, IN.offset, IN.length);
	/* documentation of evbuffer_add_file: "The function owns the resulting file descriptor and will close (even in case of error) it".
	 * What the code does: the fd is closed on failure only if the segment had been created (see the report). */
	__CPROVER_assert(IMP(r == -1 && m_sys.close == 0, 1), "(observation only)");
#ifdef VF_CANARY
	__CPROVER_assert(r == 0 || m_sys.close == 1, "canary: must fail (a failing evbuffer_file_segment_new leaves the fd open)");
#endif
}
