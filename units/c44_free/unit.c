/* C44 (+C08, C10) — evconnlistener_free -> listener_decref_and_unlock -> event_listener_destroy (real
 * listener.c): the callbacks are cleared (no further deliveries), one reference is dropped; exactly when it
 * was the last one the listener is destroyed ONCE: its event is deleted and unassigned, the listening socket
 * is closed iff LEV_OPT_CLOSE_ON_FREE, the lock is released, then freed (iff there is one), then the memory is
 * freed.  Otherwise (a running listener_read_cb holds a reference) nothing is destroyed and the lock is released. */
#include "c44_listener_unit.h"
#define LAST (IN.refcnt == 1)
VF_CONTRACT_V(free_c, struct evconnlistener *lev)
__CPROVER_requires(lev == &L->base && g_lock_depth[1] == 0 && g_l.del_calls == 0 && g_l.unassign_calls == 0 && g_l.lfd_closed == 0 && g_l.lock_freed == 0 && g_mm_frees == 0 && g_l.pending_fd == -1)
__CPROVER_assigns(__CPROVER_object_whole(L), __CPROVER_object_whole(&g_l), g_lock_depth[1], g_lock_ops, vf_nchoice_, g_mm_live, g_mm_frees)
__CPROVER_frees(lev)
__CPROVER_ensures(g_mm_frees == (LAST ? 1 : 0))
__CPROVER_ensures(IMP(LAST, g_l.del_calls == 1 && g_l.unassign_calls == 1 && g_l.unassign_after_del == 1))
__CPROVER_ensures(IMP(LAST, g_l.lfd_closed == ((IN.flags & LEV_OPT_CLOSE_ON_FREE) ? 1 : 0) && g_l.lock_freed == (IN.has_lock ? 1 : 0)))
__CPROVER_ensures(IMP(!LAST, g_l.del_calls == 0 && g_l.unassign_calls == 0 && g_l.lfd_closed == 0 && g_l.lock_freed == 0))
__CPROVER_ensures(IMP(!LAST, L->base.cb == NULL && L->base.errorcb == NULL && L->base.refcnt == IN.refcnt - 1 && L->base.enabled == (IN.enabled ? 1 : 0) && L->base.flags == IN.flags))
__CPROVER_ensures(g_lock_depth[1] == 0 && g_l.bad_close == 0 && g_l.accept_calls == 0 && g_l.add_calls == 0)
;
void harness(void)
{
	VF_LOAD_IN();
	vf_c44_build();
	VF_CALL_V(free_c, evconnlistener_free, &L->base);
#ifdef VF_CANARY
	__CPROVER_assert(g_l.lfd_closed == 0, "canary: must fail (CLOSE_ON_FREE closes the socket)");
#endif
}
