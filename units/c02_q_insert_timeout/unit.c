/* C02/C01 — event_queue_insert_timeout (real event.c): TIMEOUT flag, event_count(+max) delta,
 * and the dispatch rule: a deadline carrying the common-timeout magic of a registered index goes
 * to that index's queue (insert_common_timeout_inorder), every other deadline goes to the heap
 * (min_heap_push_).  Loop-free; callees replaced by their C01 caller-view contracts. */
#define VF_NLOCKS 1
#include "vf.h"
#include "event.c"
#include "stubs/lock.h"
#include "stubs/log.h"
#define C02_NO_AQ
#include "c02_event_shape.h"
struct in { struct c02_base_in b; struct c02_ev_in e; int qshape; long h_sec, h_usec, q_sec, q_usec; };
struct in IN;
#include "c02_event_contracts.h"
#include "c01_timer_contracts.h"

void harness(void)
{
	VF_LOAD_IN(); VF_INSTALL_LOCKS();
	c02_build_base(&IN.b);
	c02_build_ev(&EV, &IN.e, 1);
	__CPROVER_assume(!(EV.ev_flags & EVLIST_TIMEOUT));
	__CPROVER_assume(C02_DEADLINE_OK(IN.e.to_sec, IN.e.to_usec));
	/* heap: room reserved by the caller; top (if any) is HEV[0] with any deadline */
	__CPROVER_assume(BASE.timeheap.n < BASE.timeheap.a);
	HP[0] = &HEV[0]; HEV[0].ev_timeout.tv_sec = IN.h_sec; HEV[0].ev_timeout.tv_usec = IN.h_usec;
	/* the common queue of the deadline's index: empty or headed by NB[0] */
	CTQ[(IN.e.to_usec & 0x0ff00000) >> 20] = &CTL;
	CTL.events.tqh_first = (IN.qshape & 1) ? &NB[0] : NULL;
	NB[0].ev_timeout.tv_sec = IN.q_sec; NB[0].ev_timeout.tv_usec = IN.q_usec;
	VF_CALL_V(q_insert_timeout_c, event_queue_insert_timeout, &BASE, &EV);
	__CPROVER_assert(BASE.event_count_active == IN.b.event_count_active, "pending-for-timeout does not count as active");
	if (C02_IS_COMMON(&EV.ev_timeout, &BASE)) __CPROVER_assert(BASE.timeheap.n == IN.b.heap_n, "a common-timeout deadline never enters the heap");
	else __CPROVER_assert(CTL.events.tqh_first == ((IN.qshape & 1) ? &NB[0] : NULL), "a heap deadline never enters a common queue");
#ifdef VF_CANARY
	__CPROVER_assert(BASE.timeheap.n == IN.b.heap_n, "canary: must fail (non-common deadlines enter the heap)");
#endif
}
