/* C30 — evhttp_find_vhost (real http.c, with the real evhttp_find_alias inlined; calls of the recursive
 * prefix_suffix_match are cut off by the stub BODY c30g_glob_stub = the reference glob matcher, which is what
 * units/c30_glob establishes for prefix_suffix_match on exactly these 8 patterns — inlining the real recursion with
 * a pattern chosen symbolically did not decide within 240 s) on the harness-built tree of contracts/c30g_tree.h
 *         ROOT ── V0 ── V00          <= 2 virtual hosts under ROOT (V0 registered before V1), <= 1 under V0,
 *              └─ V1                 patterns from the 8-pattern menu of units/c30_glob, <= 1 alias per evhttp,
 * for EVERY host name of <= VF_N characters and every alias of <= VF_A characters over { a A b B . - }.
 * Call-site precondition: hostname != NULL (evhttp_handle_request calls only under `if (hostname != NULL)`; the
 * function itself passes hostname to evutil_ascii_strcasecmp/prefix_suffix_match unchecked).  outhttp may be NULL
 * (the function documents "if non-null"), drawn from IN.
 *
 * Return convention (from the code and its comment): 1 when an alias or a virtual-host pattern matched, 0 when
 * nothing matched — and then *outhttp is the server the search started from (the default server).
 *   V1 aliases first: if any evhttp of the tree has an alias equal to the host name up to ASCII case (exact length),
 *      the first such evhttp in the order ROOT, V0, V00, V1 (an evhttp, then its virtual hosts in registration order,
 *      each with its subtree) is selected — whatever the patterns say;
 *   V2 otherwise the FIRST registered virtual host of ROOT whose pattern matches the host name as the reference
 *      glob matcher says (case-insensitive) is selected — not a later one that matches too — and the search
 *      descends into the selected one's own virtual hosts the same way; the deepest match is selected;
 *   V3 no alias and no first-level pattern matches => ROOT is selected and 0 is returned; otherwise 1;
 *   V4 *outhttp is ALWAYS written with the selected evhttp when outhttp != NULL (pre-set to a poison object);
 *   V5 the tree, the patterns, the aliases and the host name are not modified; no read past a terminator.  */
#ifndef VF_N
#define VF_N 4
#endif
#ifndef VF_A
#define VF_A 3
#endif
#include "vf.h"
#include "http.c"
struct in { unsigned char h[VF_N]; unsigned hn; unsigned nvh, nch; unsigned char pat[3]; unsigned nal[4]; unsigned char al[4][VF_A]; unsigned aln[4]; int outnull; };
struct in IN;
#include "stubs/log.h"
#include "stubs/c28_ctype.h"
#include "c30g_tree.h"

static struct evhttp POISON;
static unsigned g_glob_calls;

/* stands for prefix_suffix_match (pitfall 19): the result the reference matcher gives; the arguments must be a
 * registered pattern's string and the request's host name; ignorecase is passed on to the reference (the
 * specification side always uses 1: host names are case-insensitive) */
int c30g_glob_stub(const char *pattern, const char *name, int ignorecase)
{
	g_glob_calls++;
	__CPROVER_assert(name == T_host, "V2: the pattern is matched against the request's host name");
	__CPROVER_assert(pattern != NULL, "V2: only registered patterns (non-NULL) are matched");
	return ref_glob(pattern, T_host, IN.hn, ignorecase);
}

void harness(void)
{
	struct evhttp *out = &POISON; int r, wa, wd, want;
	VF_LOAD_IN();
	c30g_build();
	g_glob_calls = 0;

	wa = ref_alias_from(C30G_ROOT);
	wd = ref_descent();
	want = wa != C30G_NONE ? wa : wd;

	r = evhttp_find_vhost(&T_ROOT, IN.outnull ? NULL : &out, T_host);

	__CPROVER_assert(r == 0 || r == 1, "V3: returns 0 or 1");
	__CPROVER_assert(IMP(wa != C30G_NONE, r == 1 && (IN.outnull || out == c30g_node(wa))), "V1: an alias equal to the host name (case-insensitive, exact length) selects its evhttp, first in tree order, before any pattern");
	__CPROVER_assert(IMP(wa == C30G_NONE && !IN.outnull, out == c30g_node(wd)), "V2: the FIRST registered virtual host whose pattern matches is selected at each level, descent continues from it (deepest match)");
	__CPROVER_assert(IFF(r == 1, want != C30G_ROOT || wa == C30G_ROOT), "V3: returns 1 exactly when an alias or a pattern matched; no match selects the default server");
	__CPROVER_assert(IMP(!IN.outnull, out == c30g_node(want) && out != &POISON), "V4: *outhttp is always written with the selected evhttp");
	__CPROVER_assert(IMP(IN.outnull, out == &POISON), "V4: outhttp == NULL: nothing is written");
	__CPROVER_assert(c30g_unchanged(), "V5: tree, patterns, aliases and host name are not modified");
	__CPROVER_assert(IMP(wa != C30G_NONE, g_glob_calls == 0) && g_glob_calls <= 3, "V1: no pattern is consulted when an alias matched; at most one match attempt per virtual host");
#ifdef VF_CANARY
	__CPROVER_assert(!(r == 1 && out == &T_V00 && wa == C30G_NONE), "canary: must fail (a pattern descent can select the nested virtual host)");
#endif
}
