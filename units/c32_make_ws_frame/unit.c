/* C32 — make_ws_frame (real ws.c): for EVERY payload length (symbolic size_t) and every
 * opcode the frame written is a single unmasked FIN frame in the minimal length form
 * (<= 125 / 126 + 16-bit / 127 + 64-bit big-endian), followed by the payload object itself.
 * Loop: the constant 8-iteration byte loop, fully unwound. */
#include "vf.h"
#include "ws.c"
struct in { size_t len; unsigned type; int locked; };
struct in IN;
#include "stubs/log.h"
#include "stubs/c31_ws_rec.h"
#include "c31_ws_contracts.h"
static unsigned char MSG[4];     /* only its address matters: the recorder does not read the payload */

void harness(void)
{
	VF_LOAD_IN();
	__CPROVER_assume(IN.type <= 0xf);
	g_nadd = 0; g_add_buf0 = g_add_buf1 = 0; g_hdrlen = 0; g_pay_ptr = 0; g_pay_len = 0; g_add_locked = 0;
	g_bev_lock = IN.locked ? 1 : 0; g_bev_lock_calls = 0;
	VF_CALL_V(make_ws_frame_c, make_ws_frame, &EVB[1], (enum WebSocketFrameType)IN.type, MSG, IN.len);
#ifdef VF_CANARY
	__CPROVER_assert(!(g_hdrlen == 10 && g_hdr[9] == 0x01 && g_hdr[7] == 0x01), "canary: must fail (length 0x10001 gives ... 01 00 01)");
#endif
}
