/* C16/C08/C15 — evbuffer_write_atmost (also entered through evbuffer_write), evbuffer_write_iovec, evbuffer_write_sendfile (real
 * buffer.c) on every buffer of <= 3 chains of every kind; write / writev / sendfile = models that fail with any errno or accept
 * any count in [0, bytes offered].  evbuffer_drain is replaced by its contract (the function itself: unit c12_drain).
 * This unit: the first chain is NOT a sendfile chain (iovec path).  Unit c16_write_sendfile (-DC16_SENDFILE): it is.
 *
 * CANDIDATE DEFECT (unit c16_write_sendfile fails on it): evbuffer_write_sendfile ignores `howmuch` and offers the whole first
 * chain (chain->off bytes) to sendfile(), so evbuffer_write_atmost can write — and then drain — more than the caller allowed. */
#define VF_NLOCKS 3
#define VF_NCHOICE 8
#include "vf.h"
#include "stubs/c15_sys_redirect.h"
#include "buffer.c"
#include "stubs/lock.h"
struct c15_bin;
#include "c15_shape.h"
struct in { struct c15_bin b, s; int fd, seg_fd; ev_ssize_t howmuch; unsigned via_write; int seg_refcnt; unsigned ch[VF_NCHOICE]; };
struct in IN;
#include "stubs/log.h"
#include "stubs/c15_mm.h"
#include "stubs/c15_sys.h"
#include "c15_contracts.h"
#include "c15_io_contracts.h"

#define RV __CPROVER_return_value
/* the caller's limit, clamped to what the buffer holds (negative: everything) */
#define WR_LIMIT ((howmuch < 0 || (size_t)howmuch > O_BUF.total_len) ? O_BUF.total_len : (size_t)howmuch)
VF_CONTRACT(int, write_c, struct evbuffer *buffer, evutil_socket_t fd, ev_ssize_t howmuch)
__CPROVER_requires(buffer == &BUF && fd == IN.fd)
__CPROVER_requires(g_lock_depth[1] == 0 && g_lock_depth[2] == 0 && g_lock_depth[3] == 0 && m_io.calls == 0 && g_dn.n == 0)
__CPROVER_assigns(errno, vf_nchoice_, __CPROVER_object_whole(g_lock_depth), g_lock_ops, m_io, m_io_base[0], m_io_base[1], m_io_base[2], m_io_base[3], g_dn, g_cbs, buffer->total_len, buffer->n_del_for_cb)
/* 1 C08 */
__CPROVER_ensures(g_lock_depth[1] == 0 && g_lock_depth[2] == 0 && g_lock_depth[3] == 0)
/* 2 a frozen front, an empty buffer or a zero limit: -1, the kernel is not asked, nothing changes */
__CPROVER_ensures(IMP(O_BUF.freeze_start || WR_LIMIT == 0, RV == -1 && m_io.calls == 0 && g_dn.n == 0 && buffer->total_len == O_BUF.total_len))
/* 3 otherwise exactly one write / writev / sendfile on the caller's fd */
__CPROVER_ensures(IMP(!O_BUF.freeze_start && WR_LIMIT != 0, m_io.calls == 1 && m_io.fd == fd))
/* 4 C16 "never more than requested": what is offered to the kernel is at most the caller's limit (and at most what the buffer holds) */
__CPROVER_ensures(IMP(m_io.calls == 1, m_io.total <= WR_LIMIT))
/* 5 C16 "remove exactly the prefix the write accepted": n > 0 => evbuffer_drain(buffer, n) exactly once, under the lock; n <= 0 => no drain, nothing changes */
__CPROVER_ensures(IMP(m_io.calls == 1 && m_io.ret > 0, RV == (int)m_io.ret && g_dn.n == 1 && g_dn.len == (size_t)m_io.ret && g_dn.locked && buffer->total_len == O_BUF.total_len - (size_t)m_io.ret))
__CPROVER_ensures(IMP(m_io.calls == 1 && m_io.ret <= 0, g_dn.n == 0 && buffer->total_len == O_BUF.total_len && buffer->n_del_for_cb == O_BUF.n_del_for_cb))
/* 7 the result is the kernel's, except that a retriable sendfile error (EINTR/EAGAIN) is reported as 0 bytes */
__CPROVER_ensures(IMP(m_io.calls == 1 && m_io.ret <= 0, RV == (int)m_io.ret || (m_io.kind == C15_IO_SENDFILE && m_io.ret == -1 && RV == 0 && (errno == EINTR || errno == EAGAIN))))
;

void harness(void)
{
	int r, k; unsigned i; size_t want, sum = 0;
	VF_LOAD_IN();
	VF_INSTALL_LOCKS(); C15_RESET(); C15_SYS_RESET();
	g_dn.n = 0; g_dn.len = 0; g_dn.locked = 0;
	c15_build(&IN.b, 0, 0);
	c15_build(&IN.s, 1, 0);
	SEG.refcnt = 1000; SEG.flags = 0; SEG.lock = NULL; SEG.cleanup_cb = NULL; SEG.cleanup_cb_arg = NULL;
	SEG.is_mapping = 0; SEG.contents = NULL; SEG.mapping = NULL; SEG.fd = IN.seg_fd; SEG.length = 0; SEG.file_offset = 0; SEG.can_sendfile = 1;
#ifdef C16_SENDFILE
	__CPROVER_assume(IN.b.nch >= 1 && (IN.b.flags[0] & EVBUFFER_SENDFILE));
#ifdef VF_KF_EXCLUDE
	__CPROVER_assume(IN.howmuch < 0 || (size_t)IN.howmuch >= IN.b.off[0]);
#endif
#ifdef VF_KF_ONLY
	__CPROVER_assume(IN.howmuch >= 0 && (size_t)IN.howmuch < IN.b.off[0]);
#endif
#else
	__CPROVER_assume(IN.b.nch == 0 || !(IN.b.flags[0] & EVBUFFER_SENDFILE));
#endif
	/* a sendfile chain is a window of the file: offset and end fit in off_t (evbuffer_file_segment_new checks offset + length <= EVBUFFER_CHAIN_MAX) */
	C15_SNAPSHOT();
	if (IN.via_write & 1) {
		r = evbuffer_write(&BUF, IN.fd);        /* = evbuffer_write_atmost(buffer, fd, -1): checked against the same contract */
		__CPROVER_assert(IMP(m_io.calls == 1 && m_io.kind != C15_IO_SENDFILE, m_io.total == O_BUF.total_len || (m_io.total < O_BUF.total_len)), "evbuffer_write offers a prefix of everything");
	} else
		r = VF_CALL(write_c, evbuffer_write_atmost, &BUF, IN.fd, IN.howmuch);
	want = (IN.via_write & 1) ? O_BUF.total_len : ((IN.howmuch < 0 || (size_t)IN.howmuch > O_BUF.total_len) ? O_BUF.total_len : (size_t)IN.howmuch);
	if (m_io.calls == 1 && m_io.kind != C15_IO_SENDFILE) {
		/* C16/C15: the vectors describe a PREFIX of the buffer's bytes: chain k's window [buffer+misalign, +off), in chain order from
		 * the first chain, cut at the limit, stopping in front of a sendfile chain (whose bytes are not in memory) */
		size_t left = want; int stopped = 0;
		__CPROVER_assert(m_io.nvec >= 1 && m_io.nvec <= (int)IN.b.nch, "one vector per chain, at least one");
		__CPROVER_assert(IFF(m_io.kind == C15_IO_WRITE, m_io.nvec == 1), "write() for one vector, writev() for more");
		for (k = 0; k < C15_MAXCH; k++) {
			if (k >= m_io.nvec) break;
			__CPROVER_assert(!(O_XC[k].c.flags & EVBUFFER_SENDFILE), "no vector for a sendfile chain");
			__CPROVER_assert(m_io_base[k] == (const void *)(O_XC[k].c.buffer + O_XC[k].c.misalign), "vector k starts at chain k's first byte");
			__CPROVER_assert(m_io.len[k] == (O_XC[k].c.off < left ? O_XC[k].c.off : left), "vector k covers chain k's bytes, cut at the limit");
			left -= m_io.len[k]; sum += m_io.len[k];
		}
		__CPROVER_assert(sum == m_io.total && sum <= want, "the vectors add up to what is offered: at most the limit");
		/* the prefix is as long as the limit allows: it ends at the limit, at the end of the buffer, or in front of a sendfile chain */
		__CPROVER_assert(left == 0 || m_io.nvec == (int)IN.b.nch || (O_XC[m_io.nvec].c.flags & EVBUFFER_SENDFILE), "the prefix is maximal");
		(void)stopped;
	}
	if (m_io.calls == 1 && m_io.kind == C15_IO_SENDFILE) {
		__CPROVER_assert((O_XC[0].c.flags & EVBUFFER_SENDFILE) && m_io.in_fd == IN.seg_fd && m_io.off_in == (long)O_XC[0].c.misalign, "sendfile: from the segment's fd, at the first chain's file offset");
		__CPROVER_assert(m_io.total <= O_XC[0].c.off, "sendfile: at most the first chain's bytes");
	}
	for (i = 0; i < C15_MAXCH; i++) __CPROVER_assert(C15_CH_SAME(XC[i].c, O_XC[i].c), "the chains are not touched by the write itself (removal is evbuffer_drain's)");
#ifdef VF_CANARY
#ifdef C16_SENDFILE
	__CPROVER_assert(m_io.kind != C15_IO_SENDFILE, "canary: must fail (sendfile is used)");
#else
	__CPROVER_assert(m_io.calls == 0 || m_io.nvec < 2, "canary: must fail (a write can span two chains)");
#endif
#endif
}
