/* C05 — select_add with select_resize inlined (real select.c): after the call the fd's bits in
 * the read/write interest sets are old-bit | requested, every other fd's bits are unchanged
 * (witness), the sets are big enough for the fd and event_fds is the highest fd seen. */
#define _GNU_SOURCE 1
#include "vf.h"
#include "select.c"
#include "c05_select_shape.h"
struct in { int fd; short old, events; struct c05_sel_in s; unsigned ch[VF_NCHOICE]; };
struct in IN;
#include "stubs/log.h"
#define VF_MM_NO_REALLOC
#include "stubs/mm.h"
#define C05_SEL_BODY
#include "c05_select_shape.h"

/* bytes needed for fds 0..fd, and the size select_add chooses: the current size (at least one word) doubled until it fits */
#define NEED(fd) ((((long)(fd) + 1 + 63) / 64) * 8)
#define CHOSEN (NEED(IN.fd) <= C05_FDSZ ? C05_FDSZ : NEED(IN.fd) <= 16 ? 16 : NEED(IN.fd) <= 32 ? 32 : 64)
#define RESIZE_NEEDED (IN.s.event_fds < IN.fd && CHOSEN != C05_FDSZ)
#define FAILED (RESIZE_NEEDED && g_mm_realloc_fail != 0)

VF_CONTRACT(int, select_add_c, struct event_base *base, int fd, short old, short events, void *p)
__CPROVER_requires(base == &BASE && fd == IN.fd && old == IN.old && events == IN.events)
__CPROVER_requires(fd >= 0 && (events & EV_SIGNAL) == 0 && g_mm_realloc_calls == 0 && g_mm_realloc_fail == 0)
__CPROVER_assigns(SOP.event_fds, SOP.event_fdsz, SOP.resize_out_sets, SOP.event_readset_in, SOP.event_writeset_in,
	__CPROVER_object_whole(RIN), __CPROVER_object_whole(WIN), __CPROVER_object_whole(NRIN), __CPROVER_object_whole(NWIN),
	g_mm_realloc_calls, g_mm_realloc_fail, g_mm_realloc_sz, errno, vf_nchoice_)
/* 1 fails only when the sets must grow and an allocation fails */
__CPROVER_ensures(__CPROVER_return_value == (FAILED ? -1 : 0))
/* 2 failure: no interest bit changes, the highest fd and the size are as before (a half-grown read set is kept, which is harmless) */
__CPROVER_ensures(IMP(FAILED, SOP.event_fds == IN.s.event_fds && SOP.event_fdsz == C05_FDSZ
	&& IMP(IN.s.g < C05_FDSZ * 8, C05_SETBIT(SOP.event_readset_in, IN.s.g) == C05_O_R(IN.s.g) && C05_SETBIT(SOP.event_writeset_in, IN.s.g) == C05_O_W(IN.s.g))))
/* 3 success: sets cover the fd; event_fds is the highest fd seen; size only grows, by doubling */
__CPROVER_ensures(IMP(__CPROVER_return_value == 0, SOP.event_fds == (IN.s.event_fds < fd ? fd : IN.s.event_fds) && (long)SOP.event_fdsz >= NEED(SOP.event_fds)
	&& SOP.event_fdsz == (IN.s.event_fds < fd ? CHOSEN : C05_FDSZ)))
/* 4 C05: the fd's interest bits are what was there plus what was asked */
__CPROVER_ensures(IMP(__CPROVER_return_value == 0, C05_SETBIT(SOP.event_readset_in, fd) == (C05_O_R(fd) | ((IN.events & EV_READ) != 0))
	&& C05_SETBIT(SOP.event_writeset_in, fd) == (C05_O_W(fd) | ((IN.events & EV_WRITE) != 0))))
/* 5 every other fd's bits unchanged; bits of the newly added range, and everything beyond the allocation, are clear (witness g over all 1024 bits) */
__CPROVER_ensures(IMP(__CPROVER_return_value == 0 && IN.s.g != fd,
	C05_SETBIT(SOP.event_readset_in, IN.s.g) == C05_O_R(IN.s.g) && C05_SETBIT(SOP.event_writeset_in, IN.s.g) == C05_O_W(IN.s.g)))
/* 6 a resize tells select_dispatch to resize its output sets too, and both input sets were reallocated to the new size */
__CPROVER_ensures(IMP(__CPROVER_return_value == 0, SOP.resize_out_sets == (RESIZE_NEEDED ? 1 : 0) && g_mm_realloc_calls == (RESIZE_NEEDED ? 2 : 0)))
__CPROVER_ensures(IMP(__CPROVER_return_value == 0 && RESIZE_NEEDED, g_mm_realloc_sz == (size_t)SOP.event_fdsz && SOP.event_readset_in == (fd_set *)NRIN && SOP.event_writeset_in == (fd_set *)NWIN))
;

void harness(void)
{
	int r;
	VF_LOAD_IN();
	__CPROVER_assume(IN.fd >= 0 && IN.fd < INT_MAX - 64);    /* a file descriptor (evmap_io_add_ filters fd < 0) */
	__CPROVER_assume((IN.events & EV_SIGNAL) == 0);
	c05_build_sel();
	VF_MM_RESET();
	r = VF_CALL(select_add_c, select_add, &BASE, IN.fd, IN.old, IN.events, NULL);
	(void)r;
#ifdef VF_CANARY
	__CPROVER_assert(SOP.event_fdsz != 32, "canary: must fail (sets can grow to 32 bytes)");
#endif
}
