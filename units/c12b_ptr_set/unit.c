/* C12/C14/C08 — evbuffer_ptr_set (real buffer.c), bookkeeping unit on every shape of <= 3 chains with
 * symbolic sizes: EVBUFFER_PTR_SET to any position, EVBUFFER_PTR_ADD of any amount to any valid pointer
 * (or to a "not found" pointer).  Model: a position p <= length is denoted by the canonical
 * (chain, offset) pair (contracts/c12b_ptr.h); anything beyond the end is refused and leaves "not found". */
#define VF_NLOCKS 1
#include "vf.h"
#include "buffer.c"
struct eb_in;
#include "stubs/lock.h"
#include "evbuffer_shape.h"
struct in { struct eb_in b; unsigned how; size_t position; unsigned start_kind; size_t p0; unsigned ch[VF_NCHOICE]; };
struct in IN;
#include "stubs/log.h"
#include "stubs/mm.h"
#include "c12b_ptr.h"

static struct evbuffer_ptr POS;
struct evbuffer_ptr O_pos, O_exp;      /* pointer before the call; canonical pointer for the target position (when it exists) */
size_t O_total;
/* target position as a mathematical integer is (ADD ? p0 : 0) + position; "fits" = no overflow and <= length */
#define IS_ADD (how == EVBUFFER_PTR_ADD)
#define ADD_REFUSED (IS_ADD && (O_pos.pos < 0 || EV_SIZE_MAX - position < (size_t)O_pos.pos))
#define BASE (IS_ADD ? (size_t)O_pos.pos : (size_t)0)
#define IN_RANGE (position <= O_total && BASE <= O_total - position)

VF_CONTRACT(int, ptr_set_c, struct evbuffer *buf, struct evbuffer_ptr *pos, size_t position, enum evbuffer_ptr_how how)
__CPROVER_requires(buf == &BUF && pos == &POS && g_lock_depth[1] == 0 && (how == EVBUFFER_PTR_SET || how == EVBUFFER_PTR_ADD))
__CPROVER_requires(O_total == BUF.total_len && O_pos.pos == POS.pos && O_pos.internal_.chain == POS.internal_.chain && O_pos.internal_.pos_in_chain == POS.internal_.pos_in_chain)
__CPROVER_assigns(g_lock_depth[1], g_lock_ops, POS)
/* 1 C08 */
__CPROVER_ensures(g_lock_depth[1] == 0)
__CPROVER_ensures(__CPROVER_return_value == 0 || __CPROVER_return_value == -1)
/* 3 success exactly when the target position exists in the byte string (0 <= target <= length) */
__CPROVER_ensures(IFF(__CPROVER_return_value == 0, !ADD_REFUSED && IN_RANGE))
/* 4 on success the pointer is the canonical pointer of the target position */
__CPROVER_ensures(IMP(__CPROVER_return_value == 0, POS.pos == (ev_ssize_t)(BASE + position) && POS.pos == O_exp.pos && POS.internal_.chain == O_exp.internal_.chain && POS.internal_.pos_in_chain == O_exp.internal_.pos_in_chain))
/* 5 an ADD that is refused up front (invalid start, overflow) leaves the pointer as it was */
__CPROVER_ensures(IMP(ADD_REFUSED, POS.pos == O_pos.pos && POS.internal_.chain == O_pos.internal_.chain && POS.internal_.pos_in_chain == O_pos.internal_.pos_in_chain))
/* 6 a target beyond the end leaves "not found" */
__CPROVER_ensures(IMP(__CPROVER_return_value == -1 && !ADD_REFUSED, VF_PTR_IS_NOT_FOUND(&POS)))
;

void harness(void)
{
	int r;
	VF_LOAD_IN();
	vf_build_buf(&IN.b);
	VF_INSTALL_LOCKS(); VF_MM_RESET();
	O_total = BUF.total_len;
	__CPROVER_assume(IN.how == EVBUFFER_PTR_SET || IN.how == EVBUFFER_PTR_ADD);
	/* the pointer before the call: kind 0 = valid canonical pointer at p0 <= length; 1 = "not found"; 2 (SET only) = garbage, SET must not read it */
	__CPROVER_assume(IN.start_kind <= 2);
	if (IN.start_kind == 0) { __CPROVER_assume(IN.p0 <= O_total); vf_ptr_model(&IN.b, IN.p0, &POS); }
	else if (IN.start_kind == 1) { POS.pos = -1; POS.internal_.chain = NULL; POS.internal_.pos_in_chain = 0; }
	else { __CPROVER_assume(IN.how == EVBUFFER_PTR_SET); POS.pos = (ev_ssize_t)IN.p0; POS.internal_.chain = NULL; POS.internal_.pos_in_chain = IN.p0; }
	O_pos = POS;
	{
		size_t base = (IN.how == EVBUFFER_PTR_ADD && POS.pos >= 0) ? (size_t)POS.pos : 0;
		if (IN.position <= O_total && base <= O_total - IN.position) vf_ptr_model(&IN.b, base + IN.position, &O_exp);
		else { O_exp.pos = -1; O_exp.internal_.chain = NULL; O_exp.internal_.pos_in_chain = 0; }
	}
	r = VF_CALL(ptr_set_c, evbuffer_ptr_set, &BUF, &POS, IN.position, (enum evbuffer_ptr_how)IN.how);
	/* the canonical pointer really denotes the position: offset inside the chain's data, bytes before it sum up to pos */
	if (r == 0 && POS.internal_.chain != NULL) {
		__CPROVER_assert(VF_IS_CH(POS.internal_.chain), "ptr_set: chain is a chain of the buffer");
		__CPROVER_assert(POS.internal_.pos_in_chain < ((struct evbuffer_chain *)POS.internal_.chain)->off, "ptr_set: offset lies inside the chain's data (never past it)");
	}
	if (r == 0 && POS.internal_.chain == NULL) __CPROVER_assert((size_t)POS.pos == O_total, "ptr_set: the NULL chain denotes exactly the end of the buffer");
#ifdef VF_CANARY
	__CPROVER_assert(r == 0, "canary: must fail (positions beyond the end are refused)");
#endif
}
