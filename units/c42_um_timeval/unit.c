/* C42 — evtag_unmarshal_timeval on arbitrary bytes.
 * Harness, reference and the full statement: contracts/c31_tag_unmarshal_harness.h (case 4 of IN.which; one case per
 * unit: CBMC decides one case in a quarter of the time it needs for two merged ones). */
#define VF_WHICH_A 4
#define VF_WHICH_B 4
#include "c31_tag_unmarshal_harness.h"
