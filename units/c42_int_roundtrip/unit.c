/* C42 — 32- and 64-bit integer codec of the real event_tagging.c: for every value, encoding
 * then decoding returns the value, consumes exactly the bytes produced, and the length is the
 * minimal nibble count.  All loops are bounded by the operand width and fully unwound
 * (unwinding assertions on) — complete for all 2^32 / 2^64 values.  Whatever bytes follow the
 * item in the buffer (IN.tail) do not matter. */
#define VF_EB_CAP 16
#include "vf.h"
#include "event_tagging.c"
struct in { ev_uint64_t v64; ev_uint32_t v32; unsigned char tail[6]; unsigned ntail; int which; unsigned ch[VF_NCHOICE]; };
struct in IN;
#include "stubs/log.h"
#include "stubs/evbuffer_model.h"



void harness(void)
{
	VF_LOAD_IN(); VF_EB_RESET();
	__CPROVER_assume(IN.ntail <= 6);
	if (IN.which & 1) {
		ev_uint32_t out = ~IN.v32; int n, r, i; ev_uint32_t t; int nib;
		/* public encoder: appends to the buffer through evbuffer_add */
		evtag_encode_int(&EVB[0], IN.v32);
		n = (int)g_eb[0].len;
		/* nibble count: number of significant hex digits (at least 1); bytes = 1 + nibbles/2 (first nibble is the count) */
		nib = 1; t = IN.v32; for (i = 0; i < 7; i++) { if (t >> 4) { t >>= 4; nib++; } }
		__CPROVER_assert(n == nib / 2 + 1, "encode_int: length is the minimal 1 + nibbles/2 bytes");
		__CPROVER_assert(n >= 1 && n <= 5, "encode_int: 1..5 bytes");
		__CPROVER_assert((g_eb[0].d[0] >> 4) == nib - 1, "encode_int: first nibble is nibbles-1");
		evbuffer_add(&EVB[0], IN.tail, IN.ntail);
		r = decode_int_internal(&out, &EVB[0], 0);
		__CPROVER_assert(r == n, "decode_int_internal: consumes exactly the encoded length");
		__CPROVER_assert(out == IN.v32, "decode(encode(v)) == v (32-bit)");
		out = ~IN.v32;
		r = evtag_decode_int(&out, &EVB[0]);
		__CPROVER_assert(r == 0 && out == IN.v32, "evtag_decode_int returns the value");
		__CPROVER_assert(g_eb[0].drained == (size_t)n && g_eb[0].len == IN.ntail, "evtag_decode_int drains exactly the item");
#ifdef VF_CANARY
		__CPROVER_assert(n != 5, "canary: must fail (some values need 5 bytes)");
#endif
	} else {
		ev_uint64_t out = ~IN.v64; int n, r, i; ev_uint64_t t; int nib;
		evtag_encode_int64(&EVB[0], IN.v64);
		n = (int)g_eb[0].len;
		nib = 1; t = IN.v64; for (i = 0; i < 15; i++) { if (t >> 4) { t >>= 4; nib++; } }
		__CPROVER_assert(n == nib / 2 + 1, "encode_int64: length is the minimal 1 + nibbles/2 bytes");
		__CPROVER_assert(n >= 1 && n <= 9, "encode_int64: 1..9 bytes");
		evbuffer_add(&EVB[0], IN.tail, IN.ntail);
		r = decode_int64_internal(&out, &EVB[0], 0);
		__CPROVER_assert(r == n, "decode_int64_internal: consumes exactly the encoded length");
		__CPROVER_assert(out == IN.v64, "decode(encode(v)) == v (64-bit)");
		out = ~IN.v64;
		r = evtag_decode_int64(&out, &EVB[0]);
		__CPROVER_assert(r == 0 && out == IN.v64, "evtag_decode_int64 returns the value");
		__CPROVER_assert(g_eb[0].drained == (size_t)n && g_eb[0].len == IN.ntail, "evtag_decode_int64 drains exactly the item");
#ifdef VF_CANARY
		__CPROVER_assert(n != 9, "canary: must fail (some values need 9 bytes)");
#endif
	}
}
