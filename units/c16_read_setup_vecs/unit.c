/* C16 — evbuffer_read_setup_vecs_ (real buffer.c) on every buffer of <= 3 chains of every kind: the vectors it hands to
 * readv()/WSARecv()/evbuffer_reserve_space lie exactly in the free space of consecutive chains starting at the first chain with
 * room, add up to at least the request (exactly, when `exact`), and nothing of the buffer is modified.
 * Precondition = what evbuffer_expand_fast_(buf, howmuch, n_vecs) establishes before every call in the tree. */
#define VF_NLOCKS 3
#include "vf.h"
#include "stubs/c15_sys_redirect.h"
#include "buffer.c"
#include "stubs/lock.h"
struct c15_bin;
#include "c15_shape.h"
struct in { struct c15_bin b; ev_ssize_t howmuch; int n_vecs, exact; unsigned ch[VF_NCHOICE]; };
struct in IN;
#include "stubs/log.h"
#include "stubs/c15_mm.h"
#include "stubs/c15_sys.h"
#include "c15_contracts.h"
static struct evbuffer_iovec VECS[4];
static struct evbuffer_chain **CHAINP;
static int FIRST;            /* index of the first chain with room (harness ghost) */
#define SPACE(i) ((XC[i].c.flags & EVBUFFER_IMMUTABLE) ? (size_t)0 : XC[i].c.buffer_len - ((size_t)XC[i].c.misalign + XC[i].c.off))
#define RV __CPROVER_return_value
VF_CONTRACT(int, rsv_c, struct evbuffer *buf, ev_ssize_t howmuch, struct evbuffer_iovec *vecs, int n_vecs_avail, struct evbuffer_chain ***chainp, int exact)
__CPROVER_requires(buf == &BUF && vecs == VECS && chainp == &CHAINP && n_vecs_avail >= 1 && n_vecs_avail <= 4 && FIRST >= 0 && FIRST < 3)
__CPROVER_assigns(__CPROVER_object_whole(VECS), CHAINP)
__CPROVER_ensures(IMP(howmuch < 0, RV == -1))
/* the walk starts at the first chain with room … */
__CPROVER_ensures(IMP(howmuch >= 0, RV >= 0 && RV <= n_vecs_avail && CHAINP == (FIRST == 0 ? &BUF.first : &XC[FIRST - 1].c.next) && *CHAINP == &XC[FIRST].c))
/* … takes chains only while the request is not covered, and covers it */
__CPROVER_ensures(IMP(howmuch >= 0, IFF(RV == 0, howmuch == 0)))
;

void harness(void)
{
	int r, k, lwd; size_t sum = 0, avail = 0;
	VF_LOAD_IN();
	VF_INSTALL_LOCKS(); C15_RESET(); C15_SYS_RESET();
	c15_build(&IN.b, 0, 0);
	__CPROVER_assume(IN.b.nch >= 1);                                   /* EVUTIL_ASSERT(*firstchainp): expand_fast_ leaves at least one chain */
	lwd = c15_lwd_index(&IN.b); if (lwd < 0) lwd = 0;
	FIRST = (SPACE(lwd) == 0) ? lwd + 1 : lwd;
	__CPROVER_assume(FIRST < (int)IN.b.nch);                            /* EVUTIL_ASSERT(chain): there is a chain with room */
	__CPROVER_assume(IN.n_vecs >= 1 && IN.n_vecs <= 4);
	/* evbuffer_expand_fast_(buf, howmuch, n): the first n chains from there on have room for howmuch bytes */
	for (k = 0; k < 3; k++) if (k >= FIRST && k < (int)IN.b.nch && k - FIRST < IN.n_vecs) avail += SPACE(k);
	__CPROVER_assume(IN.howmuch < 0 || (size_t)IN.howmuch <= avail);
	if (BUF.lock) g_lock_depth[1] = 1;
	C15_SNAPSHOT();
	r = VF_CALL(rsv_c, evbuffer_read_setup_vecs_, &BUF, IN.howmuch, VECS, IN.n_vecs, &CHAINP, IN.exact);
	__CPROVER_assert(C15_BUF_SAME(BUF, O_BUF) && C15_ALLXC_SAME(), "the buffer is not modified");
	if (r > 0) {
		for (k = 0; k < 4; k++) {
			if (k >= r) break;
			__CPROVER_assert(FIRST + k < (int)IN.b.nch, "vector k belongs to a chain of the list");
			if (FIRST + k >= (int)IN.b.nch) break;
			__CPROVER_assert(VECS[k].iov_base == (void *)(XC[FIRST + k].c.buffer + XC[FIRST + k].c.misalign + XC[FIRST + k].c.off), "vector k starts at chain k's first free byte");
			__CPROVER_assert(VECS[k].iov_len <= SPACE(FIRST + k), "vector k lies inside chain k's free space (0 for immutable chains)");
			__CPROVER_assert(IMP(!IN.exact || k < r - 1, VECS[k].iov_len == SPACE(FIRST + k)), "vector k covers all of chain k's free space (the last one is cut when exact)");
			__CPROVER_assert(sum < (size_t)IN.howmuch, "a further chain is taken only while the request is not covered");
			sum += VECS[k].iov_len;
		}
		__CPROVER_assert(sum >= (size_t)IN.howmuch, "the vectors cover the request");
		__CPROVER_assert(IMP(IN.exact, sum == (size_t)IN.howmuch), "exact: not a byte more than the request");
	}
#ifdef VF_CANARY
	__CPROVER_assert(r < 2, "canary: must fail (a request can span two chains)");
#endif
}
