/* C44 (+C08) — evconnlistener_enable (real listener.c): marks the listener enabled and adds its event iff a
 * callback is installed (a listener without callback accepts nothing until evconnlistener_set_cb); returns the
 * result of event_add (0 without callback); nothing else changes; the lock is taken once and released. */
#include "c44_listener_unit.h"
VF_CONTRACT(int, enable_c, struct evconnlistener *lev)
__CPROVER_requires(lev == &L->base && g_lock_depth[1] == 0 && g_l.add_calls == 0 && g_l.del_calls == 0 && g_mm_frees == 0)
__CPROVER_assigns(L->base.enabled, __CPROVER_object_whole(&g_l), g_lock_depth[1], g_lock_ops, vf_nchoice_)
__CPROVER_ensures(L->base.enabled == 1)
__CPROVER_ensures(g_l.add_calls == (IN.has_cb ? 1u : 0u) && g_l.del_calls == 0)
__CPROVER_ensures(__CPROVER_return_value == (IN.has_cb ? g_l.add_ret : 0))
__CPROVER_ensures(IMP(IN.has_cb, g_l.add_lockdepth == (IN.has_lock ? 1 : 0) && g_l.ev_pending == (g_l.add_ret == 0 ? 1 : (IN.ev_pending ? 1 : 0))))
__CPROVER_ensures(g_lock_depth[1] == 0 && g_mm_frees == 0 && g_l.accept_calls == 0 && g_l.lfd_closed == 0)
;
void harness(void)
{
	int r;
	VF_LOAD_IN();
	vf_c44_build();
	r = VF_CALL(enable_c, evconnlistener_enable, &L->base);
	__CPROVER_assert(L->base.refcnt == IN.refcnt && L->base.flags == IN.flags && L->base.cb == (IN.has_cb ? vf_user_cb : NULL) && L->base.user_data == &vf_ud_a && L->base.accept4_flags == IN.a4flags, "frame: nothing but `enabled` changes");
#ifdef VF_CANARY
	__CPROVER_assert(r == 0, "canary: must fail (event_add may fail)");
#endif
}
