/* C19/C08/C10 — bufferevent_run_deferred_callbacks_locked (real bufferevent.c); see contracts/c19_deferred_unit.h */
#define C19_UNLOCKED 0
#include "c19_deferred_unit.h"
