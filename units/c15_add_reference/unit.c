/* C15/C14/C13/C08 — evbuffer_add_reference_with_offset (real buffer.c; also entered through its offset == 0 wrapper
 * evbuffer_add_reference) on every buffer of <= 3 chains of every kind.
 * Inline (real): evbuffer_chain_new, evbuffer_chain_insert, evbuffer_free_trailing_empty_chains, evbuffer_free_all_chains.
 * Replaced by contracts: evbuffer_chain_free (c15_chain_free), evbuffer_invoke_callbacks_.
 * The referenced bytes (USERDATA) and all chain data objects are in no assigns clause: they are never written. */
#define VF_NLOCKS 3
#define VF_NCHOICE 8
#include "vf.h"
#include "stubs/c15_sys_redirect.h"
#include "buffer.c"
#include "stubs/lock.h"
struct c15_bin;
#include "c15_shape.h"
struct in { struct c15_bin b, s; size_t offset, datlen; unsigned has_cb, via_wrapper; int seg_refcnt; unsigned ch[VF_NCHOICE]; };
struct in IN;
#include "stubs/log.h"
#include "stubs/c15_mm.h"
#include "stubs/c15_sys.h"
#include "c15_contracts.h"

#define RV __CPROVER_return_value
#define NEWCH ((struct evbuffer_chain *)m_new[0])
VF_CONTRACT(int, addref_c, struct evbuffer *outbuf, const void *data, size_t offset, size_t datlen, evbuffer_ref_cleanup_cb cleanupfn, void *extra)
__CPROVER_requires(outbuf == &BUF && data == (const void *)USERDATA && extra == (void *)&COOKIE[6] && (cleanupfn == NULL || cleanupfn == c15_cleanup_cb))
/* the referenced region [data, data + offset + datlen) is an object of the caller: no object is larger than EVBUFFER_CHAIN_MAX (SSIZE_MAX) */
__CPROVER_requires(offset <= EVBUFFER_CHAIN_MAX && datlen <= EVBUFFER_CHAIN_MAX - offset)
__CPROVER_requires(g_lock_depth[1] == 0 && g_lock_depth[2] == 0 && g_lock_depth[3] == 0 && m_al.n == 0 && m_al.fail == 0 && m_al.frees == 0 && m_al.heap_frees == 0 && m_al.sfreed == 0 && m_al.hfreed == 0 && m_cl.n == 0 && m_cl.mask == 0 && g_cbs.n[0] == 0)
__CPROVER_assigns(errno, vf_nchoice_, __CPROVER_object_whole(g_lock_depth), g_lock_ops, m_new[0], m_new[1], m_new[2], m_st, g_cbs,
	__CPROVER_object_whole(&BUF), __CPROVER_object_whole(&XC[0]), __CPROVER_object_whole(&XC[1]), __CPROVER_object_whole(&XC[2]),
	__CPROVER_object_whole(&SRC), __CPROVER_object_whole(&PC[0]), __CPROVER_object_whole(&PC[1]), __CPROVER_object_whole(&PC[2]), __CPROVER_object_whole(&SEG))
/* 1 C08 */
__CPROVER_ensures(g_lock_depth[1] == 0 && g_lock_depth[2] == 0 && g_lock_depth[3] == 0)
__CPROVER_ensures(RV == 0 || RV == -1)
/* 3 failure exactly when the end is frozen or the one allocation failed */
__CPROVER_ensures(IFF(RV == -1, O_BUF.freeze_end || m_al.fail > 0))
/* 4 C14/C15: failure => buffer and chains exactly as before, no buffer callback, the chain that was allocated is freed again, and the
 *   library does NOT call the reference's cleanup callback (the caller still owns the memory) */
__CPROVER_ensures(IMP(RV == -1, C15_BUF_SAME(BUF, O_BUF) && C15_ALLXC_SAME() && g_cbs.n[0] == 0 && m_cl.n == 0 && m_al.sfreed == 0 && m_al.n == m_al.heap_frees && m_al.n <= 1))
/* 5 C15: success => one new chain at the end that REFERS to the caller's bytes: REFERENCE|IMMUTABLE, buffer == data, window [offset, offset+datlen), cleanup info stored */
__CPROVER_ensures(IMP(RV == 0, m_al.n == 1 && m_al.heap_frees == 0 && BUF.last == NEWCH && NEWCH->next == NULL && NEWCH->refcnt == 1 &&
	NEWCH->flags == (EVBUFFER_REFERENCE | EVBUFFER_IMMUTABLE) && NEWCH->buffer == (unsigned char *)data && NEWCH->misalign == (ev_misalign_t)offset &&
	NEWCH->buffer_len == offset + datlen && NEWCH->off == datlen))
__CPROVER_ensures(IMP(RV == 0, CF_REFI(NEWCH)->cleanupfn == cleanupfn && CF_REFI(NEWCH)->extra == extra))
/* 7 C12/C13: exactly datlen bytes longer; the callbacks are told once with counters that account for exactly this addition */
__CPROVER_ensures(IMP(RV == 0, BUF.total_len == O_BUF.total_len + datlen && g_cbs.n[0] == 1 && g_cbs.total[0] == O_BUF.total_len + datlen && g_cbs.nadd[0] == O_BUF.n_add_for_cb + datlen && g_cbs.ndel[0] == O_BUF.n_del_for_cb))
/* 8 nothing but the chain list, the length and the counters changes; the cleanup callback of the NEW reference is not called */
__CPROVER_ensures(BUF.lock == O_BUF.lock && BUF.freeze_start == O_BUF.freeze_start && BUF.freeze_end == O_BUF.freeze_end && BUF.refcnt == O_BUF.refcnt && BUF.callbacks.lh_first == O_BUF.callbacks.lh_first && BUF.flags == O_BUF.flags && BUF.max_read == O_BUF.max_read)
__CPROVER_ensures(!(m_cl.mask & (1u << 6)))
;

void harness(void)
{
	int r; unsigned i;
	VF_LOAD_IN();
	VF_INSTALL_LOCKS(); C15_RESET(); C15_SYS_RESET();
	c15_build(&IN.b, 0, 0);
	{ unsigned i_; for (i_ = 0; i_ < C15_MAXCH; i_++) __CPROVER_assume(!(IN.b.flags[i_] & EVBUFFER_MULTICAST)); }   /* multicast chains in the buffer: the *_mc variant of this unit (chain_free_c) */
	__CPROVER_assume(IN.seg_refcnt >= 1 && IN.seg_refcnt <= 1000);
	SEG.refcnt = IN.seg_refcnt; SEG.flags = 0; SEG.lock = NULL; SEG.cleanup_cb = NULL; SEG.cleanup_cb_arg = NULL;
	SEG.is_mapping = 0; SEG.contents = NULL; SEG.mapping = NULL; SEG.fd = 5; SEG.length = 0; SEG.file_offset = 0;
	{ int nfs = 0; unsigned i_; for (i_ = 0; i_ < C15_MAXCH; i_++) if (i_ < IN.b.nch && (IN.b.flags[i_] & EVBUFFER_FILESEGMENT)) nfs++; __CPROVER_assume(IN.seg_refcnt >= nfs); }   /* one reference per file-segment chain */
	__CPROVER_assume(IN.offset <= EVBUFFER_CHAIN_MAX && IN.datlen <= EVBUFFER_CHAIN_MAX - IN.offset);
	C15_SNAPSHOT();
	if (IN.via_wrapper & 1) {
		/* evbuffer_add_reference: the offset-0 wrapper; its call of the function under contract is checked against the contract */
		r = evbuffer_add_reference(&BUF, (const void *)USERDATA, IN.datlen, (IN.has_cb & 1) ? c15_cleanup_cb : NULL, (void *)&COOKIE[6]);
		if (r == 0) __CPROVER_assert(NEWCH->misalign == 0 && NEWCH->off == IN.datlen && NEWCH->buffer_len == IN.datlen && NEWCH->buffer == USERDATA, "evbuffer_add_reference: the reference covers [data, data + datlen)");
	} else
		r = VF_CALL(addref_c, evbuffer_add_reference_with_offset, &BUF, (const void *)USERDATA, IN.offset, IN.datlen, (IN.has_cb & 1) ? c15_cleanup_cb : NULL, (void *)&COOKIE[6]);
	if (r == 0) {
		__CPROVER_assert(c15_binv(&BUF, m_al.sfreed), "BInv after add_reference: links, last, windows, total_len == sum off, last_with_datap canonical, no released chain in the list");
		for (i = 0; i < C15_MAXCH; i++) {
			if (i >= IN.b.nch) break;
			if (m_al.sfreed & (1u << i)) __CPROVER_assert(O_XC[i].c.off == 0, "only empty chains are dropped");
			else if (O_XC[i].c.off) __CPROVER_assert(XC[i].c.off == O_XC[i].c.off && XC[i].c.misalign == O_XC[i].c.misalign && XC[i].c.buffer == O_XC[i].c.buffer && XC[i].c.flags == O_XC[i].c.flags, "chains with data keep their bytes and kind");
		}
		__CPROVER_assert(BUF.first == O_BUF.first || O_BUF.total_len == 0, "the front of a non-empty buffer is not touched");
	}
#ifdef VF_CANARY
	__CPROVER_assert(r != 0 || m_al.sfreed == 0, "canary: must fail (trailing empty chains are released)");
#endif
}
