/* C20/C18/C17/C08 — be_filter_read_nolock_ (real bufferevent_filter.c; be_filter_process_input, be_readbuf_full and
 * bufferevent_trigger_nolock_ run inlined), optionally entered through its two lock-taking callers:
 *   default              be_filter_read_nolock_(underlying, bevf) with the lock held by the caller
 *   -DC20G_VIA_READCB    be_filter_readcb(underlying, bevf)  — the underlying bufferevent's read callback
 *   -DC20G_VIA_INBUF_CB  bufferevent_filtered_inbuf_cb(input, NULL, bevf) — somebody drained the filter's input
 * Stated: a dying filter (refcnt == 0) does nothing; otherwise the mode is FINISHED after EOF else NORMAL and everything
 * c20g_process_input states for be_filter_process_input holds (PI_POST: watermark gate, limits, loop rule, timer restart iff BEV_OK);
 * the read callback is triggered (options 0, once, after the last filter call and after the timer restart) iff the filter reported
 * a transfer and the input holds at least the low read watermark (C18); the filter's input-buffer callback is re-enabled iff data
 * was processed, underlying input is left and the input is (still, after the read callback) at/over the high mark — so that draining
 * re-runs the filter (C18 "reading resumes as soon as the application drains below it"); through the callers: the lock is taken once,
 * held while filter and callbacks run and released (C08); the inbuf callback does nothing while the input is still full, otherwise
 * disables itself and runs the filter only if underlying input is waiting.
 * BOUNDED: at most VF_MAXCALLS calls of the user's filter (stub assumption).  Plain harness. */
#include "c20g_filter_in.h"
void harness(void)
{
	int state, full0, ran;
	VF_LOAD_IN();
	vf_filter_build();
	__CPROVER_assume(IN.refcnt >= 0);                                           /* bufferevent_private.refcnt is never negative (incref/decref pairs; decref frees at 0) */
	state = IN.got_eof ? BEV_FINISHED : BEV_NORMAL;
	__CPROVER_assume(IN.state == state);
	full0 = state == BEV_NORMAL && IN.high != 0 && IN.len_in >= IN.high;
#if defined(C20G_VIA_READCB)
	g_f.want_lockdepth = IN.locking ? 1 : -1;
	be_filter_readcb(&U.bev, &F);
	ran = IN.refcnt > 0;
	__CPROVER_assert(IMP(IN.locking, g_lock_depth[1] == 0 && g_lock_ops == 2), "C08 readcb: the bufferevent lock is taken once and released before return");
#elif defined(C20G_VIA_INBUF_CB)
	g_f.want_lockdepth = IN.locking ? 1 : -1;
	bufferevent_filtered_inbuf_cb(&FIN, NULL, &F);
	ran = !full0 && IN.len_uin > 0 && IN.refcnt > 0;
	__CPROVER_assert(IMP(IN.locking, g_lock_depth[1] == 0 && g_lock_ops == 2), "C08 inbuf_cb: the bufferevent lock is taken once and released before return");
	__CPROVER_assert(g_f.clrf == (full0 ? 0 : 1), "C18 inbuf_cb: the callback stays armed while the input is at/over the high mark, otherwise disables itself");
	__CPROVER_assert(IMP(full0 || IN.len_uin == 0, g_f.calls == 0 && g_f.rcb == 0 && g_f.ev_add == 0 && g_f.setf == 0), "C18 inbuf_cb: the filter is not run while the input is full or no underlying input is waiting");
#else
	if (IN.locking) { g_lock_depth[1] = 1; g_f.want_lockdepth = 1; }
	be_filter_read_nolock_(&U.bev, &F);
	ran = IN.refcnt > 0;
	__CPROVER_assert(VF_FLOCKDEPTH() == g_f.want_lockdepth && g_lock_ops == 0, "C08 read_nolock: no lock operation");
	__CPROVER_assert(g_f.clrf == 0, "read_nolock never disables the input-buffer callback");
#endif
	__CPROVER_assert(IMP(!ran, g_f.calls == 0 && g_f.rcb == 0 && g_f.ev_add == 0 && g_f.ev_other == 0 && g_f.setf == 0), "a filter whose refcount dropped to 0 is left alone");
	if (ran) {
		int processed = g_f.ok_calls > 0;                                       /* processed_any is a local of read_nolock: observable only through its effects */
		PI_POST(state, 0, processed, 0, 0);
		__CPROVER_assert(g_f.rcb == ((g_f.ok_calls > 0 && PI_LEN_IN_AFTER >= IN.low) ? 1 : 0),
		    "C18 the read callback is triggered once iff the filter reported a transfer and the input holds at least the low read watermark");
		__CPROVER_assert(IMP(g_f.rcb, g_f.rcb_opts == 0 && g_f.rcb_at_calls == g_f.calls && g_f.rcb_after_timer == g_f.ev_add && g_f.rcb_lockdepth == g_f.want_lockdepth),
		    "the read callback honours the bufferevent's deferral options, comes after the last filter call and the timer restart, with the lock held");
		__CPROVER_assert(g_f.setf == ((g_f.ok_calls > 0 && g_f.len_uin > 0 && state == BEV_NORMAL && IN.high != 0 && g_f.len_in >= IN.high) ? 1 : 0),
		    "C18 the input-buffer callback is re-enabled iff data was processed, underlying input is left and the input is at/over the high read watermark (so that draining resumes the filter)");
	}
#ifdef VF_CANARY
	__CPROVER_assert(g_f.setf == 0, "canary: must fail (data can be left in the underlying input with the filter's input full)");
#endif
}
