/* C32 — evws_close (real ws.c): a close frame carries the given status code.  For every
 * 16-bit reason and any prior content of the output buffer: if the connection is already
 * closed nothing happens; otherwise exactly the 4 bytes 88 02 hi lo (FIN|CLOSE, length 2,
 * status code big-endian, unmasked) are appended to the bufferevent's output, `closed` is set,
 * the read callback is removed and close-after-write / close-on-event are installed. */
#define VF_EB_CAP 8
#define VF_EB_MAXCOPY 4
#include "vf.h"
#include "ws.c"
struct in { unsigned short reason; int closed; unsigned prior; unsigned char pd[4]; unsigned w; unsigned ch[VF_NCHOICE]; };
struct in IN;
#include "stubs/log.h"
#include "stubs/c31_evbuffer3.h"
#include "stubs/c31_ws_env.h"
static struct evws_connection WS;
size_t O_outlen; unsigned char O_w; unsigned O_widx;

VF_CONTRACT_V(evws_close_c, struct evws_connection *evws, uint16_t reason)
__CPROVER_requires(evws == &WS && WS.bufev == &BEV)
__CPROVER_requires(vf_start[1] == 0 && vf_len[1] == O_outlen && O_outlen <= 4 && g_setcb_calls == 0)
__CPROVER_assigns(WS.closed, __CPROVER_object_whole(vf_d1), vf_len[1], vf_added[1], g_setcb_calls, g_setcb_read, g_setcb_write, g_setcb_event, g_setcb_arg)
/* 1 already closed: no second close frame, nothing touched */
__CPROVER_ensures(IMP(__CPROVER_old(WS.closed), WS.closed && vf_len[1] == O_outlen && g_setcb_calls == 0))
/* 2 the close frame */
__CPROVER_ensures(IMP(!__CPROVER_old(WS.closed), WS.closed && vf_len[1] == O_outlen + 4))
__CPROVER_ensures(IMP(!__CPROVER_old(WS.closed), vf_d1[O_outlen] == 0x88 && vf_d1[O_outlen + 1] == 0x02 && vf_d1[O_outlen + 2] == (reason >> 8) && vf_d1[O_outlen + 3] == (reason & 0xff)))
/* 4 bytes already queued are not disturbed (ghost witness index) */
__CPROVER_ensures(IMP(O_widx < O_outlen, vf_d1[O_widx] == O_w))
/* 5 wait for the close frame to be written, then free the connection */
__CPROVER_ensures(IMP(!__CPROVER_old(WS.closed), g_setcb_calls == 1 && g_setcb_read == 0 && g_setcb_write == close_after_write_cb && g_setcb_event == close_event_cb && g_setcb_arg == (void *)evws))
;

void harness(void)
{
	unsigned i;
	VF_LOAD_IN(); VF_EB_RESET(); VF_WS_ENV_RESET();
	__CPROVER_assume(IN.prior <= 4);
	WS.bufev = &BEV; WS.closed = IN.closed ? true : false; WS.cb = 0; WS.cbclose = 0; WS.incomplete_frames = 0; WS.http_server = 0;
	for (i = 0; i < 4; i++) if (i < IN.prior) vf_d1[i] = IN.pd[i];
	vf_len[1] = IN.prior; O_outlen = IN.prior; O_widx = IN.w; O_w = IN.w < IN.prior ? vf_d1[IN.w] : 0;
	VF_CALL_V(evws_close_c, evws_close, &WS, IN.reason);
#ifdef VF_CANARY
	__CPROVER_assert(!(vf_len[1] == 4 && vf_d1[2] == 0x03 && vf_d1[3] == 0xe8), "canary: must fail (status 1000 = 03 e8 is possible)");
#endif
}
