/* C12/C13/C14/C08 — evbuffer_reserve_space (real buffer.c) with n_vecs == 2 on every shape of <= 3 chains: see contracts/c12a_reserve.h */
#ifndef C12A_NVECS
#define C12A_NVECS 2
#endif
#include "c12a_reserve.h"
