/* C29 — evhttp_decode_uri_internal (real http.c), functional content on bounded inputs: for every byte
 * string of length <= VF_N (embedded NULs included: the function takes an explicit length), every
 * decode_plus_ctl in {1, 0, -1}: the output is exactly what the reference decoder ref_decode() yields
 * (RFC 3986 2.1: "%" HEXDIG HEXDIG -> the byte with that value, both digits must lie inside the input;
 * '+' -> ' ' per mode: always (1), never (0), only after the first '?' (-1, deprecated);
 * everything else copied), the result is NUL-terminated at the returned length, the returned length is
 * input length - 2 * (number of escapes), and nothing beyond ret[length] is written.
 * Memory safety / the size bound for ALL lengths is unit c29_decode_internal (loop contract). */
#ifndef VF_N
#define VF_N 8
#endif
#include "vf.h"
#include "http.c"
struct in { unsigned char s[VF_N]; unsigned len; int ctl; };
struct in IN;
#include "stubs/log.h"
#include "stubs/c28_ctype.h"
#define VF_C28_WANT_STRTOL
#include "stubs/c28_libc_ref.h"

/* ---- reference decoder (trusted): contracts/c29_ref.h ---- */
#define VF_REF_CAP VF_N
#include "c29_ref.h"

static char U[VF_N];          /* exactly the input bytes: no terminator follows */
static char R[VF_N + 3];      /* ret: length + 1 bytes used, then two sentinels */
static unsigned char E[VF_N + 1];

void harness(void)
{
	int n; unsigned k, en, nesc; char *u;
	VF_LOAD_IN();
	__CPROVER_assume(IN.len <= VF_N);
	__CPROVER_assume(IN.ctl >= -1 && IN.ctl <= 1);
	/* right-align the input in its object so that uri[length] is out of bounds */
	u = U + (VF_N - IN.len);
	for (k = 0; k < VF_N; k++) if (k < IN.len) u[k] = (char)IN.s[k];
	for (k = 0; k < VF_N + 3; k++) R[k] = 0x55;
	en = ref_decode((const unsigned char *)u, IN.len, E, IN.ctl, &nesc);
	n = evhttp_decode_uri_internal(u, IN.len, R, IN.ctl);
	__CPROVER_assert(n >= 0 && (unsigned)n == en, "decode: returned length equals the reference decoder's length");
	__CPROVER_assert((unsigned)n + 2 * nesc == IN.len, "decode: length shrinks by exactly 2 per %XX escape");
	for (k = 0; k < VF_N; k++) if (k < en) __CPROVER_assert((unsigned char)R[k] == E[k], "decode: every output byte equals the reference decoder's byte");
	__CPROVER_assert(R[en] == '\0', "decode: NUL-terminated at the returned length");
	for (k = 0; k < VF_N + 3; k++) if (k > en) __CPROVER_assert(R[k] == 0x55, "decode: nothing written beyond ret[n]");
#ifdef VF_CANARY
	__CPROVER_assert(!(IN.len == 3 && n == 1 && R[0] == '\0'), "canary: must fail (\"%00\" decodes to one NUL byte)");
#endif
}
