/* C26 — evhttp_header_is_valid_value (real http.c): the gate every header value passes before
 * evhttp_make_header writes it as "Name: value\r\n".
 *   (1) no false refusal: every value that RFC 9112 allows (no CR/LF except CRLF SP/HT folds)
 *       is accepted; and a value in which some maximal CR/LF run is NOT followed by SP/HT is
 *       refused (DESIGN §8);
 *   (2) the property (C26: "no header value can add a header field or a message"): returns 1
 *       ==> "Name: value\r\n" is ONE field line under RFC 9112 section 5.2, i.e. every CR is
 *       followed by LF, every LF is preceded by CR, and every CRLF is followed by SP/HT
 *       (obs-fold = OWS CRLF RWS).  This is obligation "rfc".
 * The value is right-aligned in its object (the terminator is the object's last byte) so that
 * any read behind the terminator is an out-of-bounds obligation. */
#ifndef VF_N
#define VF_N 8
#endif
#define VF_STRMAX VF_N
#include "vf.h"
#include "http.c"
struct in { unsigned char s[VF_N]; unsigned len; };   /* unsigned char: the trace extractor reads numbers, not C character literals */
struct in IN;
#include "stubs/log.h"
#include "stubs/c23_libc_ref.h"

#include "c23_ref.h"
static char BUF[VF_N + 1];

void harness(void)
{
	unsigned i; int r; char *v;
	VF_LOAD_IN();
	__CPROVER_assume(IN.len <= VF_N);
	for (i = 0; i < VF_N; i++) { BUF[i] = (char)IN.s[i]; if (i >= VF_N - IN.len) __CPROVER_assume(IN.s[i] != 0); }
	BUF[VF_N] = 0;
	v = &BUF[VF_N - IN.len];
#ifdef VF_KF_EXCLUDE
	/* known finding C26-value-multi-newline: values where runs_ok and rfc_ok differ */
	__CPROVER_assume(ref_runs_ok(v, IN.len) == ref_rfc_ok(v, IN.len));
#endif
#ifdef VF_KF_ONLY
	__CPROVER_assume(ref_runs_ok(v, IN.len) != ref_rfc_ok(v, IN.len));
#endif
	r = evhttp_header_is_valid_value(v);
	__CPROVER_assert(r == 0 || r == 1, "returns 0 or 1");
	__CPROVER_assert(IMP(ref_rfc_ok(v, IN.len), r == 1), "accepts every RFC 9112 field value (no CR/LF other than CRLF SP/HT folds)");
	__CPROVER_assert(IMP(r == 1, ref_runs_ok(v, IN.len)), "rejects a value in which some CR/LF run is not followed by SP/HT (it would start a new line)");
	__CPROVER_assert(IMP(r == 1, ref_rfc_ok(v, IN.len)), "rfc: an accepted value serialises as ONE field line (only single CRLF SP/HT folds)");
#ifdef VF_CANARY
	__CPROVER_assert(r == 0, "canary: must fail (some values are valid)");
#endif
}
