/* C45/C08/C10 — evwatch_free (real watch.c): the watcher is unlinked from the list of its type (predecessor and
 * successor become neighbours, nobody else moves), then its memory is released exactly once; the base lock is
 * taken for the unlink only and released.  Lists of 1..3 malloc'ed watchers, any position freed. */
#define VF_NLOCKS 1
#define VF_MM_NOFAIL
#include "vf.h"
#include "watch.c"
struct in { int n, idx, type; };
struct in IN;
#include "stubs/log.h"
#include "stubs/mm.h"
#include "stubs/lock.h"

static struct event_base BASE;
struct evwatch *g_w[3];
struct evwatch *O_prev_owner, *O_next; struct evwatch **O_prevslot;

VF_CONTRACT_V(free_c, struct evwatch *watcher)
__CPROVER_requires(watcher == g_w[IN.idx] && g_lock_depth[1] == 0 && g_mm_frees == 0)
__CPROVER_assigns(g_lock_depth[1], g_lock_ops, g_mm_live, g_mm_frees, *O_prevslot;
	O_next != NULL: O_next->next.tqe_prev;
	O_next == NULL: BASE.watchers[IN.type].tqh_last)
__CPROVER_frees(watcher)
/* 1 C08 */ __CPROVER_ensures(g_lock_depth[1] == 0)
/* 2 C10: released exactly once */ __CPROVER_ensures(g_mm_frees == 1 && __CPROVER_was_freed(watcher))
/* 3 C45: unlinked — whoever pointed at it now points at its successor, and the successor (or the list tail) points back */
__CPROVER_ensures(*O_prevslot == O_next)
__CPROVER_ensures(O_next != NULL ? O_next->next.tqe_prev == O_prevslot : BASE.watchers[IN.type].tqh_last == O_prevslot)
;

void harness(void)
{
	int k;
	VF_LOAD_IN(); VF_INSTALL_LOCKS(); VF_MM_RESET();
	__CPROVER_assume(IN.n >= 1 && IN.n <= 3 && IN.idx >= 0 && IN.idx < IN.n && (IN.type == EVWATCH_PREPARE || IN.type == EVWATCH_CHECK));
	BASE.th_base_lock = VF_LOCK_COOKIE(1);
	TAILQ_INIT(&BASE.watchers[0]); TAILQ_INIT(&BASE.watchers[1]);
	for (k = 0; k < 3; k++) {
		g_w[k] = NULL;
		if (k < IN.n) {
			g_w[k] = malloc(sizeof(struct evwatch));
			__CPROVER_assume(g_w[k] != NULL);
			g_w[k]->base = &BASE; g_w[k]->type = (unsigned)IN.type;
			TAILQ_INSERT_TAIL(&BASE.watchers[IN.type], g_w[k], next);
		}
	}
	g_mm_live = IN.n;
	O_next = g_w[IN.idx]->next.tqe_next; O_prevslot = g_w[IN.idx]->next.tqe_prev;
	VF_CALL_V(free_c, evwatch_free, g_w[IN.idx]);
	/* the survivors, in their old order */
	if (IN.n == 1) __CPROVER_assert(BASE.watchers[IN.type].tqh_first == NULL && BASE.watchers[IN.type].tqh_last == &BASE.watchers[IN.type].tqh_first, "C45: freeing the only watcher leaves an empty list");
	if (IN.n == 3 && IN.idx == 1) __CPROVER_assert(BASE.watchers[IN.type].tqh_first == g_w[0] && g_w[0]->next.tqe_next == g_w[2] && g_w[2]->next.tqe_next == NULL && g_w[2]->next.tqe_prev == &g_w[0]->next.tqe_next, "C45: freeing the middle watcher links its neighbours, order kept");
	if (IN.n == 3 && IN.idx == 0) __CPROVER_assert(BASE.watchers[IN.type].tqh_first == g_w[1] && g_w[1]->next.tqe_next == g_w[2], "C45: freeing the first watcher makes the second the head");
	if (IN.n == 3 && IN.idx == 2) __CPROVER_assert(BASE.watchers[IN.type].tqh_first == g_w[0] && g_w[1]->next.tqe_next == NULL && BASE.watchers[IN.type].tqh_last == &g_w[1]->next.tqe_next, "C45: freeing the last watcher makes the second the tail");
	__CPROVER_assert(BASE.watchers[1 - IN.type].tqh_first == NULL, "the list of the other type is untouched");
#ifdef VF_CANARY
	__CPROVER_assert(BASE.watchers[IN.type].tqh_first != NULL, "canary: must fail (the list can become empty)");
#endif
}
