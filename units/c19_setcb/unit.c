/* C19/C08 — bufferevent_setcb (real bufferevent.c) and, as a round trip, bufferevent_getcb: the four user fields
 * are replaced atomically under the lock (clearing = setting NULL: "no callback runs after callbacks are cleared"
 * follows with c19_deferred_*: the runner calls nothing for a NULL callback and leaves its pending bit);
 * getcb reports exactly the stored values through the non-NULL out-pointers only. */
#include "c18_bev_unit.h"
VF_CONTRACT_V(setcb_c, struct bufferevent *bufev, bufferevent_data_cb readcb, bufferevent_data_cb writecb, bufferevent_event_cb eventcb, void *cbarg)
__CPROVER_requires(bufev == BEV && g_lock_depth[1] == 0)
__CPROVER_assigns(BEV->readcb, BEV->writecb, BEV->errorcb, BEV->cbarg, g_lock_depth[1], g_lock_ops)
__CPROVER_ensures(BEV->readcb == readcb && BEV->writecb == writecb && BEV->errorcb == eventcb && BEV->cbarg == cbarg)
__CPROVER_ensures(g_lock_depth[1] == 0)
;
static char other_arg_;
void harness(void)
{
	bufferevent_data_cb r = NULL, w = NULL; bufferevent_event_cb e = NULL; void *a = NULL;
	bufferevent_data_cb nr, nw; bufferevent_event_cb ne; void *na;
	VF_LOAD_IN();
	vf_bev_build();
	nr = (IN.options & 1) ? vf_user_readcb : NULL; nw = (IN.options & 2) ? vf_user_writecb : NULL; ne = (IN.options & 4) ? vf_user_eventcb : NULL;
	na = (IN.options & 8) ? (void *)&other_arg_ : NULL;
	VF_CALL_V(setcb_c, bufferevent_setcb, BEV, nr, nw, ne, na);
	__CPROVER_assert(BEVP.readcb_pending == (IN.rp & 1) && BEVP.writecb_pending == (IN.wp & 1) && BEVP.eventcb_pending == IN.ep && BEVP.refcnt == IN.refcnt, "setcb leaves pending bits and the reference count alone");
	bufferevent_getcb(BEV, (IN.iotype & 1) ? &r : NULL, (IN.iotype & 2) ? &w : NULL, (IN.iotype & 4) ? &e : NULL, (IN.iotype & 8) ? &a : NULL);
	__CPROVER_assert(r == ((IN.iotype & 1) ? nr : NULL) && w == ((IN.iotype & 2) ? nw : NULL) && e == ((IN.iotype & 4) ? ne : NULL) && a == ((IN.iotype & 8) ? na : NULL), "getcb returns what setcb stored, through the requested out-pointers only");
	__CPROVER_assert(g_lock_depth[1] == 0 && g_e.nseq == 0, "getcb: lock released, nothing called");
#ifdef VF_CANARY
	__CPROVER_assert(BEV->readcb != NULL, "canary: must fail (callbacks can be cleared)");
#endif
}
