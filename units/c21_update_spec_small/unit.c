/* C21 — refutation search on a SMALL domain: the direct 128-bit statement of c21_update_spec with levels,
 * rates and maxima below 2^8 and tick differences below 16.  A counterexample found here is a real input
 * of the real function (it is replayed natively); a pass here proves nothing and is never reported as one. */
#define C21_SMALL 1
#include "../c21_update_spec/unit.c"
