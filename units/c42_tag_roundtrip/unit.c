/* C42 — tag codec of the real event_tagging.c: for EVERY 32-bit tag, evtag_encode_tag produces
 * the minimal 1..5 byte base-128 encoding (every byte but the last has the high bit set, the last
 * byte is non-zero unless the tag is 0 .. i.e. ceil(bits/7) bytes), evtag_peek returns the tag
 * without consuming, evtag_decode_tag returns it and consumes exactly the bytes produced;
 * evtag_encode_tag(NULL, tag) reports the same length without touching any buffer.  Whatever
 * bytes follow the item (IN.tail) do not matter.  Loops bounded by the operand width (<= 5
 * iterations), fully unwound: complete. */
#define VF_EB_CAP 16
#include "vf.h"
#include "event_tagging.c"
struct in { ev_uint32_t tag; unsigned char tail[6]; unsigned ntail; unsigned ch[VF_NCHOICE]; };
struct in IN;
#include "stubs/log.h"
#include "stubs/evbuffer_model.h"

void harness(void)
{
	int n, n0, r, i, need; ev_uint32_t out, t;
	VF_LOAD_IN(); VF_EB_RESET();
	__CPROVER_assume(IN.ntail <= 6);
	n0 = evtag_encode_tag(NULL, IN.tag);
	__CPROVER_assert(g_eb[0].len == 0 && g_eb[0].added == 0, "evtag_encode_tag(NULL, ..) writes nothing");
	n = evtag_encode_tag(&EVB[0], IN.tag);
	need = 1; t = IN.tag; for (i = 0; i < 4; i++) { if (t >> 7) { t >>= 7; need++; } }
	__CPROVER_assert(n == need && n0 == n, "encode_tag: length is the minimal ceil(bits/7) bytes, 1..5, with or without a buffer");
	__CPROVER_assert(n >= 1 && n <= 5 && g_eb[0].len == (size_t)n, "encode_tag: appends exactly the bytes it reports");
	for (i = 0; i < 5; i++) if (i < n) {
		__CPROVER_assert(((g_eb[0].d[i] & 0x80) != 0) == (i < n - 1), "encode_tag: continuation bit on every byte but the last");
		__CPROVER_assert((g_eb[0].d[i] & 0x7f) == ((IN.tag >> (7 * i)) & 0x7f), "encode_tag: 7 bits per byte, least significant group first");
	}
	evbuffer_add(&EVB[0], IN.tail, IN.ntail);
	out = ~IN.tag;
	r = evtag_peek(&EVB[0], &out);
	__CPROVER_assert(r == n && out == IN.tag, "evtag_peek returns the tag and its encoded length");
	__CPROVER_assert(g_eb[0].drained == 0 && g_eb[0].len == (size_t)n + IN.ntail, "evtag_peek consumes nothing");
	r = decode_tag_internal(NULL, &EVB[0], 0);
	__CPROVER_assert(r == n && g_eb[0].drained == 0, "decode_tag_internal(NULL, .., no drain) only measures");
	out = ~IN.tag;
	r = evtag_decode_tag(&out, &EVB[0]);
	__CPROVER_assert(r == n && out == IN.tag, "decode_tag(encode_tag(t)) == t, same length");
	__CPROVER_assert(g_eb[0].drained == (size_t)n && g_eb[0].len == IN.ntail, "evtag_decode_tag consumes exactly the item");
#ifdef VF_CANARY
	__CPROVER_assert(n != 5, "canary: must fail (tags >= 2^28 need 5 bytes)");
#endif
}
