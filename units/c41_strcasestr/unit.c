/* C41 — evutil_ascii_strcasestr (real evutil.c) against its definition: the result is the FIRST
 * position in s at which `find` occurs when 'A'..'Z' and 'a'..'z' are identified, or NULL if there
 * is none; an empty `find` matches at s.  Both strings end exactly at the end of their objects, so
 * any read past a terminating NUL is an out-of-bounds obligation failure.  Bounded: strings of
 * <= VF_N-1 characters, all byte contents; loops unwound with unwinding assertions. */
#include "vf.h"
#include "evutil.c"
#include "stubs/log.h"
#ifndef VF_N
#define VF_N 8
#endif
struct in { unsigned char a[VF_N]; unsigned char b[VF_N]; int n1, n2; };
struct in IN;
#include "c41_str.h"

void harness(void)
{
	int i, j, p, first;
	const char *s, *f, *r;
	VF_LOAD_IN();
	__CPROVER_assume(0 <= IN.n1 && IN.n1 < VF_N && 0 <= IN.n2 && IN.n2 < VF_N);
	/* right-aligned: s = A + (VF_N-1-n1) has exactly n1 non-NUL bytes and its NUL is the last byte of A */
	for (i = 0; i < VF_N; i++) {
		A[i] = (char)IN.a[i]; B[i] = (char)IN.b[i];
		if (i >= VF_N - 1 - IN.n1 && i < VF_N - 1) __CPROVER_assume(A[i] != 0);
		if (i >= VF_N - 1 - IN.n2 && i < VF_N - 1) __CPROVER_assume(B[i] != 0);
	}
	A[VF_N - 1] = 0; B[VF_N - 1] = 0;
	s = A + (VF_N - 1 - IN.n1); f = B + (VF_N - 1 - IN.n2);
	/* reference: first p with p + n2 <= n1 and lower(s[p+j]) == lower(f[j]) for all j < n2 */
	first = -1;
	for (p = 0; p < VF_N; p++) {
		int m = (p + IN.n2 <= IN.n1);
		for (j = 0; j < VF_N - 1; j++)
			if (m && j < IN.n2 && ref_lower((unsigned char)s[p + j]) != ref_lower((unsigned char)f[j])) m = 0;
		if (m && first < 0) first = p;
	}
	r = evutil_ascii_strcasestr(s, f);
	__CPROVER_assert(IFF(r == NULL, first < 0), "evutil_ascii_strcasestr returns NULL iff find does not occur in s ignoring ASCII case");
	__CPROVER_assert(IMP(first >= 0, r == s + first), "evutil_ascii_strcasestr returns the FIRST case-insensitive occurrence");
	__CPROVER_assert(IMP(IN.n2 == 0, r == s), "an empty needle matches at the start");
	for (i = 0; i < VF_N; i++)
		__CPROVER_assert(A[i] == (i == VF_N - 1 ? 0 : (char)IN.a[i]) && B[i] == (i == VF_N - 1 ? 0 : (char)IN.b[i]), "the strings are not modified");
#ifdef VF_CANARY
	__CPROVER_assert(r != s + 2, "canary: must fail (a match at offset 2 is possible)");
#endif
}
