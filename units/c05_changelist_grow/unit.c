/* C05 — event_changelist_grow (real evmap.c): capacity becomes 64, or doubles; failure leaves
 * the changelist untouched.  Integer-only: every capacity the code can reach is covered. */
#include "vf.h"
#include "evmap.c"
#include "c05_changelist.h"
struct in { int fd; short old, events; int size, n; struct c05_cl_in cl; unsigned ch[VF_NCHOICE]; };
struct in IN;
#include "stubs/log.h"
#define VF_MM_NO_REALLOC
#define C05_CL_OWN_REALLOC
#include "stubs/mm.h"
#define C05_CL_BODY
#include "c05_changelist.h"

static char OLDBLK[1];   /* the current array: only its address matters here */
#define OLDP (IN.size == 0 ? (struct event_change *)NULL : (struct event_change *)OLDBLK)
void *event_mm_realloc_(void *p, size_t sz)
{
	g_mm_realloc_calls++;
	__CPROVER_assert(p == (void *)OLDP, "realloc: of the current changes array");
	g_mm_realloc_sz = sz;
	if (VF_CHOOSE() & 1u) { g_mm_realloc_ok = 0; errno = ENOMEM; return NULL; }
	g_mm_realloc_ok = 1;
	return NEWCH;      /* address only; the caller does not touch the contents */
}

VF_CONTRACT(int, cl_grow_c, struct event_changelist *changelist)
__CPROVER_requires(changelist == &BASE.changelist && g_mm_realloc_calls == 0)
/* capacities are 64*2^k and n_changes <= number of fds + signals <= 2^28 + NSIG (evmap_make_space's
 * limit), and growth happens only when n_changes == changes_size: capacity never exceeds 2^29 */
__CPROVER_requires(changelist->changes_size >= 0 && changelist->changes_size <= (1 << 29))
__CPROVER_assigns(BASE.changelist.changes, BASE.changelist.changes_size, g_mm_realloc_calls, g_mm_realloc_ok, g_mm_realloc_sz, errno, vf_nchoice_)
__CPROVER_ensures(__CPROVER_return_value == (g_mm_realloc_ok ? 0 : -1) && g_mm_realloc_calls == 1)
__CPROVER_ensures(g_mm_realloc_sz == (size_t)(IN.size < 64 ? 64 : 2 * (size_t)IN.size) * sizeof(struct event_change))
__CPROVER_ensures(IMP(__CPROVER_return_value == -1, changelist->changes == OLDP && changelist->changes_size == IN.size))
__CPROVER_ensures(IMP(__CPROVER_return_value == 0, changelist->changes == NEWCH && changelist->changes_size == (IN.size < 64 ? 64 : 2 * IN.size) && changelist->changes_size > IN.size))
__CPROVER_ensures(changelist->n_changes == IN.n)
;

void harness(void)
{
	int r;
	VF_LOAD_IN();
	__CPROVER_assume(IN.size >= 0 && IN.size <= (1 << 29));
	BASE.changelist.changes = OLDP; BASE.changelist.changes_size = IN.size; BASE.changelist.n_changes = IN.n;
	g_mm_realloc_calls = 0; g_mm_realloc_ok = 0; g_mm_realloc_sz = 0;
	r = VF_CALL(cl_grow_c, event_changelist_grow, &BASE.changelist);
	(void)r;
#ifdef VF_CANARY
	__CPROVER_assert(BASE.changelist.changes_size != 256, "canary: must fail (128 doubles to 256)");
#endif
}
