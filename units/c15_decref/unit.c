/* C10/C15/C08 — evbuffer_decref_and_unlock_ (real buffer.c) on a buffer of <= 3 chains of every kind, <= 2 callback entries,
 * with/without lock, own_lock, deferred callbacks.  evbuffer_chain_free is replaced by its contract (unit c15_chain_free[_mc]).
 * refcnt exact; at 0: every chain of the list handed to evbuffer_chain_free exactly once, callback entries freed, deferred
 * callback cancelled, lock released and freed iff own_lock, the buffer object released exactly once. */
#define VF_NLOCKS 3
#define VF_NCHOICE 8
#include "vf.h"
#include "stubs/c15_sys_redirect.h"
#include "buffer.c"
#include "stubs/lock.h"
struct c15_bin;
#include "c15_shape.h"
struct in { struct c15_bin b, s; int seg_refcnt; unsigned seg_has_cb, seg_flags, samelock; unsigned ch[VF_NCHOICE]; };
struct in IN;
#include "stubs/log.h"
#include "stubs/c15_mm.h"
#include "stubs/c15_sys.h"
#include "c15_contracts.h"

void harness(void)
{
	int k, R; unsigned i;
	VF_LOAD_IN();
	VF_INSTALL_LOCKS(); C15_RESET(); C15_SYS_RESET();
	c15_build(&IN.b, 0, 0);
	{ unsigned i_; for (i_ = 0; i_ < C15_MAXCH; i_++) __CPROVER_assume(!(IN.b.flags[i_] & EVBUFFER_MULTICAST)); }   /* multicast chains in the buffer: the *_mc variant of this unit (chain_free_c) */
	c15_build(&IN.s, 1, IN.samelock & 1);
	__CPROVER_assume(IN.seg_refcnt >= 1 && IN.seg_refcnt <= 1000);
	SEG.refcnt = IN.seg_refcnt; SEG.flags = IN.seg_flags & 0xf; SEG.lock = NULL;
	SEG.cleanup_cb = (IN.seg_has_cb & 1) ? c15_seg_cleanup_cb : NULL; SEG.cleanup_cb_arg = &COOKIE[7];
	SEG.is_mapping = 0; SEG.contents = NULL; SEG.mapping = NULL; SEG.fd = 5; SEG.length = 0; SEG.file_offset = 0;
	c15_assume_refs(&IN.b, &IN.s, IN.seg_refcnt, IN.s.refcnt);
	if (BUF.lock) g_lock_depth[1] = 1;                    /* "requires that we hold a lock on the buffer" */
	R = BUF.refcnt;
	C15_SNAPSHOT();
	VF_CALL_V(decref_c, evbuffer_decref_and_unlock_, &BUF);
	__CPROVER_assert(g_lock_depth[1] == 0 && g_lock_depth[2] == 0 && g_lock_depth[3] == 0, "C08: the buffer lock is released, no other lock is left held");
	if (R > 1) {
		__CPROVER_assert(BUF.refcnt == R - 1 && BUF.first == O_BUF.first && BUF.total_len == O_BUF.total_len && BUF.callbacks.lh_first == O_BUF.callbacks.lh_first && C15_ALLXC_SAME(), "still referenced: only the count changes");
		__CPROVER_assert(m_al.frees == 0 && m_cl.n == 0 && m_lk.frees == 0 && m_dc.cancel == 0, "still referenced: nothing freed, no cleanup callback, lock kept");
	} else {
		__CPROVER_assert((m_al.sfreed & (1u << 9)) != 0, "last reference: the buffer object is released (exactly once: a second release is refused by the allocator model)");
		for (i = 0; i < C15_MAXCH; i++) {
			/* chain_free_c: a chain that held its last reference and is not pinned is released, any other loses exactly one reference */
			if (i < IN.b.nch) {
				if (O_XC[i].c.refcnt == 1) __CPROVER_assert((m_al.sfreed & (1u << i)) != 0, "every chain of the list is handed to evbuffer_chain_free: last reference => released");
				else __CPROVER_assert(!(m_al.sfreed & (1u << i)) && XC[i].c.refcnt == O_XC[i].c.refcnt - 1, "every chain of the list is handed to evbuffer_chain_free exactly once: one reference less");
				if ((O_XC[i].c.flags & EVBUFFER_REFERENCE) && (IN.b.has_cleanup[i] & 1))
					__CPROVER_assert(IFF(O_XC[i].c.refcnt == 1, (m_cl.mask & (1u << i)) != 0), "C15: the cleanup callback of a reference chain runs (once) iff its last reference went");
			} else
				__CPROVER_assert(!(m_al.sfreed & (1u << i)) && XC[i].c.refcnt == O_XC[i].c.refcnt, "chains that are not in the list are not touched");
		}
		for (k = 0; k < 2; k++) __CPROVER_assert(IFF((unsigned)k < IN.b.ncb, (m_al.sfreed & (1u << (13 + k))) != 0), "every callback entry is removed and freed exactly once");
		__CPROVER_assert(m_dc.cancel == ((IN.b.deferred & 1) ? 1 : 0), "a deferred callback is cancelled");
		{ int nfs = 0; for (i = 0; i < C15_MAXCH; i++) if (i < IN.b.nch && (IN.b.flags[i] & EVBUFFER_FILESEGMENT)) nfs++;
		  __CPROVER_assert(m_lk.bad_free == 0 && IMP(nfs == 0, m_lk.frees == (O_BUF.own_lock ? 1 : 0)), "the lock is freed iff the buffer owns it, after it was released (a destroyed segment frees its own lock as well)"); }
		__CPROVER_assert(m_cl.twice == 0 && m_sc.bad == 0 && m_sys.bad == 0, "no callback with foreign arguments");
	}
#ifdef VF_CANARY
	__CPROVER_assert(m_cl.n == 0, "canary: must fail (freeing a buffer runs reference cleanup callbacks)");
#endif
}
