/* C24 — evhttp_parse_response_line + evhttp_parse_http_version (real http.c): the status line.
 * RFC 9112 4: status-line = HTTP-version SP status-code SP [reason-phrase], status-code = 3DIGIT.
 * Line of at most VF_N bytes (all contents without NUL; the line terminator is already removed
 * by evbuffer_readln), writable, right-aligned in its object.
 *   refused (-1): no SP at all; a version other than "HTTP/" (0|1) "." DIGIT; a status token whose
 *     number is 0;
 *   accepted (0): major/minor from the version, response_code = the number of the status token,
 *     response_code_line = a copy of everything behind the second SP ("" if there is none; the
 *     missing SP of "HTTP/1.1 200" is tolerated, RFC 9112 4 asks to accept at least that);
 *     the previous reason line is released;
 *   "status-3digit": an accepted status token is exactly three digits (so the code is 100..999
 *     and equals what the peer sent);
 *   a well-formed status line is accepted unless the allocation fails. */
#ifndef VF_N
#define VF_N 14
#endif
#define VF_STRMAX VF_N
#define VF_HEAPSTR (VF_N + 1)
#include "vf.h"
#include "http.c"
struct in { unsigned char l[VF_N]; unsigned len; int had_line; unsigned ch[VF_NCHOICE]; };
struct in IN;
#include "stubs/log.h"
#include "stubs/c23_libc_ref.h"
#include "stubs/c23_mm.h"
#include "c23_ref.h"

static char LB[VF_N + 1], L0[VF_N + 1];
static struct evhttp_request REQ;

void harness(void)
{
	unsigned i, n, sp1, sp2, tl; int r, ver_ok, tok3, val = 0; char *line, *old = NULL;
	VF_LOAD_IN(); VF_MM_RESET();
	n = IN.len;
	__CPROVER_assume(n <= VF_N);
	for (i = 0; i < VF_N; i++) { LB[i] = (char)IN.l[i]; if (i >= VF_N - n) __CPROVER_assume(IN.l[i] != 0); }
	LB[VF_N] = 0; line = &LB[VF_N - n];
	for (i = 0; i <= VF_N; i++) L0[i] = i <= n ? line[i] : 0;        /* copy of the original text (the parser cuts the line in place) */
	REQ.major = 7; REQ.minor = 7; REQ.response_code = -5; REQ.response_code_line = NULL; REQ.remote_host = NULL;
	if (IN.had_line) { old = malloc(VF_HEAPSTR); __CPROVER_assume(old != NULL); old[0] = 'o'; old[1] = 0; REQ.response_code_line = old; g_mm_live = 1; }

	/* ---- reference view */
	sp1 = n; for (i = 0; i < VF_N; i++) { if (i >= n) break; if (L0[i] == ' ') { sp1 = i; break; } }
	sp2 = n; for (i = 0; i < VF_N; i++) { if (sp1 + 1 + i >= n) break; if (L0[sp1 + 1 + i] == ' ') { sp2 = sp1 + 1 + i; break; } }
	ver_ok = sp1 == 8 && L0[0] == 'H' && L0[1] == 'T' && L0[2] == 'T' && L0[3] == 'P' && L0[4] == '/' && (L0[5] == '0' || L0[5] == '1') && L0[6] == '.' && ISDIGIT(L0[7]);
	tl = sp1 < n ? sp2 - (sp1 + 1) : 0;                              /* length of the status token */
	tok3 = sp1 < n && tl == 3 && ISDIGIT(L0[sp1 + 1]) && ISDIGIT(L0[sp1 + 2]) && ISDIGIT(L0[sp1 + 3]);
	if (tok3) val = (L0[sp1 + 1] - '0') * 100 + (L0[sp1 + 2] - '0') * 10 + (L0[sp1 + 3] - '0');
	/* known finding C24-status-code-lenient: a status token that is not 3DIGIT but that atoi() turns into a non-zero number */
#define KF_STATUS (sp1 < n && ver_ok && !tok3)
#ifdef VF_KF_EXCLUDE
	__CPROVER_assume(!KF_STATUS || tl == 0 || (!ISDIGIT(L0[sp1 + 1]) && L0[sp1 + 1] != '+' && L0[sp1 + 1] != '-' && !(L0[sp1 + 1] == ' ' || (L0[sp1 + 1] >= '\t' && L0[sp1 + 1] <= '\r'))));
#endif
#ifdef VF_KF_ONLY
	__CPROVER_assume(KF_STATUS);
#endif

	r = evhttp_parse_response_line(&REQ, line);

	__CPROVER_assert(r == 0 || r == -1, "returns 0 or -1");
	__CPROVER_assert(IMP(sp1 == n, r == -1), "a line without SP is refused");
	__CPROVER_assert(IMP(!ver_ok, r == -1), "a malformed or unsupported HTTP-version is refused");
	__CPROVER_assert(IMP(r == 0, tok3), "status-3digit: an accepted status-code is exactly 3 digits");
	__CPROVER_assert(IMP(r == 0 && tok3, REQ.response_code == val && REQ.major == L0[5] - '0' && REQ.minor == L0[7] - '0'), "accepted: code and version are the ones on the line");
	__CPROVER_assert(IMP(ver_ok && tok3 && val != 0 && !(IN.ch[0] & 1u), r == 0), "a well-formed status line is accepted (allocation permitting)");
	__CPROVER_assert(IMP(ver_ok && tok3 && val == 0, r == -1), "status-code 000 is refused");
	if (r == 0) {
		__CPROVER_assert(REQ.response_code_line != NULL && REQ.response_code_line != old && ref_streq(REQ.response_code_line, sp2 < n ? &L0[sp2 + 1] : ""), "accepted: reason = a copy of everything behind the second SP");
		__CPROVER_assert(g_mm_live == 1 && g_mm_frees == (IN.had_line ? 1 : 0), "accepted: previous reason line released, one live copy");
	}
	__CPROVER_assert(IMP(r == -1 && !(ver_ok && sp1 < n), REQ.response_code == -5 && REQ.response_code_line == old), "refused before the status code: request untouched");
#ifdef VF_CANARY
	__CPROVER_assert(r == -1, "canary: must fail (HTTP/1.1 200 OK)");
#endif
}
