/* C07 — evsig_add (real signal.c, with evsig_set_handler_/evsig_ensure_saved_ inlined): adding the
 * first event of a signal installs evsig_handler and saves the previous disposition, makes this base the
 * one the handler notifies, adds the internal pipe event once, and keeps the signal counters
 * balanced on every failure path. */
#define _GNU_SOURCE 1
#include "vf.h"
#include "signal.c"
#include "c07_signal_shape.h"
struct in { struct c07_in s; int n_added, sig_ev_added, other_base, other_n, pair1; unsigned ch[VF_NCHOICE]; };
struct in IN;
#include "stubs/log.h"
#define VF_MM_NO_REALLOC
#include "stubs/mm.h"
#define C07_BODY
#include "c07_signal_shape.h"

static struct event_base OTHER; static struct eventop OPS;
int g_evadd_calls, g_evadd_res;
int event_add_nolock_(struct event *ev, const struct timeval *tv, int tv_is_absolute)
{
	__CPROVER_assert(ev == &BASE.sig.ev_signal && tv == NULL && tv_is_absolute == 0, "event_add_nolock_: the internal signal-pipe event, no timeout");
	g_evadd_calls++;
	g_evadd_res = (VF_CHOOSE() & 1u) ? -1 : 0;
	return g_evadd_res;
}
typedef void (*c07_handler_t)(int);
#define SET_OK ((IN.s.sig < IN.s.sh_old_max || (g_mm_realloc_calls == 1 && g_mm_realloc_ok)) && g_mm_allocs == 1 && g_sigaction_ok == 1)

VF_CONTRACT(int, evsig_add_c, struct event_base *base, evutil_socket_t evsignal, short old, short events, void *p)
__CPROVER_requires(base == &BASE && evsignal == IN.s.sig)
__CPROVER_requires(g_sigaction_calls == 0 && g_sigaction_ok == 0 && g_sigaction_sets == 0 && g_mm_realloc_calls == 0 && g_mm_allocs == 0 && g_mm_frees == 0 && g_evadd_calls == 0)
__CPROVER_assigns(BASE.sig.sh_old, BASE.sig.sh_old_max, SHOLD[IN.s.sig], NEWSH[IN.s.sig], NEWSH[IN.s.w], D_SIG, BASE.sig.ev_n_signals_added, BASE.sig.ev_signal_added,
	evsig_base, evsig_base_n_signals_added, evsig_base_fd, g_evadd_calls, g_evadd_res,
	g_sigaction_calls, g_sigaction_ok, g_sigaction_sets, g_mm_realloc_calls, g_mm_realloc_ok, g_mm_realloc_sz, g_mm_live, g_mm_allocs, g_mm_frees, errno, vf_nchoice_)
__CPROVER_ensures(__CPROVER_return_value == 0 || __CPROVER_return_value == -1)
/* 2 success iff the handler could be installed and the pipe event is (now) added */
__CPROVER_ensures(IFF(__CPROVER_return_value == 0, SET_OK && (IN.sig_ev_added || (g_evadd_calls == 1 && g_evadd_res == 0))))
/* 3 C07: libevent's handler is installed and the previous disposition saved */
__CPROVER_ensures(IMP(__CPROVER_return_value == 0, C07_H(D_SIG) == (c07_handler_t)evsig_handler && BASE.sig.sh_old[IN.s.sig] != NULL && SAEQ(*BASE.sig.sh_old[IN.s.sig], O_CUR)))
/* 4 counters: +1 on success, unchanged on failure; the global copy follows */
__CPROVER_ensures(BASE.sig.ev_n_signals_added == IN.n_added + (__CPROVER_return_value == 0 ? 1 : 0) && evsig_base_n_signals_added == BASE.sig.ev_n_signals_added)
/* 5 this base is the one the handler notifies, through its pipe */
__CPROVER_ensures(evsig_base == &BASE && evsig_base_fd == IN.pair1)
/* 6 the internal pipe event is added at most once */
__CPROVER_ensures(g_evadd_calls == ((SET_OK && !IN.sig_ev_added) ? 1 : 0) && BASE.sig.ev_signal_added == ((IN.sig_ev_added || (g_evadd_calls == 1 && g_evadd_res == 0)) ? 1 : 0))
/* 7 the handler could not be installed: kernel disposition unchanged, nothing left allocated */
__CPROVER_ensures(IMP(!SET_OK, SAEQ(D_SIG, O_CUR) && g_mm_live == __CPROVER_old(g_mm_live)))
/* 8 another signal is never touched */
__CPROVER_ensures(SAEQ(D_W, O_WCUR))
;

void harness(void)
{
	int r;
	VF_LOAD_IN();
	VF_MM_RESET();
	IN.s.slot_saved = 0;           /* first event of the signal (evmap_signal_add_, unit c07_evmap_signal_add) */
	__CPROVER_assume(IN.n_added >= 0 && IN.n_added < 1000000 && IN.other_n >= 0 && IN.other_n < 1000000);
	c07_build();
	g_mm_allocs = 0; g_mm_frees = 0; g_evadd_calls = 0; g_evadd_res = 0;
	OPS.name = "stub"; BASE.evsel = &OPS;
	BASE.sig.ev_n_signals_added = IN.n_added; BASE.sig.ev_signal_added = IN.sig_ev_added != 0; BASE.sig.ev_signal_pair[1] = IN.pair1;
	IN.sig_ev_added = BASE.sig.ev_signal_added;
	evsig_base_lock = NULL;
	evsig_base = IN.other_base ? &OTHER : &BASE;
	evsig_base_n_signals_added = IN.other_base ? IN.other_n : IN.n_added;
	evsig_base_fd = -1;
	r = VF_CALL(evsig_add_c, evsig_add, &BASE, IN.s.sig, 0, EV_SIGNAL, (void *)&BASE);
	(void)r;
#ifdef VF_CANARY
	__CPROVER_assert(g_evadd_calls == 0, "canary: must fail (the pipe event gets added)");
#endif
}
