/* C20 — bufferevent_generic_adj_existing_timeouts_ (real bufferevent.c; the adj_timeouts op of SOCKET bufferevents,
 * whose ev_read/ev_write are the I/O events): a direction whose I/O event is currently added gets its timeout
 * re-armed with the new value, or REMOVED when the new value is zero; a direction whose event is not added is not
 * touched at all (no timer can appear on a disabled/suspended direction). */
#include "c18_bev_unit.h"
#define TSET(s, u) ((s) != 0 || (u) != 0)
#define EV0 g_e.ev[0]
#define EV1 g_e.ev[1]
int O_ins0, O_ins1, O_tm0, O_tm1;
VF_CONTRACT(int, adjx_c, struct bufferevent *bev)
__CPROVER_requires(bev == BEV)
__CPROVER_requires(EV0.n_add == 0 && EV0.n_del == 0 && EV0.n_add_fail == 0 && EV0.n_add_tv == 0 && EV0.n_rmt == 0 && EV1.n_add == 0 && EV1.n_del == 0 && EV1.n_add_fail == 0 && EV1.n_add_tv == 0 && EV1.n_rmt == 0)
__CPROVER_assigns(BEV_GHOST_FRAME)
/* read */
__CPROVER_ensures(EV0.n_del == 0 && EV0.n_add == B(O_ins0 && TSET(BEV->timeout_read.tv_sec, BEV->timeout_read.tv_usec)) && EV0.n_add_tv == EV0.n_add - EV0.n_add_fail && EV0.n_rmt == B(O_ins0 && !TSET(BEV->timeout_read.tv_sec, BEV->timeout_read.tv_usec)))
__CPROVER_ensures(EV0.ins == O_ins0)
__CPROVER_ensures(IMP(!O_ins0, EV0.timer == O_tm0))
__CPROVER_ensures(IMP(O_ins0 && EV0.n_add_fail == 0, EV0.timer == B(TSET(BEV->timeout_read.tv_sec, BEV->timeout_read.tv_usec)) && IMP(EV0.timer, EV0.tv_sec == BEV->timeout_read.tv_sec && EV0.tv_usec == BEV->timeout_read.tv_usec)))
/* write */
__CPROVER_ensures(EV1.n_del == 0 && EV1.n_add == B(O_ins1 && TSET(BEV->timeout_write.tv_sec, BEV->timeout_write.tv_usec)) && EV1.n_add_tv == EV1.n_add - EV1.n_add_fail && EV1.n_rmt == B(O_ins1 && !TSET(BEV->timeout_write.tv_sec, BEV->timeout_write.tv_usec)))
__CPROVER_ensures(EV1.ins == O_ins1)
__CPROVER_ensures(IMP(!O_ins1, EV1.timer == O_tm1))
__CPROVER_ensures(IMP(O_ins1 && EV1.n_add_fail == 0, EV1.timer == B(TSET(BEV->timeout_write.tv_sec, BEV->timeout_write.tv_usec)) && IMP(EV1.timer, EV1.tv_sec == BEV->timeout_write.tv_sec && EV1.tv_usec == BEV->timeout_write.tv_usec)))
__CPROVER_ensures(IFF(__CPROVER_return_value == -1, EV0.n_add_fail + EV1.n_add_fail > 0) && (__CPROVER_return_value == 0 || __CPROVER_return_value == -1))
;
void harness(void)
{
	int r;
	VF_LOAD_IN();
	vf_bev_build();
	O_ins0 = EV0.ins; O_ins1 = EV1.ins; O_tm0 = EV0.timer; O_tm1 = EV1.timer;
	r = VF_CALL(adjx_c, bufferevent_generic_adj_existing_timeouts_, BEV);
	(void)r;
	__CPROVER_assert(g_e.ev[2].n_add == 0 && g_e.nseq == 0 && g_e.en_calls == 0 && g_e.dis_calls == 0, "only the two I/O events are touched");
#ifdef VF_CANARY
	__CPROVER_assert(EV0.n_rmt == 0, "canary: must fail (clearing the timeout of an added event removes its timer)");
#endif
}
