/* C08/C02 — the public event_del / event_del_block / event_del_noblock (real event.c, with the real
 * event_del_ below them): each runs event_del_nolock_ exactly once with its documented blocking mode
 * (AUTOBLOCK / BLOCK / NOBLOCK) under th_base_lock and returns with the lock released.  No function
 * is enforced here (three entry points); event_del_nolock_ is the argument recorder whose requires
 * is "lock held exactly once". */
#define VF_NLOCKS 1
#include "vf.h"
#include "event.c"
#include "stubs/lock.h"
#include "stubs/log.h"
#define C02_NO_AQ
#include "c02_event_shape.h"
struct in { struct c02_base_in b; struct c02_ev_in e; int nobase; int ret; int tv_null; long tv_sec, tv_usec; int res; short ncalls; int blocking; };
struct in IN;
static struct timeval TV;
/* the *_nolock_ worker: argument recorder; its behaviour is established in its own unit.  Call-site
 * obligation (requires): th_base_lock is held exactly once when the worker runs. */
int g_calls, g_ret, g_a_int, g_a_int2; struct event *g_a_ev; const struct timeval *g_a_tv;
#define LOCK_HELD_ONCE (BASE.th_base_lock == NULL || g_lock_depth[1] == 1)
#define BALANCED (g_lock_depth[1] == 0 && g_lock_ops == ((!IN.nobase && (IN.b.has_lock & 1)) ? 2 : 0))
#define SETUP() do { VF_LOAD_IN(); VF_INSTALL_LOCKS(); c02_build_base(&IN.b); c02_build_ev(&EV, &IN.e, 1); \
	TV.tv_sec = IN.tv_sec; TV.tv_usec = IN.tv_usec; g_calls = 0; g_ret = IN.ret; g_a_ev = NULL; g_a_tv = NULL; g_a_int = -99; g_a_int2 = -99; \
	if (IN.nobase) EV.ev_base = NULL; } while (0)
VF_CONTRACT(int, del_rec_c, struct event *ev, int blocking)
__CPROVER_requires(LOCK_HELD_ONCE)
__CPROVER_assigns(g_calls, g_a_ev, g_a_int)
__CPROVER_ensures(g_calls == __CPROVER_old(g_calls) + 1 && g_a_ev == ev && g_a_int == blocking && __CPROVER_return_value == g_ret)
;
void harness(void)
{
	int r;
	SETUP();
	__CPROVER_assume(!IN.nobase);
	r = event_del(&EV);
	__CPROVER_assert(g_calls == 1 && g_a_ev == &EV && g_a_int == EVENT_DEL_AUTOBLOCK && r == IN.ret && g_lock_depth[1] == 0, "event_del: AUTOBLOCK, lock balanced");
	g_calls = 0; r = event_del_block(&EV);
	__CPROVER_assert(g_calls == 1 && g_a_ev == &EV && g_a_int == EVENT_DEL_BLOCK && r == IN.ret && g_lock_depth[1] == 0, "event_del_block: BLOCK, lock balanced");
	g_calls = 0; r = event_del_noblock(&EV);
	__CPROVER_assert(g_calls == 1 && g_a_ev == &EV && g_a_int == EVENT_DEL_NOBLOCK && r == IN.ret && g_lock_depth[1] == 0, "event_del_noblock: NOBLOCK, lock balanced");
	__CPROVER_assert(g_lock_ops == ((IN.b.has_lock & 1) ? 6 : 0), "three lock/unlock pairs");
#ifdef VF_CANARY
	__CPROVER_assert(g_lock_ops == 0, "canary: must fail (the lock is taken and released)");
#endif
}
