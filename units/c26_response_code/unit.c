/* C26 — evhttp_response_code_ + evhttp_response_phrase_internal (real http.c): status code and
 * reason phrase of every reply (evhttp_send_reply, evhttp_send_reply_start, evhttp_send_error,
 * evhttp_send_page_, evhttp_start_ws_ all go through it); evhttp_make_header_response later prints
 * "HTTP/%d.%d %d %s\r\n" with response_code_line as the %s.
 *   - kind = RESPONSE, response_code = code for every int code;
 *   - response_code_line = a copy of the caller's reason, or (reason == NULL) the default phrase
 *     of the code: table phrase, class name for an unknown sub-code, "Unknown Status Class"
 *     outside 100..599 — a non-empty printable string for EVERY int code (no table overrun);
 *   - the previous line is released exactly once; allocation failure leaves NULL;
 *   - property obligation "rfc-reason": the stored reason phrase contains neither CR nor LF
 *     (RFC 9112 4: reason-phrase = 1*( HTAB / SP / VCHAR / obs-text )), i.e. the reason argument
 *     cannot add a header field or a message. */
#ifndef VF_N
#define VF_N 6
#endif
#define VF_STRMAX 33          /* longest default phrase: "Requested range not satisfiable" (31) */
#define VF_HEAPSTR 34
#include "vf.h"
#include "http.c"
struct in { unsigned char s[VF_N]; unsigned len; int have_reason; int code; int had_line; unsigned ch[VF_NCHOICE]; };
struct in IN;
#include "stubs/log.h"
#include "stubs/c23_libc_ref.h"
#include "stubs/c23_mm.h"
#include "c23_ref.h"

static char RB[VF_N + 1];
static struct evhttp_request REQ;

static int ref_printable_nonempty(const char *p)
{
	unsigned i;
	if (p[0] == 0) return 0;
	for (i = 0; i <= VF_STRMAX; i++) { if (p[i] == 0) return 1; if (p[i] < ' ' || p[i] > '~') return 0; }
	return 0;
}

void harness(void)
{
	unsigned i; char *reason = NULL, *old = NULL; const char *ph;
	VF_LOAD_IN(); VF_MM_RESET();
	__CPROVER_assume(IN.len <= VF_N);
	for (i = 0; i < VF_N; i++) { RB[i] = (char)IN.s[i]; if (i >= VF_N - IN.len) __CPROVER_assume(IN.s[i] != 0); }
	RB[VF_N] = 0;
	if (IN.have_reason) reason = &RB[VF_N - IN.len];
#ifdef VF_KF_EXCLUDE
	__CPROVER_assume(reason == NULL || ref_no_crlf(reason, IN.len));      /* known finding C26-reason-crlf */
#endif
#ifdef VF_KF_ONLY
	__CPROVER_assume(reason != NULL && !ref_no_crlf(reason, IN.len));
#endif
	REQ.kind = EVHTTP_REQUEST; REQ.response_code = 0; REQ.response_code_line = NULL;
	if (IN.had_line) { old = malloc(VF_HEAPSTR); __CPROVER_assume(old != NULL); old[0] = 'o'; old[1] = 0; REQ.response_code_line = old; g_mm_live = 1; }

	/* the default phrase, for every int */
	ph = evhttp_response_phrase_internal(IN.code);
	__CPROVER_assert(ph != NULL && ref_printable_nonempty(ph), "default phrase: non-empty printable ASCII (no CR/LF) for every code");
	/* the text of the default phrases: unit c26_response_phrase */

	evhttp_response_code_(&REQ, IN.code, reason);

	__CPROVER_assert(REQ.kind == EVHTTP_RESPONSE && REQ.response_code == IN.code, "kind = RESPONSE and response_code = code");
	if (IN.ch[0] & 1u) {
		__CPROVER_assert(REQ.response_code_line == NULL, "allocation failure: no reason line");
	} else {
		__CPROVER_assert(REQ.response_code_line != NULL && REQ.response_code_line != reason && REQ.response_code_line != ph, "reason line is a fresh copy");
		__CPROVER_assert(ref_streq(REQ.response_code_line, reason ? reason : ph), "reason line = the caller's reason, or the default phrase when none was given");
		__CPROVER_assert(ref_no_crlf(REQ.response_code_line, ref_strlen(REQ.response_code_line)), "rfc-reason: the reason phrase written into the status line contains neither CR nor LF");
	}
	__CPROVER_assert(g_mm_frees == (IN.had_line ? 1 : 0) && g_mm_live == ((IN.ch[0] & 1u) ? 0 : 1), "previous line released exactly once, one live string afterwards");
#ifdef VF_CANARY
	__CPROVER_assert(REQ.response_code_line == NULL || REQ.response_code_line[0] != 'O', "canary: must fail (reason \"OK\" is possible)");
#endif
}
