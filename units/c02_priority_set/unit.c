/* C02 — event_priority_set (real event.c, public): refused (-1, nothing changes) while the event is
 * active or when the priority is outside [0, nactivequeues); otherwise the priority is recorded. */
#define VF_NLOCKS 1
#include "vf.h"
#include "event.c"
#include "stubs/lock.h"
#include "stubs/log.h"
#define C02_NO_AQ
#include "c02_event_shape.h"
struct in { struct c02_base_in b; struct c02_ev_in e; int pri; };
struct in IN;
#define F0 ((int)IN.e.flags)
#define REFUSED ((F0 & EVLIST_ACTIVE) || IN.pri < 0 || IN.pri >= IN.b.nq)
VF_CONTRACT(int, prio_c, struct event *ev, int pri)
__CPROVER_requires(ev == &EV && pri == IN.pri)
__CPROVER_assigns(EV.ev_evcallback.evcb_pri)
__CPROVER_ensures(__CPROVER_return_value == (REFUSED ? -1 : 0))
__CPROVER_ensures(EV.ev_pri == (REFUSED ? IN.e.pri : (ev_uint8_t)IN.pri))
;
void harness(void)
{
	int r;
	VF_LOAD_IN(); VF_INSTALL_LOCKS();
	c02_build_base(&IN.b);
	c02_build_ev(&EV, &IN.e, 1);
	r = VF_CALL(prio_c, event_priority_set, &EV, IN.pri);
	(void)r;
	__CPROVER_assert((int)EV.ev_pri < BASE.nactivequeues, "type invariant kept: priority indexes an existing queue");
#ifdef VF_CANARY
	__CPROVER_assert(EV.ev_pri == IN.e.pri, "canary: must fail (an idle event takes the new priority)");
#endif
}
