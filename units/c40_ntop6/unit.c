/* C40 — evutil_inet_ntop AF_INET6 (real evutil.c), the TEXT: for ALL 2^128 addresses (thorough tier; the quick
 * tier takes structured addresses, see unit.json) and an ample buffer the call succeeds, the text is
 * NUL-terminated within 45 characters, uses only the address alphabet, and the reference parser of
 * contracts/c40_inet_ref.h (RFC 4291 syntax) reads it back to exactly the same 16 bytes - every zero-run
 * pattern, the IPv4-compatible and IPv4-mapped forms included.
 * Buffer-length behaviour: c40_ntop6_len / c40_ntop6_exactfit; round trip through evutil_inet_pton: c40_roundtrip6. */
#define VF_AF 6
#define VF_EXACTFIT 0
#include "c40_ntop_unit.h"
