/* C46 — evutil_weakrand_range_ (real evutil.c): every bounded random choice lies in [0, top)
 * for every generator state and every top >= 1.  The rejection loop is closed by a loop
 * contract (carries integers only); evutil_weakrand_ is replaced by its contract, which is
 * enforced in unit c46_weakrand. */
#include "vf.h"
#include "evutil.c"
#include "stubs/log.h"

struct in { ev_uint32_t seed; ev_int32_t top; };
struct in IN;
static struct evutil_weakrand_state ST;

VF_CONTRACT(ev_int32_t, weakrand_c, struct evutil_weakrand_state *state)
__CPROVER_requires(state != NULL)
__CPROVER_assigns(state->seed)
__CPROVER_ensures(__CPROVER_return_value >= 0 && __CPROVER_return_value <= EVUTIL_WEAKRAND_MAX)
__CPROVER_ensures((ev_uint32_t)__CPROVER_return_value == state->seed)
;

VF_CONTRACT(ev_int32_t, weakrand_range_c, struct evutil_weakrand_state *state, ev_int32_t top)
__CPROVER_requires(__CPROVER_rw_ok(state, sizeof(*state)))
__CPROVER_requires(top >= 1)
__CPROVER_assigns(state->seed)
__CPROVER_ensures(__CPROVER_return_value >= 0 && __CPROVER_return_value < top)
__CPROVER_ensures(state->seed <= 0x7fffffffu)
;

void harness(void)
{
	ev_int32_t r;
	VF_LOAD_IN();
	__CPROVER_assume(IN.top >= 1);
	ST.seed = IN.seed;
	r = VF_CALL(weakrand_range_c, evutil_weakrand_range_, &ST, IN.top);
#ifdef VF_CANARY
	__CPROVER_assert(r != 3, "canary: must fail (3 is a possible result)");
#endif
}
