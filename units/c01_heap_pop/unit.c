/* C01 — min_heap_pop_ (real minheap-internal.h through the real event.c): heap order + index
 * invariant preserved, element set changes by exactly the operand, caller-view postcondition.
 * Plain assert-harness, bounded heap (see contracts/c01_heap_harness.h). */
#include "vf.h"
#include "event.c"
#include "stubs/lock.h"
#include "stubs/log.h"
#define C01_HEAP_OP 3
#include "c01_heap_harness.h"
