/* C37 — DNS over TCP framing on the server side: server_tcp_read_packet_cb + tcp_read_message (real evdns.c), plain
 * assert-harness.  "For any TCP byte stream (any segmentation) … invokes the user callback only for well-formed queries":
 * every message on a TCP connection is preceded by its length as 2 bytes big-endian (RFC 1035 4.2.2).
 * The connection's input is the byte-string evbuffer model (stubs/c31_evbuffer3.h, EVB[0], loaded RIGHT-ALIGNED) holding
 * n <= VF_EB_CAP symbolic bytes; the connection may already have consumed a prefix in an earlier call (awaiting_packet_size
 * = a0, any 16-bit value).  Bound: the input holds at most MSGS complete messages, each of 1..LMAX bytes, then an optional
 * incomplete tail (0/1 byte of a prefix, or a prefix of ANY value with fewer body bytes than it announces).
 * request_parse is replaced by a recording stub (stubs/c33_rename.h) whose result (0 / -1) is chosen from IN.
 * Reference framing ref_frames() in the unit (specification side); checked against it:
 *   - request_parse is called exactly once per complete message, in order, with exactly that message's bytes and length,
 *     the port, no address, the client; under the port's lock; the message buffer is freed afterwards (g_mm_live)
 *   - prefixes and messages are consumed, the incomplete tail stays in the input untouched; awaiting_packet_size holds the
 *     prefix already consumed (else 0); the read watermark is that size (else 2); the callbacks are re-installed
 *   - after EVERY message, accepted or REJECTED by request_parse, the next two bytes are read as a length prefix
 *   - a zero length prefix, a failing bufferevent_read (evbuffer_remove == -1: nothing consumed) or a failing allocation
 *     of the message buffer closes the connection: bufferevent freed, client unlinked from the port and freed, the port's
 *     connection count and reference count decremented, lock released, no further message parsed
 * Candidate defect selected by a predicate (VF_KF_EXCLUDE / VF_KF_ONLY):
 *   T1 request_parse REMOVES THE CLIENT before it returns (IN.rp_kill[k]; the stub then does what the real call chain does:
 *      request_parse -> user callback -> evdns_server_request_respond -> server_send_response: bufferevent_write fails ->
 *      evdns_remove_tcp_client(port, req->client), the request keeps its reference on the port).  Expected: the read callback
 *      does not touch the freed client / bufferevent again and parses nothing more.  The real code writes
 *      conn->awaiting_packet_size = 0 into the freed client and goes on reading through it (use after free).
 * The port is a heap object with a listener (TCP server port).  It either keeps another reference (refcnt 2: the open
 * port's own) or this client holds the LAST one (IN.last_ref: a port already closed by the user, refcnt 1): then closing the
 * connection also frees the port (real server_port_free: listener freed, lock freed AFTER it was released, port freed). */
#ifndef LMAX
#define LMAX 6
#endif
#ifndef MSGS
#define MSGS 2
#endif
#define VF_EB_CAP (MSGS * (2 + LMAX) + 2 + LMAX - 1)
#define VF_EB_MAXCOPY LMAX
#define VF_NLOCKS 1
#include "vf.h"
#include "stubs/c33_mem.h"
#include "stubs/c33_rename.h"
#include "event2/util.h"
struct evdns_server_port; struct client_tcp_connection; struct sockaddr;
static int request_parse_stub(ev_uint8_t *packet, int length, struct evdns_server_port *port, struct sockaddr *addr, ev_socklen_t addrlen, struct client_tcp_connection *client);
#define request_parse request_parse_stub
#pragma push_macro("request_parse")
#undef request_parse
#define request_parse request_parse_real _Pragma("pop_macro(\"request_parse\")")
#include "evdns.c"
#include "event2/bufferevent_struct.h"
struct in {
	unsigned char buf[VF_EB_CAP]; unsigned n; unsigned short a0;
	unsigned char rp_res[MSGS]; unsigned char rp_kill[MSGS]; unsigned char rd_fail[2 * MSGS + 2]; int other, last_ref, sock;
	unsigned ch[VF_NCHOICE];
};
struct in IN;
#include "stubs/log.h"
#include "stubs/lock.h"
#define VF_C33_MM_SIZES(X) X(sizeof(struct client_tcp_connection)) X(sizeof(struct evdns_server_port)) X(1) X(2) X(3) X(4) X(5) X(6)
#include "stubs/c33_mm.h"
#if LMAX != 6
#error "VF_C33_MM_SIZES lists the message sizes 1..6"
#endif
#include "stubs/c31_evbuffer3.h"
void event_logv_(int severity, const char *errstr, const char *fmt, va_list ap) { (void)severity; (void)errstr; (void)fmt; (void)ap; }

static struct bufferevent BEV; static struct evdns_server_port *P; static char LISTENER; static struct client_tcp_connection OTHER; static struct client_tcp_connection *CL;
/* bufferevent.c is outside the TU: the abstract behaviour of the five entry points used here */
int g_rd_calls, g_rd_failed, g_bevfree_calls, g_wm_calls, g_setcb_calls, g_setcb_ok; size_t g_wm_low, g_wm_high; short g_wm_events;
struct evbuffer *bufferevent_get_input(struct bufferevent *b) { __CPROVER_assert(b == &BEV, "bufferevent_get_input: the connection's bufferevent"); return &EVB[0]; }
size_t bufferevent_read(struct bufferevent *b, void *data, size_t size)
{
	int k = g_rd_calls++;
	__CPROVER_assert(b == &BEV && g_bevfree_calls == 0, "bufferevent_read: the connection's live bufferevent");
	__CPROVER_assert(k < 2 * MSGS + 2, "bufferevent_read: oracle capacity");
	if (IN.rd_fail[k]) { g_rd_failed++; return (size_t)(int)-1; }        /* bufferevent_read returns evbuffer_remove()'s int: -1 = error, nothing removed */
	return (size_t)evbuffer_remove(&EVB[0], data, size);
}
void bufferevent_setwatermark(struct bufferevent *b, short events, size_t low, size_t high)
{
	__CPROVER_assert(b == &BEV && g_bevfree_calls == 0, "bufferevent_setwatermark: the connection's live bufferevent");
	g_wm_calls++; g_wm_events = events; g_wm_low = low; g_wm_high = high;
}
void bufferevent_free(struct bufferevent *b) { __CPROVER_assert(b == &BEV, "bufferevent_free: the connection's bufferevent"); g_bevfree_calls++; }
static void server_tcp_event_cb(struct bufferevent *bev, short events, void *ctx);
void bufferevent_setcb(struct bufferevent *b, bufferevent_data_cb r, bufferevent_data_cb w, bufferevent_event_cb e, void *arg)
{
	__CPROVER_assert(b == &BEV && g_bevfree_calls == 0, "bufferevent_setcb: the connection's live bufferevent");
	g_setcb_calls++; g_setcb_ok = (r == server_tcp_read_packet_cb && w == NULL && e == server_tcp_event_cb && arg == (void *)CL);
}

/* reached only from server_port_free */
int g_lfree_calls, g_lockfree_calls, g_close_calls;
void evconnlistener_free(struct evconnlistener *l) { __CPROVER_assert(l == (struct evconnlistener *)&LISTENER, "evconnlistener_free: the port's listener"); g_lfree_calls++; }
int evutil_closesocket(evutil_socket_t fd) { __CPROVER_assert(fd > 0 && fd == IN.sock, "evutil_closesocket: the port's socket"); g_close_calls++; return 0; }
int event_del(struct event *ev) { (void)ev; __CPROVER_assert(0, "event_del: not reached (a TCP server port has a listener)"); return 0; }
void event_debug_unassign(struct event *ev) { (void)ev; __CPROVER_assert(0, "event_debug_unassign: not reached (a TCP server port has a listener)"); }
static void vf_lock_free(void *lock, unsigned locktype)
{
	__CPROVER_assert(lock == VF_LOCK_COOKIE(1) && locktype == EVTHREAD_LOCKTYPE_RECURSIVE, "lock free: the port's lock");
	__CPROVER_assert(g_lock_depth[1] == 0, "the port's lock is not freed while it is held");
	g_lockfree_calls++;
}

/* recording stub for request_parse */
struct g_rp { int calls; int len[MSGS]; unsigned char byte[MSGS][LMAX]; int args_ok[MSGS]; int locked[MSGS]; long live[MSGS]; size_t drained[MSGS]; } g_rp;
static int request_parse_stub(u8 *packet, int length, struct evdns_server_port *port, struct sockaddr *addr, ev_socklen_t addrlen, struct client_tcp_connection *client)
{
	int k = g_rp.calls, i;
	__CPROVER_assert(k < MSGS, "request_parse: no more calls than complete messages in the input");
	__CPROVER_assert(length >= 1 && length <= LMAX, "request_parse: length of a message of this unit");
	__CPROVER_assert(__CPROVER_r_ok(packet, length), "request_parse: packet[0..length) readable");
	g_rp.calls++;
	if (k >= MSGS || length < 1 || length > LMAX) { __CPROVER_assume(0); return -1; }
	g_rp.len[k] = length;
	for (i = 0; i < LMAX; i++) { if (i >= length) break; g_rp.byte[k][i] = packet[i]; }
	g_rp.args_ok[k] = port == P && addr == NULL && addrlen == 0 && client == CL;
	g_rp.locked[k] = g_lock_depth[1]; g_rp.live[k] = g_mm_live; g_rp.drained[k] = vf_drained[0];
	if (IN.rp_kill[k]) { port->refcnt++; evdns_remove_tcp_client(port, client); }   /* T1: the answer could not be written: server_send_response() disconnects; the request holds its own reference */
	return IN.rp_res[k] ? -1 : 0;
}

/* reference framing (specification side): RFC 1035 4.2.2 + the closing rules documented in the code */
static int x_nm, x_off[MSGS], x_len[MSGS], x_closed, x_over, x_big, x_killed; static unsigned x_end, x_aw;
static void ref_frames(void)
{
	unsigned pos = 0, aw = IN.a0; int it, rd = 0, al = 0;
	x_nm = 0; x_closed = 0; x_over = 1; x_big = 0; x_killed = 0;
	for (it = 0; it <= MSGS; it++) {
		if (aw == 0) {
			if (IN.n - pos < 2) { x_over = 0; break; }                       /* less than a prefix: wait */
			if (IN.rd_fail[rd++]) { x_closed = 1; x_over = 0; break; }
			aw = ((unsigned)IN.buf[pos] << 8) | IN.buf[pos + 1]; pos += 2;
			if (aw == 0) { x_closed = 1; x_over = 0; break; }                /* zero-length message: error */
		}
		if (IN.n - pos < aw) { x_over = 0; break; }                          /* incomplete body: wait, prefix remembered */
		if (it == MSGS) break;                                               /* a further complete message: beyond the bound */
		if (aw > LMAX) { x_big = 1; x_over = 0; break; }
		if (IN.ch[al++] & 1u) { x_closed = 1; x_over = 0; break; }            /* message buffer cannot be allocated */
		if (IN.rd_fail[rd++]) { x_closed = 1; x_over = 0; break; }
		x_off[x_nm] = (int)pos; x_len[x_nm] = (int)aw; x_nm++; pos += aw; aw = 0;
		if (IN.rp_kill[x_nm - 1]) { x_killed = 1; x_over = 0; break; }       /* the client is gone: nothing more is read */
	}
	x_end = pos; x_aw = aw;
}

void harness(void)
{
	int i, k; unsigned j;
	VF_LOAD_IN(); VF_INSTALL_LOCKS(); VF_MM_RESET(); VF_EB_RESET();
	g_rd_calls = g_rd_failed = g_bevfree_calls = g_wm_calls = g_setcb_calls = g_setcb_ok = 0; g_rp.calls = 0;
	__CPROVER_assume(IN.n <= VF_EB_CAP);
	ref_frames();
	__CPROVER_assume(!x_over && !x_big);                    /* bound of this unit: <= MSGS complete messages, each <= LMAX bytes */
#define KF_T1 (x_killed)
#ifdef VF_KF_EXCLUDE
	__CPROVER_assume(!KF_T1);
#endif
#ifdef VF_KF_ONLY
	__CPROVER_assume(KF_T1);
#endif
	VF_EB_LOAD(0, IN.buf, IN.n);
	/* the client connection as evdns_add_tcp_client leaves it (heap object, head of the port's list, one reference on the port) */
	g_lfree_calls = g_lockfree_calls = g_close_calls = 0; evthread_lock_fns_.free = vf_lock_free;
	P = c33_const_malloc(sizeof(struct evdns_server_port), 1);
	CL = c33_const_malloc(sizeof(struct client_tcp_connection), 1); g_mm_live = 2;
	CL->connection.bev = &BEV; CL->connection.state = TS_CONNECTED; CL->connection.awaiting_packet_size = IN.a0; CL->port = P;
	__CPROVER_assume(IMP(IN.last_ref, !IN.other));          /* every client holds a reference: the last reference means the only client */
	P->lock = VF_LOCK_COOKIE(1); P->refcnt = IN.last_ref ? 1 : 2; P->closing = IN.last_ref ? 1 : 0; P->client_connections_count = IN.other ? 2 : 1; P->max_client_connections = 10;
	P->listener = (struct evconnlistener *)&LISTENER; P->socket = IN.sock; P->pending_replies = NULL;
	LIST_INIT(&P->client_connections);
	if (IN.other) { OTHER.port = P; LIST_INSERT_HEAD(&P->client_connections, &OTHER, next); }
	LIST_INSERT_HEAD(&P->client_connections, CL, next);

	server_tcp_read_packet_cb(&BEV, CL);

	__CPROVER_assert(g_lock_depth[1] == 0, "the port's lock is released on every path");
	/* one request_parse per complete message, in order, with exactly its bytes */
	__CPROVER_assert(g_rp.calls == x_nm, "request_parse is called exactly once per complete framed message (none after the connection is closed)");
	for (k = 0; k < MSGS; k++) {
		if (k >= g_rp.calls || k >= x_nm) break;
		__CPROVER_assert(g_rp.len[k] == x_len[k], "message k: length == its 2-byte big-endian prefix");
		for (i = 0; i < LMAX; i++) __CPROVER_assert(i >= x_len[k] || g_rp.byte[k][i] == IN.buf[x_off[k] + i], "message k: exactly the bytes following its prefix");
		__CPROVER_assert(g_rp.args_ok[k], "message k: parsed for this port and this client, no UDP address");
		__CPROVER_assert(g_rp.locked[k] == 1, "message k: parsed under the port's lock");
		__CPROVER_assert(g_rp.live[k] == 3, "message k: only the port, the client and this message's buffer are allocated (earlier buffers freed)");
		__CPROVER_assert(g_rp.drained[k] == (size_t)(x_off[k] + x_len[k]), "message k: prefix and message consumed, nothing beyond");
	}
	if (x_killed) {
		__CPROVER_assert(g_bevfree_calls == 1 && g_mm_live == 1, "client removed during request_parse: only the port remains allocated (message buffer freed, client not freed twice)");
		__CPROVER_assert(g_wm_calls == 0 && g_setcb_calls == 0, "client removed during request_parse: the freed bufferevent is not touched again");
		__CPROVER_assert(P->refcnt == (IN.last_ref ? 1 : 2) && P->client_connections_count == (IN.other ? 1 : 0) && LIST_FIRST(&P->client_connections) == (IN.other ? &OTHER : NULL), "client removed during request_parse: the port's bookkeeping is left as the removal made it");
	} else if (!x_closed) {
		__CPROVER_assert(g_bevfree_calls == 0 && g_mm_live == 2 && LIST_FIRST(&P->client_connections) == CL && P->refcnt == (IN.last_ref ? 1 : 2) && P->client_connections_count == (IN.other ? 2 : 1), "no error: the connection stays open and registered");
		__CPROVER_assert(g_lfree_calls == 0 && g_lockfree_calls == 0 && g_close_calls == 0, "no error: the port is not torn down");
		__CPROVER_assert(vf_drained[0] == x_end && vf_len[0] == IN.n - x_end, "consumed: exactly the prefixes and messages; the incomplete tail stays");
		for (j = 0; j < VF_EB_CAP; j++) __CPROVER_assert(j >= IN.n - x_end || VF_EB_BYTE(0, j) == IN.buf[x_end + j], "the incomplete tail is untouched");
		__CPROVER_assert(CL->connection.awaiting_packet_size == x_aw, "awaiting_packet_size: the prefix already consumed, 0 when the next thing to read is a prefix (also after a REJECTED message)");
		__CPROVER_assert(CL->connection.bev == &BEV && CL->connection.state == TS_CONNECTED && CL->port == P, "connection fields untouched");
		__CPROVER_assert(g_wm_calls == 1 && g_wm_events == EV_READ && g_wm_low == (x_aw ? x_aw : 2) && g_wm_high == 0, "read watermark: the bytes still missing for the next step (body size, else a 2-byte prefix)");
		__CPROVER_assert(g_setcb_calls == 1 && g_setcb_ok, "callbacks re-installed for this client");
		__CPROVER_assert(g_rd_failed == 0, "no read error went unnoticed");
	} else {
		__CPROVER_assert(g_bevfree_calls == 1, "error: the bufferevent is freed exactly once");
		if (!IN.last_ref) {
			__CPROVER_assert(g_mm_live == 1, "error: the client (and any message buffer) is freed, the port stays");
			__CPROVER_assert(LIST_FIRST(&P->client_connections) == (IN.other ? &OTHER : NULL) && IMP(IN.other, OTHER.next.le_prev == &P->client_connections.lh_first && OTHER.next.le_next == NULL), "error: the client is unlinked from the port's list");
			__CPROVER_assert(P->refcnt == 1 && P->client_connections_count == (IN.other ? 1 : 0), "error: the port's connection count and the client's reference are given back");
			__CPROVER_assert(g_lfree_calls == 0 && g_lockfree_calls == 0 && g_close_calls == 0, "error: a port with other references is not torn down");
		} else {
			__CPROVER_assert(g_mm_live == 0, "error on the last reference: client and port are freed");
			__CPROVER_assert(g_lfree_calls == 1 && g_lockfree_calls == 1 && g_close_calls == (IN.sock > 0), "error on the last reference: listener and lock freed once, an open socket closed");
		}
		__CPROVER_assert(g_wm_calls == 0 && g_setcb_calls == 0, "error: the freed bufferevent is not touched again");
	}
#ifdef VF_CANARY
	__CPROVER_assert(!(g_rp.calls == 2 && IN.rp_res[0] && x_len[0] == LMAX && x_len[1] == LMAX && x_aw == 300 && !x_closed), "canary: must fail (two full-size messages, the first rejected, then a tail announcing 300 bytes)");
#endif
}
