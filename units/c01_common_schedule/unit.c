/* C01 — common_timeout_schedule (real event.c, loop-free): the internal timer of a common-timeout
 * queue is armed, as an ABSOLUTE deadline, for exactly the head event's deadline with the magic /
 * index bits removed (so it lives in the heap as a plain deadline).  event_add_nolock_ = argument
 * recorder (behaviour: c02_add_nolock). */
#define VF_NLOCKS 1
#include "vf.h"
#include "event.c"
#include "stubs/lock.h"
#include "stubs/log.h"
#define C02_NO_AQ
#include "c02_event_shape.h"
struct in { struct c02_base_in b; struct c02_ev_in e; int add_ret; };
struct in IN;
#include "c02_event_contracts.h"
#include "c01_timer_contracts.h"
int g_add_calls, g_add_abs, g_add_ret; long g_add_sec, g_add_usec; struct event *g_add_ev;
VF_CONTRACT(int, add_rec_c, struct event *ev, const struct timeval *tv, int tv_is_absolute)
__CPROVER_requires(BASE.th_base_lock == NULL || g_lock_depth[1] == 1)
__CPROVER_requires(tv != NULL)
__CPROVER_assigns(g_add_calls, g_add_abs, g_add_sec, g_add_usec, g_add_ev)
__CPROVER_ensures(g_add_calls == __CPROVER_old(g_add_calls) + 1 && g_add_abs == tv_is_absolute && g_add_ev == ev && g_add_sec == tv->tv_sec && g_add_usec == tv->tv_usec)
__CPROVER_ensures(__CPROVER_return_value == g_add_ret)
;
static struct timeval NOW;
VF_CONTRACT_V(sched_c, struct common_timeout_list *ctl, const struct timeval *now, struct event *head)
__CPROVER_requires(ctl == &CTL && now == &NOW && head == &EV)
__CPROVER_requires(BASE.th_base_lock == NULL || g_lock_depth[1] == 1)
__CPROVER_requires(g_add_calls == 0)
__CPROVER_assigns(g_add_calls, g_add_abs, g_add_sec, g_add_usec, g_add_ev)
__CPROVER_ensures(g_add_calls == 1 && g_add_ev == &CTL.timeout_event && g_add_abs == 1)
__CPROVER_ensures(g_add_sec == IN.e.to_sec && g_add_usec == (IN.e.to_usec & 0xfffffL))
/* what goes into the heap is a plain, valid timeval: never mistaken for a common timeout again */
__CPROVER_ensures(g_add_usec >= 0 && g_add_usec < 1000000)
;
void harness(void)
{
	VF_LOAD_IN(); VF_INSTALL_LOCKS();
	c02_build_base(&IN.b);
	c02_build_ev(&EV, &IN.e, 1);
	if (BASE.th_base_lock) g_lock_depth[1] = 1;
	g_add_calls = 0; g_add_ret = IN.add_ret; g_add_ev = NULL;
	__CPROVER_assume(C02_DEADLINE_OK(IN.e.to_sec, IN.e.to_usec));
	NOW.tv_sec = IN.b.now_sec; NOW.tv_usec = IN.b.now_usec;
	VF_CALL_V(sched_c, common_timeout_schedule, &CTL, &NOW, &EV);
	__CPROVER_assert(EV.ev_timeout.tv_usec == IN.e.to_usec, "the head event's own deadline keeps its magic bits");
#ifdef VF_CANARY
	__CPROVER_assert(g_add_usec == IN.e.to_usec, "canary: must fail (magic bits are stripped)");
#endif
}
