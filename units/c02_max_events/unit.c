/* C02/C08 — event_base_get_max_events (real event.c, public): sum of the selected high-water marks;
 * exactly the selected ones are reset when clear is set; th_base_lock released. */
#define VF_NLOCKS 1
#include "vf.h"
#include "event.c"
#include "stubs/lock.h"
#include "stubs/log.h"
#define C02_NO_AQ
#include "c02_event_shape.h"
struct in { struct c02_base_in b; unsigned type; int clear; };
struct in IN;
#define SEL(bit, v) ((IN.type & (bit)) ? (v) : 0)
#define AFTER(bit, v) (((IN.type & (bit)) && IN.clear) ? 0 : (v))
VF_CONTRACT(int, max_c, struct event_base *base, unsigned int type, int clear)
__CPROVER_requires(base == &BASE && type == IN.type && clear == IN.clear && g_lock_depth[1] == 0 && g_lock_ops == 0)
__CPROVER_assigns(BASE.event_count_active_max, BASE.virtual_event_count_max, BASE.event_count_max, g_lock_depth[1], g_lock_ops)
__CPROVER_ensures(__CPROVER_return_value == SEL(EVENT_BASE_COUNT_ACTIVE, IN.b.event_count_active_max) + SEL(EVENT_BASE_COUNT_VIRTUAL, IN.b.virtual_event_count_max) + SEL(EVENT_BASE_COUNT_ADDED, IN.b.event_count_max))
__CPROVER_ensures(BASE.event_count_active_max == AFTER(EVENT_BASE_COUNT_ACTIVE, IN.b.event_count_active_max) &&
	BASE.virtual_event_count_max == AFTER(EVENT_BASE_COUNT_VIRTUAL, IN.b.virtual_event_count_max) &&
	BASE.event_count_max == AFTER(EVENT_BASE_COUNT_ADDED, IN.b.event_count_max))
__CPROVER_ensures(g_lock_depth[1] == 0 && g_lock_ops == ((IN.b.has_lock & 1) ? 2 : 0))
;
void harness(void)
{
	int r;
	VF_LOAD_IN(); VF_INSTALL_LOCKS();
	c02_build_base(&IN.b);
	__CPROVER_assume(IN.b.event_count_max <= (1 << 29) && IN.b.event_count_active_max <= (1 << 29) && IN.b.virtual_event_count_max <= (1 << 29));
	r = VF_CALL(max_c, event_base_get_max_events, &BASE, IN.type, IN.clear);
	(void)r;
	__CPROVER_assert(BASE.event_count == IN.b.event_count && BASE.event_count_active == IN.b.event_count_active, "current counters untouched");
#ifdef VF_CANARY
	__CPROVER_assert(BASE.event_count_max == IN.b.event_count_max, "canary: must fail (clear resets the selected maxima)");
#endif
}
