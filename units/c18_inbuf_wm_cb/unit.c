/* C18 — bufferevent_inbuf_wm_cb (real bufferevent.c): the evbuffer callback that implements the read
 * high-water mark.  After every change of the input buffer: reading is suspended for the reason
 * BEV_SUSPEND_WM iff the buffer holds >= high bytes; the type's disable/enable op is invoked exactly on
 * the 0 <-> non-0 transitions of the suspend word (callees bufferevent_suspend_read_/unsuspend_read_ inlined). */
#include "c18_bev_unit.h"
static struct evbuffer_cb_info CBINFO;

VF_CONTRACT_V(wm_cb_c, struct evbuffer *buf, const struct evbuffer_cb_info *cbinfo, void *arg)
__CPROVER_requires(buf == &INBUF && cbinfo == &CBINFO && arg == (void *)BEV)
__CPROVER_requires(g_e.en_calls == 0 && g_e.dis_calls == 0 && g_lock_depth[1] == 0)
__CPROVER_assigns(BEVP.read_suspended, BEV_GHOST_FRAME)
/* 1 suspended for the watermark reason iff the input holds at least `high` bytes */
__CPROVER_ensures(IFF(BEVP.read_suspended & BEV_SUSPEND_WM, g_e.len_in >= BEV->wm_read.high))
/* 2 the other suspend reasons are untouched */
__CPROVER_ensures((BEVP.read_suspended & ~BEV_SUSPEND_WM) == (__CPROVER_old(BEVP.read_suspended) & ~BEV_SUSPEND_WM))
/* 3 reading is stopped exactly when it was running and the mark is reached */
__CPROVER_ensures(g_e.dis_calls == B(g_e.len_in >= BEV->wm_read.high && __CPROVER_old(BEVP.read_suspended) == 0))
__CPROVER_ensures(IMP(g_e.dis_calls == 1, g_e.dis_what == EV_READ && g_e.dis_lockdepth == HELD(1)))
/* 5 reading resumes as soon as the buffer is below the mark, no other reason is left and the user has reading enabled */
__CPROVER_ensures(g_e.en_calls == B(g_e.len_in < BEV->wm_read.high && BEVP.read_suspended == 0 && (BEV->enabled & EV_READ)))
__CPROVER_ensures(IMP(g_e.en_calls == 1, g_e.en_what == EV_READ && g_e.en_lockdepth == HELD(1)))
__CPROVER_ensures(g_lock_depth[1] == 0)
;

void harness(void)
{
	VF_LOAD_IN();
	vf_bev_build();
	VF_CALL_V(wm_cb_c, bufferevent_inbuf_wm_cb, &INBUF, &CBINFO, (void *)BEV);
	__CPROVER_assert(g_e.len_in == IN.len_in && BEV->wm_read.high == IN.high_r && BEV->enabled == IN.enabled, "buffer length, watermark and enabled set unchanged");
	__CPROVER_assert(g_e.nseq == 0, "no user callback is run from the watermark callback");
#ifdef VF_CANARY
	__CPROVER_assert(g_e.dis_calls == 0, "canary: must fail (reaching the mark stops reading)");
#endif
}
