/* C21 — arithmetic lemma (no libevent code): the code-shaped refill formula C21_F equals the
 * property's sentence min(maximum, old + ticks*rate) over the integers, for every accepted
 * configuration (1 <= rate <= maximum <= EV_RATE_LIMIT_MAX), every 64-bit level (deficit and
 * over-full included) and every tick count in [1, INT_MAX]; in particular nothing overflows.
 * Discharged by cvc5 --solve-bv-as-int=sum on CBMC's SMT-LIB dump (SAT/bit-vector solvers time
 * out on the 64-bit divide/multiply, DESIGN P9).  Composition: unit c21_update_shape proves
 * "code == C21_F"; this unit proves "C21_F == spec". */
#include "vf.h"
#include <sys/types.h>
#include "event2/util.h"
#include "event2/bufferevent.h"
#include "ratelim-internal.h"
struct in { ev_ssize_t old; size_t rate, max; ev_uint32_t n; };
struct in IN;
#include "c21_contracts.h"
ev_ssize_t nondet_ssz(void); size_t nondet_sz(void); ev_uint32_t nondet_u32(void);
void harness(void)
{
	/* separate nondeterministic scalars, not the IN struct: field extraction from a struct symbol turns
	 * into div/mod in the integer encoding and defeats the solver (this unit has no native replay) */
	ev_ssize_t v_old = nondet_ssz(); size_t v_rate = nondet_sz(), v_max = nondet_sz(); ev_uint32_t v_n = nondet_u32();
	__CPROVER_assume(v_rate >= 1 && v_rate <= v_max && v_max <= (size_t)EV_RATE_LIMIT_MAX && v_n >= 1 && v_n <= (ev_uint32_t)INT_MAX);
#ifdef VF_CANARY
	/* the same lemma with the refill test off by one (<= instead of <): must be falsifiable */
#define C21_F_LE(old, n, rate, max) (((old) >= (ev_ssize_t)(max) || ((size_t)(max) - (size_t)(old)) / (n) <= (rate)) ? (ev_ssize_t)(max) : (ev_ssize_t)((size_t)(old) + (size_t)(n) * (rate)))
	__CPROVER_assert((vf_i128)C21_F_LE(v_old, v_n, v_rate, v_max) == C21_SPEC(v_old, v_n, v_rate, v_max), "canary: must fail (off-by-one refill test)");
#else
	__CPROVER_assert((vf_i128)C21_F(v_old, v_n, v_rate, v_max) == C21_SPEC(v_old, v_n, v_rate, v_max), "C21_F == min(maximum, old + ticks*rate) over the integers");
#endif
}
