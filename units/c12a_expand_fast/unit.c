/* C12/C13/C14 — evbuffer_expand_fast_ (real buffer.c), bookkeeping, on every shape of <= 3 chains, every n >= 2.
 * Inline (real): evbuffer_chain_insert_new.
 * Replaced by contracts: evbuffer_chain_new_membuf (c12a_chain_new_membuf), evbuffer_chain_insert (c12a_chain_insert), evbuffer_chain_free, evbuffer_invoke_callbacks_.
 * memcpy/memmove: bounds-checked against the chain windows and logged, no bytes moved. */
#define VF_NLOCKS 2
#include "vf.h"
#include "stubs/c12a_mem.h"
#include "buffer.c"
struct eb_in;
#include "stubs/lock.h"
#include "c12a_shape.h"
struct in { struct eb_in b; size_t datlen; int n; unsigned ch[VF_NCHOICE]; };
struct in IN;
#include "stubs/log.h"
#include "stubs/c12a_mm.h"
#include "c12a_contracts.h"

#define O_total (O_BUF.total_len)
#define RV __CPROVER_return_value
long O_lock_ops;
VF_CONTRACT(int, expand_fast_c, struct evbuffer *buf, size_t datlen, int n)
__CPROVER_requires(buf == &BUF && n >= 2 && IMP(buf->lock != NULL, g_lock_depth[1] >= 1))
__CPROVER_requires(g_nnew == 0 && g_allocfail == 0 && g_freed == 0 && g_freed_mask == 0 && g_cb[0] == 0 && m_cp.n == 0)
__CPROVER_assigns(errno, g_new[0], g_new[1], g_al, g_fr,
	__CPROVER_object_whole(buf), __CPROVER_object_whole(&CH[0]), __CPROVER_object_whole(&CH[1]), __CPROVER_object_whole(&CH[2]))
__CPROVER_ensures(RV == 0 || RV == -1)
/* 2 C12: it fails only when an allocation failed (or the request exceeds what a chain can hold), and then it does fail */
__CPROVER_ensures(IMP(g_allocfail > 0, RV == -1))
__CPROVER_ensures(IMP(RV == -1, g_allocfail > 0 || datlen > EVBUFFER_CHAIN_MAX - EVBUFFER_CHAIN_SIZE))
/* 4 C12/C13/C14 (success and failure alike): the byte string does not change: same length, no change recorded for the callbacks */
__CPROVER_ensures(buf->total_len == O_total && buf->n_add_for_cb == O_BUF.n_add_for_cb && buf->n_del_for_cb == O_BUF.n_del_for_cb)
/* 5 nothing else of the buffer changes */
__CPROVER_ensures(buf->lock == O_BUF.lock && buf->freeze_start == O_BUF.freeze_start && buf->freeze_end == O_BUF.freeze_end && buf->refcnt == O_BUF.refcnt && buf->callbacks.lh_first == O_BUF.callbacks.lh_first && buf->deferred_cbs == O_BUF.deferred_cbs && buf->flags == O_BUF.flags && buf->max_read == O_BUF.max_read)
/* 6 a failed call allocates nothing (no leak) */
__CPROVER_ensures(IMP(RV == -1, g_nnew == 0))
;

void harness(void)
{
	int r, i, k; size_t datlen; int L;
	VF_LOAD_IN();
	c12a_build(&IN.b);
	VF_INSTALL_LOCKS(); C12A_RESET();
	datlen = C12A_Q(IN.datlen);
	__CPROVER_assume(IN.n >= 2);
	L = vf_lwd_index(&C12A_S);
	if (BUF.lock) g_lock_depth[1] = 1;       /* internal function: called with the buffer locked */
	C12A_SNAPSHOT(); O_lock_ops = g_lock_ops;
	r = VF_CALL(expand_fast_c, evbuffer_expand_fast_, &BUF, datlen, IN.n);
#ifndef C12A_NOPOST
	__CPROVER_assert(g_lock_ops == O_lock_ops && g_cb[0] == 0 && m_cp.n == 0, "no lock operation, no callback, no byte copied");
	__CPROVER_assert(c12a_binv(&BUF), "BInv after expand_fast_ (also when it failed): links, last, windows, total_len == sum off, last_with_datap canonical");
	/* every byte stays where it is: chains up to the last chain with data are untouched; only empty chains are realigned or freed */
	for (i = 0; i < VF_EB_MAXCH; i++) {
		if ((unsigned)i >= c12a_nch) break;
		if (i <= L) __CPROVER_assert(!(g_freed_mask & (1u << i)) && CH[i].off == O_CH[i].off && CH[i].misalign == O_CH[i].misalign && CH[i].buffer_len == O_CH[i].buffer_len && CH[i].buffer == O_CH[i].buffer && CH[i].flags == O_CH[i].flags && CH[i].refcnt == O_CH[i].refcnt && (i == L || CH[i].next == O_CH[i].next), "chains holding data are untouched");
		else if (!(g_freed_mask & (1u << i))) __CPROVER_assert(CH[i].off == 0 && CH[i].buffer_len == O_CH[i].buffer_len && CH[i].buffer == O_CH[i].buffer, "a surviving empty chain stays empty and keeps its capacity");
	}
	__CPROVER_assert(g_nnew <= 1 && IMP(g_nnew == 1, BUF.last == g_new[0] && g_new[0]->off == 0), "at most one chain is allocated; it is empty and the last chain");
	if (r == 0) {
		/* the promise (what evbuffer_read_setup_vecs_ relies on): starting at the first chain with free space at or behind the
		 * last chain with data, the next n chains offer >= datlen bytes in total */
		struct evbuffer_chain *c = *BUF.last_with_datap; size_t space = 0;
		__CPROVER_assert(c != NULL, "there is a chain to write into");
		if (c && CHAIN_SPACE_LEN(c) == 0) c = c->next;
		for (k = 0; k < VF_EB_MAXCH + 1; k++) {
			if (!c || k >= IN.n) break;
			space += CHAIN_SPACE_LEN(c);
			c = c->next;
		}
		__CPROVER_assert(space >= datlen, "the first n chains with room offer at least datlen bytes");
	}
#endif
#ifdef VF_CANARY
	__CPROVER_assert(g_freed == 0, "canary: must fail (empty chains get replaced)");
#endif
}
