/* C11 — evmap_io_reinit_iter_fn (real evmap.c): see the contract io_reinit_iter_c in contracts/c11_reinit.h. */
#include "c11_reinit.h"
void harness(void)
{
	int r;
	VF_LOAD_IN();
	c11_build();
	__CPROVER_assume(IN.fd >= 0 && IN.fd < NIO);
	r = VF_CALL(io_reinit_iter_c, evmap_io_reinit_iter_fn, &BASE, IN.fd, &IORP(IN.fd)->io, (void *)&RESULT);
	(void)r;
#ifdef VF_CANARY
	__CPROVER_assert(RESULT == IN.result0, "canary: must fail (a failed add sets the result)");
#endif
}
