/* C42 — the primitive decoders of the real event_tagging.c on ARBITRARY bytes: a buffer of
 * IN.n <= VF_N bytes, all contents, every length, data RIGHT-ALIGNED in the model object (a read
 * past the buffer's data is out of bounds).  For evtag_decode_int, evtag_decode_int64,
 * evtag_decode_tag, evtag_peek and the internal decode_int*_internal at offset 0:
 *   - never read past the data;
 *   - fail (-1, nothing consumed, output untouched) exactly when the reference reader of
 *     contracts/c31_tagref.h finds no well-formed item, else return its value (< 2^32 for the
 *     32-bit forms) and consume exactly that one item (peek/internal: consume nothing).
 * Loops bounded by the operand width, fully unwound.  Which decoder runs is IN.which. */
#ifndef VF_N
#define VF_N 12
#endif
#define VF_EB_CAP 16
#include "vf.h"
#include "event_tagging.c"
struct in { unsigned n; unsigned char d[VF_N]; int which; unsigned ch[VF_NCHOICE]; };
struct in IN;
#include "stubs/log.h"
#include "stubs/evbuffer_model.h"
#include "c31_tagref.h"

void harness(void)
{
	unsigned i; int r, rl; ev_uint64_t rv = 0; ev_uint32_t rt = 0; const unsigned char *b;
	VF_LOAD_IN(); VF_EB_RESET();
	__CPROVER_assume(IN.n <= VF_N && IN.which >= 0 && IN.which <= 5);
	g_eb[0].len = IN.n; g_eb[0].start = VF_EB_CAP - IN.n;          /* the data ENDS at the object's end */
	for (i = 0; i < VF_N; i++) if (i < IN.n) g_eb[0].d[g_eb[0].start + i] = IN.d[i];
	b = &g_eb[0].d[g_eb[0].start];
	if (IN.which == 0) {            /* evtag_decode_int */
		ev_uint32_t out = 0xdeadbeefu;
		rl = ref_int(IN.d, IN.n, 8, &rv);
		r = evtag_decode_int(&out, &EVB[0]);
		__CPROVER_assert(IFF(r == -1, rl < 0) && (r == 0 || r == -1), "evtag_decode_int fails iff there is no well-formed 32-bit integer item");
		__CPROVER_assert(IMP(r == 0, out == (ev_uint32_t)rv && rv <= 0xffffffffu), "evtag_decode_int: value of the item, below 2^32");
		__CPROVER_assert(IMP(r == 0, g_eb[0].drained == (size_t)rl && g_eb[0].len == IN.n - (size_t)rl), "evtag_decode_int consumes exactly one item");
		__CPROVER_assert(IMP(r == -1, g_eb[0].drained == 0 && g_eb[0].len == IN.n && out == 0xdeadbeefu), "evtag_decode_int: failure consumes nothing and leaves the output alone");
	} else if (IN.which == 1) {     /* evtag_decode_int64 */
		ev_uint64_t out = 0xdeadbeefdeadbeefull;
		rl = ref_int(IN.d, IN.n, 16, &rv);
		r = evtag_decode_int64(&out, &EVB[0]);
		__CPROVER_assert(IFF(r == -1, rl < 0) && (r == 0 || r == -1), "evtag_decode_int64 fails iff there is no well-formed 64-bit integer item");
		__CPROVER_assert(IMP(r == 0, out == rv), "evtag_decode_int64: value of the item");
		__CPROVER_assert(IMP(r == 0, g_eb[0].drained == (size_t)rl && g_eb[0].len == IN.n - (size_t)rl), "evtag_decode_int64 consumes exactly one item");
		__CPROVER_assert(IMP(r == -1, g_eb[0].drained == 0 && g_eb[0].len == IN.n && out == 0xdeadbeefdeadbeefull), "evtag_decode_int64: failure consumes nothing and leaves the output alone");
	} else if (IN.which == 2) {     /* evtag_decode_tag */
		ev_uint32_t out = 0xdeadbeefu;
		rl = ref_tag(IN.d, IN.n, &rt);
		r = evtag_decode_tag(&out, &EVB[0]);
		__CPROVER_assert(IFF(r == -1, rl < 0), "evtag_decode_tag fails iff there is no well-formed tag that fits 32 bits");
		__CPROVER_assert(IMP(r != -1, r == rl && out == rt), "evtag_decode_tag: tag value and encoded length");
		__CPROVER_assert(IMP(r != -1, g_eb[0].drained == (size_t)rl && g_eb[0].len == IN.n - (size_t)rl), "evtag_decode_tag consumes exactly one item");
		__CPROVER_assert(IMP(r == -1, g_eb[0].drained == 0 && g_eb[0].len == IN.n && out == 0xdeadbeefu), "evtag_decode_tag: failure consumes nothing and leaves the output alone");
	} else if (IN.which == 3) {     /* evtag_peek */
		ev_uint32_t out = 0xdeadbeefu;
		rl = ref_tag(IN.d, IN.n, &rt);
		r = evtag_peek(&EVB[0], &out);
		__CPROVER_assert(IFF(r == -1, rl < 0) && IMP(r != -1, r == rl && out == rt), "evtag_peek: tag value and encoded length, or -1");
		__CPROVER_assert(g_eb[0].drained == 0 && g_eb[0].len == IN.n, "evtag_peek consumes nothing");
	} else if (IN.which == 4) {     /* decode_int_internal, offset 0 */
		ev_uint32_t out = 0xdeadbeefu;
		rl = ref_int(IN.d, IN.n, 8, &rv);
		r = decode_int_internal(&out, &EVB[0], 0);
		__CPROVER_assert(r == rl && IMP(r != -1, out == (ev_uint32_t)rv), "decode_int_internal: encoded length and value, or -1");
		__CPROVER_assert(g_eb[0].drained == 0 && g_eb[0].len == IN.n, "decode_int_internal consumes nothing");
	} else {                        /* decode_int64_internal, offset 0 */
		ev_uint64_t out = 0;
		rl = ref_int(IN.d, IN.n, 16, &rv);
		r = decode_int64_internal(&out, &EVB[0], 0);
		__CPROVER_assert(r == rl && IMP(r != -1, out == rv), "decode_int64_internal: encoded length and value, or -1");
		__CPROVER_assert(g_eb[0].drained == 0 && g_eb[0].len == IN.n, "decode_int64_internal consumes nothing");
	}
	for (i = 0; i < VF_N; i++) if (i < IN.n) __CPROVER_assert(g_eb[0].d[VF_EB_CAP - IN.n + i] == IN.d[i], "decoders do not modify the buffer's bytes");
	(void)b;
#ifdef VF_CANARY
	__CPROVER_assert(!(IN.which == 1 && r == 0 && g_eb[0].drained == 9), "canary: must fail (a 9-byte 64-bit item is decodable)");
#endif
}
