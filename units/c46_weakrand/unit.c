/* C46 — evutil_weakrand_ (real evutil.c): the LCG step and its range, for all 2^32 seeds. */
#include "vf.h"
#include "evutil.c"
#include "stubs/log.h"

struct in { ev_uint32_t seed; };
struct in IN;
static struct evutil_weakrand_state ST;

VF_CONTRACT(ev_int32_t, weakrand_c, struct evutil_weakrand_state *state)
__CPROVER_requires(__CPROVER_rw_ok(state, sizeof(*state)))
__CPROVER_assigns(state->seed)
__CPROVER_ensures(__CPROVER_return_value >= 0 && __CPROVER_return_value <= EVUTIL_WEAKRAND_MAX)
__CPROVER_ensures(state->seed == ((__CPROVER_old(state->seed) * 1103515245u + 12345u) & 0x7fffffffu))
__CPROVER_ensures((ev_uint32_t)__CPROVER_return_value == state->seed)
;

void harness(void)
{
	ev_int32_t r;
	VF_LOAD_IN();
	ST.seed = IN.seed;
	r = VF_CALL(weakrand_c, evutil_weakrand_, &ST);
#ifdef VF_CANARY
	__CPROVER_assert(r != 12345, "canary: must fail (seed 0 gives 12345)");
#endif
}
