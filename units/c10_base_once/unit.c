/* C10/C08 — event_base_once (real event.c): the one-shot record is either handed to the loop (linked into
 * base->once_events, its event initialised to run event_once_cb with the record as argument, and either activated
 * right away — pure timeout with no/zero timeval — or added) or, on EVERY failure path, freed exactly once and not
 * registered; the base lock is released on return.
 *
 * CANDIDATE DEFECT (C08): on the path "event_add_nolock_ fails" the function frees the record and returns WITHOUT
 * releasing th_base_lock (event.c: `if (res != 0) { mm_free(eonce); return (res); }`).  Failing inputs:
 * KF_PRED = the add path is taken and event_add_nolock_ returns non-zero (e.g. the backend refuses the fd).
 * -DVF_KF_EXCLUDE removes them, -DVF_KF_ONLY keeps only them. */
#define VF_NLOCKS 1
#include "vf.h"
#include "event.c"
struct in { int nullbase, fd, has_tv, alloc_fail, add_ret, nold; short events; long tv_sec, tv_usec; };
struct in IN;
#include "stubs/log.h"
#include "stubs/lock.h"

static struct event_base BASE;
static struct timeval TV;
static struct event_once OLD;          /* a record already on once_events */
static char ARG;
struct event_once *g_rec;
int g_allocs, g_frees, g_act, g_add;
static void vf_usercb(evutil_socket_t fd, short what, void *arg) { (void)fd; (void)what; (void)arg; }
static void *vf_malloc(size_t n)
{
	void *p;
	__CPROVER_assert(n == sizeof(struct event_once), "the record allocated is one struct event_once");
	if (IN.alloc_fail) return NULL;
	p = malloc(sizeof(struct event_once));
	__CPROVER_assume(p != NULL);
	g_rec = p; g_allocs++;
	return p;
}
static void vf_free(void *p)
{
	__CPROVER_assert(p == (void *)g_rec && g_frees == 0, "C10: only the record is freed, once");
	g_frees++;
	free(p);
}
#define IOBITS (EV_READ | EV_WRITE | EV_CLOSED)
#define PURE_TIMEOUT ((IN.events & (EV_TIMEOUT | EV_SIGNAL | IOBITS)) == EV_TIMEOUT)
#define IMMEDIATE (PURE_TIMEOUT && (!IN.has_tv || (IN.tv_sec == 0 && IN.tv_usec == 0)))
#define REJECTED (IN.nullbase || (IN.events & (EV_SIGNAL | EV_PERSIST)))
#define BADCOMBO (!REJECTED && !PURE_TIMEOUT && !(IN.events & IOBITS))
#define REC_READY(ev) ((ev) == &g_rec->ev && (ev)->ev_base == &BASE && (ev)->ev_callback == event_once_cb && (ev)->ev_arg == (void *)g_rec && \
	(ev)->ev_flags == EVLIST_INIT && (ev)->ev_closure == EV_CLOSURE_EVENT && g_rec->cb == vf_usercb && g_rec->arg == (void *)&ARG)

VF_CONTRACT_V(active_c, struct event *ev, int res, short ncalls)
__CPROVER_requires(g_lock_depth[1] == 1 && g_act == 0 && g_add == 0 && g_frees == 0)
__CPROVER_requires(REC_READY(ev) && res == EV_TIMEOUT && ncalls == 1 && ev->ev_fd == -1 && ev->ev_events == 0)
__CPROVER_requires(IMMEDIATE)                      /* activated directly only for "run as soon as possible" */
__CPROVER_assigns(g_act)
__CPROVER_ensures(g_act == 1)
;
VF_CONTRACT(int, add_c, struct event *ev, const struct timeval *tv, int tv_is_absolute)
__CPROVER_requires(g_lock_depth[1] == 1 && g_act == 0 && g_add == 0 && g_frees == 0)
__CPROVER_requires(REC_READY(ev) && tv == (IN.has_tv ? &TV : NULL) && tv_is_absolute == 0)
__CPROVER_requires(!IMMEDIATE)
__CPROVER_requires(PURE_TIMEOUT ? (ev->ev_fd == -1 && ev->ev_events == 0) : (ev->ev_fd == IN.fd && ev->ev_events == (IN.events & IOBITS)))
__CPROVER_assigns(g_add)
__CPROVER_ensures(g_add == 1 && __CPROVER_return_value == IN.add_ret)
;

#define ADD_FAILS (!REJECTED && !IN.alloc_fail && !BADCOMBO && !IMMEDIATE && IN.add_ret != 0)
#define KF_PRED ADD_FAILS
#define OK_PATH (!REJECTED && !IN.alloc_fail && !BADCOMBO && !ADD_FAILS)
VF_CONTRACT(int, once_c, struct event_base *base, evutil_socket_t fd, short events, void (*callback)(evutil_socket_t, short, void *), void *arg, const struct timeval *tv)
__CPROVER_requires(base == (IN.nullbase ? NULL : &BASE) && fd == IN.fd && events == IN.events && callback == vf_usercb && arg == (void *)&ARG && tv == (IN.has_tv ? &TV : NULL))
__CPROVER_requires(g_lock_depth[1] == 0 && g_allocs == 0 && g_frees == 0 && g_act == 0 && g_add == 0)
__CPROVER_assigns(g_lock_depth[1], g_lock_ops, event_debug_mode_too_late, g_rec, g_allocs, g_frees, g_act, g_add, errno, BASE.once_events.lh_first, OLD.next_once.le_prev)
/* 1 C08: the base lock is released on every path */
__CPROVER_ensures(g_lock_depth[1] == 0)
/* 2 result */
__CPROVER_ensures(__CPROVER_return_value == (OK_PATH ? 0 : (ADD_FAILS ? IN.add_ret : -1)))
/* 3 C10: every failure path frees the record (if one was allocated) exactly once; success keeps it */
__CPROVER_ensures(g_allocs == ((REJECTED || IN.alloc_fail) ? 0 : 1) && g_frees == ((g_allocs == 1 && !OK_PATH) ? 1 : 0))
/* 4 C10: registered exactly once on success (activated xor added), never on the early failures */
__CPROVER_ensures(g_act == ((OK_PATH && IMMEDIATE) ? 1 : 0) && g_add == (((OK_PATH && !IMMEDIATE) || ADD_FAILS) ? 1 : 0))
/* 5 C10: on success the record is on base->once_events (so event_base_free can release it if it never runs); on failure the list is as before */
__CPROVER_ensures(IMP(OK_PATH, BASE.once_events.lh_first == g_rec && g_rec->next_once.le_prev == &BASE.once_events.lh_first && g_rec->next_once.le_next == (IN.nold ? &OLD : NULL)))
__CPROVER_ensures(IMP(OK_PATH && IN.nold, OLD.next_once.le_prev == &g_rec->next_once.le_next))
__CPROVER_ensures(IMP(!OK_PATH, BASE.once_events.lh_first == (IN.nold ? &OLD : NULL) && OLD.next_once.le_prev == &BASE.once_events.lh_first))
;

void harness(void)
{
	int r;
	VF_LOAD_IN(); VF_INSTALL_LOCKS();
	evthread_id_fn_ = NULL; event_debug_mode_on_ = 0; event_debug_map_lock_ = NULL; event_debug_mode_too_late = 0; event_global_current_base_ = NULL;
	mm_malloc_fn_ = vf_malloc; mm_realloc_fn_ = NULL; mm_free_fn_ = vf_free;
	__CPROVER_assume(IN.add_ret == 0 || IN.add_ret == -1);
#ifdef VF_KF_EXCLUDE
	__CPROVER_assume(!KF_PRED);      /* known finding: lock not released when event_add_nolock_ fails */
#endif
#ifdef VF_KF_ONLY
	__CPROVER_assume(KF_PRED);
#endif
	g_rec = NULL; g_allocs = 0; g_frees = 0; g_act = 0; g_add = 0;
	BASE.th_base_lock = VF_LOCK_COOKIE(1); BASE.nactivequeues = 1;
	LIST_INIT(&BASE.once_events);
	OLD.next_once.le_prev = &BASE.once_events.lh_first; OLD.next_once.le_next = NULL;
	if (IN.nold) LIST_INSERT_HEAD(&BASE.once_events, &OLD, next_once);
	TV.tv_sec = IN.tv_sec; TV.tv_usec = IN.tv_usec;
	r = VF_CALL(once_c, event_base_once, IN.nullbase ? NULL : &BASE, IN.fd, IN.events, vf_usercb, (void *)&ARG, IN.has_tv ? &TV : NULL);
#ifdef VF_CANARY
	__CPROVER_assert(r != 0, "canary: must fail (scheduling can succeed)");
#endif
}
