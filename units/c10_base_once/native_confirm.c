#include <stdio.h>
#include <stdlib.h>
#include <event2/event.h>
#include <event2/thread.h>
static int depth, locks, unlocks;
struct lk { int d; };
static void *l_alloc(unsigned t) { (void)t; return calloc(1, sizeof(struct lk)); }
static void l_free(void *l, unsigned t) { (void)t; free(l); }
static int l_lock(unsigned m, void *l) { (void)m; ((struct lk *)l)->d++; depth++; locks++; return 0; }
static int l_unlock(unsigned m, void *l) { (void)m; ((struct lk *)l)->d--; depth--; unlocks++; return 0; }
static unsigned long l_id(void) { return 1; }
static void cb(evutil_socket_t fd, short w, void *a) { (void)fd; (void)w; (void)a; }
int main(void)
{
	struct evthread_lock_callbacks cbs = { EVTHREAD_LOCK_API_VERSION, EVTHREAD_LOCKTYPE_RECURSIVE, l_alloc, l_free, l_lock, l_unlock };
	struct event_base *base; int r;
	evthread_set_lock_callbacks(&cbs); evthread_set_id_callback(l_id);
	base = event_base_new();
	depth = 0;
	r = event_base_once(base, 9999 /* not an open fd: the backend refuses it */, EV_READ, cb, NULL, NULL);
	printf("event_base_once returned %d, lock depth after the call = %d (locks=%d unlocks=%d) backend=%s\n", r, depth, locks, unlocks, event_base_get_method(base));
	return depth != 0;
}
