/* C22/C08 — bev_group_refill_callback_ (real bufferevent_ratelim.c), the group's per-tick timer: the group bucket is refilled under the
 * group lock (C21, frame contract), then reading (writing) is unsuspended for the whole group iff an earlier unsuspension is still
 * pending, or the group is suspended and its level has reached min_share; never suspended here.  The member walks
 * bev_group_unsuspend_reading_/_writing_ are replaced by ghost call markers (verified in c22_group_unsuspend_*). */
#include "c22_rl_unit.h"
#define GR_ GRP.rate_limit.read_limit
#define GW_ GRP.rate_limit.write_limit
VF_CONTRACT_V(group_refill_c, evutil_socket_t fd, short what, void *arg)
__CPROVER_requires(arg == (void *)&GRP && g_lock_depth[2] == 0 && g_r.gur_calls == 0 && g_r.guw_calls == 0 && g_r.gsr_calls == 0 && g_r.gsw_calls == 0)
__CPROVER_assigns(GRP.rate_limit.read_limit, GRP.rate_limit.write_limit, GRP.rate_limit.last_updated, RL_GHOST_FRAME)
__CPROVER_ensures(g_r.gur_calls == B((IN.g_pur & 1) || ((IN.g_rs & 1) && GR_ >= IN.min_share)))
__CPROVER_ensures(g_r.guw_calls == B((IN.g_puw & 1) || ((IN.g_ws & 1) && GW_ >= IN.min_share)))
__CPROVER_ensures(g_r.gsr_calls == 0 && g_r.gsw_calls == 0 && g_lock_depth[2] == 0 && g_lock_depth[1] == 0)
;
void harness(void)
{
	VF_LOAD_IN();
	vf_rl_build();
	__CPROVER_assume(IN.msec_per_tick != 0);
	VF_CALL_V(group_refill_c, bev_group_refill_callback_, -1, EV_TIMEOUT, (void *)&GRP);
	__CPROVER_assert(GRP.min_share == IN.min_share && GRP.n_members == IN.n_members && GRP.total_read == IN.tot_r, "frame: shares, membership and totals untouched");
#ifdef VF_CANARY
	__CPROVER_assert(g_r.gur_calls == 0, "canary: must fail (a refilled group resumes reading)");
#endif
}
