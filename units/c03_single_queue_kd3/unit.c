/* thorough-tier shape of unit c03_single_queue: up to 3 dispatches per call (same text, KD=3). */
#include "../c03_single_queue/unit.c"
