/* C07 — evmap_signal_active_ (real evmap.c): every event added for the signal is activated
 * exactly once with EV_SIGNAL and the given call count; a signal without events, outside the
 * table or without record activates nothing. */
#include "c07_sigmap.h"
#define NEV 3
static struct event EVS[NEV];
int g_act_calls[NEV], g_act_res[NEV], g_act_ncalls[NEV], g_act_foreign;
void event_active_nolock_(struct event *ev, int res, short ncalls)
{
	long k = ev - &EVS[0];
	if (!(ev == &EVS[0] || ev == &EVS[1] || ev == &EVS[2])) { g_act_foreign++; return; }
	g_act_calls[k]++; g_act_res[k] = res; g_act_ncalls[k] = ncalls;
}
#define ONLIST(k) (SIG_INTABLE && !IN.slot_null && (k) < IN.n)
/* C07: the callback runs at least once per batch, with a call count no larger than the deliveries; counts that
 * fit the event's (short) counter are passed on exactly */
#define C07_COUNT_OK(c) ((c) >= 1 && (c) <= IN.ncalls && IMP(IN.ncalls <= 32767, (c) == IN.ncalls))
#define POST1(k) (g_act_calls[k] == (ONLIST(k) ? 1 : 0) && IMP(g_act_calls[k] == 1, g_act_res[k] == EV_SIGNAL && C07_COUNT_OK(g_act_ncalls[k])))

VF_CONTRACT_V(sig_active_c, struct event_base *base, evutil_socket_t sig, int ncalls)
__CPROVER_requires(base == &BASE && sig == IN.fd && ncalls == IN.ncalls)
__CPROVER_requires(g_act_calls[0] == 0 && g_act_calls[1] == 0 && g_act_calls[2] == 0 && g_act_foreign == 0)
__CPROVER_assigns(__CPROVER_object_whole(g_act_calls), __CPROVER_object_whole(g_act_res), __CPROVER_object_whole(g_act_ncalls), g_act_foreign)
__CPROVER_ensures(g_act_foreign == 0)
__CPROVER_ensures(POST1(0))
__CPROVER_ensures(POST1(1))
__CPROVER_ensures(POST1(2))
;

void harness(void)
{
	int k;
	VF_LOAD_IN();
	c07_build_sigmap();
	__CPROVER_assume(IN.n >= 0 && IN.n <= NEV);
	/* evsig_cb passes the number of bytes it read for the signal (>= 1); it sums every byte drained from the signal
	 * pipe in one callback, so the whole int range is admitted */
	__CPROVER_assume(IN.ncalls >= 1);
	if (SIG_INTABLE) OLDTAB[IN.fd] = IN.slot_null ? NULL : (void *)&SCTX;
	SCTX.sg.events.lh_first = IN.n > 0 ? &EVS[0] : NULL;
	for (k = 0; k < NEV; k++) {
		EVS[k].ev_fd = IN.fd; EVS[k].ev_events = EV_SIGNAL | EV_PERSIST;
		C05_SIGL(&EVS[k]).le_next = (k + 1 < IN.n) ? &EVS[k + 1] : NULL;
		C05_SIGL(&EVS[k]).le_prev = k == 0 ? &SCTX.sg.events.lh_first : &C05_SIGL(&EVS[k - 1]).le_next;
		g_act_calls[k] = 0; g_act_res[k] = 0; g_act_ncalls[k] = 0;
	}
	g_act_foreign = 0;
	VF_CALL_V(sig_active_c, evmap_signal_active_, &BASE, IN.fd, IN.ncalls);
#ifdef VF_CANARY
	__CPROVER_assert(g_act_calls[2] == 0, "canary: must fail (the third event can be activated)");
#endif
}
