/* C40 — evutil_inet_pton, AF_INET6 branch (real evutil.c): every text of the RFC 4291 syntax (8 groups
 * of 1-4 hex digits, one "::" for a run of >= 1 zero groups, optional dotted-quad tail; reference parser
 * contracts/c40_inet_ref.h) is accepted and yields exactly the reference's 16 bytes; rejected text leaves
 * *dst unchanged; no read past the terminating NUL; the word buffer is never indexed out of bounds.
 * strtol / sscanf are the ISO C reference bodies of stubs/c40_libc_ref.h; memmove/memset bounded loops.
 * THIS unit: strictness - whatever evutil_inet_pton(AF_INET6) accepts is in the reference syntax. */
#define VF_AF 6
#define VF_STRICT 1
#include "c40_pton_unit.h"
