/* one entry point of the group in contracts/c45_evwatch_new_unit.h (shared text; VF_WHICH selects it) */
#include "c45_evwatch_new_unit.h"
