/* C22/C08 — bufferevent_decrement_read_buckets_ (real bufferevent_ratelim.c); see contracts/c22_decrement_unit.h */
#define C22_DEC_WRITE 0
#include "c22_decrement_unit.h"
