/* C01 — gettime (real event.c, loop-free): the clock every timer decision reads.  While the loop
 * holds a cached reading (tv_cache.tv_sec != 0) that reading is returned and nothing else happens;
 * otherwise the MONOTONIC clock is read (never the wall clock), a failure is reported as -1 with
 * nothing changed, and on success the wall-clock offset tv_clock_diff = wall - monotonic is refreshed
 * (it is only used to translate deadlines for event_pending / gettimeofday_cached, never for firing).
 * This is what the ghost-clock contract gettime_c (contracts/c01_timer_contracts.h) abstracts. */
#define VF_NLOCKS 1
#include "vf.h"
#include "event.c"
#include "stubs/lock.h"
#include "stubs/log.h"
#define C02_NO_AQ
#include "c02_event_shape.h"
struct in { struct c02_base_in b; long c_sec, c_usec, m_sec, m_usec, w_sec, w_usec; long last; int mono_fails; long out_sec, out_usec; };
struct in IN;
static struct timeval OUT;
int g_mono_calls, g_wall_calls;
int evutil_gettime_monotonic_(struct evutil_monotonic_timer *timer, struct timeval *tp)
{
	__CPROVER_assert(timer == &BASE.monotonic_timer, "monotonic read: the base's timer");
	g_mono_calls++;
	if (IN.mono_fails) return -1;
	tp->tv_sec = IN.m_sec; tp->tv_usec = IN.m_usec;
	return 0;
}
int gettimeofday(struct timeval *restrict tv, void *restrict tz) { (void)tz; g_wall_calls++; tv->tv_sec = IN.w_sec; tv->tv_usec = IN.w_usec; return 0; }
#define CACHED (IN.c_sec != 0)
#define READS (!CACHED && !IN.mono_fails)
#define REFRESH (READS && IN.last - 1 < IN.m_sec)
#define BORROW (IN.w_usec < IN.m_usec)
VF_CONTRACT(int, gettime_real_c, struct event_base *base, struct timeval *tp)
__CPROVER_requires(base == &BASE && tp == &OUT && g_mono_calls == 0 && g_wall_calls == 0)
__CPROVER_assigns(OUT, BASE.tv_clock_diff, BASE.last_updated_clock_diff, g_mono_calls, g_wall_calls)
__CPROVER_ensures(__CPROVER_return_value == ((!CACHED && IN.mono_fails) ? -1 : 0))
__CPROVER_ensures(IMP(CACHED, OUT.tv_sec == IN.c_sec && OUT.tv_usec == IN.c_usec && g_mono_calls == 0 && g_wall_calls == 0))
__CPROVER_ensures(IMP(READS, OUT.tv_sec == IN.m_sec && OUT.tv_usec == IN.m_usec && g_mono_calls == 1))
__CPROVER_ensures(IMP(!CACHED && IN.mono_fails, OUT.tv_sec == IN.out_sec && OUT.tv_usec == IN.out_usec && g_wall_calls == 0))
__CPROVER_ensures(IMP(REFRESH, BASE.last_updated_clock_diff == IN.m_sec && g_wall_calls == 1 &&
	BASE.tv_clock_diff.tv_sec == IN.w_sec - IN.m_sec - (BORROW ? 1 : 0) && BASE.tv_clock_diff.tv_usec == IN.w_usec - IN.m_usec + (BORROW ? 1000000 : 0)))
__CPROVER_ensures(IMP(!REFRESH, BASE.last_updated_clock_diff == IN.last && BASE.tv_clock_diff.tv_sec == IN.b.diff_sec && BASE.tv_clock_diff.tv_usec == IN.b.diff_usec && g_wall_calls == 0))
;
void harness(void)
{
	int r;
	VF_LOAD_IN(); VF_INSTALL_LOCKS();
	c02_build_base(&IN.b);
	__CPROVER_assume(C02_TV_OK(IN.m_sec, IN.m_usec) && C02_TV_OK(IN.w_sec, IN.w_usec) && IN.c_sec >= 0 && IN.c_sec <= C02_SEC_MAX && IN.c_usec >= 0 && IN.c_usec < 1000000);
	__CPROVER_assume(IN.last >= 0 && IN.last <= C02_SEC_MAX);
	BASE.tv_cache.tv_sec = IN.c_sec; BASE.tv_cache.tv_usec = IN.c_usec; BASE.last_updated_clock_diff = IN.last;
	OUT.tv_sec = IN.out_sec; OUT.tv_usec = IN.out_usec; g_mono_calls = 0; g_wall_calls = 0;
	r = VF_CALL(gettime_real_c, gettime, &BASE, &OUT);
	(void)r;
#ifdef VF_CANARY
	__CPROVER_assert(g_mono_calls == 0, "canary: must fail (without a cached reading the monotonic clock is read)");
#endif
}
