/* C05 — event_changelist_add_ (real evmap.c, with event_changelist_get_or_construct and
 * event_changelist_grow inlined): queuing an add coalesces with whatever is pending for the fd so
 * that desired(old_events, change') = desired(old_events, change) ∪ events. */
#include "vf.h"
#include "evmap.c"
#include "c05_changelist.h"
struct in { int fd; short old, events; struct c05_cl_in cl; unsigned ch[VF_NCHOICE]; };
struct in IN;
#include "stubs/log.h"
#define VF_MM_NO_REALLOC
#include "stubs/mm.h"
#define C05_CL_BODY
#include "c05_changelist.h"

#define NEWBYTE ((ev_uint8_t)(EV_CHANGE_ADD | (IN.events & (EV_ET|EV_PERSIST|EV_SIGNAL))))
#define CUR (&C05_CHS[CL_IDX])      /* the fd's entry after a successful call */

VF_CONTRACT(int, cl_add_c, struct event_base *base, evutil_socket_t fd, short old, short events, void *p)
__CPROVER_requires(base == &BASE && fd == IN.fd && old == IN.old && events == IN.events && p == (void *)&FDI)
__CPROVER_requires(g_mm_realloc_calls == 0)
__CPROVER_assigns(BASE.changelist.changes, BASE.changelist.n_changes, BASE.changelist.changes_size, FDI.idxplus1,
	__CPROVER_object_whole(OLDCH), __CPROVER_object_whole(NEWCH), g_mm_realloc_calls, g_mm_realloc_ok, g_mm_realloc_sz, errno, vf_nchoice_)
/* 1 fails only when a new entry is needed and the array cannot grow; then nothing changes */
__CPROVER_ensures(__CPROVER_return_value == (CL_ALLOC_FAILED ? -1 : 0))
__CPROVER_ensures(IMP(__CPROVER_return_value == -1, BASE.changelist.n_changes == IN.cl.n_changes && BASE.changelist.changes_size == IN.cl.changes_size
	&& BASE.changelist.changes == C05_OLDCH && FDI.idxplus1 == IN.cl.idxplus1))
/* 3 links: the fd's fdinfo names its entry, the entry names the fd; a fresh entry is appended */
__CPROVER_ensures(IMP(__CPROVER_return_value == 0, FDI.idxplus1 == CL_IDX + 1 && BASE.changelist.n_changes == IN.cl.n_changes + (CL_FRESH ? 1 : 0)
	&& BASE.changelist.n_changes <= BASE.changelist.changes_size && CUR->fd == fd))
/* 4 old_events: what the kernel holds — the caller's `old` for a fresh entry, untouched otherwise */
__CPROVER_ensures(IMP(__CPROVER_return_value == 0, CUR->old_events == CL_O_OLD))
/* 5 each condition named by the add gets ADD|flags (replacing a pending delete), the others keep their pending change */
__CPROVER_ensures(IMP(__CPROVER_return_value == 0,
	   CUR->read_change == ((IN.events & (EV_READ|EV_SIGNAL)) ? NEWBYTE : CL_O_R)
	&& CUR->write_change == ((IN.events & EV_WRITE) ? NEWBYTE : CL_O_W)
	&& CUR->close_change == ((IN.events & EV_CLOSED) ? NEWBYTE : CL_O_C)))
/* 6 C05: the conditions registered after applying the change grow by exactly the added ones */
__CPROVER_ensures(IMP(__CPROVER_return_value == 0, DESIRED(CUR) == (DESIRED4(CL_O_OLD, CL_O_R, CL_O_W, CL_O_C)
	| ((IN.events & (EV_READ|EV_SIGNAL)) ? EV_READ : 0) | (IN.events & (EV_WRITE|EV_CLOSED)))))
/* 7 C06 call-site conditions are preserved: no ADD+DEL byte, no delete of a condition absent from old_events */
__CPROVER_ensures(IMP(__CPROVER_return_value == 0, POSSIBLE(CUR) && DELOK(CUR)))
/* 8 every other entry is carried over unchanged (witness w), also across a growth */
__CPROVER_ensures(IMP(__CPROVER_return_value == 0 && IN.cl.w < IN.cl.n_changes && IN.cl.w != CL_IDX,
	C05_CHS[IN.cl.w].fd == IN.cl.efd[IN.cl.w] && C05_CHS[IN.cl.w].old_events == IN.cl.eold[IN.cl.w] && C05_CHS[IN.cl.w].read_change == IN.cl.er[IN.cl.w]
	&& C05_CHS[IN.cl.w].write_change == IN.cl.ew[IN.cl.w] && C05_CHS[IN.cl.w].close_change == IN.cl.ec[IN.cl.w]))
/* 9 growth only when needed, to at least 64 entries */
__CPROVER_ensures(IMP(!CL_GROW_NEEDED, g_mm_realloc_calls == 0 && BASE.changelist.changes == C05_OLDCH && BASE.changelist.changes_size == IN.cl.changes_size))
__CPROVER_ensures(IMP(CL_GROW_NEEDED && CL_GROW_OK, BASE.changelist.changes == NEWCH && BASE.changelist.changes_size == 64
	&& g_mm_realloc_sz == 64 * sizeof(struct event_change)))
;

void harness(void)
{
	int r;
	VF_LOAD_IN();
	c05_build_cl();
	VF_MM_RESET();
	r = VF_CALL(cl_add_c, event_changelist_add_, &BASE, IN.fd, IN.old, IN.events, (void *)&FDI);
	(void)r;
#ifdef VF_CANARY
	__CPROVER_assert(BASE.changelist.n_changes == IN.cl.n_changes, "canary: must fail (some adds append an entry)");
#endif
}
