/* C32 — evws_send_binary / evws_send (real ws.c), make_ws_frame replaced by its contract
 * (enforced in c32_make_ws_frame): for every packet_len the output buffer of the connection's
 * bufferevent receives one BINARY frame (0x82, minimal length form, unmasked) carrying exactly
 * (packet_data, packet_len), written with the bufferevent lock held, lock released after. */
#include "vf.h"
#include "ws.c"
struct in { size_t len; };
struct in IN;
#include "stubs/log.h"
#include "stubs/c31_ws_rec.h"
#include "c31_ws_contracts.h"
static unsigned char MSG[4];
static struct evws_connection WS;

VF_CONTRACT_V(send_binary_c, struct evws_connection *evws, const char *packet_data, size_t packet_len)
__CPROVER_requires(evws == &WS && WS.bufev == &BEV)
__CPROVER_requires(g_nadd == 0 && g_bev_lock == 0 && g_bev_lock_calls == 0 && g_add_locked == 0)
__CPROVER_assigns(g_nadd, g_add_buf0, g_add_buf1, g_hdr, g_hdrlen, g_pay_ptr, g_pay_len, g_add_locked, g_bev_lock, g_bev_lock_calls)
__CPROVER_ensures(g_nadd == 2 && g_add_buf0 == &EVB[1] && g_add_buf1 == &EVB[1])
__CPROVER_ensures(g_hdr[0] == 0x82 && (g_hdr[1] & 0x80) == 0)
__CPROVER_ensures(g_pay_ptr == (const void *)packet_data && g_pay_len == packet_len)
__CPROVER_ensures(IMP(packet_len <= 125, g_hdrlen == 2 && g_hdr[1] == packet_len))
__CPROVER_ensures(IMP(packet_len > 125 && packet_len <= 65535, g_hdrlen == 4 && g_hdr[1] == 126 && g_hdr[2] == (packet_len >> 8) && g_hdr[3] == (packet_len & 0xff)))
__CPROVER_ensures(IMP(packet_len > 65535, g_hdrlen == 10 && g_hdr[1] == 127 && g_hdr[2] == WS_BE64(packet_len, 0) && g_hdr[5] == WS_BE64(packet_len, 3) && g_hdr[8] == WS_BE64(packet_len, 6) && g_hdr[9] == WS_BE64(packet_len, 7)))
__CPROVER_ensures(g_bev_lock == 0 && g_bev_lock_calls == 1 && g_add_locked == 2)
;

void harness(void)
{
	VF_LOAD_IN();
	g_nadd = 0; g_add_buf0 = g_add_buf1 = 0; g_hdrlen = 0; g_pay_ptr = 0; g_pay_len = 0; g_add_locked = 0;
	g_bev_lock = 0; g_bev_lock_calls = 0;
	WS.bufev = &BEV; WS.closed = false;
	VF_CALL_V(send_binary_c, evws_send_binary, &WS, (const char *)MSG, IN.len);
#ifdef VF_CANARY
	__CPROVER_assert(!(g_hdrlen == 4 && g_hdr[2] == 0xff && g_hdr[3] == 0xff), "canary: must fail (length 65535 uses the 16-bit form ff ff)");
#endif
}
