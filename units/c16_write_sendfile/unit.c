/* C16 — evbuffer_write_atmost when the first chain is a sendfile chain (evbuffer_write_sendfile): same harness and contract as unit
 * c16_write.  Fails on write_c postcondition 4 ("never more than requested"): see the candidate defect described there. */
#define C16_SENDFILE
#include "../c16_write/unit.c"
