/* C12 — evbuffer_free_trailing_empty_chains (real buffer.c; evbuffer_free_all_chains and evbuffer_chains_all_empty inline)
 * against free_trailing_c, the contract by which the two-buffer units replace it. */
#define VF_NLOCKS 2
#include "vf.h"
#include "stubs/c12a_mem.h"
#include "buffer.c"
struct eb_in;
#include "stubs/lock.h"
#include "c12a_shape.h"
struct in { struct eb_in b; unsigned ch[VF_NCHOICE]; };
struct in IN;
#include "stubs/log.h"
#include "stubs/c12a_mm.h"
#include "c12a_contracts.h"

void harness(void)
{
	struct evbuffer_chain **r; int L;
	VF_LOAD_IN();
	c12a_build(&IN.b);
	VF_INSTALL_LOCKS(); C12A_RESET();
	L = vf_lwd_index(&C12A_S);
	C12A_SNAPSHOT();
	r = VF_CALL(free_trailing_c, evbuffer_free_trailing_empty_chains, &BUF);
	__CPROVER_assert(*r == NULL, "the returned link is the (cut) end of the list");
	__CPROVER_assert(BUF.last_with_datap == O_BUF.last_with_datap && BUF.total_len == O_BUF.total_len, "last_with_datap and total_len untouched");
	/* with buf->last fixed up the way every caller does, the representation invariant holds again */
	BUF.last = (L < 0) ? NULL : &CH[L];
	__CPROVER_assert(c12a_binv(&BUF), "BInv after free_trailing_empty_chains + the caller's fix-up of buf->last");
#ifdef VF_CANARY
	__CPROVER_assert(g_freed == 0, "canary: must fail (trailing empty chains are freed)");
#endif
}
