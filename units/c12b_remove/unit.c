/* C12/C13/C14/C08 — evbuffer_remove (real buffer.c, with the real evbuffer_copyout_from and evbuffer_drain
 * inlined), CONTENT unit on every shape of <= 3 chains x <= 4 bytes.  Byte-string model: returns
 * n = min(datlen, length), the output holds the first n bytes, the buffer afterwards holds exactly the rest.
 * evbuffer_chain_free and evbuffer_invoke_callbacks_ are replaced by call-recording contracts. */
#define VF_NLOCKS 1
#include "vf.h"
#include "buffer.c"
struct eb_in;
#include "stubs/lock.h"
#include "evbuffer_shape.h"
#include "c12b_content_in.h"
#define OUTCAP (VF_CT_MLEN + 1)
struct outbuf { unsigned char b[OUTCAP]; };
struct in { struct eb_in b; struct ct_in d; size_t datlen; struct outbuf out0; size_t w; unsigned ch[VF_NCHOICE]; };
struct in IN;
#include "stubs/log.h"
#include "stubs/mm.h"
#include "c12b_content.h"

static struct outbuf OUTB;
#define OUT (OUTB.b)
int g_freed, g_freed_mask, g_cbcalls;
size_t O_ndel, O_nadd;
struct evbuffer_chain *O_first;

VF_CONTRACT_V(chain_free_c, struct evbuffer_chain *chain)
__CPROVER_requires(VF_IS_CH(chain) && chain->refcnt > 0)
__CPROVER_requires(!CHAIN_PINNED_R(chain))
__CPROVER_assigns(g_freed, g_freed_mask)
__CPROVER_ensures(g_freed == __CPROVER_old(g_freed) + 1)
__CPROVER_ensures(g_freed_mask == (__CPROVER_old(g_freed_mask) | (chain == &CH[0] ? 1 : chain == &CH[1] ? 2 : 4)))
;
VF_CONTRACT_V(invoke_cb_c, struct evbuffer *buffer)
__CPROVER_requires(buffer == &BUF)
__CPROVER_requires(IMP(BUF.lock != NULL, g_lock_depth[1] >= 1))
__CPROVER_assigns(g_cbcalls)
__CPROVER_ensures(g_cbcalls == __CPROVER_old(g_cbcalls) + 1)
;

#define NREM (datlen < M_len ? datlen : M_len)
VF_CONTRACT(int, remove_c, struct evbuffer *buf, void *data_out, size_t datlen)
__CPROVER_requires(buf == &BUF && data_out == OUT && g_lock_depth[1] == 0 && g_freed == 0 && g_freed_mask == 0 && g_cbcalls == 0)
__CPROVER_requires(M_len == BUF.total_len && O_ndel == BUF.n_del_for_cb && O_nadd == BUF.n_add_for_cb && O_first == BUF.first)
__CPROVER_assigns(g_lock_depth[1], g_lock_ops, g_freed, g_freed_mask, g_cbcalls, __CPROVER_object_whole(&OUTB), __CPROVER_object_whole(buf), __CPROVER_object_whole(&CH[0]), __CPROVER_object_whole(&CH[1]), __CPROVER_object_whole(&CH[2]))
/* 1 C08 */
__CPROVER_ensures(g_lock_depth[1] == 0)
/* 2 returned length is the model's; a non-empty removal from a buffer whose front is frozen is refused */
__CPROVER_ensures(IMP(NREM == 0, __CPROVER_return_value == 0))
__CPROVER_ensures(IMP(NREM != 0 && BUF.freeze_start, __CPROVER_return_value == -1))
__CPROVER_ensures(IMP(NREM != 0 && !BUF.freeze_start, __CPROVER_return_value == (int)NREM))
/* 5 C14: nothing removed (empty request / refused) => buffer, counters untouched, no callback */
__CPROVER_ensures(IMP(__CPROVER_return_value <= 0, buf->total_len == M_len && buf->first == O_first && buf->n_del_for_cb == O_ndel && buf->n_add_for_cb == O_nadd && g_freed == 0 && g_cbcalls == 0))
/* 6 C12/C13: exactly the copied bytes leave the front, accounted once, callbacks told once */
__CPROVER_ensures(IMP(__CPROVER_return_value > 0, buf->total_len == M_len - NREM && buf->n_del_for_cb == O_ndel + NREM && buf->n_add_for_cb == O_nadd && g_cbcalls == 1))
;

void harness(void)
{
	int r; unsigned i; size_t n;
	VF_LOAD_IN();
	vf_ct_build(&IN.b, &IN.d);
	vf_ct_model(&IN.b);
	VF_INSTALL_LOCKS(); VF_MM_RESET();
	g_freed = 0; g_freed_mask = 0; g_cbcalls = 0;
	OUTB = IN.out0;   /* struct copy: no harness loop to unwind */
	O_ndel = BUF.n_del_for_cb; O_nadd = BUF.n_add_for_cb; O_first = BUF.first;
	r = VF_CALL(remove_c, evbuffer_remove, &BUF, OUT, IN.datlen);
	n = r > 0 ? (size_t)r : 0;
	__CPROVER_assume(IN.w < OUTCAP);
	__CPROVER_assert(IMP(IN.w < n, OUT[IN.w] == M[IN.w]), "C12: byte w of the output is byte w of the byte string");
	__CPROVER_assert(IMP(IN.w >= n, OUT[IN.w] == IN.out0.b[IN.w]), "C12/C14: output beyond the returned length (all of it on failure) is untouched");
	/* what is left in the buffer is exactly the rest of the byte string, in order */
	__CPROVER_assert(IMP(IN.w < M_len - n, vf_ct_byte_now(IN.w) == M[n + IN.w]), "C12: remaining byte w is byte n+w of the old byte string");
	if (BUF.first == NULL) __CPROVER_assert(vf_binv_idx(&BUF, 0, 0), "BInv after remove (emptied)");
	else {
		__CPROVER_assert(VF_IS_CH(BUF.first), "first chain after remove is a chain of the buffer");
		__CPROVER_assert(vf_binv_idx(&BUF, BUF.first == &CH[0] ? 0 : BUF.first == &CH[1] ? 1 : 2, IN.b.nch), "BInv after remove");
		__CPROVER_assert(!(g_freed_mask & (BUF.first == &CH[0] ? 1 : BUF.first == &CH[1] ? 2 : 4)), "first chain after remove was not freed");
	}
#ifdef VF_CANARY
	__CPROVER_assert(g_freed == 0, "canary: must fail (some removals free chains)");
#endif
}
