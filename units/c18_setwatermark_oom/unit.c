/* candidate defect (not part of C18's quantifier, which has no fault sequences): bufferevent_setwatermark
 * under allocation failure — same unit as c18_setwatermark with evbuffer_add_cb allowed to return NULL. */
#include "../c18_setwatermark/unit.c"
