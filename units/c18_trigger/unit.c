/* C18/C19/C08 — bufferevent_trigger_nolock_ (bufferevent-internal.h, compiled into the real bufferevent.c) with
 * bufferevent_run_readcb_/run_writecb_/bufferevent_inbuf_wm_check/bufferevent_trigger inlined.  PLAIN assert-harness: the nest is
 * recursive (trigger_nolock_ -> run_readcb_ -> inbuf_wm_check -> bufferevent_trigger -> trigger_nolock_), which dfcc forbids, and
 * replacing the inner call by a contract is unsound-in-effect here (a bit-field in the assigns clause of a REPLACED contract is not
 * havocked by CBMC 6.11, the ensures then prunes paths).  The frame is checked by comparing the untouched fields with IN.
 * C18: the read callback is run (or made pending) only when the input holds >= low-read-watermark bytes or
 * BEV_TRIG_IGNORE_WATERMARKS is given; the write callback only when the output is <= the low write watermark.
 * C19: deferred (option of the bufferevent or of the call) => the pending bit is set and the deferred callback is
 * scheduled, nothing is called; immediate => exactly one direct call, read before write, with the lock held;
 * a reference is taken iff the deferred callback was newly queued; a NULL callback is never called.
 * The user callbacks may change lengths / watermarks / enabled (IN.mutates); the exact-count clauses are stated
 * for non-mutating callbacks, the "only when" clauses for all. */
#include "c18_bev_unit.h"

#define IGN(o) (((o) & BEV_TRIG_IGNORE_WATERMARKS) != 0)
#define DEFER(o) ((((int)BEVP.options | (o)) & BEV_OPT_DEFER_CALLBACKS) != 0)
size_t O_len_in, O_len_out, O_low_r, O_low_w, O_high_r; short O_enabled; int O_rp, O_wp, O_refcnt, O_queued;
#define R_(io, o) (((io) & EV_READ) && (IGN(o) || O_len_in >= O_low_r) && BEV->readcb != NULL)
#define W_(io, o) (((io) & EV_WRITE) && (IGN(o) || O_len_out <= O_low_w) && BEV->writecb != NULL)
/* after a direct read callback: still at/over a non-zero high mark with reading enabled => run it again, deferred */
#define WMC_ (O_high_r != 0 && (O_enabled & EV_READ) && O_len_in >= O_high_r && O_len_in >= O_low_r)
#define NOMUT (g_e.user_mutates == 0)

/* the contract of bufferevent_trigger_nolock_(BEV, iotype, options), checked after the call */
static void trigger_post(short iotype, int options)
{
	/* 1 number and order of direct calls */
	__CPROVER_assert(IMP(NOMUT, g_e.nseq == B(R_(iotype, options) && !DEFER(options)) + B(W_(iotype, options) && !DEFER(options))), "trigger_c.postcondition.1");
	__CPROVER_assert(IMP(NOMUT && R_(iotype, options) && !DEFER(options), g_e.rd.n == 1 && g_e.rd.at == 1), "trigger_c.postcondition.2");
	__CPROVER_assert(IMP(NOMUT && W_(iotype, options) && !DEFER(options), g_e.wr.n == 1 && g_e.wr.at == g_e.nseq), "trigger_c.postcondition.3");
	/* 4 pending bits */
	__CPROVER_assert(IMP(NOMUT, BEVP.readcb_pending == B(O_rp || (R_(iotype, options) && (DEFER(options) || WMC_)))), "trigger_c.postcondition.4");
	__CPROVER_assert(IMP(NOMUT, BEVP.writecb_pending == B(O_wp || (W_(iotype, options) && DEFER(options)))), "trigger_c.postcondition.5");
	/* 6 one schedule per pending bit set; a reference is taken iff the deferred callback was newly queued */
	__CPROVER_assert(IMP(NOMUT, g_e.sched_calls == B(R_(iotype, options) && (DEFER(options) || WMC_)) + B(W_(iotype, options) && DEFER(options))), "trigger_c.postcondition.6");
	__CPROVER_assert(g_e.sched_new == B(g_e.sched_calls > 0 && !O_queued) && BEVP.refcnt == O_refcnt + g_e.sched_new, "trigger_c.postcondition.7");
	/* 8 C18 "only when", for arbitrary user callbacks: a pending bit that was newly set by the trigger itself */
	__CPROVER_assert(IMP(!O_wp && BEVP.writecb_pending, (iotype & EV_WRITE) && BEV->writecb != NULL), "trigger_c.postcondition.8");
	__CPROVER_assert(IMP(!O_rp && BEVP.readcb_pending, (iotype & EV_READ) && (IGN(options) || O_len_in >= O_low_r) && BEV->readcb != NULL), "trigger_c.postcondition.9");
	/* 10 C08 */
	__CPROVER_assert(g_lock_depth[1] == B(BEVP.lock != NULL), "trigger_c.postcondition.10");
}

void harness(void)
{
	VF_LOAD_IN();
	vf_bev_build();
	__CPROVER_assume(IN.refcnt >= 1 && IN.refcnt <= (1 << 24));   /* the caller holds a reference ("Requires that we hold the lock and a reference") */
	if (BEVP.lock) g_lock_depth[1] = 1;                             /* … and the lock */
	O_len_in = IN.len_in; O_len_out = IN.len_out; O_low_r = IN.low_r; O_low_w = IN.low_w; O_high_r = IN.high_r; O_enabled = IN.enabled;
	O_rp = IN.rp & 1; O_wp = IN.wp & 1; O_refcnt = IN.refcnt; O_queued = IN.queued & 1;
	bufferevent_trigger_nolock_(BEV, IN.iotype, IN.options);
	trigger_post(IN.iotype, IN.options);
	__CPROVER_assert(g_e.nseq <= 2 && g_e.rd.n <= 1 && g_e.wr.n <= 1 && g_e.nev == 0 && g_e.nseq == g_e.rd.n + g_e.wr.n, "at most one read and one write callback, no event callback from a data trigger");
	/* C18, whatever the callbacks do to the buffers: every direct call was justified by the state at the moment of the call */
	if (g_e.rd.n) {
		__CPROVER_assert((IN.iotype & EV_READ) && (IGN(IN.options) || g_e.rd.len_in >= g_e.rd.low_r), "read callback runs only when at least the low read watermark is buffered (or watermarks are ignored)");
		__CPROVER_assert(g_e.rd.arg_ok && g_e.rd.lockdepth == HELD(1) && g_e.rd.refcnt >= 1, "read callback gets the user's argument, runs with the lock held once and a live reference");
	}
	if (g_e.wr.n) {
		__CPROVER_assert((IN.iotype & EV_WRITE) && (IGN(IN.options) || g_e.wr.len_out <= g_e.wr.low_w), "write callback runs only when the output is at or below the low write watermark (or watermarks are ignored)");
		__CPROVER_assert(g_e.wr.arg_ok && g_e.wr.lockdepth == HELD(1) && g_e.wr.refcnt >= 1, "write callback gets the user's argument, runs with the lock held once and a live reference");
	}
	if (g_e.nseq) __CPROVER_assert(!DEFER(IN.options), "no direct call when callbacks are deferred");
	if (g_e.nseq == 2) __CPROVER_assert(g_e.rd.at == 1 && g_e.wr.at == 2, "read callback before write callback");
	__CPROVER_assert(BEVP.eventcb_pending == IN.ep && BEVP.errno_pending == IN.errp, "pending events untouched");
	__CPROVER_assert(BEVP.read_suspended == IN.rs && BEVP.write_suspended == IN.ws && BEV->wm_write.low == IN.low_w && BEV->wm_write.high == IN.high_w && BEVP.connecting == (IN.connecting & 1), "frame: suspend words, write marks, connecting untouched");
	if (NOMUT) __CPROVER_assert(BEV->enabled == IN.enabled && BEV->wm_read.low == IN.low_r && BEV->wm_read.high == IN.high_r && g_e.len_in == IN.len_in && g_e.len_out == IN.len_out, "frame: enabled, read marks, lengths untouched by the library itself");
	__CPROVER_assert(g_e.en_calls == 0 && g_e.dis_calls == 0 && g_e.fin_calls == 0, "no enable/disable op, no finalization");
#ifdef VF_CANARY
	__CPROVER_assert(g_e.nseq == 0, "canary: must fail (immediate callbacks are called)");
#endif
}
