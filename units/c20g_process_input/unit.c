/* C20/C18/C17 — be_filter_process_input (real bufferevent_filter.c), the INPUT side of a filtering bufferevent:
 *  C18  in BEV_NORMAL mode the user's input filter is not called while reading is disabled or the filter's own input is at/over its
 *       high read watermark; every call carries dst_limit = high - len(input) > 0 recomputed per call (-1 without a mark and in
 *       flush/finish mode), so a filter that honours its limit never takes the input past the mark; the loop continues exactly while
 *       the filter says OK, reading is enabled, underlying input is left and the mark is not reached;
 *  C17  the filter is handed the underlying input as source and the filter's input as destination; nothing else moves bytes;
 *       *processed_out is set iff some call returned BEV_OK; the result is the last filter result;
 *  C20  the generic read timeout is restarted (BEV_RESET_GENERIC_READ_TIMEOUT: event_add(ev_read, timeout_read) iff a timeout is set)
 *       exactly when the filter reported a successful transfer (BEV_OK), after the last call — never when the filter only said
 *       NEED_MORE/ERROR, never on the early-return path.
 * BOUNDED: the loop is driven by the user filter; at most VF_MAXCALLS filter calls are considered (stub assumption).  Plain harness. */
#include "c20g_filter_in.h"
void harness(void)
{
	enum bufferevent_filter_result res; int processed, p0;
	VF_LOAD_IN();
	vf_filter_build();
	if (IN.locking) { g_lock_depth[1] = 1; g_f.want_lockdepth = 1; }              /* every caller holds the lock (be_filter_flush, be_filter_readcb, inbuf_cb) */
	p0 = processed = IN.processed0 ? 1 : 0;
	res = be_filter_process_input(&F, (enum bufferevent_flush_mode)IN.state, &processed);
	PI_POST(IN.state, p0, processed, 1, res);
	__CPROVER_assert(g_f.rcb == 0 && g_f.setf == 0 && g_f.clrf == 0, "process_input itself runs no callback and does not touch the input-buffer callback");
	__CPROVER_assert(VF_FLOCKDEPTH() == g_f.want_lockdepth, "C08 lock depth unchanged");
#ifdef VF_CANARY
	__CPROVER_assert(g_f.calls < VF_MAXCALLS, "canary: must fail (the filter can be called VF_MAXCALLS times)");
#endif
}
