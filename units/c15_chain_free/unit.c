/* C15/C10 — evbuffer_chain_free (real buffer.c) on ONE chain of every kind (plain, REFERENCE, FILESEGMENT[+SENDFILE],
 * MULTICAST with its parent chain PC[par] in the source buffer SRC), every refcnt, pinned or not.
 * The recursive call evbuffer_chain_free(info->parent) is covered by the same contract (--enforce-contract-rec);
 * evbuffer_file_segment_free and evbuffer_decref_and_unlock_ are replaced by their contracts (units c15_seg_free, c15_decref).
 * The reference cleanup callback is the logging stub c15_cleanup_cb; event_mm_free_ records releases (stubs/c15_mm.h). */
#define VF_NLOCKS 3
#define VF_NCHOICE 8
#define C15_FLAGMASK (EVBUFFER_FILESEGMENT | EVBUFFER_SENDFILE | EVBUFFER_REFERENCE | EVBUFFER_IMMUTABLE | EVBUFFER_MULTICAST | EVBUFFER_MEM_PINNED_R | EVBUFFER_MEM_PINNED_W | EVBUFFER_DANGLING)
#include "vf.h"
#include "stubs/c15_sys_redirect.h"
#include "buffer.c"
#include "stubs/lock.h"
struct c15_bin;
#include "c15_shape.h"
struct in { struct c15_bin b, s; int seg_refcnt; unsigned seg_has_cb, seg_flags, seg_has_lock, samelock, src_locked; unsigned ch[VF_NCHOICE]; };
struct in IN;
#include "stubs/log.h"
#include "stubs/c15_mm.h"
#include "stubs/c15_sys.h"
#include "c15_contracts.h"

void harness(void)
{
	struct evbuffer_chain *chain = &XC[0].c;
	unsigned F; int R, k;
	VF_LOAD_IN();
	VF_INSTALL_LOCKS(); C15_RESET(); C15_SYS_RESET();
	c15_build(&IN.b, 0, 0);
	c15_build(&IN.s, 1, IN.samelock & 1);
	__CPROVER_assume(IN.b.nch >= 1);
	/* the segment a FILESEGMENT chain refers to */
	__CPROVER_assume(IN.seg_refcnt >= 1 && IN.seg_refcnt <= 1000);
	SEG.refcnt = IN.seg_refcnt; SEG.flags = IN.seg_flags & 0xf; SEG.lock = (IN.seg_has_lock & 1) ? VF_LOCK_COOKIE(3) : NULL;
	SEG.cleanup_cb = (IN.seg_has_cb & 1) ? c15_seg_cleanup_cb : NULL; SEG.cleanup_cb_arg = &COOKIE[7];
	SEG.is_mapping = 0; SEG.contents = NULL; SEG.mapping = NULL; SEG.fd = 5; SEG.length = 0; SEG.file_offset = 0;
	/* the caller of evbuffer_chain_free may or may not hold the source buffer's lock (locks are recursive) */
	if ((IN.src_locked & 1) && SRC.lock) g_lock_depth[C15_LOCKIDX(&SRC)] = 1;
#ifdef C15_NO_MC
	__CPROVER_assume(!(chain->flags & EVBUFFER_MULTICAST));
#endif
#ifdef C15_ONLY_MC
	__CPROVER_assume(chain->flags & EVBUFFER_MULTICAST);
#endif
	F = chain->flags; R = chain->refcnt;
	C15_SNAPSHOT();
#ifdef C15_LITE
	VF_CALL_V(chain_free_lite_c, evbuffer_chain_free, chain);
#else
	VF_CALL_V(chain_free_c, evbuffer_chain_free, chain);
#endif
	/* C15: a reference's cleanup callback runs exactly once, when the last reference goes and the chain is not pinned */
	if ((F & EVBUFFER_REFERENCE) && (IN.b.has_cleanup[0] & 1)) {
		__CPROVER_assert(IFF(R == 1 && !(F & EVBUFFER_MEM_PINNED_ANY), m_cl.n == 1 && m_cl.mask == 1u), "reference chain: cleanup callback called exactly once with the chain's (buffer, buffer_len, extra), iff the last reference went and the chain is not pinned");
		__CPROVER_assert(R == 1 && !(F & EVBUFFER_MEM_PINNED_ANY) ? 1 : m_cl.n == 0, "reference chain still referenced or pinned: cleanup callback not called");
	}
	if (!(F & (EVBUFFER_REFERENCE | EVBUFFER_MULTICAST))) __CPROVER_assert(m_cl.n == 0, "no reference cleanup callback for chains that are not references");
	/* exactly-once release of the chain's memory */
	__CPROVER_assert(IFF(R == 1 && !(F & EVBUFFER_MEM_PINNED_ANY), (m_al.sfreed & 1u) != 0), "chain memory released iff last reference and not pinned");
	__CPROVER_assert(m_al.heap_frees == 0 && m_al.n == 0, "nothing allocated, nothing else freed");
	for (k = 1; k < 3; k++) __CPROVER_assert(C15_CH_SAME(XC[k].c, O_XC[k].c) && !(m_al.sfreed & (1u << k)), "other chains of the buffer untouched");
	__CPROVER_assert(BUF.refcnt == O_BUF.refcnt && BUF.first == O_BUF.first && BUF.total_len == O_BUF.total_len, "the owning buffer is not touched by evbuffer_chain_free");
	__CPROVER_assert(m_sc.bad == 0 && m_sys.bad == 0 && m_lk.bad_free == 0 && m_cl.twice == 0, "no callback with wrong arguments, no bad munmap, no held lock freed");
	if ((IN.src_locked & 1) && SRC.lock && !(m_al.sfreed & (1u << 10))) __CPROVER_assert(g_lock_depth[C15_LOCKIDX(&O_SRC)] == 1, "source buffer lock balance");
#ifdef VF_CANARY
	__CPROVER_assert(m_cl.n == 0, "canary: must fail (some frees run the cleanup callback)");
#endif
}
