/* C28 — the setters evhttp_uri_set_scheme / _userinfo / _host / _path / _query / _fragment / _port (real http.c,
 * with the real scheme_ok, userinfo_ok, regname_ok, bracket_addr_ok, end_of_path): each accepts exactly the class
 * the parser accepts for that component (the RFC 3986 class of contracts/c28_ref.h, which unit c28_parse shows to
 * be the parser's), for every C string of <= VF_N characters over : / ? # [ ] @ % a v 1 . + = ~ SPACE, NULL
 * included, flags NONCONFORMANT / HOST_STRIP_BRACKETS on or off, the field previously unset or set:
 *   S1 returns 0 iff the value is NULL or in the class, else -1 and the field keeps its previous value
 *   S2 on success the field is a fresh copy of the value (NULL clears it), the previous value is freed;
 *      an IP-literal host loses its brackets iff HOST_STRIP_BRACKETS (and HAS_BRACKETS is set / cleared)
 *   S3 port: accepted iff -1 <= port <= 65535 (what the parser can produce)
 * KNOWN-FINDING hook: P_PORT = "port > 65535".  On the unchanged tree S3 FAILS for it (evhttp_uri_set_port only
 * rejects port < -1; join then emits a port the parser refuses).  -DVF_KF_EXCLUDE assumes !P_PORT. */
#ifndef VF_N
#define VF_N 4
#endif
#define VF_L VF_N
#define VF_C28_MMCAP (VF_L + 1)
#define VF_C28_MEMCAP 12
#define VF_MM_NOFAIL 1
#include "vf.h"
#include "http.c"
struct in { unsigned char s[VF_N]; unsigned n; int is_null; unsigned flags; int which; int port; int preset; };
struct in IN;
#include "stubs/log.h"
#include "stubs/c28_ctype.h"
#define VF_C28_WANT_MEMCPY
#define VF_C28_WANT_STRCHR
#include "stubs/c28_libc_ref.h"
#include "stubs/c28_mm.h"
#include "stubs/c28_inet.h"
/* set_host with HOST_STRIP_BRACKETS uses mm_realloc/free directly */
void *event_mm_realloc_(void *p, size_t sz) { void *q; if (p) event_mm_free_(p); q = event_mm_malloc_(sz); return q; }

static const char ALPHA16[16] = { ':', '/', '?', '#', '[', ']', '@', '%', 'a', 'v', '1', '.', '+', '=', '~', ' ' };
static char S[VF_L + 1];
static unsigned slen;
#include "c28_ref.h"
static struct evhttp_uri U;

static int is_copy(const char *p, unsigned off, unsigned len)
{
	unsigned k;
	if (p == NULL || p == S) return 0;
	for (k = 0; k < VF_L; k++) { if (k >= len) break; if (p[k] != S[off + k]) return 0; }
	return p[len] == '\0';
}

void harness(void)
{
	int r = 0, ok = 0, nc; unsigned k; char *old = NULL, **field = NULL; const char *val;
	VF_LOAD_IN(); VF_MM_RESET();
	__CPROVER_assume(IN.n <= VF_N && IN.which >= 0 && IN.which <= 6);
	IN.flags &= (EVHTTP_URI_NONCONFORMANT | EVHTTP_URI_HOST_STRIP_BRACKETS);
	nc = (IN.flags & EVHTTP_URI_NONCONFORMANT) != 0;
	for (k = 0; k < VF_N; k++) S[k] = k < IN.n ? ALPHA16[IN.s[k] & 15u] : '\0';
	S[VF_N] = '\0'; slen = IN.n;
	val = IN.is_null ? NULL : S;
	/* a host set earlier may have been a bracketed IP literal: the internal flag can be set at entry */
	U.flags = IN.flags | ((IN.preset & 2) ? _EVHTTP_URI_HOST_HAS_BRACKETS : 0); U.scheme = U.userinfo = U.host = U.unixsocket = U.path = U.query = U.fragment = NULL; U.port = 7;
#ifdef VF_KF_EXCLUDE
	__CPROVER_assume(!(IN.which == 6 && IN.port > 65535));
#endif
	switch (IN.which) {
	case 0: field = &U.scheme; ok = r_scheme_ok(0, slen); break;
	case 1: field = &U.userinfo; ok = r_span_ok(0, slen, R_USERINFO); break;
	case 2: field = &U.host; ok = (slen > 0 && S[0] == '[') ? r_bracket_ok(0, slen) : r_span_ok(0, slen, R_REGNAME); break;
	case 3: field = &U.path; ok = nc ? (r_first_of(0, '?', '#', 0) == slen) : r_span_ok(0, slen, R_PATH); break;
	case 4: field = &U.query; ok = nc ? (r_first_of(0, '#', 0, 0) == slen) : r_span_ok(0, slen, R_QUERY); break;
	case 5: field = &U.fragment; ok = nc ? 1 : r_span_ok(0, slen, R_QUERY); break;
	default: break;
	}
	if (IN.which == 6) {
		r = evhttp_uri_set_port(&U, IN.port);
		__CPROVER_assert(IFF(r == 0, IN.port >= -1 && IN.port <= 65535), "S3: port accepted iff -1 <= port <= 65535 (the parser's range)");
		__CPROVER_assert(r == 0 || r == -1, "S1: returns 0 or -1");
		__CPROVER_assert(U.port == (r == 0 ? IN.port : 7), "S3: stored on success, unchanged on failure");
		return;
	}
	if (IN.preset) { *field = mm_strdup("a"); old = *field; }
	switch (IN.which) {
	case 0: r = evhttp_uri_set_scheme(&U, val); break;
	case 1: r = evhttp_uri_set_userinfo(&U, val); break;
	case 2: r = evhttp_uri_set_host(&U, val); break;
	case 3: r = evhttp_uri_set_path(&U, val); break;
	case 4: r = evhttp_uri_set_query(&U, val); break;
	default: r = evhttp_uri_set_fragment(&U, val); break;
	}
	__CPROVER_assert(r == 0 || r == -1, "S1: returns 0 or -1");
	__CPROVER_assert(IFF(r == 0, val == NULL || ok), "S1: accepted iff NULL or in the component's RFC 3986 class (= what the parser accepts)");
	if (r != 0) {
		__CPROVER_assert(*field == old && g_mm_live == (IN.preset ? 1 : 0), "S1: on rejection the field keeps its previous value");
	} else if (val == NULL) {
		__CPROVER_assert(*field == NULL && g_mm_live == 0, "S2: NULL clears the field and frees the previous value");
	} else {
		if (IN.which == 2 && slen > 0 && S[0] == '[' && (IN.flags & EVHTTP_URI_HOST_STRIP_BRACKETS)) {
			__CPROVER_assert(is_copy(U.host, 1, slen - 2), "S2: IP-literal host stored without brackets (HOST_STRIP_BRACKETS)");
			__CPROVER_assert(U.flags & _EVHTTP_URI_HOST_HAS_BRACKETS, "S2: HAS_BRACKETS set");
		} else {
			__CPROVER_assert(is_copy(*field, 0, slen), "S2: the field is a fresh copy of the value");
			if (IN.which == 2) __CPROVER_assert(!(U.flags & _EVHTTP_URI_HOST_HAS_BRACKETS), "S2: HAS_BRACKETS cleared");
		}
		__CPROVER_assert(g_mm_live == 1, "S2: the previous value is freed, only the new copy is live");
	}
#ifdef VF_CANARY
	__CPROVER_assert(!(r == 0 && IN.which == 2 && slen == 4 && S[0] == '['), "canary: must fail (\"[::]\" is an acceptable host)");
#endif
}
