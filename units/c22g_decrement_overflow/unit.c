/* KF witness — public bufferevent_decrement_read_limit without the "level - decr representable" precondition: `limit -= decr` overflows
 * for a full bucket of burst EV_RATE_LIMIT_MAX and a manual refill (decr < 0); see contracts/c22g_decrement_unit.h (C22G_NO_RANGE) */
#define C22G_WRITE 0
#include "c22g_decrement_unit.h"
