/* C31 — get_ws_frame (real ws.c): the RFC 6455 section 5.2 base-frame parser.
 * For EVERY buffer of buf_len <= VF_WS_CAP = 2^40 bytes (the largest frame the library accepts
 * is 10 MiB + 14) (any content; the buffer is an object of EXACTLY buf_len
 * bytes, so a read or write past in_buffer[buf_len-1] is out of bounds):
 *   - INCOMPLETE_DATA iff the buffer is shorter than header (+mask) + payload, and then nothing
 *     at all is written (not the buffer, not the out parameters);
 *   - 64-bit length above the 10 MiB limit: ERROR_FRAME as soon as the 10 header bytes are there;
 *   - otherwise *payload_ptr - in_buffer == 2/4/10 (+4 when masked), *out_len == the 7/16/64-bit
 *     big-endian length, every payload byte (ghost witness index IN.a, any position) is
 *     old ^ mask[k % 4] when masked and unchanged when not, every byte outside the payload is
 *     unchanged; result ERROR_FRAME for reserved opcodes 3-7, 0xB-0xF, INCOMPLETE_FRAME (0x81)
 *     for !FIN with opcode 0/1/2, else the opcode.
 * The unmask loop is closed by a loop contract (loops.json); the constant 8-iteration length
 * loop is unwound before --dfcc ("unwindset"). */
#ifndef VF_WS_CAP
#define VF_WS_CAP ((size_t)1 << 40)
#endif
#include "vf.h"
#include "ws.c"
#include "stubs/log.h"

struct in {
	size_t buf_len;            /* <= VF_WS_CAP */
	unsigned char hdr[14];     /* first bytes of the buffer (as many as fit) */
	size_t a;                  /* ghost witness: absolute index of one byte of the buffer */
	unsigned char ab;          /* its value (when a >= 14) */
};
struct in IN;

unsigned char *BUF;   /* the buffer object: exactly IN.buf_len bytes (malloc of symbolic size; content nondeterministic) */
unsigned char *g_payload; size_t g_outlen;
/* pre-state snapshots (harness), never assigned by the function */
unsigned char O_h[14]; unsigned char O_ab; size_t O_a; unsigned char *O_payload; size_t O_outlen;

/* ---- RFC 6455 5.2 reference decode of the header, over the PRE-state bytes O_h ---- */
#define WS_LIMIT ((ev_uint64_t)10485760)
#define R_FIN    ((O_h[0] >> 7) & 1)
#define R_OP     (O_h[0] & 0x0f)
#define R_MASKED ((O_h[1] >> 7) & 1)
#define R_LF     (O_h[1] & 0x7f)
#define R_HDR    ((size_t)(R_LF <= 125 ? 2 : R_LF == 126 ? 4 : 10))      /* without the mask */
#define R_LEN16  (((ev_uint64_t)O_h[2] << 8) | O_h[3])
#define R_LEN64  (((ev_uint64_t)O_h[2] << 56) | ((ev_uint64_t)O_h[3] << 48) | ((ev_uint64_t)O_h[4] << 40) | ((ev_uint64_t)O_h[5] << 32) | \
                  ((ev_uint64_t)O_h[6] << 24) | ((ev_uint64_t)O_h[7] << 16) | ((ev_uint64_t)O_h[8] << 8) | (ev_uint64_t)O_h[9])
#define R_PLEN   (R_LF <= 125 ? (ev_uint64_t)R_LF : R_LF == 126 ? R_LEN16 : R_LEN64)
#define R_PSTART (R_HDR + (R_MASKED ? 4u : 0u))
#define R_SHORTHDR(n) ((n) < 2 || (n) < R_HDR)
#define R_OVER   (R_LF == 127 && R_LEN64 > WS_LIMIT)
#define R_SHORT(n) (R_SHORTHDR(n) || (!R_OVER && (ev_uint64_t)(n) < R_PSTART + R_PLEN))
#define R_TOOBIG(n) (!R_SHORTHDR(n) && R_OVER)
#define R_FULL(n)  (!R_SHORT(n) && !R_TOOBIG(n))
#define R_RESERVED ((R_OP >= 3 && R_OP <= 7) || R_OP >= 0xb)
#define R_MASKBYTE(k) (O_h[R_HDR + ((k) & 3)])
#define R_IN_PAYLOAD(a) ((a) >= R_PSTART && (ev_uint64_t)(a) < R_PSTART + R_PLEN)

VF_CONTRACT(enum WebSocketFrameType, get_ws_frame_c, unsigned char *in_buffer, size_t buf_len, unsigned char **payload_ptr, size_t *out_len)
__CPROVER_requires(buf_len <= VF_WS_CAP && buf_len == IN.buf_len)
__CPROVER_requires(in_buffer == BUF)
__CPROVER_requires(__CPROVER_pointer_equals(payload_ptr, &g_payload) && __CPROVER_pointer_equals(out_len, &g_outlen))
__CPROVER_assigns(*payload_ptr, *out_len, __CPROVER_object_whole(in_buffer))
/* 1 incomplete data iff shorter than header + mask + payload */
__CPROVER_ensures(IFF(__CPROVER_return_value == INCOMPLETE_DATA, R_SHORT(buf_len)))
/* 2 ... and then nothing is written */
__CPROVER_ensures(IMP(R_SHORT(buf_len), g_payload == O_payload && g_outlen == O_outlen))
__CPROVER_ensures(IMP(R_SHORT(buf_len) && O_a < buf_len, in_buffer[O_a] == O_ab))
/* 4 frames above the size limit */
__CPROVER_ensures(IMP(R_TOOBIG(buf_len), __CPROVER_return_value == ERROR_FRAME && g_payload == in_buffer + 10 && g_outlen == 0))
__CPROVER_ensures(IMP(R_TOOBIG(buf_len) && O_a < buf_len, in_buffer[O_a] == O_ab))
/* 6 header length and payload length */
__CPROVER_ensures(IMP(R_FULL(buf_len), g_payload == in_buffer + R_PSTART))
__CPROVER_ensures(IMP(R_FULL(buf_len), (ev_uint64_t)g_outlen == R_PLEN))
/* 8 payload byte k: old ^ mask[k%4] when masked, unchanged otherwise; nothing else written */
__CPROVER_ensures(IMP(R_FULL(buf_len) && O_a < buf_len && R_IN_PAYLOAD(O_a) && R_MASKED, in_buffer[O_a] == (unsigned char)(O_ab ^ R_MASKBYTE(O_a - R_PSTART))))
__CPROVER_ensures(IMP(R_FULL(buf_len) && O_a < buf_len && !(R_IN_PAYLOAD(O_a) && R_MASKED), in_buffer[O_a] == O_ab))
/* 10 result type */
__CPROVER_ensures(IMP(R_FULL(buf_len) && R_RESERVED, __CPROVER_return_value == ERROR_FRAME))
__CPROVER_ensures(IMP(R_FULL(buf_len) && !R_RESERVED && !R_FIN && R_OP <= 2, __CPROVER_return_value == INCOMPLETE_FRAME))
__CPROVER_ensures(IMP(R_FULL(buf_len) && !R_RESERVED && !(!R_FIN && R_OP <= 2), (int)__CPROVER_return_value == (int)R_OP))
;

void harness(void)
{
	enum WebSocketFrameType r; unsigned char *buf; int j;
	VF_LOAD_IN();
	__CPROVER_assume(IN.buf_len <= VF_WS_CAP);
#ifdef VF_NATIVE
	/* natively: zeros except header and witness byte; at most 16 MiB + 16 are allocated (the function never
	 * looks beyond one maximal frame of 10 MiB + 14) */
	buf = BUF = calloc(IN.buf_len == 0 ? 1 : IN.buf_len < ((size_t)1 << 24) + 16 ? IN.buf_len : ((size_t)1 << 24) + 16, 1);
	if (IN.a >= ((size_t)1 << 24) + 16) IN.a = IN.buf_len;   /* witness outside the native allocation: drop it */
#else
	buf = BUF = malloc(IN.buf_len);
	__CPROVER_assume(buf != NULL);
#endif
	for (j = 0; j < 14; j++) { if ((size_t)j < IN.buf_len) buf[j] = IN.hdr[j]; O_h[j] = (size_t)j < IN.buf_len ? buf[j] : 0; }
	O_a = IN.a;
	if (IN.a < IN.buf_len) { if (IN.a >= 14) buf[IN.a] = IN.ab; O_ab = buf[IN.a]; } else O_ab = 0;
	g_payload = O_payload = (unsigned char *)0; g_outlen = O_outlen = 12345;
	r = VF_CALL(get_ws_frame_c, get_ws_frame, buf, IN.buf_len, &g_payload, &g_outlen);
#ifdef VF_CANARY
	__CPROVER_assert(!(r == BINARY_FRAME && g_outlen == 65536 && IN.buf_len == 65536 + 14 && IN.a == 65536 + 14 - 1 && buf[65536 + 14 - 1] != O_ab), "canary: must fail (a masked 64 KiB binary frame whose last byte changes is possible)");
#endif
	(void)r;
}
