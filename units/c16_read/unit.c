/* C16/C14/C13/C08 — evbuffer_read (real buffer.c) on every buffer of <= 3 chains of every kind, every howmuch / max_read,
 * ioctl(FIONREAD) / read / readv = models that fail with any errno or deliver any count in [0, bytes asked for].
 * Inline (real): get_n_bytes_readable_on_socket, evbuffer_expand_fast_, evbuffer_read_setup_vecs_, evbuffer_chain_insert_new,
 * evbuffer_chain_insert, evbuffer_free_trailing_empty_chains, evbuffer_free_all_chains, ZERO_CHAIN.
 * Replaced by contracts: evbuffer_chain_new_membuf, evbuffer_chain_free, evbuffer_invoke_callbacks_.
 * Compiled WITHOUT libevent's assertions (NDEBUG, as shipped): see the report for what EVUTIL_ASSERT would say at howmuch == 0. */
#define VF_NLOCKS 3
#define VF_NCHOICE 12
#include "vf.h"
#include "stubs/c15_sys_redirect.h"
#include "buffer.c"
#include "stubs/lock.h"
struct c15_bin;
#include "c15_shape.h"
struct in { struct c15_bin b, s; int fd, howmuch; int seg_refcnt; unsigned ch[VF_NCHOICE]; };
struct in IN;
#include "stubs/log.h"
#include "stubs/c15_mm.h"
#include "stubs/c15_sys.h"
#include "c15_contracts.h"
#include "c15_io_contracts.h"

#define RV __CPROVER_return_value
/* how much evbuffer_read may ask the kernel for: FIONREAD's answer n, replaced by max_read when it failed, is <= 0 or exceeds
 * max_read; then the caller's howmuch if that is smaller (negative: no limit of the caller's) */
#define RD_N ((m_io.ioctl_ret < 0 || m_io.ioctl_n <= 0 || m_io.ioctl_n > (int)O_BUF.max_read) ? (int)O_BUF.max_read : m_io.ioctl_n)
#define RD_ASK ((IN.howmuch < 0 || IN.howmuch > RD_N) ? RD_N : IN.howmuch)
VF_CONTRACT(int, read_c, struct evbuffer *buf, evutil_socket_t fd, int howmuch)
__CPROVER_requires(buf == &BUF && howmuch == IN.howmuch && fd == IN.fd)
__CPROVER_requires(g_lock_depth[1] == 0 && g_lock_depth[2] == 0 && g_lock_depth[3] == 0 && m_al.n == 0 && m_al.fail == 0 && m_al.frees == 0 && m_al.heap_frees == 0 && m_al.sfreed == 0 && m_al.hfreed == 0 && m_cl.n == 0 && m_cl.mask == 0 && g_cbs.n[0] == 0 && m_io.calls == 0 && m_io.ioctl_calls == 0)
__CPROVER_assigns(errno, vf_nchoice_, __CPROVER_object_whole(g_lock_depth), g_lock_ops, m_new[0], m_new[1], m_new[2], m_st, g_cbs, m_io, m_io_base[0], m_io_base[1], m_io_base[2], m_io_base[3],
	__CPROVER_object_whole(&BUF), __CPROVER_object_whole(&XC[0]), __CPROVER_object_whole(&XC[1]), __CPROVER_object_whole(&XC[2]),
	__CPROVER_object_whole(&SRC), __CPROVER_object_whole(&PC[0]), __CPROVER_object_whole(&PC[1]), __CPROVER_object_whole(&PC[2]), __CPROVER_object_whole(&SEG))
/* 1 C08 */
__CPROVER_ensures(g_lock_depth[1] == 0 && g_lock_depth[2] == 0 && g_lock_depth[3] == 0)
/* 2 a frozen end refuses before anything is asked of the kernel and leaves everything as it was */
__CPROVER_ensures(IMP(O_BUF.freeze_end, RV == -1 && m_io.calls == 0 && m_io.ioctl_calls == 0 && C15_BUF_SAME(BUF, O_BUF) && C15_ALLXC_SAME() && m_al.n == 0 && m_al.frees == 0 && g_cbs.n[0] == 0))
/* 3 otherwise FIONREAD is asked once, and at most one read/readv is issued, on the caller's fd; none iff making room failed */
__CPROVER_ensures(IMP(!O_BUF.freeze_end, m_io.ioctl_calls == 1 && m_io.calls <= 1 && IFF(m_io.calls == 0, m_al.fail > 0)))
__CPROVER_ensures(IMP(m_io.calls == 1, m_io.fd == fd && (m_io.kind == C15_IO_READ || m_io.kind == C15_IO_READV)))
/* 5 C16 "never more than requested": the vectors add up to exactly the clamped request: <= max_read, <= howmuch when the caller gave one */
__CPROVER_ensures(IMP(m_io.calls == 1, m_io.total == (size_t)RD_ASK && m_io.total <= O_BUF.max_read && IMP(howmuch >= 0, m_io.total <= (size_t)howmuch)))
/* 6 the result is the kernel's: -1 error, 0 end of file, n bytes */
__CPROVER_ensures(IMP(m_io.calls == 1, RV == (int)m_io.ret) && IMP(m_io.calls == 0, RV == -1))
/* 7 C16 "appends exactly the bytes the read returned": n > 0 => exactly n bytes longer, accounted once, callbacks told once with these counters */
__CPROVER_ensures(IMP(RV > 0, BUF.total_len == O_BUF.total_len + (size_t)RV && g_cbs.n[0] == 1 && g_cbs.total[0] == O_BUF.total_len + (size_t)RV && g_cbs.nadd[0] == O_BUF.n_add_for_cb + (size_t)RV && g_cbs.ndel[0] == O_BUF.n_del_for_cb))
/* 8 C16 "after a failed call the buffer is unchanged" (also end of file): lengths and counters as before, no callback */
__CPROVER_ensures(IMP(RV <= 0, BUF.total_len == O_BUF.total_len && BUF.n_add_for_cb == O_BUF.n_add_for_cb && BUF.n_del_for_cb == O_BUF.n_del_for_cb && g_cbs.n[0] == 0))
/* 9 nothing else of the buffer header changes */
__CPROVER_ensures(BUF.lock == O_BUF.lock && BUF.freeze_start == O_BUF.freeze_start && BUF.freeze_end == O_BUF.freeze_end && BUF.refcnt == O_BUF.refcnt && BUF.callbacks.lh_first == O_BUF.callbacks.lh_first && BUF.flags == O_BUF.flags && BUF.max_read == O_BUF.max_read)
;

void harness(void)
{
	int r, k, first_k = -1; unsigned i; size_t rem; struct evbuffer_chain *c, *prev = NULL;
	VF_LOAD_IN();
	VF_INSTALL_LOCKS(); C15_RESET(); C15_SYS_RESET();
	c15_build(&IN.b, 0, 0);
	{ unsigned i_; for (i_ = 0; i_ < C15_MAXCH; i_++) __CPROVER_assume(!(IN.b.flags[i_] & EVBUFFER_MULTICAST)); }   /* multicast chains in the buffer: the *_mc variant of this unit (chain_free_c) */
	__CPROVER_assume(IN.seg_refcnt >= 1 && IN.seg_refcnt <= 1000);
	SEG.refcnt = IN.seg_refcnt; SEG.flags = 0; SEG.lock = NULL; SEG.cleanup_cb = NULL; SEG.cleanup_cb_arg = NULL;
	SEG.is_mapping = 0; SEG.contents = NULL; SEG.mapping = NULL; SEG.fd = 5; SEG.length = 0; SEG.file_offset = 0;
	{ int nfs = 0; unsigned i_; for (i_ = 0; i_ < C15_MAXCH; i_++) if (i_ < IN.b.nch && (IN.b.flags[i_] & EVBUFFER_FILESEGMENT)) nfs++; __CPROVER_assume(IN.seg_refcnt >= nfs); }   /* one reference per file-segment chain */
	C15_SNAPSHOT();
	r = VF_CALL(read_c, evbuffer_read, &BUF, IN.fd, IN.howmuch);
	/* the representation invariant holds after every outcome (also when making room failed half-way) */
	__CPROVER_assert(c15_binv(&BUF, m_al.sfreed), "BInv after read: links, last, windows, total_len == sum off, last_with_datap canonical, no released chain in the list");
	/* old chains: only empty ones are dropped; data already in the buffer is not moved or overwritten (off only grows) */
	for (i = 0; i < C15_MAXCH; i++) {
		if (i >= IN.b.nch) break;
		if (m_al.sfreed & (1u << i)) __CPROVER_assert(O_XC[i].c.off == 0, "only empty chains are dropped");
		else {
			__CPROVER_assert(XC[i].c.off >= O_XC[i].c.off && XC[i].c.buffer == O_XC[i].c.buffer && XC[i].c.buffer_len == O_XC[i].c.buffer_len && XC[i].c.flags == O_XC[i].c.flags, "surviving chains keep their bytes and kind");
			__CPROVER_assert(IMP(O_XC[i].c.off != 0, XC[i].c.misalign == O_XC[i].c.misalign), "data already in the buffer is not moved");
			__CPROVER_assert(IMP(O_XC[i].c.flags & EVBUFFER_IMMUTABLE, XC[i].c.off == O_XC[i].c.off && XC[i].c.misalign == O_XC[i].c.misalign), "C15: immutable chains (references, file segments, multicast) are never appended to");
			__CPROVER_assert(IMP(r <= 0, XC[i].c.off == O_XC[i].c.off), "failed call / end of file: no chain grew");
		}
	}
	if (m_io.calls == 1) {
		/* C16: the vectors lie in the FREE space of consecutive, live, mutable chains of the buffer, each starting directly
		 * behind its chain's data, in chain order; the bytes delivered are committed front to back */
		rem = r > 0 ? (size_t)r : 0;
		for (k = 0; k < C15_IO_MAXV; k++) {
			int code; size_t before, grown;
			if (k >= m_io.nvec) break;
			code = c15_data_code(m_io_base[k]);
			__CPROVER_assert((code >= 0 && code <= 2) || (code >= 6 && code <= 8), "vector points into the data area of a chain of this buffer");
			if (!((code >= 0 && code <= 2) || (code >= 6 && code <= 8))) break;
			c = c15_chain(code);
			__CPROVER_assert(!(code <= 2 && (m_al.sfreed & (1u << code))) && !(c->flags & EVBUFFER_IMMUTABLE), "vector's chain is live and mutable");
			__CPROVER_assert(k == 0 || prev->next == c, "vectors follow the chain order, without gaps");
			grown = rem < m_io.len[k] ? rem : m_io.len[k];
			before = code <= 2 ? O_XC[code].c.off : 0;
			__CPROVER_assert(C15_DOFF(m_io_base[k], code) == (size_t)c->misalign + before, "vector starts directly behind the chain's data");
			__CPROVER_assert(m_io.len[k] <= c->buffer_len - ((size_t)c->misalign + before), "vector ends inside the chain's buffer");
			__CPROVER_assert(k == m_io.nvec - 1 || m_io.len[k] == c->buffer_len - ((size_t)c->misalign + before), "only the last vector is shorter than its chain's free space");
			__CPROVER_assert(c->off == before + grown, "bytes are committed into the vectors' chains front to back: this chain grew by exactly its share");
			rem -= grown; prev = c;
		}
		__CPROVER_assert(rem == 0, "every delivered byte is committed");
		__CPROVER_assert(IMP(m_io.kind == C15_IO_READ, m_io.nvec == 1), "read() is used for a single vector");
	}
	__CPROVER_assert(m_cl.twice == 0, "no foreign cleanup callback");
#ifdef VF_CANARY
	__CPROVER_assert(r <= 0 || m_io.nvec < 2, "canary: must fail (a read can span two chains)");
#endif
}
