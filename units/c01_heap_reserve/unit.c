/* C01 — min_heap_reserve_ (real minheap-internal.h through the real event.c and its real
 * event_mm_realloc_): enough capacity already: nothing happens; otherwise the array is reallocated to
 * max(2*a or 8, n) slots; on ENOMEM -1 and the heap is untouched; on success the elements (and so
 * the top) are preserved.  The user allocator hook mm_realloc_fn_ is a stub over a static array that
 * may fail (choice stream) and checks the requested size.  Bounded: capacity <= 32 slots, <= 4 live
 * elements copied. */
#include "vf.h"
#include "event.c"
#include "stubs/lock.h"
#include "stubs/log.h"
struct in { size_t n, a, want; unsigned ch[VF_NCHOICE]; };
struct in IN;
static struct event EV, HEV[2];
#define C01_PLAIN
#include "c02_event_contracts.h"
#include "c01_timer_contracts.h"
static struct event *OLDP[32]; static struct event *NEWP[64];
static struct event E_0, E_1, E_2, E_3;
static struct event *const EP[4] = { &E_0, &E_1, &E_2, &E_3 };
int g_reallocs; size_t g_realloc_sz; int g_realloc_failed;
static void *my_realloc(void *p, size_t sz)
{
	unsigned i;
	g_reallocs++; g_realloc_sz = sz;
	__CPROVER_assert(p == (IN.a ? (void *)OLDP : NULL), "realloc: of the heap's current array (NULL for a fresh heap)");
	__CPROVER_assert(sz <= sizeof NEWP, "realloc: size within the bound of this harness");
	if (VF_CHOOSE() & 1) { g_realloc_failed = 1; return NULL; }
	for (i = 0; i < 4; i++) { if (i < IN.n) NEWP[i] = OLDP[i]; }          /* realloc preserves the old contents */
	return NEWP;
}
void harness(void)
{
	min_heap_t H; int r; unsigned i; size_t expect;
	VF_LOAD_IN();
	mm_malloc_fn_ = NULL; mm_free_fn_ = NULL; mm_realloc_fn_ = my_realloc;
	g_reallocs = 0; g_realloc_failed = 0; g_realloc_sz = 0;
	__CPROVER_assume(IN.a <= 32 && IN.n <= IN.a && IN.n <= 4 && IN.want <= IN.n + 1);          /* event_add_nolock_ asks for size+1 */
	for (i = 0; i < 4; i++) OLDP[i] = (i < IN.n) ? EP[i] : NULL;
	H.p = IN.a ? OLDP : NULL; H.n = IN.n; H.a = IN.a;
	r = min_heap_reserve_(&H, IN.want);
	g_reserve_ret = r; g_reserve_calls = 1;
	expect = IN.a ? IN.a * 2 : 8; if (expect < IN.want) expect = IN.want;
	if (IN.a >= IN.want) __CPROVER_assert(r == 0 && g_reallocs == 0 && H.a == IN.a && H.p == (IN.a ? OLDP : NULL), "enough room: no reallocation, nothing changes");
	else {
		__CPROVER_assert(g_reallocs == 1 && g_realloc_sz == expect * sizeof(struct event *), "grows to max(2*a or 8, n) slots, one realloc");
		__CPROVER_assert(r == (g_realloc_failed ? -1 : 0), "-1 exactly when the allocator failed");
		if (r == -1) __CPROVER_assert(H.a == IN.a && H.p == (IN.a ? OLDP : NULL) && H.n == IN.n, "ENOMEM: heap untouched");
		else { __CPROVER_assert(H.a == expect && H.p == NEWP && H.n == IN.n, "success: new capacity recorded");
			for (i = 0; i < 4; i++) { if (i < IN.n) __CPROVER_assert(H.p[i] == EP[i], "success: elements (and the top) preserved"); } }
	}
	/* caller-view postcondition used by c02_add_nolock (same text as heap_reserve_c's ensures) */
	__CPROVER_assert((r == 0 || r == -1) && IMP(r == 0, H.a >= IN.want && H.a >= IN.a) && IMP(r == -1, H.a == IN.a), "caller-view postcondition: may fail, never shrinks, reserves what was asked");
#ifdef VF_CANARY
	__CPROVER_assert(r == 0, "canary: must fail (the allocator can fail)");
#endif
}
