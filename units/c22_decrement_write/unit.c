/* C22/C08 — bufferevent_decrement_write_buckets_ (real bufferevent_ratelim.c); see contracts/c22_decrement_unit.h */
#define C22_DEC_WRITE 1
#include "c22_decrement_unit.h"
