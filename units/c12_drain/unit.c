/* C12/C13/C14/C08 — evbuffer_drain (real buffer.c) on every shape of <= 3 chains.
 * Callees evbuffer_chain_free and evbuffer_invoke_callbacks_ are replaced by contracts. */
#define VF_NLOCKS 1
#include "vf.h"
#include "buffer.c"
struct eb_in;
#include "stubs/lock.h"
#include "evbuffer_shape.h"
struct in { struct eb_in b; size_t len; unsigned ch[VF_NCHOICE]; };
struct in IN;
#include "stubs/log.h"
#include "stubs/mm.h"

int g_freed, g_freed_mask, g_cb;
size_t O_total, O_ndel, O_nadd;     /* pre-state snapshots taken by the harness (constant across the call: not in any assigns clause) */
struct evbuffer_chain *O_first;

VF_CONTRACT_V(chain_free_c, struct evbuffer_chain *chain)
__CPROVER_requires(VF_IS_CH(chain) && chain->refcnt > 0)
__CPROVER_requires(!CHAIN_PINNED_R(chain))               /* drain never frees a read-pinned chain */
__CPROVER_assigns(g_freed, g_freed_mask)
__CPROVER_ensures(g_freed == __CPROVER_old(g_freed) + 1)
__CPROVER_ensures(g_freed_mask == (__CPROVER_old(g_freed_mask) | (1 << (chain - &CH[0]))))
;
VF_CONTRACT_V(invoke_cb_c, struct evbuffer *buffer)
__CPROVER_requires(buffer == &BUF)
__CPROVER_requires(IMP(BUF.lock != NULL, g_lock_depth[1] >= 1))   /* callbacks are invoked with the buffer locked */
__CPROVER_assigns(g_cb)
__CPROVER_ensures(g_cb == __CPROVER_old(g_cb) + 1)
;

#define MINZ(a, b) ((a) < (b) ? (a) : (b))
VF_CONTRACT(int, drain_c, struct evbuffer *buf, size_t len)
__CPROVER_requires(buf == &BUF && g_lock_depth[1] == 0 && g_freed == 0 && g_freed_mask == 0 && g_cb == 0)
__CPROVER_assigns(g_lock_depth[1], g_lock_ops, g_freed, g_freed_mask, g_cb, __CPROVER_object_whole(buf), __CPROVER_object_whole(&CH[0]), __CPROVER_object_whole(&CH[1]), __CPROVER_object_whole(&CH[2]))
/* 1 C08: lock released */
__CPROVER_ensures(g_lock_depth[1] == 0)
__CPROVER_ensures(__CPROVER_return_value == 0 || __CPROVER_return_value == -1)
/* 3 C14: refused (front frozen, non-empty) => nothing changed */
__CPROVER_ensures(IFF(__CPROVER_return_value == -1, BUF.freeze_start && O_total != 0))
__CPROVER_ensures(IMP(__CPROVER_return_value == -1, buf->total_len == O_total && buf->first == O_first && buf->n_del_for_cb == O_ndel && g_freed == 0 && g_cb == 0))
/* 5 C12: exactly min(len,total) bytes leave the front */
__CPROVER_ensures(IMP(__CPROVER_return_value == 0, buf->total_len == O_total - MINZ(len, O_total)))
/* 6 C13: the removal is accounted exactly once, additions untouched, callbacks told iff something was removed */
__CPROVER_ensures(IMP(__CPROVER_return_value == 0, buf->n_del_for_cb == O_ndel + (O_total - buf->total_len) && buf->n_add_for_cb == O_nadd))
__CPROVER_ensures(IMP(__CPROVER_return_value == 0, g_cb == (O_total != 0 ? 1 : 0)))
;

void harness(void)
{
	int r;
	VF_LOAD_IN();
	vf_build_buf(&IN.b);
	VF_INSTALL_LOCKS(); VF_MM_RESET();
	g_freed = 0; g_freed_mask = 0; g_cb = 0;
	O_total = BUF.total_len; O_ndel = BUF.n_del_for_cb; O_nadd = BUF.n_add_for_cb; O_first = BUF.first;
	r = VF_CALL(drain_c, evbuffer_drain, &BUF, IN.len);
	/* C12 representation invariant on the chains still in the list, and "freed chains are not in the list" */
	if (r == 0 && BUF.first == NULL) __CPROVER_assert(vf_binv_idx(&BUF, 0, 0), "BInv after drain (emptied)");
	if (r == 0 && BUF.first != NULL) {
		__CPROVER_assert(VF_IS_CH(BUF.first), "first chain after drain is a chain of the buffer");
		__CPROVER_assert(vf_binv_idx(&BUF, (unsigned)(BUF.first - &CH[0]), IN.b.nch), "BInv after drain: links, total_len == sum off, last_with_datap is the last chain with data");
		__CPROVER_assert(!(g_freed_mask & (1 << (BUF.first - &CH[0]))), "first chain after drain was not freed");
	}
	if (r == 0 && O_total != 0 && IN.len >= O_total)
		__CPROVER_assert(BUF.total_len == 0, "draining everything empties the buffer");
#ifdef VF_CANARY
	__CPROVER_assert(g_freed == 0, "canary: must fail (some drains free chains)");
#endif
}
