/* C18/C08 — bufferevent_setwatermark (real bufferevent.c): low/high stored per direction; the input-buffer
 * watermark callback is installed and enabled (ENABLED|NODEFER) iff the new read high mark is non-zero and
 * disabled otherwise; reading is suspended/unsuspended IMMEDIATELY against the current input length, for the
 * watermark reason only (callees bufferevent_suspend_read_/unsuspend_read_ inlined).
 * With -DVF_C18_ADDCB_MAY_FAIL (unit c18_setwatermark_oom) evbuffer_add_cb may return NULL as the real one does
 * when mm_calloc fails. */
#include "c18_bev_unit.h"

#define RD(ev) (((ev) & EV_READ) != 0)
#define WR(ev) (((ev) & EV_WRITE) != 0)
VF_CONTRACT_V(setwm_c, struct bufferevent *bufev, short events, size_t lowmark, size_t highmark)
__CPROVER_requires(bufev == BEV)
__CPROVER_requires(g_e.en_calls == 0 && g_e.dis_calls == 0 && g_e.addcb_calls == 0 && g_e.setflags_calls == 0 && g_e.clearflags_calls == 0 && g_lock_depth[1] == 0)
__CPROVER_requires(IMP(BEVP.read_watermarks_cb != NULL, BEVP.read_watermarks_cb == &WMCB))
__CPROVER_assigns(BEV->wm_read.low, BEV->wm_read.high, BEV->wm_write.low, BEV->wm_write.high, BEVP.read_suspended, BEVP.read_watermarks_cb, WMCB.flags, WMCB.cbarg, WMCB.cb, BEV_GHOST_FRAME)
/* 1-2 the marks are stored for exactly the named directions */
__CPROVER_ensures(BEV->wm_write.low == (WR(events) ? lowmark : __CPROVER_old(BEV->wm_write.low)) && BEV->wm_write.high == (WR(events) ? highmark : __CPROVER_old(BEV->wm_write.high)))
__CPROVER_ensures(BEV->wm_read.low == (RD(events) ? lowmark : __CPROVER_old(BEV->wm_read.low)) && BEV->wm_read.high == (RD(events) ? highmark : __CPROVER_old(BEV->wm_read.high)))
/* 3 a call that does not name EV_READ leaves the read machinery alone */
__CPROVER_ensures(IMP(!RD(events), BEVP.read_suspended == __CPROVER_old(BEVP.read_suspended) && BEVP.read_watermarks_cb == __CPROVER_old(BEVP.read_watermarks_cb) && WMCB.flags == __CPROVER_old(WMCB.flags) && g_e.en_calls == 0 && g_e.dis_calls == 0 && g_e.addcb_calls == 0))
/* 4 non-zero high mark: callback installed (once) on the input buffer with this bufferevent as argument, enabled, not deferred */
__CPROVER_ensures(IMP(RD(events) && highmark != 0, BEVP.read_watermarks_cb == &WMCB && (WMCB.flags & (EVBUFFER_CB_ENABLED|EVBUFFER_CB_NODEFER)) == (EVBUFFER_CB_ENABLED|EVBUFFER_CB_NODEFER)))
__CPROVER_ensures(IMP(RD(events) && highmark != 0, g_e.addcb_calls == B(__CPROVER_old(BEVP.read_watermarks_cb) == NULL) && IMP(g_e.addcb_calls == 1, g_e.addcb_ok)))
/* 6 zero high mark: callback (if any) disabled, none installed */
__CPROVER_ensures(IMP(RD(events) && highmark == 0, g_e.addcb_calls == 0 && BEVP.read_watermarks_cb == __CPROVER_old(BEVP.read_watermarks_cb) && IMP(BEVP.read_watermarks_cb != NULL, (WMCB.flags & EVBUFFER_CB_ENABLED) == 0)))
/* 7 immediate effect against the current length: suspended for the watermark reason iff high != 0 and len >= high */
__CPROVER_ensures(IMP(RD(events), IFF(BEVP.read_suspended & BEV_SUSPEND_WM, highmark != 0 && g_e.len_in >= highmark)))
__CPROVER_ensures((BEVP.read_suspended & ~BEV_SUSPEND_WM) == (__CPROVER_old(BEVP.read_suspended) & ~BEV_SUSPEND_WM))
/* 9 the type's ops: disable exactly on 0 -> non-0, enable exactly when nothing is left and reading is enabled */
__CPROVER_ensures(IMP(RD(events), g_e.dis_calls == B(highmark != 0 && g_e.len_in >= highmark && __CPROVER_old(BEVP.read_suspended) == 0)))
__CPROVER_ensures(IMP(RD(events), g_e.en_calls == B(!(highmark != 0 && g_e.len_in >= highmark) && BEVP.read_suspended == 0 && (BEV->enabled & EV_READ))))
__CPROVER_ensures(IMP(g_e.dis_calls == 1, g_e.dis_what == EV_READ) && IMP(g_e.en_calls == 1, g_e.en_what == EV_READ))
/* 12 C08 */
__CPROVER_ensures(g_lock_depth[1] == 0)
;

void harness(void)
{
	VF_LOAD_IN();
	vf_bev_build();
	VF_CALL_V(setwm_c, bufferevent_setwatermark, BEV, IN.iotype, IN.a_low, IN.a_high);
	__CPROVER_assert(g_e.len_in == IN.len_in && BEV->enabled == IN.enabled && g_e.nseq == 0, "length, enabled set unchanged; no user callback run");
#ifdef VF_CANARY
	__CPROVER_assert(g_e.addcb_calls == 0, "canary: must fail (first non-zero high mark installs the callback)");
#endif
}
