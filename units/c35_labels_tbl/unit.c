/* C35 — dnsname_to_labels WITH a compression table (real evdns.c), plain assert-harness: dnslabel_table_get_pos and
 * dnslabel_table_add are replaced by stub bodies (stubs/c33_rename.h): the table content is an oracle (IN.gp_ret[]:
 * what the k-th lookup answers), every call is recorded; the real 128-entry table inlined makes a 13 M clause
 * instance (13 min), --dfcc with the loop unwound runs out of memory.  The real table functions are exercised
 * in c35_table.  Specification: reference encoder with the same oracle.  Buffer geometry as in
 * contracts/c35_labels_unit.h (window, right-aligned, so buf[buf_len] is outside the object).
 * Candidate defects selected by predicates (VF_KF_EXCLUDE / VF_KF_ONLY):
 *   P1 ends_exact  terminator written to buf[buf_len], buf_len+1 returned               (specification: -2)
 *   P2 invalid     empty label that is not a single trailing dot encoded as a 0 byte    (specification: < 0)
 *   P3 reg_high    dnslabel_table_add called with a position >= 0x4000 (14-bit pointers cannot express it; a
 *                  later lookup yields `pos | 0xc000`, a pointer to pos & 0x3fff)        (call-site obligation) */
#ifndef NAME_CAP
#define NAME_CAP 4
#endif
#define BUF_CAP (NAME_CAP + 4)
#ifndef LBL_HI_MAX
#define LBL_HI_MAX 2
#endif
#define VF_C33_MEMCAP (NAME_CAP + 1)
#include "vf.h"
#include "stubs/c33_mem.h"
#include "stubs/c33_rename.h"
#include <sys/types.h>
struct dnslabel_table;
static int dnslabel_table_get_pos_stub(const struct dnslabel_table *table, const char *label);
static int dnslabel_table_add_stub(struct dnslabel_table *table, const char *label, off_t pos);
#define dnslabel_table_get_pos dnslabel_table_get_pos_stub
#pragma push_macro("dnslabel_table_get_pos")
#undef dnslabel_table_get_pos
#define dnslabel_table_get_pos dnslabel_table_get_pos_real _Pragma("pop_macro(\"dnslabel_table_get_pos\")")
#define dnslabel_table_add dnslabel_table_add_stub
#pragma push_macro("dnslabel_table_add")
#undef dnslabel_table_add
#define dnslabel_table_add dnslabel_table_add_real _Pragma("pop_macro(\"dnslabel_table_add\")")
#include "evdns.c"
struct in {
	char name[NAME_CAP]; unsigned name_len;
	int hi; unsigned len_lo; unsigned d;
	unsigned buf_len; long j0;                /* derived by the harness */
	int gp_ret[NAME_CAP + 2];                 /* oracle: answer of the k-th table lookup */
	unsigned char buf0;
};
struct in IN;
#include "stubs/log.h"

static char NAME[NAME_CAP + 1];
static unsigned char BUF[BUF_CAP];
static struct dnslabel_table TBL;
#define WBASE ((long)IN.buf_len - BUF_CAP)
#define C35_LCAP (NAME_CAP + 2)
int g_gp_n; long g_gp_off[C35_LCAP];
int g_add_n; long g_add_off[C35_LCAP]; long g_add_pos[C35_LCAP];
/* lookup: answers from the oracle; the harness restricts the oracle to what a table satisfying its invariant can
 * answer (an EARLIER position that a 14-bit pointer can express; within one call a later, shorter suffix never equals
 * a suffix registered by this call) */
static int dnslabel_table_get_pos_stub(const struct dnslabel_table *table, const char *label)
{
	__CPROVER_assert(table == &TBL && g_gp_n >= 0 && g_gp_n < C35_LCAP, "get_pos: this table; oracle capacity");
	__CPROVER_assert(label >= NAME && label <= NAME + NAME_CAP, "get_pos: a suffix of the name");
	g_gp_off[g_gp_n] = label - NAME;
	return IN.gp_ret[g_gp_n++];
}
/* registration: call-site obligation O3 — the position must be expressible by a 14-bit compression pointer */
static int dnslabel_table_add_stub(struct dnslabel_table *table, const char *label, off_t pos)
{
	__CPROVER_assert(table == &TBL && g_add_n >= 0 && g_add_n < C35_LCAP, "table_add: this table; capacity");
	__CPROVER_assert(label >= NAME && label <= NAME + NAME_CAP, "table_add: a suffix of the name");
	__CPROVER_assert(pos >= 0 && pos <= 0x3fff, "every table position can be expressed by a 14-bit compression pointer");
	g_add_off[g_add_n] = label - NAME; g_add_pos[g_add_n] = pos; g_add_n++;
	return 0;
}

/* own strchr: constant-bound loop (the library model's loop would need a contract under --dfcc) */
char *strchr(const char *s, int c)
{
	int i;
	for (i = 0; i <= NAME_CAP; i++) { if (s[i] == (char)c) return (char *)s + i; if (!s[i]) return 0; }
	__CPROVER_assert(0, "strchr: strings of this unit are at most NAME_CAP long");
	return 0;
}

/* ---------------- reference encoder (specification side), same oracle ---------------- */
static unsigned char EXPB[BUF_CAP];
static int x_nlab, x_nlook, x_lab_off[NAME_CAP + 2]; static long x_lab_pos[NAME_CAP + 2];
static int x_invalid, x_ends_exact, x_reg_high, x_ptr; static long x_r;
static void xput(long j, unsigned v) { long k = j - WBASE; if (k >= 0 && k < BUF_CAP) EXPB[k] = (unsigned char)v; }
/* empty label that is not the last one, among the labels reached before the first table hit (room ignored) */
static int x_syn_invalid;
static void ref_syntax(void)
{
	int pos = 0, it, i;
	x_syn_invalid = 0;
	for (it = 0; it <= NAME_CAP + 1; it++) {
		int dot = -1;
		if (IN.gp_ret[it] >= 0) return;
		for (i = NAME_CAP - 1; i >= 0; i--) if (i >= pos && i < (int)IN.name_len && NAME[i] == '.') dot = i;
		if (dot < 0) return;
		if (dot == pos) { x_syn_invalid = 1; return; }
		pos = dot + 1;
	}
}
static long ref_encode(void)
{
	long j = IN.j0; int pos = 0, it, i, last_nonempty = 0;
	x_nlab = 0; x_nlook = 0; x_invalid = 0; x_ends_exact = 0; x_reg_high = 0; x_ptr = 0;
	for (it = 0; it <= NAME_CAP + 1; it++) {
		int dot = -1, L, ref = IN.gp_ret[x_nlook];
		x_lab_off[x_nlook] = pos; x_nlook++;
		if (ref >= 0) {                                   /* the remaining suffix occurred earlier: pointer to it */
			if (j + 2 > (long)IN.buf_len) return -2;
			xput(j, 0xc0 | (ref >> 8)); xput(j + 1, ref & 0xff); x_ptr = 1;
			return j + 2;
		}
		for (i = NAME_CAP - 1; i >= 0; i--) if (i >= pos && i < (int)IN.name_len && NAME[i] == '.') dot = i;
		L = (dot < 0 ? (int)IN.name_len : dot) - pos;
		if (L > 63) return -1;
		if (j + 1 + L > (long)IN.buf_len) return -2;
		if (L == 0 && dot >= 0) x_invalid = 1;
		if (j >= 0x4000) x_reg_high = 1;
		x_lab_pos[x_nlab] = j; x_nlab++;
		xput(j, (unsigned)L);
		for (i = 0; i < NAME_CAP; i++) { if (i >= L) break; xput(j + 1 + i, (unsigned char)NAME[pos + i]); }
		j += 1 + L;
		if (dot < 0) { last_nonempty = L > 0; break; }
		pos = dot + 1;
	}
	if (last_nonempty) {
		if (j + 1 > (long)IN.buf_len) { x_ends_exact = 1; return -2; }
		xput(j, 0); j++;
	}
	return j;
}

void harness(void)
{
	long r; int i, k; u8 *buf;
	VF_LOAD_IN(); g_mc_calls = 0; g_mc_bytes = 0; g_gp_n = 0; g_add_n = 0;
	__CPROVER_assume(IN.name_len <= NAME_CAP);
	for (i = 0; i < NAME_CAP; i++) { __CPROVER_assume(i >= (int)IN.name_len || IN.name[i] != 0); NAME[i] = i < (int)IN.name_len ? IN.name[i] : 0; }
	NAME[NAME_CAP] = 0;
	__CPROVER_assume(IN.hi >= 0 && IN.hi <= LBL_HI_MAX && IN.len_lo <= BUF_CAP && IN.d <= BUF_CAP + 2);
	IN.buf_len = (IN.hi == 0 ? 0u : IN.hi == 1 ? 0x4000u - 4u : 65536u - BUF_CAP) + IN.len_lo;
	IN.j0 = (long)IN.buf_len - BUF_CAP + (long)IN.d;
	__CPROVER_assume(IN.j0 >= 0);
	/* oracle = a table that satisfies its invariant: entries are earlier positions a 14-bit pointer can express */
	for (k = 0; k < NAME_CAP + 2; k++) __CPROVER_assume(IN.gp_ret[k] == -1 || (IN.gp_ret[k] >= 0 && IN.gp_ret[k] <= 0x3fff && IN.gp_ret[k] < IN.j0));
	TBL.n_labels = 0;
	for (i = 0; i < BUF_CAP; i++) { BUF[i] = IN.buf0; EXPB[i] = IN.buf0; }
	buf = BUF + (BUF_CAP - (long)IN.buf_len);
	x_r = ref_encode(); ref_syntax();
#ifdef VF_KF_P1_FIXED
#define KF_P1 0
#else
#define KF_P1 x_ends_exact
#endif
#ifdef VF_KF_P2_FIXED
#define KF_P2 0
#else
#define KF_P2 x_syn_invalid      /* a superset of the failing inputs: invalid names that also do not fit are refused (-2) already */
#endif
#ifdef VF_KF_P3_FIXED
#define KF_P3 0
#else
#define KF_P3 x_reg_high
#endif
#ifdef VF_KF_EXCLUDE
	__CPROVER_assume(!(KF_P1 || KF_P2 || KF_P3));
#endif
#ifdef VF_KF_ONLY
	__CPROVER_assume(KF_P1 || KF_P2 || KF_P3);
#endif

	r = dnsname_to_labels(buf, (size_t)IN.buf_len, (off_t)IN.j0, (const char *)NAME, (size_t)IN.name_len, &TBL);

	__CPROVER_assert(r == -1 || r == -2 || (r > IN.j0 && r <= (long)IN.buf_len), "returns -1, -2 or an index in (j0, buf_len]");
	__CPROVER_assert(IMP(!x_syn_invalid, IFF(x_r == -2, r == -2)), "-2 exactly when the encoding (terminator included) does not fit buf[0..buf_len)");
	__CPROVER_assert(IMP(!x_syn_invalid, IFF(x_r == -1, r == -1)), "-1 exactly when a label is longer than 63");
	__CPROVER_assert(IMP(x_syn_invalid, r < 0), "a name with an empty label that is not a single trailing dot is rejected, not encoded malformed");
	__CPROVER_assert(IMP(x_r >= 0 && !x_syn_invalid, r == x_r), "returns the first index after the encoded name");

	if (x_r >= 0 && !x_syn_invalid) {
		for (i = 0; i < BUF_CAP; i++) __CPROVER_assert(BUF[i] == EXPB[i], "output is exactly <len>label...<0> or ...<0xc000|position the table gave for the remaining suffix>; nothing else written");
		__CPROVER_assert(g_gp_n == x_nlook, "one table lookup per remaining suffix, stopping at the first hit");
		for (k = 0; k < NAME_CAP + 2; k++) { if (k >= x_nlook) break; __CPROVER_assert(g_gp_off[k] == x_lab_off[k], "the k-th lookup asks for the k-th suffix of the name"); }
		{ int m = 0;     /* registered: exactly the labels written at positions a 14-bit pointer can express, in order */
		  for (k = 0; k < NAME_CAP + 2; k++) { if (k >= x_nlab) break; if (x_lab_pos[k] > 0x3fff) continue;
			__CPROVER_assert(m < g_add_n && g_add_off[m] == x_lab_off[k] && g_add_pos[m] == x_lab_pos[k], "registration = (suffix of the name, position where that suffix is encoded)"); m++; }
		  __CPROVER_assert(g_add_n == m, "one registration per label written at a position <= 0x3fff, none else"); }
	}
	for (i = 0; i < BUF_CAP; i++) __CPROVER_assert(i + WBASE >= IN.j0 || BUF[i] == IN.buf0, "nothing written below j0");
#ifdef VF_CANARY
	__CPROVER_assert(!(r > 0 && x_ptr), "canary: must fail (a name can end in a compression pointer)");
#endif
}
