/* one entry point of the group in contracts/c10_finalize_unit.h (shared text; VF_WHICH selects it) */
#include "c10_finalize_unit.h"
