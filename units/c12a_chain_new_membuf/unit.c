/* C12/C14 — evbuffer_chain_new_membuf (real buffer.c) against chain_new_membuf_c, the contract by which every other
 * c12a unit replaces it.  The size-rounding loop is closed by a loop contract (carries an integer only);
 * evbuffer_chain_new is replaced by chain_new_c (enforced in c12a_chain_new). */
#define VF_NLOCKS 2
#include "vf.h"
#include "stubs/c12a_mem.h"
#include "buffer.c"
struct eb_in;
#include "stubs/lock.h"
#include "c12a_shape.h"
struct in { size_t size; unsigned prev; unsigned ch[VF_NCHOICE]; };
struct in IN;
#include "stubs/log.h"
#include "stubs/c12a_mm.h"
#include "c12a_contracts.h"
static struct evbuffer_chain PREV;

void harness(void)
{
	struct evbuffer_chain *r;
	VF_LOAD_IN();
	C12A_RESET();
	if (IN.prev & 1) { g_new[0] = &PREV; g_nnew = 1; }
	r = VF_CALL(chain_new_membuf_c, evbuffer_chain_new_membuf, IN.size);
	if (r) {
		__CPROVER_assert(CHAIN_SPACE_LEN(r) >= IN.size, "room for the requested bytes");
		__CPROVER_assert(IMP(IN.size <= MIN_BUFFER_SIZE - EVBUFFER_CHAIN_SIZE, r->buffer_len == MIN_BUFFER_SIZE - EVBUFFER_CHAIN_SIZE), "small requests get the minimum chain");
		__CPROVER_assert(IMP(IN.size < EVBUFFER_CHAIN_MAX / 2 - EVBUFFER_CHAIN_SIZE && IN.size > MIN_BUFFER_SIZE, r->buffer_len + EVBUFFER_CHAIN_SIZE < 2 * (IN.size + EVBUFFER_CHAIN_SIZE)), "rounding wastes less than a factor of two");
	}
#ifdef VF_CANARY
	__CPROVER_assert(r == NULL || r->buffer_len == IN.size, "canary: must fail (sizes are rounded up)");
#endif
}
