/* C41 — ORDER of evutil_ascii_strcasecmp / evutil_ascii_strncasecmp on bytes >= 0x80 (real evutil.c).
 * Reference definition (POSIX strcasecmp in the POSIX locale; ISO C strcmp): the strings are compared
 * as sequences of UNSIGNED CHAR after mapping 'A'..'Z' to 'a'..'z'.  evutil.c compares the mapped
 * bytes as plain `char`, which is signed on this target, so a byte >= 0x80 sorts BEFORE every ASCII
 * byte.  Strings of one significant byte suffice; this unit is expected to FAIL on the unchanged tree
 * if the code deviates from the reference (candidate finding, see the report) - equality (result 0)
 * and the order of ASCII bytes are proved in c41_strcasecmp / c41_strncasecmp. */
#include "vf.h"
#include "evutil.c"
#include "stubs/log.h"
struct in { unsigned char a, b; };
struct in IN;
#define VF_N 2
#include "c41_str.h"

void harness(void)
{
	int r, rn, ref;
	VF_LOAD_IN();
#ifdef VF_KF_EXCLUDE   /* known-finding protocol: main run without the finding's inputs ... */
	__CPROVER_assume(IN.a < 0x80 && IN.b < 0x80);
#endif
#ifdef VF_KF_ONLY      /* ... and the confirmation run restricted to them */
	__CPROVER_assume(IN.a >= 0x80 || IN.b >= 0x80);
#endif
	A[0] = (char)IN.a; A[1] = 0; B[0] = (char)IN.b; B[1] = 0;
	ref = ref_cmp_char_unsigned(A[0], B[0]);
	r = evutil_ascii_strcasecmp(A, B);
	rn = evutil_ascii_strncasecmp(A, B, 2);
	__CPROVER_assert(r == ref, "evutil_ascii_strcasecmp orders one-byte strings like strcasecmp in the POSIX locale (bytes compared as unsigned char)");
	__CPROVER_assert(rn == ref, "evutil_ascii_strncasecmp orders one-byte strings like strncasecmp in the POSIX locale (bytes compared as unsigned char)");
	__CPROVER_assert(r == rn, "both functions agree");
#ifdef VF_CANARY
	__CPROVER_assert(r != 1, "canary: must fail (\"b\" vs \"A\" gives 1)");
#endif
}
