/* C01/C08 — event_persist_closure (real event.c, loop-free): the re-arm rule of a persistent timer.
 * "A persistent timer re-arms at its previous deadline plus its interval, or at now plus the
 * interval when that point has already passed" (and at now + interval when it fired for another
 * reason); the deadline is handed to event_add_nolock_ as ABSOLUTE, with the common-timeout magic
 * bits kept out of the arithmetic and put back; no re-arm without an interval; then the base lock
 * is released and the user callback runs exactly once with (fd, res, arg) as they were.
 * gettime = ghost clock; event_add_nolock_ = argument recorder (behaviour: c02_add_nolock). */
#define VF_NLOCKS 1
#include "vf.h"
#include "event.c"
#include "stubs/lock.h"
#include "stubs/log.h"
#define C02_NO_AQ
#include "c02_event_shape.h"
struct in { struct c02_base_in b; struct c02_ev_in e; int add_ret; };
struct in IN;
#include "c02_event_contracts.h"
#include "c01_timer_contracts.h"

int g_add_calls, g_add_abs, g_add_ret; long g_add_sec, g_add_usec; struct event *g_add_ev;
VF_CONTRACT(int, add_rec_c, struct event *ev, const struct timeval *tv, int tv_is_absolute)
__CPROVER_requires(BASE.th_base_lock == NULL || g_lock_depth[1] == 1)           /* re-armed BEFORE the lock is dropped */
__CPROVER_requires(tv != NULL)
__CPROVER_assigns(g_add_calls, g_add_abs, g_add_sec, g_add_usec, g_add_ev)
__CPROVER_ensures(g_add_calls == __CPROVER_old(g_add_calls) + 1 && g_add_abs == tv_is_absolute && g_add_ev == ev && g_add_sec == tv->tv_sec && g_add_usec == tv->tv_usec)
__CPROVER_ensures(__CPROVER_return_value == g_add_ret)
;
int g_cb_calls, g_cb_fd, g_cb_depth; short g_cb_res; void *g_cb_arg;
static char ARGOBJ;
static void user_cb(evutil_socket_t fd, short what, void *arg)
{
	g_cb_calls++; g_cb_fd = fd; g_cb_res = what; g_cb_arg = arg; g_cb_depth = g_lock_depth[1];
}

#define USEC_MASK 0xfffffL
#define HAS_INTERVAL (IN.e.io_sec != 0 || IN.e.io_usec != 0)
#define COMMON O_old_common
#define MAGIC (COMMON ? (IN.e.io_usec & ~USEC_MASK) : 0)
#define D_SEC IN.e.io_sec
#define D_USEC (COMMON ? (IN.e.io_usec & USEC_MASK) : IN.e.io_usec)
#define FIRED (IN.e.res & EV_TIMEOUT)
#define L_SEC IN.e.to_sec
#define L_USEC (COMMON ? (IN.e.to_usec & USEC_MASK) : IN.e.to_usec)
/* a + b on timevals */
#define ADD_SEC(as, au, bs, bu) ((as) + (bs) + (((au) + (bu)) >= 1000000 ? 1 : 0))
#define ADD_USEC(au, bu) (((au) + (bu)) >= 1000000 ? (au) + (bu) - 1000000 : (au) + (bu))
#define NEXT_SEC ADD_SEC(L_SEC, L_USEC, D_SEC, D_USEC)
#define NEXT_USEC ADD_USEC(L_USEC, D_USEC)
#define NEXT_PASSED (NEXT_SEC < IN.b.now_sec || (NEXT_SEC == IN.b.now_sec && NEXT_USEC < IN.b.now_usec))
#define FROM_LAST (FIRED && !NEXT_PASSED)
#define EXP_SEC (FROM_LAST ? NEXT_SEC : ADD_SEC(IN.b.now_sec, IN.b.now_usec, D_SEC, D_USEC))
#define EXP_USEC ((FROM_LAST ? NEXT_USEC : ADD_USEC(IN.b.now_usec, D_USEC)) | MAGIC)

VF_CONTRACT_V(persist_c, struct event_base *base, struct event *ev)
__CPROVER_requires(base == &BASE && ev == &EV)
__CPROVER_requires(BASE.th_base_lock == NULL || g_lock_depth[1] == 1)           /* event_process_active_single_queue calls closures with the lock held */
__CPROVER_requires(g_add_calls == 0 && g_cb_calls == 0)
__CPROVER_assigns(g_add_calls, g_add_abs, g_add_sec, g_add_usec, g_add_ev, g_cb_calls, g_cb_fd, g_cb_res, g_cb_arg, g_cb_depth, g_lock_depth[1], g_lock_ops,
	BASE.tv_clock_diff, BASE.last_updated_clock_diff)
/* 1 re-armed exactly once iff there is an interval, for this event, as an ABSOLUTE deadline */
__CPROVER_ensures(g_add_calls == (HAS_INTERVAL ? 1 : 0))
__CPROVER_ensures(IMP(HAS_INTERVAL, g_add_ev == &EV && g_add_abs == 1))
/* 3 C01: the deadline */
__CPROVER_ensures(IMP(HAS_INTERVAL, g_add_sec == EXP_SEC && g_add_usec == EXP_USEC))
/* 4 C01: never in the past, never later than one interval from max(now, last deadline) */
__CPROVER_ensures(IMP(HAS_INTERVAL, g_add_sec > IN.b.now_sec || (g_add_sec == IN.b.now_sec && (g_add_usec & USEC_MASK) >= IN.b.now_usec)))
/* 5 the user callback: exactly once, with the event's fd / result flags / argument, with the base lock RELEASED */
__CPROVER_ensures(g_cb_calls == 1 && g_cb_fd == IN.e.fd && g_cb_res == IN.e.res && g_cb_arg == (void *)&ARGOBJ && g_cb_depth == 0)
/* 6 C08: asymmetric by design — entered with the lock held, returns with it released (the caller re-takes it) */
__CPROVER_ensures(g_lock_depth[1] == 0)
;

void harness(void)
{
	VF_LOAD_IN(); VF_INSTALL_LOCKS();
	c02_build_base(&IN.b);
	c02_build_ev(&EV, &IN.e, 1);
	if (BASE.th_base_lock) g_lock_depth[1] = 1;
	g_add_calls = 0; g_cb_calls = 0; g_add_ret = IN.add_ret; g_cb_depth = -1; g_add_ev = NULL;
	g_now_sec = IN.b.now_sec; g_now_usec = IN.b.now_usec;
	__CPROVER_assume(IN.e.closure == EV_CLOSURE_EVENT_PERSIST && !(IN.e.events & EV_SIGNAL));
	EV.ev_callback = user_cb; EV.ev_arg = &ARGOBJ;
	/* stored deadline and interval: valid timevals, and (asserted by the code) with the SAME magic/index bits:
	 * event_add_nolock_ stores interval = *tv and deadline = now + tv | magic(tv) together */
	__CPROVER_assume(C02_DEADLINE_OK(IN.e.to_sec, IN.e.to_usec) && C02_DEADLINE_OK(IN.e.io_sec, IN.e.io_usec));
	__CPROVER_assume((IN.e.to_usec & ~USEC_MASK) == (IN.e.io_usec & ~USEC_MASK));
	O_old_common = C02_IS_COMMON(&EV.ev_timeout, &BASE);
	__CPROVER_assume(IMP(!O_old_common, IN.e.to_usec < 1000000));      /* non-common deadlines are plain timevals */
	EV.ev_io_timeout.tv_sec = IN.e.io_sec; EV.ev_io_timeout.tv_usec = IN.e.io_usec;
	VF_CALL_V(persist_c, event_persist_closure, &BASE, &EV);
	__CPROVER_assert(EV.ev_res == IN.e.res && EV.ev_flags == IN.e.flags && EV.ev_io_timeout.tv_sec == IN.e.io_sec && EV.ev_io_timeout.tv_usec == IN.e.io_usec, "the closure itself changes nothing in the event");
#ifdef VF_CANARY
	__CPROVER_assert(g_add_calls == 0, "canary: must fail (events with an interval are re-armed)");
#endif
}
