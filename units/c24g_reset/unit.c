/* C24 — evhttp_connection_reset_(evcon, hard) (real http.c), the only way a connection gets back
 * to EVCON_DISCONNECTED:
 *   - the bufferevent's read/write/event callbacks are removed (no parser runs on this transport
 *     any more), the state becomes EVCON_DISCONNECTED, of the flags only EVHTTP_CON_READING_ERROR
 *     is cleared (as the code documents: "disables reading/writing, puts us in DISCONNECTED");
 *   - hard: everything evhttp_connection_reset_hard_ guarantees (contract reset_hard_c, proved in
 *     unit c24g_reset_hard): fd closed and replaced by -1, INPUT drained to length 0, OUTPUT drained
 *     to length 0, close callback told iff the connection was connected — so no byte received on
 *     the old connection can be parsed as (part of) the response to the next queued request;
 *   - soft (used only by evhttp_connection_connect_ before the connect): fd and buffers untouched.
 * Loop-free; everything symbolic. */
#include "vf.h"
#include "http.c"
struct in { int state, flags, have_closecb, out_frozen, hard; size_t in_len, out_len, in_drained, out_drained; };
struct in IN;
#include "stubs/log.h"
#include "stubs/c24g_env.h"
#include "c23_contracts.h"
#include "c24g_contracts.h"

static struct evhttp_connection EVCON; static char COOKIE;
void harness(void)
{
	VF_LOAD_IN(); VF_C24G_ENV_RESET(); VF_C23_GHOST_RESET();
	__CPROVER_assume(IN.state >= EVCON_DISCONNECTED && IN.state <= EVCON_WRITING);
	__CPROVER_assume(IN.in_drained <= ((size_t)1 << 62) && IN.out_drained <= ((size_t)1 << 62) && IN.in_len <= ((size_t)1 << 62) && IN.out_len <= ((size_t)1 << 62));   /* ghost counters do not wrap */
	EVCON.bufev = &BEV; EVCON.state = (enum evhttp_connection_state)IN.state; EVCON.flags = IN.flags;
	EVCON.closecb = IN.have_closecb ? vf_close_cb : NULL; EVCON.closecb_arg = &COOKIE;
	EB[E_IN].len = IN.in_len; EB[E_OUT].len = IN.out_len; EB[E_IN].drained = IN.in_drained; EB[E_OUT].drained = IN.out_drained;
	e_out_frozen = (IN.out_frozen != 0);
	VF_CALL_V(reset_c, evhttp_connection_reset_, &EVCON, IN.hard);
	/* C24: across a reconnect nothing of the old stream is left for the next request */
	__CPROVER_assert(IMP(IN.hard, EB[E_IN].len == 0), "after a hard reset the input buffer is empty");
	__CPROVER_assert(IMP(IN.hard, EB[E_OUT].len == 0), "after a hard reset the output buffer is empty");
	__CPROVER_assert(EVCON.state == EVCON_DISCONNECTED && !(EVCON.flags & EVHTTP_CON_READING_ERROR) && (EVCON.flags | EVHTTP_CON_READING_ERROR) == (IN.flags | EVHTTP_CON_READING_ERROR), "DISCONNECTED, READING_ERROR cleared, other flags kept");
#ifdef VF_CANARY
	__CPROVER_assert(e_replacefd_calls == 0, "canary: must fail (a hard reset closes the fd)");
#endif
}
