/* C08/C02 — event_remove_timer (real event.c, public): lock, event_remove_timer_nolock_ once, unlock,
 * worker's result; no base: -1. */
#define VF_NLOCKS 1
#include "vf.h"
#include "event.c"
#include "stubs/lock.h"
#include "stubs/log.h"
#define C02_NO_AQ
#include "c02_event_shape.h"
struct in { struct c02_base_in b; struct c02_ev_in e; int nobase; int ret; int tv_null; long tv_sec, tv_usec; int res; short ncalls; int blocking; };
struct in IN;
static struct timeval TV;
/* the *_nolock_ worker: argument recorder; its behaviour is established in its own unit.  Call-site
 * obligation (requires): th_base_lock is held exactly once when the worker runs. */
int g_calls, g_ret, g_a_int, g_a_int2; struct event *g_a_ev; const struct timeval *g_a_tv;
#define LOCK_HELD_ONCE (BASE.th_base_lock == NULL || g_lock_depth[1] == 1)
#define BALANCED (g_lock_depth[1] == 0 && g_lock_ops == ((!IN.nobase && (IN.b.has_lock & 1)) ? 2 : 0))
#define SETUP() do { VF_LOAD_IN(); VF_INSTALL_LOCKS(); c02_build_base(&IN.b); c02_build_ev(&EV, &IN.e, 1); \
	TV.tv_sec = IN.tv_sec; TV.tv_usec = IN.tv_usec; g_calls = 0; g_ret = IN.ret; g_a_ev = NULL; g_a_tv = NULL; g_a_int = -99; g_a_int2 = -99; \
	if (IN.nobase) EV.ev_base = NULL; } while (0)
VF_CONTRACT(int, rt_rec_c, struct event *ev)
__CPROVER_requires(LOCK_HELD_ONCE)
__CPROVER_assigns(g_calls, g_a_ev)
__CPROVER_ensures(g_calls == __CPROVER_old(g_calls) + 1 && g_a_ev == ev && __CPROVER_return_value == g_ret)
;
VF_CONTRACT(int, w_rt_c, struct event *ev)
__CPROVER_requires(ev == &EV)
__CPROVER_requires(g_lock_depth[1] == 0 && g_lock_ops == 0 && g_calls == 0)
__CPROVER_assigns(g_calls, g_a_ev, g_lock_depth[1], g_lock_ops)
__CPROVER_ensures(g_calls == (IN.nobase ? 0 : 1) && __CPROVER_return_value == (IN.nobase ? -1 : IN.ret))
__CPROVER_ensures(IMP(!IN.nobase, g_a_ev == &EV))
__CPROVER_ensures(BALANCED)
;
void harness(void)
{
	int r;
	SETUP();
	r = VF_CALL(w_rt_c, event_remove_timer, &EV);
	(void)r;
#ifdef VF_CANARY
	__CPROVER_assert(g_lock_ops == 0, "canary: must fail (the lock is taken and released)");
#endif
}
