/* C46 (secure bytes) — the BUNDLED generator: arc4random_buf of arc4random.c (#included by evutil_rand.c on
 * platforms without arc4random/arc4random_buf) behind evutil_secure_rng_get_bytes.  NOT the configuration this
 * tree is built in (see c46s_get_bytes): the unit undefines EVENT__HAVE_ARC4RANDOM{,_BUF} after including the
 * generated event-config.h, and renames the two static functions that would collide with glibc's prototypes in
 * <stdlib.h> (macro rename only, the text is the real one).
 * The byte loop `while (n--) { if (--arc4_count <= 0) arc4_stir(); buf[n] = arc4_getbyte(); }` is closed by a
 * LOOP CONTRACT (integer n, writes through the loop-invariant pointer buf): for every n up to the buffer size,
 * every byte index of [buf, buf+n) receives a byte produced by arc4_getbyte (ghost witness index g_w: the
 * buffer is pre-filled with bytes different from the generator's marker output), exactly n bytes are drawn, no
 * byte outside [buf, buf+n) is written (frame), the global lock is balanced.  arc4_getbyte / arc4_stir /
 * arc4_stir_if_needed are replaced by contracts (the RC4 state machine is not the subject). */
#define VF_NLOCKS 1
#include "vf.h"
#include <stdlib.h>
#include "event2/event-config.h"
#undef EVENT__HAVE_ARC4RANDOM
#undef EVENT__HAVE_ARC4RANDOM_BUF
#define arc4random vf_bundled_arc4random
#define arc4random_buf vf_bundled_arc4random_buf
#define arc4random_addrandom vf_bundled_arc4random_addrandom
#include "evutil_rand.c"
#define VF_CAP 64
struct in { size_t n; size_t w; unsigned char fill[VF_CAP + 2]; unsigned char marker; int count; int has_lock; };
struct in IN;
#include "stubs/log.h"
#include "stubs/lock.h"
static unsigned char BUF[VF_CAP + 2];
size_t g_w; unsigned char g_marker; unsigned long g_gb_calls; size_t O_n;

VF_CONTRACT(unsigned char, getbyte_c, void)
__CPROVER_assigns(__CPROVER_object_whole(&rs), g_gb_calls)
__CPROVER_ensures(__CPROVER_return_value == g_marker && g_gb_calls == __CPROVER_old(g_gb_calls) + 1)
;
VF_CONTRACT(int, stir_c, void)
__CPROVER_assigns(__CPROVER_object_whole(&rs), rs_initialized, arc4_count)
/* arc4_stir: on success the re-key counter is REKEY_BASE + (fuzz % REKEY_BASE); when seeding fails it is left alone */
__CPROVER_ensures(arc4_count == __CPROVER_old(arc4_count) || (arc4_count >= 1048576 && arc4_count < 2097152))
;
VF_CONTRACT_V(stir_if_needed_c, void)
__CPROVER_assigns(__CPROVER_object_whole(&rs), rs_initialized, arc4_count, arc4_stir_pid)
__CPROVER_ensures(arc4_count == __CPROVER_old(arc4_count) || (arc4_count >= 1048576 && arc4_count < 2097152))
;
VF_CONTRACT_V(arc4_buf_c, void *buf_, size_t n)
__CPROVER_requires(buf_ == (void *)(BUF + 1) && n <= VF_CAP && n == O_n && g_w < VF_CAP + 2)
__CPROVER_requires(g_lock_depth[1] == 0 && g_gb_calls == 0)
/* the counter is decremented once per byte and reset by every successful stir: far from INT_MIN unless seeding has failed for 2^31 bytes */
__CPROVER_requires(arc4_count >= -2000000000)
__CPROVER_requires(IMP(g_w >= 1 && g_w < 1 + n, BUF[g_w] != g_marker))
__CPROVER_assigns(__CPROVER_object_upto(BUF + 1, n), __CPROVER_object_whole(&rs), rs_initialized, arc4_count, arc4_stir_pid, g_gb_calls, g_lock_depth[1], g_lock_ops)
__CPROVER_ensures(IMP(g_w >= 1 && g_w < 1 + O_n, BUF[g_w] == g_marker))
__CPROVER_ensures(g_gb_calls == O_n)
__CPROVER_ensures(g_lock_depth[1] == 0)
;

void harness(void)
{
	size_t i;
	VF_LOAD_IN();
	VF_INSTALL_LOCKS();
	__CPROVER_assume(IN.n <= VF_CAP && IN.w < VF_CAP + 2);
	for (i = 0; i < VF_CAP + 2; i++) BUF[i] = IN.fill[i];
	g_w = IN.w; g_marker = IN.marker; g_gb_calls = 0; O_n = IN.n;
	__CPROVER_assume(IMP(g_w >= 1 && g_w < 1 + IN.n, BUF[g_w] != g_marker));
	arc4rand_lock = IN.has_lock ? VF_LOCK_COOKIE(1) : NULL;
	__CPROVER_assume(IN.count >= -2000000000);
	arc4_count = IN.count;
	VF_CALL_V(arc4_buf_c, vf_bundled_arc4random_buf, (void *)(BUF + 1), IN.n);
	__CPROVER_assert(IMP(!(IN.w >= 1 && IN.w < 1 + IN.n), BUF[IN.w] == IN.fill[IN.w]), "bytes outside [buf, buf+n) are unchanged");
#ifdef VF_CANARY
	__CPROVER_assert(BUF[3] == IN.fill[3], "canary: must fail (a request of >= 3 bytes overwrites index 3 of the guarded buffer)");
#endif
}
