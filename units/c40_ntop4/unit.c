/* C40 — evutil_inet_ntop AF_INET (real evutil.c) for ALL 2^32 addresses and every buffer length, and the
 * round trip evutil_inet_pton(evutil_inet_ntop(a)) == a; see contracts/c40_ntop_unit.h for the statement. */
#define VF_AF 4
#define VF_EXACTFIT 0
#include "c40_ntop_unit.h"
