/* C30 — evhttp_find_alias (real http.c, recursive over the virtual-host tree) called directly on the harness-built
 * tree of contracts/c30g_tree.h
 *         ROOT ── V0 ── V00          <= 2 virtual hosts under ROOT (V0 registered before V1), <= 1 under V0,
 *              └─ V1                 <= 1 alias per evhttp (ROOT: <= 2), patterns from the c30_glob menu (irrelevant here)
 * started at ROOT or at V0 (IN.from), for EVERY host name of <= VF_N characters and every alias of <= VF_A
 * characters over { a A b B . - }; outhttp NULL or not (IN.outnull).  hostname != NULL (only caller:
 * evhttp_find_vhost, reached under `if (hostname != NULL)` in evhttp_handle_request).
 *   A1 returns 1 exactly when some evhttp of the subtree has an alias EQUAL to the host name up to ASCII case
 *      (same length, same letters: "ab" is not matched by alias "a", "a.b" not by "a-b"), else 0; only 0 or 1
 *   A2 on 1, *outhttp (if outhttp != NULL) is the FIRST such evhttp in the order: the start evhttp, then its
 *      virtual hosts in registration order, each with its whole subtree before the next sibling
 *   A3 on 0, *outhttp is NOT written (evhttp_find_vhost relies on that: it then stores its own selection)
 *   A4 virtual-host patterns play no part: prefix_suffix_match is never called
 *   A5 the tree, the aliases and the host name are not modified; no read past a terminator */
#ifndef VF_N
#define VF_N 4
#endif
#ifndef VF_A
#define VF_A 4
#endif
#define C30G_XAL
#include "vf.h"
#include "http.c"
struct in { unsigned char h[VF_N]; unsigned hn; unsigned nvh, nch; unsigned char pat[3]; unsigned nal[4]; unsigned char al[4][VF_A]; unsigned aln[4];
            unsigned xn; unsigned char xal[VF_A]; unsigned xaln; int outnull; int from; };
struct in IN;
#include "stubs/log.h"
#include "stubs/c28_ctype.h"
#include "c30g_tree.h"

static struct evhttp POISON;
static unsigned g_glob_calls;
int c30g_glob_stub(const char *pattern, const char *name, int ignorecase)
{
	(void)pattern; (void)name; (void)ignorecase;
	g_glob_calls++;
	return 1;
}

void harness(void)
{
	struct evhttp *out = &POISON; int r, wa, from;
	VF_LOAD_IN();
	c30g_build();
	g_glob_calls = 0;
	from = IN.from ? C30G_V0 : C30G_ROOT;
	__CPROVER_assume(T_present[from]);

	wa = ref_alias_from(from);

	/* two call sites with a concrete start object: a symbolic start pointer keeps the verifier from pruning the recursion */
	if (from == C30G_ROOT) r = evhttp_find_alias(&T_ROOT, IN.outnull ? NULL : &out, T_host);
	else r = evhttp_find_alias(&T_V0, IN.outnull ? NULL : &out, T_host);

	__CPROVER_assert(r == (wa != C30G_NONE), "A1: returns 1 exactly when an alias in the subtree equals the host name (case-insensitive, exact length), else 0");
	__CPROVER_assert(IMP(r == 1 && !IN.outnull, out == c30g_node(wa)), "A2: *outhttp is the first evhttp in tree order one of whose aliases matches");
	__CPROVER_assert(IMP(r == 0 || IN.outnull, out == &POISON), "A3: *outhttp is not written when nothing matched (or outhttp is NULL)");
	__CPROVER_assert(g_glob_calls == 0, "A4: patterns are not consulted by the alias search");
	__CPROVER_assert(c30g_unchanged(), "A5: tree, aliases and host name are not modified");
#ifdef VF_CANARY
	__CPROVER_assert(!(r == 1 && out == &T_V00 && IN.hn == 3), "canary: must fail (the nested virtual host's alias can be the first match)");
#endif
}
