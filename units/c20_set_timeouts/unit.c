/* C20/C08 — bufferevent_set_timeouts (real bufferevent.c): each direction's timeout is stored, or cleared for a NULL
 * argument; the type's adj_timeouts op is then invoked exactly once (if the type has one) with the lock held, and
 * its result is returned. */
#include "c18_bev_unit.h"
static struct timeval TVR, TVW;
VF_CONTRACT(int, set_timeouts_c, struct bufferevent *bufev, const struct timeval *tv_read, const struct timeval *tv_write)
__CPROVER_requires(bufev == BEV && (tv_read == NULL || tv_read == &TVR) && (tv_write == NULL || tv_write == &TVW))
__CPROVER_requires(g_e.adj_calls == 0 && g_lock_depth[1] == 0)
__CPROVER_assigns(BEV->timeout_read, BEV->timeout_write, BEV_GHOST_FRAME)
__CPROVER_ensures(BEV->timeout_read.tv_sec == (tv_read ? TVR.tv_sec : 0) && BEV->timeout_read.tv_usec == (tv_read ? TVR.tv_usec : 0))
__CPROVER_ensures(BEV->timeout_write.tv_sec == (tv_write ? TVW.tv_sec : 0) && BEV->timeout_write.tv_usec == (tv_write ? TVW.tv_usec : 0))
__CPROVER_ensures(g_e.adj_calls == B(IN.has_adj) && __CPROVER_return_value == (IN.has_adj ? g_e.adj_ret : 0))
__CPROVER_ensures(g_lock_depth[1] == 0)
;
void harness(void)
{
	int r;
	VF_LOAD_IN();
	vf_bev_build();
	TVR.tv_sec = IN.a_tr_sec; TVR.tv_usec = IN.a_tr_usec; TVW.tv_sec = IN.a_tw_sec; TVW.tv_usec = IN.a_tw_usec;
	r = VF_CALL(set_timeouts_c, bufferevent_set_timeouts, BEV, IN.has_tr ? &TVR : NULL, IN.has_tw ? &TVW : NULL);
	(void)r;
	__CPROVER_assert(BEV->enabled == IN.enabled && g_e.nseq == 0 && g_e.ev[0].n_add == 0 && g_e.ev[1].n_add == 0, "nothing else happens in the generic part");
#ifdef VF_CANARY
	__CPROVER_assert(BEV->timeout_read.tv_sec == IN.tr_sec, "canary: must fail (the read timeout is replaced)");
#endif
}
