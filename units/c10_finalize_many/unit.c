/* C10/C08 — event_callback_finalize_many_ (real event.c): of the n callbacks handed in, EXACTLY ONE gets the
 * finalizer (the one that is executing right now if there is one, else the first), every other one is cancelled
 * exactly once and never finalized; base lock released on return; NULL base = the global current base.
 * Unbounded in n_cbs (loop contract over the integer loop; evcbs[] has NCB slots, n_cbs symbolic in 1..NCB);
 * "for every index" is carried by a ghost witness index g_w fixed by the harness.
 * Type invariant used: the callbacks handed in are pairwise distinct objects (bufferevent passes the addresses
 * of its own distinct members), so at most one of them is base->current_event. */
#define VF_NLOCKS 1
#include "vf.h"
#include "event.c"
#ifndef NCB
#define NCB 16
#endif
struct in { int n, cur, w, nullbase; };
struct in IN;
#include "stubs/log.h"
#include "stubs/lock.h"

static struct event_base BASE;
static struct event_callback CB[NCB], OTHER;
static struct event_callback *EVCBS[NCB];
struct ghost { int nfin, fin_idx, w_cancel, w_fin, ncancel; } g_s;
int g_w;
static void vf_cbfin(struct event_callback *cb, void *arg) { (void)cb; (void)arg; }
#define IDX(p) ((int)((p) - &CB[0]))

VF_CONTRACT_V(fin_nolock_c, struct event_base *base, unsigned flags, struct event_callback *evcb, void (*cb)(struct event_callback *, void *))
__CPROVER_requires(base == &BASE && g_lock_depth[1] == 1 && flags == 0 && cb == vf_cbfin)
__CPROVER_requires(__CPROVER_same_object(evcb, &CB[0]) && IDX(evcb) >= 0 && IDX(evcb) < IN.n && evcb == &CB[IDX(evcb)])
__CPROVER_requires(g_s.nfin == 0)                                     /* C10: the finalizer is handed out at most once */
/* the one chosen is the executing callback, or the first when none of them is executing */
__CPROVER_requires(evcb == base->current_event || (IN.cur < 0 && evcb == &CB[0]))
__CPROVER_assigns(g_s.nfin, g_s.fin_idx, g_s.w_fin)
__CPROVER_ensures(g_s.nfin == 1 && g_s.fin_idx == IDX(evcb) && g_s.w_fin == __CPROVER_old(g_s.w_fin) + (IDX(evcb) == g_w ? 1 : 0))
;
VF_CONTRACT(int, cancel_nolock_c, struct event_base *base, struct event_callback *evcb, int even_if_finalizing)
__CPROVER_requires(base == &BASE && g_lock_depth[1] == 1 && even_if_finalizing == 0)
__CPROVER_requires(__CPROVER_same_object(evcb, &CB[0]) && IDX(evcb) >= 0 && IDX(evcb) < IN.n && evcb == &CB[IDX(evcb)])
__CPROVER_requires(evcb != base->current_event)                       /* the executing callback is never cancelled */
__CPROVER_assigns(g_s.ncancel, g_s.w_cancel)
__CPROVER_ensures(g_s.ncancel == __CPROVER_old(g_s.ncancel) + 1 && g_s.w_cancel == __CPROVER_old(g_s.w_cancel) + (IDX(evcb) == g_w ? 1 : 0))
__CPROVER_ensures(__CPROVER_return_value == 0)
;

VF_CONTRACT(int, many_c, struct event_base *base, int n_cbs, struct event_callback **evcbs, void (*cb)(struct event_callback *, void *))
__CPROVER_requires(base == (IN.nullbase ? NULL : &BASE) && event_global_current_base_ == &BASE && n_cbs == IN.n && evcbs == &EVCBS[0] && cb == vf_cbfin)
__CPROVER_requires(n_cbs >= 1 && n_cbs <= NCB && g_w >= 0 && g_w < n_cbs)
__CPROVER_requires(g_lock_depth[1] == 0 && g_s.nfin == 0 && g_s.ncancel == 0 && g_s.w_cancel == 0 && g_s.w_fin == 0 && g_s.fin_idx == -1)
__CPROVER_assigns(g_lock_depth[1], g_lock_ops, g_s)
/* 1 C08 */ __CPROVER_ensures(g_lock_depth[1] == 0 && __CPROVER_return_value == 0)
/* 2 C10: exactly one callback gets the finalizer: the executing one, else the first */
__CPROVER_ensures(g_s.nfin == 1 && g_s.fin_idx == (IN.cur >= 0 ? IN.cur : 0))
/* 3 C10: every other callback (witness g_w) is cancelled exactly once and not finalized; the chosen one is finalized once */
__CPROVER_ensures(IMP(g_w != g_s.fin_idx, g_s.w_cancel == 1 && g_s.w_fin == 0))
__CPROVER_ensures(IMP(g_w == g_s.fin_idx, g_s.w_fin == 1 && g_s.w_cancel == (IN.cur >= 0 ? 0 : 1)))
/* 5 */ __CPROVER_ensures(g_s.ncancel == (IN.cur >= 0 ? n_cbs - 1 : n_cbs))
;

void harness(void)
{
	int r, k;
	VF_LOAD_IN(); VF_INSTALL_LOCKS();
	evthread_id_fn_ = NULL; event_debug_mode_on_ = 0; event_global_current_base_ = &BASE;
	__CPROVER_assume(IN.n >= 1 && IN.n <= NCB && IN.w >= 0 && IN.w < IN.n && IN.cur >= -1 && IN.cur < IN.n);
	g_w = IN.w; g_s.nfin = 0; g_s.ncancel = 0; g_s.w_cancel = 0; g_s.w_fin = 0; g_s.fin_idx = -1;
	BASE.th_base_lock = VF_LOCK_COOKIE(1);
	for (k = 0; k < NCB; k++) EVCBS[k] = &CB[k];
	BASE.current_event = IN.cur >= 0 ? &CB[IN.cur] : &OTHER;
	r = VF_CALL(many_c, event_callback_finalize_many_, IN.nullbase ? NULL : &BASE, IN.n, EVCBS, vf_cbfin);
#ifdef VF_CANARY
	__CPROVER_assert(g_s.fin_idx == 0, "canary: must fail (the executing callback, not the first, gets the finalizer)");
#endif
	(void)r;
}
