/* C23/C24 — evhttp_read_trailer (real http.c): after the last chunk (RFC 9112 7.1.2 trailer
 * section = field lines up to an empty line).  The trailer lines go through the same header-line
 * parser as the header section (evhttp_parse_headers_: units c23_header_line / c25_headers_size;
 * the size limit keeps counting in headers_size); the message is complete exactly when that parser
 * reports the empty line; a malformed or over-long trailer fails the message; with an incomplete
 * trailer nothing happens (wait for more input).  Loop-free. */
#include "vf.h"
#include "http.c"
struct in { int dummy; };
struct in IN;
#include "stubs/log.h"
#include "stubs/c23_http_env.h"
#include "c23_contracts.h"

static struct evhttp_connection EVCON; static struct evhttp_request REQ;
VF_CONTRACT_V(read_trailer_enf_c, struct evhttp_connection *evcon, struct evhttp_request *req)
__CPROVER_requires(evcon == &EVCON && req == &REQ && __CPROVER_rw_ok(evcon, sizeof(*evcon)) && __CPROVER_rw_ok(req, sizeof(*req)) && evcon->bufev == &BEV)
__CPROVER_requires(g_ph_calls == 0 && g_done_calls == 0 && g_fail_calls == 0 && e_bev_disabled_calls == 0)
__CPROVER_assigns(g_ph_calls, g_ph_status, req->headers_size, g_done_calls, g_fail_calls, g_fail_error, e_bev_disabled_calls, e_bev_disable_what)
__CPROVER_ensures(g_ph_calls == 1)
__CPROVER_ensures(g_done_calls == (g_ph_status == ALL_DATA_READ ? 1 : 0))
__CPROVER_ensures(IMP(g_done_calls == 1, e_bev_disabled_calls == 1 && e_bev_disable_what == EV_READ))
__CPROVER_ensures(g_fail_calls == ((g_ph_status == DATA_CORRUPTED || g_ph_status == DATA_TOO_LONG) ? 1 : 0))
__CPROVER_ensures(IMP(g_ph_status == MORE_DATA_EXPECTED, g_done_calls == 0 && g_fail_calls == 0 && e_bev_disabled_calls == 0))
;
void harness(void)
{
	VF_LOAD_IN(); VF_HTTP_ENV_RESET(); VF_C23_GHOST_RESET(); g_ph_calls = 0; g_ph_status = 0;
	EVCON.bufev = &BEV; REQ.evcon = &EVCON;
	VF_CALL_V(read_trailer_enf_c, evhttp_read_trailer, &EVCON, &REQ);
#ifdef VF_CANARY
	__CPROVER_assert(g_done_calls == 0, "canary: must fail (a complete trailer finishes the message)");
#endif
}
