/* one entry point of the group in contracts/c03_deferred_unit.h (shared text; VF_WHICH selects it) */
#include "c03_deferred_unit.h"
