/* C01 — timeout_process (real event.c) with its callees replaced by contracts whose `requires` are
 * the property's call-site obligations:
 *   - only the heap TOP is ever taken out, and only when its deadline is <= now ("never early");
 *   - its timeout registration is removed BEFORE it is activated, by event_del_nolock_(NOBLOCK) when
 *     it was idle (one-shot semantics: also leaves the I/O set) or by event_queue_remove_timeout when
 *     it was already active ("exactly once per add": the heap no longer holds it);
 *   - it is activated with exactly EV_TIMEOUT, ncalls 1;
 *   - the loop stops at the first top whose deadline is later than now (all others are later still:
 *     heap order, units c01_heap_*), or when the heap is empty.
 * The clock is read once (ghost clock).  The loop walks-and-mutates the heap => bounded stand-in:
 * heaps of <= 3 timers, unwound 4x; which member becomes the next top is left open (any remaining
 * member), deadlines, flags and clock are symbolic. */
#define VF_NLOCKS 1
#include "vf.h"
#include "event.c"
#include "stubs/lock.h"
#include "stubs/log.h"
#define C02_NO_AQ
#include "c02_event_shape.h"
#define NTM 3
struct in { struct c02_base_in b; long sec[NTM], usec[NTM]; short flags[NTM]; };
struct in IN;
static struct event T_0, T_1, T_2;
static struct event *const TP[NTM] = { &T_0, &T_1, &T_2 };
/* pointer_equals (not ==): in the ensures of a REPLACED contract the havocked top pointer must be given a value set */
#define C01_HEAP_MEMBER(x) (__CPROVER_pointer_equals((x), &T_0) || __CPROVER_pointer_equals((x), &T_1) || __CPROVER_pointer_equals((x), &T_2))
#define C01_HEAP_MEMBER_REQ(x) ((x) == &T_0 || (x) == &T_1 || (x) == &T_2)
#include "c02_event_contracts.h"
#include "c01_timer_contracts.h"
#define TOP (BASE.timeheap.p[0])
#define DUE_EV(e) ((e)->ev_timeout.tv_sec < g_now_sec || ((e)->ev_timeout.tv_sec == g_now_sec && (e)->ev_timeout.tv_usec <= g_now_usec))
int g_removed, g_activated, g_gettimes;         /* ghost: bit j = timer j was removed from the heap / activated */
#define BIT(e) ((e) == &T_0 ? 1 : (e) == &T_1 ? 2 : 4)

/* removal of the top, either way: TInv says the next top is a member that still carries EVLIST_TIMEOUT */
#define REMOVE_REQ(ev) (BASE.timeheap.n >= 1 && (ev) == TOP && C01_HEAP_MEMBER(ev) && ((ev)->ev_flags & EVLIST_TIMEOUT) && DUE_EV(ev) && !(g_removed & BIT(ev)))
#define REMOVE_ENS(ev) (BASE.timeheap.n == __CPROVER_old(BASE.timeheap.n) - 1 && g_removed == (__CPROVER_old(g_removed) | BIT(ev)) && \
	IMP(BASE.timeheap.n > 0, C01_HEAP_MEMBER(TOP) && TOP != (ev) && (TOP->ev_flags & EVLIST_TIMEOUT)))
VF_CONTRACT(int, del_top_c, struct event *ev, int blocking)
__CPROVER_requires(REMOVE_REQ(ev))
__CPROVER_requires(blocking == EVENT_DEL_NOBLOCK)                                           /* the loop thread must not wait for itself */
__CPROVER_requires(!(ev->ev_flags & (EVLIST_ACTIVE|EVLIST_ACTIVE_LATER)))                   /* full delete only for idle events */
__CPROVER_requires(BASE.th_base_lock == NULL || g_lock_depth[1] == 1)
__CPROVER_assigns(ev->ev_evcallback.evcb_flags, BASE.timeheap.n, HP[0], g_removed)
__CPROVER_ensures(ev->ev_flags == (__CPROVER_old(ev->ev_flags) & ~(EVLIST_TIMEOUT|EVLIST_INSERTED|EVLIST_ACTIVE|EVLIST_ACTIVE_LATER)))   /* c02_del_nolock */
__CPROVER_ensures(REMOVE_ENS(ev))
__CPROVER_ensures(__CPROVER_return_value == 0 || __CPROVER_return_value == -1)
;
VF_CONTRACT_V(rm_top_c, struct event_base *base, struct event *ev)
__CPROVER_requires(base == &BASE && REMOVE_REQ(ev))
__CPROVER_requires(ev->ev_flags & (EVLIST_ACTIVE|EVLIST_ACTIVE_LATER))                      /* an already active event only loses its timer */
__CPROVER_assigns(ev->ev_evcallback.evcb_flags, BASE.timeheap.n, HP[0], g_removed)
__CPROVER_ensures(ev->ev_flags == (__CPROVER_old(ev->ev_flags) & ~EVLIST_TIMEOUT))            /* c02_q_remove_timeout */
__CPROVER_ensures(REMOVE_ENS(ev))
;
VF_CONTRACT_V(act_c, struct event *ev, int res, short ncalls)
__CPROVER_requires(C01_HEAP_MEMBER(ev) && (g_removed & BIT(ev)) && !(g_activated & BIT(ev)))  /* the one just removed, once */
__CPROVER_requires(!(ev->ev_flags & EVLIST_TIMEOUT))                                        /* registration already gone */
__CPROVER_requires(DUE_EV(ev))                                                              /* never early */
__CPROVER_requires(res == EV_TIMEOUT && ncalls == 1)
__CPROVER_assigns(ev->ev_evcallback.evcb_flags, ev->ev_res, g_activated)
__CPROVER_ensures(g_activated == (__CPROVER_old(g_activated) | BIT(ev)))
__CPROVER_ensures((ev->ev_flags & ~(EVLIST_ACTIVE|EVLIST_ACTIVE_LATER)) == (__CPROVER_old(ev->ev_flags) & ~(EVLIST_ACTIVE|EVLIST_ACTIVE_LATER)) && (ev->ev_res & EV_TIMEOUT))   /* c02_active_nolock */
;
VF_CONTRACT(int, gettime_once_c, struct event_base *base, struct timeval *tp)
__CPROVER_requires(base == &BASE && g_gettimes == 0)                                        /* one clock reading per pass */
__CPROVER_assigns(*tp, g_gettimes)
__CPROVER_ensures(__CPROVER_return_value == 0 && g_gettimes == 1 && tp->tv_sec == g_now_sec && tp->tv_usec == g_now_usec)
;

VF_CONTRACT_V(tp_c, struct event_base *base)
__CPROVER_requires(base == &BASE)
__CPROVER_requires(BASE.th_base_lock == NULL || g_lock_depth[1] == 1)
__CPROVER_requires(g_removed == 0 && g_activated == 0 && g_gettimes == 0)
__CPROVER_assigns(T_0.ev_evcallback.evcb_flags, T_1.ev_evcallback.evcb_flags, T_2.ev_evcallback.evcb_flags, T_0.ev_res, T_1.ev_res, T_2.ev_res,
	BASE.timeheap.n, HP[0], g_removed, g_activated, g_gettimes)
/* every removed timer was activated (and vice versa), exactly once (the callee contracts refuse a second time) */
__CPROVER_ensures(g_removed == g_activated)
/* the pass ends with an empty heap or a top that is not yet due */
__CPROVER_ensures(BASE.timeheap.n == 0 || !DUE_EV(TOP))
/* size accounting: one heap element per removed timer */
__CPROVER_ensures(BASE.timeheap.n == IN.b.heap_n - ((g_removed & 1) ? 1 : 0) - ((g_removed & 2) ? 1 : 0) - ((g_removed & 4) ? 1 : 0))
__CPROVER_ensures(g_lock_depth[1] == __CPROVER_old(g_lock_depth[1]))
;
void harness(void)
{
	unsigned j;
	VF_LOAD_IN(); VF_INSTALL_LOCKS();
	c02_build_base(&IN.b);
	if (BASE.th_base_lock) g_lock_depth[1] = 1;
	g_now_sec = IN.b.now_sec; g_now_usec = IN.b.now_usec; g_removed = 0; g_activated = 0; g_gettimes = 0;
	__CPROVER_assume(IN.b.heap_n <= NTM);
	for (j = 0; j < NTM; j++) {
		__CPROVER_assume(C02_TV_OK(IN.sec[j], IN.usec[j]));
		__CPROVER_assume((IN.flags[j] & ~EVLIST_ALL) == 0 && (IN.flags[j] & EVLIST_INIT) && (IN.flags[j] & EVLIST_TIMEOUT) && !(IN.flags[j] & EVLIST_FINALIZING));
		__CPROVER_assume((IN.flags[j] & (EVLIST_ACTIVE|EVLIST_ACTIVE_LATER)) != (EVLIST_ACTIVE|EVLIST_ACTIVE_LATER));
		TP[j]->ev_flags = IN.flags[j]; TP[j]->ev_res = 0; TP[j]->ev_base = &BASE;
		TP[j]->ev_timeout.tv_sec = IN.sec[j]; TP[j]->ev_timeout.tv_usec = IN.usec[j];
	}
	HP[0] = &T_0;
	VF_CALL_V(tp_c, timeout_process, &BASE);
	for (j = 0; j < NTM; j++) {
		int bit = 1 << j;
		if (g_removed & bit) {
			__CPROVER_assert(IN.sec[j] < IN.b.now_sec || (IN.sec[j] == IN.b.now_sec && IN.usec[j] <= IN.b.now_usec), "a timer that fired was due (never early)");
			__CPROVER_assert(!(TP[j]->ev_flags & EVLIST_TIMEOUT) && (TP[j]->ev_res & EV_TIMEOUT), "a timer that fired is no longer pending for its timeout and reports EV_TIMEOUT");
		} else {
			__CPROVER_assert(TP[j]->ev_flags == IN.flags[j] && TP[j]->ev_res == 0, "a timer that did not fire is untouched");
		}
	}
#ifdef VF_CANARY
	__CPROVER_assert(g_removed == 0, "canary: must fail (due timers fire)");
#endif
}
