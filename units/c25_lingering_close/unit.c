/* C25 — evhttp_lingering_close (real http.c): after a body was found to exceed max_body_size
 * and EVHTTP_CON_LINGERING_CLOSE is set, the connection keeps reading so that the 413 reply
 * can reach the client, and drains the input "up to the limit": at most the rest of the
 * ANNOUNCED body is discarded, nothing is stored, and the connection fails (closes) exactly
 * when the announced length has been drained.  Loop-free; all sizes symbolic. */
#include "vf.h"
#include "http.c"
struct in { size_t buffered; ev_int64_t ntoread; size_t body_size; };
struct in IN;
#include "stubs/log.h"
#include "stubs/c23_http_env.h"
#include "c23_contracts.h"

#define MINSZ(a, b) ((a) < (b) ? (a) : (b))
#define N_DRAIN MINSZ(IN.buffered, (size_t)IN.ntoread)

VF_CONTRACT_V(lingering_close_c, struct evhttp_connection *evcon, struct evhttp_request *req)
__CPROVER_requires(__CPROVER_rw_ok(evcon, sizeof(*evcon)) && __CPROVER_rw_ok(req, sizeof(*req)))
__CPROVER_requires(evcon->bufev == &BEV)
__CPROVER_requires(req->ntoread == IN.ntoread && req->body_size == IN.body_size && EB[E_IN].len == IN.buffered)
__CPROVER_requires(EB[E_IN].drained == 0 && g_fail_calls == 0)
/* call site (evhttp_read_body via evhttp_lingering_fail, evhttp_get_body): a Content-Length body is being read */
__CPROVER_requires(req->ntoread >= 0)
__CPROVER_assigns(req->ntoread, req->body_size, EB[E_IN].len, EB[E_IN].drained, g_fail_calls, g_fail_error)
/* 1 exactly min(buffered, rest of the announced body) is discarded */
__CPROVER_ensures(EB[E_IN].drained == N_DRAIN && EB[E_IN].len == IN.buffered - N_DRAIN)
/* 2 never past the end of the announced body: the rest stays >= 0 and decreases by the drained amount */
__CPROVER_ensures(req->ntoread >= 0 && req->ntoread == IN.ntoread - (ev_int64_t)N_DRAIN)
/* 3 drained bytes are accounted as body bytes */
__CPROVER_ensures(req->body_size == IN.body_size + N_DRAIN)
/* 4 the connection is failed with DATA_TOO_LONG exactly when the whole announced body is gone */
__CPROVER_ensures(g_fail_calls == (req->ntoread == 0 ? 1 : 0))
__CPROVER_ensures(IMP(g_fail_calls == 1, g_fail_error == (int)EVREQ_HTTP_DATA_TOO_LONG))
;

static struct evhttp_connection EVCON; static struct evhttp_request REQ;
void harness(void)
{

	VF_LOAD_IN(); VF_HTTP_ENV_RESET(); VF_C23_GHOST_RESET();
	__CPROVER_assume(IN.ntoread >= 0);
	EVCON.bufev = &BEV; REQ.evcon = &EVCON;
	REQ.ntoread = IN.ntoread; REQ.body_size = IN.body_size; EB[E_IN].len = IN.buffered;
	VF_CALL_V(lingering_close_c, evhttp_lingering_close, &EVCON, &REQ);
#ifdef VF_CANARY
	__CPROVER_assert(g_fail_calls == 0, "canary: must fail (the connection is failed when everything is drained)");
#endif
}
