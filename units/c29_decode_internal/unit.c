/* C29 — evhttp_decode_uri_internal (real http.c): memory safety and size bound of the URI decoder for
 * EVERY input length < INT_MAX and every content / decode_plus_ctl:
 *   - reads only uri[0 .. length) (the input object has EXACTLY length bytes: reading uri[length] — e.g. the
 *     two bytes after a trailing '%' — would be out of bounds),
 *   - writes only ret[0 .. length] (the output object has EXACTLY length + 1 bytes),
 *   - returns n with 0 <= n <= length ("decoding any input writes no more than its length"), ret[n] == 0,
 *   - no signed overflow of the int index j, no wrap of the unsigned index i.
 * The loop is closed by a loop contract (loops.json): integer indices, writes through the loop-invariant
 * pointer ret.  The functional content of the decoding (which bytes) is unit c29_decode_content (bounded).
 *
 * Precondition length < INT_MAX: the function indexes with `unsigned i` / `int j` against `size_t length`;
 * for length >= INT_MAX j overflows (DESIGN 10.4).  Callers pass strlen() of a path / query value / public
 * API argument; nothing in http.c bounds it, see the agent report ("candidate defects"). */
#ifndef VF_DEC_CAP
#define VF_DEC_CAP ((size_t)INT_MAX - 1)
#endif
#include "vf.h"
#include "http.c"
struct in { size_t length; int ctl; size_t a; unsigned char ab; unsigned char head[4]; };
struct in IN;
#include "stubs/log.h"
#include "stubs/c28_ctype.h"
#define VF_C28_WANT_STRTOL
#include "stubs/c28_libc_ref.h"

char *URI; char *RET;

VF_CONTRACT(int, decode_c, const char *uri, size_t length, char *ret, int decode_plus_ctl)
__CPROVER_requires(length < INT_MAX)   /* unsigned i / int j against size_t length: see header */
__CPROVER_requires(uri == URI && ret == RET && length == IN.length)
__CPROVER_assigns(__CPROVER_object_whole(ret))
__CPROVER_ensures(__CPROVER_return_value >= 0 && (size_t)__CPROVER_return_value <= length)
__CPROVER_ensures(ret[__CPROVER_return_value] == '\0')
;

void harness(void)
{
	int n; size_t k;
	VF_LOAD_IN();
	__CPROVER_assume(IN.length <= VF_DEC_CAP);
#ifdef VF_NATIVE
	URI = calloc(IN.length ? IN.length : 1, 1); RET = calloc(IN.length + 1, 1);
	memset(URI, 'a', IN.length);
#else
	URI = malloc(IN.length); RET = malloc(IN.length + 1);
	__CPROVER_assume(URI != NULL && RET != NULL);
#endif
	for (k = 0; k < 4; k++) if (k < IN.length) URI[k] = (char)IN.head[k];
	if (IN.a < IN.length && IN.a >= 4) URI[IN.a] = (char)IN.ab;
	n = VF_CALL(decode_c, evhttp_decode_uri_internal, URI, IN.length, RET, IN.ctl);
#ifdef VF_CANARY
	__CPROVER_assert(!(IN.length == 70000 && n == 69998), "canary: must fail (one %XX escape in a 70000-byte input decodes to 69998 bytes)");
#endif
	(void)n;
}
