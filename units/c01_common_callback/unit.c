/* C01/C08 — common_timeout_callback (real event.c) with its callees replaced by contracts whose
 * `requires` are the property's call-site obligations:
 *   - only the HEAD of the queue is ever taken out (one common-timeout queue runs in FIFO order), and
 *     only when its deadline (magic bits masked out) is <= now ("never early");
 *   - its timeout registration is removed before it is activated (event_del_nolock_(NOBLOCK) for an
 *     idle event, event_queue_remove_timeout for an already active one) — "exactly once per add";
 *   - it is activated with exactly EV_TIMEOUT, ncalls 1;
 *   - the walk stops at the first head that is not yet due; the queue's timer is then re-armed for
 *     exactly that head (common_timeout_schedule), and not at all when the queue is drained;
 *   - th_base_lock is taken once and released.
 * The loop walks-and-mutates a TAILQ => bounded stand-in: queues of <= 3 events (real links built by
 * the harness), unwound 4x; deadlines, flags, clock symbolic. */
#define VF_NLOCKS 1
#include "vf.h"
#include "event.c"
#include "stubs/lock.h"
#include "stubs/log.h"
#define C02_NO_AQ
#include "c02_event_shape.h"
#define NTM 3
struct in { struct c02_base_in b; unsigned n; long sec[NTM], usec[NTM]; short flags[NTM]; unsigned cidx; };
struct in IN;
static struct event T_0, T_1, T_2;
static struct event *const TP[NTM] = { &T_0, &T_1, &T_2 };
#include "c02_event_contracts.h"
#include "c01_timer_contracts.h"
#define HEAD (CTL.events.tqh_first)
#define IS_T(x) ((x) == &T_0 || (x) == &T_1 || (x) == &T_2)
#define USEC_MASK 0xfffffL
#define DUE_EV(e) ((e)->ev_timeout.tv_sec < g_now_sec || ((e)->ev_timeout.tv_sec == g_now_sec && ((e)->ev_timeout.tv_usec & USEC_MASK) <= g_now_usec))
int g_removed, g_activated, g_gettimes, g_scheds; struct event *g_sched_head;
#define BIT(e) ((e) == &T_0 ? 1 : (e) == &T_1 ? 2 : 4)
#define LOCKED (BASE.th_base_lock == NULL || g_lock_depth[1] == 1)
/* taking the head out: the new head is the old head's successor (FIFO) */
#define REMOVE_REQ(ev) ((ev) == HEAD && IS_T(ev) && ((ev)->ev_flags & EVLIST_TIMEOUT) && DUE_EV(ev) && !(g_removed & BIT(ev)) && LOCKED)
#define REMOVE_ENS(ev) (g_removed == (__CPROVER_old(g_removed) | BIT(ev)) && __CPROVER_pointer_equals(HEAD, __CPROVER_old(C02_TLNK(ev).tqe_next)))
VF_CONTRACT(int, del_head_c, struct event *ev, int blocking)
__CPROVER_requires(REMOVE_REQ(ev))
__CPROVER_requires(blocking == EVENT_DEL_NOBLOCK)
__CPROVER_requires(!(ev->ev_flags & (EVLIST_ACTIVE|EVLIST_ACTIVE_LATER)))
__CPROVER_assigns(ev->ev_evcallback.evcb_flags, CTL.events.tqh_first, g_removed)
__CPROVER_ensures(ev->ev_flags == (__CPROVER_old(ev->ev_flags) & ~(EVLIST_TIMEOUT|EVLIST_INSERTED|EVLIST_ACTIVE|EVLIST_ACTIVE_LATER)))   /* c02_del_nolock */
__CPROVER_ensures(REMOVE_ENS(ev))
__CPROVER_ensures(__CPROVER_return_value == 0 || __CPROVER_return_value == -1)
;
VF_CONTRACT_V(rm_head_c, struct event_base *base, struct event *ev)
__CPROVER_requires(base == &BASE && REMOVE_REQ(ev))
__CPROVER_requires(ev->ev_flags & (EVLIST_ACTIVE|EVLIST_ACTIVE_LATER))
__CPROVER_assigns(ev->ev_evcallback.evcb_flags, CTL.events.tqh_first, g_removed)
__CPROVER_ensures(ev->ev_flags == (__CPROVER_old(ev->ev_flags) & ~EVLIST_TIMEOUT))            /* c02_q_remove_timeout */
__CPROVER_ensures(REMOVE_ENS(ev))
;
VF_CONTRACT_V(act_c, struct event *ev, int res, short ncalls)
__CPROVER_requires(IS_T(ev) && (g_removed & BIT(ev)) && !(g_activated & BIT(ev)) && LOCKED)
__CPROVER_requires(!(ev->ev_flags & EVLIST_TIMEOUT))
__CPROVER_requires(DUE_EV(ev))
__CPROVER_requires(res == EV_TIMEOUT && ncalls == 1)
__CPROVER_assigns(ev->ev_evcallback.evcb_flags, ev->ev_res, g_activated)
__CPROVER_ensures(g_activated == (__CPROVER_old(g_activated) | BIT(ev)))
__CPROVER_ensures((ev->ev_flags & ~(EVLIST_ACTIVE|EVLIST_ACTIVE_LATER)) == (__CPROVER_old(ev->ev_flags) & ~(EVLIST_ACTIVE|EVLIST_ACTIVE_LATER)) && (ev->ev_res & EV_TIMEOUT))
;
VF_CONTRACT(int, gettime_once_c, struct event_base *base, struct timeval *tp)
__CPROVER_requires(base == &BASE && g_gettimes == 0 && LOCKED)
__CPROVER_assigns(*tp, g_gettimes)
__CPROVER_ensures(__CPROVER_return_value == 0 && g_gettimes == 1 && tp->tv_sec == g_now_sec && tp->tv_usec == g_now_usec)
;
VF_CONTRACT_V(sched_c, struct common_timeout_list *ctl, const struct timeval *now, struct event *head)
__CPROVER_requires(ctl == &CTL && head != NULL && head == HEAD && LOCKED)              /* re-armed for the head that is left, under the lock */
__CPROVER_requires(!DUE_EV(head))                                                       /* ... which is not yet due */
__CPROVER_requires(g_scheds == 0)
__CPROVER_assigns(g_scheds, g_sched_head)
__CPROVER_ensures(g_scheds == 1 && g_sched_head == head)
;
VF_CONTRACT_V(ctc_c, evutil_socket_t fd, short what, void *arg)
__CPROVER_requires(arg == (void *)&CTL)
__CPROVER_requires(g_lock_depth[1] == 0 && g_lock_ops == 0)                              /* event callbacks run with th_base_lock released */
__CPROVER_requires(g_removed == 0 && g_activated == 0 && g_gettimes == 0 && g_scheds == 0)
__CPROVER_assigns(T_0.ev_evcallback.evcb_flags, T_1.ev_evcallback.evcb_flags, T_2.ev_evcallback.evcb_flags, T_0.ev_res, T_1.ev_res, T_2.ev_res,
	CTL.events.tqh_first, g_removed, g_activated, g_gettimes, g_scheds, g_sched_head, g_lock_depth[1], g_lock_ops)
__CPROVER_ensures(g_removed == g_activated)
__CPROVER_ensures(HEAD == NULL || !DUE_EV(HEAD))
__CPROVER_ensures(g_scheds == (HEAD != NULL ? 1 : 0) && IMP(HEAD != NULL, g_sched_head == HEAD))
/* C08 */
__CPROVER_ensures(g_lock_depth[1] == 0 && g_lock_ops == ((IN.b.has_lock & 1) ? 2 : 0))
;
void harness(void)
{
	unsigned j; long magic; int first_pending = -1;
	VF_LOAD_IN(); VF_INSTALL_LOCKS();
	c02_build_base(&IN.b);
	g_now_sec = IN.b.now_sec; g_now_usec = IN.b.now_usec; g_removed = 0; g_activated = 0; g_gettimes = 0; g_scheds = 0; g_sched_head = NULL;
	__CPROVER_assume(IN.n <= NTM);
	magic = 0x50000000L | ((long)(IN.cidx & 0xff) << 20);
	CTL.base = &BASE; TAILQ_INIT(&CTL.events);
	for (j = 0; j < NTM; j++) {
		if (j >= IN.n) break;
		__CPROVER_assume(C02_TV_OK(IN.sec[j], IN.usec[j]));
		/* queue invariant TInv(iii): sorted by deadline (c01_ctl_insert) */
		if (j > 0) __CPROVER_assume(IN.sec[j-1] < IN.sec[j] || (IN.sec[j-1] == IN.sec[j] && IN.usec[j-1] <= IN.usec[j]));
		__CPROVER_assume((IN.flags[j] & ~EVLIST_ALL) == 0 && (IN.flags[j] & EVLIST_INIT) && (IN.flags[j] & EVLIST_TIMEOUT) && !(IN.flags[j] & EVLIST_FINALIZING));
		__CPROVER_assume((IN.flags[j] & (EVLIST_ACTIVE|EVLIST_ACTIVE_LATER)) != (EVLIST_ACTIVE|EVLIST_ACTIVE_LATER));
		TP[j]->ev_flags = IN.flags[j]; TP[j]->ev_res = 0; TP[j]->ev_base = &BASE;
		TP[j]->ev_timeout.tv_sec = IN.sec[j]; TP[j]->ev_timeout.tv_usec = IN.usec[j] | magic;
		TAILQ_INSERT_TAIL(&CTL.events, TP[j], ev_timeout_pos.ev_next_with_common_timeout);
	}
	VF_CALL_V(ctc_c, common_timeout_callback, -1, EV_TIMEOUT, &CTL);
	for (j = 0; j < NTM; j++) {
		int bit = 1 << j, due;
		if (j >= IN.n) break;
		due = IN.sec[j] < IN.b.now_sec || (IN.sec[j] == IN.b.now_sec && IN.usec[j] <= IN.b.now_usec);
		if (!due && first_pending < 0) first_pending = (int)j;
		/* sorted queue + head-only removal + stop at the first later one  ==>  exactly the due events fired */
		__CPROVER_assert(IFF(g_removed & bit, due), "an event of the queue fired iff its deadline is <= now (never early, never skipped)");
		if (g_removed & bit) __CPROVER_assert(!(TP[j]->ev_flags & EVLIST_TIMEOUT) && (TP[j]->ev_res & EV_TIMEOUT), "a fired event is no longer pending for its timeout and reports EV_TIMEOUT");
		else __CPROVER_assert(TP[j]->ev_flags == IN.flags[j] && TP[j]->ev_res == 0, "an event that did not fire is untouched");
	}
	__CPROVER_assert(HEAD == (first_pending < 0 ? NULL : TP[first_pending]), "the queue now starts at the first event that is not yet due");
#ifdef VF_CANARY
	__CPROVER_assert(g_removed == 0, "canary: must fail (due events fire)");
#endif
}
