/* C38 — evdns_getaddrinfo_fromhosts: the unit text is shared with c38_fromhosts_lock (contracts/c38_fromhosts_unit.h). */
#include "c38_fromhosts_unit.h"
