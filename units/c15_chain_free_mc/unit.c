/* C15/C10 — evbuffer_chain_free on a MULTICAST chain (the recursive case): same harness and contract as unit
 * c15_chain_free, restricted to chains that carry EVBUFFER_MULTICAST (the other kinds are that unit's). */
#define C15_ONLY_MC
#include "../c15_chain_free/unit.c"
