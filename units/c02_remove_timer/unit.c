/* C01/C02 — event_remove_timer_nolock_ (real event.c): a pending timeout is cancelled (TIMEOUT
 * cleared, registration removed, counted) and the persist interval forgotten; everything else about
 * the event (INSERTED, ACTIVE, result flags, and for signal events the ncalls bookkeeping that
 * shares storage with the interval) is left alone; without a pending timeout nothing changes. */
#define VF_NLOCKS 1
#include "vf.h"
#include "event.c"
#include "stubs/lock.h"
#include "stubs/log.h"
#include "c02_event_shape.h"
struct in { struct c02_base_in b; struct c02_ev_in e; struct c02_q_in q; int aqtail; int res; short ncalls; int even; int del_ret; int is_event; };
struct in IN;
#include "c02_event_contracts.h"
#include "c01_timer_contracts.h"
#define F0 ((int)IN.e.flags)
#define EVS ((int)IN.e.events)
#define NEED_NOTIFY0 ((IN.b.threads & 1) && (IN.b.running_loop & 1) && IN.b.owner != IN.b.self)
#define IN_THREAD0 (!(IN.b.threads & 1) || IN.b.owner == IN.b.self)
#define NOTIFIED(due) (IMP(due, BASE.th_notify_fn == NULL || BASE.is_notify_pending == 1) && \
	g_notify_calls == (((due) && (IN.b.has_notify_fn & 1) && !(IN.b.is_notify_pending & 1)) ? 1 : 0) && \
	IMP(!(due), BASE.is_notify_pending == (IN.b.is_notify_pending & 1)))
#define EVCB (&EV.ev_evcallback)
/* frame shared by the activation functions: flags, result, counters, the two queues' neighbourhoods, wake-up state */
#define ACT_FRAME EV.ev_evcallback.evcb_flags, EV.ev_evcallback.evcb_active_next, EV.ev_res, \
	BASE.event_count, BASE.event_count_max, BASE.event_count_active, BASE.event_count_active_max, \
	AQ[IN.e.pri], BASE.active_later_queue, NB[0].ev_evcallback.evcb_active_next, NB[1].ev_evcallback.evcb_active_next, \
	FAR_EV.ev_evcallback.evcb_active_next, NB2.ev_evcallback.evcb_active_next, BASE.is_notify_pending, g_notify_calls
/* common set-up: base, subject, its queues; when not ACTIVE the queue of its priority is empty or ends in NB2 */
#define SETUP(is_ev) do { VF_LOAD_IN(); VF_INSTALL_LOCKS(); c02_build_base(&IN.b); c02_build_ev(&EV, &IN.e, (is_ev)); \
	if (BASE.th_base_lock) g_lock_depth[1] = 1; C02_ASSUME_ASSIGNED(&IN.e); C02_ASSUME_COUNTED(F0); c02_link_ev(&IN.e, &IN.q); \
	if (!(F0 & EVLIST_ACTIVE)) C02_TAIL_OF(&AQ[IN.e.pri], evcb_active_next, &NB2.ev_evcallback, IN.aqtail); \
	if (!(F0 & (EVLIST_ACTIVE|EVLIST_ACTIVE_LATER))) C02_TAIL_OF(&BASE.active_later_queue, evcb_active_next, &NB[1].ev_evcallback, IN.q.ashape); } while (0)
#define AT_TAIL_OF_AQ (AQ[IN.e.pri].tqh_last == &EV.ev_evcallback.evcb_active_next.tqe_next && EV.ev_evcallback.evcb_active_next.tqe_next == NULL && \
	((IN.aqtail & 1) ? NB2.ev_evcallback.evcb_active_next.tqe_next == EVCB : AQ[IN.e.pri].tqh_first == EVCB))

#define HAD (F0 & EVLIST_TIMEOUT)
VF_CONTRACT(int, remove_timer_c, struct event *ev)
__CPROVER_requires(ev == &EV)
__CPROVER_requires(BASE.th_base_lock == NULL || g_lock_depth[1] == 1)
__CPROVER_assigns(EV.ev_evcallback.evcb_flags, EV.ev_timeout_pos, EV.ev_, BASE.event_count, BASE.timeheap.n, HP[0],
	CTL.events, NB[0].ev_timeout_pos, NB[1].ev_timeout_pos, FAR_EV.ev_timeout_pos)
__CPROVER_ensures(__CPROVER_return_value == 0)
__CPROVER_ensures(EV.ev_flags == (F0 & ~EVLIST_TIMEOUT))
__CPROVER_ensures(BASE.event_count == IN.b.event_count - (HAD ? C02_NONINT(F0) : 0))
__CPROVER_ensures(BASE.timeheap.n == IN.b.heap_n - ((HAD && !O_old_common) ? 1 : 0))
/* the persist interval is forgotten with the timeout (non-signal events) */
__CPROVER_ensures(IMP(!(EVS & EV_SIGNAL), EV.ev_io_timeout.tv_sec == (HAD ? 0 : IN.e.io_sec) && EV.ev_io_timeout.tv_usec == (HAD ? 0 : IN.e.io_usec)))
__CPROVER_ensures(g_lock_depth[1] == __CPROVER_old(g_lock_depth[1]))
;
void harness(void)
{
	int r;
	SETUP(1);
	/* Known candidate defect (reported; isolated in unit c02_remove_timer_kf): for a SIGNAL event with a pending timeout the
	 * unconditional evutil_timerclear(&ev->ev_io_timeout) overwrites ev_ncalls / ev_pncalls (same union storage). */
#define KF_CASE ((EVS & EV_SIGNAL) && HAD && (IN.e.ncalls != 0 || IN.e.has_pncalls))
#if defined(VF_KF_EXCLUDE) || defined(C02_RT_EXCLUDE_KF)
	__CPROVER_assume(!KF_CASE);
#endif
#if defined(VF_KF_ONLY) || defined(C02_RT_ONLY_KF)
	__CPROVER_assume(KF_CASE);
#endif
	r = VF_CALL(remove_timer_c, event_remove_timer_nolock_, &EV);
	(void)r;
	/* signal events have no interval: their ncalls / pncalls (same storage as the interval) must survive — stated here
	 * rather than in the contract because the field macros do not survive the native generator's second expansion */
	if (EVS & EV_SIGNAL) __CPROVER_assert(EV.ev_ncalls == IN.e.ncalls && EV.ev_pncalls == (IN.e.has_pncalls ? &PNCALLS : NULL), "signal event: ev_ncalls / ev_pncalls survive event_remove_timer");
#ifdef VF_CANARY
	__CPROVER_assert(EV.ev_flags == F0, "canary: must fail (a pending timeout is cancelled)");
#endif
}
