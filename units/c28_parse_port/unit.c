/* C28 — parse_port (real http.c): for every byte string [s, eos) of <= VF_N bytes (all byte values):
 *   returns the decimal value when every byte is a digit and the value is <= 65535 (empty -> 0), else -1;
 *   reads only [s, eos) (the object ends at eos); no signed overflow for any digit string of this length. */
#ifndef VF_N
#define VF_N 7
#endif
#include "vf.h"
#include "http.c"
struct in { unsigned char s[VF_N]; unsigned n; };
struct in IN;
#include "stubs/log.h"
#include "stubs/c28_ctype.h"
static char B[VF_N];
void harness(void)
{
	int r; unsigned k; long v = 0; int bad = 0; char *s;
	VF_LOAD_IN();
	__CPROVER_assume(IN.n <= VF_N);
	s = B + (VF_N - IN.n);                                    /* eos == one past the object */
	for (k = 0; k < VF_N; k++) if (k < IN.n) s[k] = (char)IN.s[k];
	for (k = 0; k < VF_N; k++) {
		if (k >= IN.n) break;
		if (!(IN.s[k] >= '0' && IN.s[k] <= '9')) { bad = 1; break; }
		v = v * 10 + (IN.s[k] - '0');
		if (v > 65535) { bad = 1; break; }
	}
	r = parse_port(s, s + IN.n);
	__CPROVER_assert(r == (bad ? -1 : (int)v), "parse_port: the decimal value of an all-digit string <= 65535, else -1");
#ifdef VF_CANARY
	__CPROVER_assert(r != 65535, "canary: must fail (65535 is a valid port)");
#endif
}
