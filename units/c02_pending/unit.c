/* C02/C01/C08 — event_pending (real event.c, public): the answer is exactly
 * what & ( I/O|signal interest if INSERTED  |  result flags if ACTIVE or ACTIVE_LATER  |  EV_TIMEOUT if TIMEOUT ),
 * the expiry time is written iff asked for and a timeout is reported, equals the stored deadline
 * with the common-timeout magic bits removed, translated to wall-clock time by tv_clock_diff;
 * nothing else changes and th_base_lock is released. */
#define VF_NLOCKS 1
#include "vf.h"
#include "event.c"
#include "stubs/lock.h"
#include "stubs/log.h"
#define C02_NO_AQ
#include "c02_event_shape.h"
struct in { struct c02_base_in b; struct c02_ev_in e; short what; int tv_null; long out_sec, out_usec; int nobase; };
struct in IN;
static struct timeval OUT;
#define F0 ((int)IN.e.flags)
#define MASK5 (EV_TIMEOUT|EV_READ|EV_WRITE|EV_CLOSED|EV_SIGNAL)
#define MODEL ((((F0 & EVLIST_INSERTED) ? (IN.e.events & (EV_READ|EV_WRITE|EV_CLOSED|EV_SIGNAL)) : 0) | \
	((F0 & (EVLIST_ACTIVE|EVLIST_ACTIVE_LATER)) ? IN.e.res : 0) | ((F0 & EVLIST_TIMEOUT) ? EV_TIMEOUT : 0)) & IN.what & MASK5)
#define REPORTS (!IN.nobase && !IN.tv_null && (MODEL & EV_TIMEOUT))
#define SUMU ((IN.e.to_usec & 0xfffffL) + IN.b.diff_usec)
VF_CONTRACT(int, pending_c, const struct event *ev, short event, struct timeval *tv)
__CPROVER_requires(ev == &EV && event == IN.what && (tv == NULL || tv == &OUT) && (tv == NULL) == (IN.tv_null != 0))
__CPROVER_requires(g_lock_depth[1] == 0 && g_lock_ops == 0)
__CPROVER_assigns(OUT, g_lock_depth[1], g_lock_ops)
__CPROVER_ensures(__CPROVER_return_value == (IN.nobase ? 0 : MODEL))
__CPROVER_ensures(IMP(REPORTS, OUT.tv_sec == IN.e.to_sec + IN.b.diff_sec + (SUMU >= 1000000 ? 1 : 0) && OUT.tv_usec == (SUMU >= 1000000 ? SUMU - 1000000 : SUMU)))
__CPROVER_ensures(IMP(!REPORTS, OUT.tv_sec == IN.out_sec && OUT.tv_usec == IN.out_usec))
/* C08 */
__CPROVER_ensures(g_lock_depth[1] == 0 && g_lock_ops == ((!IN.nobase && (IN.b.has_lock & 1)) ? 2 : 0))
;
void harness(void)
{
	int r;
	VF_LOAD_IN(); VF_INSTALL_LOCKS();
	c02_build_base(&IN.b);
	c02_build_ev(&EV, &IN.e, 1);
	__CPROVER_assume(C02_DEADLINE_OK(IN.e.to_sec, IN.e.to_usec));
	__CPROVER_assume(IN.b.diff_sec >= -C02_SEC_MAX && IN.b.diff_sec <= C02_SEC_MAX && IN.b.diff_usec >= 0 && IN.b.diff_usec < 1000000);
	OUT.tv_sec = IN.out_sec; OUT.tv_usec = IN.out_usec;
	if (IN.nobase) EV.ev_base = NULL;
	r = VF_CALL(pending_c, event_pending, &EV, IN.what, IN.tv_null ? NULL : &OUT);
	(void)r;
	__CPROVER_assert(EV.ev_flags == IN.e.flags && EV.ev_res == IN.e.res && EV.ev_timeout.tv_usec == IN.e.to_usec, "a query changes nothing");
#ifdef VF_CANARY
	__CPROVER_assert(r == 0, "canary: must fail (pending events are reported)");
#endif
}
