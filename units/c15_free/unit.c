/* C10/C08 — evbuffer_free and evbuffer_incref_ (real buffer.c).  evbuffer_free = lock + evbuffer_decref_and_unlock_ (replaced by
 * its contract, unit c15_decref): the lock is taken exactly once and handed to the decref, which releases it.
 * Compile with -DC15_INCREF for evbuffer_incref_ (refcnt + 1, lock balanced, nothing else). */
#define VF_NLOCKS 3
#define VF_NCHOICE 8
#include "vf.h"
#include "stubs/c15_sys_redirect.h"
#include "buffer.c"
#include "stubs/lock.h"
struct c15_bin;
#include "c15_shape.h"
struct in { struct c15_bin b, s; unsigned held; unsigned ch[VF_NCHOICE]; };
struct in IN;
#include "stubs/log.h"
#include "stubs/c15_mm.h"
#include "stubs/c15_sys.h"
#include "c15_contracts.h"
int O_depth;

VF_CONTRACT_V(free_c, struct evbuffer *buffer)
__CPROVER_requires(buffer == &BUF && buffer->refcnt > 0 && !(m_al.sfreed & (1u << 9)) && g_lock_depth[1] == O_depth && g_lock_depth[2] == 0 && g_lock_depth[3] == 0)
__CPROVER_assigns(buffer->refcnt, __CPROVER_object_whole(g_lock_depth), g_lock_ops, m_st;
	buffer->refcnt == 1: __CPROVER_object_whole(&BUF), __CPROVER_object_whole(&XC[0]), __CPROVER_object_whole(&XC[1]), __CPROVER_object_whole(&XC[2]), __CPROVER_object_whole(&CBE[0]), __CPROVER_object_whole(&CBE[1]),
		__CPROVER_object_whole(&SRC), __CPROVER_object_whole(&PC[0]), __CPROVER_object_whole(&PC[1]), __CPROVER_object_whole(&PC[2]), __CPROVER_object_whole(&SEG))
/* C08: whatever the caller held before it still holds, nothing more */
__CPROVER_ensures(g_lock_depth[1] == O_depth && g_lock_depth[2] == 0 && g_lock_depth[3] == 0)
/* C10: one reference is dropped; the buffer is destroyed iff it was the last one */
__CPROVER_ensures(IMP(__CPROVER_old(buffer->refcnt) > 1, buffer->refcnt == __CPROVER_old(buffer->refcnt) - 1 && C15_AL_SAME() && C15_CL_SAME()))
__CPROVER_ensures(IMP(__CPROVER_old(buffer->refcnt) == 1, (m_al.sfreed & (1u << 9)) != 0))
;
VF_CONTRACT_V(incref_c, struct evbuffer *buf)
__CPROVER_requires(buf == &BUF && buf->refcnt > 0 && buf->refcnt < INT_MAX && g_lock_depth[1] == O_depth)
__CPROVER_assigns(buf->refcnt, __CPROVER_object_whole(g_lock_depth), g_lock_ops)
__CPROVER_ensures(buf->refcnt == __CPROVER_old(buf->refcnt) + 1 && g_lock_depth[1] == O_depth)
;

void harness(void)
{
	VF_LOAD_IN();
	VF_INSTALL_LOCKS(); C15_RESET(); C15_SYS_RESET();
	c15_build(&IN.b, 0, 0);
	c15_build(&IN.s, 1, 0);
	__CPROVER_assume(IN.b.nch == 0 || !(IN.b.flags[0] & (EVBUFFER_FILESEGMENT | EVBUFFER_MULTICAST)));   /* (chain kinds are c15_decref's business) */
	__CPROVER_assume(IN.b.nch <= 1);
	O_depth = (BUF.lock && (IN.held & 1)) ? 1 : 0;           /* the caller may hold the (recursive) lock already */
	g_lock_depth[1] = O_depth;
	C15_SNAPSHOT();
#ifdef C15_INCREF
	VF_CALL_V(incref_c, evbuffer_incref_, &BUF);
	__CPROVER_assert(BUF.first == O_BUF.first && BUF.total_len == O_BUF.total_len && C15_ALLXC_SAME() && m_al.frees == 0, "incref touches nothing but the count");
#else
	VF_CALL_V(free_c, evbuffer_free, &BUF);
#endif
#ifdef VF_CANARY
	__CPROVER_assert(g_lock_ops == 0, "canary: must fail (a buffer with a lock is locked and unlocked)");
#endif
}
