/* C29 — evhttp_htmlescape (real http.c, with the real html_replace) on bounded inputs: for every C string of
 * <= VF_N bytes (all non-NUL byte values at every position):
 *   H1 the output is the concatenation of the reference replacement of every input byte
 *      (< > " ' & -> &lt; &gt; &quot; &#039; &amp;, everything else itself), NUL-terminated;
 *      its length is the sum of the replacement lengths and the allocation is exactly length + 1 bytes
 *   H2 the output contains no raw < > " ' and every '&' in it starts one of the five entities
 *   H3 un-escaping the output (reference unescaper for exactly those five entities) gives back the input
 *   H4 NULL input -> NULL; allocation failure -> NULL; nothing leaks
 * The size-overflow guard (replace_size > EV_SIZE_MAX - new_size) cannot trigger at this bound; it is not
 * exercised (a string of more than SIZE_MAX/6 bytes would be needed). */
#ifndef VF_N
#define VF_N 6
#endif
#define VF_C28_MMCAP (6 * VF_N + 1)
#define VF_C28_MEMCAP 8
#include "vf.h"
#include "http.c"
struct in { unsigned char s[VF_N]; unsigned n; int null_in; unsigned ch[VF_NCHOICE]; };
struct in IN;
#include "stubs/log.h"
#define VF_C28_WANT_MEMCPY
#include "stubs/c28_libc_ref.h"
#include "stubs/c28_mm.h"

/* ---- reference (trusted): HTML 4.01 24.4 / HTML5 named + numeric character references of the five ---- */
static const char *ref_entity(unsigned char c)
{
	switch (c) {
	case '<': return "&lt;";
	case '>': return "&gt;";
	case '"': return "&quot;";
	case '\'': return "&#039;";
	case '&': return "&amp;";
	default: return NULL;
	}
}
static int ref_starts(const char *o, const char *lit)   /* does o start with lit? */
{
	unsigned k;
	for (k = 0; k < 7; k++) { if (lit[k] == 0) return (int)k; if (o[k] != lit[k]) return 0; }
	return 0;
}
static char S[VF_N + 1];

void harness(void)
{
	char *out; unsigned k, o, j;
	VF_LOAD_IN(); VF_MM_RESET();
	__CPROVER_assume(IN.n <= VF_N);
	for (k = 0; k < VF_N; k++) { __CPROVER_assume(!(k < IN.n) || IN.s[k] != 0); S[k] = k < IN.n ? (char)IN.s[k] : '\0'; }
	S[VF_N] = '\0';
	if (IN.null_in) {
		out = evhttp_htmlescape(NULL);
		__CPROVER_assert(out == NULL && g_mm_allocs == 0, "H4: NULL input gives NULL and allocates nothing");
		return;
	}
	out = evhttp_htmlescape(S);
	if (out == NULL) {
		__CPROVER_assert(g_mm_live == 0 && g_mm_failed > 0, "H4: fails only on allocation failure, leaks nothing");
		return;
	}
	__CPROVER_assert(g_mm_live == 1, "H1: exactly the result is allocated");
	/* H1 */
	o = 0;
	for (k = 0; k < VF_N; k++) {
		const char *e;
		if (k >= IN.n) break;
		e = ref_entity((unsigned char)S[k]);
		if (e == NULL) {
			__CPROVER_assert(out[o] == S[k], "H1: a byte that is not markup is copied");
			o += 1;
		} else {
			for (j = 0; j < 6; j++) { if (e[j] == 0) break; __CPROVER_assert(out[o + j] == e[j], "H1: a markup byte is replaced by its entity"); }
			o += j;
		}
	}
	__CPROVER_assert(out[o] == '\0', "H1: NUL-terminated right after the last replacement (length = sum of replacement lengths)");
#ifndef VF_NATIVE
	__CPROVER_assert(!__CPROVER_r_ok(out, o + 2), "H1: the allocation is exactly length + 1 bytes");
#endif
	/* H2 + H3: un-escape the output with the reference unescaper, one decoded character per step; it must
	 * yield exactly the n input bytes and consume the whole output; every consumed byte is checked for raw markup */
	j = 0;
	for (k = 0; k < VF_N; k++) {
		unsigned m = 1; unsigned char c;
		if (k >= IN.n) break;
		c = (unsigned char)out[j];
		__CPROVER_assert(c != '<' && c != '>' && c != '"' && c != '\'' && c != 0, "H2: no raw < > \" ' in the output");
		if (c == '&') {
			if ((m = (unsigned)ref_starts(out + j, "&lt;"))) c = '<';
			else if ((m = (unsigned)ref_starts(out + j, "&gt;"))) c = '>';
			else if ((m = (unsigned)ref_starts(out + j, "&quot;"))) c = '"';
			else if ((m = (unsigned)ref_starts(out + j, "&#039;"))) c = '\'';
			else if ((m = (unsigned)ref_starts(out + j, "&amp;"))) c = '&';
			__CPROVER_assert(m != 0, "H2: every '&' in the output starts one of the five entities");
			if (m == 0) m = 1;
		}
		__CPROVER_assert(c == (unsigned char)S[k], "H3: unescape(escape(s)) == s, character by character");
		j += m;
	}
	__CPROVER_assert(j == o && out[j] == '\0', "H3: the unescaper consumes the output exactly (unescaped length == input length)");
	mm_free(out);
	__CPROVER_assert(g_mm_live == 0, "H4: nothing leaks");
#ifdef VF_CANARY
	__CPROVER_assert(!(IN.n == 2 && o == 12), "canary: must fail (two quotes escape to 12 characters)");
#endif
}
