/* C15/C10 — evbuffer_chain_free against chain_free_lite_c (the contract the callers' units replace it by when their buffers hold
 * no multicast chain): same harness as unit c15_chain_free, chains that are not MULTICAST. */
#define C15_LITE
#define C15_NO_MC
#include "../c15_chain_free/unit.c"
