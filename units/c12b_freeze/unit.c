/* C12/C08 — evbuffer_freeze (real buffer.c): sets exactly one end's freeze flag, nothing else; lock balanced. */
#define VF_NLOCKS 1
#include "vf.h"
#include "buffer.c"
struct eb_in;
#include "stubs/lock.h"
#include "evbuffer_shape.h"

struct in { struct eb_in b; int start; unsigned ch[VF_NCHOICE]; };
struct in IN;
#include "stubs/log.h"
#include "stubs/mm.h"

unsigned O_fs, O_fe;
VF_CONTRACT(int, freeze_c, struct evbuffer *buffer, int start)
__CPROVER_requires(buffer == &BUF && g_lock_depth[1] == 0 && O_fs == BUF.freeze_start && O_fe == BUF.freeze_end)
__CPROVER_assigns(g_lock_depth[1], g_lock_ops, __CPROVER_object_whole(&BUF))
__CPROVER_ensures(g_lock_depth[1] == 0 && __CPROVER_return_value == 0)
/* exactly the selected end changes state; the other end keeps its state */
__CPROVER_ensures(IMP(start != 0, BUF.freeze_start == 1 && BUF.freeze_end == O_fe))
__CPROVER_ensures(IMP(start == 0, BUF.freeze_end == 1 && BUF.freeze_start == O_fs))
;
void harness(void)
{
	int r; struct evbuffer o;
	VF_LOAD_IN();
	vf_build_buf(&IN.b);
	VF_INSTALL_LOCKS(); VF_MM_RESET();
	O_fs = BUF.freeze_start; O_fe = BUF.freeze_end; o = BUF;
	r = VF_CALL(freeze_c, evbuffer_freeze, &BUF, IN.start);
	/* bit-fields cannot be named in an assigns clause: the rest of the buffer is compared against a snapshot */
	__CPROVER_assert(BUF.first == o.first && BUF.last == o.last && BUF.last_with_datap == o.last_with_datap && BUF.total_len == o.total_len && BUF.n_add_for_cb == o.n_add_for_cb && BUF.n_del_for_cb == o.n_del_for_cb
		&& BUF.lock == o.lock && BUF.own_lock == o.own_lock && BUF.deferred_cbs == o.deferred_cbs && BUF.flags == o.flags && BUF.refcnt == o.refcnt && BUF.callbacks.lh_first == o.callbacks.lh_first && BUF.parent == o.parent && BUF.cb_queue == o.cb_queue && BUF.max_read == o.max_read,
		"freeze changes nothing but the freeze flag: contents, length, counters, callbacks as before");
#ifdef VF_CANARY
	__CPROVER_assert(BUF.freeze_start == O_fs, "canary: must fail (freeze of the front changes freeze_start)");
#endif
}
