/* C12/C08 — evbuffer_peek (real buffer.c), bookkeeping unit on every shape of <= 3 chains with symbolic sizes:
 * the vectors handed out describe exactly the bytes from the start position on (extent i = the data window of
 * the i-th chain from there, the first one cut at the position), never anything outside a chain's data, and
 * the return value is the number of extents needed for `len` bytes (buffer.h). */
#define VF_NLOCKS 1
#include "vf.h"
#include "buffer.c"
struct eb_in;
#include "stubs/lock.h"
#include "evbuffer_shape.h"
#define NVEC 4
struct in { struct eb_in b; ev_ssize_t len; int n_vec; unsigned use_start; size_t p0; size_t v0[NVEC]; unsigned ch[VF_NCHOICE]; };
struct in IN;
#include "stubs/log.h"
#include "stubs/mm.h"
#include "c12b_ptr.h"

static struct evbuffer_ptr POS;
static struct evbuffer_iovec VEC[NVEC];
static char vf_untouched_;              /* initial iov_base of every vector */
int O_m;                                /* number of chains from the start position to the end of the list */

VF_CONTRACT(int, peek_c, struct evbuffer *buffer, ev_ssize_t len, struct evbuffer_ptr *start_at, struct evbuffer_iovec *vec, int n_vec)
__CPROVER_requires(buffer == &BUF && (start_at == NULL || start_at == &POS) && vec == VEC && 0 <= n_vec && n_vec <= NVEC && g_lock_depth[1] == 0)
__CPROVER_assigns(g_lock_depth[1], g_lock_ops, __CPROVER_object_whole(VEC))
__CPROVER_ensures(g_lock_depth[1] == 0)
__CPROVER_ensures(0 <= __CPROVER_return_value && __CPROVER_return_value <= O_m)
;

/* model side: extent i (i-th chain from the start chain c0) */
static size_t ext_len(int c0, size_t pic, int i) { return IN.b.off[c0 + i] - (i == 0 ? pic : 0); }
static size_t prefix(int c0, size_t pic, int k) { size_t s = 0; int i; for (i = 0; i < VF_EB_MAXCH; i++) { if (i >= k) break; s += ext_len(c0, pic, i); } return s; }

void harness(void)
{
	int r, c0 = 0, i, s0, nfill; size_t pic = 0, avail; ev_ssize_t eff;
	VF_LOAD_IN();
	vf_build_buf(&IN.b);
	VF_INSTALL_LOCKS(); VF_MM_RESET();
	__CPROVER_assume(0 <= IN.n_vec && IN.n_vec <= NVEC);
	for (i = 0; i < NVEC; i++) { VEC[i].iov_base = &vf_untouched_; VEC[i].iov_len = IN.v0[i]; }
	s0 = (IN.use_start & 1);
	if (s0) {
		__CPROVER_assume(IN.p0 <= BUF.total_len);
		vf_ptr_model(&IN.b, IN.p0, &POS);
		if (POS.internal_.chain) { c0 = POS.internal_.chain == &CH[0] ? 0 : POS.internal_.chain == &CH[1] ? 1 : 2; pic = POS.internal_.pos_in_chain; }
		else c0 = (int)IN.b.nch;
	} else IN.p0 = 0;
	O_m = (int)IN.b.nch - c0;
	avail = BUF.total_len - IN.p0;
	r = VF_CALL(peek_c, evbuffer_peek, &BUF, IN.len, s0 ? &POS : NULL, VEC, IN.n_vec);
	if (s0 && POS.internal_.chain == NULL) {
		__CPROVER_assert(r == 0 && g_lock_ops == 0, "peek from the end of the buffer: nothing, without locking");
	} else {
		__CPROVER_assert(r >= s0, "peek from a position inside the buffer reports at least the extent holding it");
		/* how many extents: enough for the request, and not one more than needed */
		eff = (IN.len < 0 && IN.n_vec == 0) ? (ev_ssize_t)avail : IN.len;
		if (eff >= 0) {
			__CPROVER_assert(IMP(r < O_m, prefix(c0, pic, r) >= (size_t)eff), "peek: the extents counted hold at least len bytes unless the buffer ends first");
			__CPROVER_assert(IMP(r > s0, prefix(c0, pic, r - 1) < (size_t)eff), "peek: no extent is counted beyond the one that completes len bytes");
		} else {
			__CPROVER_assert(r == (O_m < IN.n_vec ? O_m : IN.n_vec), "peek(len<0): as many extents as there are vectors and chains");
		}
	}
	nfill = r < IN.n_vec ? r : IN.n_vec;
	for (i = 0; i < NVEC; i++) {
		if (i < nfill) {
			__CPROVER_assert(VEC[i].iov_base == (void *)(CH[c0 + i].buffer + CH[c0 + i].misalign + (i == 0 ? pic : 0)), "peek: extent i starts at the chain's first data byte (the first one at the position)");
			__CPROVER_assert(VEC[i].iov_len == ext_len(c0, pic, i), "peek: extent i ends at the chain's last data byte");
		} else {
			__CPROVER_assert(VEC[i].iov_base == (void *)&vf_untouched_ && VEC[i].iov_len == IN.v0[i], "peek: vectors beyond the returned count are untouched");
		}
	}
	if (s0) __CPROVER_assert(vf_ptr_is(&IN.b, &POS, IN.p0), "peek: the position argument is not modified");
#ifdef VF_CANARY
	__CPROVER_assert(r <= IN.n_vec, "canary: must fail (more extents may be needed than vectors were given)");
#endif
}
