/* C03/C08/C10 — event_process_active_single_queue (real event.c), one priority queue processed with
 * arbitrary user code between the steps.
 *
 * Shape (the bound): K = 3 callback objects (malloc'ed struct event each; a bare event_callback is the
 * first member of such an object), n <= 3 of them queued on activequeues[rp] on entry, the others idle;
 * at most KD = 4 dispatches in one call (initial entries + re-activations from callbacks).  Everything
 * else is symbolic: closure kind of every object (all 7), flags (INTERNAL/INSERTED/TIMEOUT), events,
 * max_to_process, endtime, the clock after every callback, event_break/event_continue on entry, and the
 * re-entrant ACTION every user callback performs (IN.act[d] for the d-th dispatch):
 *   0 nothing  1 loopbreak  2 loopcontinue  3 activate object tgt (real event_callback_activate_)
 *   4 cancel/delete object tgt (effect of event_del per its contract; real event_queue_remove_active)
 *   5 free the object being run (event_free's effect on an idle event: real event_mm_free_)  6 another thread starts waiting for the running callback.
 *
 * Specification side (ghost): a model FIFO g_mq[] of object indices mirrors "activation order"; every
 * user-code entry point (the 4 function-pointer stubs; event_signal_closure and event_persist_closure are the
 * REAL ones and end in the same ev_callback stub) checks on entry:
 *   - base lock released (C08), - the object is the HEAD of the model FIFO (C03 FIFO), - the closure kind
 *   matches the entry point and the arguments are the object's (dispatch), - no stop condition
 *   (break / max_to_process / endtime / continue) was already true after the previous callback,
 *   - base->current_event is the callback (NULL for finalizers).
 * After the call the harness checks return value, count, "nothing lost unless told to stop", the real queue
 * == the model FIFO head, finalizer/free counts (C10), lock held again (C08).
 * Plain assert-harness (no --dfcc: the dfcc instrumentation of 5 unwindings x 7 closure kinds x 7 actions
 * produced 78 M SAT variables); every callee inside event.c is the real code.  Shape restrictions that keep
 * huge unrelated callees unreachable: no pending timeout on the 3 objects (EVLIST_TIMEOUT clear, ev_io_timeout
 * zero: the re-arm of event_persist_closure is C01's), signal events carry ev_ncalls == 1. */
#define VF_NLOCKS 1
#define VF_NCHOICE 6
#include "vf.h"
#include "event.c"

#define K 3
#ifndef KD
#define KD 4
#endif
#define MQ KD
struct in {
	int n, rp, max, has_end, brk0, cont0, extra_count;
	long end_sec, end_usec;
	unsigned char cl[K], isinit[K], pri[K];
	short fl[K], events[K], res[K], ncalls[K];
	int fd[K];
	unsigned char act[KD], tgt[KD];
	long now_sec[KD], now_usec[KD];
};
struct in IN;
#include "stubs/log.h"
#include "stubs/lock.h"

static unsigned long vf_thread_id(void) { return 7; }
static int vf_cond_signal(void *cond, int broadcast);
static char vf_condobj_;

static struct event_base BASE;
static struct evcallback_list Q[2];
static struct event *vf_heap_arr_[1];
static struct event O0, O1, O2;     /* three separate objects: symex keeps them field-sensitive (an array of structs indexed symbolically is not) */
struct event *g_obj[K];
#define OBJIDX(p) ((void *)(p) == (void *)g_obj[0] ? 0 : (void *)(p) == (void *)g_obj[1] ? 1 : (void *)(p) == (void *)g_obj[2] ? 2 : -1)

/* ghost (one object, so that the frame of the contracts stays short) */
struct ghost {
	struct {                     /* the part every user-code entry point updates */
		int mh;                      /* model FIFO head */
		int ndisp, cnt, stop_now;    /* dispatches so far, non-internal ones, "a stop condition held after the previous callback" */
		struct timeval now;          /* ghost clock, advanced by user code */
		int disp[K], kind[K];        /* per object: dispatches, entry point used last */
	} d;
	int mq[MQ], mt;              /* model FIFO of the running priority: entries mq[d.mh..mt) */
	int freed[K], fin[K], userfree[K];   /* per object: mm_free calls, finalizer calls, frees by user code */
	int waiters_set, bcast;
} g_s;
int g_max, g_has_end; struct timeval g_end;     /* copies of the call's arguments (constant during the call) */
#define g_mq g_s.mq
#define g_mh g_s.d.mh
#define g_mt g_s.mt
#define g_ndisp g_s.d.ndisp
#define g_cnt g_s.d.cnt
#define g_stop_now g_s.d.stop_now
#define g_now g_s.d.now
#define g_disp g_s.d.disp
#define g_freed g_s.freed
#define g_fin g_s.fin
#define g_kind g_s.d.kind
#define g_userfree g_s.userfree
#define g_waiters_set g_s.waiters_set
#define g_bcast g_s.bcast
#define TV_GE(a, b) ((a).tv_sec > (b).tv_sec || ((a).tv_sec == (b).tv_sec && (a).tv_usec >= (b).tv_usec))
#define STOP_F (BASE.event_break != 0 || g_cnt >= g_max || (g_cnt > 0 && g_has_end && TV_GE(g_now, g_end)) || BASE.event_continue != 0)

static int vf_cond_signal(void *cond, int broadcast) { (void)cond; __CPROVER_assert(broadcast == 1, "waiters are woken with a broadcast"); g_bcast++; return 0; }
static void vf_free(void *p)
{
	int k = OBJIDX(p);
	__CPROVER_assert(k >= 0, "mm_free: argument is a callback object of this unit");
	if (k >= 0) { __CPROVER_assert(g_freed[k] == 0, "C10: an object is freed at most once"); g_freed[k]++; }
#ifdef VF_DYN
	free(p);     /* unit c10_closure_free: the objects are malloc'ed, the memory really goes away */
#else
	/* the objects of this unit are statics: the free is recorded, memory effects are unit c10_closure_free's */
#endif
}

static void vf_model_remove(int t)
{
	int j, w = g_mh;
	for (j = 0; j < MQ; j++) {
		if (j < g_mh || j >= g_mt) continue;
		if (g_mq[j] == t) continue;
		g_mq[w++] = g_mq[j];
	}
	g_mt = w;
}

/* the part common to every user-code entry: checks + the re-entrant action */
static void vf_user(int idx, int kind, int is_finalizer)
{
	int d = g_ndisp, t;
	struct event_callback *self, *tc;
	__CPROVER_assert(idx >= 0, "dispatch: the callback argument identifies an object of this unit");
	if (idx < 0) return;
	self = &g_obj[idx]->ev_evcallback;
	__CPROVER_assert(g_lock_depth[1] == 0, "C08: user code runs with the base lock released");
	__CPROVER_assert(g_mh < g_mt && g_mq[g_mh] == idx, "C03: callbacks of one priority run in activation order (queue head first), each activation once");
	__CPROVER_assert(!g_stop_now, "C03: no callback runs after loopbreak / max_to_process / endtime / loopcontinue took effect");
	__CPROVER_assert(self->evcb_closure == kind, "dispatch: the entry point matches the closure kind");
	__CPROVER_assert(BASE.current_event == (is_finalizer ? NULL : self), "current_event is the running callback (NULL while a finalizer runs)");
	__CPROVER_assert(!(self->evcb_flags & EVLIST_ACTIVE), "the running callback was taken off the active queue first");
	__CPROVER_assert(d < KD, "harness bound: at most KD dispatches");
	if (d >= KD) return;
	g_mh++; g_ndisp++; g_disp[idx]++; g_kind[idx] = kind;
	g_cnt += !(self->evcb_flags & EVLIST_INTERNAL);
	if (is_finalizer) g_fin[idx]++;
	t = IN.tgt[d];
	switch (IN.act[d]) {
	case 1: vf_lock(0, BASE.th_base_lock); BASE.event_break = 1; vf_unlock(0, BASE.th_base_lock); break;     /* event_base_loopbreak's effect (unit c03_loopctl) */
	case 2: vf_lock(0, BASE.th_base_lock); BASE.event_continue = 1; vf_unlock(0, BASE.th_base_lock); break;  /* event_base_loopcontinue's effect */
	case 3:
		/* effect of event_active / event_callback_activate_ on the target (contracts: units c02_cb_activate,
		 * c02_q_insert_active): refused when FINALIZING, no-op when already active, else appended at the TAIL of the
		 * queue of its priority */
		tc = &g_obj[t]->ev_evcallback;
		vf_lock(0, BASE.th_base_lock);
		if (!(tc->evcb_flags & (EVLIST_ACTIVE | EVLIST_FINALIZING))) {
			if (tc->evcb_pri == BASE.event_running_priority) {
				__CPROVER_assume(g_mt < KD);          /* bound: at most KD entries ever in the running queue */
				g_mq[g_mt++] = t;
			}
			BASE.event_count += !(tc->evcb_flags & EVLIST_INTERNAL); BASE.event_count_active++;
			tc->evcb_flags |= EVLIST_ACTIVE;
			TAILQ_INSERT_TAIL(&Q[tc->evcb_pri], tc, evcb_active_next);
		}
		vf_unlock(0, BASE.th_base_lock);
		break;
	case 4:
		/* effect of event_del / event_callback_cancel_ on the target (contracts: units c02_del_nolock, c02_cb_cancel):
		 * refused when FINALIZING, otherwise off every queue */
		tc = &g_obj[t]->ev_evcallback;
		vf_lock(0, BASE.th_base_lock);
		if (!(tc->evcb_flags & EVLIST_FINALIZING)) {
			if (tc->evcb_flags & EVLIST_ACTIVE) {
				if (tc->evcb_pri == BASE.event_running_priority) vf_model_remove(t);
				TAILQ_REMOVE(&Q[tc->evcb_pri], tc, evcb_active_next);
				BASE.event_count -= !(tc->evcb_flags & EVLIST_INTERNAL); BASE.event_count_active--;
				tc->evcb_flags &= ~EVLIST_ACTIVE;
			}
			if (tc->evcb_flags & EVLIST_INIT) {
				if (tc->evcb_flags & EVLIST_INSERTED) { BASE.event_count -= !(tc->evcb_flags & EVLIST_INTERNAL); tc->evcb_flags &= ~EVLIST_INSERTED; }
				if (tc->evcb_flags & EVLIST_TIMEOUT) { BASE.event_count -= !(tc->evcb_flags & EVLIST_INTERNAL); tc->evcb_flags &= ~EVLIST_TIMEOUT; }
			}
		}
		vf_unlock(0, BASE.th_base_lock);
		break;
#ifdef VF_DYN
	case 5:
		/* the running callback frees its own object (event_free on an idle event = mm_free; legal for plain events,
		 * deferred callbacks, and in a finalizer registered with event_finalize — not with event_free_finalize) */
		if (kind == EV_CLOSURE_EVENT_FINALIZE_FREE) break;
		g_userfree[idx]++;
		event_mm_free_(g_obj[idx]);
		break;
#endif
	case 6:
		/* another thread blocks in event_del on the running callback */
		vf_lock(0, BASE.th_base_lock); BASE.current_event_waiters++; g_waiters_set++; vf_unlock(0, BASE.th_base_lock);
		break;
	default: break;
	}
	g_now.tv_sec = IN.now_sec[d]; g_now.tv_usec = IN.now_usec[d];
	g_stop_now = STOP_F;
}

static void vf_evcb(evutil_socket_t fd, short res, void *arg)
{
	int idx = OBJIDX(arg);
	if (idx >= 0) {
		__CPROVER_assert(fd == IN.fd[idx] && res == IN.res[idx], "dispatch: EV_CLOSURE_EVENT passes the event's fd and result");
	}
	vf_user(idx, EV_CLOSURE_EVENT, 0);
}
static void vf_selfcb(struct event_callback *cb, void *arg)
{
	__CPROVER_assert((void *)cb == arg, "dispatch: EV_CLOSURE_CB_SELF passes the callback itself and its argument");
	vf_user(OBJIDX(arg), EV_CLOSURE_CB_SELF, 0);
}
static void vf_evfin(struct event *ev, void *arg)
{
	int idx = OBJIDX(arg);
	__CPROVER_assert((void *)ev == arg, "dispatch: the event finalizer gets the event and its argument");
	vf_user(idx, idx >= 0 ? g_obj[idx]->ev_closure : -1, 1);
	if (idx >= 0) __CPROVER_assert(g_kind[idx] == EV_CLOSURE_EVENT_FINALIZE || g_kind[idx] == EV_CLOSURE_EVENT_FINALIZE_FREE, "dispatch: event finalizers run only for the EVENT_FINALIZE closures");
}
static void vf_cbfin(struct event_callback *cb, void *arg)
{
	__CPROVER_assert((void *)cb == arg, "dispatch: the callback finalizer gets the callback and its argument");
	vf_user(OBJIDX(arg), EV_CLOSURE_CB_FINALIZE, 1);
}

/* ---- callee contracts */
#define CLOSURE_CONTRACT(name, KIND) \
VF_CONTRACT_V(name, struct event_base *base, struct event *ev) \
__CPROVER_requires(base == &BASE && OBJIDX(ev) >= 0 && g_freed[OBJIDX(ev)] == 0) \
__CPROVER_requires(g_lock_depth[1] == 1)                                      /* C08: entered with the lock held */ \
__CPROVER_requires(ev->ev_closure == KIND)                                    /* dispatch */ \
__CPROVER_requires(g_mh < g_mt && g_mq[g_mh] == OBJIDX(ev))                   /* FIFO */ \
__CPROVER_requires(!g_stop_now) \
__CPROVER_requires(base->current_event == &ev->ev_evcallback && !(ev->ev_flags & EVLIST_ACTIVE)) \
__CPROVER_requires(g_ndisp < KD) \
__CPROVER_assigns(g_lock_depth[1], g_s.d, base->event_break, base->event_continue) \
__CPROVER_ensures(g_lock_depth[1] == 0)                                       /* returns with the lock released (the caller re-takes it) */ \
__CPROVER_ensures(g_mh == __CPROVER_old(g_mh) + 1 && g_ndisp == __CPROVER_old(g_ndisp) + 1) \
__CPROVER_ensures(g_disp[0] == __CPROVER_old(g_disp[0]) + (OBJIDX(ev) == 0) && g_disp[1] == __CPROVER_old(g_disp[1]) + (OBJIDX(ev) == 1) && g_disp[2] == __CPROVER_old(g_disp[2]) + (OBJIDX(ev) == 2)) \
__CPROVER_ensures(g_kind[0] == (OBJIDX(ev) == 0 ? KIND : __CPROVER_old(g_kind[0])) && g_kind[1] == (OBJIDX(ev) == 1 ? KIND : __CPROVER_old(g_kind[1])) && g_kind[2] == (OBJIDX(ev) == 2 ? KIND : __CPROVER_old(g_kind[2]))) \
__CPROVER_ensures(g_cnt == __CPROVER_old(g_cnt) + ((ev->ev_flags & EVLIST_INTERNAL) ? 0 : 1)) \
__CPROVER_ensures(g_now.tv_usec >= 0 && g_now.tv_usec < 1000000 && g_now.tv_sec >= 0 && g_now.tv_sec < (1L << 40)) \
__CPROVER_ensures((base->event_break == 0 || base->event_break == 1) && (base->event_continue == 0 || base->event_continue == 1)) \
__CPROVER_ensures(g_stop_now == STOP_F)
CLOSURE_CONTRACT(sigcl_c, EV_CLOSURE_EVENT_SIGNAL);
CLOSURE_CONTRACT(perscl_c, EV_CLOSURE_EVENT_PERSIST);

/* The loop always removes the HEAD of the running queue.  Unlink part = TAILQ_REMOVE of the head (what unit
 * c02_q_remove_active enforces for event_queue_remove_active, restated for the head position). */
#define AQ (Q[BASE.event_running_priority])
#define LNK(cb) ((cb)->evcb_active_next)
#define IS_HEAD(cb) (OBJIDX(cb) >= 0 && ((cb)->evcb_flags & EVLIST_ACTIVE) && AQ.tqh_first == (cb) && LNK(cb).tqe_prev == &AQ.tqh_first && \
	(LNK(cb).tqe_next == NULL ? AQ.tqh_last == &LNK(cb).tqe_next : (OBJIDX(LNK(cb).tqe_next) >= 0 && LNK(LNK(cb).tqe_next).tqe_prev == &LNK(cb).tqe_next)))
#define UNLINKED_HEAD(cb) (AQ.tqh_first == __CPROVER_old(LNK(cb).tqe_next) && \
	(__CPROVER_old(LNK(cb).tqe_next) == NULL ? AQ.tqh_last == &AQ.tqh_first : LNK(__CPROVER_old(LNK(cb).tqe_next)).tqe_prev == &AQ.tqh_first))
VF_CONTRACT_V(rmactive_c, struct event_base *base, struct event_callback *evcb)
__CPROVER_requires(base == &BASE && g_lock_depth[1] == 1 && IS_HEAD(evcb))
__CPROVER_assigns(evcb->evcb_flags, base->event_count, base->event_count_active, AQ.tqh_first;
	LNK(evcb).tqe_next != NULL: LNK(LNK(evcb).tqe_next).tqe_prev;
	LNK(evcb).tqe_next == NULL: AQ.tqh_last)
__CPROVER_ensures(evcb->evcb_flags == (__CPROVER_old(evcb->evcb_flags) & ~EVLIST_ACTIVE))
__CPROVER_ensures(base->event_count == __CPROVER_old(base->event_count) - ((evcb->evcb_flags & EVLIST_INTERNAL) ? 0 : 1))
__CPROVER_ensures(base->event_count_active == __CPROVER_old(base->event_count_active) - 1)
__CPROVER_ensures(UNLINKED_HEAD(evcb))
;
/* event_del_nolock_(ev, EVENT_DEL_NOBLOCK) of the non-finalizing head event (what unit c02_del_nolock enforces,
 * restated for this call site): off every queue, counters follow, backend answer -1/0 */
#define NPEND(f) ((((f) & EVLIST_INSERTED) ? 1 : 0) + (((f) & EVLIST_TIMEOUT) ? 1 : 0) + 1)
VF_CONTRACT(int, delhead_c, struct event *ev, int blocking)
__CPROVER_requires(blocking == EVENT_DEL_NOBLOCK && g_lock_depth[1] == 1 && IS_HEAD(&ev->ev_evcallback))
__CPROVER_requires((ev->ev_flags & EVLIST_INIT) && !(ev->ev_flags & EVLIST_FINALIZING) && ev->ev_base == &BASE)
__CPROVER_assigns(ev->ev_evcallback.evcb_flags, BASE.event_count, BASE.event_count_active, AQ.tqh_first;
	LNK(&ev->ev_evcallback).tqe_next != NULL: LNK(LNK(&ev->ev_evcallback).tqe_next).tqe_prev;
	LNK(&ev->ev_evcallback).tqe_next == NULL: AQ.tqh_last)
__CPROVER_ensures(ev->ev_flags == (__CPROVER_old(ev->ev_flags) & ~(EVLIST_ACTIVE | EVLIST_INSERTED | EVLIST_TIMEOUT)))
__CPROVER_ensures(BASE.event_count == __CPROVER_old(BASE.event_count) - ((ev->ev_flags & EVLIST_INTERNAL) ? 0 : NPEND(__CPROVER_old(ev->ev_flags))))
__CPROVER_ensures(BASE.event_count_active == __CPROVER_old(BASE.event_count_active) - 1)
__CPROVER_ensures(UNLINKED_HEAD(&ev->ev_evcallback))
__CPROVER_ensures(__CPROVER_return_value == 0 || __CPROVER_return_value == -1)
;
VF_CONTRACT(int, gettime_c, struct event_base *base, struct timeval *tp)
__CPROVER_requires(base == &BASE && tp != NULL)
__CPROVER_assigns(*tp)
__CPROVER_ensures(__CPROVER_return_value == 0 && tp->tv_sec == g_now.tv_sec && tp->tv_usec == g_now.tv_usec)
;
VF_CONTRACT_V(utc_c, struct event_base *base)
__CPROVER_requires(base == &BASE)
__CPROVER_assigns(base->tv_cache)
__CPROVER_ensures(1)
;

void harness(void)
{
	int r, k, nonint = 0;
	VF_LOAD_IN();
	__CPROVER_assume(IN.n >= 0 && IN.n <= K && IN.n <= KD && IN.rp >= 0 && IN.rp <= 1);
	__CPROVER_assume(IN.extra_count >= 0 && IN.extra_count <= 1000);
	__CPROVER_assume(IN.end_usec >= 0 && IN.end_usec < 1000000 && IN.end_sec >= 0 && IN.end_sec < (1L << 40));
	VF_INSTALL_LOCKS();
	evthread_id_fn_ = vf_thread_id; evthread_cond_fns_.signal_condition = vf_cond_signal;
	event_debug_mode_on_ = 0; event_debug_map_lock_ = NULL; event_debug_mode_too_late = 0; event_global_current_base_ = NULL;
	mm_malloc_fn_ = NULL; mm_realloc_fn_ = NULL; mm_free_fn_ = vf_free;     /* event_set_mem_functions(): observe frees */
	g_mh = 0; g_mt = 0; g_ndisp = 0; g_cnt = 0; g_stop_now = 0; g_bcast = 0; g_waiters_set = 0;
	g_max = IN.max; g_has_end = IN.has_end != 0; g_end.tv_sec = IN.end_sec; g_end.tv_usec = IN.end_usec;
	g_now.tv_sec = 0; g_now.tv_usec = 0;
	BASE.nactivequeues = 2; BASE.activequeues = Q; TAILQ_INIT(&Q[0]); TAILQ_INIT(&Q[1]); TAILQ_INIT(&BASE.active_later_queue);
	BASE.event_running_priority = IN.rp;
	BASE.th_base_lock = VF_LOCK_COOKIE(1); BASE.th_owner_id = 7; BASE.running_loop = 1;
	BASE.current_event = NULL; BASE.current_event_waiters = 0; BASE.current_event_cond = &vf_condobj_;
	BASE.event_break = IN.brk0 != 0; BASE.event_continue = IN.cont0 != 0;
	BASE.virtual_event_count = 0; BASE.flags = 0; BASE.tv_cache.tv_sec = 0; BASE.tv_cache.tv_usec = 0; BASE.last_updated_clock_diff = 0;
	BASE.timeheap.n = 0; BASE.timeheap.a = 1; BASE.timeheap.p = vf_heap_arr_; vf_heap_arr_[0] = NULL;
	for (k = 0; k < KD; k++) {
#ifdef VF_DYN
		__CPROVER_assume(IN.act[k] <= 6 && IN.tgt[k] < K);
#else
		__CPROVER_assume(IN.act[k] <= 6 && IN.act[k] != 5 && IN.tgt[k] < K);   /* action 5 (free the running object) lives in unit c10_closure_free */
#endif
		__CPROVER_assume(IN.now_usec[k] >= 0 && IN.now_usec[k] < 1000000 && IN.now_sec[k] >= 0 && IN.now_sec[k] < (1L << 40));
	}
	for (k = 0; k < K; k++) {
#ifdef VF_DYN
		struct event *o = malloc(sizeof(struct event));
#else
		struct event *o = k == 0 ? &O0 : k == 1 ? &O1 : &O2;
#endif
		short fl;
#ifdef VF_DYN
		__CPROVER_assume(o != NULL);
#endif
		g_obj[k] = o; g_disp[k] = 0; g_freed[k] = 0; g_userfree[k] = 0; g_fin[k] = 0; g_kind[k] = -1;
		__CPROVER_assume(IN.cl[k] <= EV_CLOSURE_EVENT_FINALIZE_FREE);
		/* type invariant of event_assign / event_deferred_cb_init_ / event_finalize_nolock_ / event_callback_finalize_nolock_:
		 * EVENT/SIGNAL/PERSIST/EVENT_FINALIZE* closures live in a struct event (EVLIST_INIT), CB_SELF in a bare
		 * event_callback, CB_FINALIZE in either; the FINALIZE closures carry EVLIST_FINALIZING */
		if (IN.cl[k] == EV_CLOSURE_CB_SELF) __CPROVER_assume(!IN.isinit[k]);
		else if (IN.cl[k] != EV_CLOSURE_CB_FINALIZE) __CPROVER_assume(IN.isinit[k]);
		fl = IN.fl[k] & EVLIST_INTERNAL;
		if (IN.isinit[k]) fl |= EVLIST_INIT | (IN.fl[k] & (EVLIST_INSERTED | EVLIST_TIMEOUT));
		if (IN.cl[k] >= EV_CLOSURE_CB_FINALIZE) fl |= EVLIST_FINALIZING;
		o->ev_evcallback.evcb_closure = IN.cl[k];
		o->ev_evcallback.evcb_arg = o;
		o->ev_base = &BASE; o->ev_fd = IN.fd[k]; o->ev_res = IN.res[k];
		o->ev_events = IN.events[k] & (EV_READ | EV_WRITE | EV_CLOSED | EV_TIMEOUT | EV_ET | EV_FINALIZE);
		if (IN.cl[k] == EV_CLOSURE_EVENT_SIGNAL) o->ev_events = (IN.events[k] & EV_PERSIST) | EV_SIGNAL;
		if (IN.cl[k] == EV_CLOSURE_EVENT_PERSIST) o->ev_events |= EV_PERSIST;
		/* a finalizing event keeps the events it had, incl. EV_PERSIST/EV_SIGNAL */
		if (IN.cl[k] >= EV_CLOSURE_CB_FINALIZE && IN.isinit[k]) o->ev_events = IN.events[k] & (EV_READ | EV_WRITE | EV_CLOSED | EV_TIMEOUT | EV_PERSIST | EV_FINALIZE);
		if (o->ev_events & EV_SIGNAL) { o->ev_ncalls = IN.ncalls[k]; o->ev_pncalls = NULL; }
		switch (IN.cl[k]) {
		case EV_CLOSURE_CB_SELF: o->ev_evcallback.evcb_cb_union.evcb_selfcb = vf_selfcb; break;
		case EV_CLOSURE_CB_FINALIZE: o->ev_evcallback.evcb_cb_union.evcb_cbfinalize = vf_cbfin; break;
		case EV_CLOSURE_EVENT_FINALIZE: case EV_CLOSURE_EVENT_FINALIZE_FREE: o->ev_evcallback.evcb_cb_union.evcb_evfinalize = vf_evfin; break;
		default: o->ev_callback = vf_evcb; break;
		}
		if (k < IN.n) {
			o->ev_evcallback.evcb_pri = (ev_uint8_t)IN.rp;
			fl |= EVLIST_ACTIVE;
			o->ev_evcallback.evcb_flags = fl;
			TAILQ_INSERT_TAIL(&Q[IN.rp], &o->ev_evcallback, evcb_active_next);
			g_mq[g_mt++] = k;
		} else {
			__CPROVER_assume(IN.pri[k] <= 1);
			o->ev_evcallback.evcb_pri = IN.pri[k];
			o->ev_evcallback.evcb_flags = fl;
		}
		if (!(fl & EVLIST_INTERNAL)) nonint += ((fl & EVLIST_ACTIVE) != 0) + ((fl & EVLIST_INSERTED) != 0) + ((fl & EVLIST_TIMEOUT) != 0);
	}
	BASE.event_count_active = IN.n; BASE.event_count = nonint + IN.extra_count;
	BASE.event_count_max = BASE.event_count; BASE.event_count_active_max = BASE.event_count_active;
	g_lock_depth[1] = 1;
	r = event_process_active_single_queue(&BASE, &Q[IN.rp], IN.max, IN.has_end ? &g_end : NULL);
	__CPROVER_assert(g_lock_depth[1] == 1, "C08: event_process_active_single_queue returns with the base lock held (depth as on entry)");
	__CPROVER_assert(IFF(r == -1, g_ndisp > 0 && BASE.event_break != 0), "C03: returns -1 exactly when a callback ran and a loopbreak is pending");
	__CPROVER_assert(IMP(r != -1, r == g_cnt), "C03: otherwise returns the number of non-internal callbacks run");
	__CPROVER_assert(IMP(!g_stop_now, g_mh == g_mt), "C03: never lost - without a stop condition the whole queue, incl. what callbacks activated, was run");
	__CPROVER_assert(g_ndisp == g_mh, "every dispatch was a pop of the model FIFO");
	__CPROVER_assert(BASE.current_event == NULL && BASE.current_event_waiters == 0 && g_bcast == g_waiters_set, "current_event cleared; threads waiting for the running callback were woken once per callback");
	/* the real queue agrees with the model FIFO: what is left is exactly what was not run, in order */
	if (g_mh < g_mt) __CPROVER_assert(TAILQ_FIRST(&Q[IN.rp]) == &g_obj[g_mq[g_mh]]->ev_evcallback, "C03: the queue head after the call is the next callback in activation order");
	else __CPROVER_assert(TAILQ_FIRST(&Q[IN.rp]) == NULL, "C03: the queue is empty when every activation was run");
	for (k = 0; k < K; k++) {
		/* C10: finalizers exactly once per dispatch of a finalize closure; mm_free iff ..._FREE (or the user freed it) */
		if (g_disp[k] && g_kind[k] == EV_CLOSURE_EVENT_FINALIZE_FREE) __CPROVER_assert(g_fin[k] == 1 && g_freed[k] == 1 && g_userfree[k] == 0 && g_disp[k] == 1, "C10: EV_CLOSURE_EVENT_FINALIZE_FREE runs the finalizer once and then frees the event once");
		if (g_disp[k] && g_kind[k] == EV_CLOSURE_EVENT_FINALIZE) __CPROVER_assert(g_fin[k] == 1 && g_disp[k] == 1, "C10: EV_CLOSURE_EVENT_FINALIZE runs the finalizer exactly once");
		if (g_disp[k] && g_kind[k] == EV_CLOSURE_CB_FINALIZE) __CPROVER_assert(g_fin[k] == 1 && g_disp[k] == 1, "C10: EV_CLOSURE_CB_FINALIZE runs the finalizer exactly once");
		if (!(g_disp[k] && g_kind[k] == EV_CLOSURE_EVENT_FINALIZE_FREE)) __CPROVER_assert(g_freed[k] == g_userfree[k], "C10: the library frees an object only for EV_CLOSURE_EVENT_FINALIZE_FREE");
		if (!g_disp[k]) __CPROVER_assert(g_freed[k] == 0 && g_fin[k] == 0, "C10: an object whose callback did not run is neither finalized nor freed");
	}
#ifdef VF_CANARY
#if KD == 1
	__CPROVER_assert(r != 1, "canary: must fail (one non-internal callback can run)");
#else
	__CPROVER_assert(r != 2, "canary: must fail (two non-internal callbacks can run)");
#endif
#endif
}
