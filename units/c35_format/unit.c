/* C35 — evdns_server_request_format_response (real evdns.c; dnslabel_table_init, dnslabel_clear and
 * server_request_free_answers run for real), plain assert-harness.  The request is what request_parse and
 * evdns_server_request_add_reply build: QS questions, up to ITEMS records per section, every type / class / ttl,
 * raw data of EVERY length 0..65535 or a name as data, every error code, UDP (every reply size limit 512..65535) or TCP.
 * dnsname_to_labels is replaced by a stub body (stubs/c33_rename.h) that behaves as c35_labels / c35_labels_tbl check
 * the real one — an encoding of 1..257 bytes (2 = compression pointer) placed at j, -2 when it does not fit
 * buf[0..buf_len), -1 / -2 for a name it rejects — with the SIZE an oracle (IN.lbl_sz) and the bytes abstract, so
 * records reach and cross the end of the 64 KiB buffer.  Specification: a reference computation of the layout.
 * Candidate defect selected by a predicate (VF_KF_EXCLUDE / VF_KF_ONLY):
 *   F1 the response does not fit (UDP reply limit, or the 64 KiB buffer, or a record whose name the encoder rejects):
 *      the message is cut at max_udp_reply_size with TC set, but the header still counts every record added, and on the
 *      `overflow` paths max_udp_reply_size can exceed what was written (the rest of the message is uninitialised stack)
 * The canary shows that a record name can end exactly at byte 65536, i.e. that the inputs of dnsname_to_labels' defect
 * P1 (terminating 0 written to buf[buf_len]) are produced by this caller. */
#ifndef ITEMS
#define ITEMS 1
#endif
#define QS 1
#define LBL_CALLS (QS + 6 * ITEMS)
#define VF_NLOCKS 1
#include "vf.h"
#include <string.h>
/* memcpy of this unit (redirect as in stubs/c33_mem.h): the 2/4-byte APPENDs are copied; of the final copy into the
 * response only the 12-byte header is followed; raw record data is not copied (message bytes behind the header are
 * abstract here).  Sizes are recorded and checked against what the specification expects. */
static void *c35_memcpy(void *d, const void *s, size_t n);
#undef memcpy
#define memcpy(d, s, n) c35_memcpy((d), (s), (n))
#include "stubs/c33_rename.h"
#include <sys/types.h>
#include "event2/util.h"
struct dnslabel_table;
static off_t dnsname_to_labels_stub(ev_uint8_t *const buf, size_t buf_len, off_t j, const char *name, const size_t name_len, struct dnslabel_table *table);
#define dnsname_to_labels dnsname_to_labels_stub
#pragma push_macro("dnsname_to_labels")
#undef dnsname_to_labels
#define dnsname_to_labels dnsname_to_labels_real _Pragma("pop_macro(\"dnsname_to_labels\")")
#include "evdns.c"
struct in_item { u16 type, cls; u32 ttl; int is_name; u16 datalen; int has_data; };
struct in {
	int err; u16 trans_id; u16 base_flags; u16 max_udp; int tcp;
	u16 qtype, qclass;
	int n[3]; struct in_item it[3][ITEMS];
	unsigned lbl_sz[LBL_CALLS]; int lbl_err[LBL_CALLS];
	unsigned ch[VF_NCHOICE];
};
struct in IN;
#include "stubs/log.h"
#include "stubs/lock.h"
#include "mm-internal.h"

static struct server_request REQ; static struct evdns_server_port PORT; static struct client_tcp_connection CLIENT;
static struct evdns_server_question Q0; static struct evdns_server_question *QP[QS];
static struct server_reply_item ITEM[3][ITEMS];
static char NM[2] = "n"; static char DNM[2] = "d";
static u8 DATA[1]; static char RESP[12];
struct g_cp { int resp_copies, data_copies; size_t resp_n; } g_cp;

struct g_lbl { int calls; off_t j[LBL_CALLS]; const char *name[LBL_CALLS]; int p1_reach; } g_lbl;
long g_mm_live, g_mm_allocs, g_mm_frees; size_t g_mm_last_size;

static off_t dnsname_to_labels_stub(u8 *const buf, size_t buf_len, off_t j, const char *name, const size_t name_len, struct dnslabel_table *table)
{
	int k = g_lbl.calls; unsigned sz;
	__CPROVER_assert(k >= 0 && k < LBL_CALLS, "dnsname_to_labels: oracle capacity");
	__CPROVER_assert(buf_len == 65536 && table != NULL, "dnsname_to_labels: the 64 KiB buffer and the response's compression table");
	__CPROVER_assert(j >= 12 && j <= (off_t)buf_len + 2, "dnsname_to_labels: start offset behind the header, at most 2 past the end");
	__CPROVER_assert(name != NULL && name_len == 1, "dnsname_to_labels: name and its strlen");
	g_lbl.calls++; g_lbl.j[k] = j; g_lbl.name[k] = name;
	if (IN.lbl_err[k]) return IN.lbl_err[k];
	sz = IN.lbl_sz[k];
	if (sz >= 3 && j + (off_t)sz - 1 == (off_t)buf_len) g_lbl.p1_reach = 1;     /* last label ends exactly at buf_len: input of defect P1 */
	if (j + (off_t)sz > (off_t)buf_len) return -2;
	return j + (off_t)sz;
}
static void *c35_memcpy(void *d, const void *s, size_t n)
{
	unsigned char *dd = d; const unsigned char *ss = s; int i;
	if (d == (void *)RESP) { g_cp.resp_copies++; g_cp.resp_n = n; __CPROVER_assert(n >= 12 && n <= 65536, "response copy: at least the header, at most the buffer"); for (i = 0; i < 12; i++) dd[i] = ss[i]; return d; }
	if (s == (const void *)DATA) { g_cp.data_copies++; return d; }
	__CPROVER_assert(n == 2 || n == 4, "memcpy: APPEND16/APPEND32");
	__CPROVER_assert(__CPROVER_r_ok(s, n) && __CPROVER_w_ok(d, n), "memcpy: ranges valid");
	dd[0] = ss[0]; dd[1] = ss[1]; if (n == 4) { dd[2] = ss[2]; dd[3] = ss[3]; }
	return d;
}
size_t strlen(const char *s) { __CPROVER_assert(s != NULL, "strlen: not NULL"); return 1; }
void *event_mm_malloc_(size_t sz)
{
	g_mm_last_size = sz;
	__CPROVER_assert(g_mm_allocs == 0, "one allocation: the response");
	if (VF_CHOOSE() & 1u) return NULL;
	g_mm_allocs++; g_mm_live++;
	return RESP;
}
void event_mm_free_(void *p) { if (p) { g_mm_frees++; g_mm_live--; } }

/* ---------------- reference layout (specification side) ---------------- */
static long x_j; static int x_qerr, x_over, x_trunc, x_nfree;
static long xenc(int k, long j) { if (IN.lbl_err[k]) return IN.lbl_err[k]; if (j + (long)IN.lbl_sz[k] > 65536) return -2; return j + (long)IN.lbl_sz[k]; }
static void ref_layout(void)
{
	long j = 12, r; int call = 0, s, i;
	x_qerr = 0; x_over = 0; x_trunc = 0; x_nfree = 0;
	r = xenc(call++, j); if (r < 0) { x_qerr = (int)r; return; }
	j = r; if (j + 4 > 65536) { x_over = 1; goto done; } j += 4;
	for (s = 0; s < 3; s++) for (i = 0; i < ITEMS; i++) {
		const struct in_item *it = &IN.it[s][i];
		if (i >= IN.n[s]) break;
		r = xenc(call++, j); if (r < 0) { x_over = 1; goto done; } j = r;
		if (j + 8 > 65536) { x_over = 1; goto done; } j += 8;
		if (it->is_name) { j += 2; r = xenc(call++, j); if (r < 0) { x_over = 1; goto done; } j = r; }
		else { if (j + 2 > 65536) { x_over = 1; goto done; } j += 2; if (j + (it->has_data ? it->datalen : 0) > 65536) { x_over = 1; goto done; } j += it->has_data ? it->datalen : 0; }
	}
	if (j > IN.max_udp && !IN.tcp) x_trunc = 1;
done:
	x_j = j;
}

void harness(void)
{
	int r, s, i, nitems = 0, nfree = 0, ncalls = QS;
	VF_LOAD_IN(); VF_INSTALL_LOCKS();
	g_mm_live = g_mm_allocs = g_mm_frees = 0; g_lbl.calls = 0; g_lbl.p1_reach = 0; g_cp.resp_copies = g_cp.data_copies = 0; g_cp.resp_n = 0;
	__CPROVER_assume(IN.max_udp >= 512);                          /* request_parse: 512 or MAX(OPT class, 512) */
	__CPROVER_assume((IN.base_flags & (_QR_MASK | _TC_MASK | _RCODE_MASK)) == 0);   /* request_parse keeps RD|CD, evdns_server_request_set_flags adds AA|RD */
	PORT.lock = NULL;
	REQ.port = &PORT; REQ.client = IN.tcp ? &CLIENT : NULL; REQ.trans_id = IN.trans_id; REQ.max_udp_reply_size = IN.max_udp;
	REQ.base.flags = IN.base_flags; REQ.base.nquestions = QS; QP[0] = &Q0; REQ.base.questions = QP; Q0.type = IN.qtype; Q0.dns_question_class = IN.qclass; Q0.name[0] = 0;
	REQ.response = NULL; REQ.response_len = 0;
	for (s = 0; s < 3; s++) {
		__CPROVER_assume(IN.n[s] >= 0 && IN.n[s] <= ITEMS);
		for (i = 0; i < ITEMS; i++) {
			struct in_item *it = &IN.it[s][i];
			it->is_name = it->is_name != 0; it->has_data = it->is_name ? 1 : (it->has_data != 0);
			ITEM[s][i].next = (i + 1 < IN.n[s]) ? &ITEM[s][i + 1] : NULL;
			ITEM[s][i].name = NM; ITEM[s][i].type = it->type; ITEM[s][i].class = it->cls; ITEM[s][i].ttl = it->ttl; ITEM[s][i].is_name = (char)it->is_name;
			/* evdns_server_request_add_reply: a name as data has datalen (u16)-1; no data: datalen 0 */
			ITEM[s][i].datalen = it->is_name ? (u16)-1 : (it->has_data ? it->datalen : 0);
			ITEM[s][i].data = it->is_name ? (void *)DNM : (it->has_data ? (void *)DATA : NULL);
			if (i < IN.n[s]) { nfree += 2 + (it->has_data ? 1 : 0); ncalls += 1 + (it->is_name ? 1 : 0); }
		}
		nitems += IN.n[s];
	}
	REQ.answer = IN.n[0] ? &ITEM[0][0] : NULL; REQ.authority = IN.n[1] ? &ITEM[1][0] : NULL; REQ.additional = IN.n[2] ? &ITEM[2][0] : NULL;
	REQ.n_answer = IN.n[0]; REQ.n_authority = IN.n[1]; REQ.n_additional = IN.n[2];
	for (i = 0; i < LBL_CALLS; i++) __CPROVER_assume(IN.lbl_sz[i] >= 1 && IN.lbl_sz[i] <= 257 && (IN.lbl_err[i] == 0 || IN.lbl_err[i] == -1 || IN.lbl_err[i] == -2));
	ref_layout();
#ifdef VF_KF_F1_FIXED
#define KF_F1 0
#else
#define KF_F1 (IN.err >= 0 && IN.err <= 15 && !x_qerr && (x_over || x_trunc))
#endif
#ifdef VF_KF_EXCLUDE
	__CPROVER_assume(!KF_F1);
#endif
#ifdef VF_KF_ONLY
	__CPROVER_assume(KF_F1);
#endif

	r = evdns_server_request_format_response(&REQ, IN.err);

	if (IN.err < 0 || IN.err > 15) {
		__CPROVER_assert(r == -1 && REQ.response == NULL && g_mm_allocs == 0 && g_mm_frees == 0 && g_lbl.calls == 0, "an error code outside 0..15 is refused, nothing touched");
	} else if (x_qerr) {
		__CPROVER_assert(r == x_qerr && REQ.response == NULL && g_mm_allocs == 0, "a question name the encoder rejects: no response, its error code returned");
	} else if (g_mm_allocs == 0) {
		__CPROVER_assert(r == -1 && REQ.response == NULL, "allocation failure: -1, no response");
		__CPROVER_assert(REQ.answer == NULL && REQ.authority == NULL && REQ.additional == NULL && g_mm_frees == nfree, "allocation failure: the records are released");
	} else {
		const u8 *p = (const u8 *)RESP; unsigned fl;
		__CPROVER_assert(r == 0 && REQ.response == RESP && g_mm_last_size == REQ.response_len && g_cp.resp_copies == 1 && g_cp.resp_n == REQ.response_len, "response allocated with exactly response_len bytes and filled with that many bytes of the buffer");
		__CPROVER_assert(REQ.answer == NULL && REQ.authority == NULL && REQ.additional == NULL, "the records are released once formatted");
		__CPROVER_assert(g_lbl.j[0] == 12, "the first question name follows the 12-byte header");
		fl = (unsigned)(p[2] << 8) | p[3];
		__CPROVER_assert(((unsigned)(p[0] << 8) | p[1]) == IN.trans_id, "header: transaction id of the request");
		__CPROVER_assert((fl & ~(unsigned)_TC_MASK) == (unsigned)(IN.base_flags | _QR_MASK | IN.err), "header: QR set, error code, the request's RD/CD/AA flags");
		if (!x_over && !x_trunc) {
			__CPROVER_assert(REQ.response_len == (size_t)x_j, "length = header + questions + every record added");
			__CPROVER_assert(!(fl & _TC_MASK), "not truncated: TC clear");
			__CPROVER_assert((((unsigned)(p[4] << 8) | p[5]) == QS) && (((unsigned)(p[6] << 8) | p[7]) == (unsigned)IN.n[0]) && (((unsigned)(p[8] << 8) | p[9]) == (unsigned)IN.n[1]) && (((unsigned)(p[10] << 8) | p[11]) == (unsigned)IN.n[2]), "header counts = number of records emitted per section");
			__CPROVER_assert(g_lbl.calls == ncalls && g_mm_frees == nfree, "one name encoding per question / record owner / name-valued data");
		} else {
			/* F1 */
			__CPROVER_assert(fl & _TC_MASK, "does not fit: TC set");
			__CPROVER_assert(REQ.response_len == IN.max_udp, "does not fit: cut at the reply size limit");
			__CPROVER_assert(REQ.response_len <= (size_t)x_j, "the message sent is no longer than what was written into the buffer (no uninitialised stack bytes)");
			__CPROVER_assert(((unsigned)(p[6] << 8) | p[7]) + ((unsigned)(p[8] << 8) | p[9]) + ((unsigned)(p[10] << 8) | p[11]) < (unsigned)nitems || nitems == 0, "truncated: the header counts describe only records that are present");
		}
	}
#ifdef VF_CANARY
	__CPROVER_assert(!g_lbl.p1_reach, "canary: must fail (a record name can end exactly at byte 65536 = buf_len: inputs of dnsname_to_labels' defect P1 are reachable from add_reply + respond)");
#endif
}
