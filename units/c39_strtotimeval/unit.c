/* C39 — evdns_strtotimeval (real evdns.c): "parse a number of seconds into a timeval; -1 on error".
 * strtod is a MODEL answering an arbitrary double (finite, +-inf, NaN) and an arbitrary end position in
 * the string, so the proof covers every numeral a real strtod can read and every amount of trailing
 * junk.  Loop-free except the strlen of the (bounded) value string on the reference side.
 * Contract (shared with c39_set_option_tv, where the function is replaced by it): junk / negative /
 * below 1 ms => -1; a number of seconds in [0.001, 2^31) => whole seconds + microseconds of the
 * fraction.  Besides the contract the harness states what "whole seconds / microseconds" mean
 * (floor, fraction scaled) and cbmc --conversion-check states that `(int) d` is defined.
 *
 * KNOWN-FINDING candidate (VF_KF_ONLY / VF_KF_EXCLUDE): a number >= 2^31 (or inf/NaN, which strtod
 * accepts: "1e10", "inf", "nan") passes the `d < 0` test and reaches `(int) d`, which is undefined
 * behaviour (float-to-int conversion out of range); on x86-64 it yields INT_MIN, the function returns 0
 * and a NEGATIVE timeout is stored. */
#include "vf.h"
#include "evdns.c"
#ifndef C39_VALCAP
#define C39_VALCAP 9
#endif
struct in { char val[C39_VALCAP + 1]; unsigned long long dbits; unsigned dend; long old_sec, old_usec; };
struct in IN;
#include "stubs/log.h"
#include "stubs/c39_libc_ref.h"
#include "stubs/c39_evdns_env.h"
#define C39_STRTOD_MODEL
#include "c39_option_ref.h"
static char C39_VAL[C39_VALCAP + 1];
static struct timeval TV;
#define TV_TOO_BIG (TV_CONSUMED && !TV_NEG && !TV_INRANGE)     /* >= 2^31, +inf, NaN: reaches (int) d */

void harness(void)
{
	int r, i;
	VF_LOAD_IN();
	for (i = 0; i < C39_VALCAP; i++) C39_VAL[i] = IN.val[i];
	C39_VAL[C39_VALCAP] = '\0';
	evdns_log_fn = NULL; current_base = NULL;
	O_val = C39_VAL;
	c39_tv_setup(IN.dbits, IN.dend);
	TV.tv_sec = IN.old_sec; TV.tv_usec = IN.old_usec;
#ifdef VF_KF_EXCLUDE
	__CPROVER_assume(!TV_TOO_BIG);
#endif
#ifdef VF_KF_ONLY
	__CPROVER_assume(TV_TOO_BIG);
#endif
	/* what O_sec / O_usec (set by c39_tv_setup) mean: floor and scaled fraction */
	if (TV_INRANGE) {
		__CPROVER_assert((double)O_sec <= O_d && O_d < (double)O_sec + 1.0, "reference: O_sec is floor(d)");
		__CPROVER_assert(O_usec >= 0 && O_usec <= 999999, "reference: the microsecond part is in [0, 999999]");
	}
	r = VF_CALL(strtotimeval_c, evdns_strtotimeval, C39_VAL, &TV);
	__CPROVER_assert(IMP(r == 0, TV.tv_sec >= 0 && TV.tv_usec >= 0 && TV.tv_usec <= 999999 && (TV.tv_sec > 0 || TV.tv_usec >= 1000)), "an accepted value is a normalised timeval of at least one millisecond");
	__CPROVER_assert(IMP(!TV_CONSUMED || TV_NEG, TV.tv_sec == IN.old_sec && TV.tv_usec == IN.old_usec), "junk / negative: *out is not written");
#ifdef VF_CANARY
	__CPROVER_assert(!(r == 0 && TV.tv_sec == 5 && TV.tv_usec == 250000), "canary: must fail (5.25 s is accepted)");
#endif
}
