/* C15/C14/C13/C08 — evbuffer_add_file_segment (real buffer.c) on every buffer of <= 3 chains and every state of the segment
 * (sendfile-only / mapped / read into memory; lock or not; cleanup callback or not; any reference count).
 * Inline (real): evbuffer_file_segment_materialize, evbuffer_chain_new, evbuffer_chain_insert, evbuffer_free_trailing_empty_chains,
 * evbuffer_free_all_chains.  Replaced: evbuffer_file_segment_free (c15_seg_free), evbuffer_chain_free, evbuffer_invoke_callbacks_. */
#define VF_NLOCKS 3
#define VF_NCHOICE 16
#define C15_MM_BIG_IS_SEGDATA
#define C15_MM_CONST_MAX 64         /* chain header + extra = 56 bytes: a real object; the contents buffer (symbolic size): SEGDATA */
#define C15_PREAD_MAXCALLS 3
#include "vf.h"
#include "stubs/c15_sys_redirect.h"
#include "buffer.c"
#include "stubs/lock.h"
struct c15_bin;
#include "c15_shape.h"
struct in { struct c15_bin b, s; ev_off_t offset, length, seg_length, seg_file_offset; int seg_refcnt, seg_fd; unsigned seg_flags, seg_has_cb, seg_has_lock, seg_kind; unsigned ch[VF_NCHOICE]; };
struct in IN;
#include "stubs/log.h"
#include "stubs/c15_mm.h"
#include "stubs/c15_sys.h"
#include "c15_contracts.h"
#include "c15_seg_contracts.h"

void harness(void)
{
	int r; unsigned i;
	VF_LOAD_IN();
	VF_INSTALL_LOCKS(); C15_RESET(); C15_SYS_RESET();
	c15_build(&IN.b, 0, 0);
	c15_build(&IN.s, 1, 0);
	for (i = 0; i < C15_MAXCH; i++) __CPROVER_assume(!(IN.b.flags[i] & EVBUFFER_MULTICAST));   /* (multicast chains of the destination: unit c15_chain_free_mc) */
	/* the segment: as evbuffer_file_segment_new leaves it (unit c15_seg_new), possibly already materialised by an earlier add */
	__CPROVER_assume(IN.seg_refcnt >= 1 && IN.seg_refcnt <= 1000);
	__CPROVER_assume(IN.seg_length >= 0 && IN.seg_file_offset >= 0 && (ev_uint64_t)IN.seg_length <= EVBUFFER_CHAIN_MAX && (ev_uint64_t)IN.seg_file_offset <= (ev_uint64_t)(EVBUFFER_CHAIN_MAX - IN.seg_length));
	__CPROVER_assume(IN.seg_kind <= 3);      /* 0 sendfile-only, 1 mapped, 2 read into memory, 3 sendfile-capable and mapped (materialised later) */
	SEG.refcnt = IN.seg_refcnt; SEG.fd = IN.seg_fd; SEG.length = IN.seg_length; SEG.file_offset = IN.seg_file_offset; SEG.mmap_offset = 0;
	SEG.flags = IN.seg_flags & 0xf;
	if (IN.seg_kind == 0 || IN.seg_kind == 3) SEG.flags &= ~EVBUF_FS_DISABLE_SENDFILE; else SEG.flags |= EVBUF_FS_DISABLE_SENDFILE;
	SEG.can_sendfile = (IN.seg_kind == 0 || IN.seg_kind == 3);
	SEG.is_mapping = (IN.seg_kind == 1 || IN.seg_kind == 3);
	SEG.mapping = SEG.is_mapping ? (void *)SEGDATA : NULL;
	SEG.contents = SEG.is_mapping ? (char *)SEGDATA + (IN.seg_file_offset % C15_PAGESIZE) : (IN.seg_kind == 2) ? (char *)SEGDATA : NULL;
	if (IN.seg_kind == 2) m_segdata_live = 1;
	SEG.lock = (IN.seg_has_lock & 1) ? VF_LOCK_COOKIE(3) : NULL;
	SEG.cleanup_cb = (IN.seg_has_cb & 1) ? c15_seg_cleanup_cb : NULL; SEG.cleanup_cb_arg = &COOKIE[7];
	m_seg_live = 1;
	{ int nfs = 0; for (i = 0; i < C15_MAXCH; i++) if (i < IN.b.nch && (IN.b.flags[i] & EVBUFFER_FILESEGMENT)) nfs++;
	  __CPROVER_assume(IN.seg_refcnt >= nfs + 1); }      /* one reference per file-segment chain plus the caller's */
	c15_assume_refs(&IN.b, &IN.s, IN.seg_refcnt, IN.s.refcnt);
	__CPROVER_assume(IN.offset >= 0 && (IN.length < 0 || IN.length <= EV_SSIZE_MAX - IN.offset));
	C15_SNAPSHOT();
	r = VF_CALL(afs_c, evbuffer_add_file_segment, &BUF, &SEG, IN.offset, IN.length);
	if (r == 0) {
		struct evbuffer_chain *n = (struct evbuffer_chain *)m_new[0];
		__CPROVER_assert(c15_binv(&BUF, m_al.sfreed), "BInv after add_file_segment");
		/* C15 "delivers exactly the file range": the chain's window lies inside the segment */
		if (n->flags & EVBUFFER_SENDFILE) __CPROVER_assert(n->misalign >= SEG.file_offset && (ev_off_t)(n->misalign + n->off) <= SEG.file_offset + SEG.length, "sendfile chain: file window inside [file_offset, file_offset + length)");
		else __CPROVER_assert(n->buffer >= (unsigned char *)SEG.contents && (ev_off_t)((n->buffer - (unsigned char *)SEG.contents) + n->off) <= SEG.length, "memory chain: window inside the segment's contents");
		for (i = 0; i < C15_MAXCH; i++) {
			if (i >= IN.b.nch) break;
			if (m_al.sfreed & (1u << i)) __CPROVER_assert(O_XC[i].c.off == 0, "only empty chains are dropped");
			else if (O_XC[i].c.off) __CPROVER_assert(XC[i].c.off == O_XC[i].c.off && XC[i].c.misalign == O_XC[i].c.misalign && XC[i].c.flags == O_XC[i].c.flags, "chains with data keep their bytes");
		}
	}
	__CPROVER_assert(m_sys.bad == 0 && m_cl.twice == 0, "no bad munmap, no foreign cleanup callback");
#ifdef VF_CANARY
	__CPROVER_assert(r == 0 || !(m_al.sfreed & (1u << 11)), "canary: must fail (a failed add drops the caller's reference and can destroy the segment)");
#endif
}
