/* C23/C24/C25 — evhttp_get_body (real http.c): the framing decision after the header section
 * (RFC 9112 6.3), for requests and responses, with evhttp_find_header / evhttp_have_expect /
 * evhttp_method_ inlined.  Header list built by the harness: optional Transfer-Encoding
 * (symbolic value), optional Expect (symbolic value), in either order.
 *  1 chunked Transfer-Encoding wins over Content-Length: chunked = 1, ntoread = -1, the
 *    Content-Length is not even consulted;
 *  2 "te-not-chunked": a REQUEST whose Transfer-Encoding is anything but chunked is refused
 *    (RFC 9112 6.3 rule 4: 400 and close) — never framed by guessing;
 *  3 a malformed Content-Length fails the message (EVREQ_HTTP_INVALID_HEADER);
 *  4 a request without body indication (length < 1, not chunked) is complete at once;
 *    methods defined without request body (HEAD, TRACE, extension methods without
 *    EVHTTP_METHOD_HAS_BODY) are complete at once;
 *  5 Expect (HTTP/1.1 requests only): 100-continue => interim response only if nothing of the
 *    body has arrived, and NOT when the announced length already exceeds max_body_size (C25:
 *    too-long path instead); any other expectation => 417, body not read;
 *  6 otherwise the body is read (evhttp_read_body); exactly one continuation.
 * Callees of the connection state machine are replaced by ghost-recording contracts. */
#ifndef VF_N
#define VF_N 12
#endif
#define VF_STRMAX 17         /* "Transfer-Encoding" */
#include "vf.h"
#include "http.c"
struct in { unsigned char te[7], ex[VF_N]; unsigned exlen, telen; int have_te, have_ex, te_first; int kind; unsigned type; char major, minor; ev_uint64_t max_body; size_t buffered; int ext_has_body; };
struct in IN;
#include "stubs/log.h"
#include "stubs/c23_libc_ref.h"
#include "stubs/c23_http_env.h"
#include "c23_contracts.h"
#include "c23_ref.h"

/* an extension method known to the application: type 1<<16, body allowed iff IN.ext_has_body */
#define VF_EXT_TYPE (1u << 16)
static int vf_ext_cmp(struct evhttp_ext_method *m)
{
	if (m->method == NULL && m->type == VF_EXT_TYPE) { m->method = "XMETH"; m->flags = IN.ext_has_body ? EVHTTP_METHOD_HAS_BODY : 0; return 0; }
	return -1;
}

static char TEB[8], EXB[VF_N + 1];
static char K_TE[18], K_EX[7];      /* filled in the harness: under --dfcc every static starts nondeterministic */
static void vf_setstr(char *d, const char *s) { unsigned i; for (i = 0; i <= VF_STRMAX; i++) { d[i] = s[i]; if (!s[i]) break; } }
static struct evkeyvalq Q; static struct evkeyval H_TE, H_EX;
static struct evhttp_connection EVCON; static struct evhttp_request REQ;

#define IS_REQ (IN.kind == EVHTTP_REQUEST)
#define TE_CHUNKED (IN.have_te && ref_strcaseeq(TEB, "chunked"))
#define METHOD_NO_BODY (IN.type == EVHTTP_REQ_HEAD || IN.type == EVHTTP_REQ_TRACE || (IN.type == VF_EXT_TYPE && !IN.ext_has_body) || (IN.type != VF_EXT_TYPE && (IN.type > EVHTTP_REQ_MAX || (IN.type & (IN.type - 1)) != 0 || IN.type == 0)))
#define V11 (IN.major > 1 || (IN.major == 1 && IN.minor >= 1))
#define EXPECT_ANY (IS_REQ && V11 && IN.have_ex)
#define EXPECT_CONT (EXPECT_ANY && ref_strcaseeq(EXB, "100-continue"))
#define NCONT (g_fail_calls + g_lfail_calls + g_done_calls + g_senderr_calls + g_readbody_calls)

VF_CONTRACT_V(get_body_c, struct evhttp_connection *evcon, struct evhttp_request *req)
__CPROVER_requires(__CPROVER_rw_ok(evcon, sizeof(*evcon)) && __CPROVER_rw_ok(req, sizeof(*req)))
__CPROVER_requires(evcon == &EVCON && req == &REQ && req->evcon == evcon && evcon->bufev == &BEV && req->input_headers == &Q)
__CPROVER_requires(NCONT == 0 && g_cont_calls == 0 && g_gbl_calls == 0)
__CPROVER_requires(req->chunked == 0)
__CPROVER_assigns(evcon->state, req->chunked, req->ntoread, g_fail_calls, g_fail_error, g_lfail_calls, g_done_calls, g_senderr_calls, g_senderr_code, g_readbody_calls, g_cont_calls, g_gbl_calls)
/* 6 exactly one continuation */
__CPROVER_ensures(NCONT == 1)
/* 4 methods defined without a request body */
__CPROVER_ensures(IMP(IS_REQ && METHOD_NO_BODY, g_done_calls == 1 && g_gbl_calls == 0 && req->chunked == 0))
/* 1 chunked wins; Content-Length not consulted */
__CPROVER_ensures(IMP(!(IS_REQ && METHOD_NO_BODY) && TE_CHUNKED, req->chunked == 1 && req->ntoread == -1 && g_gbl_calls == 0 && g_done_calls == 0 && g_fail_calls == 0))
__CPROVER_ensures(IMP(!TE_CHUNKED, req->chunked == 0))
/* 2 te-not-chunked */
__CPROVER_ensures(IMP(IS_REQ && !METHOD_NO_BODY && IN.have_te && !TE_CHUNKED, (g_fail_calls == 1 || g_senderr_calls == 1) && g_done_calls == 0 && g_readbody_calls == 0))
/* 3 malformed Content-Length; 4 no body indication */
__CPROVER_ensures(IMP(!(IS_REQ && METHOD_NO_BODY) && !TE_CHUNKED, g_gbl_calls == 1))
__CPROVER_ensures(IMP(g_fail_calls == 1, g_fail_error == (int)EVREQ_HTTP_INVALID_HEADER && g_gbl_calls == 1 && g_cont_calls == 0))
__CPROVER_ensures(IMP(IS_REQ && !METHOD_NO_BODY && !TE_CHUNKED && g_fail_calls == 0 && req->ntoread < 1 && !IN.have_te, g_done_calls == 1 && g_cont_calls == 0))
__CPROVER_ensures(IMP(g_done_calls == 1, IS_REQ && (METHOD_NO_BODY || (req->chunked == 0 && req->ntoread < 1))))
/* 5 Expect */
__CPROVER_ensures(IMP(g_senderr_calls == 1, g_senderr_code == HTTP_EXPECTATIONFAILED && EXPECT_ANY && !EXPECT_CONT))
__CPROVER_ensures(IMP(EXPECT_ANY && !EXPECT_CONT && g_done_calls == 0 && g_fail_calls == 0, g_senderr_calls == 1 && g_readbody_calls == 0 && g_cont_calls == 0))
__CPROVER_ensures(IMP(g_cont_calls >= 1, g_cont_calls == 1 && EXPECT_CONT && IN.buffered == 0 && g_readbody_calls == 1))
__CPROVER_ensures(IMP(EXPECT_CONT && g_readbody_calls == 1, g_cont_calls == (IN.buffered == 0 ? 1 : 0)))
/* 5/C25 announced length over the limit: no 100 Continue, too-long path */
__CPROVER_ensures(IMP(g_lfail_calls == 1, EXPECT_CONT && req->ntoread > 0 && (ev_uint64_t)req->ntoread > IN.max_body && g_cont_calls == 0))
__CPROVER_ensures(IMP(EXPECT_CONT && g_done_calls == 0 && g_fail_calls == 0 && req->ntoread > 0 && (ev_uint64_t)req->ntoread > IN.max_body, g_lfail_calls == 1 && g_cont_calls == 0 && g_readbody_calls == 0))
/* 6 a body is read in state READING_BODY */
__CPROVER_ensures(IMP(g_readbody_calls == 1, evcon->state == EVCON_READING_BODY && (req->chunked == 1 || !IS_REQ || req->ntoread >= 1)))
;

void harness(void)
{
	unsigned i;
	VF_LOAD_IN(); VF_HTTP_ENV_RESET(); VF_C23_GHOST_RESET(); g_gbl_calls = 0;
	__CPROVER_assume(IN.exlen <= VF_N && IN.telen <= 7);
	__CPROVER_assume(IN.kind == EVHTTP_REQUEST || IN.kind == EVHTTP_RESPONSE);
	for (i = 0; i < 7; i++) TEB[i] = i < IN.telen ? (char)IN.te[i] : 0;
	TEB[7] = 0;
	for (i = 0; i < VF_N; i++) EXB[i] = i < IN.exlen ? (char)IN.ex[i] : 0;
	EXB[VF_N] = 0;
#ifdef VF_ONE_HEADER
	__CPROVER_assume(!(IN.have_te && IN.have_ex));      /* quick tier: at most one of the two fields present */
#endif
	TAILQ_INIT(&Q); vf_setstr(K_TE, "Transfer-Encoding"); vf_setstr(K_EX, "Expect");
	H_TE.key = K_TE; H_TE.value = TEB; H_EX.key = K_EX; H_EX.value = EXB;
	if (IN.te_first) { if (IN.have_te) TAILQ_INSERT_TAIL(&Q, &H_TE, next); if (IN.have_ex) TAILQ_INSERT_TAIL(&Q, &H_EX, next); }
	else { if (IN.have_ex) TAILQ_INSERT_TAIL(&Q, &H_EX, next); if (IN.have_te) TAILQ_INSERT_TAIL(&Q, &H_TE, next); }
	/* known finding C23-te-not-chunked */
#define KF_TE (IS_REQ && !METHOD_NO_BODY && IN.have_te && !TE_CHUNKED)
#ifdef VF_KF_EXCLUDE
	__CPROVER_assume(!KF_TE);
#endif
#ifdef VF_KF_ONLY
	__CPROVER_assume(KF_TE);
#endif
	EVCON.bufev = &BEV; EVCON.max_body_size = IN.max_body; EVCON.ext_method_cmp = vf_ext_cmp; EVCON.state = EVCON_READING_HEADERS;
	REQ.evcon = &EVCON; REQ.input_headers = &Q; REQ.output_headers = &Q; REQ.kind = (enum evhttp_request_kind)IN.kind; REQ.type = (enum evhttp_cmd_type)IN.type;
	REQ.major = IN.major; REQ.minor = IN.minor; REQ.chunked = 0; REQ.ntoread = 0;
	EB[E_IN].len = IN.buffered;
	VF_CALL_V(get_body_c, evhttp_get_body, &EVCON, &REQ);
#ifdef VF_CANARY
	__CPROVER_assert(g_readbody_calls == 0, "canary: must fail (a POST with Content-Length reads a body)");
#endif
}
