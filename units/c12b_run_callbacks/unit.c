/* C13 — evbuffer_run_callbacks (real buffer.c): the dispatcher, on a harness-built callback list of
 * <= 3 entries (enabled/disabled, NODEFER, obsolete-style), deferred and non-deferred buffers, both
 * passes; user callbacks are stubs that record what they were told and may remove themselves or
 * rewrite any entry's ENABLED/NODEFER bits from inside the callback. */
#define VF_NLOCKS 1
#include "vf.h"
#include "buffer.c"
struct eb_in;
#include "stubs/lock.h"
#include "evbuffer_shape.h"
#include "c12b_cb_in.h"
struct in { struct eb_in b; struct cb_in c; int running_deferred; unsigned lock_held; unsigned ch[VF_NCHOICE]; };
struct in IN;
#include "stubs/log.h"
#include "stubs/mm.h"
#include "c12b_cb.h"

/* list well-formedness after the run: exactly the entries that did not remove themselves, in order, with consistent back links */
static int vf_cb_list_ok(void)
{
	struct evbuffer_cb_entry **pp = &BUF.callbacks.lh_first; unsigned i; int ok = 1;
	for (i = 0; i < VF_CB_MAX; i++) {
		if (i >= IN.c.ncb) break;
		if (O_cb_removed[i]) continue;
		ok = ok && *pp == &ENT[i] && ENT[i].next.le_prev == pp;
		pp = &ENT[i].next.le_next;
	}
	return ok && *pp == NULL;
}

void harness(void)
{
	VF_LOAD_IN();
	vf_build_buf_nochains(&IN.b);
	vf_build_cbs(&IN.c);
	VF_INSTALL_LOCKS(); VF_MM_RESET(); VF_CB_RESET();
	__CPROVER_assume(IN.running_deferred == 0 || IN.running_deferred == 1);
	/* every caller holds the buffer lock (evbuffer_invoke_callbacks_ is called with the lock held, evbuffer_deferred_callback takes it) */
	if (BUF.lock) g_lock_depth[1] = 1 + (IN.lock_held & 1);
	O_cb_lockdepth = g_lock_depth[1];
	vf_cb_model(&IN.c, IN.running_deferred);
	VF_CALL_V(run_cb_c, evbuffer_run_callbacks, &BUF, IN.running_deferred);
	__CPROVER_assert(vf_cb_list_ok(), "callback list after the run: the entries that did not remove themselves, in order, back links consistent");
	__CPROVER_assert(g_lock_depth[1] == O_cb_lockdepth && g_lock_ops == 0, "C08: the dispatcher does not touch the buffer lock");
	__CPROVER_assert(BUF.total_len == O_cb_total, "dispatching does not change the buffer length");
#ifdef VF_CANARY
	__CPROVER_assert(g_cb.n < 3, "canary: must fail (three enabled callbacks are all called)");
#endif
}
