/* C26 — evhttp_make_header + evhttp_make_header_request + evhttp_method_ (real http.c): what a
 * client request looks like on the wire.  Output = operation log (stubs/c23_out_log.h).
 *  wire order: request line "<method> <uri> HTTP/<major>.<minor>" — method = the RFC 9110 / WebDAV
 *    name of the request type (extension types: the name the application's callback supplies),
 *    uri = the request's target string, unmodified; then ONE "name: value" line per entry of the
 *    output header list in list order; the empty line; then the body buffer iff non-empty —
 *    except that a body announced with "Expect: 100-continue" (HTTP/1.1) is held back;
 *  automatic Content-Length: added iff the method allows a body, and there is a body or the
 *    method is POST/PUT, and the caller gave none; value = the body length;
 *    the caller's fields are kept, in order, unchanged.
 * Caller's fields: any subset of {Host, Content-Length, Expect} (Expect: 100-continue or other). */
#define VF_STRMAX 18
#define VF_HEAPSTR 20
#include "vf.h"
#include "http.c"
struct in { int u_host, u_cl, u_ex; unsigned type; char major, minor; size_t bodylen; int ext_has_body; unsigned ch[VF_NCHOICE]; };
struct in IN;
#include "stubs/log.h"
#include "stubs/c23_libc_ref.h"
#define VF_MM_NOFAIL
#include "stubs/c23_mm.h"
#include "stubs/c23_out_log.h"
#include "c23_ref.h"

#define VF_EXT_TYPE (1u << 16)
static char XMETH[6];
static int vf_ext_cmp(struct evhttp_ext_method *m)
{
	if (m->method == NULL && m->type == VF_EXT_TYPE) { m->method = XMETH; m->flags = IN.ext_has_body ? EVHTTP_METHOD_HAS_BODY : 0; return 0; }
	return -1;
}
static struct evkeyvalq IQ, OQ;
static char URI[5];
static struct evhttp_connection EVCON; static struct evhttp_request REQ;
static void vf_setstr(char *d, const char *s) { unsigned i; for (i = 0; i <= VF_STRMAX; i++) { d[i] = s[i]; if (!s[i]) break; } }
static void vf_user_header(const char *k, const char *v)
{
	struct evkeyval *h = malloc(sizeof(*h));
	__CPROVER_assume(h != NULL); g_mm_live++;
	h->key = event_mm_strdup_(k); h->value = event_mm_strdup_(v);
	TAILQ_INSERT_TAIL(&OQ, h, next);
}
/* RFC 9110 9 / RFC 4918 / RFC 5789 method names of the predefined request types */
static const char *ref_method(unsigned t)
{
	switch (t) {
	case EVHTTP_REQ_GET: return "GET"; case EVHTTP_REQ_POST: return "POST"; case EVHTTP_REQ_HEAD: return "HEAD"; case EVHTTP_REQ_PUT: return "PUT";
	case EVHTTP_REQ_DELETE: return "DELETE"; case EVHTTP_REQ_OPTIONS: return "OPTIONS"; case EVHTTP_REQ_TRACE: return "TRACE"; case EVHTTP_REQ_CONNECT: return "CONNECT";
	case EVHTTP_REQ_PATCH: return "PATCH"; case EVHTTP_REQ_PROPFIND: return "PROPFIND"; case EVHTTP_REQ_PROPPATCH: return "PROPPATCH"; case EVHTTP_REQ_MKCOL: return "MKCOL";
	case EVHTTP_REQ_LOCK: return "LOCK"; case EVHTTP_REQ_UNLOCK: return "UNLOCK"; case EVHTTP_REQ_COPY: return "COPY"; case EVHTTP_REQ_MOVE: return "MOVE";
	case VF_EXT_TYPE: return "XMETH";
	default: return NULL;
	}
}

void harness(void)
{
	const char *expk[5], *expv[5], *m; unsigned ne = 0, nh; int has_body_flag, auto_cl, hold; struct evkeyval *h;
	VF_LOAD_IN(); VF_MM_RESET(); VF_OUT_RESET(); e_snprintf_calls = 0; e_snprintf_val = 0;
	__CPROVER_assume(IN.major >= 0 && IN.major <= 9 && IN.minor >= 0 && IN.minor <= 9);
	__CPROVER_assume(IN.u_ex >= 0 && IN.u_ex <= 2);
	m = ref_method(IN.type);
	__CPROVER_assume(m != NULL);          /* evhttp_make_request with a type nobody knows writes the literal method "NULL": outside this unit's claim */
	TAILQ_INIT(&IQ); TAILQ_INIT(&OQ); vf_setstr(URI, "/a?b"); vf_setstr(XMETH, "XMETH");
	if (IN.u_host) vf_user_header("Host", "h");
	if (IN.u_cl) vf_user_header("Content-Length", "5");
	if (IN.u_ex) vf_user_header("Expect", IN.u_ex == 1 ? "100-Continue" : "other");
	EVCON.bufev = &BEV; EVCON.ext_method_cmp = vf_ext_cmp;
	REQ.evcon = &EVCON; REQ.kind = EVHTTP_REQUEST; REQ.input_headers = &IQ; REQ.output_headers = &OQ; REQ.output_buffer = &EB[E_ROUT];
	REQ.major = IN.major; REQ.minor = IN.minor; REQ.type = (enum evhttp_cmd_type)IN.type; REQ.uri = URI; REQ.flags = 0;
	EB[E_ROUT].len = IN.bodylen;
	__CPROVER_assume(IN.bodylen <= ((size_t)1 << 62));

	has_body_flag = IN.type == VF_EXT_TYPE ? (IN.ext_has_body != 0) : (IN.type != EVHTTP_REQ_HEAD && IN.type != EVHTTP_REQ_TRACE);
	auto_cl = has_body_flag && (IN.bodylen > 0 || IN.type == EVHTTP_REQ_POST || IN.type == EVHTTP_REQ_PUT) && !IN.u_cl;
	if (IN.u_host) { expk[ne] = "Host"; expv[ne++] = "h"; }
	if (IN.u_cl) { expk[ne] = "Content-Length"; expv[ne++] = "5"; }
	if (IN.u_ex) { expk[ne] = "Expect"; expv[ne++] = IN.u_ex == 1 ? "100-Continue" : "other"; }
	if (auto_cl) { expk[ne] = "Content-Length"; expv[ne++] = "#L"; }
	hold = IN.u_ex == 1 && (IN.major > 1 || (IN.major == 1 && IN.minor >= 1));

	evhttp_make_header(&EVCON, &REQ);

	nh = 0;
	TAILQ_FOREACH(h, &OQ, next) {
		if (nh >= 5) break;
		__CPROVER_assert(nh < ne && ref_streq(h->key, expk[nh]) && ref_streq(h->value, expv[nh]), "header list: the caller's fields unchanged and in order, then the automatic Content-Length iff documented");
		__CPROVER_assert(e_log[1 + nh].op == OP_HDR && e_log[1 + nh].s1 == h->key && e_log[1 + nh].s2 == h->value, "wire: one \"name: value\" line per list entry, in list order");
		nh++;
	}
	__CPROVER_assert(nh == ne, "header list: no field missing, none extra");
	__CPROVER_assert(IMP(auto_cl, e_snprintf_calls == 1 && e_snprintf_val == IN.bodylen), "automatic Content-Length = the length of the body buffer");
	__CPROVER_assert(IMP(!auto_cl, e_snprintf_calls == 0), "no Content-Length computed otherwise");
	__CPROVER_assert(e_log[0].op == OP_REQLINE && e_log[0].s1 != NULL && ref_streq(e_log[0].s1, m) && e_log[0].s2 == URI && e_log[0].i1 == IN.major && e_log[0].i2 == IN.minor, "wire: request line first: the method's name, the request's target string, the version");
	__CPROVER_assert(URI[0] == '/' && URI[1] == 'a' && URI[2] == '?' && URI[3] == 'b' && URI[4] == 0, "the target string is not modified");
	__CPROVER_assert(e_log[1 + nh].op == OP_CRLF, "wire: empty line after the last header line");
	__CPROVER_assert((IN.bodylen > 0 && !hold) ? (e_nlog == nh + 3 && e_log[2 + nh].op == OP_BUFFER && e_log[2 + nh].src == &EB[E_ROUT] && e_log[2 + nh].n == IN.bodylen) : (e_nlog == nh + 2 && EB[E_ROUT].len == IN.bodylen), "wire: then the body buffer iff non-empty and not held back by Expect: 100-continue; nothing else");
#ifdef VF_CANARY
	__CPROVER_assert(!auto_cl, "canary: must fail (POST gets a Content-Length)");
#endif
}
