/* C21 — ev_token_bucket_update_ (real bufferevent_ratelim.c) against the property's own
 * sentence, written with 128-bit integers: new level = min(maximum, old + ticks*rate).
 * This is the DIRECT statement.  Proving it needs 64-bit multiply/divide reasoning that the SAT
 * back end cannot finish (DESIGN P9), so this unit is the REFUTATION side: it is run when the
 * code-shaped unit c21_update_shape fails, to find a concrete input that violates the property
 * (replayed natively).  On the unchanged tree the proof is carried by c21_update_shape +
 * c21_update_lemma. */
#include "vf.h"
#include "bufferevent_ratelim.c"
struct in { ev_ssize_t rl, wl; size_t rr, rm, wr, wm; ev_uint32_t last, cur; };
struct in IN;
#include "stubs/log.h"
#include "c21_contracts.h"

static struct ev_token_bucket B; static struct ev_token_bucket_cfg CFG;
void harness(void)
{
	int r;
	VF_LOAD_IN();
	C21_LOAD(B, CFG, IN);
#ifdef C21_SMALL
	__CPROVER_assume(IN.rm < 256 && IN.wm < 256 && IN.rl > -256 && IN.rl < 512 && IN.wl > -256 && IN.wl < 512 && (ev_uint32_t)(IN.cur - IN.last) < 16);
#endif
	r = VF_CALL(tb_update_spec_c, ev_token_bucket_update_, &B, &CFG, IN.cur);
	(void)r;
#ifdef VF_CANARY
	__CPROVER_assert(B.read_limit != 7, "canary: must fail (7 is a possible level)");
#endif
}
