/* C19/C08 — bufferevent_run_eventcb_ (real bufferevent.c): deferred (option of the bufferevent or of the call) =>
 * the event bits are OR-ed into eventcb_pending, the current socket errno is stored, the deferred callback is
 * scheduled once and a reference is taken iff it was newly queued — nothing is called; immediate => exactly one
 * direct call with exactly `what`, lock held; NULL event callback => nothing at all happens. */
#include "c18_bev_unit.h"
short O_ep; int O_errp, O_refcnt, O_queued, O_err;
#define DEFER(o) ((((int)BEVP.options | (o)) & BEV_OPT_DEFER_CALLBACKS) != 0)
#define HAS_E (BEV->errorcb != NULL)
VF_CONTRACT_V(run_eventcb_c, struct bufferevent *bufev, short what, int options)
__CPROVER_requires(bufev == BEV && BEVP.refcnt >= 1 && BEVP.refcnt <= (1 << 24))     /* "Requires that we hold the lock and a reference" */
__CPROVER_requires(g_e.nseq == 0 && g_e.nev == 0 && g_e.sched_calls == 0 && g_e.sched_new == 0 && g_lock_depth[1] == B(BEVP.lock != NULL))
__CPROVER_assigns(BEVP.eventcb_pending, BEVP.errno_pending, BEVP.refcnt, BEV->enabled, BEV->wm_read.low, BEV->wm_read.high, BEV_GHOST_FRAME)
__CPROVER_ensures(IMP(!HAS_E, g_e.nseq == 0 && g_e.sched_calls == 0 && BEVP.eventcb_pending == O_ep && BEVP.errno_pending == O_errp && BEVP.refcnt == O_refcnt))
__CPROVER_ensures(IMP(HAS_E && DEFER(options), g_e.nseq == 0 && BEVP.eventcb_pending == (short)(O_ep | what) && BEVP.errno_pending == O_err))
__CPROVER_ensures(IMP(HAS_E && DEFER(options), g_e.sched_calls == 1 && g_e.sched_new == B(!O_queued) && BEVP.refcnt == O_refcnt + g_e.sched_new))
__CPROVER_ensures(IMP(HAS_E && !DEFER(options), g_e.nseq == 1 && g_e.nev == 1 && g_e.ev0.what == what && g_e.ev0.arg_ok && g_e.ev0.lockdepth == HELD(1) && g_e.ev0.err == O_err))
__CPROVER_ensures(IMP(HAS_E && !DEFER(options), g_e.sched_calls == 0 && BEVP.eventcb_pending == O_ep && BEVP.errno_pending == O_errp && BEVP.refcnt == O_refcnt))
__CPROVER_ensures(g_lock_depth[1] == B(BEVP.lock != NULL))
;
void harness(void)
{
	VF_LOAD_IN();
	vf_bev_build();
	__CPROVER_assume(IN.refcnt >= 1 && IN.refcnt <= (1 << 24));
	if (BEVP.lock) g_lock_depth[1] = 1;
	O_ep = IN.ep; O_errp = IN.errp; O_refcnt = IN.refcnt; O_queued = IN.queued & 1; O_err = IN.err;
	VF_CALL_V(run_eventcb_c, bufferevent_run_eventcb_, BEV, IN.what, IN.options);
	__CPROVER_assert(BEVP.readcb_pending == (IN.rp & 1) && BEVP.writecb_pending == (IN.wp & 1) && g_e.rd.n == 0 && g_e.wr.n == 0, "data callbacks and their pending bits untouched");
#ifdef VF_CANARY
	__CPROVER_assert(g_e.nseq == 0, "canary: must fail (immediate event callbacks are called)");
#endif
}
