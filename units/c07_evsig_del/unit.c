/* C07 — evsig_del (real signal.c, evsig_restore_handler_ inlined): deleting the last event of a
 * signal re-installs exactly the disposition saved by the first add, empties the slot, and
 * decrements the signal counters (base and global copy) by one. */
#define _GNU_SOURCE 1
#include "vf.h"
#include "signal.c"
#include "c07_signal_shape.h"
struct in { struct c07_in s; int n_added, g_added; unsigned ch[VF_NCHOICE]; };
struct in IN;
#include "stubs/log.h"
#include "stubs/mm.h"
#define C07_BODY
#include "c07_signal_shape.h"
#define INARR (IN.s.sig < IN.s.sh_old_max)

VF_CONTRACT(int, evsig_del_c, struct event_base *base, evutil_socket_t evsignal, short old, short events, void *p)
__CPROVER_requires(base == &BASE && evsignal == IN.s.sig)
__CPROVER_requires(g_sigaction_calls == 0 && g_sigaction_ok == 0 && g_sigaction_sets == 0 && g_mm_frees == 0)
__CPROVER_assigns(SHOLD[IN.s.sig], D_SIG, BASE.sig.ev_n_signals_added, evsig_base_n_signals_added, g_sigaction_calls, g_sigaction_ok, g_sigaction_sets, g_mm_live, g_mm_frees, errno, vf_nchoice_)
__CPROVER_frees(O_SLOT)
/* 1 counters go down by one, whatever happens */
__CPROVER_ensures(BASE.sig.ev_n_signals_added == IN.n_added - 1 && evsig_base_n_signals_added == IN.g_added - 1)
/* 2 C07: the disposition that the first add saved is re-installed exactly; -1 iff sigaction refused (then nothing changed) */
__CPROVER_ensures(IMP(INARR && IN.s.slot_saved, g_sigaction_calls == 1 && __CPROVER_return_value == (g_sigaction_ok == 1 ? 0 : -1)
	&& IMP(__CPROVER_return_value == 0, SAEQ(D_SIG, O_SAVED)) && IMP(__CPROVER_return_value == -1, SAEQ(D_SIG, O_CUR))))
/* 3 the slot is emptied and the saved record released */
__CPROVER_ensures(IMP(INARR, SHOLD[IN.s.sig] == NULL && g_mm_frees == (IN.s.slot_saved ? 1 : 0)))
/* 4 other signals untouched */
__CPROVER_ensures(SAEQ(D_W, O_WCUR) && IMP(IN.s.w < IN.s.sh_old_max, SHOLD[IN.s.w] == O_WSLOT))
;

void harness(void)
{
	int r;
	VF_LOAD_IN();
	VF_MM_RESET();
	__CPROVER_assume(IN.n_added >= 1 && IN.n_added < 1000000 && IN.g_added >= 1 && IN.g_added < 1000000);   /* this signal was counted by evsig_add */
	c07_build();
	BASE.sig.ev_n_signals_added = IN.n_added;
	evsig_base_lock = NULL; evsig_base = &BASE; evsig_base_n_signals_added = IN.g_added; evsig_base_fd = -1;
	r = VF_CALL(evsig_del_c, evsig_del, &BASE, IN.s.sig, 0, EV_SIGNAL, NULL);
	(void)r;
#ifdef VF_CANARY
	__CPROVER_assert(SAEQ(D_SIG, O_CUR), "canary: must fail (the delete changes the disposition)");
#endif
}
