/* C10/C08/C03 — event_process_active_single_queue, ONE dispatch, on really malloc'ed callback objects:
 * every closure kind reaches the right entry point exactly once; EV_CLOSURE_EVENT_FINALIZE_FREE frees the event
 * exactly once AFTER its finalizer and nothing else is freed by the library; the running callback may free its own
 * object (action 5) and the loop does not touch it afterwards (no use after free: CBMC's pointer checks on the real
 * code).  Same text as unit c03_single_queue (see there), compiled with VF_DYN and KD=1. */
#define VF_DYN 1
#include "../c03_single_queue/unit.c"
