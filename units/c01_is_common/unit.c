/* C01 — is_common_timeout / get_common_timeout_list / is_same_common_timeout (real event.c): the
 * magic encoding.  A timeval is a common timeout of the base iff bits 28..31 of tv_usec are 0x5 and
 * bits 20..27 index a registered queue; the queue is common_timeout_queues[index]; "same" compares
 * everything above the 20 microsecond bits. */
#define VF_NLOCKS 1
#include "vf.h"
#include "event.c"
#include "stubs/lock.h"
#include "stubs/log.h"
#define C02_NO_AQ
#include "c02_event_shape.h"
struct in { struct c02_base_in b; long sec, usec, sec2, usec2; };
struct in IN;
static struct timeval T1, T2;
VF_CONTRACT(int, is_common_c, const struct timeval *tv, const struct event_base *base)
__CPROVER_requires(tv == &T1 && base == &BASE)
__CPROVER_assigns()
__CPROVER_ensures(IFF(__CPROVER_return_value != 0, ((IN.usec >> 28) & 0xf) == 0x5 && ((IN.usec >> 20) & 0xff) < IN.b.n_common))
;
void harness(void)
{
	int r;
	VF_LOAD_IN(); VF_INSTALL_LOCKS();
	c02_build_base(&IN.b);
	__CPROVER_assume(IN.usec >= 0 && IN.usec <= 0xffffffffL && IN.usec2 >= 0 && IN.usec2 <= 0xffffffffL);
	T1.tv_sec = IN.sec; T1.tv_usec = IN.usec; T2.tv_sec = IN.sec2; T2.tv_usec = IN.usec2;
	r = VF_CALL(is_common_c, is_common_timeout, &T1, &BASE);
	if (r) {
		CTQ[(IN.usec >> 20) & 0xff] = &CTL;
		__CPROVER_assert(get_common_timeout_list(&BASE, &T1) == &CTL, "get_common_timeout_list: the queue of the encoded index");
	}
	__CPROVER_assert(IFF(is_same_common_timeout(&T1, &T2), (IN.usec >> 20) == (IN.usec2 >> 20)), "is_same_common_timeout: equal magic+index bits");
#ifdef VF_CANARY
	__CPROVER_assert(!r, "canary: must fail (registered common timeouts are recognised)");
#endif
}
