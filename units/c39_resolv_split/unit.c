/* C39 — evdns_base_resolv_conf_parse_impl (real evdns.c) with the real evdns_resolv_set_defaults and
 * evdns_get_default_hosts_filename: the line splitting of a resolv.conf image and the bookkeeping around it.
 * For EVERY file image of <= C39_FILECAP bytes (symbolic content: newlines and NULs anywhere), every flag
 * set, file present / absent / unreadable, nameservers configured or not, search list present or not:
 *   - every line (maximal run without '\n', up to the first NUL) is handed to resolv_conf_parse_line exactly
 *     once, in file order, NUL-terminated IN PLACE at its newline; the last line needs no newline;
 *     nothing but newline bytes of the image is modified; the image is released exactly once
 *   - DNS_OPTION_HOSTSFILE: the default hosts file is loaded first (and the name string released)
 *   - no file name / file absent: defaults (search domain from the host name iff DNS_OPTION_SEARCH,
 *     127.0.0.1 iff DNS_OPTION_NAMESERVERS without ..._NO_DEFAULT) and EVDNS_ERROR_FAILED_TO_OPEN_FILE;
 *     unreadable: EVDNS_ERROR_FAILED_TO_STAT_FILE and nothing else
 *   - after parsing: no nameserver and defaults wanted -> 127.0.0.1 added, EVDNS_ERROR_NO_NAMESERVERS_CONFIGURED;
 *     DNS_OPTION_SEARCH and no search domain -> search domain from the host name
 * resolv_conf_parse_line, evdns_base_load_hosts, evdns_base_nameserver_ip_add, search_set_from_hostname are
 * recording stub bodies ("replace_calls"); evutil_read_file_ hands out the image. */
#define VF_NLOCKS 1
#include "vf.h"
#include "evdns.c"
#ifndef C39_FILECAP
#define C39_FILECAP 8
#endif
#define C39_MAXLINES (C39_FILECAP + 1)
struct in { char file[C39_FILECAP + 1]; unsigned zap; int flags; int fname_null; int read_err; int have_ns; int gss_kind; int ns_ret; };
struct in IN;
#include "stubs/log.h"
#include "stubs/lock.h"
#include "stubs/c39_libc_ref.h"
#include "stubs/c39_evdns_env.h"
#include "mm-internal.h"

static struct evdns_base C39_BASE; static struct nameserver C39_NS; static struct search_state C39_SS;
static char C39_FILE[C39_FILECAP + 1], O_FILE[C39_FILECAP + 1];
static const char C39_FNAME[] = "resolv.conf";
static int O_nlines, O_ls[C39_MAXLINES + 1], O_le[C39_MAXLINES + 1];

/* ---- allocator of this unit: the only allocation is the strdup of the hosts file name; the only frees are
 * that string and the file image */
static char C39_STRDUP[16]; int g_strdup_n, g_free_name, g_free_image, g_free_other;
char *event_mm_strdup_(const char *s) { int i; for (i = 0; i < 15 && s[i]; i++) C39_STRDUP[i] = s[i]; C39_STRDUP[i] = 0; g_strdup_n++; return C39_STRDUP; }
void event_mm_free_(void *p) { if (p == (void *)C39_STRDUP) g_free_name++; else if (p == (void *)C39_FILE) g_free_image++; else if (p) g_free_other++; }
void *event_mm_malloc_(size_t sz) { (void)sz; __CPROVER_assert(0, "allocator model: malloc is not used on this path"); return NULL; }
void *event_mm_calloc_(size_t n, size_t sz) { (void)n; (void)sz; __CPROVER_assert(0, "allocator model: calloc is not used on this path"); return NULL; }

int g_read_calls;
int evutil_read_file_(const char *filename, char **content_out, size_t *len_out, int is_binary)
{
	size_t n = 0;
	__CPROVER_assert(filename == C39_FNAME && is_binary == 0, "evutil_read_file_: the given file, text mode");
	g_read_calls++;
	if (IN.read_err) return IN.read_err == 1 ? -1 : -2;
	while (C39_FILE[n] != '\0') n++;
	*content_out = C39_FILE; *len_out = n;              /* the real one returns a NUL-terminated heap copy */
	return 0;
}
/* ---- recording stubs */
int g_line_n, g_line_off[C39_MAXLINES + 1], g_hosts_n, g_hosts_first, g_ns_n, g_ns_after_lines, g_sfh_n, g_sfh_after_lines;
void c39_parse_line_stub(struct evdns_base *base, char *const start, int flags)
{
	int off = (int)(start - C39_FILE);
	__CPROVER_assert(base == &C39_BASE && flags == IN.flags && __CPROVER_same_object(start, C39_FILE) && off >= 0 && off <= C39_FILECAP, "resolv_conf_parse_line: this base, these flags, a position inside the image");
	if (g_line_n < C39_MAXLINES) {
		g_line_off[g_line_n] = off;
		__CPROVER_assert(g_line_n < O_nlines && off == O_ls[g_line_n], "line k starts where the reference says (file order, each line once)");
		if (g_line_n < O_nlines && off == O_ls[g_line_n]) {
			__CPROVER_assert(C39_FILE[O_le[g_line_n]] == '\0', "the line is NUL-terminated in place at its newline when it is handed over");
		}
	}
	/* what the real function may do to the image (c39_parse_line): turn SPACE/TAB bytes of this line into NUL — any subset */
	if (g_line_n < O_nlines && off == O_ls[g_line_n]) {
		int j;
		for (j = 0; j <= C39_FILECAP; j++)
			if (j >= off && j < O_le[g_line_n] && ((IN.zap >> j) & 1u) && (C39_FILE[j] == ' ' || C39_FILE[j] == '\t')) C39_FILE[j] = '\0';
	}
	g_line_n++;
}
int c39_load_hosts_stub(struct evdns_base *base, const char *fname)
{
	__CPROVER_assert(base == &C39_BASE && fname == C39_STRDUP && fname[0] == '/' && fname[1] == 'e' && fname[4] == '/' && fname[5] == 'h' && fname[10] == '\0', "evdns_base_load_hosts: this base, the default name /etc/hosts");
	g_hosts_first = (g_line_n == 0 && g_read_calls == 0); g_hosts_n++;
	return 0;
}
int c39_ns_add_stub(struct evdns_base *base, const char *ip)
{
	__CPROVER_assert(base == &C39_BASE && ip[0] == '1' && ip[1] == '2' && ip[2] == '7' && ip[3] == '.' && ip[4] == '0' && ip[8] == '1' && ip[9] == '\0', "evdns_base_nameserver_ip_add: this base, 127.0.0.1");
	g_ns_after_lines = g_line_n; g_ns_n++;
	return IN.ns_ret;
}
void c39_sfh_stub(struct evdns_base *base)
{
	__CPROVER_assert(base == &C39_BASE, "search_set_from_hostname: this base");
	g_sfh_after_lines = g_line_n; g_sfh_n++;
}
#define A(c, text) __CPROVER_assert(c, text)

void harness(void)
{
	int r, i, k, want_default, search_empty;
	VF_LOAD_IN();
	VF_INSTALL_LOCKS();
	__CPROVER_assume(IN.read_err >= 0 && IN.read_err <= 2 && IN.gss_kind >= 0 && IN.gss_kind <= 2);
	for (i = 0; i < C39_FILECAP; i++) { C39_FILE[i] = IN.file[i]; O_FILE[i] = IN.file[i]; }
	C39_FILE[C39_FILECAP] = '\0'; O_FILE[C39_FILECAP] = '\0';
	evdns_log_fn = NULL; current_base = NULL;
	g_strdup_n = g_free_name = g_free_image = g_free_other = g_read_calls = 0;
	g_line_n = g_hosts_n = g_hosts_first = g_ns_n = g_ns_after_lines = g_sfh_n = g_sfh_after_lines = 0;
	C39_BASE.lock = VF_LOCK_COOKIE(1); g_lock_depth[1] = 1;
	C39_BASE.server_head = IN.have_ns ? &C39_NS : NULL;
	C39_SS.num_domains = (IN.gss_kind == 2) ? 1 : 0;
	C39_BASE.global_search_state = IN.gss_kind ? &C39_SS : NULL;
	/* reference: lines of the image */
	O_nlines = 0; k = 0; O_ls[0] = 0;
	for (i = 0; i <= C39_FILECAP; i++) {
		if (O_FILE[i] == '\n') { O_le[k] = i; k++; O_ls[k] = i + 1; }
		else if (O_FILE[i] == '\0') { O_le[k] = i; k++; break; }
	}
	O_nlines = k;
	want_default = (IN.flags & DNS_OPTION_NAMESERVERS) && !(IN.flags & DNS_OPTION_NAMESERVERS_NO_DEFAULT);
	search_empty = (IN.gss_kind != 2);

	r = evdns_base_resolv_conf_parse_impl(&C39_BASE, IN.flags, IN.fname_null ? NULL : C39_FNAME);

	A(g_hosts_n == ((IN.flags & DNS_OPTION_HOSTSFILE) ? 1 : 0) && IMP(g_hosts_n == 1, g_hosts_first && g_strdup_n == 1 && g_free_name == 1), "DNS_OPTION_HOSTSFILE: the default hosts file is loaded first, once, and its name string is released; never otherwise");
	A(g_free_other == 0, "nothing else is released");
	if (IN.fname_null || IN.read_err == 1) {
		A(r == EVDNS_ERROR_FAILED_TO_OPEN_FILE && g_line_n == 0 && g_free_image == 0, "no file: EVDNS_ERROR_FAILED_TO_OPEN_FILE, no line parsed");
		A(g_read_calls == (IN.fname_null ? 0 : 1), "the file is read at most once");
		A(g_sfh_n == ((IN.flags & DNS_OPTION_SEARCH) ? 1 : 0) && g_ns_n == (want_default ? 1 : 0), "no file: defaults — search domain from the host name iff DNS_OPTION_SEARCH, 127.0.0.1 iff nameservers wanted and defaults not disabled");
	} else if (IN.read_err == 2) {
		A(r == EVDNS_ERROR_FAILED_TO_STAT_FILE && g_line_n == 0 && g_sfh_n == 0 && g_ns_n == 0 && g_free_image == 0, "unreadable file: EVDNS_ERROR_FAILED_TO_STAT_FILE, nothing configured");
	} else {
		A(g_line_n == O_nlines, "every line of the image is parsed exactly once (a last line without newline included)");
		A(g_free_image == 1, "the image is released exactly once");
		A(g_ns_n == ((!IN.have_ns && want_default) ? 1 : 0) && IMP(g_ns_n == 1, g_ns_after_lines == O_nlines), "after all lines: 127.0.0.1 is added iff no nameserver is configured and defaults are wanted");
		A(r == (g_ns_n == 1 ? EVDNS_ERROR_NO_NAMESERVERS_CONFIGURED : EVDNS_ERROR_NONE), "result: EVDNS_ERROR_NO_NAMESERVERS_CONFIGURED iff the default had to be added, else EVDNS_ERROR_NONE");
		A(g_sfh_n == (((IN.flags & DNS_OPTION_SEARCH) && search_empty) ? 1 : 0) && IMP(g_sfh_n == 1, g_sfh_after_lines == O_nlines), "after all lines: the search domain comes from the host name iff DNS_OPTION_SEARCH and no domain is configured");
		for (i = 0; i <= C39_FILECAP; i++)
			A(C39_FILE[i] == O_FILE[i] || (C39_FILE[i] == '\0' && (O_FILE[i] == '\n' || O_FILE[i] == ' ' || O_FILE[i] == '\t')), "only newline bytes of the image (and the delimiters the line parser cuts) are overwritten, and only by NUL");
	}
	A(g_lock_depth[1] == 1 && g_lock_ops == 0, "C08: the base lock is neither taken nor released");
#ifdef VF_CANARY
	A(g_line_n < 3, "canary: must fail (an image can have 3 lines)");
#endif
}
