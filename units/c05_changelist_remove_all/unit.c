/* C05 — event_changelist_remove_all_ (real evmap.c): after the backend has applied the pending
 * changes, every fd/signal that had an entry gets its fdinfo link cleared and the list is empty,
 * so the next add/del for it starts a fresh entry with old_events = the registered set.
 * Compiled without NDEBUG: the function's own EVUTIL_ASSERT (link consistency) is an obligation. */
#include "vf.h"
#include "evmap.c"
#ifndef C05_RA_N
#define C05_RA_N 4
#endif
#define NFD 4
#define NSG 2
struct in {
	int n;                         /* pending changes, 0..4 */
	int efd[4]; int is_sig[4];     /* entry k belongs to fd efd[k] (or signal efd[k]) */
	int other_fd;                  /* an fd without a pending change */
	unsigned ch[VF_NCHOICE];
};
struct in IN;
#include "stubs/log.h"
#include "stubs/mm.h"

static struct event_base BASE;
static struct event_change CHG[4];
struct io_rec { struct evmap_io io; struct event_changelist_fdinfo fi; };
struct sig_rec { struct evmap_signal sg; struct event_changelist_fdinfo fi; };
static struct io_rec IOR[NFD]; static struct sig_rec SGR[NSG];
static void *IOTAB[NFD]; static void *SGTAB[NSG];
#define FI_OF(k) (IN.is_sig[k] ? &SGR[IN.efd[k]].fi : &IOR[IN.efd[k]].fi)

VF_CONTRACT_V(cl_remove_all_c, struct event_changelist *changelist, struct event_base *base)
__CPROVER_requires(changelist == &BASE.changelist && base == &BASE)
__CPROVER_assigns(BASE.changelist.n_changes, IOR[0].fi.idxplus1, IOR[1].fi.idxplus1, IOR[2].fi.idxplus1, IOR[3].fi.idxplus1, SGR[0].fi.idxplus1, SGR[1].fi.idxplus1)
__CPROVER_ensures(changelist->n_changes == 0)
__CPROVER_ensures(IOR[0].fi.idxplus1 == 0 && IOR[1].fi.idxplus1 == 0 && IOR[2].fi.idxplus1 == 0 && IOR[3].fi.idxplus1 == 0 && SGR[0].fi.idxplus1 == 0 && SGR[1].fi.idxplus1 == 0)
;

void harness(void)
{
	int k, j;
	VF_LOAD_IN();
	__CPROVER_assume(IN.n >= 0 && IN.n <= C05_RA_N);
	for (k = 0; k < NFD; k++) { IOTAB[k] = &IOR[k]; IOR[k].fi.idxplus1 = 0; }
	for (k = 0; k < NSG; k++) { SGTAB[k] = &SGR[k]; SGR[k].fi.idxplus1 = 0; }
	BASE.io.entries = IOTAB; BASE.io.nentries = NFD; BASE.sigmap.entries = SGTAB; BASE.sigmap.nentries = NSG;
	/* changelist invariant (event_changelist_assert_ok): entry k belongs to a distinct fd/signal whose fdinfo says k+1 */
	for (k = 0; k < 4; k++) {
		if (k >= IN.n) break;
		__CPROVER_assume(IN.efd[k] >= 0 && IN.efd[k] < (IN.is_sig[k] ? NSG : NFD));
		for (j = 0; j < k; j++) __CPROVER_assume(!(IN.efd[j] == IN.efd[k] && !IN.is_sig[j] == !IN.is_sig[k]));
		CHG[k].fd = IN.efd[k]; CHG[k].read_change = IN.is_sig[k] ? (EV_CHANGE_ADD | EV_CHANGE_SIGNAL) : EV_CHANGE_ADD;
		FI_OF(k)->idxplus1 = k + 1;
	}
	BASE.changelist.changes = CHG; BASE.changelist.n_changes = IN.n; BASE.changelist.changes_size = 4;
	VF_CALL_V(cl_remove_all_c, event_changelist_remove_all_, &BASE.changelist, &BASE);
#ifdef VF_CANARY
	__CPROVER_assert(IOR[3].fi.idxplus1 == 0 && IN.n == 0, "canary: must fail (lists can be non-empty)");
#endif
}
