/* C11 — evmap_signal_reinit_iter_fn (real evmap.c): see the contract signal_reinit_iter_c in contracts/c11_reinit.h. */
#include "c11_reinit.h"
void harness(void)
{
	int r;
	VF_LOAD_IN();
	c11_build();
	__CPROVER_assume(IN.fd >= 0 && IN.fd < NSG);
	r = VF_CALL(signal_reinit_iter_c, evmap_signal_reinit_iter_fn, &BASE, IN.fd, &SGR[IN.fd].sg, (void *)&RESULT);
	(void)r;
#ifdef VF_CANARY
	__CPROVER_assert(g_sadd_calls == 0, "canary: must fail (a signal with events is re-registered)");
#endif
}
