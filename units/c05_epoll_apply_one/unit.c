/* C05/C06 — epoll_apply_one_change (real epoll.c) against the witness-fd generalisation of the
 * C06 contract: the clauses of units/c06_apply_one_change for a change of the witness fd, and
 * "a change for any other fd leaves the witness registration untouched".  This is the contract
 * the loop of epoll_apply_changes is verified against (unit c05_epoll_apply_changes). */
#include "vf.h"
#include "epoll.c"
#include "stubs/log.h"
struct in {
	int fd; int epfd; int kstate; unsigned stale_mask;
	int chfd;                      /* the change's fd: IN.fd or any other */
	short old_events; unsigned char rc, wc, cc;
	unsigned ch[VF_NCHOICE];
};
struct in IN;
#include "c05_epoll_contracts.h"

static struct event_base BASE; static struct epollop EPOP; static struct event_change CHG;
void harness(void)
{
	int r;
	VF_LOAD_IN();
	__CPROVER_assume(IN.kstate >= 0 && IN.kstate <= 2);
	EPOP.epfd = IN.epfd; BASE.evbase = &EPOP;
	CHG.fd = IN.chfd; CHG.old_events = IN.old_events;
	CHG.read_change = IN.rc; CHG.write_change = IN.wc; CHG.close_change = IN.cc;
	if (IN.chfd == IN.fd) {
		__CPROVER_assume((IN.old_events & ~(EV_READ|EV_WRITE|EV_CLOSED)) == 0);
		__CPROVER_assume(IMP(IN.kstate == 2, IN.old_events == 0));
		if (IN.kstate == 0) { k_registered = (IN.old_events != 0); k_mask = XL(IN.old_events); }
		else if (IN.kstate == 1) { k_registered = 0; k_mask = 0; }
		else { k_registered = 1; k_mask = IN.stale_mask; }
		k_calls = 0; k_first_failed = 0;
	} else {
		k_registered = (IN.stale_mask & 1u) != 0; k_mask = IN.stale_mask; k_calls = (int)(IN.stale_mask & 2u); k_first_failed = 0;
	}
	k_first_op = 0; k_other_calls = 0;
	r = VF_CALL(apply_one_any_c, epoll_apply_one_change, &BASE, &EPOP, &CHG);
	(void)r;
#ifdef VF_CANARY
	__CPROVER_assert(k_calls == 0 || IN.chfd != IN.fd, "canary: must fail (some change issues an operation)");
#endif
}
