#include <stdio.h>
#include <event2/event.h>
#include <event2/watch.h>
static int ran2;
static void selffree(struct evwatch *w, const struct evwatch_prepare_cb_info *i, void *a) { (void)i; (void)a; evwatch_free(w); }
static void second(struct evwatch *w, const struct evwatch_prepare_cb_info *i, void *a) { (void)w; (void)i; (void)a; ran2++; }
int main(void)
{
	struct event_base *base = event_base_new();
	struct timeval tv = { 0, 1000 };
	evwatch_prepare_new(base, selffree, NULL);
	evwatch_prepare_new(base, second, NULL);
	event_base_loopexit(base, &tv);
	event_base_loop(base, EVLOOP_ONCE);
	printf("second watcher ran %d time(s)\n", ran2);
	return 0;
}
