/* C45/C08 — the prepare/check watcher walks of event_base_loop (real event.c), exactly one loop iteration,
 * with watcher objects that are really malloc'ed and really freed from inside watcher callbacks.
 *
 * Shape (the bound): <= 3 watchers registered on entry on the list under test (VF_LIST: 0 = prepare walk in unit
 * c45_loop_watchers, 1 = check walk in unit c45_loop_check), the other list empty; each watcher its own malloc'ed
 * object, linked exactly as evwatch_new links them; one iteration of the loop (EVLOOP_ONCE, and the callee
 * contracts end the iteration); one re-entrant ACTION per watcher callback, chosen by IN:
 *   0 nothing   1 evwatch_free(self)   2 evwatch_free(successor)   3 evwatch_free(predecessor, already run)
 *   6 evwatch_free(the watcher two places ahead)   5 (only with -DVF_ADD) evwatch_*_new, appended at the tail
 * evwatch_free / evwatch_*_new are defined in watch.c (another TU): the bodies below are line-by-line the real
 * ones (lock, TAILQ_REMOVE / TAILQ_INSERT_TAIL, unlock, mm_free / mm_malloc) — units c45_evwatch_free and
 * c45_evwatch_new verify the real ones against exactly this effect.
 *
 * Checked: every watcher callback runs with the base lock released, between make_later_events_active and
 * dispatch (prepare) / between dispatch and timeout_process (check); no watcher runs after it was freed; every
 * registered watcher that is still alive when the walk finishes ran exactly once (nobody skipped, nobody twice);
 * prepare_info.timeout is the very timeout handed to dispatch; and memory safety of the walk itself.
 *
 * KNOWN FINDING (DESIGN §10.5): the walks are TAILQ_FOREACH, which reads watcher->next AFTER the callback returned;
 * a watcher that frees ITSELF in its callback (explicitly allowed by C45) makes that read a use-after-free.
 * The failing inputs are selected by KF_PRED; -DVF_KF_EXCLUDE removes them, -DVF_KF_ONLY keeps only them. */
#define VF_NLOCKS 1
#define VF_MM_NOFAIL
#include "vf.h"
#include "event.c"
/* VF_LIST selects the list under test: 0 = prepare walk (np <= 3 prepare watchers, no check watcher),
 * 1 = check walk (nc <= 3 check watchers, no prepare watcher).  VF_ADD additionally allows action 5. */
#ifndef VF_LIST
#define VF_LIST 0
#endif
#define NP 3
#define NC 3
struct in { int np, nc, flags, tn_null; long tn_sec, tn_usec; int nact0, cnt0, disp_fail, disp_act;
	unsigned char pact[NP + 1], cact[NC + 1], ptgt[NP + 1], ctgt[NC + 1]; };
struct in IN;
#include "stubs/log.h"
#include "stubs/lock.h"

static struct event_base BASE;
struct evwatch *g_p[NP + 1], *g_c[NC + 1];     /* slot NP / NC: the watcher added from a callback */
static char PCOOK[NP + 1], CCOOK[NC + 1];       /* user args: identify the watcher without touching its memory */
struct ghost {
	int phase, iter;
	int tn; int disp_calls; struct timeval *disp_tv;
	int prep_walk_done, check_walk_done;
} g_s;
int g_pran[NP + 1], g_pfreed[NP + 1], g_cran[NC + 1], g_cfreed[NC + 1];     /* per watcher: callback runs, freed */
const struct timeval *g_ptv[NP + 1];                                           /* the timeout each prepare watcher was told */
#define NACT(b) ((b)->event_count_active)

/* ---- watch.c's functions, restated (verified against the real ones in units c45_evwatch_free/_new) */
void evwatch_free(struct evwatch *watcher)
{
	EVBASE_ACQUIRE_LOCK(watcher->base, th_base_lock);
	TAILQ_REMOVE(&watcher->base->watchers[watcher->type], watcher, next);
	EVBASE_RELEASE_LOCK(watcher->base, th_base_lock);
	mm_free(watcher);
}
static struct evwatch *vf_evwatch_new(struct event_base *base, union evwatch_cb callback, void *arg, unsigned type)
{
	struct evwatch *watcher = mm_malloc(sizeof(struct evwatch));
	if (!watcher)
		return NULL;
	watcher->base = base;
	watcher->type = type;
	watcher->callback = callback;
	watcher->arg = arg;
	EVBASE_ACQUIRE_LOCK(base, th_base_lock);
	TAILQ_INSERT_TAIL(&base->watchers[type], watcher, next);
	EVBASE_RELEASE_LOCK(base, th_base_lock);
	return watcher;
}
static void vf_prep(struct evwatch *w, const struct evwatch_prepare_cb_info *info, void *arg);
static void vf_chk(struct evwatch *w, const struct evwatch_check_cb_info *info, void *arg);

/* the part common to both kinds of callback: at most ONE evwatch_free / evwatch_new per callback */
static void vf_watcher_action(int is_check, int k, unsigned char act, unsigned char tgt)
{
	int tl = is_check, tk = -1;
	struct evwatch *w = NULL;
	switch (act) {
	case 1: tk = k; break;
	case 2: tk = k + 1; break;
	case 3: tk = k - 1; break;
	case 4: tl = !is_check; tk = tgt; break;
	case 6: tk = k + 2; break;
	case 5:
		if (is_check) { if (g_c[NC] == NULL) { union evwatch_cb cb = { .check = vf_chk }; g_c[NC] = vf_evwatch_new(&BASE, cb, &CCOOK[NC], EVWATCH_CHECK); } }
		else { if (g_p[NP] == NULL) { union evwatch_cb cb = { .prepare = vf_prep }; g_p[NP] = vf_evwatch_new(&BASE, cb, &PCOOK[NP], EVWATCH_PREPARE); } }
		return;
	default: return;
	}
	if (tk < 0 || tk > (tl ? NC : NP)) return;
	if (tl) { if (g_c[tk] != NULL && !g_cfreed[tk]) { g_cfreed[tk] = 1; w = g_c[tk]; } }
	else { if (g_p[tk] != NULL && !g_pfreed[tk]) { g_pfreed[tk] = 1; w = g_p[tk]; } }
	if (w != NULL) evwatch_free(w);
}
static void vf_prep(struct evwatch *w, const struct evwatch_prepare_cb_info *info, void *arg)
{
	int k = (int)((char *)arg - &PCOOK[0]);
	__CPROVER_assert(k >= 0 && k <= NP, "prepare callback: the argument is the one registered");
	if (k < 0 || k > NP) return;
	__CPROVER_assert(g_lock_depth[1] == 0, "C08: watcher callbacks run with the base lock released");
	__CPROVER_assert(g_s.phase == 1 && g_s.disp_calls == 0, "C45: prepare watchers run after make_later_events_active and before the backend waits");
	__CPROVER_assert(!g_pfreed[k], "C45: no watcher runs after it was freed");
	__CPROVER_assert(w == g_p[k], "prepare callback: gets its own watcher handle");
	__CPROVER_assert(g_pran[k] == 0, "C45: a prepare watcher runs at most once per iteration");
	g_pran[k]++;
	g_ptv[k] = info->timeout;
	vf_watcher_action(0, k, IN.pact[k], IN.ptgt[k]);
}
static void vf_chk(struct evwatch *w, const struct evwatch_check_cb_info *info, void *arg)
{
	int k = (int)((char *)arg - &CCOOK[0]);
	(void)info;
	__CPROVER_assert(k >= 0 && k <= NC, "check callback: the argument is the one registered");
	if (k < 0 || k > NC) return;
	__CPROVER_assert(g_lock_depth[1] == 0, "C08: watcher callbacks run with the base lock released");
	__CPROVER_assert(g_s.phase == 2 && g_s.disp_calls == 1, "C45: check watchers run after the backend wait and before timeouts/callbacks are processed");
	__CPROVER_assert(!g_cfreed[k], "C45: no watcher runs after it was freed");
	__CPROVER_assert(w == g_c[k], "check callback: gets its own watcher handle");
	__CPROVER_assert(g_cran[k] == 0, "C45: a check watcher runs at most once per iteration");
	g_cran[k]++;
	vf_watcher_action(1, k, IN.cact[k], IN.ctgt[k]);
}

static unsigned long vf_thread_id(void) { return 7; }
void evsig_set_base_(struct event_base *base) { (void)base; }
static int vf_dispatch(struct event_base *base, struct timeval *tv)
{
	int k;
	__CPROVER_assert(base == &BASE && g_lock_depth[1] == 1 && g_s.phase == 1, "dispatch: lock held, after make_later_events_active");
	/* C45: every prepare watcher still registered ran exactly once before the wait, with the timeout used for the wait */
	for (k = 0; k <= NP; k++) {
		if (g_p[k] != NULL && !g_pfreed[k] && k < NP) __CPROVER_assert(g_pran[k] == 1, "C45: every registered prepare watcher ran exactly once before the wait (none skipped)");
		if (g_pran[k]) __CPROVER_assert(g_ptv[k] == tv, "C45: prepare watchers are told the timeout the loop is about to use");
	}
	if (g_s.tn) __CPROVER_assert(IN.tn_null ? tv == NULL : (tv != NULL && tv->tv_sec == IN.tn_sec && tv->tv_usec == IN.tn_usec), "the wait uses timeout_next's answer");
	else __CPROVER_assert(tv != NULL && tv->tv_sec == 0 && tv->tv_usec == 0, "poll without waiting");
	g_s.phase = 2; g_s.disp_calls++; g_s.disp_tv = tv; g_s.prep_walk_done = 1;
	if (IN.disp_fail) return -1;
	BASE.event_count_active = IN.disp_act;
	return 0;
}
static const struct eventop VF_EVSEL = { "vf", NULL, NULL, NULL, vf_dispatch, NULL, 0, 0, 0 };
static void vf_mm_free(void *p) { free(p); }
static void *vf_mm_malloc(size_t n) { void *p = malloc(n); __CPROVER_assume(p != NULL); return p; }

/* ---- callee contracts: only what this unit needs (their call-site obligations are unit c03_base_loop's) */
VF_CONTRACT(int, timeout_next_c, struct event_base *base, struct timeval **tv_p)
__CPROVER_requires(base == &BASE && g_lock_depth[1] == 1 && g_s.phase == 0 && *tv_p != NULL)
__CPROVER_assigns(*tv_p, **tv_p, g_s.tn)
__CPROVER_ensures(g_s.tn == 1 && (IN.tn_null ? *tv_p == NULL : (__CPROVER_pointer_equals(*tv_p, __CPROVER_old(*tv_p)) && (*tv_p)->tv_sec == IN.tn_sec && (*tv_p)->tv_usec == IN.tn_usec)))
;
VF_CONTRACT_V(make_later_c, struct event_base *base)
__CPROVER_requires(base == &BASE && g_lock_depth[1] == 1 && g_s.phase == 0 && g_s.iter == 0)
__CPROVER_assigns(g_s.phase, g_s.iter)
__CPROVER_ensures(g_s.phase == 1 && g_s.iter == 1)
;
VF_CONTRACT_V(utc_c, struct event_base *base)
__CPROVER_requires(base == &BASE)
__CPROVER_assigns(base->tv_cache)
__CPROVER_ensures(1)
;
VF_CONTRACT_V(timeout_process_c, struct event_base *base)
__CPROVER_requires(base == &BASE && g_lock_depth[1] == 1 && g_s.phase == 2)
__CPROVER_assigns(g_s.phase, g_s.check_walk_done, base->event_count_active)
/* one iteration only: something is active afterwards unless EVLOOP_NONBLOCK ends the loop anyway */
__CPROVER_ensures(g_s.phase == 3 && g_s.check_walk_done == 1 && NACT(base) >= 0 && NACT(base) <= 1 && ((IN.flags & EVLOOP_NONBLOCK) || NACT(base) == 1))
;
VF_CONTRACT(int, process_active_c, struct event_base *base)
__CPROVER_requires(base == &BASE && g_lock_depth[1] == 1 && g_s.phase == 3)
__CPROVER_assigns(g_s.phase, base->event_count_active)
__CPROVER_ensures(g_s.phase == 4 && NACT(base) == 0 && __CPROVER_return_value == 1)
;

#define KF_PRED ((IN.np >= 1 && IN.pact[0] == 1) || (IN.np >= 2 && IN.pact[1] == 1) || (IN.np >= 3 && IN.pact[2] == 1) || IN.pact[NP] == 1 || \
	(IN.nc >= 1 && IN.cact[0] == 1) || (IN.nc >= 2 && IN.cact[1] == 1) || (IN.nc >= 3 && IN.cact[2] == 1) || IN.cact[NC] == 1)

void harness(void)
{
	int r, k;
	VF_LOAD_IN();
	VF_INSTALL_LOCKS();
	evthread_id_fn_ = vf_thread_id; event_debug_mode_on_ = 0; event_debug_map_lock_ = NULL; event_debug_mode_too_late = 0; event_global_current_base_ = NULL;
	mm_malloc_fn_ = vf_mm_malloc; mm_realloc_fn_ = NULL; mm_free_fn_ = vf_mm_free;
	__CPROVER_assume(IN.np >= 0 && IN.np <= NP && IN.nc >= 0 && IN.nc <= NC);
	if (VF_LIST == 0) __CPROVER_assume(IN.nc == 0); else __CPROVER_assume(IN.np == 0);
	__CPROVER_assume((IN.flags & ~(EVLOOP_ONCE | EVLOOP_NONBLOCK | EVLOOP_NO_EXIT_ON_EMPTY)) == 0 && (IN.flags & EVLOOP_ONCE));
	__CPROVER_assume(IN.nact0 >= 0 && IN.nact0 <= 1 && IN.cnt0 >= 0 && IN.disp_act >= 0 && IN.disp_act <= 1);
	__CPROVER_assume(IN.tn_usec >= 0 && IN.tn_usec < 1000000 && IN.tn_sec >= 0);
#ifdef VF_KF_EXCLUDE
	__CPROVER_assume(!KF_PRED);      /* known finding: a watcher that frees itself in its callback */
#endif
#ifdef VF_KF_ONLY
	__CPROVER_assume(KF_PRED);
#endif
	g_s.phase = 0; g_s.iter = 0; g_s.tn = 0; g_s.disp_calls = 0; g_s.disp_tv = NULL; g_s.prep_walk_done = 0; g_s.check_walk_done = 0;
	BASE.evsel = &VF_EVSEL; BASE.th_base_lock = VF_LOCK_COOKIE(1); BASE.running_loop = 0;
	BASE.event_break = 0; BASE.event_gotterm = 0; BASE.event_continue = 0; BASE.n_deferreds_queued = 0;
	BASE.event_count_active = IN.nact0; BASE.event_count = IN.cnt0; BASE.virtual_event_count = 0;
	BASE.sig.ev_signal_added = 0; BASE.sig.ev_n_signals_added = 0;
	TAILQ_INIT(&BASE.watchers[EVWATCH_PREPARE]); TAILQ_INIT(&BASE.watchers[EVWATCH_CHECK]);
	for (k = 0; k <= NP; k++) {
		g_p[k] = NULL; g_pran[k] = 0; g_pfreed[k] = 0; g_ptv[k] = NULL;
		__CPROVER_assume(IN.pact[k] <= 6 && IN.pact[k] != 4 && IN.ptgt[k] <= NC);     /* action 4 (free a watcher of the other list) needs both lists: not in this shape */
#ifndef VF_ADD
		__CPROVER_assume(IN.pact[k] != 5);
#endif
#ifdef VF_NO_AHEAD   /* experiment switch (not used by any registered run): nobody frees a watcher that is still ahead in the walk */
		__CPROVER_assume(IN.pact[k] != 2 && IN.pact[k] != 6);
#endif
		if (k < IN.np) { union evwatch_cb cb = { .prepare = vf_prep }; g_p[k] = vf_evwatch_new(&BASE, cb, &PCOOK[k], EVWATCH_PREPARE); }
	}
	for (k = 0; k <= NC; k++) {
		g_c[k] = NULL; g_cran[k] = 0; g_cfreed[k] = 0;
		__CPROVER_assume(IN.cact[k] <= 6 && IN.cact[k] != 4 && IN.ctgt[k] <= NP);
#ifndef VF_ADD
		__CPROVER_assume(IN.cact[k] != 5);
#endif
#ifdef VF_NO_AHEAD
		__CPROVER_assume(IN.cact[k] != 2 && IN.cact[k] != 6);
#endif
		if (k < IN.nc) { union evwatch_cb cb = { .check = vf_chk }; g_c[k] = vf_evwatch_new(&BASE, cb, &CCOOK[k], EVWATCH_CHECK); }
	}
	g_lock_ops = 0;
	r = event_base_loop(&BASE, IN.flags);
	__CPROVER_assert(g_lock_depth[1] == 0, "C08: event_base_loop returns with the base lock released");
	__CPROVER_assert(BASE.running_loop == 0, "running_loop reset");
	if (g_s.disp_calls == 1 && !IN.disp_fail) {
		/* C45: every check watcher still registered after the walk ran exactly once, after the wait */
		for (k = 0; k < NC; k++)
			if (g_c[k] != NULL && !g_cfreed[k]) __CPROVER_assert(g_cran[k] == 1, "C45: every registered check watcher ran exactly once after the wait (none skipped)");
		__CPROVER_assert(g_s.check_walk_done == 1, "timeout_process follows the check watchers");
	} else {
		for (k = 0; k <= NC; k++) __CPROVER_assert(g_cran[k] == 0, "C45: check watchers do not run without a successful wait");
	}
	if (g_s.disp_calls == 0) for (k = 0; k <= NP; k++) __CPROVER_assert(g_pran[k] == 0, "C45: prepare watchers run only in an iteration that waits");
#ifdef VF_CANARY
	__CPROVER_assert(!(VF_LIST == 0 ? (g_pran[0] && g_pran[1] && g_pran[2]) : (g_cran[0] && g_cran[1] && g_cran[2])), "canary: must fail (all three watchers of the list can run in one iteration)");
#endif
	(void)r;
}
