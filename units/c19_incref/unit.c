/* C10/C19/C08 — bufferevent_incref_and_lock_ (real bufferevent.c); see contracts/c19_ref_unit.h */
#define C19_REF_WHICH 1
#include "c19_ref_unit.h"
