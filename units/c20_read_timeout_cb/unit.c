/* C20/C19/C08 — bufferevent_generic_read_timeout_cb (real bufferevent.c); see contracts/c20_timeout_cb_unit.h */
#define C20_WRITE 0
#include "c20_timeout_cb_unit.h"
