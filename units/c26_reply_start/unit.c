/* C26 — evhttp_send_reply_start (real http.c): start of a streamed reply; decides the framing that
 * evhttp_send_reply_chunk / evhttp_send_reply_end (units c26_reply_chunk, c26_reply_end) then follow.
 *   status and reason are set through evhttp_response_code_ with the caller's arguments;
 *   chunked framing is chosen  <=>  the caller gave no Content-Length, the request is HTTP/1.1 or
 *   later, and the response has a body (not HEAD/CONNECT, not 1xx/204/304);
 *   exactly then ONE field "Transfer-Encoding: chunked" is appended to the output header list (so
 *   the flag that makes later pieces chunk-framed and the header on the wire always agree);
 *   then the header section is written once (evhttp_make_header) and the connection starts writing;
 *   without a connection only the status is recorded. */
#define VF_STRMAX 18
#define VF_HEAPSTR 20
#include "vf.h"
#include "http.c"
struct in { int u_cl, u_other, have_evcon, code; unsigned type; char major, minor; int chunked0; unsigned ch[VF_NCHOICE]; };
struct in IN;
#include "stubs/log.h"
#include "stubs/c23_libc_ref.h"
#define VF_MM_NOFAIL
#include "stubs/c23_mm.h"
#include "c23_ref.h"

struct vf_rs_ghost { int rc_calls, rc_code; const char *rc_reason; int mh_calls, wb_calls; } g_rs;
VF_CONTRACT_V(response_code_c, struct evhttp_request *req, int code, const char *reason)
__CPROVER_requires(req != NULL)
__CPROVER_assigns(g_rs.rc_calls, g_rs.rc_code, g_rs.rc_reason, req->kind, req->response_code)
__CPROVER_ensures(g_rs.rc_calls == __CPROVER_old(g_rs.rc_calls) + 1 && g_rs.rc_code == code && g_rs.rc_reason == reason)
__CPROVER_ensures(req->kind == EVHTTP_RESPONSE && req->response_code == code)
;
VF_CONTRACT_V(make_header_c, struct evhttp_connection *evcon, struct evhttp_request *req)
__CPROVER_requires(evcon != NULL && req != NULL)
__CPROVER_assigns(g_rs.mh_calls)
__CPROVER_ensures(g_rs.mh_calls == __CPROVER_old(g_rs.mh_calls) + 1)
;
VF_CONTRACT_V(write_buffer_c, struct evhttp_connection *evcon, void (*cb)(struct evhttp_connection *, void *), void *arg)
__CPROVER_requires(evcon != NULL)
__CPROVER_assigns(g_rs.wb_calls)
__CPROVER_ensures(g_rs.wb_calls == __CPROVER_old(g_rs.wb_calls) + 1)
;
static struct evkeyvalq OQ; static struct evkeyval H_CL, H_X;
static char K_CL[15], V_CL[2], K_X[4], V_X[2], REASON[3];
static struct evhttp_connection EVCON; static struct evhttp_request REQ;
static void vf_setstr(char *d, const char *s) { unsigned i; for (i = 0; i <= VF_STRMAX; i++) { d[i] = s[i]; if (!s[i]) break; } }
#define IS_1XX(c) ((c) >= 100 && (c) < 200)
#define NEED_BODY (!(IN.type == EVHTTP_REQ_HEAD || IN.type == EVHTTP_REQ_CONNECT || IS_1XX(IN.code) || IN.code == 204 || IN.code == 304))
#define V11 (IN.major > 1 || (IN.major == 1 && IN.minor >= 1))
#define WANT_CHUNKED (IN.have_evcon && !IN.u_cl && V11 && NEED_BODY)

VF_CONTRACT_V(reply_start_c, struct evhttp_request *req, int code, const char *reason)
__CPROVER_requires(req == &REQ && __CPROVER_rw_ok(req, sizeof(*req)) && req->output_headers == &OQ && req->evcon == (IN.have_evcon ? &EVCON : NULL))
__CPROVER_requires(g_rs.rc_calls == 0 && g_rs.mh_calls == 0 && g_rs.wb_calls == 0 && g_mm_live == 0)
__CPROVER_requires(code == IN.code && reason == REASON)
__CPROVER_assigns(g_rs, req->kind, req->response_code, req->chunked, OQ, H_CL.next, H_X.next, g_mm_live, g_mm_allocs, vf_nchoice_, errno)
__CPROVER_ensures(g_rs.rc_calls == 1 && g_rs.rc_code == IN.code && g_rs.rc_reason == REASON)
__CPROVER_ensures(IMP(!IN.have_evcon, g_rs.mh_calls == 0 && g_rs.wb_calls == 0 && g_mm_live == 0))
__CPROVER_ensures(IMP(IN.have_evcon, g_rs.mh_calls == 1 && g_rs.wb_calls == 1))
__CPROVER_ensures(IMP(IN.have_evcon, req->chunked == (WANT_CHUNKED ? 1 : 0)))
__CPROVER_ensures(g_mm_live == (WANT_CHUNKED ? 3 : 0))
;

void harness(void)
{
	struct evkeyval *h, *last; unsigned n = 0, nte = 0;
	VF_LOAD_IN(); VF_MM_RESET(); g_rs.rc_calls = g_rs.mh_calls = g_rs.wb_calls = 0; g_rs.rc_code = 0; g_rs.rc_reason = NULL;
	__CPROVER_assume(IN.major >= 0 && IN.major <= 9 && IN.minor >= 0 && IN.minor <= 9);
	vf_setstr(K_CL, "content-LENGTH"); vf_setstr(V_CL, "5"); vf_setstr(K_X, "X-a"); vf_setstr(V_X, "b"); vf_setstr(REASON, "OK");
	TAILQ_INIT(&OQ);
	H_X.key = K_X; H_X.value = V_X; H_CL.key = K_CL; H_CL.value = V_CL;
	if (IN.u_other) TAILQ_INSERT_TAIL(&OQ, &H_X, next);
	if (IN.u_cl) TAILQ_INSERT_TAIL(&OQ, &H_CL, next);
	REQ.evcon = IN.have_evcon ? &EVCON : NULL; REQ.output_headers = &OQ; REQ.major = IN.major; REQ.minor = IN.minor; REQ.type = (enum evhttp_cmd_type)IN.type;
	REQ.chunked = (IN.chunked0 != 0); REQ.kind = EVHTTP_REQUEST; REQ.response_code = 0;

	VF_CALL_V(reply_start_c, evhttp_send_reply_start, &REQ, IN.code, REASON);

	last = TAILQ_LAST(&OQ, evkeyvalq);
	TAILQ_FOREACH(h, &OQ, next) { if (n >= 4) break; n++; if (ref_strcaseeq(h->key, "Transfer-Encoding")) nte++; }
	__CPROVER_assert(nte == (WANT_CHUNKED ? 1u : 0u) && n == (unsigned)(IN.u_other != 0) + (unsigned)(IN.u_cl != 0) + nte, "\"Transfer-Encoding\" is appended exactly when chunked framing is chosen; the caller's fields stay");
	__CPROVER_assert(IMP(WANT_CHUNKED, last != NULL && last != &H_CL && last != &H_X && ref_streq(last->key, "Transfer-Encoding") && ref_streq(last->value, "chunked")), "the appended field is \"Transfer-Encoding: chunked\"");
	__CPROVER_assert(IMP(IN.have_evcon, IFF(REQ.chunked, nte == 1)), "the chunked flag and the header on the wire agree");
#ifdef VF_CANARY
	__CPROVER_assert(nte == 0, "canary: must fail (HTTP/1.1 replies without Content-Length are chunked)");
#endif
}
