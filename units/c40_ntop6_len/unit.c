/* C40 — evutil_inet_ntop AF_INET6 (real evutil.c) and the BUFFER LENGTH: with a buffer of len bytes the call
 * returns dst holding exactly the complete NUL-terminated text when text and NUL fit (len > strlen text) and NULL
 * when they do not; bytes at dst[len..] are never written.  THIS unit: every len != strlen(text); the boundary len == strlen(text) is c40_ntop6_exactfit.
 * See contracts/c40_ntop_unit.h for the statement; the text itself for all 2^128 addresses: c40_ntop6. */
#define VF_AF 6
#define VF_EXACTFIT 0
#include "c40_ntop_unit.h"
