/* C30 — evhttp_dispatch_callback (real http.c, with the real evhttp_decode_uri_internal): for every request
 * path of <= VF_N characters over { / a b % 0 4 1 + } (so that %00, %41, %2F-like escapes occur) and every list
 * of <= 2 registered callbacks whose paths are C strings of <= VF_W characters over { / a b A + }:
 *   D1 the callback returned is the FIRST registered one whose path equals the percent-decoded request path
 *      (RFC 3986 2.1; '+' is not decoded) — compared as byte strings of exact length: the decoded path and the
 *      registered path have the same length and the same bytes; NULL when there is none or when the scratch
 *      allocation fails
 *   D2 nothing is leaked, the request and the list are not modified
 *
 * KNOWN-FINDING hook: P_NUL = "the decoded path contains a NUL byte" (an escape %00).  On the unchanged tree D1
 * FAILS for it: the comparison is strcmp on the decoded buffer, so "/a%00b" selects the callback registered for
 * "/a" (agent report).  -DVF_KF_EXCLUDE assumes !P_NUL (must be clean), -DVF_KF_ONLY assumes P_NUL. */
#ifndef VF_N
#define VF_N 5
#endif
#ifndef VF_W
#define VF_W 2
#endif
#define VF_C28_MMCAP (VF_N + 1)
#define VF_REF_CAP VF_N
#include "vf.h"
#include "http.c"
struct in { unsigned char p[VF_N]; unsigned pn; unsigned char w[2][VF_W]; unsigned wn[2]; unsigned ncb; unsigned ch[VF_NCHOICE]; };
struct in IN;
#include "stubs/log.h"
#include "stubs/c28_ctype.h"
#define VF_C28_WANT_STRTOL
#include "stubs/c28_libc_ref.h"
#include "stubs/c28_mm.h"
#include "c29_ref.h"

static const char PA[8] = { '/', 'a', 'b', '%', '0', '4', '1', '+' };
static const char WA[8] = { '/', 'a', 'b', 'A', '+', 'a', '/', 'b' };
static char PATH[VF_N + 1]; static char W0[VF_W + 1], W1[VF_W + 1];
static unsigned char DEC[VF_N + 1];
static struct evhttp_uri URI; static struct evhttp_request REQ; static struct httpcbq Q; static struct evhttp_cb CB0, CB1;
static void cb_stub(struct evhttp_request *r, void *a) { (void)r; (void)a; }

static int ref_equal(const char *w, unsigned wl, unsigned dl)     /* registered path w (length wl) == decoded bytes DEC[0..dl) */
{
	unsigned k;
	if (wl != dl) return 0;
	for (k = 0; k < VF_W; k++) { if (k >= wl) break; if ((unsigned char)w[k] != DEC[k]) return 0; }
	return 1;
}

void harness(void)
{
	struct evhttp_cb *r, *want = NULL; unsigned k, dl, nesc; int has_nul = 0;
	VF_LOAD_IN(); VF_MM_RESET();
	__CPROVER_assume(IN.pn <= VF_N && IN.wn[0] <= VF_W && IN.wn[1] <= VF_W && IN.ncb <= 2);
	for (k = 0; k < VF_N; k++) PATH[k] = k < IN.pn ? PA[IN.p[k] & 7u] : '\0';
	PATH[VF_N] = '\0';
	for (k = 0; k < VF_W; k++) { W0[k] = k < IN.wn[0] ? WA[IN.w[0][k] & 7u] : '\0'; W1[k] = k < IN.wn[1] ? WA[IN.w[1][k] & 7u] : '\0'; }
	W0[VF_W] = '\0'; W1[VF_W] = '\0';
	URI.path = PATH; REQ.uri_elems = &URI;
	TAILQ_INIT(&Q);
	CB0.what = W0; CB0.cb = cb_stub; CB0.cbarg = &CB0; CB1.what = W1; CB1.cb = cb_stub; CB1.cbarg = &CB1;
	if (IN.ncb >= 1) TAILQ_INSERT_TAIL(&Q, &CB0, next);
	if (IN.ncb >= 2) TAILQ_INSERT_TAIL(&Q, &CB1, next);
	/* reference: decode, then exact-length comparison, first match wins */
	dl = ref_decode((const unsigned char *)PATH, IN.pn, DEC, 0, &nesc);
	for (k = 0; k < VF_N; k++) if (k < dl && DEC[k] == 0) has_nul = 1;
#ifdef VF_KF_EXCLUDE
	__CPROVER_assume(!has_nul);
#endif
#ifdef VF_KF_ONLY
	__CPROVER_assume(has_nul);
#endif
	if (IN.ncb >= 1 && ref_equal(W0, IN.wn[0], dl)) want = &CB0;
	else if (IN.ncb >= 2 && ref_equal(W1, IN.wn[1], dl)) want = &CB1;

	r = evhttp_dispatch_callback(&Q, &REQ);

	__CPROVER_assert(g_mm_live == 0, "D2: the scratch buffer is freed");
	__CPROVER_assert(r == want || (r == NULL && g_mm_failed > 0), "D1: the first callback whose path equals the decoded request path (exact length), else NULL");
	__CPROVER_assert(REQ.uri_elems == &URI && URI.path == PATH && CB0.what == W0 && CB1.what == W1, "D2: request and list unchanged");
	for (k = 0; k < VF_N; k++) __CPROVER_assert(PATH[k] == (k < IN.pn ? PA[IN.p[k] & 7u] : '\0'), "D2: the request path is not modified");
#ifdef VF_CANARY
	__CPROVER_assert(!(r == &CB1 && nesc == 1), "canary: must fail (an escaped path can select the second callback)");
#endif
}
