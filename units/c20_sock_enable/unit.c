/* C20 — be_socket_enable (real bufferevent_sock.c): enabling a direction adds its I/O event with the direction's timeout,
 * or without any timeout when the timeout is zero; -1 iff an add failed (the write event is not attempted after a failed read add). */
#include "c17_sock_unit.h"
#define TSET(s, u) ((s) != 0 || (u) != 0)
#define EV0 g_s.ev[0]
#define EV1 g_s.ev[1]
int O_tm0, O_tm1;
VF_CONTRACT(int, sock_enable_c, struct bufferevent *bufev, short event)
__CPROVER_requires(bufev == BEV && EV0.n_add == 0 && EV1.n_add == 0 && EV0.n_add_tv == 0 && EV1.n_add_tv == 0 && EV0.n_add_fail == 0 && EV1.n_add_fail == 0)
__CPROVER_assigns(SOCK_GHOST_FRAME)
__CPROVER_ensures(EV0.n_add == B(event & EV_READ) && EV1.n_add == B((event & EV_WRITE) && EV0.n_add_fail == 0) && EV0.n_del == 0 && EV1.n_del == 0)
__CPROVER_ensures(IFF(__CPROVER_return_value == -1, EV0.n_add_fail + EV1.n_add_fail > 0) && (__CPROVER_return_value == 0 || __CPROVER_return_value == -1))
__CPROVER_ensures(IMP((event & EV_READ) && EV0.n_add_fail == 0, EV0.ins && EV0.n_add_tv == B(TSET(IN.tr_sec, IN.tr_usec)) && IMP(TSET(IN.tr_sec, IN.tr_usec), EV0.timer && EV0.tv_sec == IN.tr_sec && EV0.tv_usec == IN.tr_usec) && IMP(!TSET(IN.tr_sec, IN.tr_usec), EV0.timer == O_tm0)))
__CPROVER_ensures(IMP(EV1.n_add == 1 && EV1.n_add_fail == 0, EV1.ins && EV1.n_add_tv == B(TSET(IN.tw_sec, IN.tw_usec)) && IMP(TSET(IN.tw_sec, IN.tw_usec), EV1.timer && EV1.tv_sec == IN.tw_sec && EV1.tv_usec == IN.tw_usec) && IMP(!TSET(IN.tw_sec, IN.tw_usec), EV1.timer == O_tm1)))
;
void harness(void)
{
	int r;
	VF_LOAD_IN(); vf_sock_build();
	O_tm0 = EV0.timer; O_tm1 = EV1.timer;
	r = VF_CALL(sock_enable_c, be_socket_enable, BEV, IN.a_event);
	(void)r;
	__CPROVER_assert(BEV->enabled == IN.enabled && g_s.nrep == 0, "the op does not touch the enabled set and reports nothing");
#ifdef VF_CANARY
	__CPROVER_assert(EV1.n_add_tv == 0, "canary: must fail (a set write timeout arms the timer)");
#endif
}
