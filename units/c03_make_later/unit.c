/* C03 — event_queue_make_later_events_active (real event.c): the WHOLE later-queue is moved, nothing is lost,
 * every callback lands at the TAIL of the active queue of its own priority (so it runs after what is already
 * active there, in its original relative order), flags change from ACTIVE_LATER to ACTIVE only, the counters
 * event_count / event_count_active do not move, and n_deferreds_queued grows by the number of deferred (CB_SELF)
 * callbacks moved — which is what makes "beyond the quota => next iteration" self-limiting.
 * Bounded: <= 3 callbacks on the later queue (three separate objects), 2 priorities, one callback X possibly
 * already active.  Plain assert-harness, the function has no callee; EVUTIL_ASSERTs are obligations (ndebug false). */
#define VF_NLOCKS 1
#include "vf.h"
#include "event.c"
struct in { int n, xactive, ndq0, cnt0; unsigned char pri[3], cl[3], xpri; short fl[3]; };
struct in IN;
#include "stubs/log.h"
#include "stubs/lock.h"

static struct event_base BASE;
static struct evcallback_list Q[2];
static struct event_callback E0, E1, E2, X;

void harness(void)
{
	struct event_callback *e[3] = { &E0, &E1, &E2 };
	int k, nself = 0, n0 = 0, n1 = 0;
	struct event_callback *last0 = NULL, *last1 = NULL, *first0 = NULL, *first1 = NULL;
	VF_LOAD_IN(); VF_INSTALL_LOCKS();
	evthread_id_fn_ = NULL; event_debug_mode_on_ = 0; event_global_current_base_ = NULL;
	__CPROVER_assume(IN.n >= 0 && IN.n <= 3 && IN.xpri <= 1 && IN.ndq0 >= 0 && IN.ndq0 <= 1000 && IN.cnt0 >= 0 && IN.cnt0 <= 1000);
	BASE.th_base_lock = VF_LOCK_COOKIE(1); g_lock_depth[1] = 1;
	BASE.nactivequeues = 2; BASE.activequeues = Q; TAILQ_INIT(&Q[0]); TAILQ_INIT(&Q[1]); TAILQ_INIT(&BASE.active_later_queue);
	BASE.n_deferreds_queued = IN.ndq0;
	X.evcb_pri = IN.xpri; X.evcb_flags = EVLIST_ACTIVE;
	if (IN.xactive) { TAILQ_INSERT_TAIL(&Q[IN.xpri], &X, evcb_active_next); if (IN.xpri == 0) { first0 = last0 = &X; n0 = 1; } else { first1 = last1 = &X; n1 = 1; } }
	for (k = 0; k < 3; k++) {
		if (k >= IN.n) break;
		__CPROVER_assume(IN.pri[k] <= 1 && IN.cl[k] <= EV_CLOSURE_EVENT_FINALIZE_FREE);
		e[k]->evcb_pri = IN.pri[k]; e[k]->evcb_closure = IN.cl[k];
		e[k]->evcb_flags = (IN.fl[k] & (EVLIST_INIT | EVLIST_INTERNAL | EVLIST_INSERTED | EVLIST_TIMEOUT | EVLIST_FINALIZING)) | EVLIST_ACTIVE_LATER;
		TAILQ_INSERT_TAIL(&BASE.active_later_queue, e[k], evcb_active_next);
		nself += IN.cl[k] == EV_CLOSURE_CB_SELF;
	}
	BASE.event_count = IN.cnt0; BASE.event_count_active = IN.n + (IN.xactive != 0);
	event_queue_make_later_events_active(&BASE);
	__CPROVER_assert(TAILQ_FIRST(&BASE.active_later_queue) == NULL && BASE.active_later_queue.tqh_last == &BASE.active_later_queue.tqh_first, "C03: the whole later queue is moved (it is empty afterwards)");
	__CPROVER_assert(BASE.event_count == IN.cnt0 && BASE.event_count_active == IN.n + (IN.xactive != 0), "C03: nothing is lost or counted twice (event_count, event_count_active unchanged)");
	__CPROVER_assert(BASE.n_deferreds_queued == IN.ndq0 + nself, "C03: every deferred callback moved counts against the deferred quota of the new iteration");
	__CPROVER_assert(g_lock_depth[1] == 1 && g_lock_ops == 0, "C08: the lock is neither taken nor released");
	/* walk both active queues: expected content = X (if active there) followed by the moved callbacks of that priority in order */
	for (k = 0; k < 3; k++) {
		if (k >= IN.n) break;
		__CPROVER_assert(e[k]->evcb_flags == ((IN.fl[k] & (EVLIST_INIT | EVLIST_INTERNAL | EVLIST_INSERTED | EVLIST_TIMEOUT | EVLIST_FINALIZING)) | EVLIST_ACTIVE), "C03: ACTIVE_LATER becomes ACTIVE, no other flag moves");
		if (IN.pri[k] == 0) {
			if (last0 == NULL) __CPROVER_assert(TAILQ_FIRST(&Q[0]) == e[k], "C03: first callback of priority 0 is the queue head");
			else __CPROVER_assert(TAILQ_NEXT(last0, evcb_active_next) == e[k], "C03: moved callbacks are appended in their original order after what was already active (priority 0)");
			last0 = e[k]; n0++;
		} else {
			if (last1 == NULL) __CPROVER_assert(TAILQ_FIRST(&Q[1]) == e[k], "C03: first callback of priority 1 is the queue head");
			else __CPROVER_assert(TAILQ_NEXT(last1, evcb_active_next) == e[k], "C03: moved callbacks are appended in their original order after what was already active (priority 1)");
			last1 = e[k]; n1++;
		}
	}
	if (last0 != NULL) __CPROVER_assert(TAILQ_NEXT(last0, evcb_active_next) == NULL && Q[0].tqh_last == &last0->evcb_active_next.tqe_next, "queue 0 ends with the last callback moved there");
	else __CPROVER_assert(TAILQ_FIRST(&Q[0]) == NULL, "queue 0 stays empty");
	if (last1 != NULL) __CPROVER_assert(TAILQ_NEXT(last1, evcb_active_next) == NULL && Q[1].tqh_last == &last1->evcb_active_next.tqe_next, "queue 1 ends with the last callback moved there");
	else __CPROVER_assert(TAILQ_FIRST(&Q[1]) == NULL, "queue 1 stays empty");
	if (IN.xactive) __CPROVER_assert(TAILQ_FIRST(&Q[IN.xpri]) == &X && X.evcb_flags == EVLIST_ACTIVE, "what was already active stays at the head of its queue");
#ifdef VF_CANARY
	__CPROVER_assert(BASE.n_deferreds_queued == IN.ndq0, "canary: must fail (deferred callbacks are counted)");
#endif
}
