/* candidate defects (C20) in be_pair_transfer's timer handling — expected to FAIL on the current tree:
 *  T1 the destination's READ timer is (re)armed although the destination is not reading (disabled or suspended) — reached through
 *     bufferevent_flush(): a side that never enabled reading then gets BEV_EVENT_TIMEOUT|READING;
 *  T2 timers are re-armed although no byte moved (flush of an empty output against a partner with a high mark);
 *  T3 after a successful transfer the SOURCE's write timer is left as it was (the code re-arms/deletes the DESTINATION's write timer
 *     instead): a sender whose output was completely delivered still gets BEV_EVENT_TIMEOUT|WRITING.
 * Same contract/environment as c17_pair_transfer, plus the property's timer clauses as harness assertions. */
#define C17_PT_NO_HARNESS
#include "../c17_pair_transfer/unit.c"
void harness(void)
{
	int sw, dr;
	VF_LOAD_IN();
	vf_pair_build();
	__CPROVER_assume(IN.linked);
	__CPROVER_assume(IN.len[0] <= VF_LENBOUND && IN.len[1] <= VF_LENBOUND && IN.len[2] <= VF_LENBOUND && IN.len[3] <= VF_LENBOUND);
	__CPROVER_assume(IN.refcnt[0] >= 1 && IN.refcnt[1] >= 1);
	/* call-site condition of the two non-flush callers: be_pair_wants_to_talk(src, dst) */
	__CPROVER_assume(IMP(!IN.ignore_wm, (IN.enabled[A_] & EV_WRITE) && (IN.enabled[D_] & EV_READ) && IN.rs[D_] == 0 && IN.len[SO_] != 0));
	/* timer state consistent with bufferevent_generic_adj_timeouts_ (c20_adj_timeouts): a timer is armed only on an enabled, unsuspended direction */
	__CPROVER_assume(IMP(g_p.ev[2 * D_].timer, (IN.enabled[D_] & EV_READ) && IN.rs[D_] == 0));
	if (IN.locking) g_lock_depth[1] = 2;
	O_ss = IN.len[SO_]; O_ds = IN.len[DI_]; O_high = IN.high_r[D_];
	sw = 2 * A_ + 1; dr = 2 * D_;
	VF_CALL_V(pair_transfer_c, be_pair_transfer, PBEV(A_), PBEV(D_), IN.ignore_wm);
	__CPROVER_assert(IMP(g_p.ev[dr].timer, (IN.enabled[D_] & EV_READ) && IN.rs[D_] == 0), "T1: a read timeout is pending only on a side that is reading (enabled, not suspended)");
	__CPROVER_assert(IMP(g_p.ev[dr].n_add > 0 || g_p.ev[dr + 1].n_add > 0 || g_p.ev[dr + 1].n_del > 0, g_p.moved > 0), "T2: timeouts are restarted only by a transfer that moved data");
	__CPROVER_assert(IMP(g_p.moved > 0 && g_p.len[SO_] == 0, g_p.ev[sw].timer == 0), "T3: a sender whose output was completely delivered has no write timeout pending");
#ifdef VF_CANARY
	__CPROVER_assert(g_p.moved == O_ss, "canary: must fail (the high mark limits the transfer)");
#endif
}
