/* C21 — ev_token_bucket_init_ (real bufferevent_ratelim.c): first initialisation starts the bucket
 * at one tick's rate; re-initialisation only clips levels above the new maximum downwards and keeps
 * last_updated. */
#include "vf.h"
#include "bufferevent_ratelim.c"
struct in { ev_ssize_t rl, wl; size_t rr, rm, wr, wm; ev_uint32_t last, cur; int reinit; };
struct in IN;
#include "stubs/log.h"
#include "c21_contracts.h"
VF_CONTRACT(int, tb_init_c, struct ev_token_bucket *bucket, const struct ev_token_bucket_cfg *cfg, ev_uint32_t current_tick, int reinitialize)
__CPROVER_requires(__CPROVER_rw_ok(bucket, sizeof(*bucket)) && __CPROVER_r_ok(cfg, sizeof(*cfg)))
__CPROVER_requires(C21_CFG_OK(cfg))
__CPROVER_assigns(bucket->read_limit, bucket->write_limit, bucket->last_updated)
__CPROVER_ensures(__CPROVER_return_value == 0)
__CPROVER_ensures(IMP(!reinitialize, bucket->read_limit == (ev_ssize_t)cfg->read_rate && bucket->write_limit == (ev_ssize_t)cfg->write_rate && bucket->last_updated == current_tick))
__CPROVER_ensures(IMP(reinitialize, bucket->last_updated == __CPROVER_old(bucket->last_updated)))
__CPROVER_ensures(IMP(reinitialize, bucket->read_limit == (__CPROVER_old(bucket->read_limit) > (ev_ssize_t)cfg->read_maximum ? (ev_ssize_t)cfg->read_maximum : __CPROVER_old(bucket->read_limit))))
__CPROVER_ensures(IMP(reinitialize, bucket->write_limit == (__CPROVER_old(bucket->write_limit) > (ev_ssize_t)cfg->write_maximum ? (ev_ssize_t)cfg->write_maximum : __CPROVER_old(bucket->write_limit))))
;
static struct ev_token_bucket B; static struct ev_token_bucket_cfg CFG;
void harness(void)
{
	int r;
	VF_LOAD_IN();
	C21_LOAD(B, CFG, IN);
	r = VF_CALL(tb_init_c, ev_token_bucket_init_, &B, &CFG, IN.cur, IN.reinit);
	(void)r;
#ifdef VF_CANARY
	__CPROVER_assert(B.read_limit != 9, "canary: must fail");
#endif
}
