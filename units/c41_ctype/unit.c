/* C41 — character classification and case mapping of the real evutil.c:
 * EVUTIL_ISALPHA_/ISALNUM_/ISSPACE_/ISDIGIT_/ISXDIGIT_/ISPRINT_/ISLOWER_/ISUPPER_ and
 * EVUTIL_TOUPPER_/EVUTIL_TOLOWER_ equal their locale-independent ASCII definitions for ALL 256
 * values of the argument (the argument is a `char`, signed on this target: both the negative
 * values and their unsigned images are covered because IN.c ranges over the whole type).
 * The reference predicates below are written from the ASCII table (ANSI X3.4 / ISO C "C" locale),
 * not from the code's bit tables.  Loop-free: the proof is exhaustive. */
#include "vf.h"
#include "evutil.c"
#include "stubs/log.h"

struct in { int c; };   /* int, not char: the trace extractor reads escaped char literals as 0 */
struct in IN;

/* ---- reference: ASCII ("C" locale) definitions over the byte value u = (unsigned char)c ---- */
static int ref_isupper(unsigned u)  { return u >= 0x41 && u <= 0x5a; }              /* 'A'..'Z' */
static int ref_islower(unsigned u)  { return u >= 0x61 && u <= 0x7a; }              /* 'a'..'z' */
static int ref_isalpha(unsigned u)  { return ref_isupper(u) || ref_islower(u); }
static int ref_isdigit(unsigned u)  { return u >= 0x30 && u <= 0x39; }              /* '0'..'9' */
static int ref_isalnum(unsigned u)  { return ref_isalpha(u) || ref_isdigit(u); }
static int ref_isxdigit(unsigned u) { return ref_isdigit(u) || (u >= 0x41 && u <= 0x46) || (u >= 0x61 && u <= 0x66); }
static int ref_isspace(unsigned u)  { return u == 0x20 || (u >= 0x09 && u <= 0x0d); } /* SP, HT LF VT FF CR */
static int ref_isprint(unsigned u)  { return u >= 0x20 && u <= 0x7e; }              /* SP..'~' */
static unsigned ref_toupper(unsigned u) { return ref_islower(u) ? u - 0x20 : u; }
static unsigned ref_tolower(unsigned u) { return ref_isupper(u) ? u + 0x20 : u; }

void harness(void)
{
	char c; unsigned u; int r;
	VF_LOAD_IN();
	__CPROVER_assume(IN.c >= CHAR_MIN && IN.c <= CHAR_MAX);
	c = (char)IN.c;
	u = (unsigned char)c;

	r = EVUTIL_ISALPHA_(c);  __CPROVER_assert(r == ref_isalpha(u),  "EVUTIL_ISALPHA_(c) is 1 iff c is an ASCII letter, else 0");
	r = EVUTIL_ISALNUM_(c);  __CPROVER_assert(r == ref_isalnum(u),  "EVUTIL_ISALNUM_(c) is 1 iff c is an ASCII letter or digit, else 0");
	r = EVUTIL_ISSPACE_(c);  __CPROVER_assert(r == ref_isspace(u),  "EVUTIL_ISSPACE_(c) is 1 iff c is SP/HT/LF/VT/FF/CR, else 0");
	r = EVUTIL_ISDIGIT_(c);  __CPROVER_assert(r == ref_isdigit(u),  "EVUTIL_ISDIGIT_(c) is 1 iff c is '0'..'9', else 0");
	r = EVUTIL_ISXDIGIT_(c); __CPROVER_assert(r == ref_isxdigit(u), "EVUTIL_ISXDIGIT_(c) is 1 iff c is '0'..'9','a'..'f','A'..'F', else 0");
	r = EVUTIL_ISPRINT_(c);  __CPROVER_assert(r == ref_isprint(u),  "EVUTIL_ISPRINT_(c) is 1 iff c is 0x20..0x7e, else 0");
	r = EVUTIL_ISLOWER_(c);  __CPROVER_assert(r == ref_islower(u),  "EVUTIL_ISLOWER_(c) is 1 iff c is 'a'..'z', else 0");
	r = EVUTIL_ISUPPER_(c);  __CPROVER_assert(r == ref_isupper(u),  "EVUTIL_ISUPPER_(c) is 1 iff c is 'A'..'Z', else 0");
	{
		char up = EVUTIL_TOUPPER_(c), lo = EVUTIL_TOLOWER_(c);
		__CPROVER_assert((unsigned char)up == ref_toupper(u), "EVUTIL_TOUPPER_(c) maps 'a'..'z' to 'A'..'Z' and every other byte to itself");
		__CPROVER_assert((unsigned char)lo == ref_tolower(u), "EVUTIL_TOLOWER_(c) maps 'A'..'Z' to 'a'..'z' and every other byte to itself");
		/* derived laws used by callers (header-name comparison): idempotence and agreement of the two maps */
		__CPROVER_assert(EVUTIL_TOLOWER_(up) == lo && EVUTIL_TOUPPER_(lo) == up, "tolower(toupper(c)) == tolower(c) and toupper(tolower(c)) == toupper(c)");
	}
#ifdef VF_CANARY
	__CPROVER_assert(EVUTIL_TOLOWER_(c) == c, "canary: must fail ('A' is mapped to 'a')");
#endif
}
