/* C04 — select_dispatch (real select.c): the kernel is handed copies of the interest sets;
 * every fd below event_fds+1 whose bit comes back set in the read or write result is reported
 * exactly once per dispatch with exactly those conditions, whatever the random start index;
 * other fds are not reported.  evutil_weakrand_range_ is replaced by its contract (c46). */
#define _GNU_SOURCE 1
#define VF_NLOCKS 1
#include "vf.h"
#include "select.c"
#ifndef NFD
#define NFD 8                  /* fds 0..7 in this unit */
#endif
struct in {
	int event_fds;                      /* highest fd, 0..NFD-1 */
	unsigned long rin, win;             /* interest sets (one word) */
	unsigned long rres, wres;           /* what select(2) leaves in the sets */
	int has_tv; long tv_sec, tv_usec;
	int fail, err, cnt;
	int has_lock, resize_out;
	ev_uint32_t seed;
	unsigned ch[VF_NCHOICE];
};
struct in IN;
#include "stubs/lock.h"
#include "stubs/log.h"
#define VF_MM_NO_REALLOC
#include "stubs/mm.h"

static struct event_base BASE; static struct selectop SOP;
static fd_mask RIN[16], WIN[16], ROUT[16], WOUT[16];      /* backing objects of sizeof(fd_set); logical size 8 bytes */
static struct timeval TV;
int g_selected, g_act_total, g_act_calls[NFD], g_act_ev[NFD], g_act_foreign;
int g_mm_realloc_calls, g_mm_realloc_fail;
#define NFDS (IN.event_fds + 1)
#define MASK_N ((1ul << NFDS) - 1ul)
#define BITOF(word, fd) ((int)(((word) >> (fd)) & 1ul))

void *event_mm_realloc_(void *p, size_t sz)
{
	g_mm_realloc_calls++;
	__CPROVER_assert((p == (void *)ROUT || p == (void *)WOUT) && sz == (size_t)SOP.event_fdsz, "realloc: an output set, to the size of the input sets");
	if (VF_CHOOSE() & 1u) { g_mm_realloc_fail++; errno = ENOMEM; return NULL; }
	return p;            /* resized in place */
}
#ifndef VF_NATIVE
void *memcpy(void *d, const void *s, size_t n)
{
	size_t i;
	__CPROVER_assert(__CPROVER_w_ok(d, n) && __CPROVER_r_ok(s, n) && n <= (size_t)SOP.event_fdsz, "memcpy: within the sets' logical size");
	for (i = 0; i < 16; i++) { if (i >= n) break; ((char *)d)[i] = ((const char *)s)[i]; }
	return d;
}
#endif
int select(int nfds, fd_set *r, fd_set *w, fd_set *e, struct timeval *tv)
{
	__CPROVER_assert(nfds == NFDS && r == (fd_set *)ROUT && w == (fd_set *)WOUT && e == NULL, "select: highest fd + 1, the output sets, no except set");
	__CPROVER_assert(tv == (IN.has_tv ? &TV : NULL), "select: the caller's timeout");
	__CPROVER_assert(IMP(IN.has_lock, g_lock_depth[1] == 0), "select: base lock released while waiting");
	/* C05 side: what the kernel is asked is exactly the live interest sets */
	__CPROVER_assert(ROUT[0] == IN.rin && WOUT[0] == IN.win, "select: the sets handed to the kernel are copies of the interest sets");
	__CPROVER_assert(RIN[0] == IN.rin && WIN[0] == IN.win, "select: the interest sets themselves are untouched");
	g_selected++;
	if (IN.fail) { errno = IN.err; return -1; }
	/* kernel contract: on return the sets hold a subset of the requested fds below nfds */
	ROUT[0] = IN.rres & IN.rin & MASK_N; WOUT[0] = IN.wres & IN.win & MASK_N;
	return IN.cnt;
}
void evmap_io_active_(struct event_base *base, evutil_socket_t fd, short events)
{
	__CPROVER_assert(base == &BASE && g_selected == 1, "evmap_io_active_: after the wait");
	__CPROVER_assert(IMP(IN.has_lock, g_lock_depth[1] == 1), "evmap_io_active_: base lock held again");
	g_act_total++;
	if (fd >= 0 && fd < NFD) { g_act_calls[fd]++; g_act_ev[fd] = events; } else g_act_foreign++;
}

VF_CONTRACT(ev_int32_t, weakrand_range_c, struct evutil_weakrand_state *state, ev_int32_t top)
__CPROVER_requires(__CPROVER_is_fresh(state, sizeof(*state)))
__CPROVER_requires(top >= 1)
__CPROVER_assigns(state->seed)
__CPROVER_ensures(__CPROVER_return_value >= 0 && __CPROVER_return_value < top)
__CPROVER_ensures(state->seed <= 0x7fffffffu)
;

#define RESIZE_FAIL (IN.resize_out && g_mm_realloc_fail != 0)
VF_CONTRACT(int, select_dispatch_c, struct event_base *base, struct timeval *tv)
__CPROVER_requires(base == &BASE && tv == (IN.has_tv ? &TV : NULL))
__CPROVER_requires(g_selected == 0 && g_act_total == 0 && g_act_foreign == 0 && g_mm_realloc_calls == 0 && g_mm_realloc_fail == 0)
__CPROVER_assigns(g_selected, g_act_total, g_act_foreign, __CPROVER_object_whole(g_act_calls), __CPROVER_object_whole(g_act_ev), g_mm_realloc_calls, g_mm_realloc_fail,
	g_lock_depth[1], g_lock_ops, SOP.event_readset_out, SOP.event_writeset_out, SOP.resize_out_sets, BASE.weakrand_seed.seed, errno, vf_nchoice_,
	__CPROVER_object_whole(ROUT), __CPROVER_object_whole(WOUT))
__CPROVER_ensures(__CPROVER_return_value == ((RESIZE_FAIL || (IN.fail && IN.err != EINTR)) ? -1 : 0))
__CPROVER_ensures(g_selected == (RESIZE_FAIL ? 0 : 1))
__CPROVER_ensures(IMP(IN.has_lock, g_lock_depth[1] == 1))
__CPROVER_ensures(IMP(IN.fail || RESIZE_FAIL, g_act_total == 0) && g_act_foreign == 0)
/* the output sets are resized (both) exactly when select_add grew the input sets; a failure keeps the request pending */
__CPROVER_ensures(IMP(!IN.resize_out, g_mm_realloc_calls == 0) && IMP(IN.resize_out && !RESIZE_FAIL, g_mm_realloc_calls == 2 && SOP.resize_out_sets == 0) && IMP(RESIZE_FAIL, SOP.resize_out_sets == 1))
/* the interest sets are untouched */
__CPROVER_ensures(RIN[0] == IN.rin && WIN[0] == IN.win && SOP.event_fds == IN.event_fds)
;

void harness(void)
{
	int r, k;
	VF_LOAD_IN();
	__CPROVER_assume(IN.event_fds >= 0 && IN.event_fds < NFD && IN.err > 0 && IN.cnt >= 0);
	/* bits above event_fds are clear (select_add raises event_fds to every fd it sets) */
	__CPROVER_assume((IN.rin & ~MASK_N) == 0 && (IN.win & ~MASK_N) == 0);
	VF_INSTALL_LOCKS(); VF_MM_RESET();
	for (k = 0; k < 16; k++) { RIN[k] = 0; WIN[k] = 0; ROUT[k] = 0; WOUT[k] = 0; }
	RIN[0] = IN.rin; WIN[0] = IN.win;
	SOP.event_fds = IN.event_fds; SOP.event_fdsz = 8; SOP.resize_out_sets = IN.resize_out != 0;
	SOP.event_readset_in = (fd_set *)RIN; SOP.event_writeset_in = (fd_set *)WIN; SOP.event_readset_out = (fd_set *)ROUT; SOP.event_writeset_out = (fd_set *)WOUT;
	BASE.evbase = &SOP; BASE.weakrand_seed.seed = IN.seed;
	BASE.th_base_lock = IN.has_lock ? VF_LOCK_COOKIE(1) : NULL;
	if (IN.has_lock) g_lock_depth[1] = 1;
	TV.tv_sec = IN.tv_sec; TV.tv_usec = IN.tv_usec;
	for (k = 0; k < NFD; k++) { g_act_calls[k] = 0; g_act_ev[k] = 0; }
	g_selected = 0; g_act_total = 0; g_act_foreign = 0; g_mm_realloc_calls = 0; g_mm_realloc_fail = 0;
	r = VF_CALL(select_dispatch_c, select_dispatch, &BASE, IN.has_tv ? &TV : NULL);
	if (r == 0 && !IN.fail) {
		for (k = 0; k < NFD; k++) {
			int want = (BITOF(IN.rres & IN.rin, k) ? EV_READ : 0) | (BITOF(IN.wres & IN.win, k) ? EV_WRITE : 0);
			if (k > IN.event_fds) want = 0;
			__CPROVER_assert(g_act_calls[k] == (want != 0 ? 1 : 0), "fd reported exactly once iff select left one of its bits set");
			__CPROVER_assert(IMP(g_act_calls[k] == 1, g_act_ev[k] == want), "report names exactly the conditions select reported for the fd");
		}
	}
#ifdef VF_CANARY
	__CPROVER_assert(g_act_total < 3, "canary: must fail (several fds can be ready)");
#endif
}
