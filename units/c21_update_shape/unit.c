/* C21 — ev_token_bucket_update_ (real bufferevent_ratelim.c) equals the code-shaped formula C21_F for
 * every accepted configuration, every 64-bit level (including deficit and over-full) and every
 * 32-bit tick pair; no-op rule exact.  Together with unit c21_update_lemma (C21_F == the property's
 * min(max, old + ticks*rate) over the integers) this is the proof of C21's refill sentence. */
#include "vf.h"
#include "bufferevent_ratelim.c"
struct in { ev_ssize_t rl, wl; size_t rr, rm, wr, wm; ev_uint32_t last, cur; };
struct in IN;
#include "stubs/log.h"
#include "c21_contracts.h"

static struct ev_token_bucket B; static struct ev_token_bucket_cfg CFG;
void harness(void)
{
	int r;
	VF_LOAD_IN();
	C21_LOAD(B, CFG, IN);
	r = VF_CALL(tb_update_shape_c, ev_token_bucket_update_, &B, &CFG, IN.cur);
	(void)r;
#ifdef VF_CANARY
	__CPROVER_assert(B.read_limit != 7, "canary: must fail (7 is a possible level)");
#endif
}
