/* C25/C23/C24 — evhttp_parse_firstline_ (real http.c): start line framing and the size limit.
 *   no complete line buffered: MORE_DATA_EXPECTED — unless a connection limit exists and the
 *     buffered, still unterminated bytes already exceed max_headers_size: DATA_TOO_LONG (C25);
 *   a line longer than max_headers_size: DATA_TOO_LONG, it is not parsed (C25);
 *   otherwise headers_size = the line's length, and the line goes to the request-line parser
 *     (kind REQUEST) or the status-line parser (kind RESPONSE) exactly once with that length;
 *     their refusal => DATA_CORRUPTED, acceptance => ALL_DATA_READ; any other kind is refused;
 *   the line buffer is released exactly once on every path.
 * Loop-free; line length, buffered length and limit fully symbolic.  The two line parsers are
 * replaced by contracts (verified in c23_parse_request_line / c24_parse_response_line). */
#include "vf.h"
#include "http.c"
struct in { int have_line, have_evcon, kind; size_t len, buffered, max, hs0; int parse_ret; unsigned ch[VF_NCHOICE]; };
struct in IN;
#include "stubs/log.h"
#define VF_MM_NOFAIL
#include "stubs/mm.h"

struct evbuffer { int vf_id; };
static struct evbuffer INBUF;
int e_readln_calls; char *e_line;
char *evbuffer_readln(struct evbuffer *buffer, size_t *n_read_out, enum evbuffer_eol_style eol_style)
{
	char *line;
	__CPROVER_assert(buffer == &INBUF && eol_style == EVBUFFER_EOL_CRLF, "evbuffer_readln: the input buffer, EOL_CRLF");
	e_readln_calls++;
	if (!IN.have_line) return NULL;
	line = malloc(8);
#ifndef VF_NATIVE
	__CPROVER_assume(line != NULL);
#endif
	g_mm_live++; line[0] = 'x'; line[1] = 0; e_line = line;
	if (n_read_out) *n_read_out = IN.len;
	return line;
}
size_t evbuffer_get_length(const struct evbuffer *buffer) { __CPROVER_assert(buffer == &INBUF, "evbuffer_get_length: the input buffer"); return IN.buffered; }

int g_req_calls, g_resp_calls; size_t g_req_len; long g_live_at_parse;
VF_CONTRACT(int, parse_request_line_c, struct evhttp_request *req, char *line, size_t len)
__CPROVER_requires(req != NULL && line != NULL)
__CPROVER_assigns(g_req_calls, g_req_len)
__CPROVER_ensures(g_req_calls == __CPROVER_old(g_req_calls) + 1 && g_req_len == len)
__CPROVER_ensures(__CPROVER_return_value == 0 || __CPROVER_return_value == -1)
__CPROVER_ensures(__CPROVER_return_value == IN.parse_ret)
;
VF_CONTRACT(int, parse_response_line_c, struct evhttp_request *req, char *line)
__CPROVER_requires(req != NULL && line != NULL)
__CPROVER_assigns(g_resp_calls)
__CPROVER_ensures(g_resp_calls == __CPROVER_old(g_resp_calls) + 1)
__CPROVER_ensures(__CPROVER_return_value == 0 || __CPROVER_return_value == -1)
__CPROVER_ensures(__CPROVER_return_value == IN.parse_ret)
;

#define LIMITED (IN.have_evcon != 0)
#define LINE_TOO_LONG (LIMITED && IN.len > IN.max)
#define PARSED (IN.have_line && !LINE_TOO_LONG)
VF_CONTRACT(enum message_read_status, parse_firstline_c, struct evhttp_request *req, struct evbuffer *buffer)
__CPROVER_requires(__CPROVER_rw_ok(req, sizeof(*req)) && buffer == &INBUF)
__CPROVER_requires(req->headers_size == IN.hs0 && (int)req->kind == IN.kind)
__CPROVER_requires(IMP(IN.have_evcon, req->evcon != NULL && __CPROVER_r_ok(req->evcon, sizeof(*req->evcon)) && req->evcon->max_headers_size == IN.max))
__CPROVER_requires(IMP(!IN.have_evcon, req->evcon == NULL))
__CPROVER_requires(g_req_calls == 0 && g_resp_calls == 0 && e_readln_calls == 0 && g_mm_live == 0 && g_mm_frees == 0)
__CPROVER_assigns(req->headers_size, g_req_calls, g_req_len, g_resp_calls, e_readln_calls, e_line, g_mm_live, g_mm_frees, g_mm_allocs)
__CPROVER_frees(e_line)
/* 1 one line is requested */
__CPROVER_ensures(e_readln_calls == 1)
/* 2 no complete line yet */
__CPROVER_ensures(IMP(!IN.have_line, __CPROVER_return_value == (LIMITED && IN.buffered > IN.max ? DATA_TOO_LONG : MORE_DATA_EXPECTED) && req->headers_size == IN.hs0 && g_req_calls + g_resp_calls == 0))
/* 3 C25: over-long start line */
__CPROVER_ensures(IMP(IN.have_line && LINE_TOO_LONG, __CPROVER_return_value == DATA_TOO_LONG && g_req_calls + g_resp_calls == 0))
/* 4 accounting */
__CPROVER_ensures(IMP(PARSED, req->headers_size == IN.len))
__CPROVER_ensures(IMP(__CPROVER_return_value == ALL_DATA_READ && LIMITED, req->headers_size <= IN.max))
/* 5 dispatch on the kind */
__CPROVER_ensures(IMP(PARSED && IN.kind == EVHTTP_REQUEST, g_req_calls == 1 && g_resp_calls == 0 && g_req_len == IN.len))
__CPROVER_ensures(IMP(PARSED && IN.kind == EVHTTP_RESPONSE, g_resp_calls == 1 && g_req_calls == 0))
__CPROVER_ensures(IMP(PARSED && IN.kind != EVHTTP_REQUEST && IN.kind != EVHTTP_RESPONSE, g_req_calls + g_resp_calls == 0 && __CPROVER_return_value == DATA_CORRUPTED))
__CPROVER_ensures(IMP(PARSED && (IN.kind == EVHTTP_REQUEST || IN.kind == EVHTTP_RESPONSE), __CPROVER_return_value == (IN.parse_ret == -1 ? DATA_CORRUPTED : ALL_DATA_READ)))
/* 6 the line buffer is released exactly once */
__CPROVER_ensures(g_mm_live == 0 && g_mm_frees == (IN.have_line ? 1 : 0))
;

static struct evhttp_request REQ; static struct evhttp_connection EVCON;
void harness(void)
{
	enum message_read_status st;
	VF_LOAD_IN(); VF_MM_RESET(); e_readln_calls = 0; e_line = NULL; g_req_calls = g_resp_calls = 0; g_req_len = 0;
	__CPROVER_assume(IN.parse_ret == 0 || IN.parse_ret == -1);
	EVCON.max_headers_size = IN.max;
	REQ.evcon = IN.have_evcon ? &EVCON : NULL; REQ.headers_size = IN.hs0; REQ.kind = (enum evhttp_request_kind)IN.kind;
	st = VF_CALL(parse_firstline_c, evhttp_parse_firstline_, &REQ, &INBUF);
#ifdef VF_CANARY
	__CPROVER_assert(st != ALL_DATA_READ, "canary: must fail (an accepted start line)");
#endif
}
