/* C04 — epoll_dispatch (real epoll.c; this build uses epoll_pwait2, so the timeout is a
 * timespec and MAX_EPOLL_TIMEOUT_MSEC / timerfd are not compiled).  The kernel's answer
 * (result count, errno, event records) is drawn from IN; evmap_io_active_ is a recording stub.
 * Every returned record < res is reported exactly once, in order, with its own fd and the
 * translation of its kernel flags; records >= res are never looked at. */
#define _GNU_SOURCE 1   /* evconfig-private.h defines it first thing in the real build; vf.h pulls in libc headers earlier */
#define VF_NLOCKS 1
#include "vf.h"
#include "epoll.c"
#define NEV 4
struct in {
	int epfd; int nevents;                 /* capacity of the result array, 1..4 */
	int has_tv; long tv_sec, tv_usec;
	int res; int err;                      /* what epoll_pwait2 answers */
	unsigned what[NEV]; int rfd[NEV];      /* the records the kernel wrote */
	int has_lock;
	unsigned ch[VF_NCHOICE];
};
struct in IN;
#include "stubs/lock.h"
#include "stubs/log.h"
#define VF_MM_NO_REALLOC
#include "stubs/mm.h"

static struct event_base BASE; static struct epollop EPOP;
static struct epoll_event EVARR[NEV]; static struct epoll_event NEWARR[2 * NEV];
static struct timeval TV;
int g_applied, g_removed, g_waited;                  /* sequencing ghosts */
int g_act_n; int g_act_fd[NEV]; int g_act_ev[NEV];   /* what was reported */
int g_mm_realloc_calls, g_mm_realloc_ok; size_t g_mm_realloc_sz;

void *event_mm_realloc_(void *p, size_t sz)
{
	g_mm_realloc_calls++; g_mm_realloc_sz = sz;
	__CPROVER_assert(p == (void *)EVARR, "realloc: of the result array");
	if (sz > sizeof(NEWARR) || (VF_CHOOSE() & 1u)) { g_mm_realloc_ok = 0; errno = ENOMEM; return NULL; }
	g_mm_realloc_ok = 1;
	return NEWARR;
}
void event_changelist_remove_all_(struct event_changelist *changelist, struct event_base *base)
{
	__CPROVER_assert(changelist == &BASE.changelist && base == &BASE, "remove_all: this base's changelist");
	__CPROVER_assert(g_applied == 1 && g_waited == 0, "remove_all: after the changes were applied, before waiting");
	g_removed++;
}
int epoll_pwait2(int epfd, struct epoll_event *events, int maxevents, const struct timespec *ts, const sigset_t *ss)
{
	__CPROVER_assert(epfd == IN.epfd && events == EVARR && maxevents == IN.nevents && ss == NULL, "epoll_pwait2: this backend's fd, array and capacity");
	__CPROVER_assert(g_applied == 1 && g_removed == 1, "epoll_pwait2: pending changes applied and cleared first");
	__CPROVER_assert(IMP(IN.has_lock, g_lock_depth[1] == 0), "epoll_pwait2: base lock released while waiting");
	__CPROVER_assert(IFF(ts == NULL, !IN.has_tv), "epoll_pwait2: no timeout iff the caller gave none");
	if (ts) __CPROVER_assert(ts->tv_sec == IN.tv_sec && ts->tv_nsec == IN.tv_usec * 1000, "epoll_pwait2: timeout is the caller's timeval");
	g_waited++;
	if (IN.res == -1) errno = IN.err;
	return IN.res;           /* the records are already in EVARR (harness) */
}
void evmap_io_active_(struct event_base *base, evutil_socket_t fd, short events)
{
	__CPROVER_assert(base == &BASE && g_waited == 1, "evmap_io_active_: after the wait");
	__CPROVER_assert(IMP(IN.has_lock, g_lock_depth[1] == 1), "evmap_io_active_: base lock held again");
	if (g_act_n < NEV) { g_act_fd[g_act_n] = fd; g_act_ev[g_act_n] = events; }
	g_act_n++;
}

/* sequencing-only contract for the callee (its functional contract is enforced in c05_epoll_apply_changes) */
VF_CONTRACT(int, apply_changes_seq_c, struct event_base *base)
__CPROVER_requires(base == &BASE && g_applied == 0 && g_removed == 0 && g_waited == 0)
__CPROVER_requires(IMP(IN.has_lock, g_lock_depth[1] == 1))
__CPROVER_assigns(g_applied)
__CPROVER_ensures(g_applied == 1)
;

/* reference translation of the kernel's flags (epoll(7): ERR and HUP are always reported; a hang-up
 * or error makes the fd readable and writable; RDHUP = peer closed) */
#define REF(what) ( ((what) & EPOLLERR) ? (EV_READ|EV_WRITE) \
                  : (((what) & EPOLLHUP) && !((what) & EPOLLRDHUP)) ? (EV_READ|EV_WRITE) \
                  : ((((what) & EPOLLIN) ? EV_READ : 0) | (((what) & EPOLLOUT) ? EV_WRITE : 0) | (((what) & EPOLLRDHUP) ? EV_CLOSED : 0)) )
#define FULL (IN.res == IN.nevents)

VF_CONTRACT(int, epoll_dispatch_c, struct event_base *base, struct timeval *tv)
__CPROVER_requires(base == &BASE && tv == (IN.has_tv ? &TV : NULL))
__CPROVER_requires(g_applied == 0 && g_removed == 0 && g_waited == 0 && g_act_n == 0 && g_mm_realloc_calls == 0)
__CPROVER_assigns(g_applied, g_removed, g_waited, g_act_n, __CPROVER_object_whole(g_act_fd), __CPROVER_object_whole(g_act_ev),
	g_mm_realloc_calls, g_mm_realloc_ok, g_mm_realloc_sz, g_lock_depth[1], g_lock_ops, EPOP.events, EPOP.nevents, errno, vf_nchoice_)
/* 1 one wait per dispatch, with the pending changes flushed first */
__CPROVER_ensures(g_applied == 1 && g_removed == 1 && g_waited == 1)
/* 2 result: -1 only for a failing wait other than EINTR; EINTR is not an error */
__CPROVER_ensures(__CPROVER_return_value == ((IN.res == -1 && IN.err != EINTR) ? -1 : 0))
/* 3 a failed or interrupted wait reports nothing */
__CPROVER_ensures(IMP(IN.res <= 0, g_act_n == 0))
/* 4 never more reports than returned records */
__CPROVER_ensures(g_act_n >= 0 && IMP(IN.res > 0, g_act_n <= IN.res))
/* 5 lock balance (C08) */
__CPROVER_ensures(IMP(IN.has_lock, g_lock_depth[1] == 1))
/* 6 result array doubles exactly when it came back full (and the allocator agrees) */
__CPROVER_ensures(IFF(g_mm_realloc_calls == 1, FULL) && g_mm_realloc_calls <= 1)
__CPROVER_ensures(IMP(g_mm_realloc_calls == 1, g_mm_realloc_sz == 2 * (size_t)IN.nevents * sizeof(struct epoll_event)))
__CPROVER_ensures(IMP(g_mm_realloc_calls == 1 && g_mm_realloc_ok, EPOP.events == NEWARR && EPOP.nevents == 2 * IN.nevents))
__CPROVER_ensures(IMP(g_mm_realloc_calls == 0 || !g_mm_realloc_ok, EPOP.events == EVARR && EPOP.nevents == IN.nevents))
;

void harness(void)
{
	int r, k, j;
	VF_LOAD_IN();
	__CPROVER_assume(IN.nevents >= 1 && IN.nevents <= NEV);
	/* kernel contract of epoll_pwait2: -1 with errno set, or 0..maxevents records */
	__CPROVER_assume(IN.res >= -1 && IN.res <= IN.nevents && IN.err > 0);
	/* event_base_loop hands over a normalised timeval (timeout_next: 0 <= usec < 10^6, sec >= 0) */
	__CPROVER_assume(IN.tv_usec >= 0 && IN.tv_usec < 1000000 && IN.tv_sec >= 0);
	VF_INSTALL_LOCKS(); VF_MM_RESET();
	EPOP.epfd = IN.epfd; EPOP.events = EVARR; EPOP.nevents = IN.nevents; BASE.evbase = &EPOP;
	BASE.th_base_lock = IN.has_lock ? VF_LOCK_COOKIE(1) : NULL;
	if (IN.has_lock) g_lock_depth[1] = 1;
	TV.tv_sec = IN.tv_sec; TV.tv_usec = IN.tv_usec;
	for (k = 0; k < NEV; k++) { EVARR[k].events = IN.what[k]; EVARR[k].data.fd = IN.rfd[k]; g_act_fd[k] = 0; g_act_ev[k] = 0; }
	g_applied = 0; g_removed = 0; g_waited = 0; g_act_n = 0; g_mm_realloc_calls = 0; g_mm_realloc_ok = 0; g_mm_realloc_sz = 0;
	r = VF_CALL(epoll_dispatch_c, epoll_dispatch, &BASE, IN.has_tv ? &TV : NULL);
	(void)r;
	/* C04: the reports are exactly the returned records with a non-empty translation, in order,
	 * each with its own fd and mask (EV_ET added: evmap_io_active_ lets it through only for ET events) */
	j = 0;
	for (k = 0; k < NEV; k++) {
		if (k >= IN.res) break;
		if (REF(IN.what[k]) != 0) {
			__CPROVER_assert(j < g_act_n, "every returned record with a condition is reported");
			if (j < NEV) {
				__CPROVER_assert(g_act_fd[j] == IN.rfd[k], "report names the record's fd");
				__CPROVER_assert(g_act_ev[j] == (REF(IN.what[k]) | EV_ET), "report mask is the translation of the record's kernel flags");
			}
			j++;
		}
	}
	__CPROVER_assert(g_act_n == j, "no other report (records >= res, empty translations)");
#ifdef VF_CANARY
	__CPROVER_assert(g_act_n < 4, "canary: must fail (four records can all be reported)");
#endif
}
