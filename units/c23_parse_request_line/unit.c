/* C23 — evhttp_parse_request_line + evhttp_parse_http_version (real http.c): the request line.
 * RFC 9112 3: request-line = method SP request-target SP HTTP-version; method = token, case-
 * sensitive; a recipient may split on white space and ignore trailing white space.
 * Line of at most VF_N bytes (all contents without NUL), writable, right-aligned in its object.
 *   refused (-1): shorter than "GET / HTTP/1.0" after removing trailing SP; fewer than three
 *     words; an HTTP-version other than "HTTP/" (0|1) "." DIGIT; a target the URI parser refuses;
 *     allocation failure;
 *   accepted (0): type = the request type whose RFC 9110 / WebDAV name is EXACTLY the first word
 *     (case-sensitive, whole word), else what the application's extension callback says, else 0
 *     (= unknown method, answered 501 by the dispatcher); major/minor from the version;
 *     uri = a copy of the text between the first SP and the last SP; uri_elems = what the URI
 *     parser returns for that copy — authority-form parser for CONNECT, the (non-conformant-
 *     tolerant) origin/absolute-form parser otherwise;
 *   "target-no-sp": an accepted target contains no SP (exactly three words).
 * The URI parsers are replaced by contracts (C28's functions); the extension callback is a stub. */
#ifndef VF_N
#define VF_N 16
#endif
#define VF_STRMAX VF_N
#define VF_HEAPSTR (VF_N + 1)
#include "vf.h"
#include "http.c"
struct in { unsigned char l[VF_N]; unsigned len; int uri_fails; unsigned ext_type; int ext_knows; unsigned ch[VF_NCHOICE]; };
struct in IN;
#include "stubs/log.h"
#include "stubs/c23_libc_ref.h"
#include "stubs/c23_mm.h"
#include "c23_ref.h"
#include "c23_version_contract.h"

/* one ghost record (a single assigns target: the dfcc write-set loops are unrolled for at most 16 targets) */
struct vf_uri_ghost { int calls, auth_calls; const char *arg; unsigned flags; } g_uri;
#define g_uri_calls g_uri.calls
#define g_uri_auth_calls g_uri.auth_calls
#define g_uri_arg g_uri.arg
#define g_uri_flags g_uri.flags
VF_CONTRACT(struct evhttp_uri *, uri_parse_c, const char *source_uri, unsigned flags)
__CPROVER_requires(source_uri != NULL)
__CPROVER_assigns(g_uri)
__CPROVER_ensures(g_uri_calls == __CPROVER_old(g_uri_calls) + 1 && g_uri_auth_calls == __CPROVER_old(g_uri_auth_calls) && g_uri_arg == source_uri && g_uri_flags == flags)
__CPROVER_ensures(IN.uri_fails ? __CPROVER_return_value == NULL : __CPROVER_is_fresh(__CPROVER_return_value, sizeof(struct evhttp_uri)))
;
VF_CONTRACT(struct evhttp_uri *, uri_parse_auth_c, char *source_uri, unsigned flags)
__CPROVER_requires(source_uri != NULL)
__CPROVER_assigns(g_uri)
__CPROVER_ensures(g_uri_auth_calls == __CPROVER_old(g_uri_auth_calls) + 1 && g_uri_calls == __CPROVER_old(g_uri_calls) && g_uri_arg == source_uri && g_uri_flags == flags)
__CPROVER_ensures(IN.uri_fails ? __CPROVER_return_value == NULL : __CPROVER_is_fresh(__CPROVER_return_value, sizeof(struct evhttp_uri)))
;
/* the application's extension-method callback: knows the method "XM" as type IN.ext_type */
int e_ext_calls;
static int vf_ext_cmp(struct evhttp_ext_method *m)
{
	e_ext_calls++;
	if (IN.ext_knows && m->method != NULL && m->method[0] == 'X' && m->method[1] == 'M' && m->method[2] == 0) { m->type = IN.ext_type; return 0; }
	return -1;
}

static char LB[VF_N + 1], L0[VF_N + 1];
static struct evhttp_connection EVCON; static struct evhttp_request REQ;
/* ---- reference view of the line, computed by the harness from the original text */
unsigned O_n2, O_sp1, O_spl; int O_three, O_ver_ok; unsigned O_type;

static unsigned ref_method_type(const char *m, unsigned n)
{
	static const struct { const char *name; unsigned type; } T[16] = {
		{"GET", EVHTTP_REQ_GET}, {"POST", EVHTTP_REQ_POST}, {"HEAD", EVHTTP_REQ_HEAD}, {"PUT", EVHTTP_REQ_PUT}, {"DELETE", EVHTTP_REQ_DELETE}, {"OPTIONS", EVHTTP_REQ_OPTIONS},
		{"TRACE", EVHTTP_REQ_TRACE}, {"CONNECT", EVHTTP_REQ_CONNECT}, {"PATCH", EVHTTP_REQ_PATCH}, {"PROPFIND", EVHTTP_REQ_PROPFIND}, {"PROPPATCH", EVHTTP_REQ_PROPPATCH},
		{"MKCOL", EVHTTP_REQ_MKCOL}, {"LOCK", EVHTTP_REQ_LOCK}, {"UNLOCK", EVHTTP_REQ_UNLOCK}, {"COPY", EVHTTP_REQ_COPY}, {"MOVE", EVHTTP_REQ_MOVE} };
	unsigned k, i;
	for (k = 0; k < 16; k++) {
		int eq = 1;
		for (i = 0; i < 10; i++) { char c = T[k].name[i]; if (c == 0) { if (i != n) eq = 0; break; } if (i >= n || m[i] != c) { eq = 0; break; } }
		if (eq) return T[k].type;
	}
	return 0;
}

#define ACCEPTABLE (O_n2 >= 14 && O_three && O_ver_ok && !IN.uri_fails)
VF_CONTRACT(int, parse_request_line_c, struct evhttp_request *req, char *line, size_t len)
__CPROVER_requires(req == &REQ && __CPROVER_rw_ok(req, sizeof(*req)) && line == &LB[VF_N - IN.len] && len == IN.len)
__CPROVER_requires(req->evcon == &EVCON && EVCON.ext_method_cmp == vf_ext_cmp && req->uri == NULL && req->uri_elems == NULL)
__CPROVER_requires(g_uri_calls == 0 && g_uri_auth_calls == 0 && e_ext_calls == 0 && g_mm_live == 0 && vf_nchoice_ == 0)
__CPROVER_assigns(req->type, req->major, req->minor, req->uri, req->uri_elems, __CPROVER_object_whole(LB), g_uri, e_ext_calls, g_mm_live, g_mm_allocs, vf_nchoice_, errno)
__CPROVER_ensures(__CPROVER_return_value == 0 || __CPROVER_return_value == -1)
/* 1 what must be refused */
__CPROVER_ensures(IMP(O_n2 < 14 || !O_three || !O_ver_ok || IN.uri_fails, __CPROVER_return_value == -1))
/* 2 what must be accepted */
__CPROVER_ensures(IMP(ACCEPTABLE && !(IN.ch[0] & 1u), __CPROVER_return_value == 0))
/* 3 method -> type */
__CPROVER_ensures(IMP(__CPROVER_return_value == 0, (unsigned)req->type == O_type))
/* 4 version */
__CPROVER_ensures(IMP(__CPROVER_return_value == 0, req->major == L0[O_spl + 6] - '0' && req->minor == L0[O_spl + 8] - '0'))
/* 5 target: a copy of the text between the first and the last SP, handed to the right URI parser */
__CPROVER_ensures(IMP(__CPROVER_return_value == 0, req->uri != NULL && g_uri_arg == req->uri && req->uri_elems != NULL && g_mm_live == 1))
__CPROVER_ensures(IMP(__CPROVER_return_value == 0, g_uri_auth_calls == (O_type == EVHTTP_REQ_CONNECT ? 1 : 0) && g_uri_calls == (O_type == EVHTTP_REQ_CONNECT ? 0 : 1)))
__CPROVER_ensures(IMP(__CPROVER_return_value == 0, g_uri_flags == (O_type == EVHTTP_REQ_CONNECT ? 0u : (unsigned)EVHTTP_URI_NONCONFORMANT)))
;

void harness(void)
{
	unsigned i, n; int r; char *line;
	VF_LOAD_IN(); VF_MM_RESET(); g_uri_calls = g_uri_auth_calls = 0; g_uri_arg = NULL; g_uri_flags = 0; e_ext_calls = 0;
	n = IN.len;
	__CPROVER_assume(n <= VF_N);
	for (i = 0; i < VF_N; i++) { LB[i] = (char)IN.l[i]; if (i >= VF_N - n) __CPROVER_assume(IN.l[i] != 0); }
	LB[VF_N] = 0; line = &LB[VF_N - n];
	for (i = 0; i <= VF_N; i++) L0[i] = i <= n ? line[i] : 0;
	__CPROVER_assume(IN.ext_type != 0);
	/* ---- reference view */
	O_n2 = n; for (i = 0; i < VF_N; i++) { if (O_n2 > 0 && L0[O_n2 - 1] == ' ') O_n2--; }          /* without trailing SP */
	O_sp1 = O_n2; for (i = 0; i < VF_N; i++) { if (i >= O_n2) break; if (L0[i] == ' ') { O_sp1 = i; break; } }
	O_spl = O_n2; for (i = 0; i < VF_N; i++) { if (i >= O_n2) break; if (L0[i] == ' ') O_spl = i; }    /* last SP */
	O_three = O_sp1 < O_n2 && O_spl > O_sp1 + 1;                                                          /* method SP non-empty-target SP version */
	O_ver_ok = O_three && O_n2 - O_spl == 9 && L0[O_spl + 1] == 'H' && L0[O_spl + 2] == 'T' && L0[O_spl + 3] == 'T' && L0[O_spl + 4] == 'P' && L0[O_spl + 5] == '/' &&
	    (L0[O_spl + 6] == '0' || L0[O_spl + 6] == '1') && L0[O_spl + 7] == '.' && ISDIGIT(L0[O_spl + 8]);
	O_type = ref_method_type(L0, O_sp1);
	if (O_type == 0 && IN.ext_knows && O_sp1 == 2 && L0[0] == 'X' && L0[1] == 'M') O_type = IN.ext_type;
	EVCON.ext_method_cmp = vf_ext_cmp;
	REQ.evcon = &EVCON; REQ.uri = NULL; REQ.uri_elems = NULL; REQ.type = 0; REQ.major = 7; REQ.minor = 7; REQ.remote_host = NULL;

	r = VF_CALL(parse_request_line_c, evhttp_parse_request_line, &REQ, line, (size_t)n);

	if (r == 0) {
		unsigned tl = O_spl - (O_sp1 + 1); int nosp = 1;
		__CPROVER_assert(REQ.uri != NULL, "accepted: target stored");
		for (i = 0; i < VF_N; i++) { if (i >= tl) break; __CPROVER_assert(REQ.uri[i] == L0[O_sp1 + 1 + i], "accepted: uri = the text between the first and the last SP"); if (L0[O_sp1 + 1 + i] == ' ') nosp = 0; }
		__CPROVER_assert(REQ.uri[tl] == 0, "accepted: uri ends there");
		/* known finding C23-target-with-space: with more than three words the middle ones are glued into the target */
#ifndef VF_KF_EXCLUDE
		__CPROVER_assert(nosp, "target-no-sp: an accepted request line has exactly three words (no SP inside the target)");
#endif
	}
#ifdef VF_CANARY
	__CPROVER_assert(r == -1, "canary: must fail (GET / HTTP/1.1 is accepted)");
#endif
}
