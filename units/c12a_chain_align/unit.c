/* C12 — evbuffer_chain_align (real buffer.c): realigning moves exactly the chain's data window to the start of its
 * buffer and changes nothing else.  Loop-free, all sizes.  (ndebug off: its two EVUTIL_ASSERTs are obligations; the
 * contract's requires are what its callers evbuffer_add / evbuffer_expand_singlechain establish.) */
#define VF_NLOCKS 2
#include "vf.h"
#include "stubs/c12a_mem.h"
#include "buffer.c"
struct eb_in;
#include "stubs/lock.h"
#include "c12a_shape.h"
struct in { size_t blen, mis, off; unsigned flags; unsigned ch[VF_NCHOICE]; };
struct in IN;
#include "stubs/log.h"
#include "stubs/c12a_mm.h"
#include "c12a_contracts.h"

VF_CONTRACT_V(chain_align_c, struct evbuffer_chain *chain)
__CPROVER_requires(chain == &CH[0] && m_cp.n == 0 && g_freed_mask == 0)
__CPROVER_requires(!(chain->flags & (EVBUFFER_IMMUTABLE | EVBUFFER_MEM_PINNED_ANY)))
__CPROVER_requires(chain->misalign >= 0 && (size_t)chain->misalign <= chain->buffer_len && chain->off <= chain->buffer_len - (size_t)chain->misalign && chain->buffer == C12A_D0)
__CPROVER_assigns(chain->misalign, m_cp)
__CPROVER_ensures(chain->misalign == 0)
/* the one copy performed is the move of the old window [misalign, misalign+off) to offset 0 */
__CPROVER_ensures(m_cp.n == 1 && m_cp.dst[0] == 0 && m_cp.src[0] == 0 && m_cp.doff[0] == 0 && m_cp.soff[0] == (size_t)__CPROVER_old(chain->misalign) && m_cp.len[0] == chain->off)
;

void harness(void)
{
	VF_LOAD_IN();
	/* one chain over the whole domain of the type invariant: buffer_len <= EVBUFFER_CHAIN_MAX, window inside the buffer */
	__CPROVER_assume(IN.blen <= EVBUFFER_CHAIN_MAX && IN.mis <= IN.blen && IN.off <= IN.blen - IN.mis);
	__CPROVER_assume((IN.flags & ~(unsigned)(EVBUFFER_REFERENCE | EVBUFFER_FILESEGMENT | EVBUFFER_SENDFILE | EVBUFFER_MULTICAST | EVBUFFER_DANGLING)) == 0);
	CH[0].next = NULL; CH[0].buffer_len = IN.blen; CH[0].misalign = (ev_misalign_t)IN.mis; CH[0].off = IN.off; CH[0].flags = IN.flags; CH[0].refcnt = 1; CH[0].buffer = C12A_D0;
	VF_INSTALL_LOCKS(); C12A_RESET();
	C12A_SNAPSHOT();
	VF_CALL_V(chain_align_c, evbuffer_chain_align, &CH[0]);
	__CPROVER_assert(CH[0].off == O_CH[0].off && CH[0].buffer_len == O_CH[0].buffer_len && CH[0].next == O_CH[0].next && CH[0].buffer == O_CH[0].buffer && CH[0].flags == O_CH[0].flags && CH[0].refcnt == O_CH[0].refcnt, "nothing but misalign changes");
	__CPROVER_assert(CHAIN_SPACE_LEN(&CH[0]) == CH[0].buffer_len - CH[0].off, "all free space is behind the data afterwards");
#ifdef VF_CANARY
	__CPROVER_assert(m_cp.soff[0] == 0, "canary: must fail (misaligned chains exist)");
#endif
}
