/* C42 — evtag_unmarshal_int on arbitrary bytes.
 * Harness, reference and the full statement: contracts/c31_tag_unmarshal_harness.h (case 1 of IN.which; one case per
 * unit: CBMC decides one case in a quarter of the time it needs for two merged ones). */
#define VF_WHICH_A 1
#define VF_WHICH_B 1
#include "c31_tag_unmarshal_harness.h"
