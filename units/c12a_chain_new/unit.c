/* C12/C14 — evbuffer_chain_new (real buffer.c) against contracts/c12a_contracts.h:chain_new_c, which the other
 * c12a units rely on (through chain_new_membuf_c).  Loop-free; every size_t size; the allocator may fail. */
#define VF_NLOCKS 2
#include "vf.h"
#include "stubs/c12a_mem.h"
#include "buffer.c"
struct eb_in;
#include "stubs/lock.h"
#include "c12a_shape.h"
struct in { size_t size; unsigned prev; unsigned ch[VF_NCHOICE]; };
struct in IN;
#include "stubs/log.h"
#include "stubs/c12a_mm.h"
#include "c12a_contracts.h"
static struct evbuffer_chain PREV;     /* a chain allocated earlier in the same call (g_nnew == 1) */

void harness(void)
{
	struct evbuffer_chain *r;
	VF_LOAD_IN();
	C12A_RESET();
	if (IN.prev & 1) { g_new[0] = &PREV; g_nnew = 1; }
	r = VF_CALL(chain_new_c, evbuffer_chain_new, IN.size);
	if (r) {
		__CPROVER_assert(__CPROVER_w_ok(r, EVBUFFER_CHAIN_SIZE + IN.size), "the allocation covers the header and buffer_len data bytes");
		__CPROVER_assert(r != &PREV && r == g_new[g_nnew - 1], "the new chain is distinct from earlier ones and registered last");
		__CPROVER_assert(!CHAIN_PINNED(r) && CHAIN_SPACE_LEN(r) == IN.size && CHAIN_SPACE_PTR(r) == r->buffer, "whole capacity is free space");
	}
#ifdef VF_CANARY
	__CPROVER_assert(r == NULL, "canary: must fail (allocation can succeed)");
#endif
}
