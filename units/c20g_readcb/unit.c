/* c20g_readcb entered through be_filter_readcb — see units/c20g_read_nolock/unit.c (-DC20G_VIA_READCB) */
#include "../c20g_read_nolock/unit.c"
