/* C42 — evtag_marshal_timeval / evtag_unmarshal_timeval over the FULL range of struct timeval.
 * Property text: "Every value marshalled with evtag_marshal* (... timevals ...) is returned
 * unchanged by the corresponding unmarshal call".
 *
 * EXPECTED TO FAIL ON THE UNCHANGED TREE (candidate defect / format limitation): tv_sec and
 * tv_usec are passed to encode_int_internal(ev_uint8_t *, ev_uint32_t): a 64-bit time_t is
 * silently truncated to 32 bits, so tv_sec >= 2^32 (after year 2106) or any negative field does
 * not round-trip (tv_sec = -1 comes back as 4294967295).  -DVF_KF_EXCLUDE restricts the run to
 * fields in [0, 2^32) (that part is also proved in c42_marshal_roundtrip), -DVF_KF_ONLY to the rest. */
#define VF_EB_CAP 24
#include "vf.h"
#include "event_tagging.c"
struct in { ev_uint32_t tag; long sec, usec; unsigned ch[VF_NCHOICE]; };
struct in IN;
#include "stubs/log.h"
#include "stubs/evbuffer_model.h"
#define IN32(x) ((x) >= 0 && (x) <= 0xffffffffL)

void harness(void)
{
	struct timeval tv, out; int r; size_t produced;
	VF_LOAD_IN(); VF_EB_RESET();
#ifdef VF_KF_EXCLUDE
	__CPROVER_assume(IN32(IN.sec) && IN32(IN.usec));
#endif
#ifdef VF_KF_ONLY
	__CPROVER_assume(!(IN32(IN.sec) && IN32(IN.usec)));
#endif
	tv.tv_sec = IN.sec; tv.tv_usec = IN.usec; out.tv_sec = -7; out.tv_usec = -7;
	evtag_marshal_timeval(&EVB[0], IN.tag, &tv);
	produced = g_eb[0].len;
	r = evtag_unmarshal_timeval(&EVB[0], IN.tag, &out);
	__CPROVER_assert(r == 0 && g_eb[0].drained == produced && g_eb[0].len == 0, "unmarshal_timeval accepts and consumes exactly what marshal_timeval produced");
	__CPROVER_assert(out.tv_sec == tv.tv_sec && out.tv_usec == tv.tv_usec, "unmarshal_timeval(marshal_timeval(tv)) == tv for every timeval");
#ifdef VF_CANARY
	__CPROVER_assert(produced != 16, "canary: must fail (5-byte tag, 1-byte length, two 5-byte integers)");
#endif
}
