/* C02 — event_queue_remove_active_later (real event.c): clears ACTIVE_LATER, counters, unlink
 * from active_later_queue.  Loop-free. */
#define VF_NLOCKS 1
#include "vf.h"
#include "event.c"
#include "stubs/lock.h"
#include "stubs/log.h"
#include "c02_event_shape.h"
struct in { struct c02_base_in b; struct c02_ev_in e; int qshape; };
struct in IN;
#include "c02_event_contracts.h"

void harness(void)
{
	struct event_callback *evcb = &EV.ev_evcallback;
	VF_LOAD_IN(); VF_INSTALL_LOCKS();
	c02_build_base(&IN.b);
	c02_build_ev(&EV, &IN.e, 0);
	__CPROVER_assume(EV.ev_flags & EVLIST_ACTIVE_LATER);
	__CPROVER_assume(BASE.event_count >= C02_NONINT(EV.ev_flags) && BASE.event_count_active >= 1);
	C02_LINK_IN(&BASE.active_later_queue, evcb, evcb_active_next, &NB[0].ev_evcallback, &NB[1].ev_evcallback, IN.qshape);
	VF_CALL_V(q_remove_active_later_c, event_queue_remove_active_later, &BASE, evcb);
	if ((IN.qshape & 3) == 0) __CPROVER_assert(BASE.active_later_queue.tqh_first == NULL && BASE.active_later_queue.tqh_last == &BASE.active_later_queue.tqh_first, "sole element removed: queue is the empty TAILQ");
	if ((IN.qshape & 3) == 3) __CPROVER_assert(NB[0].ev_evcallback.evcb_active_next.tqe_next == &NB[1].ev_evcallback && NB[1].ev_evcallback.evcb_active_next.tqe_prev == &NB[0].ev_evcallback.evcb_active_next.tqe_next, "middle element removed: neighbours linked to each other");
#ifdef VF_CANARY
	__CPROVER_assert(BASE.event_count_active == IN.b.event_count_active, "canary: must fail (the later-activation was counted as active)");
#endif
}
