#include "c05_epoll_nocl.h"

void harness(void)
{
	int r;
	VF_LOAD_IN();
	__CPROVER_assume(IN.kstate >= 0 && IN.kstate <= 2 && (IN.old & ~COND) == 0);
	__CPROVER_assume(IMP(IN.kstate == 2, IN.old == 0));
	EPOP.epfd = IN.epfd; BASE.evbase = &EPOP;
	if (IN.kstate == 0) { k_registered = (IN.old != 0); k_mask = XL(IN.old); }
	else if (IN.kstate == 1) { k_registered = 0; k_mask = 0; }
	else { k_registered = 1; k_mask = IN.stale_mask; }
	k_calls = 0; k_first_failed = 0; k_first_op = 0; k_other_calls = 0;
	__CPROVER_assume((IN.events & COND & ~IN.old) == 0);
	r = VF_CALL(nocl_del_c, epoll_nochangelist_del, &BASE, IN.fd, IN.old, IN.events, NULL);
	(void)r;
#ifdef VF_CANARY
	__CPROVER_assert(k_registered == 1, "canary: must fail (a delete can remove the registration)");
#endif
}
