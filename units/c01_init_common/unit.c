/* C01/C08 — event_base_init_common_timeout (real event.c, public; event_assign, event_priority_set,
 * event_mm_realloc_/event_mm_calloc_ run as real code over allocator hooks that may fail):
 * an already registered duration returns the existing magic timeval and allocates nothing; a new one
 * gets index n = n_common_timeouts: tv_sec kept, tv_usec = usec | 0x5 << 28 | n << 20 (so that
 * is_common_timeout recognises it), its queue is empty, owned by the base, with an INTERNAL
 * priority-0 timer whose callback is common_timeout_callback; durations with usec > 10^6 (or
 * carrying magic bits) are normalised first; allocation failure => NULL and nothing registered;
 * th_base_lock is released on every path.
 * Bounded: <= 2 queues already registered (the search loop is unwound); the MAX_COMMON_TIMEOUTS (256)
 * refusal is NOT exercised by the registered configuration (the C01_ICT_FULL variant below needs the
 * full 256-slot table and a 257-fold unwinding; it is kept for a future thorough run). */
#define VF_NLOCKS 1
#include "vf.h"
#include "event.c"
#include "stubs/lock.h"
#include "stubs/log.h"
#define C02_NO_AQ
#include "c02_event_shape.h"
struct in { struct c02_base_in b; long d_sec, d_usec; long wq, wr;   /* witnesses: quotient/remainder of the normalisation */ long q_sec[2], q_usec[2]; int allocated_more; unsigned ch[VF_NCHOICE]; };
struct in IN;
static struct common_timeout_list CT_0, CT_1, NEWCTL;
static struct common_timeout_list *NEWQ[32];
static struct timeval DUR;
int g_reallocs, g_mallocs; size_t g_realloc_sz;
static void *my_realloc(void *p, size_t sz)
{
	unsigned i;
	g_reallocs++; g_realloc_sz = sz;
	__CPROVER_assert(p == (void *)CTQ && sz <= sizeof NEWQ, "realloc: of the queue array, within this harness's bound");
	if (VF_CHOOSE() & 1) return NULL;
	for (i = 0; i < 2; i++) NEWQ[i] = CTQ[i];
	return NEWQ;
}
static void *my_malloc(size_t sz)
{
	g_mallocs++;
	__CPROVER_assert(sz == sizeof(struct common_timeout_list), "calloc: one queue record");
	if (VF_CHOOSE() & 1) return NULL;
	return &NEWCTL;
}
#define USEC_MASK 0xfffffL
#define IN_COMMON (((IN.d_usec & 0xf0000000L) == 0x50000000L) && (int)((IN.d_usec & 0x0ff00000L) >> 20) < IN.b.n_common)
#define NORMALISE (IN.d_usec > 1000000)
#define N_USEC0 (NORMALISE ? (IN_COMMON ? (IN.d_usec & USEC_MASK) : IN.d_usec) : IN.d_usec)
/* N_USEC0 == wq * 10^6 + wr, 0 <= wr < 10^6 (assumed in the harness: defines wq, wr without a second division circuit) */
#define N_SEC (NORMALISE ? IN.d_sec + IN.wq : IN.d_sec)
#define N_USEC (NORMALISE ? IN.wr : IN.d_usec)
#define MATCH(i) ((i) < IN.b.n_common && N_SEC == IN.q_sec[i] && N_USEC == (IN.q_usec[i] & USEC_MASK))
#define FOUND (MATCH(0) || MATCH(1))
#ifdef C01_ICT_FULL

#else

#endif
static const struct timeval *RES;

VF_CONTRACT(const struct timeval *, ict_c, struct event_base *base, const struct timeval *duration)
__CPROVER_requires(base == &BASE && duration == &DUR)
__CPROVER_requires(g_lock_depth[1] == 0 && g_lock_ops == 0 && g_reallocs == 0 && g_mallocs == 0)
__CPROVER_assigns(BASE.n_common_timeouts, BASE.n_common_timeouts_allocated, BASE.common_timeout_queues, CTQ[0], CTQ[1], CTQ[2], NEWQ[0], NEWQ[1], NEWQ[2],
	__CPROVER_object_whole(&NEWCTL), g_reallocs, g_mallocs, g_realloc_sz, vf_nchoice_, errno, g_lock_depth[1], g_lock_ops)
/* C08 */
__CPROVER_ensures(g_lock_depth[1] == 0 && g_lock_ops == ((IN.b.has_lock & 1) ? 2 : 0))
/* an already registered duration: the existing magic timeval, nothing allocated, nothing registered */
__CPROVER_ensures(IMP(FOUND, __CPROVER_return_value == (MATCH(0) ? &CT_0.duration : &CT_1.duration) && g_reallocs == 0 && g_mallocs == 0 && BASE.n_common_timeouts == IN.b.n_common))
/* the table is full: refused */
__CPROVER_ensures(IMP(!FOUND && IN.b.n_common == 256, __CPROVER_return_value == NULL && BASE.n_common_timeouts == 256 && g_mallocs == 0 && g_reallocs == 0))
/* NULL <=> nothing registered */
__CPROVER_ensures(IMP(__CPROVER_return_value == NULL, BASE.n_common_timeouts == IN.b.n_common))
/* a new duration, allocations succeeded: index n, magic encoding */
__CPROVER_ensures(IMP(!FOUND && __CPROVER_return_value != NULL, __CPROVER_return_value == &NEWCTL.duration && BASE.n_common_timeouts == IN.b.n_common + 1 &&
	BASE.common_timeout_queues[IN.b.n_common] == &NEWCTL &&
	NEWCTL.duration.tv_sec == N_SEC && NEWCTL.duration.tv_usec == (N_USEC | 0x50000000L | ((long)IN.b.n_common << 20)) &&
	NEWCTL.base == &BASE && NEWCTL.events.tqh_first == NULL && NEWCTL.events.tqh_last == &NEWCTL.events.tqh_first))
__CPROVER_ensures(IMP(!FOUND && __CPROVER_return_value != NULL, NEWCTL.timeout_event.ev_flags == (EVLIST_INIT|EVLIST_INTERNAL) && NEWCTL.timeout_event.ev_pri == 0 &&
	NEWCTL.timeout_event.ev_base == &BASE && NEWCTL.timeout_event.ev_callback == common_timeout_callback && NEWCTL.timeout_event.ev_arg == (void *)&NEWCTL &&
	NEWCTL.timeout_event.ev_events == 0 && NEWCTL.timeout_event.ev_fd == -1))
/* the array grows only when it is full */
__CPROVER_ensures(g_reallocs == ((!FOUND && IN.b.n_common < 256 && !(IN.allocated_more & 1)) ? 1 : 0))
;
void harness(void)
{
	const struct timeval *r; unsigned i;
	VF_LOAD_IN(); VF_INSTALL_LOCKS();
	c02_build_base(&IN.b);
	mm_malloc_fn_ = my_malloc; mm_realloc_fn_ = my_realloc; mm_free_fn_ = NULL;
	g_reallocs = 0; g_mallocs = 0;
#ifdef C01_ICT_FULL
	__CPROVER_assume(IN.b.n_common == 256);
	for (i = 0; i < 256; i++) CTQ[i] = &CT_0;                 /* 256 registered durations, all different from the requested one */
	BASE.n_common_timeouts_allocated = 256;
#else
	__CPROVER_assume(IN.b.n_common <= 2);
	CTQ[0] = &CT_0; CTQ[1] = &CT_1;
	BASE.n_common_timeouts_allocated = (IN.allocated_more & 1) ? 32 : IN.b.n_common;
	(void)i;
#endif
	/* registered durations: as this function leaves them (valid microseconds + magic + own index) */
	__CPROVER_assume(IN.q_sec[0] >= 0 && IN.q_sec[0] <= C02_SEC_MAX && IN.q_sec[1] >= 0 && IN.q_sec[1] <= C02_SEC_MAX);
	__CPROVER_assume((IN.q_usec[0] & ~USEC_MASK) == 0x50000000L && (IN.q_usec[0] & USEC_MASK) <= 1000000);
	__CPROVER_assume((IN.q_usec[1] & ~USEC_MASK) == (0x50000000L | (1L << 20)) && (IN.q_usec[1] & USEC_MASK) <= 1000000);
	CT_0.duration.tv_sec = IN.q_sec[0]; CT_0.duration.tv_usec = IN.q_usec[0]; CT_1.duration.tv_sec = IN.q_sec[1]; CT_1.duration.tv_usec = IN.q_usec[1];
#ifdef C01_ICT_FULL
	__CPROVER_assume(!(N_SEC == IN.q_sec[0] && N_USEC == (IN.q_usec[0] & USEC_MASK)));
#endif
	/* the requested duration: any non-negative timeval whose usec fits 32 bits (plain, un-normalised, or a magic value) */
	__CPROVER_assume(IN.d_sec >= 0 && IN.d_sec <= C02_SEC_MAX && IN.d_usec >= 0 && IN.d_usec <= 0xffffffffL);
	__CPROVER_assume(IN.wq >= 0 && IN.wq <= 4294 && IN.wr >= 0 && IN.wr < 1000000 && IN.wq * 1000000 + IN.wr == N_USEC0);
#ifdef C01_ICT_USEC_MAX
	__CPROVER_assume(IN.d_usec <= C01_ICT_USEC_MAX);          /* quick tier: keeps the 64-bit division circuits small */
#endif
	DUR.tv_sec = IN.d_sec; DUR.tv_usec = IN.d_usec;
	r = VF_CALL(ict_c, event_base_init_common_timeout, &BASE, &DUR);
	if (r != NULL) {
		__CPROVER_assert(is_common_timeout(r, &BASE), "the result is recognised as a common timeout of this base");
		__CPROVER_assert((r->tv_usec & USEC_MASK) <= 1000000, "microsecond part of the registered duration is normalised");
	}
#ifdef VF_CANARY
	__CPROVER_assert(r == NULL || FOUND, "canary: must fail (new durations are registered)");
#endif
}
