/* C05 — poll_del (real poll.c): the fd's pollfd entry keeps exactly the interest bits of
 * old ∖ events; when nothing is left the entry is removed by moving the LAST entry into its
 * place, the moved fd's pollidx is redirected, and every other entry is unchanged (witness). */
#define _GNU_SOURCE 1
#include "vf.h"
#include "poll.c"
#include "c05_poll_shape.h"
struct in { int fd; short old, events; struct c05_poll_in p; int lastfd; short lastevents, lastrevents; unsigned ch[VF_NCHOICE]; };
struct in IN;
#include "stubs/log.h"
#include "stubs/mm.h"
#define C05_POLL_BODY
#include "c05_poll_shape.h"

static struct pollidx LASTIDX;      /* fdinfo of the fd that owns the last entry */
int g_fdinfo_calls;
void *evmap_io_get_fdinfo_(struct event_io_map *map, evutil_socket_t fd)
{
	g_fdinfo_calls++;
	__CPROVER_assert(map == &BASE.io, "evmap_io_get_fdinfo_: this base's fd map");
	__CPROVER_assert(fd == IN.lastfd, "evmap_io_get_fdinfo_: asked for the fd of the moved (last) entry");
	return &LASTIDX;
}

#define EVC (IN.events & C05_COND)
#define E_IDX (IN.p.idxplus1 - 1)
#define LEFT (IN.old & ~EVC)
#define LAST (IN.p.nfds - 1)
#define REMOVED (EVC != 0 && C05_HAS && LEFT == 0)

VF_CONTRACT(int, poll_del_c, struct event_base *base, int fd, short old, short events, void *idx_)
__CPROVER_requires(base == &BASE && fd == IN.fd && old == IN.old && events == IN.events && idx_ == (void *)&IDX)
__CPROVER_requires((events & EV_SIGNAL) == 0 && g_fdinfo_calls == 0)
__CPROVER_assigns(POP.nfds, IDX.idxplus1, LASTIDX.idxplus1, __CPROVER_object_whole(SET), g_fdinfo_calls)
/* 1 nothing to delete */
__CPROVER_ensures(IMP(EVC == 0, __CPROVER_return_value == 0 && POP.nfds == IN.p.nfds && IDX.idxplus1 == IN.p.idxplus1))
/* 2 an fd without an entry: refused, nothing changes */
__CPROVER_ensures(IMP(EVC != 0 && !C05_HAS, __CPROVER_return_value == -1 && POP.nfds == IN.p.nfds && IDX.idxplus1 == 0))
__CPROVER_ensures(IMP(EVC != 0 && C05_HAS, __CPROVER_return_value == 0))
/* 4 C05: conditions remain: the entry stays where it is with exactly the bits of old ∖ events */
__CPROVER_ensures(IMP(EVC != 0 && C05_HAS && LEFT != 0, POP.nfds == IN.p.nfds && IDX.idxplus1 == IN.p.idxplus1
	&& SET[E_IDX].fd == fd && SET[E_IDX].events == XLP(LEFT) && g_fdinfo_calls == 0))
/* 5 nothing remains: the entry is gone, the array is one shorter and stays dense */
__CPROVER_ensures(IMP(REMOVED, POP.nfds == IN.p.nfds - 1 && IDX.idxplus1 == 0))
/* 6 ... the last entry now sits in the freed slot and its fd's pollidx says so */
__CPROVER_ensures(IMP(REMOVED && E_IDX != LAST, SET[E_IDX].fd == IN.lastfd && SET[E_IDX].events == IN.lastevents && SET[E_IDX].revents == IN.lastrevents
	&& LASTIDX.idxplus1 == E_IDX + 1 && g_fdinfo_calls == 1))
__CPROVER_ensures(IMP(REMOVED && E_IDX == LAST, g_fdinfo_calls == 0 && LASTIDX.idxplus1 == IN.p.nfds))
/* 8 every other entry unchanged (witness w) */
__CPROVER_ensures(IMP(IN.p.w < POP.nfds && IN.p.w != E_IDX, SET[IN.p.w].fd == IN.p.wfd && SET[IN.p.w].events == IN.p.wevents && SET[IN.p.w].revents == IN.p.wrevents))
/* 9 the array itself is never reallocated or resized here */
__CPROVER_ensures(POP.event_set == C05_OLDSET && POP.event_count == IN.p.event_count)
;

void harness(void)
{
	int r;
	VF_LOAD_IN();
	__CPROVER_assume((IN.events & EV_SIGNAL) == 0);
	/* evmap_io_del_ deletes only what it counted (c05_io_del postcondition 7) */
	__CPROVER_assume((IN.events & C05_COND & ~IN.old) == 0);
	c05_build_poll();
	/* the last entry belongs to some other fd whose pollidx names it (same invariant, for that fd) */
	if (IN.p.nfds > 0 && !(C05_HAS && E_IDX == LAST)) {
		SET[LAST].fd = IN.lastfd; SET[LAST].events = IN.lastevents; SET[LAST].revents = IN.lastrevents;
		__CPROVER_assume(IN.lastfd != IN.fd);
		if (IN.p.w == LAST) __CPROVER_assume(IN.p.wfd == IN.lastfd && IN.p.wevents == IN.lastevents && IN.p.wrevents == IN.lastrevents);
	}
	LASTIDX.idxplus1 = IN.p.nfds;
	g_fdinfo_calls = 0;
	r = VF_CALL(poll_del_c, poll_del, &BASE, IN.fd, IN.old, IN.events, (void *)&IDX);
	(void)r;
#ifdef VF_CANARY
	__CPROVER_assert(g_fdinfo_calls == 0, "canary: must fail (removing a middle entry moves the last one)");
#endif
}
