/* C04 — poll_dispatch (real poll.c): every pollfd entry with a non-empty result is reported
 * exactly once per dispatch, with its own fd and the translation of its revents, whatever the
 * random starting index is; entries without result are not reported.  poll(2)'s answer is
 * drawn from IN; evutil_weakrand_range_ is replaced by its contract (units/c46_weakrand_range),
 * whose `requires top >= 1` is thereby checked at this call site. */
#define _GNU_SOURCE 1
#define VF_NLOCKS 1
#include "vf.h"
#include "poll.c"
#define NP 4
struct in {
	int nfds, event_count;              /* 0 <= nfds <= event_count <= 4 */
	int fds[NP]; short events[NP]; short rev[NP];     /* entries and what poll(2) writes into revents */
	int has_tv; long tv_sec, tv_usec;
	int res_fail; int err;              /* poll fails with errno err */
	int has_lock, realloc_copy;
	int grow;                           /* with a lock: entries another thread adds (poll_add) while the dispatching thread waits with the lock released */
	ev_uint32_t seed;
	unsigned ch[VF_NCHOICE];
};
struct in IN;
#include "stubs/lock.h"
#include "stubs/log.h"
#define VF_MM_NO_REALLOC
#include "stubs/mm.h"

static struct event_base BASE; static struct pollop POP;
static struct pollfd PSET[NP], COPY[NP], OLDCOPY[NP];
static struct timeval TV;
int g_polled, g_act_total, g_act_calls[NP], g_act_ev[NP], g_act_foreign;
int g_mm_realloc_calls, g_mm_realloc_ok;
#define USE_COPY (IN.has_lock != 0)
#define NREADY ((IN.nfds > 0 && IN.rev[0] != 0) + (IN.nfds > 1 && IN.rev[1] != 0) + (IN.nfds > 2 && IN.rev[2] != 0) + (IN.nfds > 3 && IN.rev[3] != 0))

/* reference copy of evutil_tv_to_msec_ (evutil_time.c, outside this TU) */
long evutil_tv_to_msec_(const struct timeval *tv)
{
	if (tv->tv_usec > 1000000 || tv->tv_sec > (LONG_MAX - 999) / 1000) return -1;
	return (tv->tv_sec * 1000) + ((tv->tv_usec + 999) / 1000);
}
void *event_mm_realloc_(void *p, size_t sz)
{
	g_mm_realloc_calls++;
	__CPROVER_assert(p == (void *)OLDCOPY && sz == (size_t)IN.event_count * sizeof(struct pollfd), "realloc: the dispatch copy, to the capacity of the live array");
	if (VF_CHOOSE() & 1u) { g_mm_realloc_ok = 0; errno = ENOMEM; return NULL; }
	g_mm_realloc_ok = 1;
	return COPY;
}
#ifndef VF_NATIVE
/* memcpy with a symbolic length (guide pitfall 2): bounds-checked, bounded byte loop (<= 4 pollfds) */
void *memcpy(void *d, const void *s, size_t n)
{
	size_t i;
	__CPROVER_assert(__CPROVER_w_ok(d, n) && __CPROVER_r_ok(s, n), "memcpy: source readable, destination writable for n bytes");
	for (i = 0; i < NP * sizeof(struct pollfd); i++) { if (i >= n) break; ((char *)d)[i] = ((const char *)s)[i]; }
	return d;
}
#endif
int poll(struct pollfd *fds, nfds_t nfds, int timeout)
{
	int k; long ms;
	__CPROVER_assert(fds == (USE_COPY ? COPY : PSET) && nfds == (nfds_t)IN.nfds, "poll: the (copied) interest array and its used length");
	__CPROVER_assert(IMP(IN.has_lock, g_lock_depth[1] == 0), "poll: base lock released while waiting");
	/* C05 side: what the kernel is asked is exactly the live interest set */
	for (k = 0; k < NP; k++) { if (k >= IN.nfds) break; __CPROVER_assert(fds[k].fd == IN.fds[k] && fds[k].events == IN.events[k], "poll: entry k of the array handed to the kernel is the live entry k"); }
	if (!IN.has_tv) __CPROVER_assert(timeout == -1, "poll: no timeout -> wait forever");
	else {
		ms = IN.tv_sec * 1000 + (IN.tv_usec + 999) / 1000;      /* rounded up, never early (C01) */
		__CPROVER_assert(timeout == (ms > INT_MAX ? INT_MAX : (int)ms), "poll: timeout is the caller's timeval rounded up to ms, capped at INT_MAX");
	}
	g_polled++;
	/* the base lock is released here: another thread may call poll_add meanwhile, which (within the array's capacity)
	 * appends live entries and bumps pop->nfds; the dispatching thread works on its copy and its own snapshot of nfds */
	if (USE_COPY) { POP.nfds = IN.nfds + IN.grow; POP.realloc_copy = POP.realloc_copy || (IN.grow != 0); }
	if (IN.res_fail) { errno = IN.err; return -1; }
	for (k = 0; k < NP; k++) { if (k >= IN.nfds) break; fds[k].revents = IN.rev[k]; }
	return NREADY;
}
void evmap_io_active_(struct event_base *base, evutil_socket_t fd, short events)
{
	int k, hit = 0;
	__CPROVER_assert(base == &BASE && g_polled == 1, "evmap_io_active_: after the wait");
	__CPROVER_assert(IMP(IN.has_lock, g_lock_depth[1] == 1), "evmap_io_active_: base lock held again");
	g_act_total++;
	for (k = 0; k < NP; k++) { if (k >= IN.nfds) break; if (IN.fds[k] == fd) { g_act_calls[k]++; g_act_ev[k] = events; hit = 1; } }
	if (!hit) g_act_foreign++;
}

/* contract of evutil_weakrand_range_ — text of units/c46_weakrand_range (enforced there) */
VF_CONTRACT(ev_int32_t, weakrand_range_c, struct evutil_weakrand_state *state, ev_int32_t top)
__CPROVER_requires(__CPROVER_is_fresh(state, sizeof(*state)))
__CPROVER_requires(top >= 1)
__CPROVER_assigns(state->seed)
__CPROVER_ensures(__CPROVER_return_value >= 0 && __CPROVER_return_value < top)
__CPROVER_ensures(state->seed <= 0x7fffffffu)
;

/* reference translation (poll(2)): HUP/ERR/NVAL are reported as readable and writable */
#define REFP(w) ((w) == 0 ? 0 : ( (((w) & (POLLHUP|POLLERR|POLLNVAL|POLLIN)) ? EV_READ : 0) | (((w) & (POLLHUP|POLLERR|POLLNVAL|POLLOUT)) ? EV_WRITE : 0) | (((w) & POLLRDHUP) ? EV_CLOSED : 0) ))
#define COPY_FAIL (USE_COPY && IN.realloc_copy && !(g_mm_realloc_calls == 1 && g_mm_realloc_ok))

VF_CONTRACT(int, poll_dispatch_c, struct event_base *base, struct timeval *tv)
__CPROVER_requires(base == &BASE && tv == (IN.has_tv ? &TV : NULL))
__CPROVER_requires(g_polled == 0 && g_act_total == 0 && g_act_foreign == 0 && g_mm_realloc_calls == 0)
__CPROVER_assigns(g_polled, g_act_total, g_act_foreign, __CPROVER_object_whole(g_act_calls), __CPROVER_object_whole(g_act_ev), g_mm_realloc_calls, g_mm_realloc_ok,
	g_lock_depth[1], g_lock_ops, POP.event_set_copy, POP.realloc_copy, POP.nfds, BASE.weakrand_seed.seed, errno, vf_nchoice_,
	__CPROVER_object_whole(COPY))
__CPROVER_assigns(!USE_COPY: __CPROVER_object_whole(PSET))
/* 1 result */
__CPROVER_ensures(__CPROVER_return_value == ((COPY_FAIL || (IN.res_fail && IN.err != EINTR)) ? -1 : 0))
/* 2 exactly one wait, none if the dispatch copy cannot be allocated */
__CPROVER_ensures(g_polled == (COPY_FAIL ? 0 : 1))
/* 3 lock balance (C08) */
__CPROVER_ensures(IMP(IN.has_lock, g_lock_depth[1] == 1))
/* 4 a failed wait reports nothing; never a report for an fd that is not in the array */
__CPROVER_ensures(IMP(IN.res_fail || COPY_FAIL, g_act_total == 0) && g_act_foreign == 0)
/* 5 multithreaded: the live array is untouched (other threads may change it while we wait) */
__CPROVER_ensures(IMP(USE_COPY && g_polled == 1, POP.event_set == PSET && POP.nfds == IN.nfds + IN.grow))
;

void harness(void)
{
	int r, k, j;
	VF_LOAD_IN();
	__CPROVER_assume(IN.nfds >= 0 && IN.nfds <= IN.event_count && IN.event_count <= NP && IN.err > 0);
	__CPROVER_assume(IN.grow >= 0 && IN.grow <= IN.event_count - IN.nfds && IMP(!IN.has_lock, IN.grow == 0));
	__CPROVER_assume(IN.tv_usec >= 0 && IN.tv_usec < 1000000 && IN.tv_sec >= 0 && IN.tv_sec <= (LONG_MAX - 999) / 1000);   /* normalised, from timeout_next */
	/* one entry per fd (poll_add/poll_del: pollidx names the fd's single entry) */
	for (k = 0; k < NP; k++) for (j = 0; j < k; j++) __CPROVER_assume(IN.fds[j] != IN.fds[k]);
	VF_INSTALL_LOCKS(); VF_MM_RESET();
	for (k = 0; k < NP; k++) { PSET[k].fd = IN.fds[k]; PSET[k].events = IN.events[k]; g_act_calls[k] = 0; g_act_ev[k] = 0; }
	POP.event_set = PSET; POP.event_count = IN.event_count; POP.nfds = IN.nfds;
	POP.realloc_copy = IN.realloc_copy != 0; POP.event_set_copy = POP.realloc_copy ? OLDCOPY : COPY;
	BASE.evbase = &POP; BASE.weakrand_seed.seed = IN.seed;
	BASE.th_base_lock = IN.has_lock ? VF_LOCK_COOKIE(1) : NULL;
	if (IN.has_lock) g_lock_depth[1] = 1;
	TV.tv_sec = IN.tv_sec; TV.tv_usec = IN.tv_usec;
	g_polled = 0; g_act_total = 0; g_act_foreign = 0; g_mm_realloc_calls = 0; g_mm_realloc_ok = 0;
	r = VF_CALL(poll_dispatch_c, poll_dispatch, &BASE, IN.has_tv ? &TV : NULL);
	/* C04: each entry is reported iff its result translates to some condition, exactly once, with that translation */
	if (r == 0 && !IN.res_fail) {
		for (k = 0; k < NP; k++) {
			if (k >= IN.nfds) break;
			__CPROVER_assert(g_act_calls[k] == (REFP(IN.rev[k]) != 0 ? 1 : 0), "entry reported exactly once iff it has a result");
			__CPROVER_assert(IMP(g_act_calls[k] == 1, g_act_ev[k] == REFP(IN.rev[k])), "report mask is the translation of the entry's revents");
		}
	}
#ifdef VF_CANARY
	__CPROVER_assert(g_act_total < 4, "canary: must fail (four entries can all be ready)");
#endif
}
