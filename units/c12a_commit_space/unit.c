/* C12/C13/C14/C08 — evbuffer_commit_space (real buffer.c) on every shape of <= 3 chains and EVERY vector array of <= 3 entries
 * (valid or not): it commits exactly when the vectors are the free space of the last chain, or of consecutive chains starting
 * at the first chain with room behind the data, and each length fits ("commit validates its vectors"); then every chain grows
 * by its vector's length; otherwise nothing changes.  Inline (real): advance_last_with_data.  Replaced: evbuffer_invoke_callbacks_. */
#define VF_NLOCKS 2
#include "vf.h"
#include "stubs/c12a_mem.h"
#include "buffer.c"
struct eb_in;
#include "stubs/lock.h"
#include "c12a_shape.h"
struct in { struct eb_in b; int n_vecs; unsigned vchain[3]; size_t voff[3], vlen[3]; unsigned ch[VF_NCHOICE]; };
struct in IN;
#include "stubs/log.h"
#include "stubs/c12a_mm.h"
#include "c12a_contracts.h"

#define O_total (O_BUF.total_len)
#define RV __CPROVER_return_value
static struct evbuffer_iovec VEC[3];
size_t O_added;          /* sum of the first n_vecs lengths */
int O_valid;             /* the model's verdict on the vectors, computed by the harness from the pre-state */
VF_CONTRACT(int, commit_c, struct evbuffer *buf, struct evbuffer_iovec *vec, int n_vecs)
__CPROVER_requires(buf == &BUF && vec == VEC && n_vecs >= 0 && n_vecs <= 3)
__CPROVER_requires(g_lock_depth[1] == 0 && g_cb[0] == 0)
__CPROVER_assigns(g_lock_depth[1], g_lock_ops, g_cbs, __CPROVER_object_whole(buf), __CPROVER_object_whole(&CH[0]), __CPROVER_object_whole(&CH[1]), __CPROVER_object_whole(&CH[2]))
/* 1 C08 */
__CPROVER_ensures(g_lock_depth[1] == 0)
__CPROVER_ensures(RV == 0 || RV == -1)
/* 3 C12: it succeeds exactly when the end is not frozen and the vectors are valid */
__CPROVER_ensures(IFF(RV == 0, !O_BUF.freeze_end && O_valid))
/* 4 C14: refused => nothing changed, no callback */
__CPROVER_ensures(IMP(RV == -1, C12A_BUF_SAME(BUF, O_BUF) && C12A_ALLCH_SAME()))
__CPROVER_ensures(IMP(RV == -1, g_cb[0] == 0))
/* 6 C12: success => longer by the sum of the committed lengths */
__CPROVER_ensures(IMP(RV == 0, buf->total_len == O_total + O_added))
/* 7 C13: callbacks told once (not at all for an empty vector array), with counters accounting for exactly this addition */
__CPROVER_ensures(IMP(RV == 0, g_cb[0] == (n_vecs > 0 ? 1 : 0)))
__CPROVER_ensures(IMP(RV == 0 && g_cb[0] == 1, g_cb_total[0] == O_total + O_added && g_cb_nadd[0] == O_BUF.n_add_for_cb + O_added && g_cb_ndel[0] == O_BUF.n_del_for_cb))
__CPROVER_ensures(IMP(RV == 0 && g_cb[0] == 0, C12A_BUF_SAME(BUF, O_BUF) && C12A_ALLCH_SAME()))
/* 10 nothing else of the buffer changes */
__CPROVER_ensures(buf->first == O_BUF.first && buf->last == O_BUF.last && buf->lock == O_BUF.lock && buf->freeze_start == O_BUF.freeze_start && buf->freeze_end == O_BUF.freeze_end && buf->refcnt == O_BUF.refcnt && buf->callbacks.lh_first == O_BUF.callbacks.lh_first && buf->deferred_cbs == O_BUF.deferred_cbs && buf->flags == O_BUF.flags && buf->max_read == O_BUF.max_read)
;

#define SPACE_(i) (CH[i].buffer_len - ((size_t)CH[i].misalign + CH[i].off))
void harness(void)
{
	int r, i, f, L; size_t vlen[3]; int tgt[3];     /* tgt[i]: the chain vector i commits into, per the model */
	VF_LOAD_IN();
	c12a_build(&IN.b);
	VF_INSTALL_LOCKS(); C12A_RESET();
	__CPROVER_assume(IN.n_vecs >= 0 && IN.n_vecs <= 3);
	for (i = 0; i < 3; i++) {
		/* any pointer into (or past) the data area of any chain, any length */
		__CPROVER_assume(IN.vchain[i] < 3 && IN.voff[i] <= ((size_t)1 << 41));
		vlen[i] = C12A_Q(IN.vlen[i]);
		VEC[i].iov_base = c12a_anchor((int)IN.vchain[i]) + IN.voff[i];
		VEC[i].iov_len = vlen[i];
		tgt[i] = -1;
	}
	L = vf_lwd_index(&C12A_S);
	/* the model: which vector arrays are acceptable, and where they commit */
	O_added = 0; O_valid = 0;
	if (IN.n_vecs == 0) O_valid = 1;
	else if (IN.n_vecs == 1 && c12a_nch > 0 && IN.vchain[0] == c12a_nch - 1 && IN.voff[0] == (size_t)CH[c12a_nch - 1].misalign + CH[c12a_nch - 1].off) {
		/* the free space of the last chain */
		O_valid = vlen[0] <= SPACE_(c12a_nch - 1); tgt[0] = (int)c12a_nch - 1;
	} else if (c12a_nch > 0) {
		/* consecutive chains from the first chain with room at or behind the last chain with data */
		f = L < 0 ? 0 : L;
		if (SPACE_(f) == 0) f++;
		O_valid = 1;
		for (i = 0; i < 3; i++) {
			if (i >= IN.n_vecs) break;
			if ((unsigned)(f + i) >= c12a_nch || IN.vchain[i] != (unsigned)(f + i) || IN.voff[i] != (size_t)CH[(f + i) % 3].misalign + CH[(f + i) % 3].off || vlen[i] > SPACE_((f + i) % 3)) { O_valid = 0; break; }
			tgt[i] = f + i;
		}
	}
	for (i = 0; i < 3; i++) { if (i < IN.n_vecs) O_added += vlen[i]; }
	C12A_SNAPSHOT();
	r = VF_CALL(commit_c, evbuffer_commit_space, &BUF, VEC, IN.n_vecs);
#ifndef C12A_NOPOST
	if (r == 0) {
		__CPROVER_assert(c12a_binv(&BUF), "BInv after commit_space: windows inside buffers, total_len == sum off, last_with_datap canonical");
		for (i = 0; i < VF_EB_MAXCH; i++) {
			size_t grow = 0; int k;
			if ((unsigned)i >= c12a_nch) break;
			for (k = 0; k < 3; k++) { if (k < IN.n_vecs && tgt[k] == i) grow += vlen[k]; }
			__CPROVER_assert(CH[i].off == O_CH[i].off + grow && CH[i].misalign == O_CH[i].misalign && CH[i].next == O_CH[i].next && CH[i].buffer == O_CH[i].buffer && CH[i].buffer_len == O_CH[i].buffer_len && CH[i].flags == O_CH[i].flags, "each chain grows by exactly its vector's length; nothing else changes");
		}
	}
	__CPROVER_assert(m_cp.n == 0 && g_nnew == 0 && g_freed == 0, "no copy, no allocation, no free");
#endif
#ifdef VF_CANARY
	__CPROVER_assert(r == -1 || IN.n_vecs < 2, "canary: must fail (two-vector commits can succeed)");
#endif
}
