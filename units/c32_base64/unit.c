/* C32 — Base64encode (real ws.c) against an RFC 4648 section 4 reference written here.
 * The only call site is ws_gen_accept_key with len == 20 (a SHA-1 digest): for that length the
 * loop is fully unwound and the result is complete: 28 characters + NUL written into out[32],
 * return value 29, equal to the reference for every digest.  In addition every len <= VF_B64_MAX
 * with every content is checked (bounded), the output buffer being EXACTLY 4*ceil(len/3)+1 bytes
 * and the input EXACTLY len bytes (both right-aligned in their objects: an over-read or
 * over-write is out of bounds). */
#ifndef VF_B64_MAX
#define VF_B64_MAX 24
#endif
#define VF_B64_OUT (4 * ((VF_B64_MAX + 2) / 3) + 1)
#include "vf.h"
#include "ws.c"
struct in { int len; int callsite; unsigned char d[VF_B64_MAX]; };
struct in IN;
#include "stubs/log.h"
static char SRC[VF_B64_MAX + 1];     /* +1: a zero-length object start must still be a valid pointer */
static char OUT[VF_B64_OUT];
static char REF[VF_B64_OUT];

/* RFC 4648 section 4: 24-bit groups, 6 bits per character, '=' padding */
static const char RFC4648[65] = "ABCDEFGHIJKLMNOPQRSTUVWXYZabcdefghijklmnopqrstuvwxyz0123456789+/";
static int ref_base64(char *out, const unsigned char *in, int n)
{
	int g, o = 0;
	for (g = 0; g < (VF_B64_MAX + 2) / 3; g++) {
		int have = n - 3 * g; unsigned long v;
		if (have <= 0) break;
		v = (unsigned long)in[3 * g] << 16;
		if (have >= 2) v |= (unsigned long)in[3 * g + 1] << 8;
		if (have >= 3) v |= (unsigned long)in[3 * g + 2];
		out[o++] = RFC4648[(v >> 18) & 63];
		out[o++] = RFC4648[(v >> 12) & 63];
		out[o++] = have >= 2 ? RFC4648[(v >> 6) & 63] : '=';
		out[o++] = have >= 3 ? RFC4648[v & 63] : '=';
	}
	out[o++] = '\0';
	return o;
}

void harness(void)
{
	int i, n, need, r, rr; char *src, *out;
	VF_LOAD_IN();
	if (IN.callsite) n = 20; else { n = IN.len; __CPROVER_assume(n >= 0 && n <= VF_B64_MAX); }
	need = 4 * ((n + 2) / 3) + 1;
	src = &SRC[VF_B64_MAX - n]; out = IN.callsite ? &OUT[VF_B64_OUT - 32] : &OUT[VF_B64_OUT - need];   /* call site: char out[32] */
	for (i = 0; i < VF_B64_MAX; i++) if (i < n) src[i] = (char)IN.d[i];
	for (i = 0; i < VF_B64_OUT; i++) { OUT[i] = 0x7e; REF[i] = 0x7e; }
	r = Base64encode(out, src, n);
	rr = ref_base64(REF, (const unsigned char *)src, n);
	__CPROVER_assert(r == need && r == rr, "Base64encode returns 4*ceil(len/3)+1 (characters + NUL)");
	for (i = 0; i < VF_B64_OUT; i++) if (i < need) __CPROVER_assert(out[i] == REF[i], "Base64encode output == RFC 4648 base64 of the input, NUL-terminated");
	__CPROVER_assert(IMP(IN.callsite, r == 29 && out[27] == '=' && out[26] != '=' && out[28] == '\0'), "accept key: 27 characters, one '=', NUL = 29 bytes of out[32]");
	for (i = 0; i < VF_B64_OUT; i++) if (&OUT[i] < out) __CPROVER_assert(OUT[i] == 0x7e, "nothing written before the output buffer");
#ifdef VF_CANARY
	__CPROVER_assert(!(IN.callsite && out[0] == 'l' && out[1] == 'i' && out[2] == 'b'), "canary: must fail (some digest encodes to lib...)");
#endif
}
