/* C24/C23 — evhttp_error_cb (real http.c): what an EOF / error / timeout event of the transport
 * does to the message in progress, per (connection state, event bits, flags, body framing).
 *  RFC 9112 §8 (an incomplete message must not be delivered as complete):
 *   - the message is COMPLETED on an event (evhttp_connection_done) only in state READING_BODY of a
 *     body delimited by close (!chunked && ntoread < 0) on EOF-while-reading; that case completes
 *     and nothing else happens (no reset, input untouched);
 *   - EOF inside a chunked body, before a Content-Length body is complete, in the first line, the
 *     header section or the trailer is never a completion: the request FAILS with EVREQ_HTTP_EOF
 *     (or, with EVHTTP_CON_READ_ON_WRITE_ERROR and bytes still buffered, the buffered bytes are
 *     parsed first: deferred read, no continuation yet);
 *  the other cases the function distinguishes, each with exactly its continuation:
 *   - CONNECTING + timeout: connect clean-up (retry or fail all requests), nothing else;
 *   - close-detect mode (idle client connection, peer closed or any error): SILENT hard reset — no
 *     request callback, connection DISCONNECTED, fd closed, input AND output empty (reset_c, proved
 *     in c24g_reset), CLOSEDETECT cleared; the connection is freed iff no request is queued and it is
 *     an OUTGOING|AUTOFREE connection;
 *   - timeout: fail with EVREQ_HTTP_TIMEOUT;
 *   - write error with EVHTTP_CON_READ_ON_WRITE_ERROR: first time the unsent output is dropped and
 *     the connection starts reading the (error) response (state READING_FIRSTLINE, READING_ERROR set);
 *     second time READING_ERROR is cleared and the request fails with EVREQ_HTTP_EOF;
 *   - BEV_EVENT_CONNECTED alone: nothing; anything else: fail with EVREQ_HTTP_BUFFER_ERROR.
 * Loop-free.  evhttp_connection_read_on_write_error and evhttp_start_read_ are inlined (real code). */
#include "vf.h"
#include "http.c"
struct in { int state, flags, have_req, chunked, is_server, have_closecb, out_frozen, what, kind; ev_int64_t ntoread; size_t in_len, out_len; };
struct in IN;
#include "stubs/log.h"
#include "stubs/c24g_env.h"
#include "c23_contracts.h"
#include "c24g_contracts.h"

static struct evhttp_connection EVCON; static struct evhttp_request REQ; static char COOKIE, SRV_COOKIE, BASE_COOKIE;
#define ST IN.state
#define W ((short)IN.what)
#define F IN.flags
#define ROWE_FLAG EVHTTP_CON_READ_ON_WRITE_ERROR
#define CLOSE_DELIM (!IN.chunked && IN.ntoread < 0)
#define EARLY_CLEANUP (ST == EVCON_CONNECTING && (W & BEV_EVENT_TIMEOUT))
#define EARLY_DONE (ST == EVCON_READING_BODY && CLOSE_DELIM && W == (BEV_EVENT_READING|BEV_EVENT_EOF))
#define CD (!EARLY_CLEANUP && !EARLY_DONE && (F & EVHTTP_CON_CLOSEDETECT))
#define REST (!EARLY_CLEANUP && !EARLY_DONE && !(F & EVHTTP_CON_CLOSEDETECT))
#define TMO (REST && (W & BEV_EVENT_TIMEOUT))
#define EE (REST && !(W & BEV_EVENT_TIMEOUT) && (W & (BEV_EVENT_EOF|BEV_EVENT_ERROR)))
#define ROWE (EE && (W & BEV_EVENT_WRITING) && (F & ROWE_FLAG))
#define ROWE_FIRST (ROWE && !(F & EVHTTP_CON_READING_ERROR))
#define ROWE_SECOND (ROWE && (F & EVHTTP_CON_READING_ERROR))
#define DEFER (EE && !ROWE && (W & BEV_EVENT_READING) && (F & ROWE_FLAG) && IN.in_len > 0)
#define FAIL_EOF (ROWE_SECOND || (EE && !ROWE && !DEFER))
#define NOP_CONNECTED (REST && !TMO && !EE && W == BEV_EVENT_CONNECTED)
#define FAIL_BUF (REST && !TMO && !EE && W != BEV_EVENT_CONNECTED)
#define NCONT (g_done_calls + g_fail_calls + g_cleanup_calls)
#define TRANSPORT_UNTOUCHED (e_replacefd_calls == 0 && e_closecb_calls == 0 && e_disable_hard_calls == 0 && EB[E_IN].len == IN.in_len && EB[E_IN].drained == 0)
#define OUTPUT_UNTOUCHED (EB[E_OUT].len == IN.out_len && EB[E_OUT].drained == 0 && e_out_frozen == (IN.out_frozen != 0))

VF_CONTRACT_V(error_cb_c, struct bufferevent *bufev, short what, void *arg)
__CPROVER_requires(bufev == &BEV && arg == &EVCON && what == W && __CPROVER_rw_ok(&EVCON, sizeof(EVCON)) && __CPROVER_rw_ok(&REQ, sizeof(REQ)))
__CPROVER_requires(EVCON.bufev == &BEV && (int)EVCON.state == ST && EVCON.flags == F && (EVCON.closecb == NULL || EVCON.closecb == vf_close_cb))
__CPROVER_requires(EVCON.requests.tqh_first == (IN.have_req ? &REQ : NULL))
__CPROVER_requires(REQ.chunked == (IN.chunked != 0) && REQ.ntoread == IN.ntoread && (int)REQ.kind == IN.kind)
__CPROVER_requires(EB[E_IN].len == IN.in_len && EB[E_OUT].len == IN.out_len && EB[E_IN].drained == 0 && EB[E_OUT].drained == 0 && e_out_frozen == (IN.out_frozen != 0))
__CPROVER_requires(NCONT == 0 && g_connfree_calls == 0 && e_setcb_calls == 0 && e_replacefd_calls == 0 && e_fd_closed_calls == 0 && e_closecb_calls == 0 && e_disable_hard_calls == 0 && e_drain_fail_calls == 0
	&& e_deferred_calls == 0 && e_bev_enabled_calls == 0 && e_bev_disabled_calls == 0 && e_freeze_calls == 0 && e_unfreeze_calls == 0)
/* close-detect mode is entered only by an idle client connection (evhttp_connection_start_detectclose from evhttp_connection_done,
 * left in evhttp_request_dispatch before the state changes; the code asserts both facts) */
__CPROVER_requires(IMP(F & EVHTTP_CON_CLOSEDETECT, ST == EVCON_IDLE && !IN.is_server))
/* outside close-detect mode / connect timeout the head request exists (evhttp_connection_fail_ asserts it; a connection reads or
 * writes only on behalf of its head request) */
__CPROVER_requires(IMP(!IN.have_req, (F & EVHTTP_CON_CLOSEDETECT) || EARLY_CLEANUP))
__CPROVER_assigns(EVCON.state, EVCON.flags, REQ.kind, g_done_calls, g_fail_calls, g_fail_error, g_cleanup_calls, g_connfree_calls,
	e_setcb_calls, e_setcb_cleared, e_setcb_http, e_setcb_arg, C24G_HARD_FRAME, e_freeze_calls, e_unfreeze_calls,
	e_bev_enabled_calls, e_bev_disabled_calls, e_bev_enable_what, e_bev_disable_what, e_deferred_calls)
/* 1 at most one continuation */
__CPROVER_ensures(NCONT <= 1)
/* 2 RFC 9112 §8: completion on an event only for a close-delimited body on EOF while reading */
__CPROVER_ensures(IMP(g_done_calls == 1, ST == EVCON_READING_BODY && !IN.chunked && IN.ntoread < 0 && (W & BEV_EVENT_EOF) && (W & BEV_EVENT_READING)))
__CPROVER_ensures(IMP(ST == EVCON_READING_BODY && CLOSE_DELIM && W == (BEV_EVENT_READING|BEV_EVENT_EOF), g_done_calls == 1 && NCONT == 1 && TRANSPORT_UNTOUCHED && OUTPUT_UNTOUCHED && e_setcb_calls == 0 && (int)EVCON.state == ST && EVCON.flags == F && g_connfree_calls == 0))
/* 3 EOF while reading an incomplete message (chunked body, Content-Length body, first line, headers, trailer): failure EVREQ_HTTP_EOF
 *   (with READ_ON_WRITE_ERROR and buffered bytes: those are parsed first) — never a completion */
__CPROVER_ensures(IMP(W == (BEV_EVENT_READING|BEV_EVENT_EOF) && !(F & EVHTTP_CON_CLOSEDETECT) &&
	((ST == EVCON_READING_BODY && !CLOSE_DELIM) || ST == EVCON_READING_FIRSTLINE || ST == EVCON_READING_HEADERS || ST == EVCON_READING_TRAILER),
	g_done_calls == 0 && (((F & ROWE_FLAG) && IN.in_len > 0) ? (NCONT == 0 && e_deferred_calls == 1) : (g_fail_calls == 1 && g_fail_error == (int)EVREQ_HTTP_EOF))))
/* 4 failure classification, both directions */
__CPROVER_ensures(IFF(g_fail_calls == 1, TMO || FAIL_EOF || FAIL_BUF))
__CPROVER_ensures(IMP(TMO, g_fail_error == (int)EVREQ_HTTP_TIMEOUT))
__CPROVER_ensures(IMP(FAIL_EOF, g_fail_error == (int)EVREQ_HTTP_EOF))
__CPROVER_ensures(IMP(FAIL_BUF, g_fail_error == (int)EVREQ_HTTP_BUFFER_ERROR))
__CPROVER_ensures(IMP(g_fail_calls == 1, NCONT == 1 && TRANSPORT_UNTOUCHED && OUTPUT_UNTOUCHED && e_setcb_calls == 0 && (int)EVCON.state == ST && g_connfree_calls == 0
	&& EVCON.flags == (ROWE_SECOND ? (F & ~EVHTTP_CON_READING_ERROR) : F)))
/* 5 connect timeout */
__CPROVER_ensures(IFF(g_cleanup_calls == 1, EARLY_CLEANUP))
__CPROVER_ensures(IMP(g_cleanup_calls == 1, NCONT == 1 && TRANSPORT_UNTOUCHED && OUTPUT_UNTOUCHED && e_setcb_calls == 0 && (int)EVCON.state == ST && EVCON.flags == F && g_connfree_calls == 0))
/* 6 close-detect: silent hard reset */
__CPROVER_ensures(IFF(e_replacefd_calls == 1, CD))
__CPROVER_ensures(IMP(CD, NCONT == 0 && EVCON.state == EVCON_DISCONNECTED && EVCON.flags == (F & ~EVHTTP_CON_CLOSEDETECT & ~EVHTTP_CON_READING_ERROR)
	&& EB[E_IN].len == 0 && EB[E_OUT].len == 0 && e_replacefd_fd == -1 && e_fd_closed_calls == 1 && e_setcb_calls == 1 && e_setcb_cleared == 1 && e_deferred_calls == 0))
__CPROVER_ensures(g_connfree_calls == ((CD && !IN.have_req && (F & EVHTTP_CON_OUTGOING) && (F & EVHTTP_CON_AUTOFREE)) ? 1 : 0))
/* 7 write error, READ_ON_WRITE_ERROR, first time: drop the unsent request, read the response that may already be there */
__CPROVER_ensures(IMP(ROWE_FIRST, NCONT == 0 && REQ.kind == EVHTTP_RESPONSE && EB[E_OUT].len == 0 && EB[E_OUT].drained == IN.out_len && e_out_frozen == 1 && e_drain_fail_calls == 0
	&& TRANSPORT_UNTOUCHED && EVCON.state == EVCON_READING_FIRSTLINE && EVCON.flags == (F | EVHTTP_CON_READING_ERROR)
	&& e_setcb_calls == 1 && e_setcb_http == 1 && e_setcb_arg == (void *)&EVCON && e_bev_enabled_calls == 1 && e_bev_enable_what == EV_READ && e_bev_disabled_calls == 1 && e_bev_disable_what == EV_WRITE
	&& e_deferred_calls == (IN.in_len > 0 ? 1 : 0)))
/* 8 pending input after a write error is parsed first; a bare CONNECTED event is ignored */
__CPROVER_ensures(IMP(DEFER, NCONT == 0 && e_deferred_calls == 1))
__CPROVER_ensures(IMP(NOP_CONNECTED, NCONT == 0 && e_deferred_calls == 0))
__CPROVER_ensures(IMP(DEFER || NOP_CONNECTED, TRANSPORT_UNTOUCHED && OUTPUT_UNTOUCHED && e_setcb_calls == 0 && (int)EVCON.state == ST && EVCON.flags == F))
/* 9 the request's kind changes only in 7 */
__CPROVER_ensures(IMP(!ROWE_FIRST, (int)REQ.kind == IN.kind))
;

void harness(void)
{
	VF_LOAD_IN(); VF_C24G_ENV_RESET(); VF_C23_GHOST_RESET(); g_cleanup_calls = 0; g_connfree_calls = 0;
	__CPROVER_assume(IN.state >= EVCON_DISCONNECTED && IN.state <= EVCON_WRITING);
	__CPROVER_assume(IN.what >= 0 && IN.what <= 0xff);           /* BEV_EVENT_* bits */
	__CPROVER_assume(IN.kind == EVHTTP_REQUEST || IN.kind == EVHTTP_RESPONSE);
	__CPROVER_assume(IMP(F & EVHTTP_CON_CLOSEDETECT, ST == EVCON_IDLE && !IN.is_server));
	__CPROVER_assume(IMP(!IN.have_req, (F & EVHTTP_CON_CLOSEDETECT) || EARLY_CLEANUP));
	EVCON.bufev = &BEV; EVCON.state = (enum evhttp_connection_state)IN.state; EVCON.flags = IN.flags;
	EVCON.closecb = IN.have_closecb ? vf_close_cb : NULL; EVCON.closecb_arg = &COOKIE;
	EVCON.http_server = IN.is_server ? (struct evhttp *)&SRV_COOKIE : NULL; EVCON.base = (struct event_base *)&BASE_COOKIE;
	EVCON.requests.tqh_first = IN.have_req ? &REQ : NULL;
	REQ.evcon = &EVCON; REQ.chunked = (IN.chunked != 0); REQ.ntoread = IN.ntoread; REQ.kind = (enum evhttp_request_kind)IN.kind;
	EB[E_IN].len = IN.in_len; EB[E_OUT].len = IN.out_len; e_out_frozen = (IN.out_frozen != 0);
	VF_CALL_V(error_cb_c, evhttp_error_cb, &BEV, W, &EVCON);
#ifdef VF_CANARY
	__CPROVER_assert(g_done_calls == 0, "canary: must fail (EOF completes a close-delimited body)");
#endif
}
