/* C02/C08 — event_base_get_num_events (real event.c, public): sum of the selected counters, nothing
 * changes, th_base_lock released. */
#define VF_NLOCKS 1
#include "vf.h"
#include "event.c"
#include "stubs/lock.h"
#include "stubs/log.h"
#define C02_NO_AQ
#include "c02_event_shape.h"
struct in { struct c02_base_in b; unsigned type; };
struct in IN;
#define SEL(bit, v) ((IN.type & (bit)) ? (v) : 0)
VF_CONTRACT(int, num_c, struct event_base *base, unsigned int type)
__CPROVER_requires(base == &BASE && type == IN.type && g_lock_depth[1] == 0 && g_lock_ops == 0)
__CPROVER_assigns(g_lock_depth[1], g_lock_ops)
__CPROVER_ensures(__CPROVER_return_value == SEL(EVENT_BASE_COUNT_ACTIVE, IN.b.event_count_active) + SEL(EVENT_BASE_COUNT_VIRTUAL, IN.b.virtual_event_count) + SEL(EVENT_BASE_COUNT_ADDED, IN.b.event_count))
__CPROVER_ensures(g_lock_depth[1] == 0 && g_lock_ops == ((IN.b.has_lock & 1) ? 2 : 0))
;
void harness(void)
{
	int r;
	VF_LOAD_IN(); VF_INSTALL_LOCKS();
	c02_build_base(&IN.b);
	/* each counter is bounded by the number of live events/callbacks (memory): the sum of three stays inside int */
	__CPROVER_assume(IN.b.event_count <= (1 << 29) && IN.b.event_count_active <= (1 << 29) && IN.b.virtual_event_count <= (1 << 29));
	r = VF_CALL(num_c, event_base_get_num_events, &BASE, IN.type);
	(void)r;
#ifdef VF_CANARY
	__CPROVER_assert(r == 0, "canary: must fail (counters are reported)");
#endif
}
