/* C39 — strtoint (real evdns.c): "helper version of atoi which returns -1 on error".  For every string of
 * <= C39_VALCAP bytes: -1 unless the WHOLE string is a decimal numeral in atoi's syntax ([white space][+|-]digits;
 * the empty string reads as 0); otherwise the value libc's strtol assigns to the numeral, converted to int;
 * exactly one strtol call on the string; the string is not modified (assigns clause).
 * The contract is the one c39 units of the callers assume for strtoint.
 * Note (reported, not asserted): the conversion long -> int truncates — "4294967297" reads as 1, and the
 * clipped variant then does not clip it to the option's maximum. */
#include "vf.h"
#include "evdns.c"
#ifndef C39_VALCAP
#define C39_VALCAP 12
#endif
struct in { char val[C39_VALCAP + 1]; };
struct in IN;
#include "stubs/log.h"
#include "stubs/c39_libc_ref.h"
#include "stubs/c39_evdns_env.h"
#include "c39_option_ref.h"
static char C39_VAL[C39_VALCAP + 1];

void harness(void)
{
	int r, i;
	VF_LOAD_IN();
	for (i = 0; i < C39_VALCAP; i++) C39_VAL[i] = IN.val[i];
	C39_VAL[C39_VALCAP] = '\0';
	evdns_log_fn = NULL; current_base = NULL;
	O_val = C39_VAL;
	c39_ref_int(C39_VAL, &O_iok);
	g_strtol_calls = 0; g_strtol_val = 0; g_strtol_arg = NULL;
	r = VF_CALL(strtoint_c, strtoint, C39_VAL);
	__CPROVER_assert(IMP(C39_VAL[0] == '\0', r == 0), "the empty string reads as 0 (atoi)");
	__CPROVER_assert(IMP(O_iok && g_strtol_val >= INT_MIN && g_strtol_val <= INT_MAX && g_strtol_val != -1, (long)r == g_strtol_val), "a numeral that fits an int reads as its value");
#ifdef VF_CANARY
	__CPROVER_assert(r != 65000, "canary: must fail (\"65000\" reads as 65000)");
#endif
}
