/* C22/C08 — public bufferevent_rate_limit_group_decrement_write (real bufferevent_ratelim.c); see contracts/c22g_group_decrement_unit.h */
#define C22G_WRITE 1
#include "c22g_group_decrement_unit.h"
