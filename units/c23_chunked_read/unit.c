/* C23/C24/C25 — evhttp_handle_chunked_read (real http.c): the chunked-body decoder, on an input
 * buffer of at most VF_N bytes (all contents without NUL), any decoder state.  The harness
 * runs a small reference decoder written from RFC 9112 7.1 next to the real one and compares
 * status, bytes consumed, bytes delivered (identical, in order), remaining-chunk counter and
 * body size:
 *   size line   chunk-size [chunk-ext] CRLF, chunk-size = 1*HEXDIG (no sign, no "0x", no white
 *               space before it); an incomplete line (no LF yet) consumes NOTHING and asks for
 *               more data — so the result does not depend on how the stream was segmented;
 *               empty lines before the size are skipped (the CRLF that ends the previous chunk-data);
 *   limits      a size that would wrap the body counter => DATA_CORRUPTED; body_size + size >
 *               max_body_size => DATA_TOO_LONG before anything of the chunk is taken (C25);
 *   data        exactly chunk-size bytes are moved to the request's input buffer once they are ALL
 *               buffered; with fewer bytes nothing is moved;
 *   end         a zero chunk-size => ALL_DATA_READ; what follows (trailers) is left in the buffer.
 * Known deviations of the size-line grammar are separated by VF_KF_* (see KF_EXT / KF_GARBAGE). */
#ifndef VF_N
#define VF_N 6
#endif
#define VF_STRMAX (VF_N + 2)
#define VF_EB_CAP (VF_N + 1)
#define VF_EB_N 2
#include "vf.h"
#include "http.c"
struct in { unsigned char b[VF_N]; unsigned len; ev_int64_t ntoread; size_t body_size; ev_uint64_t max_body; unsigned ch[VF_NCHOICE]; };
struct in IN;
#include "stubs/log.h"
#include "stubs/c23_libc_ref.h"
#define VF_MM_NOFAIL
#include "stubs/c23_mm.h"
#include "stubs/evbuffer_model.h"
#include "stubs/c23_evb_readln.h"
int evbuffer_remove_buffer(struct evbuffer *src, struct evbuffer *dst, size_t datlen)
{
	struct vf_eb *s = vf_eb_of(src), *d = vf_eb_of(dst);
	size_t n = datlen < s->len ? datlen : s->len, i_;
	__CPROVER_assert(src != dst, "evbuffer_remove_buffer: distinct buffers");
	__CPROVER_assert(d->start + d->len + n <= VF_EB_CAP, "model capacity");
	for (i_ = 0; i_ < VF_EB_CAP; i_++) { if (i_ >= n) break; d->d[d->start + d->len + i_] = s->d[s->start + i_]; }
	d->len += n; d->added += n; s->start += n; s->len -= n; s->drained += n;
	return (int)n;
}

static struct evhttp_connection EVCON; static struct evhttp_request REQ;
static unsigned char B[VF_N + 1], OUT[VF_N + 1];
static int hexval(unsigned char c) { return (c >= '0' && c <= '9') ? c - '0' : (c >= 'a' && c <= 'f') ? c - 'a' + 10 : (c >= 'A' && c <= 'F') ? c - 'A' + 10 : -1; }

void harness(void)
{
	unsigned i, pos = 0, nout = 0, it; int want = MORE_DATA_EXPECTED, st, done = 0, kf_ext = 0, kf_garbage = 0;
	ev_int64_t nt; size_t bs;
	VF_LOAD_IN(); VF_MM_RESET(); VF_EB_RESET(); e_readln_calls = 0; e_readln_may_fail = 0; e_strtoll_calls = 0;
	__CPROVER_assume(IN.len <= VF_N);
	for (i = 0; i < VF_N; i++) { B[i] = i < IN.len ? IN.b[i] : 0; if (i < IN.len) __CPROVER_assume(IN.b[i] != 0); g_eb[0].d[i] = B[i]; }
	g_eb[0].len = IN.len;
	__CPROVER_assume(IN.ntoread == -1 || IN.ntoread > 0);           /* decoder state: expecting a size line, or inside a chunk */
	EVCON.max_body_size = IN.max_body;
	REQ.evcon = &EVCON; REQ.input_buffer = &EVB[1]; REQ.chunk_cb = NULL; REQ.ntoread = IN.ntoread; REQ.body_size = IN.body_size; REQ.flags = 0; REQ.chunked = 1;

	/* ---- reference decoder (RFC 9112 7.1) over B[0..len) */
	nt = IN.ntoread; bs = IN.body_size;
	for (it = 0; it < VF_N + 1; it++) {
		if (done || pos >= IN.len) break;
		if (nt < 0) {
			unsigned nl = IN.len, e, k, nd = 0; ev_uint64_t v = 0; int ok = 1;
			for (i = 0; i < VF_N; i++) { if (pos + i >= IN.len) break; if (B[pos + i] == '\n') { nl = pos + i; break; } }
			if (nl == IN.len) { done = 1; break; }                   /* incomplete line: nothing consumed */
			e = (nl > pos && B[nl - 1] == '\r') ? nl - 1 : nl;     /* line = B[pos..e) */
			if (e == pos) { pos = nl + 1; continue; }                /* empty line */
			k = pos;
			for (i = 0; i < VF_N; i++) { if (k >= e || hexval(B[k]) < 0) break; v = v * 16 + (unsigned)hexval(B[k]); k++; nd++; }
			if (nd == 0) ok = 0;
			if (ok && k < e) {
				/* chunk-ext = *( BWS ";" BWS chunk-ext-name [ BWS "=" BWS chunk-ext-val ] ): here only its start is classified */
				unsigned j = k;
				for (i = 0; i < VF_N; i++) { if (j < e && (B[j] == ' ' || B[j] == '\t')) j++; }
				if (j < e && B[j] == ';') { kf_ext = 1; }             /* RFC: extension, size is valid */
				else { ok = 0; if (B[k] == ' ') kf_garbage = 1; }        /* RFC: malformed; the code lets "SIZE SP anything" through */
			}
			pos = nl + 1;
			if (!ok) { want = DATA_CORRUPTED; done = 1; break; }
			if (v > (ev_uint64_t)((size_t)-1) - bs) { want = DATA_CORRUPTED; done = 1; break; }
			if (bs + (size_t)v > IN.max_body) { want = DATA_TOO_LONG; done = 1; break; }
			bs += (size_t)v; nt = (ev_int64_t)v;
			if (v == 0) { want = ALL_DATA_READ; done = 1; break; }
		} else {
			if ((ev_uint64_t)(IN.len - pos) < (ev_uint64_t)nt) { done = 1; break; }   /* chunk not complete: nothing moved */
			for (i = 0; i < VF_N; i++) { if (i >= (unsigned)nt) break; OUT[nout++] = B[pos + i]; }
			pos += (unsigned)nt; nt = -1;
		}
	}
	/* known findings: C23-chunk-ext-rejected (a valid chunk extension is refused), C23-chunk-size-garbage ("SIZE SP anything" accepted) */
#ifdef VF_KF_EXCLUDE
	__CPROVER_assume(!kf_ext && !kf_garbage);
#endif
#ifdef VF_KF_ONLY
	__CPROVER_assume(kf_ext || kf_garbage);
#endif

	st = evhttp_handle_chunked_read(&REQ, &EVB[0]);

	__CPROVER_assert(st == want, "status as the RFC 9112 7.1 reference decoder");
	__CPROVER_assert(g_eb[0].drained == pos && g_eb[0].len == IN.len - pos, "consumes exactly what the reference decoder consumes (an incomplete size line or chunk consumes nothing)");
	__CPROVER_assert(g_eb[1].len == nout && g_eb[1].added == nout, "delivers exactly the chunk-data bytes of complete chunks");
	for (i = 0; i < VF_N; i++) { if (i >= nout) break; __CPROVER_assert(g_eb[1].d[i] == OUT[i], "delivered bytes are the chunk-data, in order"); }
	__CPROVER_assert(IMP(st != DATA_CORRUPTED && st != DATA_TOO_LONG, REQ.ntoread == nt && REQ.body_size == bs), "remaining-chunk counter and body size as the reference");
	__CPROVER_assert(IMP(st == ALL_DATA_READ || st == MORE_DATA_EXPECTED, REQ.body_size <= IN.max_body || REQ.body_size == IN.body_size), "C25: the announced chunk sizes never take body_size over max_body_size");
	__CPROVER_assert(IMP((st == ALL_DATA_READ || st == MORE_DATA_EXPECTED) && IN.body_size <= IN.max_body, REQ.body_size <= IN.max_body), "C25 (contract chunked_read_c): starting within the limit, the decoder only goes on within the limit");
	__CPROVER_assert(IMP(st == DATA_CORRUPTED || st == DATA_TOO_LONG, REQ.body_size == IN.body_size || g_eb[1].added > 0 || REQ.body_size <= IN.max_body), "a refused size line does not count");
	__CPROVER_assert(IMP(st == ALL_DATA_READ, REQ.ntoread == 0) && IMP(st == MORE_DATA_EXPECTED, REQ.ntoread != 0), "ntoread == 0 exactly at the last chunk");
	__CPROVER_assert(g_mm_live == 0, "every size-line buffer is released");
#ifdef VF_CANARY
	__CPROVER_assert(st != ALL_DATA_READ, "canary: must fail (a last chunk is possible)");
#endif
}
