/* C44 — evconnlistener_new (real listener.c): listen() is called iff backlog != 0 (backlog > 0: that value,
 * < 0: 128) and its failure, like an allocation failure, yields NULL with nothing allocated and nothing added;
 * on success the listener has the given callback/user_data/flags, one reference, accept4 flags NONBLOCK unless
 * LEV_OPT_LEAVE_SOCKETS_BLOCKING and CLOEXEC iff LEV_OPT_CLOSE_ON_EXEC, a lock iff LEV_OPT_THREADSAFE (and the
 * lock allocator succeeds), its event assigned as (base, fd, EV_READ|EV_PERSIST, listener_read_cb, listener),
 * and is enabled - event added iff a callback is given - unless LEV_OPT_DISABLED. */
#include "c44_listener_unit.h"
int O_backlog, O_hascb; unsigned O_flags;
VF_CONTRACT(struct evconnlistener *, new_c, struct event_base *base, evconnlistener_cb cb, void *ptr, unsigned flags, int backlog, evutil_socket_t fd)
__CPROVER_requires(base == VF_BASE && cb == (O_hascb ? vf_user_cb : NULL) && ptr == (void *)&vf_ud_a && flags == O_flags && backlog == O_backlog && fd == VF_C44_LFD)
__CPROVER_requires(L == NULL && g_lock_depth[1] == 0 && g_mm_allocs == 0 && g_mm_frees == 0 && g_l.listen_calls == 0 && g_l.add_calls == 0 && g_l.del_calls == 0 && g_l.assign_calls == 0)
__CPROVER_assigns(L, __CPROVER_object_whole(&g_l), g_lock_depth[1], g_lock_ops, vf_nchoice_, g_mm_live, g_mm_allocs, errno)
__CPROVER_ensures(g_l.listen_calls == (O_backlog != 0 ? 1u : 0u) && IMP(O_backlog != 0, g_l.listen_backlog == (O_backlog > 0 ? O_backlog : 128)))
__CPROVER_ensures(IMP(O_backlog != 0 && g_l.listen_ret < 0, __CPROVER_return_value == NULL && g_mm_allocs == 0))
__CPROVER_ensures(IMP(__CPROVER_return_value == NULL, g_mm_live == 0 && g_l.add_calls == 0 && g_l.assign_calls == 0))
__CPROVER_ensures(IMP(__CPROVER_return_value != NULL, g_mm_allocs == 1 && L != NULL && __CPROVER_return_value == &L->base && g_l.assign_calls == 1 && g_l.assign_ok && g_l.assign_base == VF_BASE))
__CPROVER_ensures(IMP(__CPROVER_return_value != NULL, L->base.ops == &evconnlistener_event_ops && L->base.cb == (O_hascb ? vf_user_cb : NULL) && L->base.errorcb == NULL && L->base.user_data == (void *)&vf_ud_a && L->base.flags == O_flags && L->base.refcnt == 1))
__CPROVER_ensures(IMP(__CPROVER_return_value != NULL, L->base.accept4_flags == (((O_flags & LEV_OPT_LEAVE_SOCKETS_BLOCKING) ? 0 : EVUTIL_SOCK_NONBLOCK) | ((O_flags & LEV_OPT_CLOSE_ON_EXEC) ? EVUTIL_SOCK_CLOEXEC : 0))))
__CPROVER_ensures(IMP(__CPROVER_return_value != NULL, IMP(!(O_flags & LEV_OPT_THREADSAFE), L->base.lock == NULL) && (L->base.lock == NULL || L->base.lock == VF_LOCK_COOKIE(1))))
__CPROVER_ensures(IMP(__CPROVER_return_value != NULL, L->base.enabled == ((O_flags & LEV_OPT_DISABLED) ? 0 : 1) && g_l.add_calls == ((!(O_flags & LEV_OPT_DISABLED) && O_hascb) ? 1u : 0u)))
__CPROVER_ensures(g_lock_depth[1] == 0 && g_l.del_calls == 0 && g_l.accept_calls == 0 && g_l.lfd_closed == 0 && g_mm_frees == 0)
;
void harness(void)
{
	struct evconnlistener *r;
	VF_LOAD_IN();
	VF_C44_INSTALL();
	L = NULL;
	O_backlog = IN.a4flags; O_hascb = IN.has_cb != 0; O_flags = IN.flags;
	r = VF_CALL(new_c, evconnlistener_new, VF_BASE, O_hascb ? vf_user_cb : NULL, (void *)&vf_ud_a, O_flags, O_backlog, VF_C44_LFD);
#ifdef VF_CANARY
	__CPROVER_assert(r == NULL || r->lock == NULL, "canary: must fail (LEV_OPT_THREADSAFE gives the listener a lock)");
#endif
}
