/* C41 — evutil_ascii_strcasecmp (real evutil.c) against the ASCII reference, for NUL-terminated
 * strings of ANY length that fits the object (64-byte objects, all byte contents).  The comparison
 * loop is closed by a LOOP CONTRACT (pointers carried, only read through): nothing in the function is
 * unwound.  Proved: the function reads no byte past the first position where the strings differ
 * ignoring ASCII case or both end (so never past a NUL of either string), terminates (decreases
 * clause), writes nothing, and returns
 *    0   iff the strings are equal after mapping 'A'..'Z' to 'a'..'z',
 *   -1/1 by the order of the two mapped bytes at the first difference, when both are ASCII (< 0x80).
 * The reference (first difference g_d, its sign g_ref) is computed by the harness with an unrolled
 * loop over the object from the definition in c41_str.h; it is a ghost the function never sees.
 * Order of NON-ASCII bytes (>= 0x80): see unit c41_strcasecmp_8bit (candidate finding). */
#include "vf.h"
#include "evutil.c"
#include "stubs/log.h"
struct in { unsigned char a[VF_N]; unsigned char b[VF_N]; int n1, n2; };
struct in IN;
#include "c41_str.h"
int g_d, g_ref, g_ascii;     /* ghost: index of the first difference-or-common-end; reference result there; both bytes there are ASCII */

VF_CONTRACT(int, strcasecmp_c, const char *s1, const char *s2)
__CPROVER_requires(0 <= g_n1 && g_n1 < VF_N && 0 <= g_n2 && g_n2 < VF_N)
__CPROVER_requires(__CPROVER_r_ok(s1, (size_t)g_n1 + 1) && s1[g_n1] == 0)
__CPROVER_requires(__CPROVER_r_ok(s2, (size_t)g_n2 + 1) && s2[g_n2] == 0)
__CPROVER_assigns()
__CPROVER_ensures(__CPROVER_return_value == -1 || __CPROVER_return_value == 0 || __CPROVER_return_value == 1)
__CPROVER_ensures(IFF(__CPROVER_return_value == 0, g_ref == 0))
__CPROVER_ensures(IMP(g_ascii, __CPROVER_return_value == g_ref))
;

void harness(void)
{
	int r, i, d;
	VF_LOAD_IN();
	__CPROVER_assume(0 <= IN.n1 && IN.n1 < VF_N && 0 <= IN.n2 && IN.n2 < VF_N);
	for (i = 0; i < VF_N; i++) { A[i] = (char)IN.a[i]; B[i] = (char)IN.b[i]; }
	A[IN.n1] = 0; B[IN.n2] = 0;
	g_n1 = IN.n1; g_n2 = IN.n2;
	/* reference: first index where the mapped bytes differ or both strings end */
	d = -1;
	for (i = 0; i < VF_N; i++)
		if (d < 0 && (ref_lower((unsigned char)A[i]) != ref_lower((unsigned char)B[i]) || A[i] == 0)) d = i;
	__CPROVER_assert(d >= 0 && d <= IN.n1 && d <= IN.n2, "harness: the reference finds its position before either NUL witness");
	g_d = d;
	g_ref = ref_cmp_char_unsigned(A[d], B[d]);
	g_ascii = (unsigned char)A[d] < 0x80 && (unsigned char)B[d] < 0x80;
	r = VF_CALL(strcasecmp_c, evutil_ascii_strcasecmp, A, B);
	(void)r;
#ifdef VF_CANARY
	__CPROVER_assert(r != 1, "canary: must fail (\"b\" vs \"A\" gives 1)");
#endif
}
