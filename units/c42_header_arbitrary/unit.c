/* C42 — framing readers of the real event_tagging.c on ARBITRARY bytes (buffer of IN.n <= VF_N
 * bytes, all contents, every length, right-aligned: over-reads are out of bounds):
 *   evtag_unmarshal_header  success iff Tag and Length are well-formed AND the remaining data
 *                           is at least Length ("len checked against the remaining length");
 *                           returns Length, reports the tag, consumes exactly the header
 *   evtag_peek_length       success iff the header is well-formed; *plength = header + payload
 *                           length (mod 2^32); consumes nothing
 *   evtag_payload_length    same, *plength = payload length; consumes nothing
 *   evtag_consume           success iff unmarshal_header succeeds; consumes header + Length
 * Specification: reference readers of contracts/c31_tagref.h. */
#ifndef VF_N
#define VF_N 12
#endif
#define VF_EB_CAP 16
#include "vf.h"
#include "event_tagging.c"
struct in { unsigned n; unsigned char d[VF_N]; int which; unsigned ch[VF_NCHOICE]; };
struct in IN;
#include "stubs/log.h"
#include "stubs/c31_evbuffer3.h"
#include "c31_tagref.h"

void harness(void)
{
	unsigned i; int r, hl; ev_uint32_t rtag = 0, rlen = 0; size_t rem;
	VF_LOAD_IN(); VF_EB_RESET();
	__CPROVER_assume(IN.n <= VF_N && IN.which >= 0 && IN.which <= 3);
	VF_EB_LOAD(0, IN.d, IN.n);
	hl = ref_header(IN.d, IN.n, &rtag, &rlen);
	rem = hl >= 0 ? IN.n - (size_t)hl : 0;
	if (IN.which == 0) {
		ev_uint32_t tag = 0xdeadbeefu;
		r = evtag_unmarshal_header(&EVB[0], &tag);
		__CPROVER_assert(IFF(r != -1, hl >= 0 && rem >= rlen), "evtag_unmarshal_header succeeds iff the header is well-formed and the payload is completely there");
		__CPROVER_assert(IMP(r != -1, r == (int)rlen && tag == rtag), "evtag_unmarshal_header returns the payload length and the tag");
		__CPROVER_assert(IMP(r != -1, vf_drained[0] == (size_t)hl && vf_len[0] == rem), "evtag_unmarshal_header consumes exactly the header");
		__CPROVER_assert(vf_drained[0] + vf_len[0] == IN.n && IMP(hl >= 0, vf_drained[0] <= (size_t)hl), "evtag_unmarshal_header never consumes beyond the header");
	} else if (IN.which == 1) {
		ev_uint32_t l = 0xdeadbeefu;
		r = evtag_peek_length(&EVB[0], &l);
		__CPROVER_assert(IFF(r == 0, hl >= 0) && (r == 0 || r == -1), "evtag_peek_length succeeds iff the header is well-formed");
		__CPROVER_assert(IMP(r == 0, l == (ev_uint32_t)(rlen + (ev_uint32_t)hl)), "evtag_peek_length: total item length = header + payload length");
		__CPROVER_assert(vf_drained[0] == 0 && vf_len[0] == IN.n, "evtag_peek_length consumes nothing");
	} else if (IN.which == 2) {
		ev_uint32_t l = 0xdeadbeefu;
		r = evtag_payload_length(&EVB[0], &l);
		__CPROVER_assert(IFF(r == 0, hl >= 0) && (r == 0 || r == -1), "evtag_payload_length succeeds iff the header is well-formed");
		__CPROVER_assert(IMP(r == 0, l == rlen), "evtag_payload_length: the Length field");
		__CPROVER_assert(vf_drained[0] == 0 && vf_len[0] == IN.n, "evtag_payload_length consumes nothing");
	} else {
		r = evtag_consume(&EVB[0]);
		__CPROVER_assert(IFF(r == 0, hl >= 0 && rem >= rlen) && (r == 0 || r == -1), "evtag_consume succeeds iff one complete item is there");
		__CPROVER_assert(IMP(r == 0, vf_drained[0] == (size_t)hl + rlen && vf_len[0] == rem - rlen), "evtag_consume consumes exactly one item: header + payload");
		__CPROVER_assert(vf_drained[0] + vf_len[0] == IN.n, "evtag_consume: drained + remaining == total");
	}
#ifdef VF_CANARY
	__CPROVER_assert(!(IN.which == 3 && r == 0 && vf_drained[0] == 12), "canary: must fail (a 12-byte item is consumable)");
#endif
}
