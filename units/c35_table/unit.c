/* C35 — the compression table of the real evdns.c: dnslabel_table_init, dnslabel_table_add, dnslabel_table_get_pos,
 * dnslabel_clear, as a sequence: a table with n0 <= 2 earlier entries (strings of <= 2 characters, every content, every
 * position), then ONE add of a new label (<= 2 characters), then a lookup of an arbitrary label, then clear.
 * Checked against the abstraction dnsname_to_labels is verified with in c35_labels_tbl: add appends (copy of the
 * label, pos) — or, when the table is full (128) or strdup fails, returns -1 and changes nothing; get_pos answers the
 * position of the FIRST entry whose string equals the label, else -1; clear frees exactly the strings the table owns
 * and empties it.  Also the fullness rule at n_labels == MAX_LABELS (n0 may be 128). */
#define SCAP 2
#define VF_C33_MEMCAP 4
#include "vf.h"
#include "stubs/c33_mem.h"
#include "evdns.c"
struct in { int n0; char s[2][SCAP]; unsigned slen[2]; long pos[2]; char lab[SCAP]; unsigned lablen; long labpos; char q[SCAP]; unsigned qlen; int full; unsigned ch[VF_NCHOICE]; };
struct in IN;
#include "stubs/log.h"
#include "mm-internal.h"
/* allocator of this unit: strings are rows of one static object, so free only counts (ghost ownership) */
long g_mm_live, g_mm_allocs, g_mm_frees;
#define VF_MM_RESET() do { g_mm_live = 0; g_mm_allocs = 0; g_mm_frees = 0; } while (0)
#define VF_MM_FAIL_() (VF_CHOOSE() & 1u)
static char STR[4][2 + 1];
void event_mm_free_(void *p) { if (p) { __CPROVER_assert((char *)p >= &STR[0][0] && (char *)p <= &STR[3][0], "free: a string of the table"); g_mm_live--; g_mm_frees++; } }
/* strings live in one object; mm_strdup copies into the next free row (constant size), may fail */
static int g_sd_n;
char *event_mm_strdup_(const char *str)
{
	int i; char *p;
	if (VF_MM_FAIL_()) return NULL;
	__CPROVER_assert(g_sd_n < 1, "one strdup per add");
	p = STR[2 + g_sd_n++];
	for (i = 0; i <= SCAP; i++) { p[i] = str[i]; if (!str[i]) break; }
	__CPROVER_assert(i <= SCAP, "strdup: string fits");
	g_mm_live++; g_mm_allocs++;
	return p;
}
int strcmp(const char *a, const char *b)
{
	int i;
	for (i = 0; i <= SCAP; i++) { if (a[i] != b[i]) return (unsigned char)a[i] < (unsigned char)b[i] ? -1 : 1; if (!a[i]) return 0; }
	__CPROVER_assert(0, "strcmp: strings of this unit are at most SCAP long");
	return 0;
}
static int xeq(const char *a, const char *b) { int i; for (i = 0; i <= SCAP; i++) { if (a[i] != b[i]) return 0; if (!a[i]) return 1; } return 0; }
static struct dnslabel_table TBL; static char LAB[SCAP + 1], QRY[SCAP + 1];

void harness(void)
{
	int i, k, r, n0, g, expect; long live0;
	VF_LOAD_IN(); VF_MM_RESET(); g_sd_n = 0;
	dnslabel_table_init(&TBL);
	__CPROVER_assert(TBL.n_labels == 0, "init: empty table");
	__CPROVER_assume(IN.n0 >= 0 && IN.n0 <= 2);
	for (k = 0; k < 2; k++) {
		__CPROVER_assume(IN.slen[k] <= SCAP);
		for (i = 0; i < SCAP; i++) { __CPROVER_assume(i >= (int)IN.slen[k] || IN.s[k][i] != 0); STR[k][i] = i < (int)IN.slen[k] ? IN.s[k][i] : 0; }
		STR[k][SCAP] = 0;
	}
	__CPROVER_assume(IN.lablen <= SCAP && IN.qlen <= SCAP);
	for (i = 0; i < SCAP; i++) { __CPROVER_assume(i >= (int)IN.lablen || IN.lab[i] != 0); LAB[i] = i < (int)IN.lablen ? IN.lab[i] : 0; __CPROVER_assume(i >= (int)IN.qlen || IN.q[i] != 0); QRY[i] = i < (int)IN.qlen ? IN.q[i] : 0; }
	LAB[SCAP] = 0; QRY[SCAP] = 0;
	/* the table as n0 (or, full: 128) earlier adds left it; entries beyond the first two of a full table are not read before a hit … a full table is only used for the add */
	n0 = IN.full ? MAX_LABELS : IN.n0;
	for (k = 0; k < 2; k++) { TBL.labels[k].v = STR[k]; TBL.labels[k].pos = IN.pos[k]; }
	TBL.n_labels = n0;
	live0 = g_mm_live;

	r = dnslabel_table_add(&TBL, LAB, IN.labpos);

	__CPROVER_assert(r == 0 || r == -1, "add returns 0 or -1");
	if (n0 == MAX_LABELS) __CPROVER_assert(r == -1 && TBL.n_labels == MAX_LABELS && g_mm_allocs == 0, "a full table (128 entries) refuses the label and stays unchanged");
	else if (g_mm_allocs == 0) __CPROVER_assert(r == -1 && TBL.n_labels == n0, "strdup failure: -1, table unchanged");
	else {
		__CPROVER_assert(r == 0 && TBL.n_labels == n0 + 1, "add appends one entry");
		__CPROVER_assert(TBL.labels[n0].pos == IN.labpos && TBL.labels[n0].v != LAB && xeq(TBL.labels[n0].v, LAB), "the new entry is (a copy of the label, pos)");
	}
	for (k = 0; k < 2; k++) __CPROVER_assert(k >= n0 || n0 == MAX_LABELS || (TBL.labels[k].v == STR[k] && TBL.labels[k].pos == IN.pos[k]), "earlier entries unchanged");
	if (n0 != MAX_LABELS) {
		g = dnslabel_table_get_pos(&TBL, QRY);
		expect = -1;
		for (k = 2; k >= 0; k--) { if (k < TBL.n_labels && xeq(TBL.labels[k].v, QRY)) expect = (int)TBL.labels[k].pos; }
		__CPROVER_assert(g == expect, "get_pos: position of the first entry whose string equals the label, else -1");
		/* clear: frees what add allocated (the harness' own two strings are counted as allocations here) */
		g_mm_live += n0;                       /* the earlier entries' strings were strdup'ed by earlier adds */
		dnslabel_clear(&TBL);
		__CPROVER_assert(TBL.n_labels == 0 && g_mm_live == live0, "clear frees every string of the table exactly once and empties it");
	}
#ifdef VF_CANARY
	__CPROVER_assert(!(r == 0 && n0 == 2), "canary: must fail (a third label is added)");
#endif
}
