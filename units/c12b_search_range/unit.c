/* C12/C14/C08 — evbuffer_search_range (real buffer.c, evbuffer_ptr_memcmp inlined; evbuffer_search is this
 * function with end == NULL), CONTENT unit: every shape of <= 3 chains x <= VF_EB_MAXSZ bytes, every byte
 * value, needle of 0..3 bytes, optional start and end positions.  Byte-string model: the result is the
 * canonical pointer of the FIRST position p >= start at which the needle occurs entirely inside the buffer
 * (and entirely before `end`), or "not found"; the empty needle is found at the start position. */
#define VF_NLOCKS 1
#include "vf.h"
#include "buffer.c"
struct eb_in;
#include "stubs/lock.h"
#include "evbuffer_shape.h"
#include "c12b_content_in.h"
#define WCAP 3
struct in { struct eb_in b; struct ct_in d; unsigned char what[WCAP]; size_t len; unsigned use_start, use_end; size_t s, e; unsigned ch[VF_NCHOICE]; };
struct in IN;
#include "stubs/log.h"
#include "stubs/mm.h"
#include "c12b_content.h"

static char W[WCAP];
static struct evbuffer_ptr START, END;

/* plain assert-harness (no --dfcc): the search loop needs ~17 unwindings, which DFCC instrumentation does not survive (OOM at 6 GB).
 * The frame condition is therefore checked against snapshots of the buffer and of every chain. */
static struct evbuffer O_buf; static struct evbuffer_chain O_ch[VF_EB_MAXCH]; static unsigned char O_d[VF_EB_MAXCH][VF_CT_CAP];
static void snapshot(void) { unsigned i, j; O_buf = BUF; for (i = 0; i < VF_EB_MAXCH; i++) { O_ch[i] = CH[i]; for (j = 0; j < VF_CT_CAP; j++) O_d[i][j] = vf_chd(i)[j]; } }
static int ch_same(unsigned i) { return CH[i].next == O_ch[i].next && CH[i].buffer_len == O_ch[i].buffer_len && CH[i].misalign == O_ch[i].misalign && CH[i].off == O_ch[i].off && CH[i].flags == O_ch[i].flags && CH[i].refcnt == O_ch[i].refcnt && CH[i].buffer == O_ch[i].buffer; }
static int unchanged(void)
{
	unsigned i, j; int ok = 1;
	ok = ok && BUF.first == O_buf.first && BUF.last == O_buf.last && BUF.last_with_datap == O_buf.last_with_datap && BUF.total_len == O_buf.total_len && BUF.n_add_for_cb == O_buf.n_add_for_cb && BUF.n_del_for_cb == O_buf.n_del_for_cb
		&& BUF.freeze_start == O_buf.freeze_start && BUF.freeze_end == O_buf.freeze_end && BUF.refcnt == O_buf.refcnt && BUF.lock == O_buf.lock && BUF.callbacks.lh_first == O_buf.callbacks.lh_first;
	for (i = 0; i < VF_EB_MAXCH; i++) { ok = ok && ch_same(i); for (j = 0; j < VF_CT_CAP; j++) ok = ok && vf_chd(i)[j] == O_d[i][j]; }
	return ok;
}

/* reference: does the needle occur at position p of the byte string? */
static int occurs_at(size_t p, size_t len)
{
	size_t i;
	if (p > M_len || len > M_len - p) return 0;
	for (i = 0; i < WCAP; i++) { if (i >= len) break; if (M[p + i] != (unsigned char)W[i]) return 0; }
	return 1;
}

void harness(void)
{
	struct evbuffer_ptr r; size_t s, limit, p; int found = 0; size_t first = 0; unsigned i;
	VF_LOAD_IN();
	vf_ct_build(&IN.b, &IN.d);
	vf_ct_model(&IN.b);
	VF_INSTALL_LOCKS(); VF_MM_RESET();
	for (i = 0; i < WCAP; i++) W[i] = (char)IN.what[i];
	__CPROVER_assume(IN.len <= WCAP);
	s = 0; limit = M_len;
	if (IN.use_start & 1) { __CPROVER_assume(IN.s <= M_len); s = IN.s; vf_ptr_model(&IN.b, IN.s, &START); }
	if (IN.use_end & 1) { __CPROVER_assume(IN.e <= M_len && IN.e >= s); limit = IN.e; vf_ptr_model(&IN.b, IN.e, &END); }
	/* model: first occurrence in [s, limit - len] */
	for (p = 0; p <= VF_CT_MLEN; p++) {
		if (!found && p >= s && IN.len <= limit && p <= limit - IN.len && occurs_at(p, IN.len)) { found = 1; first = p; }
	}
	snapshot();
	r = evbuffer_search_range(&BUF, W, IN.len, (IN.use_start & 1) ? &START : NULL, (IN.use_end & 1) ? &END : NULL);
	__CPROVER_assert(g_lock_depth[1] == 0, "C08: buffer lock released");
	__CPROVER_assert(unchanged(), "C14: searching changes neither the buffer nor any chain nor any data byte");
	if (IN.use_start & 1) __CPROVER_assert(vf_ptr_is(&IN.b, &START, IN.s), "search: the start argument is not modified");
	if (IN.use_end & 1) __CPROVER_assert(vf_ptr_is(&IN.b, &END, IN.e), "search: the end argument is not modified");
	if (IN.len == 0) {
		/* nothing to look for: the start position is handed back */
		/* nothing to look for: the start position is handed back as given (without a start argument: offset 0 of the first
		 * chain, which is position 0 even when that chain is empty — not the canonical form, but every reader accepts it) */
		__CPROVER_assert(r.pos == (ev_ssize_t)s, "search for the empty string: found at the start position");
		if (IN.use_start & 1) __CPROVER_assert(vf_ptr_is(&IN.b, &r, s), "search for the empty string: the start pointer itself");
		else __CPROVER_assert(r.internal_.chain == BUF.first && r.internal_.pos_in_chain == 0, "search for the empty string without start: offset 0 of the first chain");
	} else if (found) {
		__CPROVER_assert(r.pos == (ev_ssize_t)first, "C12: search returns the first position at which the needle occurs");
		__CPROVER_assert(vf_ptr_is(&IN.b, &r, first), "C12: the returned pointer is the canonical pointer of that position");
	} else {
		__CPROVER_assert(VF_PTR_IS_NOT_FOUND(&r), "C12: no occurrence in range => not found (pos -1)");
	}
#ifdef VF_CANARY
	__CPROVER_assert(r.pos != 5, "canary: must fail (a match at position 5, across a chain boundary, exists)");
#endif
}
