/* C15/C10/C08 — evbuffer_file_segment_free (real buffer.c): one reference is dropped; at the last one the mapping is
 * unmapped / the in-memory copy freed exactly once, the fd closed iff EVBUF_FS_CLOSE_ON_FREE, the cleanup callback run exactly
 * once with (segment, flags, argument), the lock freed, the segment object released exactly once.
 * munmap / close / sysconf are models (stubs/c15_sys.h), the cleanup callback is a logging stub. */
#define VF_NLOCKS 3
#define VF_NCHOICE 8
#include "vf.h"
#include "stubs/c15_sys_redirect.h"
#include "buffer.c"
#include "stubs/lock.h"
struct c15_bin;
#include "c15_shape.h"
struct in { int refcnt; unsigned flags, has_cb, has_lock, kind; int fd; long length, file_offset; unsigned ch[VF_NCHOICE]; };
struct in IN;
#include "stubs/log.h"
#include "stubs/c15_mm.h"
#include "stubs/c15_sys.h"
#include "c15_contracts.h"

void harness(void)
{
	VF_LOAD_IN();
	VF_INSTALL_LOCKS(); C15_RESET(); C15_SYS_RESET();
	__CPROVER_assume(IN.refcnt >= 1 && IN.refcnt <= 1000);
	/* evbuffer_file_segment_new admits 0 <= offset, 0 <= length, offset + length <= EVBUFFER_CHAIN_MAX */
	__CPROVER_assume(IN.length >= 0 && IN.file_offset >= 0 && (ev_uint64_t)IN.length <= EVBUFFER_CHAIN_MAX && (ev_uint64_t)IN.file_offset <= EVBUFFER_CHAIN_MAX - (ev_uint64_t)IN.length);
	SEG.refcnt = IN.refcnt; SEG.flags = IN.flags & 0xf; SEG.fd = IN.fd; SEG.length = IN.length; SEG.file_offset = IN.file_offset; SEG.mmap_offset = 0;
	SEG.lock = (IN.has_lock & 1) ? VF_LOCK_COOKIE(3) : NULL;
	SEG.cleanup_cb = (IN.has_cb & 1) ? c15_seg_cleanup_cb : NULL; SEG.cleanup_cb_arg = &COOKIE[7];
	/* kind 0: sendfile-only segment (nothing materialised), 1: mmap, 2: read into memory */
	__CPROVER_assume(IN.kind <= 2);
	SEG.can_sendfile = (IN.kind == 0);
	SEG.is_mapping = (IN.kind == 1); SEG.mapping = (IN.kind == 1) ? (void *)SEGDATA : NULL;
	SEG.contents = (IN.kind == 1) ? (char *)SEGDATA + (IN.file_offset % C15_PAGESIZE) : (IN.kind == 2) ? (char *)SEGDATA : NULL;
	if (IN.kind == 2) m_segdata_live = 1;
	C15_SNAPSHOT();
	VF_CALL_V(seg_free_c, evbuffer_file_segment_free, &SEG);
	/* C15: "a segment's cleanup callback runs exactly once", after the last reference goes */
	__CPROVER_assert(m_sc.n == ((IN.refcnt == 1 && (IN.has_cb & 1)) ? 1 : 0) && m_sc.bad == 0, "segment cleanup callback: exactly once, at the last reference, with (segment, flags, argument)");
	__CPROVER_assert(IFF(IN.refcnt == 1, (m_al.sfreed & (1u << 11)) != 0), "segment object released iff last reference");
	__CPROVER_assert(m_sys.close == ((IN.refcnt == 1 && (IN.flags & EVBUF_FS_CLOSE_ON_FREE) && IN.fd >= 0) ? 1 : 0) && IMP(m_sys.close == 1, m_sys.last_closed_fd == IN.fd), "fd closed exactly once iff last reference and EVBUF_FS_CLOSE_ON_FREE, and it is the segment's fd");
	__CPROVER_assert(m_sys.munmap == ((IN.refcnt == 1 && IN.kind == 1) ? 1 : 0) && m_sys.bad == 0, "mapping unmapped exactly once, with the address and length it was mapped with");
	__CPROVER_assert(IFF(IN.refcnt == 1 && IN.kind == 2, (m_al.sfreed & (1u << 12)) != 0), "in-memory contents freed exactly once iff last reference");
	__CPROVER_assert(m_lk.bad_free == 0 && m_lk.frees == ((IN.refcnt == 1 && (IN.has_lock & 1)) ? 1 : 0) && g_lock_depth[3] == 0, "segment lock: released, then freed exactly once at the last reference");
	__CPROVER_assert(m_al.n == 0 && m_al.heap_frees == 0, "nothing allocated");
#ifdef VF_CANARY
	__CPROVER_assert(m_sc.n == 0, "canary: must fail (the last free runs the cleanup callback)");
#endif
}
