/* C02/C01 — event_queue_remove_timeout (real event.c): clears TIMEOUT, event_count delta, and
 * removes the event from where its deadline says it is: the common queue of its index (TAILQ
 * unlink on a <= 2-neighbour neighbourhood) or the heap (min_heap_erase_, replaced by its C01
 * caller-view contract).  Loop-free. */
#define VF_NLOCKS 1
#include "vf.h"
#include "event.c"
#include "stubs/lock.h"
#include "stubs/log.h"
#define C02_NO_AQ
#include "c02_event_shape.h"
struct in { struct c02_base_in b; struct c02_ev_in e; int qshape; int top_is_ev; };
struct in IN;
#include "c02_event_contracts.h"
#include "c01_timer_contracts.h"

void harness(void)
{
	VF_LOAD_IN(); VF_INSTALL_LOCKS();
	c02_build_base(&IN.b);
	c02_build_ev(&EV, &IN.e, 1);
	__CPROVER_assume(EV.ev_flags & EVLIST_TIMEOUT);
	__CPROVER_assume(BASE.event_count >= C02_NONINT(EV.ev_flags));
	__CPROVER_assume(C02_DEADLINE_OK(IN.e.to_sec, IN.e.to_usec));
	CTQ[(IN.e.to_usec & 0x0ff00000) >> 20] = &CTL;
	if (C02_IS_COMMON(&EV.ev_timeout, &BASE)) {
		/* TInv(i), queue half: EV is linked in the queue of its index */
		C02_LINK_IN(&CTL.events, &EV, ev_timeout_pos.ev_next_with_common_timeout, &NB[0], &NB[1], IN.qshape);
	} else {
		/* TInv(i), heap half: EV sits in the heap at its index; slot 0 holds EV iff that index is 0 */
		EV.ev_timeout_pos.min_heap_idx = IN.e.heap_idx;
		__CPROVER_assume(IN.e.heap_idx < BASE.timeheap.n);
		HP[0] = IN.e.heap_idx == 0 ? &EV : &HEV[0];
	}
	VF_CALL_V(q_remove_timeout_c, event_queue_remove_timeout, &BASE, &EV);
	if (C02_IS_COMMON(&EV.ev_timeout, &BASE)) {
		__CPROVER_assert(BASE.timeheap.n == IN.b.heap_n, "a common-timeout event is not looked for in the heap");
		if ((IN.qshape & 3) == 0) __CPROVER_assert(CTL.events.tqh_first == NULL && CTL.events.tqh_last == &CTL.events.tqh_first, "sole element removed: queue is the empty TAILQ");
		if ((IN.qshape & 3) == 3) __CPROVER_assert(C02_TLNK(&NB[0]).tqe_next == &NB[1] && C02_TLNK(&NB[1]).tqe_prev == &C02_TLNK(&NB[0]).tqe_next, "middle element removed: neighbours linked to each other");
		if ((IN.qshape & 3) == 2) __CPROVER_assert(CTL.events.tqh_first == &NB[1], "head removed: successor is the new head");
	}
#ifdef VF_CANARY
	__CPROVER_assert(BASE.timeheap.n == IN.b.heap_n, "canary: must fail (heap timers leave the heap)");
#endif
}
