/* C36 — evdns_request_data_build + evdns_request_len (real evdns.c), plain assert-harness, loop-free: UNBOUNDED in the
 * name length (every name_len <= 255, as request_new guarantees), the transaction id, type, class and the EDNS setting.
 * dnsname_to_labels is replaced by a stub body (stubs/c33_rename.h) that behaves as its no-table contract
 * (contracts/c36_labels_contract.h; unit c35_labels checks the real function against exactly these clauses): the
 * encoded SIZE is an oracle, the bytes are c35_labels' business.  The buffer has the size evdns_request_len computes
 * (plus an arbitrary surplus), as the function's header comment demands and as its only caller request_new does.
 * Writes past buf[buf_len-1]: the buffer is the front of a 400-byte object; an arbitrary WITNESS byte behind
 * buf[buf_len-1] (index IN.w, universally quantified by nondeterminism) is marked before the call and must be
 * unchanged after it; beyond the object any write is a pointer obligation.  (Right-aligning the buffer, as the other
 * units do, makes every index the sum of three symbolic terms and the SAT instance does not finish in 20 min.)
 * Proved: header (id, RD, QDCOUNT 1, ANCOUNT 0, NSCOUNT 0, ARCOUNT = EDNS ? 1 : 0), ONE encoding of (name, name_len)
 * at offset 12 without compression table, followed by type and class, the 11-byte OPT record exactly when EDNS is
 * configured, result = total length <= evdns_request_len; a name the encoder rejects makes the build fail with the
 * encoder's code; and the adequacy lemma: on a buffer of evdns_request_len bytes the encoder is never out of room
 * and no APPEND overflows — in particular the input of dnsname_to_labels' defect P1 (name ending exactly at
 * buf_len, DESIGN §10.2) cannot be produced by request_new. */
#define VF_C33_MEMCAP 4
#define VF_C33_MEM_NOSTATS 1
#include "vf.h"
#include "stubs/c33_mem.h"
#include "stubs/c33_rename.h"
#include <sys/types.h>
#include "event2/util.h"
struct dnslabel_table;
static off_t dnsname_to_labels_stub(ev_uint8_t *const buf, size_t buf_len, off_t j, const char *name, const size_t name_len, struct dnslabel_table *table);
#define dnsname_to_labels dnsname_to_labels_stub
#pragma push_macro("dnsname_to_labels")
#undef dnsname_to_labels
#define dnsname_to_labels dnsname_to_labels_real _Pragma("pop_macro(\"dnsname_to_labels\")")
#include "evdns.c"
struct in { unsigned name_len; u16 trans_id, type, class, max_udp; unsigned extra; unsigned lbl_sz; int lbl_err; unsigned w; };
struct in IN;
#include "stubs/log.h"
#include "c36_labels_contract.h"

#define RB_CAP 400            /* >= evdns_request_len(255) = 96+255+2+4+11 = 368, plus the surplus `extra` */
static u8 RBUF[RB_CAP];
static char NAME[256];
static struct evdns_base BASE;

/* the encoder as specified: -1 / -2 for a name it rejects (oracle), else an encoding of lbl_sz <= name_len + 2 bytes
 * at j, -2 exactly when that does not fit; the input of defect P1 is flagged */
static int g_p1_input;
static off_t dnsname_to_labels_stub(u8 *const buf, size_t buf_len, off_t j, const char *name, const size_t name_len, struct dnslabel_table *table)
{
	off_t ret;
	__CPROVER_assert(table == NULL, "labels contract requires: no compression table in a query");
	__CPROVER_assert(j >= 0 && (size_t)j <= buf_len && buf_len <= 1024 && __CPROVER_rw_ok(buf, buf_len), "labels contract requires: j inside the buffer");
	__CPROVER_assert(g_lbl_calls == 0, "one encoding per query");
	if (IN.lbl_err) ret = IN.lbl_err;
	else if (j + (off_t)IN.lbl_sz > (off_t)buf_len) ret = -2;
	else ret = j + (off_t)IN.lbl_sz;
	if (!IN.lbl_err && IN.lbl_sz >= 3 && j + (off_t)IN.lbl_sz - 1 == (off_t)buf_len) g_p1_input = 1;
	g_lbl_calls = 1; g_lbl_j = j; g_lbl_ret = ret; g_lbl_name = name; g_lbl_len = name_len; g_lbl_buflen = buf_len; g_lbl_buf = buf;
	/* the stub answers within the contract (clauses 2-4 of labels_nt_c) */
	__CPROVER_assert(C36_LBL_ENS2(ret, j, buf_len) && C36_LBL_ENS3(ret, j, name_len) && C36_LBL_ENS4(ret, j, name_len, buf_len), "stub stays within the labels contract");
	return ret;
}

#define B16(p, k) ((unsigned)((p)[k] << 8) | (p)[(k) + 1])
void harness(void)
{
	int r, edns; u8 *buf; size_t buf_len, reqlen;
	VF_LOAD_IN();
	g_lbl_calls = 0; g_p1_input = 0;
	__CPROVER_assume(IN.name_len <= 255);                  /* request_new: name_len >= sizeof(namebuf) is refused before the build */
	/* oracle within the contract: an encoded name takes 1 .. name_len + 2 bytes; -1 = label > 63; -2 without room problem only for name_len > 255 (excluded) */
	__CPROVER_assume(IN.lbl_sz >= 1 && IN.lbl_sz <= IN.name_len + 2 && (IN.lbl_err == 0 || IN.lbl_err == -1));
	BASE.global_max_udp_size = IN.max_udp; edns = IN.max_udp > 512;
	reqlen = evdns_request_len(&BASE, IN.name_len);
	__CPROVER_assert(reqlen >= 12 + IN.name_len + 2 + 4 + (edns ? 11u : 0u), "evdns_request_len covers header + longest encoding of the name + type/class (+ OPT)");
	__CPROVER_assume(reqlen < RB_CAP - 8 && IN.extra < RB_CAP - 8 - reqlen);   /* shape of the object standing for the buffer */
	buf_len = reqlen + IN.extra;                            /* request_new passes exactly evdns_request_len (extra == 0) */
	buf = RBUF;
	__CPROVER_assume(IN.w >= buf_len && IN.w < RB_CAP);
	RBUF[IN.w] = 0xa5;

	r = evdns_request_data_build(&BASE, NAME, IN.name_len, IN.trans_id, IN.type, IN.class, buf, buf_len);

	__CPROVER_assert(RBUF[IN.w] == 0xa5, "nothing written behind buf[buf_len-1]");
	__CPROVER_assert(g_lbl_calls == 1 && g_lbl_j == 12 && g_lbl_name == NAME && g_lbl_len == IN.name_len && g_lbl_buf == buf && g_lbl_buflen == buf_len, "exactly one encoding, of the requested name, right after the 12-byte header");
	__CPROVER_assert(g_lbl_ret != -2 && !g_p1_input, "adequacy of evdns_request_len: the encoder is never out of room, nor one byte short (defect P1 unreachable)");
	__CPROVER_assert(IFF(r < 0, g_lbl_ret < 0) && IMP(r < 0, r == g_lbl_ret), "a name the encoder rejects makes the build fail with its code; nothing else does");
	if (r >= 0) {
		__CPROVER_assert(B16(buf, 0) == IN.trans_id && B16(buf, 2) == 0x0100 && B16(buf, 4) == 1 && B16(buf, 6) == 0 && B16(buf, 8) == 0 && B16(buf, 10) == (edns ? 1u : 0u), "header: id, standard query with RD, one question, no answers, no authority, ARCOUNT = EDNS ? 1 : 0");
		__CPROVER_assert(B16(buf, g_lbl_ret) == IN.type && B16(buf, g_lbl_ret + 2) == IN.class, "question: the name's encoding is followed by type and class");
		if (!edns) __CPROVER_assert(r == g_lbl_ret + 4, "no EDNS: the message ends after the question");
		else __CPROVER_assert(r == g_lbl_ret + 15 && buf[g_lbl_ret + 4] == 0 && B16(buf, g_lbl_ret + 5) == 41 && B16(buf, g_lbl_ret + 7) == IN.max_udp && B16(buf, g_lbl_ret + 9) == 0 && B16(buf, g_lbl_ret + 11) == 0 && B16(buf, g_lbl_ret + 13) == 0, "EDNS: root name, OPT, payload size, zero extended flags, zero RDLEN (11 bytes)");
		__CPROVER_assert((size_t)r <= reqlen && r >= 17, "the message fits what evdns_request_len promised");
	}
#ifdef VF_CANARY
	__CPROVER_assert(r != 40, "canary: must fail (some request is 40 bytes long)");
#endif
}
