/* C02/C01/C09 — event_del_nolock_ (real event.c, loop-free) with the four remove helpers
 * (c02_q_*) and evmap_io_del_/evmap_signal_del_ (ext) replaced by contracts; evthread_notify_base,
 * event_haveevents, min_heap_top_ run as real code.
 * Postconditions = transition table: no base: -1; FINALIZING (unless EVEN_IF_FINALIZING): 0 and
 * nothing changes; otherwise all four queue flags cleared, each registration removed exactly where
 * it was, backend told iff INSERTED, counters drop by exactly the flags cleared, loop thread
 * notified iff the earliest timer went away / the backend asked / nothing is left to wait for,
 * and a foreign thread waits on current_event_cond exactly under the documented blocking rule. */
#define VF_NLOCKS 1
#include "vf.h"
#include "event.c"
#include "stubs/lock.h"
#include "stubs/log.h"
#include "c02_event_shape.h"
struct in { struct c02_base_in b; struct c02_ev_in e; struct c02_q_in q; int blocking; int nobase; int evmap_ret; };
struct in IN;
#include "c02_event_contracts.h"
#include "c01_timer_contracts.h"

int g_io_dels, g_sig_dels, g_map_ret;
VF_CONTRACT(int, evmap_io_del_c, struct event_base *base, evutil_socket_t fd, struct event *ev)
__CPROVER_requires(base == &BASE && ev == &EV && fd == EV.ev_fd)
__CPROVER_requires(BASE.th_base_lock == NULL || g_lock_depth[1] >= 1)
__CPROVER_assigns(g_io_dels, EV.ev_io_next)
__CPROVER_ensures(g_io_dels == __CPROVER_old(g_io_dels) + 1 && __CPROVER_return_value == g_map_ret)
;
VF_CONTRACT(int, evmap_signal_del_c, struct event_base *base, int sig, struct event *ev)
__CPROVER_requires(base == &BASE && ev == &EV && sig == (int)EV.ev_fd)
__CPROVER_requires(BASE.th_base_lock == NULL || g_lock_depth[1] >= 1)
__CPROVER_assigns(g_sig_dels, EV.ev_signal_next)
__CPROVER_ensures(g_sig_dels == __CPROVER_old(g_sig_dels) + 1 && __CPROVER_return_value == g_map_ret)
;

#define F0 ((int)IN.e.flags)
#define EVS ((int)IN.e.events)
#define IOBITS (EV_READ|EV_WRITE|EV_CLOSED)
#define NOBASE (IN.nobase != 0)
#define SKIP (NOBASE || ((F0 & EVLIST_FINALIZING) && IN.blocking != EVENT_DEL_EVEN_IF_FINALIZING))
#define WAS(fl) ((!SKIP && (F0 & (fl))) ? 1 : 0)
#define WAS_ACT ((!SKIP && (F0 & (EVLIST_ACTIVE|EVLIST_ACTIVE_LATER))) ? 1 : 0)
#define MAP_FAILED (WAS(EVLIST_INSERTED) && IN.evmap_ret == -1)
#define NEED_NOTIFY0 ((IN.b.threads & 1) && (IN.b.running_loop & 1) && IN.b.owner != IN.b.self)
#define IN_THREAD0 (!(IN.b.threads & 1) || IN.b.owner == IN.b.self)
#define WAS_TOP (WAS(EVLIST_TIMEOUT) && IN.b.heap_n > 0 && O_top == &EV)
#define NOTHING_LEFT (!(BASE.virtual_event_count > 0 || BASE.event_count > 0) && !BASE.event_count_active)
#define NOTIFY_DUE (!SKIP && !MAP_FAILED && (WAS_TOP || (WAS(EVLIST_INSERTED) && (IN.evmap_ret == 1 || NOTHING_LEFT))) && NEED_NOTIFY0)
#define WAITS (!SKIP && IN.blocking != EVENT_DEL_NOBLOCK && IN.b.cur == 1 && !IN_THREAD0 && (IN.blocking == EVENT_DEL_BLOCK || !(EVS & EV_FINALIZE)))
static struct event *O_top;

VF_CONTRACT(int, del_c, struct event *ev, int blocking)
__CPROVER_requires(ev == &EV && blocking == IN.blocking)
__CPROVER_requires(BASE.th_base_lock == NULL || g_lock_depth[1] == 1)                    /* "always called with th_base_lock held" */
__CPROVER_requires(g_io_dels == 0 && g_sig_dels == 0 && g_notify_calls == 0 && g_cond_waits == 0)
__CPROVER_assigns(EV.ev_evcallback.evcb_flags, EV.ev_timeout_pos, EV.ev_, PNCALLS,
	BASE.event_count, BASE.event_count_active, BASE.timeheap.n, HP[0], BASE.current_event_waiters, BASE.is_notify_pending,
	AQ[IN.e.pri], BASE.active_later_queue, NB[0].ev_evcallback.evcb_active_next, NB[1].ev_evcallback.evcb_active_next, FAR_EV.ev_evcallback.evcb_active_next,
	CTL.events, NB[0].ev_timeout_pos, NB[1].ev_timeout_pos, FAR_EV.ev_timeout_pos,
	g_io_dels, g_sig_dels, g_notify_calls, g_cond_waits)
/* 1 return value */
__CPROVER_ensures(__CPROVER_return_value == ((NOBASE || MAP_FAILED) ? -1 : 0))
/* 2 an event without a base / a finalizing event is left completely alone */
__CPROVER_ensures(IMP(SKIP, EV.ev_flags == F0 && BASE.event_count == IN.b.event_count && BASE.event_count_active == IN.b.event_count_active &&
	BASE.timeheap.n == IN.b.heap_n && g_io_dels == 0 && g_sig_dels == 0 && g_notify_calls == 0 && g_cond_waits == 0 &&
	BASE.current_event_waiters == 0 && BASE.is_notify_pending == (IN.b.is_notify_pending & 1) && PNCALLS == C02_PN_UNTOUCHED))
/* 3 C02: afterwards the event is neither pending nor active; no other flag moves */
__CPROVER_ensures(IMP(!SKIP, EV.ev_flags == (F0 & ~(EVLIST_TIMEOUT|EVLIST_INSERTED|EVLIST_ACTIVE|EVLIST_ACTIVE_LATER))))
/* 4 C02: counters drop by exactly the flags that were set (internal events are not in event_count) */
__CPROVER_ensures(BASE.event_count == IN.b.event_count - C02_NONINT(F0) * (WAS(EVLIST_TIMEOUT) + WAS(EVLIST_INSERTED) + WAS_ACT))
__CPROVER_ensures(BASE.event_count_active == IN.b.event_count_active - WAS_ACT)
/* 6 C02/C05: the backend map is told exactly once iff the event was INSERTED, by the right entry point */
__CPROVER_ensures(g_io_dels == ((WAS(EVLIST_INSERTED) && (EVS & IOBITS)) ? 1 : 0) && g_sig_dels == ((WAS(EVLIST_INSERTED) && !(EVS & IOBITS)) ? 1 : 0))
/* 7 C01: a heap timer leaves the heap (the firing is cancelled); common-queue timers leave the heap alone */
__CPROVER_ensures(BASE.timeheap.n == IN.b.heap_n - ((WAS(EVLIST_TIMEOUT) && !O_old_common) ? 1 : 0))
__CPROVER_ensures(IMP(WAS(EVLIST_TIMEOUT) && !O_old_common, C01_IDX(&EV) == C01_NOIDX && IMP(BASE.timeheap.n > 0, BASE.timeheap.p[0] != &EV)))
/* 9 C07: a signal event in the middle of its ncalls loop has the loop aborted */
__CPROVER_ensures(PNCALLS == ((!SKIP && (EVS & EV_SIGNAL) && IN.e.ncalls && IN.e.has_pncalls) ? 0 : C02_PN_UNTOUCHED))
/* 10 C09: the loop thread is woken exactly when it is owed a wake-up */
__CPROVER_ensures(IMP(NOTIFY_DUE, BASE.th_notify_fn == NULL || BASE.is_notify_pending == 1))
__CPROVER_ensures(g_notify_calls == ((NOTIFY_DUE && (IN.b.has_notify_fn & 1) && !(IN.b.is_notify_pending & 1)) ? 1 : 0))
__CPROVER_ensures(IMP(!NOTIFY_DUE, BASE.is_notify_pending == (IN.b.is_notify_pending & 1)))
/* 13 C09: blocking rule — wait for the running callback iff another thread runs it, unless NOBLOCK, or AUTOBLOCK on an EV_FINALIZE event */
__CPROVER_ensures(BASE.current_event_waiters == (WAITS ? 1 : 0) && g_cond_waits == ((WAITS && (IN.b.has_cond & 1)) ? 1 : 0))
/* 14 C08 */
__CPROVER_ensures(g_lock_depth[1] == __CPROVER_old(g_lock_depth[1]))
;

void harness(void)
{
	int r;
	VF_LOAD_IN(); VF_INSTALL_LOCKS();
	c02_build_base(&IN.b);
	c02_build_ev(&EV, &IN.e, 1);
	if (BASE.th_base_lock) g_lock_depth[1] = 1;
	g_io_dels = 0; g_sig_dels = 0;
	__CPROVER_assume(IN.evmap_ret >= -1 && IN.evmap_ret <= 1);
	g_map_ret = IN.evmap_ret;
	__CPROVER_assume(IN.blocking >= EVENT_DEL_NOBLOCK && IN.blocking <= EVENT_DEL_EVEN_IF_FINALIZING);
	C02_ASSUME_ASSIGNED(&IN.e);
	C02_ASSUME_COUNTED(F0);
	c02_link_ev(&IN.e, &IN.q);
	if (IN.nobase) EV.ev_base = NULL;
	O_top = HP[0];
	r = VF_CALL(del_c, event_del_nolock_, &EV, IN.blocking);
	(void)r;
	/* the queues after the unlink, for the two extreme shapes */
	if (!SKIP && (F0 & EVLIST_ACTIVE) && (IN.q.ashape & 3) == 0) __CPROVER_assert(AQ[IN.e.pri].tqh_first == NULL && AQ[IN.e.pri].tqh_last == &AQ[IN.e.pri].tqh_first, "sole active callback deleted: its queue is empty");
	if (!SKIP && (F0 & EVLIST_ACTIVE_LATER) && (IN.q.ashape & 3) == 3) __CPROVER_assert(NB[0].ev_evcallback.evcb_active_next.tqe_next == &NB[1].ev_evcallback, "later-queue: neighbours linked to each other");
	if (!SKIP && (F0 & EVLIST_TIMEOUT) && O_old_common && (IN.q.tshape & 3) == 2) __CPROVER_assert(CTL.events.tqh_first == &NB[1], "head of a common queue deleted: successor is the new head");
#ifdef VF_CANARY
	__CPROVER_assert(BASE.event_count == IN.b.event_count, "canary: must fail (deleting a pending user event lowers event_count)");
#endif
}
