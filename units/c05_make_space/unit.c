/* C05 — evmap_make_space (real evmap.c): growth of the fd/signal table.  The doubling loop is
 * closed by a loop contract; the allocator and the zeroing memset are the models of
 * c05_evmap_shape.h (the memset model asserts that exactly the slots beyond the old table are
 * zeroed, and zeroes slot IN.fd). */
#include "vf.h"
#include "evmap.c"
struct in {
	int fd;                               /* the slot that must fit */
	int nentries;
	int fdinfo4, debug_mode, slot_null, has_first; short ev_events, first_events; unsigned short nread, nwrite, nclose;   /* unused (shared header) */
	unsigned ch[VF_NCHOICE];
};
struct in IN;
#include "stubs/log.h"
#define VF_MM_NO_REALLOC
#include "stubs/mm.h"
#include "c05_evmap_shape.h"

#define START (IN.nentries ? IN.nentries : 32)
VF_CONTRACT(int, make_space_c, struct event_signal_map *map, int slot, int msize)
__CPROVER_requires(map == &BASE.io && slot == IN.fd && msize == (int)sizeof(void *))
__CPROVER_requires(g_mm_realloc_calls == 0)
__CPROVER_assigns(BASE.io.nentries, BASE.io.entries, g_mm_realloc_calls, g_mm_realloc_ok, g_mm_realloc_sz, errno, vf_nchoice_)
__CPROVER_assigns(IN.fd >= 0 && IN.fd < C05_NNEW: NEWTAB[IN.fd])
__CPROVER_ensures(__CPROVER_return_value == 0 || __CPROVER_return_value == -1)
/* 2 already big enough: nothing happens */
__CPROVER_ensures(IMP(slot < IN.nentries, __CPROVER_return_value == 0 && g_mm_realloc_calls == 0 && map->nentries == IN.nentries && map->entries == C05_OLDTAB))
/* 3 failure leaves the table as it was */
__CPROVER_ensures(IMP(__CPROVER_return_value == -1, map->nentries == IN.nentries && map->entries == C05_OLDTAB))
/* 4 success: the slot fits */
__CPROVER_ensures(IMP(__CPROVER_return_value == 0, slot < map->nentries && map->nentries >= IN.nentries))
/* 5 growth: one allocation of exactly nentries*msize bytes, the table is the allocator's block, slot is zeroed */
__CPROVER_ensures(IMP(__CPROVER_return_value == 0 && slot >= IN.nentries, g_mm_realloc_calls == 1 && g_mm_realloc_ok
	&& g_mm_realloc_sz == (size_t)map->nentries * sizeof(void *) && map->entries == (void **)NEWTAB && IMP(slot >= 0, NEWTAB[slot] == NULL)))
/* 6 the new size is the start size (old size, or 32 for an empty table) doubled the minimal number of times */
__CPROVER_ensures(IMP(__CPROVER_return_value == 0 && slot >= IN.nentries, map->nentries == START || (map->nentries / 2 <= slot && map->nentries % 2 == 0)))
/* 7 refusals that do not reach the allocator: slot > INT_MAX/2, or byte size beyond INT_MAX */
__CPROVER_ensures(IMP(slot >= IN.nentries && slot > INT_MAX / 2, __CPROVER_return_value == -1 && g_mm_realloc_calls == 0))
__CPROVER_ensures(IMP(g_mm_realloc_calls == 1, g_mm_realloc_sz <= (size_t)INT_MAX || !g_mm_realloc_ok))
__CPROVER_ensures(g_mm_realloc_calls <= 1)
;

void harness(void)
{
	int r;
	VF_LOAD_IN();
	__CPROVER_assume(IN.nentries >= 0 && IN.nentries <= C05_NOLD);
	BASE.io.nentries = IN.nentries; BASE.io.entries = C05_OLDTAB;
	g_mm_realloc_calls = 0; g_mm_realloc_ok = 0; g_mm_realloc_sz = 0;
	VF_MM_RESET();
	r = VF_CALL(make_space_c, evmap_make_space, &BASE.io, IN.fd, (int)sizeof(void *));
	(void)r;
#ifdef VF_CANARY
	__CPROVER_assert(BASE.io.nentries != 64, "canary: must fail (a table can grow to 64 slots)");
#endif
}
