/* C22/C08/C46 — bev_group_unsuspend_reading_ (real bufferevent_ratelim.c), <= 3 members; see contracts/c22_group_walk_unit.h */
#define C22_WALK 2
#include "c22_group_walk_unit.h"
