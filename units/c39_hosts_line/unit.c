/* C39 — evdns_base_parse_hosts_line (real evdns.c) on EVERY line of <= C39_LINECAP bytes (symbolic
 * content, NUL anywhere): memory safety (reads/writes inside the line buffer and inside the exactly
 * sized hosts_entry allocations), and the documented hosts syntax against a reference tokenizer:
 *   empty line / comment line             -> 0, nothing added
 *   ADDRESS name1 name2 ... [# comment]   -> one entry per name, in order, appended to base->hostsdb,
 *                                            each carrying the parsed address and the name's text;
 *                                            '#' ends the line (also in the middle of a name)
 *   address the parser rejects, or with a port -> -1, nothing added
 *   allocation failure                    -> -1, the entries added before it stay (they are complete)
 * The existing entries of the list are untouched.  Plain assert-harness (strtok loops unwound). */
#define VF_NLOCKS 1
#include "vf.h"
#include "evdns.c"
#ifndef C39_LINECAP
#define C39_LINECAP 12
#endif
struct in {
	char line[C39_LINECAP + 1];
	int psp_ok; int psp_v6; unsigned char psp_addr[16]; unsigned short psp_port; unsigned psp_scope;
	int have_old; unsigned w, j;      /* witness indices */
	unsigned ch[VF_NCHOICE];
};
struct in IN;
#include "stubs/log.h"
#include "stubs/lock.h"
#include "stubs/c39_libc_ref.h"
/* ---- allocator of this unit: every request is one hosts_entry plus the name's length; the heap is a pool of
 * separate TYPED static records (typed objects keep goto-symex field-sensitive), handed out in order, failure
 * drawn from the choice stream; the requested size is recorded and the memcpy model checks copies against it. */
#include "mm-internal.h"
#define C39_NHE 6
/* layout-compatible with struct hosts_entry, but the name array has its real extent (a byte store that runs from
 * hostname[1] into a separate trailing member would be a byte_update over the whole record) */
struct c39_he { TAILQ_ENTRY(hosts_entry) next; union { struct sockaddr sa; struct sockaddr_in sin; struct sockaddr_in6 sin6; } addr; int addrlen; char hostname[C39_LINECAP + 8]; };
static struct c39_he C39_H0, C39_H1, C39_H2, C39_H3, C39_H4, C39_H5; static const struct c39_he C39_HZERO;
static struct c39_he *c39_he(int k) { return k == 0 ? &C39_H0 : k == 1 ? &C39_H1 : k == 2 ? &C39_H2 : k == 3 ? &C39_H3 : k == 4 ? &C39_H4 : &C39_H5; }
long g_mm_live, g_mm_allocs, g_mm_frees; int g_mm_failed; int g_pool_used; size_t g_he_req[C39_NHE];
#define C39_MM_RESET() do { int k_; g_mm_live = g_mm_allocs = g_mm_frees = 0; g_mm_failed = 0; g_pool_used = 0; for (k_ = 0; k_ < C39_NHE; k_++) g_he_req[k_] = 0; } while (0)
void *event_mm_calloc_(size_t count, size_t size)
{
	int k = g_pool_used;
	__CPROVER_assert(offsetof(struct c39_he, hostname) == offsetof(struct hosts_entry, hostname) && offsetof(struct c39_he, addrlen) == offsetof(struct hosts_entry, addrlen) && offsetof(struct c39_he, addr) == offsetof(struct hosts_entry, addr), "allocator model: the pool record has the layout of struct hosts_entry");
	__CPROVER_assert(count == 1 && size >= sizeof(struct hosts_entry) && size <= sizeof(struct hosts_entry) + C39_LINECAP, "allocator model: one hosts_entry plus at most a line of name");
	if (VF_CHOOSE() & 1u) { g_mm_failed = 1; errno = ENOMEM; return NULL; }
	__CPROVER_assert(k < C39_NHE, "allocator model: the pool has a record for every name a line of this length can carry");
	__CPROVER_assume(k < C39_NHE);
	*c39_he(k) = C39_HZERO; g_he_req[k] = size; g_pool_used = k + 1;
	g_mm_live++; g_mm_allocs++;
	return c39_he(k);
}
/* requested bytes left from p to the end of its record; (size_t)-1 when p is not in the pool */
static size_t c39_room_of(const void *p)
{
	int k;
	for (k = 0; k < C39_NHE; k++)
		if (__CPROVER_same_object(p, c39_he(k)))
			return g_he_req[k] - (size_t)((const char *)p - (const char *)c39_he(k));
	return (size_t)-1;
}
#define VF_STUB_C39_MM_H_ 1        /* the memcpy model checks against c39_room_of */
void event_mm_free_(void *p) { (void)p; __CPROVER_assert(0, "allocator model: nothing is freed on this path"); }
void *event_mm_malloc_(size_t sz) { (void)sz; __CPROVER_assert(0, "allocator model: malloc is not used on this path"); return NULL; }
char *event_mm_strdup_(const char *s_) { (void)s_; __CPROVER_assert(0, "allocator model: strdup is not used on this path"); return NULL; }
#define C39_USE_PSP
#define C39_OWN_MEMCPY (C39_LINECAP + 1)
#define C39_OWN_MEMSET 128
#include "stubs/c39_evdns_env.h"
#include "c39_line_ref.h"

static struct evdns_base C39_BASE;
static struct hosts_entry C39_OLD;           /* an entry already in the list */
#define HOSTNAME_AT(e, j) (((char *)(e))[offsetof(struct hosts_entry, hostname) + (j)])

void harness(void)
{
	int r, i, k, j, nexp = 0, stop = 0;
	int exp_s[C39_MAXTOK + 1], exp_e[C39_MAXTOK + 1];
	struct hosts_entry *e;
	VF_LOAD_IN();
	VF_INSTALL_LOCKS(); C39_MM_RESET();
	for (i = 0; i < C39_LINECAP; i++) { C39_LINE[i] = IN.line[i]; O_LINE[i] = IN.line[i]; }
	C39_LINE[C39_LINECAP] = '\0'; O_LINE[C39_LINECAP] = '\0';
	evdns_log_fn = NULL; current_base = NULL;
	g_psp_calls = 0; g_psp_arg = NULL;
	C39_BASE.lock = VF_LOCK_COOKIE(1); g_lock_depth[1] = 1;
	TAILQ_INIT(&C39_BASE.hostsdb);
	if (IN.have_old) { C39_OLD.addrlen = 16; C39_OLD.hostname[0] = '\0'; TAILQ_INSERT_TAIL(&C39_BASE.hostsdb, &C39_OLD, next); }

	/* reference reading: fields; names are fields 1.. up to a '#' */
	c39_ref_tokenize();
	for (k = 1; k < C39_MAXTOK; k++) {
		int h;
		if (k >= O_ntok || stop) break;
		h = O_te[k];
		for (j = O_te[k] - 1; j >= O_ts[k]; j--) if (O_LINE[j] == '#') h = j;      /* first '#' of the field */
		if (h == O_ts[k]) break;                                                   /* comment starts here */
		exp_s[nexp] = O_ts[k]; exp_e[nexp] = h; nexp++;
		if (h != O_te[k]) stop = 1;                                                /* rest of the line is a comment */
	}

	r = evdns_base_parse_hosts_line(&C39_BASE, C39_LINE);

	__CPROVER_assert(r == 0 || r == -1, "returns 0 or -1");
	e = IN.have_old ? TAILQ_NEXT(&C39_OLD, next) : TAILQ_FIRST(&C39_BASE.hostsdb);
	if (IN.have_old) __CPROVER_assert(TAILQ_FIRST(&C39_BASE.hostsdb) == &C39_OLD && C39_OLD.addrlen == 16 && C39_OLD.hostname[0] == '\0', "the existing entry stays first and is untouched");
	if (O_ntok == 0 || O_LINE[O_ts[0]] == '#') {
		__CPROVER_assert(r == 0 && e == NULL && g_psp_calls == 0, "empty line or comment line: 0, nothing added, nothing parsed");
	} else {
		__CPROVER_assert(g_psp_calls == 1 && g_psp_arg == C39_LINE + O_ts[0] && C39_LINE[O_te[0]] == '\0', "the first field, NUL-terminated in place, goes to the address parser exactly once");
		if (!IN.psp_ok || IN.psp_port != 0) {
			__CPROVER_assert(r == -1 && e == NULL && g_mm_allocs == 0, "address rejected or carrying a port: -1, nothing added");
		} else {
			__CPROVER_assert(IFF(r == -1, g_mm_failed), "with a good address the only failure is an allocation failure");
			if (!g_mm_failed) __CPROVER_assert(g_mm_allocs == nexp, "one allocation per host name");
			/* ghost witness (UNIT_GUIDE pitfall 9): ONE entry index IN.w and ONE byte index IN.j, both symbolic,
			 * stand for "every entry, every byte" */
			for (k = 0; k < C39_MAXTOK; k++) {              /* walk to the IN.w-th new entry */
				if (k >= nexp || (unsigned)k >= IN.w) break;
				if (e == NULL) break;
				e = TAILQ_NEXT(e, next);
			}
			k = (IN.w < (unsigned)C39_MAXTOK) ? (int)IN.w : C39_MAXTOK;
			if (k < nexp) {
				if (e == NULL) __CPROVER_assert(g_mm_failed, "an expected entry is missing only after an allocation failure");
				else {
					__CPROVER_assert(e->addrlen == (int)(IN.psp_v6 ? sizeof(struct sockaddr_in6) : sizeof(struct sockaddr_in)), "entry: address length of the parsed address");
					__CPROVER_assert(e->addr.sa.sa_family == (IN.psp_v6 ? AF_INET6 : AF_INET), "entry: address family of the parsed address");
					if (IN.psp_v6) __CPROVER_assert(e->addr.sin6.sin6_addr.s6_addr[0] == IN.psp_addr[0] && e->addr.sin6.sin6_addr.s6_addr[15] == IN.psp_addr[15] && e->addr.sin6.sin6_port == 0, "entry: the IPv6 address");
					else __CPROVER_assert(((unsigned char *)&e->addr.sin.sin_addr)[0] == IN.psp_addr[0] && ((unsigned char *)&e->addr.sin.sin_addr)[3] == IN.psp_addr[3] && e->addr.sin.sin_port == 0, "entry: the IPv4 address");
					j = (IN.j <= (unsigned)C39_LINECAP) ? (int)IN.j : C39_LINECAP;
					if (exp_s[k] + j < exp_e[k])
						__CPROVER_assert(HOSTNAME_AT(e, j) == O_LINE[exp_s[k] + j], "entry: host name text is the field's text (up to a '#')");
					__CPROVER_assert(HOSTNAME_AT(e, exp_e[k] - exp_s[k]) == '\0', "entry: host name is NUL-terminated at the field's length");
					if (k == nexp - 1) __CPROVER_assert(TAILQ_NEXT(e, next) == NULL, "no entry beyond the host names of the line");
				}
			}
			if (nexp == 0) __CPROVER_assert(e == NULL, "no host name on the line: nothing added");
		}
	}
	for (i = 0; i <= C39_LINECAP; i++)
		__CPROVER_assert(C39_LINE[i] == O_LINE[i] || (C39_LINE[i] == '\0' && (C39_IS_DELIM(O_LINE[i]) || O_LINE[i] == '#')), "only delimiter and '#' bytes of the line are overwritten, and only by NUL");
	__CPROVER_assert(g_lock_depth[1] == 1 && g_lock_ops == 0, "C08: the base lock is neither taken nor released");
#ifdef VF_CANARY
	__CPROVER_assert(g_mm_allocs < 2, "canary: must fail (a line can carry two host names)");
#endif
}
