/* C30 — prefix_suffix_match (real http.c; recursive '*' glob used for virtual-host patterns) against a
 * reference matcher (dynamic-programming table, not a recursion), for a FIXED list of concrete patterns
 *     ""  "a"  "*a"  "*.a"  "a*b"  "*a*b"  "a.*.b"  "**a"      and, as the known-finding set,  "*"  "a*"  "a.*"  "*a*"
 * against EVERY name of <= VF_N characters over { a A b B . - }, both ignorecase values:
 *   G1 returns 1 exactly when the reference glob matcher accepts: '*' matches any (possibly empty) sequence of
 *      characters, every other pattern character matches itself (ASCII case-insensitively iff ignorecase)
 *   G2 returns only 0 or 1; the name is not read past its terminator (right-aligned in its object)
 * Patterns are concrete because the verifier cannot bound the recursion for a symbolic pattern (every
 * character could be '*': 25^depth instances); both plain unwinding and --enforce-contract-rec ran out of time.
 *
 * KNOWN-FINDING hook: P_TRAIL = "the pattern ends with '*'".  On the unchanged tree G1 FAILS for those: a
 * trailing '*' never matches ("*" does not match "a", "a.*" does not match "a.b"; agent report).
 * -DVF_KF_EXCLUDE checks only the first list (must be clean), -DVF_KF_ONLY only the second (must fail on G1). */
#ifndef VF_N
#define VF_N 4
#endif
#include "vf.h"
#include "http.c"
struct in { unsigned char s[VF_N]; unsigned sn; int ic; };
struct in IN;
#include "stubs/log.h"
#include "stubs/c28_ctype.h"

static const char AL[8] = { 'a', 'A', 'b', 'B', '.', '-', 'a', '.' };
static char Nm[VF_N + 1];
#define NPAT 12
#define NPAT_OK 8
static const char *const PATS[NPAT] = { "", "a", "*a", "*.a", "a*b", "*a*b", "a.*.b", "**a", "*", "a*", "a.*", "*a*" };
#define PL 6

static int r_eq(char x, char y, int ic)
{
	if (x == y) return 1;
	if (!ic) return 0;
	if (x >= 'A' && x <= 'Z') x = (char)(x - 'A' + 'a');
	if (y >= 'A' && y <= 'Z') y = (char)(y - 'A' + 'a');
	return x == y;
}
static unsigned char M[PL + 2][VF_N + 2];
/* M[i][j] = pattern[i..] matches name[j..] */
static int ref_glob(const char *p, const char *s, unsigned sn, int ic)
{
	unsigned i, j, pn;
	for (pn = 0; pn < PL; pn++) if (p[pn] == '\0') break;
	for (i = PL + 1; i-- > 0;) for (j = VF_N + 1; j-- > 0;) {
		unsigned char v;
		if (i > pn || j > sn) { M[i][j] = 0; continue; }
		if (i == pn) v = (j == sn);
		else if (p[i] == '*') v = M[i + 1][j] || (j < sn && M[i][j + 1]);     /* '*' takes nothing, or one more character */
		else v = (j < sn && r_eq(p[i], s[j], ic) && M[i + 1][j + 1]);
		M[i][j] = v;
	}
	return M[0][0];
}

void harness(void)
{
	int r, want; unsigned k, t; char *s;
	VF_LOAD_IN();
	__CPROVER_assume(IN.sn <= VF_N);
	IN.ic = IN.ic != 0;
	s = Nm + (VF_N - IN.sn);                       /* right-aligned: the terminator is the last byte of the object */
	for (k = 0; k < VF_N; k++) Nm[k] = 'y';
	for (k = 0; k < VF_N; k++) if (k < IN.sn) s[k] = AL[IN.s[k] & 7u];
	Nm[VF_N] = '\0';
	for (t = 0; t < NPAT; t++) {
#ifdef VF_KF_EXCLUDE
		if (t >= NPAT_OK) continue;
#endif
#ifdef VF_KF_ONLY
		if (t < NPAT_OK) continue;
#endif
		want = ref_glob(PATS[t], s, IN.sn, IN.ic);
		r = prefix_suffix_match(PATS[t], s, IN.ic);
		__CPROVER_assert(r == 0 || r == 1, "G2: returns 0 or 1");
		__CPROVER_assert(r == want, "G1: matches exactly when the reference glob matcher does");
#ifdef VF_CANARY
		__CPROVER_assert(!(r == 1 && t == 3 && IN.sn == 4), "canary: must fail (\"*.a\" matches \"ab.a\")");
#endif
	}
}
