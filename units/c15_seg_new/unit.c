/* C15/C14 — evbuffer_file_segment_new + evbuffer_file_segment_materialize (real buffer.c): the bookkeeping around the system
 * calls.  evutil_fd_filesize / mmap64 / pread / sysconf are models (stubs/c15_sys.h: any failure, any short read); the allocator
 * may fail at every allocation; the segment object is the unit's static SEG (allocator model), its in-memory contents SEGDATA. */
#define VF_NLOCKS 3
#define VF_NCHOICE 16
#define C15_MM_SEG_IS_STATIC
#define C15_MM_BIG_IS_SEGDATA
#define C15_MM_CONST_MAX 0          /* every event_mm_malloc_ in this unit is the contents buffer (symbolic size): served from SEGDATA */
#define C15_PREAD_MAXCALLS 3
#include "vf.h"
#include "stubs/c15_sys_redirect.h"
#include "buffer.c"
#include "stubs/lock.h"
struct c15_bin;
#include "c15_shape.h"
struct in { int fd; ev_off_t offset, length; unsigned flags; unsigned ch[VF_NCHOICE]; };
struct in IN;
#include "stubs/log.h"
#include "stubs/c15_mm.h"
#include "stubs/c15_sys.h"
#include "c15_contracts.h"
#include "c15_seg_contracts.h"

void harness(void)
{
	struct evbuffer_file_segment *seg;
	VF_LOAD_IN();
	VF_INSTALL_LOCKS(); C15_RESET(); C15_SYS_RESET();
	seg = VF_CALL(segnew_c, evbuffer_file_segment_new, IN.fd, IN.offset, IN.length, IN.flags);
	__CPROVER_assert(m_sys.close == 0 && m_sys.munmap == 0, "segment_new neither closes the fd nor unmaps anything");
	__CPROVER_assert(IMP(seg == NULL, m_sys.mmap == 0 || m_al.seglive == 0), "failure: no contents buffer left allocated");
	__CPROVER_assert(IMP(seg != NULL && SEG.is_mapping, m_mmap_off % C15_PAGESIZE == 0), "the mapping starts at a page boundary");
#ifdef VF_CANARY
	__CPROVER_assert(seg == NULL || SEG.is_mapping || SEG.can_sendfile, "canary: must fail (contents can be read into memory)");
#endif
}
