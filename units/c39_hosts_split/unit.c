/* C39 — evdns_base_load_hosts_impl (real evdns.c): the line splitting of a hosts-file image.
 * For EVERY image of <= C39_FILECAP bytes (symbolic content: newlines and NULs anywhere), file name given or
 * NULL, file readable or not:
 *   - every line (maximal run without '\n', up to the first NUL) is handed to evdns_base_parse_hosts_line
 *     exactly once, in file order, NUL-terminated IN PLACE at its newline; the last line needs no newline;
 *     only newline bytes of the image are modified (plus what the line parser cuts); the image is released once; 0
 *   - no name / unreadable: the two built-in lines "127.0.0.1   localhost" and "::1   localhost" are parsed
 *     instead, in this order; 0 when no name was given, -1 when the read failed
 * A malformed line (the line parser's -1) does not stop the remaining lines.
 * evdns_base_parse_hosts_line is a recording stub body ("replace_calls"); evutil_read_file_ hands out the image. */
#define VF_NLOCKS 1
#include "vf.h"
#include "evdns.c"
#ifndef C39_FILECAP
#define C39_FILECAP 8
#endif
#define C39_MAXLINES (C39_FILECAP + 1)
struct in { char file[C39_FILECAP + 1]; unsigned zap; unsigned fail_mask; int fname_null; int read_err; };
struct in IN;
#include "stubs/log.h"
#include "stubs/lock.h"
#include "stubs/c39_libc_ref.h"
#include "stubs/c39_evdns_env.h"
#include "mm-internal.h"

static struct evdns_base C39_BASE;
static char C39_FILE[C39_FILECAP + 1], O_FILE[C39_FILECAP + 1];
static const char C39_FNAME[] = "hosts";
static int O_nlines, O_ls[C39_MAXLINES + 1], O_le[C39_MAXLINES + 1];
int g_free_image, g_free_other, g_read_calls;
void event_mm_free_(void *p) { if (p == (void *)C39_FILE) g_free_image++; else if (p) g_free_other++; }
void *event_mm_malloc_(size_t sz) { (void)sz; __CPROVER_assert(0, "allocator model: malloc is not used on this path"); return NULL; }
void *event_mm_calloc_(size_t n, size_t sz) { (void)n; (void)sz; __CPROVER_assert(0, "allocator model: calloc is not used on this path"); return NULL; }
char *event_mm_strdup_(const char *s) { (void)s; __CPROVER_assert(0, "allocator model: strdup is not used on this path"); return NULL; }
int evutil_read_file_(const char *filename, char **content_out, size_t *len_out, int is_binary)
{
	size_t n = 0;
	__CPROVER_assert(filename == C39_FNAME && is_binary == 0, "evutil_read_file_: the given file, text mode");
	g_read_calls++;
	if (IN.read_err) return IN.read_err == 1 ? -1 : -2;
	while (C39_FILE[n] != '\0') n++;
	*content_out = C39_FILE; *len_out = n;
	return 0;
}
#ifndef VF_NATIVE
/* strlcpy (BSD / glibc 2.38): reference body */
size_t strlcpy(char *dst, const char *src, size_t siz)
{
	size_t i = 0, n = 0;
	while (src[n] != '\0') n++;
	if (siz == 0) return n;
	while (i + 1 < siz && src[i] != '\0') { dst[i] = src[i]; i++; }
	dst[i] = '\0';
	return n;
}
#endif
static int c39_streq_(const char *a, const char *b) { int i = 0; while (a[i] != '\0' && a[i] == b[i]) i++; return a[i] == b[i]; }
int g_line_n, g_builtin_n, g_builtin_v4_first;
int c39_hosts_line_stub(struct evdns_base *base, char *line)
{
	__CPROVER_assert(base == &C39_BASE && line != NULL, "evdns_base_parse_hosts_line: this base, a line");
	if (__CPROVER_same_object(line, C39_FILE)) {
		int off = (int)(line - C39_FILE), j, k = g_line_n;
		__CPROVER_assert(k < O_nlines && off == O_ls[k < C39_MAXLINES ? k : 0], "line k starts where the reference says (file order, each line once)");
		if (k < O_nlines && k < C39_MAXLINES && off == O_ls[k]) {
			__CPROVER_assert(C39_FILE[O_le[k]] == '\0', "the line is NUL-terminated in place at its newline when it is handed over");
			/* what the real line parser may do to the image (c39_hosts_line): SPACE/TAB/'#' bytes of this line -> NUL */
			for (j = 0; j <= C39_FILECAP; j++)
				if (j >= off && j < O_le[k] && ((IN.zap >> j) & 1u) && (C39_FILE[j] == ' ' || C39_FILE[j] == '\t' || C39_FILE[j] == '#')) C39_FILE[j] = '\0';
		}
		g_line_n++;
		return ((IN.fail_mask >> (k & 31)) & 1u) ? -1 : 0;          /* malformed lines are reported and skipped */
	}
	/* one of the two built-in lines (a local buffer) */
	if (g_builtin_n == 0) { __CPROVER_assert(c39_streq_(line, "127.0.0.1   localhost"), "fallback: first the IPv4 localhost line"); g_builtin_v4_first = 1; }
	else __CPROVER_assert(c39_streq_(line, "::1   localhost"), "fallback: then the IPv6 localhost line");
	g_builtin_n++;
	return 0;
}
#define A(c, text) __CPROVER_assert(c, text)
void harness(void)
{
	int r, i, k;
	VF_LOAD_IN();
	VF_INSTALL_LOCKS();
	__CPROVER_assume(IN.read_err >= 0 && IN.read_err <= 2);
	for (i = 0; i < C39_FILECAP; i++) { C39_FILE[i] = IN.file[i]; O_FILE[i] = IN.file[i]; }
	C39_FILE[C39_FILECAP] = '\0'; O_FILE[C39_FILECAP] = '\0';
	evdns_log_fn = NULL; current_base = NULL;
	g_free_image = g_free_other = g_read_calls = g_line_n = g_builtin_n = g_builtin_v4_first = 0;
	C39_BASE.lock = VF_LOCK_COOKIE(1); g_lock_depth[1] = 1;
	O_nlines = 0; k = 0; O_ls[0] = 0;
	for (i = 0; i <= C39_FILECAP; i++) {
		if (O_FILE[i] == '\n') { O_le[k] = i; k++; O_ls[k] = i + 1; }
		else if (O_FILE[i] == '\0') { O_le[k] = i; k++; break; }
	}
	O_nlines = k;

	r = evdns_base_load_hosts_impl(&C39_BASE, IN.fname_null ? NULL : C39_FNAME);

	A(g_free_other == 0, "nothing but the image is released");
	if (IN.fname_null || IN.read_err) {
		A(g_builtin_n == 2 && g_builtin_v4_first && g_line_n == 0 && g_free_image == 0, "no name / unreadable: exactly the two built-in localhost lines are parsed");
		A(r == (IN.fname_null ? 0 : -1), "0 when no name was given, -1 when the read failed");
	} else {
		A(r == 0 && g_builtin_n == 0, "a readable file: 0, no built-in line");
		A(g_line_n == O_nlines, "every line of the image is parsed exactly once (a last line without newline included; malformed lines do not stop the rest)");
		A(g_free_image == 1, "the image is released exactly once");
		for (i = 0; i <= C39_FILECAP; i++)
			A(C39_FILE[i] == O_FILE[i] || (C39_FILE[i] == '\0' && (O_FILE[i] == '\n' || O_FILE[i] == ' ' || O_FILE[i] == '\t' || O_FILE[i] == '#')), "only newline bytes of the image (and what the line parser cuts) are overwritten, and only by NUL");
	}
	A(g_read_calls == (IN.fname_null ? 0 : 1), "the file is read at most once");
	A(g_lock_depth[1] == 1 && g_lock_ops == 0, "C08: the base lock is neither taken nor released");
#ifdef VF_CANARY
	A(g_line_n < 3, "canary: must fail (an image can have 3 lines)");
#endif
}
