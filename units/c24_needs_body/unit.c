/* C24 — evhttp_response_needs_body (real http.c): the client's decision whether a response
 * carries a body at all (evhttp_read_header calls evhttp_connection_done when it returns 0;
 * evhttp_send_reply_start / _chunk use it on the server side too).
 * RFC 9112 6.3: (1) any response to a HEAD request and any response with a 1xx, 204 or 304
 * status has no body; (2) any 2xx response to CONNECT has no body (tunnel); every other
 * response has one (framed by Transfer-Encoding / Content-Length / connection close).
 * Loop-free; all int status codes x all request methods: proved-unbounded. */
#include "vf.h"
#include "http.c"
struct in { int code; unsigned type; };
struct in IN;
#include "stubs/log.h"

#define IS_1XX(c) ((c) >= 100 && (c) < 200)
#define IS_2XX(c) ((c) >= 200 && (c) < 300)
#define RFC_NO_BODY(t, c) ((t) == EVHTTP_REQ_HEAD || IS_1XX(c) || (c) == 204 || (c) == 304 || ((t) == EVHTTP_REQ_CONNECT && IS_2XX(c)))
/* known finding C24-connect-non-2xx: the code answers "no body" for EVERY response to CONNECT */
#define KF_CONNECT(t, c) ((t) == EVHTTP_REQ_CONNECT && !RFC_NO_BODY(t, c))

VF_CONTRACT(int, needs_body_c, struct evhttp_request *req)
__CPROVER_requires(__CPROVER_r_ok(req, sizeof(*req)))
__CPROVER_assigns()
/* 1 HEAD, 1xx, 204, 304: never a body */
__CPROVER_ensures(IMP(req->type == EVHTTP_REQ_HEAD || IS_1XX(req->response_code) || req->response_code == 204 || req->response_code == 304, __CPROVER_return_value == 0))
/* 2 successful CONNECT: tunnel, no body */
__CPROVER_ensures(IMP(req->type == EVHTTP_REQ_CONNECT && IS_2XX(req->response_code), __CPROVER_return_value == 0))
/* 3 exactly the RFC's decision */
__CPROVER_ensures(__CPROVER_return_value == (RFC_NO_BODY(req->type, req->response_code) ? 0 : 1))
;

static struct evhttp_request REQ;
void harness(void)
{
	int r;
	VF_LOAD_IN();
#ifdef VF_KF_EXCLUDE
	__CPROVER_assume(!KF_CONNECT(IN.type, IN.code));
#endif
#ifdef VF_KF_ONLY
	__CPROVER_assume(KF_CONNECT(IN.type, IN.code));
#endif
	REQ.response_code = IN.code; REQ.type = (enum evhttp_cmd_type)IN.type;
	r = VF_CALL(needs_body_c, evhttp_response_needs_body, &REQ);
#ifdef VF_CANARY
	__CPROVER_assert(r == 0, "canary: must fail (200 to GET has a body)");
#endif
}
