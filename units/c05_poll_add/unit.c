/* C05 — poll_add (real poll.c): after the call the fd's pollfd entry carries exactly the
 * interest bits of old ∪ events, its pollidx names that entry, a new entry is appended at nfds,
 * and every other entry is unchanged (witness), also across a growth of the array. */
#define _GNU_SOURCE 1    /* as evconfig-private.h does first thing (POLLRDHUP) */
#include "vf.h"
#include "poll.c"
#include "c05_poll_shape.h"
struct in { int fd; short old, events; struct c05_poll_in p; unsigned ch[VF_NCHOICE]; };
struct in IN;
#include "stubs/log.h"
#define VF_MM_NO_REALLOC
#include "stubs/mm.h"
#define C05_POLL_BODY
#include "c05_poll_shape.h"

#define EVC (IN.events & C05_COND)
#define GROW_NEEDED (EVC != 0 && IN.p.nfds + 1 >= IN.p.event_count)
#define GROW_OK (g_mm_realloc_calls == 1 && g_mm_realloc_ok)
#define NEWCOUNT (IN.p.event_count < 32 ? 32 : 2 * IN.p.event_count)
#define E_IDX (C05_HAS ? IN.p.idxplus1 - 1 : IN.p.nfds)       /* where the fd's entry is afterwards */
#define CUR (&POP.event_set[E_IDX])

VF_CONTRACT(int, poll_add_c, struct event_base *base, int fd, short old, short events, void *idx_)
__CPROVER_requires(base == &BASE && fd == IN.fd && old == IN.old && events == IN.events && idx_ == (void *)&IDX)
__CPROVER_requires((events & EV_SIGNAL) == 0 && g_mm_realloc_calls == 0)
__CPROVER_assigns(POP.event_set, POP.event_count, POP.nfds, POP.realloc_copy, IDX.idxplus1, __CPROVER_object_whole(SET), __CPROVER_object_whole(NEWSET),
	g_mm_realloc_calls, g_mm_realloc_ok, g_mm_realloc_sz, errno, vf_nchoice_)
/* 1 no I/O condition requested: nothing happens */
__CPROVER_ensures(IMP(EVC == 0, __CPROVER_return_value == 0 && POP.nfds == IN.p.nfds && IDX.idxplus1 == IN.p.idxplus1 && g_mm_realloc_calls == 0 && POP.event_set == C05_OLDSET))
/* 2 fails only when the array must grow and cannot; then nothing changes */
__CPROVER_ensures(__CPROVER_return_value == ((GROW_NEEDED && !GROW_OK) ? -1 : 0))
__CPROVER_ensures(IMP(__CPROVER_return_value == -1, POP.nfds == IN.p.nfds && IDX.idxplus1 == IN.p.idxplus1 && POP.event_set == C05_OLDSET && POP.event_count == IN.p.event_count))
/* 4 growth exactly when there is no room for one more entry, to 32 or double; the dispatch copy is flagged stale */
__CPROVER_ensures(IFF(g_mm_realloc_calls == 1, GROW_NEEDED) && g_mm_realloc_calls <= 1)
__CPROVER_ensures(IMP(GROW_NEEDED && GROW_OK, POP.event_set == NEWSET && POP.event_count == NEWCOUNT && POP.realloc_copy == 1 && g_mm_realloc_sz == (size_t)NEWCOUNT * sizeof(struct pollfd)))
__CPROVER_ensures(IMP(!GROW_NEEDED, POP.event_set == C05_OLDSET && POP.event_count == IN.p.event_count && POP.realloc_copy == 0))
/* 7 C05: the fd's entry carries exactly the interest bits of old ∪ events; stale results are cleared */
__CPROVER_ensures(IMP(__CPROVER_return_value == 0 && EVC != 0, CUR->fd == fd && CUR->events == XLP(IN.old | EVC) && CUR->revents == 0))
/* 8 links: pollidx names the entry; a first add appends at nfds */
__CPROVER_ensures(IMP(__CPROVER_return_value == 0 && EVC != 0, IDX.idxplus1 == E_IDX + 1 && POP.nfds == IN.p.nfds + (C05_HAS ? 0 : 1) && POP.nfds < POP.event_count))
/* 9 every other entry unchanged (witness w) */
__CPROVER_ensures(IMP(__CPROVER_return_value == 0 && IN.p.w < IN.p.nfds && IN.p.w != E_IDX,
	POP.event_set[IN.p.w].fd == IN.p.wfd && POP.event_set[IN.p.w].events == IN.p.wevents && POP.event_set[IN.p.w].revents == IN.p.wrevents))
;

void harness(void)
{
	int r;
	VF_LOAD_IN();
	__CPROVER_assume((IN.events & EV_SIGNAL) == 0);      /* evmap_io_add_ passes I/O conditions and EV_ET only */
	c05_build_poll();
	VF_MM_RESET();
	r = VF_CALL(poll_add_c, poll_add, &BASE, IN.fd, IN.old, IN.events, (void *)&IDX);
	(void)r;
#ifdef VF_CANARY
	__CPROVER_assert(POP.nfds == IN.p.nfds, "canary: must fail (a first add appends an entry)");
#endif
}
