/* C42 — evtag_marshal -> evtag_unmarshal_fixed round trip: raw data of <= 4 bytes, every tag.
 * Harness, reference and the full statement: contracts/c31_tag_roundtrip_harness.h (case 4 of IN.which; one case per
 * unit: CBMC decides one case in a quarter of the time it needs for two merged ones). */
#define VF_WHICH_A 4
#define VF_WHICH_B 4
#include "c31_tag_roundtrip_harness.h"
