/* C07/C08/C03 — event_signal_closure (real event.c): the ncalls loop that runs a signal event's callback.
 * "each delivery of its signal causes its callback to run with EV_SIGNAL, at least once per batch of pending
 * deliveries and with a call count no larger than the deliveries.  No callback runs after the event is deleted."
 * Contract and user-code stub: contracts/c07g_signal_closure.h.  The user callback, per call chosen from IN.act[k],
 * does nothing / event_del(ev) / event_base_loopbreak() / both.
 * Bounded: ev_ncalls <= C07G_NC (4); the loop is unwound (it is written through ev_pncalls, which points at a local).
 * -DVF_KF_ONLY additionally checks that no armed abort pointer survives the return (candidate finding: it does, after
 * a delete from inside the callback while calls were owed — a later event_del/event_free writes through it). */
#define VF_NLOCKS 1
#include "vf.h"
#include "event.c"
#include "stubs/lock.h"
#include "stubs/log.h"
#define C02_NO_AQ
#include "c02_event_shape.h"
#ifndef C07G_NC
#define C07G_NC 4
#endif
struct in { struct c02_base_in b; struct c02_ev_in e; unsigned char act[C07G_NC]; };
struct in IN;
#include "c07g_signal_closure.h"

void harness(void)
{
	VF_LOAD_IN(); VF_INSTALL_LOCKS();
	c02_build_base(&IN.b);
	c02_build_ev(&EV, &IN.e, 1);
	if (BASE.th_base_lock) g_lock_depth[1] = 1;
	C07G_RESET();
	/* event_assign: a signal event has the signal closure and no I/O bits */
	C02_ASSUME_ASSIGNED(&IN.e);
	__CPROVER_assume(IN.e.closure == EV_CLOSURE_EVENT_SIGNAL && (IN.e.events & EV_SIGNAL));
	/* the bound: 0..C07G_NC coalesced deliveries (event_active_nolock_ stores the count; evmap_signal_active_ passes >= 1) */
	__CPROVER_assume(IN.e.ncalls >= 0 && IN.e.ncalls <= C07G_NC);
	C07G_EVN = IN.e.ncalls;
	/* event_active_nolock_ leaves ev_pncalls == NULL; taken symbolic (NULL or some armed pointer) — the closure must not depend on it */
	PNCALLS = C02_PN_UNTOUCHED;
	C07G_EVPN = IN.e.has_pncalls ? &PNCALLS : NULL;
	EV.ev_callback = sig_user_cb; EV.ev_arg = &C07G_ARGOBJ;
	O_sc_n = IN.e.ncalls; O_sc_brk0 = BASE.event_break;
	VF_CALL_V(sigclosure_c, event_signal_closure, &BASE, &EV);
	__CPROVER_assert(EV.ev_res == IN.e.res && EV.ev_flags == IN.e.flags && EV.ev_events == IN.e.events && EV.ev_fd == IN.e.fd, "the closure itself changes nothing else in the event");
	__CPROVER_assert(PNCALLS == C02_PN_UNTOUCHED, "a stale ev_pncalls target from before the activation is never written");
#ifdef VF_KF_ONLY
	/* what the next event_del(ev) / event_free(ev) does first (event_del_nolock_: "See if we are just active executing this event in a loop") */
	__CPROVER_assert(!(C07G_EVN && C07G_EVPN), "after the closure returned no abort pointer is armed (a later event_del would write through it)");
	if ((EV.ev_events & EV_SIGNAL) && C07G_EVN && C07G_EVPN) *C07G_EVPN = 0;
#endif
#ifdef VF_CANARY
	__CPROVER_assert(g_sc.calls < 2, "canary: must fail (two coalesced deliveries give two calls)");
#endif
}
