/* C05/C04 — evmap_io_del_ (real evmap.c): counts decremented exactly, the backend's del entry
 * is told iff a count goes 1 -> 0, with old = the conditions registered before and events = the
 * conditions that end (plus the event's ET flag) — in particular never a condition absent from
 * old (the call-site condition of C06); the event is unlinked from the fd's list. */
#include "vf.h"
#include "evmap.c"
struct in {
	int fd; short ev_events;
	int nentries;
	unsigned short nread, nwrite, nclose;
	int has_prev, has_next;               /* the event's neighbours on the fd's list */
	int fdinfo4; int debug_mode;
	int slot_null, has_first; short first_events;     /* unused here (shared builder) */
	unsigned ch[VF_NCHOICE];
};
struct in IN;
#include "stubs/log.h"
#include "stubs/mm.h"
#include "c05_evmap_shape.h"

#define SET3(r, w, c) (((r) ? EV_READ : 0) | ((w) ? EV_WRITE : 0) | ((c) ? EV_CLOSED : 0))
#define WANTS(f) ((IN.ev_events & (f)) != 0)
#define OLDSET SET3(IN.nread, IN.nwrite, IN.nclose)
/* conditions whose count goes 1 -> 0 */
#define CROSS (SET3(WANTS(EV_READ) && IN.nread == 1, WANTS(EV_WRITE) && IN.nwrite == 1, WANTS(EV_CLOSED) && IN.nclose == 1))
#define INTABLE (IN.fd >= 0 && IN.fd < IN.nentries)
struct event **O_prevp; struct event *O_next;

VF_CONTRACT(int, io_del_c, struct event_base *base, evutil_socket_t fd, struct event *ev)
__CPROVER_requires(base == &BASE && ev == &EV && fd == IN.fd && ev->ev_fd == fd)
__CPROVER_requires(g_add_calls == 0 && g_del_calls == 0)
__CPROVER_assigns(CTX0.io.nread, CTX0.io.nwrite, CTX0.io.nclose, CTX0.io.events.lh_first,
	C05_IOL(&EV1).le_next, C05_IOL(&EV2).le_prev,
	g_del_calls, g_be_fd, g_be_old, g_be_events, g_be_fdinfo, g_be_res, errno, vf_nchoice_)
/* 1 */
__CPROVER_ensures(__CPROVER_return_value == -1 || __CPROVER_return_value == 0 || __CPROVER_return_value == 1)
/* 2 fd outside the table: nothing happens (0 for a negative fd, -1 beyond the table) */
__CPROVER_ensures(IMP(!INTABLE, __CPROVER_return_value == (fd < 0 ? 0 : -1) && g_del_calls == 0
	&& CTX0.io.nread == IN.nread && CTX0.io.nwrite == IN.nwrite && CTX0.io.nclose == IN.nclose && *O_prevp == &EV))
/* 3 the add entry point is never used, del at most once */
__CPROVER_ensures(g_add_calls == 0 && g_del_calls <= 1)
/* 4 counts decremented exactly by what this event asked for — also when the backend fails */
__CPROVER_ensures(IMP(INTABLE, CTX0.io.nread == IN.nread - WANTS(EV_READ) && CTX0.io.nwrite == IN.nwrite - WANTS(EV_WRITE) && CTX0.io.nclose == IN.nclose - WANTS(EV_CLOSED)))
/* 5 backend told iff a count goes 1 -> 0 */
__CPROVER_ensures(IMP(INTABLE, IFF(g_del_calls == 1, CROSS != 0)))
/* 6 ... with old = conditions registered before, events = the ending conditions plus the event's ET flag, this fd's fdinfo */
__CPROVER_ensures(IMP(g_del_calls == 1, g_be_fd == fd && g_be_old == OLDSET && g_be_events == (CROSS | (IN.ev_events & EV_ET)) && g_be_fdinfo == (void *)&CTX0.fdinfo[0]))
/* 7 C06 call-site condition: a delete never names a condition that is not in old */
__CPROVER_ensures(IMP(g_del_calls == 1, (g_be_events & (EV_READ|EV_WRITE|EV_CLOSED) & ~g_be_old) == 0 && (g_be_events & (EV_READ|EV_WRITE|EV_CLOSED)) != 0))
/* 8 return value */
__CPROVER_ensures(IMP(INTABLE, __CPROVER_return_value == (g_del_calls == 0 ? 0 : g_be_res == 0 ? 1 : -1)))
/* 9 the event is unlinked; its neighbours are joined */
__CPROVER_ensures(IMP(INTABLE, *O_prevp == O_next && IMP(O_next != NULL, C05_IOL(O_next).le_prev == O_prevp)))
/* 10 the per-fd record stays in the table */
__CPROVER_ensures(IMP(INTABLE, OLDTAB[IN.fd] == (void *)&CTX0))
;

void harness(void)
{
	int r;
	VF_LOAD_IN();
	IN.slot_null = 0; IN.has_first = 0; IN.first_events = 0;
	__CPROVER_assume(IN.nentries >= 0 && IN.nentries <= C05_NOLD);
	OPS.add = c05_be_add; OPS.del = c05_be_del; OPS.fdinfo_len = IN.fdinfo4 ? 4 : 0;
	BASE.evsel = &OPS; BASE.io.nentries = IN.nentries; BASE.io.entries = C05_OLDTAB;
	event_debug_mode_on_ = IN.debug_mode != 0;
	EV.ev_fd = IN.fd; EV.ev_events = IN.ev_events;
	/* the event is on the list of its fd (evmap_io_add_ put it there; event_del_nolock_ calls
	 * evmap_io_del_ only for EVLIST_INSERTED events), so each condition it wants has count >= 1 */
	__CPROVER_assume(IMP(WANTS(EV_READ), IN.nread >= 1) && IMP(WANTS(EV_WRITE), IN.nwrite >= 1) && IMP(WANTS(EV_CLOSED), IN.nclose >= 1));
	if (INTABLE) OLDTAB[IN.fd] = &CTX0;
	CTX0.io.nread = IN.nread; CTX0.io.nwrite = IN.nwrite; CTX0.io.nclose = IN.nclose;
	if (IN.has_prev) {
		CTX0.io.events.lh_first = &EV1; C05_IOL(&EV1).le_prev = &CTX0.io.events.lh_first;
		C05_IOL(&EV1).le_next = &EV; C05_IOL(&EV).le_prev = &C05_IOL(&EV1).le_next;
	} else {
		CTX0.io.events.lh_first = &EV; C05_IOL(&EV).le_prev = &CTX0.io.events.lh_first;
	}
	C05_IOL(&EV).le_next = IN.has_next ? &EV2 : NULL;
	C05_IOL(&EV2).le_prev = &C05_IOL(&EV).le_next; C05_IOL(&EV2).le_next = NULL;
	O_prevp = C05_IOL(&EV).le_prev; O_next = C05_IOL(&EV).le_next;
	g_add_calls = 0; g_del_calls = 0; g_be_fd = 0; g_be_old = 0; g_be_events = 0; g_be_fdinfo = NULL; g_be_res = 0;
	VF_MM_RESET();
	r = VF_CALL(io_del_c, evmap_io_del_, &BASE, IN.fd, &EV);
	(void)r;
#ifdef VF_CANARY
	__CPROVER_assert(g_del_calls == 0, "canary: must fail (some deletes reach the backend)");
#endif
}
