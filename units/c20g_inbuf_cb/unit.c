/* c20g_inbuf_cb entered through bufferevent_filtered_inbuf_cb — see units/c20g_read_nolock/unit.c (-DC20G_VIA_INBUF_CB) */
#include "../c20g_read_nolock/unit.c"
