/* C18/C19/C08/C10 — bufferevent_trigger (public, real bufferevent.c) for the deferred read trigger that
 * bufferevent_inbuf_wm_check issues: contract bev_trigger_defer_c (contracts/c18_bev_contracts.h).  incref_and_lock_, trigger_nolock_,
 * run_readcb_, decref_and_unlock_ inlined.  The contract is NOT used for replacement anywhere (a bit-field in a replaced contract's assigns
 * clause is not havocked by CBMC 6.11, see the note in c18_trigger); the other units inline bufferevent_trigger.  Never calls the user
 * directly, never drops the last reference. */
#include "c18_bev_unit.h"
#include "c18_bev_contracts.h"
void harness(void)
{
	VF_LOAD_IN();
	vf_bev_build();
	__CPROVER_assume(IN.refcnt >= 1 && IN.refcnt <= (1 << 24) + 8);
	__CPROVER_assume(IN.options & BEV_OPT_DEFER_CALLBACKS);
	O_rp_ = IN.rp & 1;
	VF_CALL_V(bev_trigger_defer_c, bufferevent_trigger, BEV, EV_READ, IN.options);
	__CPROVER_assert(g_e.nseq == 0, "deferred trigger: no user callback is called directly");
	__CPROVER_assert(g_e.fin_calls == 0, "the reference taken for the call is not the last one: no finalization");
	__CPROVER_assert(BEVP.writecb_pending == (IN.wp & 1) && BEVP.eventcb_pending == IN.ep, "other pending bits untouched");
#ifdef VF_CANARY
	__CPROVER_assert(BEVP.readcb_pending == (IN.rp & 1), "canary: must fail (the trigger sets the pending bit)");
#endif
}
