/* C26/C23 — evhttp_add_header + evhttp_add_header_internal (real http.c): the one entry through
 * which header fields reach a message (user API, the automatic headers of evhttp_make_header_*,
 * and the parser evhttp_parse_headers_).
 *   - refused (-1, list unchanged, nothing leaked): empty name, name containing CR or LF, value
 *     with a CR/LF run not followed by SP/HT, allocation failure;
 *   - accepted (0): a COPY of (name, value) is appended at the tail, the existing fields keep
 *     their order and contents;
 *   - never refused without reason: valid name + RFC-conformant value + no allocation failure => 0;
 *   - property obligation "rfc": an accepted (name, value) serialises as ONE field line.
 * List of 0..2 existing fields built by the harness; name/value right-aligned in their objects. */
#ifndef VF_N
#define VF_N 6
#endif
#define VF_STRMAX VF_N
#include "vf.h"
#include "http.c"
struct in { unsigned char k[VF_N], v[VF_N]; unsigned klen, vlen, nhdr; unsigned ch[VF_NCHOICE]; };
struct in IN;
#include "stubs/log.h"
#include "stubs/c23_libc_ref.h"
#include "stubs/c23_mm.h"
#include "c23_ref.h"

static char KB[VF_N + 1], VB[VF_N + 1];
static struct evkeyvalq Q;
static struct evkeyval H[2];
static char HK[2][2] = { "A", "B" }, HV[2][2] = { "x", "y" };

void harness(void)
{
	unsigned i; int r; char *k, *v; struct evkeyval *last, *e; int name_ok, nofail;
	VF_LOAD_IN(); VF_MM_RESET();
	__CPROVER_assume(IN.klen <= VF_N && IN.vlen <= VF_N && IN.nhdr <= 2);
	for (i = 0; i < VF_N; i++) {
		KB[i] = (char)IN.k[i]; if (i >= VF_N - IN.klen) __CPROVER_assume(IN.k[i] != 0);
		VB[i] = (char)IN.v[i]; if (i >= VF_N - IN.vlen) __CPROVER_assume(IN.v[i] != 0);
	}
	KB[VF_N] = 0; VB[VF_N] = 0;
	k = &KB[VF_N - IN.klen]; v = &VB[VF_N - IN.vlen];
	TAILQ_INIT(&Q);
	for (i = 0; i < 2; i++) {
		HK[i][0] = (char)('A' + i); HK[i][1] = 0; HV[i][0] = (char)('x' + i); HV[i][1] = 0;
		H[i].key = HK[i]; H[i].value = HV[i];
		if (i < IN.nhdr) TAILQ_INSERT_TAIL(&Q, &H[i], next);
	}
#ifdef VF_KF_EXCLUDE
	__CPROVER_assume(ref_runs_ok(v, IN.vlen) == ref_rfc_ok(v, IN.vlen));   /* known finding C26-value-multi-newline */
#endif
#ifdef VF_KF_ONLY
	__CPROVER_assume(ref_runs_ok(v, IN.vlen) != ref_rfc_ok(v, IN.vlen));
#endif
	r = evhttp_add_header(&Q, k, v);

	name_ok = IN.klen > 0 && ref_no_crlf(k, IN.klen);
	nofail = !(IN.ch[0] & 1u) && !(IN.ch[1] & 1u) && !(IN.ch[2] & 1u);
	__CPROVER_assert(r == 0 || r == -1, "returns 0 or -1");
	__CPROVER_assert(IMP(r == 0, name_ok), "accepted => name is non-empty and contains neither CR nor LF");
	__CPROVER_assert(IMP(r == 0, ref_runs_ok(v, IN.vlen)), "accepted => every CR/LF run of the value is followed by SP/HT");
	__CPROVER_assert(IMP(r == 0, ref_rfc_ok(v, IN.vlen)), "rfc: an accepted value serialises as ONE field line (only single CRLF SP/HT folds)");
	__CPROVER_assert(IMP(name_ok && ref_rfc_ok(v, IN.vlen) && nofail, r == 0), "a valid name with an RFC-conformant value is accepted unless an allocation fails");
	last = TAILQ_LAST(&Q, evkeyvalq);
	if (r == 0) {
		__CPROVER_assert(last != NULL && last != &H[0] && last != &H[1], "accepted: a new entry is at the tail");
		__CPROVER_assert(last->key != k && last->value != v && ref_streq(last->key, k) && ref_streq(last->value, v), "accepted: the entry holds copies of name and value");
		__CPROVER_assert(TAILQ_NEXT(last, next) == NULL, "accepted: tail entry terminates the list");
		e = TAILQ_PREV(last, evkeyvalq, next);
		__CPROVER_assert(e == (IN.nhdr == 0 ? NULL : &H[IN.nhdr - 1]), "accepted: appended after the previously last field");
		__CPROVER_assert(g_mm_live == 3, "accepted: exactly entry + two strings allocated");
	} else {
		__CPROVER_assert(last == (IN.nhdr == 0 ? NULL : &H[IN.nhdr - 1]), "refused: list tail unchanged");
		__CPROVER_assert(g_mm_live == 0, "refused: nothing leaked");
	}
	__CPROVER_assert(TAILQ_FIRST(&Q) == (IN.nhdr == 0 ? (r == 0 ? last : NULL) : &H[0]), "existing fields keep their place (head)");
	__CPROVER_assert(IMP(IN.nhdr == 2, TAILQ_NEXT(&H[0], next) == &H[1]), "existing fields keep their order");
	__CPROVER_assert(H[0].key == HK[0] && H[0].value == HV[0] && H[1].key == HK[1] && H[1].value == HV[1] && HK[0][0] == 'A' && HV[1][0] == 'y', "existing fields keep their contents");
#ifdef VF_CANARY
	__CPROVER_assert(r == -1, "canary: must fail (some headers are accepted)");
#endif
}
