/* C19/C08/C10 — bufferevent_run_deferred_callbacks_unlocked (real bufferevent.c); see contracts/c19_deferred_unit.h */
#define C19_UNLOCKED 1
#include "c19_deferred_unit.h"
