/* C11 — evmap_reinit_ with evmap_io_foreach_fd / evmap_signal_foreach_signal inlined (real evmap.c):
 * after a fork the new backend is told about EVERY fd that has a record (exactly once each, witness fd),
 * then about every signal that has a record (exactly once each, witness signal); the result is -1 iff
 * some re-registration failed.  Both table loops are closed by loop contracts; the two iterator
 * functions are replaced by their contracts (enforced in c11_io_reinit_iter / c11_signal_reinit_iter). */
#include "c11_reinit.h"
int G_wio, G_wsg, G_nio, G_nsg, G_w, G_ws;       /* ghost constants for the loop-contract file: witness slot has a record */

VF_CONTRACT(int, reinit_c, struct event_base *base)
__CPROVER_requires(base == &BASE && g_add_calls == 0 && g_w_calls == 0 && g_any_failed == 0 && g_sadd_calls == 0 && g_ws_calls == 0 && g_sany_failed == 0)
__CPROVER_assigns(g_add_calls, g_w_calls, g_any_failed, g_be_res, g_be_fd, g_be_old, g_be_events, g_be_arg, g_be_fdinfo_zero, vf_nchoice_,
	g_sadd_calls, g_ws_calls, g_sany_failed, g_sbe_res, g_sbe_fd, g_sbe_old, g_sbe_events, g_sbe_arg,
	__CPROVER_object_upto(IOR0.fdinfo, 4), __CPROVER_object_upto(IOR1.fdinfo, 4), __CPROVER_object_upto(IOR2.fdinfo, 4), __CPROVER_object_upto(IOR3.fdinfo, 4))
/* 1 result: -1 iff some re-registration failed */
__CPROVER_ensures(__CPROVER_return_value == ((g_any_failed || g_sany_failed) ? -1 : 0))
/* 2 every fd with a record is re-registered exactly once, fds without record never (witness w) */
__CPROVER_ensures(g_w_calls == G_wio)
/* 3 signals are re-registered after the fds, unless an fd failed (the function gives up then) */
__CPROVER_ensures(IMP(g_any_failed, g_sadd_calls == 0))
__CPROVER_ensures(IMP(!g_any_failed, g_ws_calls == G_wsg))
/* 5 never more registrations than slots */
__CPROVER_ensures(g_add_calls <= IN.nio && g_sadd_calls <= IN.nsg)
;

void harness(void)
{
	int r;
	VF_LOAD_IN();
	c11_build();
	G_wio = (IN.w >= 0 && IN.w < IN.nio && !IN.io_null[IN.w]) ? 1 : 0;
	G_wsg = (IN.ws >= 0 && IN.ws < IN.nsg && !IN.sg_null[IN.ws] && IN.sg_has_ev[IN.ws]) ? 1 : 0;
	G_nio = IN.nio; G_nsg = IN.nsg; G_w = IN.w; G_ws = IN.ws;
	r = VF_CALL(reinit_c, evmap_reinit_, &BASE);
	(void)r;
#ifdef VF_CANARY
	__CPROVER_assert(g_add_calls < 4, "canary: must fail (four fds can all be re-registered)");
#endif
}
