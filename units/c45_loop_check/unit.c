/* the check-watcher walk of event_base_loop: same text as unit c45_loop_watchers (see there), VF_LIST=1 */
#include "../c45_loop_watchers/unit.c"
