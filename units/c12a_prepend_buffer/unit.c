/* C12/C13/C14/C08 — evbuffer_prepend_buffer (real buffer.c) on two buffers of <= 3 chains each: see contracts/c12a_twobuf.h */
#define C12A_PREPEND 1
#include "c12a_twobuf.h"
